import GlueVerif.Model.StatsSeq
/-! Helper lemmas for the sequence theorems of C10 (heap programs never write to a pre-existing
array; their values are the pure `Stats` functions).  Core Lean only. -/
namespace GlueVerif.Lemmas.C10Seq
open GlueVerif.ArrayUtil GlueVerif.Stats GlueVerif.StatsSeq

/-! ### heap operations, projections -/

@[simp] theorem allocB_bools (h : Heap) (m) (a) :
    (h.allocB m).1.bools a = if a = h.nb then m else h.bools a := rfl
@[simp] theorem allocB_nb (h : Heap) (m) : (h.allocB m).1.nb = h.nb + 1 := rfl
@[simp] theorem allocB_id (h : Heap) (m) : (h.allocB m).2 = h.nb := rfl
@[simp] theorem allocB_vals (h : Heap) (m) : (h.allocB m).1.vals = h.vals := rfl
@[simp] theorem allocB_nv (h : Heap) (m) : (h.allocB m).1.nv = h.nv := rfl
@[simp] theorem allocB_memo (h : Heap) (m) : (h.allocB m).1.memo = h.memo := rfl
@[simp] theorem allocV_vals (h : Heap) (x) (a) :
    (h.allocV x).1.vals a = if a = h.nv then x else h.vals a := rfl
@[simp] theorem allocV_nv (h : Heap) (x) : (h.allocV x).1.nv = h.nv + 1 := rfl
@[simp] theorem allocV_id (h : Heap) (x) : (h.allocV x).2 = h.nv := rfl
@[simp] theorem allocV_bools (h : Heap) (x) : (h.allocV x).1.bools = h.bools := rfl
@[simp] theorem allocV_nb (h : Heap) (x) : (h.allocV x).1.nb = h.nb := rfl
@[simp] theorem allocV_memo (h : Heap) (x) : (h.allocV x).1.memo = h.memo := rfl
@[simp] theorem iand_vals (h : Heap) (r m) : (h.iand r m).vals = h.vals := rfl
@[simp] theorem iand_nb (h : Heap) (r m) : (h.iand r m).nb = h.nb := rfl
@[simp] theorem iand_nv (h : Heap) (r m) : (h.iand r m).nv = h.nv := rfl
@[simp] theorem iand_memo (h : Heap) (r m) : (h.iand r m).memo = h.memo := rfl
theorem iand_bools_ne (h : Heap) (r m) (a) (ha : a ≠ r.id) : (h.iand r m).bools a = h.bools a := by
  simp only [Heap.iand, if_neg ha]
@[simp] theorem iand_bools_base (h : Heap) (t : Nat) (m) :
    (h.iand ⟨t, none⟩ m).bools t = fun i => h.bools t i && m i := by
  simp only [Heap.iand, if_pos]
@[simp] theorem setNan_bools (h : Heap) (t k) : (h.setNan t k).bools = h.bools := rfl
@[simp] theorem setNan_nb (h : Heap) (t k) : (h.setNan t k).nb = h.nb := rfl
@[simp] theorem setNan_nv (h : Heap) (t k) : (h.setNan t k).nv = h.nv := rfl
@[simp] theorem setNan_memo (h : Heap) (t k) : (h.setNan t k).memo = h.memo := rfl
theorem setNan_vals_ne (h : Heap) (t k a) (ha : a ≠ t) : (h.setNan t k).vals a = h.vals a := by
  simp only [Heap.setNan, if_neg ha]
@[simp] theorem setNan_vals_eq (h : Heap) (t k) :
    (h.setNan t k).vals t = fun i => if k i then h.vals t i else .nan := by
  simp only [Heap.setNan, if_pos]

theorem iand_base_bools_ne (h : Heap) (t : Nat) (m) (a) (ha : a ≠ t) :
    (h.iand ⟨t, none⟩ m).bools a = h.bools a := iand_bools_ne h ⟨t, none⟩ m a ha

theorem readB_congr (h g : Heap) (r : BRef) (e : g.bools r.id = h.bools r.id) :
    g.readB r = h.readB r := by
  unfold Heap.readB
  cases r.sub <;> simp only [e]

/-! ### frames -/

theorem Frame.refl (h : Heap) : Frame h h :=
  ⟨Nat.le_refl _, Nat.le_refl _, fun _ _ => rfl, fun _ _ => rfl, ⟨[], (List.append_nil _).symm⟩⟩

theorem Frame.trans {h1 h2 h3 : Heap} (a : Frame h1 h2) (b : Frame h2 h3) : Frame h1 h3 := by
  refine ⟨Nat.le_trans a.nb b.nb, Nat.le_trans a.nv b.nv, ?_, ?_, ?_⟩
  · intro x hx
    rw [b.bools x (Nat.lt_of_lt_of_le hx a.nb), a.bools x hx]
  · intro x hx
    rw [b.vals x (Nat.lt_of_lt_of_le hx a.nv), a.vals x hx]
  · obtain ⟨e1, h1e⟩ := a.memo
    obtain ⟨e2, h2e⟩ := b.memo
    exact ⟨e1 ++ e2, by rw [h2e, h1e, List.append_assoc]⟩

theorem frame_allocB (h : Heap) (m) : Frame h (h.allocB m).1 := by
  refine ⟨Nat.le_succ _, Nat.le_refl _, ?_, fun _ _ => rfl, ⟨[], (List.append_nil _).symm⟩⟩
  intro a ha
  simp only [allocB_bools, if_neg (Nat.ne_of_lt ha)]

theorem frame_allocV (h : Heap) (x) : Frame h (h.allocV x).1 := by
  refine ⟨Nat.le_refl _, Nat.le_succ _, fun _ _ => rfl, ?_, ⟨[], (List.append_nil _).symm⟩⟩
  intro a ha
  simp only [allocV_vals, if_neg (Nat.ne_of_lt ha)]

/-- An in-place `&=` on an object allocated after `h0` is invisible from `h0`. -/
theorem frame_iand_fresh {h0 h : Heap} (hf : Frame h0 h) (r : BRef) (m) (hr : h0.nb ≤ r.id) :
    Frame h0 (h.iand r m) := by
  refine ⟨hf.nb, hf.nv, ?_, hf.vals, hf.memo⟩
  intro a ha
  rw [iand_bools_ne h r m a (Nat.ne_of_lt (Nat.lt_of_lt_of_le ha hr)), hf.bools a ha]

theorem frame_setNan_fresh {h0 h : Heap} (hf : Frame h0 h) (t : Nat) (k) (ht : h0.nv ≤ t) :
    Frame h0 (h.setNan t k) := by
  refine ⟨hf.nb, hf.nv, hf.bools, ?_, hf.memo⟩
  intro a ha
  rw [setNan_vals_ne h t k a (Nat.ne_of_lt (Nat.lt_of_lt_of_le ha ht)), hf.vals a ha]

/-! ### `compute_statistic` (utils level) -/

@[simp] theorem isNan_nan : Val.isNan .nan = true := rfl

/-- What `keep` is after the three `&=`, and that building it touched nothing else. -/
theorem keepH_spec (h : Heap) (cfg : Cfg) (d : VRef) (m : Option BRef)
    (hm : ∀ r, m = some r → r.id < h.nb) :
    let g := keepH false h cfg d m
    g.2 = ⟨h.nb, none⟩ ∧ g.1.vals = h.vals ∧ g.1.nv = h.nv ∧ g.1.nb = h.nb + 1 ∧
      g.1.memo = h.memo ∧ (∀ a, a ≠ h.nb → g.1.bools a = h.bools a) ∧
      g.1.bools h.nb = fun i =>
        (!cfg.finite || (h.readV d i).isFin) && (!cfg.positive || (h.readV d i).isPos) &&
          h.readOpt m i := by
  cases hfin : cfg.finite <;> cases hpos : cfg.positive <;> cases m <;>
    simp only [keepH, hfin, hpos, Bool.false_eq_true, if_false, if_true] <;>
    refine ⟨rfl, rfl, rfl, rfl, rfl, ?_, ?_⟩
  all_goals first
    | (intro a ha
       simp only [iand_base_bools_ne _ _ _ _ ha, allocB_bools, allocB_id, if_neg ha])
    | (funext i
       simp only [iand_bools_base, allocB_bools, allocB_id, if_pos, Heap.readV, iand_vals,
         allocB_vals, Heap.readOpt, Bool.not_false, Bool.not_true, Bool.true_or, Bool.false_or,
         Bool.true_and, Bool.and_true]
       try (
         have hr := Nat.ne_of_lt (hm _ rfl)
         rw [readB_congr h _ _ (by
           simp only [iand_base_bools_ne _ _ _ _ hr, allocB_bools, if_neg hr])]))

theorem keepH_frame (h : Heap) (cfg : Cfg) (d : VRef) (m : Option BRef) :
    Frame h (keepH false h cfg d m).1 ∧ h.nb ≤ (keepH false h cfg d m).2.id := by
  have h1 : Frame h (h.allocB fun _ => true).1 := frame_allocB h _
  have hk : h.nb ≤ (⟨(h.allocB fun _ => true).2, none⟩ : BRef).id := Nat.le_refl _
  cases hfin : cfg.finite <;> cases hpos : cfg.positive <;> cases m <;>
    simp only [keepH, hfin, hpos, Bool.false_eq_true, if_false, if_true] <;>
    refine ⟨?_, Nat.le_refl _⟩ <;>
    first
      | exact h1
      | exact frame_iand_fresh h1 _ _ hk
      | exact frame_iand_fresh (frame_iand_fresh h1 _ _ hk) _ _ hk
      | exact frame_iand_fresh (frame_iand_fresh (frame_iand_fresh h1 _ _ hk) _ _ hk) _ _ hk

/-- **No write to anything that existed before the call**: `keep` is a fresh object, the data is
copied before NaNs are written. -/
theorem uStatH_frame (h : Heap) (cfg : Cfg) (red sh) (d : VRef) (m : Option BRef) (an : Bool) :
    Frame h (uStatH false h cfg red sh d m an).1 := by
  unfold uStatH
  split
  · have hk := (keepH_frame h cfg d m).1
    cases an <;> simp only [Bool.false_eq_true, if_false, if_true]
    · exact frame_setNan_fresh (Frame.trans hk (frame_allocV _ _)) _ _ hk.nv
    · exact Frame.trans hk (frame_allocV _ _)
  · exact Frame.refl h

/-- **Value**: the heap program computes `uStat` of the data and mask *as they were at the call*. -/
theorem uStatH_val (h : Heap) (cfg : Cfg) (red sh) (d : VRef) (m : Option BRef) (an : Bool)
    (hd : d.id < h.nv) (hm : ∀ r, m = some r → r.id < h.nb) :
    (uStatH false h cfg red sh d m an).2 =
      uStat cfg (cfg.finite || cfg.positive || m.isSome) red sh (h.readV d) (h.readOpt m) := by
  obtain ⟨e2, ev, env, _, _, _, ek⟩ := keepH_spec h cfg d m hm
  unfold uStatH uStat
  split
  · rename_i hflag
    simp only [hflag]
    generalize keepH false h cfg d m = g at e2 ev env ek
    obtain ⟨g1, g2⟩ := g
    simp only at e2 ev env ek
    subst e2
    have hdn : d.id ≠ g1.nv := by rw [env]; exact Nat.ne_of_lt hd
    congr 1
    funext kk
    congr 2
    funext i
    cases an <;>
      simp only [Bool.false_eq_true, if_false, keepFn, Heap.readV, Heap.readB, ek, ev,
        allocV_vals, allocV_id, setNan_vals_eq, if_pos, Bool.not_false,
        Bool.not_true, Bool.true_or, Bool.false_or, Bool.true_and]
    all_goals (
      rcases Bool.eq_false_or_eq_true cfg.finite with h1 | h1 <;>
      rcases Bool.eq_false_or_eq_true cfg.positive with h2 | h2 <;>
      rcases Bool.eq_false_or_eq_true (h.readOpt m i) with h3 | h3 <;>
      rcases Bool.eq_false_or_eq_true (h.vals d.id (d.ix i)).isFin with h4 | h4 <;>
      rcases Bool.eq_false_or_eq_true (h.vals d.id (d.ix i)).isPos with h5 | h5 <;>
      rcases Bool.eq_false_or_eq_true (h.vals d.id (d.ix i)).isNan with h6 | h6 <;>
      simp [h1, h2, h3, h4, h5, h6])
  · rename_i hflag
    have hf : (cfg.finite || cfg.positive || m.isSome) = false := by
      cases hq : (cfg.finite || cfg.positive || m.isSome) <;> simp_all
    rw [hf]
    rfl

theorem uStatH_memo (h : Heap) (cfg : Cfg) (red sh) (d : VRef) (m : Option BRef) (an : Bool) :
    (uStatH false h cfg red sh d m an).1.memo = h.memo := by
  unfold uStatH
  split
  · cases hfin : cfg.finite <;> cases hpos : cfg.positive <;> cases m <;> cases an <;>
      simp only [keepH, hfin, hpos, Bool.false_eq_true, if_false, if_true] <;> rfl
  · rfl

/-! ### `to_mask` and the memo table -/

/-- Writes that leave every cached object alone keep the cache coherent. -/
theorem coherent_of_frame {S : Nat → SObj} {h h' : Heap} (hc : Coherent S h) (hf : Frame h h')
    (hm : h'.memo = h.memo) : Coherent S h' := by
  intro e he
  rw [hm] at he
  obtain ⟨h1, h2⟩ := hc e he
  exact ⟨Nat.lt_of_lt_of_le h1 hf.nb, by rw [hf.bools _ h1, h2]⟩

theorem lookup_mem {h : Heap} {k : MKey} {a : Nat} (hl : h.lookup k = some a) : (k, a) ∈ h.memo := by
  unfold Heap.lookup at hl
  cases hf : h.memo.find? (fun e => decide (e.1 = k)) with
  | none => rw [hf] at hl; cases hl
  | some e =>
    rw [hf] at hl
    have hp := List.find?_some hf
    have hmem := List.mem_of_find?_eq_some hf
    have he1 : e.1 = k := of_decide_eq_true hp
    have he2 : e.2 = a := by simpa using hl
    rw [← he1, ← he2]
    exact hmem

/-- `to_mask`: returns an allocated object holding the value of the key; nothing that existed is
touched; the cache stays coherent. -/
theorem toMaskH_spec (S : Nat → SObj) (h : Heap) (k : MKey) (hc : Coherent S h) :
    Frame h (toMaskH S h k).1 ∧ Coherent S (toMaskH S h k).1 ∧
      (toMaskH S h k).2 < (toMaskH S h k).1.nb ∧
      (toMaskH S h k).1.bools (toMaskH S h k).2 = maskContent S k ∧
      (toMaskH S h k).1.vals = h.vals ∧ (toMaskH S h k).1.nv = h.nv := by
  unfold toMaskH
  split
  · split
    · rename_i a hl
      obtain ⟨h1, h2⟩ := hc _ (lookup_mem hl)
      exact ⟨Frame.refl h, hc, h1, h2, rfl, rfl⟩
    · refine ⟨?_, ?_, Nat.lt_succ_self _, ?_, rfl, rfl⟩
      · exact ⟨Nat.le_succ _, Nat.le_refl _, (frame_allocB h _).bools, fun _ _ => rfl, ⟨_, rfl⟩⟩
      · intro e he
        rcases List.mem_append.mp he with he | he
        · obtain ⟨h1, h2⟩ := hc e he
          refine ⟨Nat.lt_succ_of_lt h1, ?_⟩
          show (h.allocB _).1.bools e.2 = _
          rw [allocB_bools, if_neg (Nat.ne_of_lt h1), h2]
        · have : e = (k, h.nb) := by simpa using he
          subst this
          refine ⟨Nat.lt_succ_self _, ?_⟩
          show (h.allocB _).1.bools h.nb = _
          rw [allocB_bools, if_pos rfl]
      · show (h.allocB _).1.bools h.nb = _
        rw [allocB_bools, if_pos rfl]
  · refine ⟨frame_allocB h _, coherent_of_frame hc (frame_allocB h _) rfl, Nat.lt_succ_self _, ?_, rfl, rfl⟩
    rw [allocB_id, allocB_bools, if_pos rfl]

/-! ### `Data.compute_statistic` -/

theorem implMaskedH_frame (S : Nat → SObj) (h : Heap) (cfg : Cfg) (att : Nat) (v red) (a : Nat)
    (an : Bool) (hc : Coherent S h) :
    Frame h (implMaskedH false h cfg att v red a an).1 ∧
      Coherent S (implMaskedH false h cfg att v red a an).1 := by
  unfold implMaskedH
  simp only
  split
  · exact ⟨Frame.refl h, hc⟩
  · split
    · exact ⟨uStatH_frame _ _ _ _ _ _ _, coherent_of_frame hc (uStatH_frame _ _ _ _ _ _ _)
        (uStatH_memo _ _ _ _ _ _ _)⟩
    · exact ⟨uStatH_frame _ _ _ _ _ _ _, coherent_of_frame hc (uStatH_frame _ _ _ _ _ _ _)
        (uStatH_memo _ _ _ _ _ _ _)⟩

theorem implMaskedH_val (h : Heap) (cfg : Cfg) (att : Nat) (v red) (a : Nat) (an : Bool)
    (ha : a < h.nb) (hatt : att < h.nv) (m : Idx → Bool)
    (hm : h.bools a = fun j => inRange j (viewShape' v) && m (viewIdx v j)) :
    (implMaskedH false h cfg att v red a an).2 = implDirect.implMasked cfg (h.vals att) v red m := by
  unfold implMaskedH implDirect.implMasked
  simp only [hm]
  split
  · rfl
  · split
    · rw [uStatH_val _ _ _ _ _ _ _ hatt (by intro r hr; cases hr; exact ha)]
      simp only [Option.isSome, Bool.or_true, Heap.readOpt, Heap.readB, hm]
      rfl
    · rw [uStatH_val _ _ _ _ _ _ _ hatt (by intro r hr; cases hr; exact ha)]
      simp only [Option.isSome, Bool.or_true, Heap.readOpt, Heap.readB, hm]
      rfl

theorem uStatImplH_spec (S : Nat → SObj) (h : Heap) (cfg : Cfg) (red sh) (d : VRef) (an : Bool)
    (hc : Coherent S h) (hd : d.id < h.nv) :
    Frame h (uStatImplH false h cfg red sh d none an).1 ∧
      Coherent S (uStatImplH false h cfg red sh d none an).1 ∧
      (uStatImplH false h cfg red sh d none an).2 =
        uStatImpl cfg (cfg.finite || cfg.positive) red sh (h.readV d) (fun _ => true) := by
  unfold uStatImplH uStatImpl
  split
  · exact ⟨Frame.refl h, hc, rfl⟩
  · refine ⟨uStatH_frame _ _ _ _ _ _ _, coherent_of_frame hc (uStatH_frame _ _ _ _ _ _ _)
      (uStatH_memo _ _ _ _ _ _ _), ?_⟩
    rw [uStatH_val _ _ _ _ _ _ _ hd (by intro r hr; cases hr)]
    simp only [Option.isSome, Bool.or_false, Heap.readOpt]

/-- `Data.compute_statistic` after the chunking branch: frame, coherent cache, and the value of the
pure model on the data and selection as they are stored. -/
theorem implDirectH_spec (S : Nat → SObj) (h : Heap) (cfg : Cfg) (att : Nat) (sid : Option Nat)
    (vk : ViewKind) (v red) (an : Bool) (hc : Coherent S h) (hatt : att < h.nv) :
    Frame h (implDirectH false S h cfg att sid vk v red an).1 ∧
      Coherent S (implDirectH false S h cfg att sid vk v red an).1 ∧
      (implDirectH false S h cfg att sid vk v red an).2 =
        implDirect cfg (h.vals att) (selOf S sid) vk v red := by
  cases sid with
  | none =>
    have := uStatImplH_spec S h cfg red (viewShape' v) ⟨att, viewIdx v⟩ an hc hatt
    simp only [implDirectH, implDirect, selOf]
    exact this
  | some s =>
    have key : ∀ (m : Idx → Bool), (S s).sel.toSelM.maskFn = m →
        Frame h (implMaskedH false (toMaskH S h ⟨s, .pos, vk, v⟩).1 cfg att v red
          (toMaskH S h ⟨s, .pos, vk, v⟩).2 an).1 ∧
        Coherent S (implMaskedH false (toMaskH S h ⟨s, .pos, vk, v⟩).1 cfg att v red
          (toMaskH S h ⟨s, .pos, vk, v⟩).2 an).1 ∧
        (implMaskedH false (toMaskH S h ⟨s, .pos, vk, v⟩).1 cfg att v red
          (toMaskH S h ⟨s, .pos, vk, v⟩).2 an).2 = implDirect.implMasked cfg (h.vals att) v red m := by
      intro m hmm
      obtain ⟨f1, c1, l1, b1, v1, n1⟩ := toMaskH_spec S h ⟨s, .pos, vk, v⟩ hc
      obtain ⟨f2, c2⟩ := implMaskedH_frame S _ cfg att v red (toMaskH S h ⟨s, .pos, vk, v⟩).2 an c1
      refine ⟨Frame.trans f1 f2, c2, ?_⟩
      rw [implMaskedH_val _ cfg att v red _ an l1 (by rw [n1]; exact hatt) m
        (by rw [b1]; subst hmm; rfl), v1]
    cases hs : (S s).sel with
    | slice vs =>
      cases vk with
      | none =>
        have := uStatImplH_spec S h cfg red (subShape vs) ⟨att, subIdx vs⟩ an hc hatt
        simp only [implDirectH, implDirect, selOf, hs, SKind.toSelM, beq_self_eq_true, if_true]
        exact this
      | ellipsis =>
        have := key (subMask vs) (by rw [hs]; rfl)
        simpa only [implDirectH, implDirect, selOf, hs, SKind.toSelM,
          show (ViewKind.ellipsis == ViewKind.none) = false from by decide, Bool.false_eq_true,
          if_false] using this
      | tuple =>
        have := key (subMask vs) (by rw [hs]; rfl)
        simpa only [implDirectH, implDirect, selOf, hs, SKind.toSelM,
          show (ViewKind.tuple == ViewKind.none) = false from by decide, Bool.false_eq_true,
          if_false] using this
    | mask m =>
      have := key m (by rw [hs]; rfl)
      cases vk <;> simpa only [implDirectH, implDirect, selOf, hs, SKind.toSelM] using this

/-- The chunk loop: every chunk's call runs on the heap left by the previous ones, and still sees
the original data and selection. -/
theorem chunk_fold (S : Nat → SObj) (h : Heap) (cfg : Cfg) (att : Nat) (sid : Option Nat)
    (red : List Bool) (ai : Nat) (hatt : att < h.nv) (chunks : List Chunk) :
    ∀ (g : Heap) (buf : List Val), Frame h g → Coherent S g →
      Frame h (chunks.foldl (fun (p : Heap × List Val) ch =>
          ((implDirectH false S p.1 cfg att sid .tuple (chunkView ch) red false).1,
           writeSlice p.2 (ch.getD ai (0, 0)).1 ((List.range ((ch.getD ai (0, 0)).2 - (ch.getD ai (0, 0)).1)).map
             fun j => (implDirectH false S p.1 cfg att sid .tuple (chunkView ch) red false).2.cell [j])))
          (g, buf)).1 ∧
      Coherent S (chunks.foldl (fun (p : Heap × List Val) ch =>
          ((implDirectH false S p.1 cfg att sid .tuple (chunkView ch) red false).1,
           writeSlice p.2 (ch.getD ai (0, 0)).1 ((List.range ((ch.getD ai (0, 0)).2 - (ch.getD ai (0, 0)).1)).map
             fun j => (implDirectH false S p.1 cfg att sid .tuple (chunkView ch) red false).2.cell [j])))
          (g, buf)).1 ∧
      (chunks.foldl (fun (p : Heap × List Val) ch =>
          ((implDirectH false S p.1 cfg att sid .tuple (chunkView ch) red false).1,
           writeSlice p.2 (ch.getD ai (0, 0)).1 ((List.range ((ch.getD ai (0, 0)).2 - (ch.getD ai (0, 0)).1)).map
             fun j => (implDirectH false S p.1 cfg att sid .tuple (chunkView ch) red false).2.cell [j])))
          (g, buf)).2 =
        chunks.foldl (fun buf ch =>
          writeSlice buf (ch.getD ai (0, 0)).1 ((List.range ((ch.getD ai (0, 0)).2 - (ch.getD ai (0, 0)).1)).map
            fun j => (implDirect cfg (h.vals att) (selOf S sid) .tuple (chunkView ch) red).cell [j])) buf := by
  induction chunks with
  | nil => intro g buf hf hc; exact ⟨hf, hc, rfl⟩
  | cons ch rest ih =>
    intro g buf hf hc
    obtain ⟨f1, c1, v1⟩ := implDirectH_spec S g cfg att sid .tuple (chunkView ch) red false hc
      (Nat.lt_of_lt_of_le hatt hf.nv)
    simp only [List.foldl_cons]
    have := ih _ (writeSlice buf (ch.getD ai (0, 0)).1
      ((List.range ((ch.getD ai (0, 0)).2 - (ch.getD ai (0, 0)).1)).map
        fun j => (implDirectH false S g cfg att sid .tuple (chunkView ch) red false).2.cell [j]))
      (Frame.trans hf f1) c1
    rw [v1, hf.vals att hatt] at this
    rw [v1, hf.vals att hatt]
    exact this

/-- `Data.compute_statistic` (chunk loop included): frame, coherent cache, value of the pure model. -/
theorem implStatH_spec (S : Nat → SObj) (sh : List Nat) (h : Heap) (c : StatCall)
    (hc : Coherent S h) (hatt : c.att < h.nv) :
    Frame h (implStatH false S sh h c).1 ∧ Coherent S (implStatH false S sh h c).1 ∧
      (implStatH false S sh h c).2 = pureStat S sh h.vals c := by
  unfold implStatH pureStat implStat
  simp only
  split
  · obtain ⟨f, co, v⟩ := chunk_fold S h c.cfg c.att c.sid c.red (firstKept c.red) hatt
      (iterateChunksLoop sh (setAt sh (firstKept c.red)
        (max 1 (sh.getD (firstKept c.red) 0 * c.nmax / prod sh))))
      h (List.replicate (sh.getD (firstKept c.red) 0) (.fin 0)) (Frame.refl h) hc
    rename_i hcond
    refine ⟨f, co, ?_⟩
    simp only [v]
    rfl
  · exact implDirectH_spec S h c.cfg c.att c.sid c.vk c.v c.red _ hc hatt

/-! ### `Data.compute_histogram`, calls, sequences -/

theorem implHistH_spec (S : Nat → SObj) (sh : List Nat) (h : Heap) (c : HistCall)
    (hc : Coherent S h) :
    Frame h (implHistH S sh h c).1 ∧ Coherent S (implHistH S sh h c).1 ∧
      (implHistH S sh h c).2 = pureHist S sh h.vals c := by
  unfold implHistH pureHist
  cases c.sid with
  | none => exact ⟨Frame.refl h, hc, rfl⟩
  | some s =>
    obtain ⟨f1, c1, _, b1, v1, _⟩ := toMaskH_spec S h ⟨s, .kw, .none, fullView sh⟩ hc
    refine ⟨f1, c1, ?_⟩
    simp only [v1, b1]

theorem good_of_frame {S : Nat → SObj} {D : Nat → Idx → Val} {n : Nat} {h h' : Heap}
    (hg : Good S D n h) (hf : Frame h h') (hc : Coherent S h') : Good S D n h' :=
  ⟨hc, Nat.le_trans hg.nv hf.nv, fun a ha => by
    rw [hf.vals a (Nat.lt_of_lt_of_le ha hg.nv), hg.vals a ha]⟩

/-- One call on a heap that holds the dataset `D`: nothing that existed is written to, the heap still
holds `D` with a coherent cache, and the value is that of the pure model on `D`. -/
theorem callH_spec (S : Nat → SObj) (sh : List Nat) (D : Nat → Idx → Val) (n : Nat) (h : Heap)
    (c : Call) (hg : Good S D n h) (hatt : ∀ a ∈ c.atts, a < n) :
    Frame h (callH false S sh h c).1 ∧ Good S D n (callH false S sh h c).1 ∧
      (callH false S sh h c).2 = pureCall S sh D c := by
  cases c with
  | stat c =>
    have ha : c.att < n := hatt c.att (by simp [Call.atts])
    obtain ⟨f, co, v⟩ := implStatH_spec S sh h c hg.coh (Nat.lt_of_lt_of_le ha hg.nv)
    refine ⟨f, good_of_frame hg f co, ?_⟩
    simp only [callH, pureCall, v, pureStat, hg.vals c.att ha]
  | hist c =>
    have ha : c.att < n := hatt c.att (by simp [Call.atts])
    obtain ⟨f, co, v⟩ := implHistH_spec S sh h c hg.coh
    refine ⟨f, good_of_frame hg f co, ?_⟩
    simp only [callH, pureCall, v, pureHist, hg.vals c.att ha]
    cases hw : c.watt with
    | none => rfl
    | some w =>
      have hwn : w < n := hatt w (by simp [Call.atts, hw])
      simp only [Option.map, hg.vals w hwn]

theorem runSeq_spec (S : Nat → SObj) (sh : List Nat) (D : Nat → Idx → Val) (n : Nat)
    (calls : List Call) :
    ∀ (h : Heap), Good S D n h → (∀ c ∈ calls, ∀ a ∈ c.atts, a < n) →
      Frame h (runSeq false S sh h calls).1 ∧ Good S D n (runSeq false S sh h calls).1 ∧
        (runSeq false S sh h calls).2 = calls.map (pureCall S sh D) := by
  induction calls with
  | nil => intro h hg _; exact ⟨Frame.refl h, hg, rfl⟩
  | cons c cs ih =>
    intro h hg hatt
    obtain ⟨f1, g1, v1⟩ := callH_spec S sh D n h c hg (hatt c (List.mem_cons_self ..))
    obtain ⟨f2, g2, v2⟩ := ih _ g1 (fun c' hc' => hatt c' (List.mem_cons_of_mem _ hc'))
    refine ⟨Frame.trans f1 f2, g2, ?_⟩
    simp only [runSeq, List.map_cons, v1, v2]

theorem good_init (S : Nat → SObj) (D : Nat → Idx → Val) (n : Nat) : Good S D n (initHeap D n) :=
  ⟨fun _ he => (nomatch he), Nat.le_refl _, fun _ _ => rfl⟩

end GlueVerif.Lemmas.C10Seq
