import GlueVerif.Model.ArrayUtil
/-!
# C20 — the literal `while` loop of `iterate_chunks` equals the product form

The loop is a mixed-radix odometer: axis 0 is the least significant digit, `carry` propagates
overflow, the loop stops when the last axis overflows.  We prove by induction on the number of
axes that running the loop on `h :: hs` with fuel `ceilDiv h c * F` from `0 :: ss` produces, for
every chunk emitted by the loop on `hs` with fuel `F` from `ss`, one full row of axis-0 chunks.
Core Lean only.
-/
namespace GlueVerif.Lemmas.C20Loop
open GlueVerif.ArrayUtil

/-- A start vector with every digit strictly below its radix (and of the right length). -/
def validStart : List Nat → List Nat → Prop
  | s :: ss, h :: hs => s < h ∧ validStart ss hs
  | [], [] => True
  | _, _ => False

/-- One odometer step: bump axis 0 and propagate the carries. -/
def next (shape chunk start : List Nat) : List Nat := carry (bumpFirst start chunk) shape chunk

theorem iterLoop_succ (shape chunk : List Nat) (fuel : Nat) (start : List Nat) :
    iterLoop shape chunk (fuel + 1) start =
      if (next shape chunk start).getLast?.getD 0 ≥ shape.getLast?.getD 0 then
        [chunkAt start shape chunk]
      else chunkAt start shape chunk :: iterLoop shape chunk fuel (next shape chunk start) := rfl

theorem carry_length (ss hs cs : List Nat) : (carry ss hs cs).length = ss.length := by
  fun_induction carry ss hs cs <;> simp_all

theorem carry_id (ss hs cs : List Nat) (hv : validStart ss hs) : carry ss hs cs = ss := by
  fun_induction carry ss hs cs
  · rename_i h _
    simp only [validStart] at hv
    omega
  · rename_i ih
    simp only [validStart] at hv
    rw [ih hv.2]
  · rfl

theorem validStart_length {ss hs : List Nat} (hv : validStart ss hs) : ss.length = hs.length := by
  induction ss generalizing hs with
  | nil => cases hs <;> simp_all [validStart]
  | cons s ss ih =>
    cases hs with
    | nil => simp [validStart] at hv
    | cons h hs => simp only [validStart] at hv; simp [ih hv.2]

theorem validStart_last {ss hs : List Nat} (hv : validStart ss hs) (hne : hs ≠ []) :
    ss.getLast?.getD 0 < hs.getLast?.getD 0 := by
  induction ss generalizing hs with
  | nil => cases hs <;> simp_all [validStart]
  | cons s ss ih =>
    cases hs with
    | nil => simp [validStart] at hv
    | cons h hs =>
      simp only [validStart] at hv
      cases hs with
      | nil =>
        cases ss with
        | nil => simpa using hv.1
        | cons _ _ => simp [validStart] at hv
      | cons h1 hs =>
        cases ss with
        | nil => simp [validStart] at hv
        | cons s1 ss =>
          have := ih hv.2 (by simp)
          simpa [List.getLast?_cons_cons] using this

theorem validStart_zeros (hs : List Nat) (hpos : ∀ h ∈ hs, 0 < h) :
    validStart (hs.map fun _ => 0) hs := by
  induction hs with
  | nil => simp [validStart]
  | cons h hs ih =>
    simp only [List.map_cons, validStart]
    exact ⟨hpos h (by simp), ih fun x hx => hpos x (by simp [hx])⟩

/-- Shape of one odometer step on `≥ 2` axes. -/
theorem next_cons (h h1 : Nat) (hs : List Nat) (c c1 : Nat) (cs : List Nat) (s s1 : Nat)
    (ss : List Nat) :
    next (h :: h1 :: hs) (c :: c1 :: cs) (s :: s1 :: ss) =
      if s + c ≥ h then 0 :: next (h1 :: hs) (c1 :: cs) (s1 :: ss)
      else (s + c) :: carry (s1 :: ss) (h1 :: hs) (c1 :: cs) := by
  simp only [next, bumpFirst]
  rw [carry]

theorem next_ne_nil (hs cs : List Nat) (s : Nat) (ss : List Nat) : next hs cs (s :: ss) ≠ [] := by
  intro h
  have := congrArg List.length h
  cases cs <;> simp [next, carry_length, bumpFirst] at this

/-- A step that does not overflow the last axis yields a valid start vector again. -/
theorem next_valid (hs cs ss : List Nat) (hpos : ∀ h ∈ hs, 0 < h) (hlen : cs.length = hs.length)
    (hv : validStart ss hs)
    (hno : ¬ (next hs cs ss).getLast?.getD 0 ≥ hs.getLast?.getD 0) :
    validStart (next hs cs ss) hs := by
  induction hs generalizing cs ss with
  | nil =>
    cases ss with
    | nil => simp at hno
    | cons _ _ => simp [validStart] at hv
  | cons h hs ih =>
    cases ss with
    | nil => simp [validStart] at hv
    | cons s ss =>
      cases cs with
      | nil => simp at hlen
      | cons c cs =>
        simp only [validStart] at hv
        cases hs with
        | nil =>
          cases ss with
          | cons _ _ => simp [validStart] at hv
          | nil =>
            have hn : next [h] (c :: cs) [s] = [s + c] := by simp [next, bumpFirst, carry]
            rw [hn] at hno ⊢
            simp only [validStart, and_true]
            simpa using hno
        | cons h1 hs =>
          cases ss with
          | nil => simp [validStart] at hv
          | cons s1 ss =>
            cases cs with
            | nil => simp at hlen
            | cons c1 cs =>
              rw [next_cons] at hno ⊢
              split
              · rename_i hge
                rw [if_pos hge] at hno
                have hne := next_ne_nil (h1 :: hs) (c1 :: cs) s1 ss
                obtain ⟨x, xs, hx⟩ := List.exists_cons_of_ne_nil hne
                rw [hx] at hno
                simp only [List.getLast?_cons_cons] at hno
                rw [← hx] at hno
                refine ⟨hpos h (by simp), ?_⟩
                exact ih (c1 :: cs) (s1 :: ss) (fun x hx => hpos x (by simp [hx]))
                  (by simpa using hlen) hv.2 hno
              · rename_i hlt
                rw [carry_id _ _ _ hv.2]
                exact ⟨by omega, hv.2⟩

/-! ### Axis-0 rows -/

theorem chunks1d_nil_of_ge (h c f s : Nat) (hge : h ≤ s) : chunks1d h c f s = [] := by
  cases f with
  | zero => rfl
  | succ f => simp [chunks1d]; omega

/-- The loop on one axis. -/
theorem iterLoop_one (h c : Nat) (hc : 0 < c) (f s : Nat) (hf : h ≤ s + f) (hs : s < h) :
    iterLoop [h] [c] (chunks1d h c f s).length [s] = (chunks1d h c f s).map (· :: []) := by
  induction f generalizing s with
  | zero => omega
  | succ f ih =>
    have hn : next [h] [c] [s] = [s + c] := by simp [next, bumpFirst, carry]
    simp only [chunks1d, if_pos hs, List.length_cons, List.map_cons, iterLoop_succ, hn]
    by_cases hge : s + c ≥ h
    · have : (([s + c] : List Nat).getLast?.getD 0 ≥ ([h] : List Nat).getLast?.getD 0) := by
        simpa using hge
      rw [if_pos this, chunks1d_nil_of_ge h c f (s + c) hge]
      simp [chunkAt]
    · have : ¬ (([s + c] : List Nat).getLast?.getD 0 ≥ ([h] : List Nat).getLast?.getD 0) := by
        simpa using hge
      rw [if_neg this, ih (s + c) (by omega) (by omega)]
      simp [chunkAt]

/-- One full row of the odometer on `≥ 2` axes: starting at `s :: ss` the loop emits the remaining
axis-0 chunks over the fixed tail `ss`, then either stops (last axis overflows) or continues from
`0 :: next ss`. -/
theorem iterLoop_row (h c : Nat) (hc : 0 < c) (hs cs ss : List Nat) (hne : hs ≠ [])
    (hlen : cs.length = hs.length) (hv : validStart ss hs) (F f s : Nat) (hf : h ≤ s + f)
    (hsh : s < h) :
    iterLoop (h :: hs) (c :: cs) ((chunks1d h c f s).length + F) (s :: ss) =
      (chunks1d h c f s).map (· :: chunkAt ss hs cs) ++
        (if (next hs cs ss).getLast?.getD 0 ≥ hs.getLast?.getD 0 then []
         else iterLoop (h :: hs) (c :: cs) F (0 :: next hs cs ss)) := by
  obtain ⟨h1, hs, rfl⟩ := List.exists_cons_of_ne_nil hne
  cases ss with
  | nil => simp [validStart] at hv
  | cons s1 ss =>
  cases cs with
  | nil => simp at hlen
  | cons c1 cs =>
  induction f generalizing s with
  | zero => omega
  | succ f ih =>
    have hfuel : (chunks1d h c (f + 1) s).length + F = ((chunks1d h c f (s + c)).length + F) + 1 := by
      simp only [chunks1d, if_pos hsh, List.length_cons]; omega
    rw [hfuel, iterLoop_succ, next_cons]
    have hcur : chunkAt (s :: s1 :: ss) (h :: h1 :: hs) (c :: c1 :: cs) =
        (s, min (s + c) h) :: chunkAt (s1 :: ss) (h1 :: hs) (c1 :: cs) := by
      simp [chunkAt]
    have hrow : chunks1d h c (f + 1) s = (s, min (s + c) h) :: chunks1d h c f (s + c) := by
      simp [chunks1d, hsh]
    rw [hcur, hrow]
    by_cases hge : s + c ≥ h
    · rw [if_pos hge, chunks1d_nil_of_ge h c f (s + c) hge]
      obtain ⟨x, xs, hx⟩ := List.exists_cons_of_ne_nil (next_ne_nil (h1 :: hs) (c1 :: cs) s1 ss)
      have hl : (0 :: next (h1 :: hs) (c1 :: cs) (s1 :: ss)).getLast? =
          (next (h1 :: hs) (c1 :: cs) (s1 :: ss)).getLast? := by
        rw [hx, List.getLast?_cons_cons]
      rw [hl, List.getLast?_cons_cons]
      by_cases hov : (next (h1 :: hs) (c1 :: cs) (s1 :: ss)).getLast?.getD 0 ≥
          (h1 :: hs).getLast?.getD 0
      · simp [hov]
      · simp [hov]
    · rw [if_neg hge, carry_id _ _ _ hv]
      have hlast := validStart_last hv (by simp : h1 :: hs ≠ [])
      have hno : ¬ ((s + c) :: s1 :: ss).getLast?.getD 0 ≥ (h :: h1 :: hs).getLast?.getD 0 := by
        rw [List.getLast?_cons_cons, List.getLast?_cons_cons]; omega
      rw [if_neg hno, ih (s + c) (by omega) (by omega)]
      simp

/-- Induction step over the number of axes. -/
theorem iterLoop_flat (h c : Nat) (hc : 0 < c) (hh : 0 < h) (hs cs : List Nat) (hne : hs ≠ [])
    (hlen : cs.length = hs.length) (hpos : ∀ x ∈ hs, 0 < x) (F : Nat) (ss : List Nat)
    (hv : validStart ss hs) :
    iterLoop (h :: hs) (c :: cs) ((chunks1d h c h 0).length * F) (0 :: ss) =
      (iterLoop hs cs F ss).flatMap fun tail => (chunks1d h c h 0).map (· :: tail) := by
  induction F generalizing ss with
  | zero => simp [iterLoop]
  | succ F ih =>
    rw [Nat.mul_succ, Nat.add_comm,
      iterLoop_row h c hc hs cs ss hne hlen hv _ h 0 (by omega) hh, iterLoop_succ]
    by_cases hov : (next hs cs ss).getLast?.getD 0 ≥ hs.getLast?.getD 0
    · simp [hov]
    · rw [if_neg hov, if_neg hov, ih _ (next_valid hs cs ss hpos hlen hv hov)]
      simp

theorem ceilDiv_step (a c : Nat) (hc : 0 < c) : ceilDiv (a + c) c = ceilDiv a c + 1 := by
  unfold ceilDiv
  have : a + c + c - 1 = (a + c - 1) + c := by omega
  rw [this, Nat.add_div_right _ hc]

theorem ceilDiv_small (a c : Nat) (ha : 0 < a) (hac : a ≤ c) : ceilDiv a c = 1 := by
  unfold ceilDiv
  exact Nat.div_eq_of_lt_le (by omega) (by omega)

theorem ceilDiv_zero (c : Nat) (hc : 0 < c) : ceilDiv 0 c = 0 := by
  unfold ceilDiv
  exact Nat.div_eq_of_lt (by omega)

theorem chunks1d_length (h c : Nat) (hc : 0 < c) (f s : Nat) (hf : h ≤ s + f) :
    (chunks1d h c f s).length = ceilDiv (h - s) c := by
  induction f generalizing s with
  | zero =>
    have : h - s = 0 := by omega
    simp [chunks1d, this, ceilDiv_zero c hc]
  | succ f ih =>
    by_cases hsh : s < h
    · simp only [chunks1d, if_pos hsh, List.length_cons]
      rw [ih (s + c) (by omega)]
      by_cases hle : s + c ≤ h
      · have : h - s = (h - (s + c)) + c := by omega
        rw [this, ceilDiv_step _ _ hc]
      · have : h - (s + c) = 0 := by omega
        rw [this, ceilDiv_zero c hc, ceilDiv_small (h - s) c (by omega) (by omega)]
    · have : h - s = 0 := by omega
      simp [chunks1d, hsh, this, ceilDiv_zero c hc]

theorem foldl_mul_pos (shape : List Nat) (acc : Nat) (hacc : 0 < acc) (hs : ∀ s ∈ shape, 0 < s) :
    0 < shape.foldl (· * ·) acc := by
  induction shape generalizing acc with
  | nil => simpa
  | cons h hs' ih =>
    simp only [List.foldl_cons]
    exact ih _ (Nat.mul_pos hacc (hs h (by simp))) fun x hx => hs x (by simp [hx])

theorem iterateChunksLoop_eq (shape chunk : List Nat) (hs : ∀ s ∈ shape, 0 < s) :
    iterateChunksLoop shape chunk =
      iterLoop shape chunk (numChunks shape chunk) (shape.map fun _ => 0) := by
  unfold iterateChunksLoop
  rw [if_neg (by have := foldl_mul_pos shape 1 (by omega) hs; omega)]

/-- The literal loop equals the product form, for every number of axes (including 0). -/
theorem iterLoop_eq_prod (shape chunk : List Nat) (hlen : chunk.length = shape.length)
    (hs : ∀ s ∈ shape, 0 < s) (hc : ∀ c ∈ chunk, 0 < c) :
    iterateChunksLoop shape chunk = iterateChunksProd shape chunk := by
  induction shape generalizing chunk with
  | nil =>
    cases chunk with
    | nil => simp [iterateChunksLoop, numChunks, iterLoop, iterateChunksProd, chunkAt]
    | cons _ _ => simp at hlen
  | cons h hs' ih =>
    cases chunk with
    | nil => simp at hlen
    | cons c cs =>
      have hh : 0 < h := hs h (by simp)
      have hcc : 0 < c := hc c (by simp)
      have hpos : ∀ x ∈ hs', 0 < x := fun x hx => hs x (by simp [hx])
      have hcpos : ∀ x ∈ cs, 0 < x := fun x hx => hc x (by simp [hx])
      have hlen' : cs.length = hs'.length := by simpa using hlen
      have hL : (chunks1d h c h 0).length = ceilDiv h c := by
        simpa using chunks1d_length h c hcc h 0 (by omega)
      rw [iterateChunksLoop_eq _ _ hs]
      simp only [numChunks, iterateChunksProd, List.map_cons]
      by_cases hne : hs' = []
      · subst hne
        have hcs : cs = [] := by simpa using hlen'
        subst hcs
        simp only [numChunks, Nat.mul_one, List.map_nil, ← hL]
        rw [iterLoop_one h c hcc h 0 (by omega) hh]
        simp [iterateChunksProd]
      · rw [← hL, iterLoop_flat h c hcc hh hs' cs hne hlen' hpos _ _ (validStart_zeros hs' hpos),
          ← ih cs hlen' hpos hcpos, iterateChunksLoop_eq _ _ hpos]

end GlueVerif.Lemmas.C20Loop
