import GlueVerif.Lemmas.C02Encode
/-! The un-serializer on the encoding of an acyclic graph of plain (non-generator, callback-free)
classes: every named load succeeds, the memo table stays injective, and every restored object has
the class and — through the memo table — the fields of the object that was saved under its name;
an inlined record is restored as a fresh anonymous object with, recursively, the same property
(`load_own`, shared by the three developments). -/
namespace GlueVerif.C02

/-! ### association-list facts -/

theorem lookupMemo_some_mem {memo : List (Str × Nat)} {n : Str} {i : Nat} (h : lookupMemo memo n = some i) :
    (n, i) ∈ memo := by
  induction memo with
  | nil => simp [lookupMemo] at h
  | cons e r ih =>
    obtain ⟨m, j⟩ := e
    unfold lookupMemo at h
    by_cases hm : m = n
    · simp only [hm, if_true, Option.some.injEq] at h; simp [hm, h]
    · simp only [hm, if_false] at h; exact List.mem_cons_of_mem _ (ih h)

theorem lookupMemo_none_iff (memo : List (Str × Nat)) (n : Str) :
    lookupMemo memo n = none ↔ n ∉ memo.map Prod.fst := by
  induction memo with
  | nil => simp [lookupMemo]
  | cons e r ih =>
    obtain ⟨m, j⟩ := e
    unfold lookupMemo
    by_cases hm : m = n
    · simp [hm]
    · simp only [hm, if_false, List.map_cons, List.mem_cons, not_or, ih]
      exact ⟨fun h => ⟨fun h' => hm h'.symm, h⟩, fun h => h.2⟩

theorem lookupMemo_of_mem {memo : List (Str × Nat)} (hnd : (memo.map Prod.fst).Nodup) {n : Str} {i : Nat}
    (h : (n, i) ∈ memo) : lookupMemo memo n = some i := by
  induction memo with
  | nil => simp at h
  | cons e r ih =>
    obtain ⟨m, j⟩ := e
    simp only [List.map_cons, List.nodup_cons] at hnd
    unfold lookupMemo
    by_cases hm : m = n
    · simp only [hm, if_true]
      rcases List.mem_cons.mp h with h1 | h1
      · simp only [Prod.mk.injEq] at h1; rw [h1.2]
      · exfalso; apply hnd.1; rw [hm]; exact List.mem_map.mpr ⟨(n, i), h1, rfl⟩
    · simp only [hm, if_false]
      rcases List.mem_cons.mp h with h1 | h1
      · simp only [Prod.mk.injEq] at h1; exact absurd h1.1.symm hm
      · exact ih hnd.2 h1

theorem lookupRec_of_mem {T : Table} (hnd : (T.map Prod.fst).Nodup) {n : Str} {j : JVal}
    (h : (n, j) ∈ T) : lookupRec T n = some j := by
  induction T with
  | nil => simp at h
  | cons e r ih =>
    obtain ⟨m, k⟩ := e
    simp only [List.map_cons, List.nodup_cons] at hnd
    unfold lookupRec
    by_cases hm : m = n
    · simp only [hm, if_true]
      rcases List.mem_cons.mp h with h1 | h1
      · simp only [Prod.mk.injEq] at h1; rw [h1.2]
      · exfalso; apply hnd.1; rw [hm]; exact List.mem_map.mpr ⟨(n, j), h1, rfl⟩
    · simp only [hm, if_false]
      rcases List.mem_cons.mp h with h1 | h1
      · simp only [Prod.mk.injEq] at h1; exact absurd h1.1.symm hm
      · exact ih hnd.2 h1

theorem nameOfIdx_of_mem {memo : List (Str × Nat)} (hnd : (memo.map Prod.snd).Nodup) {n : Str} {i : Nat}
    (h : (n, i) ∈ memo) : nameOfIdx memo i = some n := by
  induction memo with
  | nil => simp at h
  | cons e r ih =>
    obtain ⟨m, j⟩ := e
    simp only [List.map_cons, List.nodup_cons] at hnd
    unfold nameOfIdx
    by_cases hj : j = i
    · simp only [hj, if_true]
      rcases List.mem_cons.mp h with h1 | h1
      · simp only [Prod.mk.injEq] at h1; rw [h1.1]
      · exfalso; apply hnd.1; rw [hj]; exact List.mem_map.mpr ⟨(n, i), h1, rfl⟩
    · simp only [hj, if_false]
      rcases List.mem_cons.mp h with h1 | h1
      · simp only [Prod.mk.injEq] at h1; exact absurd h1.2.symm hj
      · exact ih hnd.2 h1

theorem prefix_getElem? {α : Type} {l₁ l₂ : List α} (hp : l₁ <+: l₂) {i : Nat} {a : α} (h : l₁[i]? = some a) :
    l₂[i]? = some a := by
  obtain ⟨t, rfl⟩ := hp
  have hi : i < l₁.length := by
    obtain ⟨hi, _⟩ := List.getElem?_eq_some_iff.mp h; exact hi
  rw [List.getElem?_append_left hi]; exact h

/-! ### heaps / states that only grow -/

def HeapLe (a b : List LObj) : Prop := a.length ≤ b.length ∧ ∀ j, j < a.length → b[j]? = a[j]?

theorem HeapLe.refl (a : List LObj) : HeapLe a a := ⟨Nat.le_refl _, fun _ _ => rfl⟩
theorem HeapLe.trans {a b c : List LObj} (h1 : HeapLe a b) (h2 : HeapLe b c) : HeapLe a c :=
  ⟨Nat.le_trans h1.1 h2.1, fun j hj => by rw [h2.2 j (Nat.lt_of_lt_of_le hj h1.1), h1.2 j hj]⟩

theorem HeapLe.get {a b : List LObj} (hle : HeapLe a b) {j : Nat} {x : LObj} (hx : a[j]? = some x) : b[j]? = some x := by
  have hj : j < a.length := by
    obtain ⟨hj, _⟩ := List.getElem?_eq_some_iff.mp hx; exact hj
  rw [hle.2 j hj]; exact hx

theorem heapLe_append (a : List LObj) (x : LObj) : HeapLe a (a ++ [x]) :=
  ⟨by simp, fun j hj => List.getElem?_append_left hj⟩

theorem heapLe_of_prefix {a b : List LObj} (hp : a <+: b) : HeapLe a b := by
  obtain ⟨t, rfl⟩ := hp
  exact ⟨by simp, fun j hj => List.getElem?_append_left hj⟩

def MemoLe (m m' : List (Str × Nat)) : Prop := ∀ n j, lookupMemo m n = some j → lookupMemo m' n = some j

theorem MemoLe.refl (m : List (Str × Nat)) : MemoLe m m := fun _ _ h => h
theorem MemoLe.trans {a b c : List (Str × Nat)} (h1 : MemoLe a b) (h2 : MemoLe b c) : MemoLe a c :=
  fun n j h => h2 n j (h1 n j h)

theorem memoLe_cons {m : List (Str × Nat)} {n : Str} (i : Nat) (hn : lookupMemo m n = none) :
    MemoLe m ((n, i) :: m) := by
  intro k j hk
  unfold lookupMemo
  by_cases e : n = k
  · subst e; rw [hn] at hk; cases hk
  · simp only [e, if_false]; exact hk

/-- How the loader state evolves: the memo table and the heap only grow (existing cells are not
touched), and a new memo entry always points to a cell that did not exist before. -/
structure SLe (st st' : LState) : Prop where
  memo : MemoLe st.memo st'.memo
  heap : HeapLe st.heap st'.heap
  fresh : ∀ e ∈ st'.memo, e ∈ st.memo ∨ st.heap.length ≤ e.2

theorem SLe.refl (st : LState) : SLe st st := ⟨MemoLe.refl _, HeapLe.refl _, fun _ he => Or.inl he⟩
theorem SLe.trans {a b c : LState} (h1 : SLe a b) (h2 : SLe b c) : SLe a c :=
  ⟨h1.memo.trans h2.memo, h1.heap.trans h2.heap, fun e he => by
    rcases h2.fresh e he with x | x
    · exact h1.fresh e x
    · exact Or.inr (Nat.le_trans h1.heap.1 x)⟩

/-! ### what a restored value must look like -/

def RelVals (R : Val → LVal → Prop) : List Val → List LVal → Prop
  | [], [] => True
  | v :: vs, l :: ls => R v l ∧ RelVals R vs ls
  | _, _ => False

theorem RelVals.imp {R R' : Val → LVal → Prop} (himp : ∀ v l, R v l → R' v l) :
    ∀ {vs : List Val} {ls : List LVal}, RelVals R vs ls → RelVals R' vs ls
  | [], [], _ => trivial
  | _ :: _, [], h => by simp [RelVals] at h
  | [], _ :: _, h => by simp [RelVals] at h
  | _ :: _, _ :: _, h => ⟨himp _ _ h.1, RelVals.imp himp h.2⟩

/-- Restored value `l` is what was saved as `v`: the same literal / string, for a named reference the
restored object registered under the name of the referenced object, and for an inlined object (to
nesting depth `d`) an *anonymous* cell (not in the memo table) of the same class whose fields are,
recursively, what was saved; the cells of its own inlined objects were allocated before it. -/
def RelV (h : Heap) (reg : Reg) (heap : List LObj) (memo : List (Str × Nat)) : Nat → Val → LVal → Prop
  | _, .lit n, .lit m => n = m
  | _, .str s, .str t => s = t
  | _, .ref p, .ref j => ∃ m, lookupName reg p = some m ∧ lookupMemo memo m = some j
  | d + 1, .own p, .own j =>
    j ∉ memo.map Prod.snd ∧ ∃ ob lo, h[p]? = some ob ∧ heap[j]? = some lo ∧ lo.cls = ob.cls ∧
      RelVals (RelV h reg heap memo d) (ob.fields.map (·.val)) lo.fields ∧
      ∀ j', LVal.own j' ∈ lo.fields → j' < j
  | _, _, _ => False

/-- `RelV` only looks at the memo table and at the *anonymous* cells: it survives any step that extends
the memo table by new cells and leaves the anonymous cells alone. -/
theorem RelV.mono {h : Heap} {reg : Reg} {heap heap' : List LObj} {memo memo' : List (Str × Nat)}
    (hm : MemoLe memo memo')
    (hh : ∀ j, j < heap.length → j ∉ memo.map Prod.snd → heap'[j]? = heap[j]?)
    (hf : ∀ e ∈ memo', e ∈ memo ∨ heap.length ≤ e.2) :
    ∀ (d : Nat) (v : Val) (l : LVal), RelV h reg heap memo d v l → RelV h reg heap' memo' d v l
  | d, .lit _, .lit _, hr => by simp only [RelV] at hr ⊢; exact hr
  | d, .str _, .str _, hr => by simp only [RelV] at hr ⊢; exact hr
  | d, .ref _, .ref _, hr => by
    simp only [RelV] at hr ⊢
    obtain ⟨k, h1, h2⟩ := hr
    exact ⟨k, h1, hm _ _ h2⟩
  | 0, .own _, .own _, hr => by simp [RelV] at hr
  | d + 1, .own p, .own j, hr => by
    simp only [RelV] at hr ⊢
    obtain ⟨hnm, ob, lo, a1, a2, a3, a4, a5⟩ := hr
    have hj : j < heap.length := by
      obtain ⟨hj, _⟩ := List.getElem?_eq_some_iff.mp a2; exact hj
    refine ⟨?_, ob, lo, a1, by rw [hh j hj hnm]; exact a2, a3, RelVals.imp (RelV.mono hm hh hf d) a4, a5⟩
    intro hmem
    obtain ⟨e, he, hej⟩ := List.mem_map.mp hmem
    rcases hf e he with x | x
    · exact hnm (List.mem_map.mpr ⟨e, x, hej⟩)
    · omega
  | _, .lit _, .str _, hr | _, .lit _, .ref _, hr | _, .lit _, .own _, hr | _, .lit _, .pending, hr
  | _, .str _, .lit _, hr | _, .str _, .ref _, hr | _, .str _, .own _, hr | _, .str _, .pending, hr
  | _, .ref _, .lit _, hr | _, .ref _, .str _, hr | _, .ref _, .own _, hr | _, .ref _, .pending, hr
  | _, .own _, .lit _, hr | _, .own _, .str _, hr | _, .own _, .ref _, hr | _, .own _, .pending, hr => by
    simp [RelV] at hr

/-- the step from `st` to `st'` preserves what has been established about restored values -/
def RelPres (h : Heap) (reg : Reg) (st st' : LState) : Prop :=
  ∀ d v l, RelV h reg st.heap st.memo d v l → RelV h reg st'.heap st'.memo d v l

theorem RelPres.refl {h : Heap} {reg : Reg} (st : LState) : RelPres h reg st st := fun _ _ _ x => x
theorem RelPres.trans {h : Heap} {reg : Reg} {a b c : LState} (h1 : RelPres h reg a b) (h2 : RelPres h reg b c) :
    RelPres h reg a c := fun d v l x => h2 d v l (h1 d v l x)

theorem RelPres.vals {h : Heap} {reg : Reg} {st st' : LState} (hp : RelPres h reg st st') {d : Nat}
    {vs : List Val} {ls : List LVal} (hr : RelVals (RelV h reg st.heap st.memo d) vs ls) :
    RelVals (RelV h reg st'.heap st'.memo d) vs ls := RelVals.imp (hp d) hr

theorem SLe.relPres {h : Heap} {reg : Reg} {st st' : LState} (hle : SLe st st') : RelPres h reg st st' :=
  fun d v l hr => RelV.mono hle.memo (fun j hj _ => hle.heap.2 j hj) hle.fresh d v l hr

/-- writing into a *named* cell does not disturb what hangs below inlined cells -/
theorem relPres_setField {h : Heap} {reg : Reg} (st : LState) {i : Nat} (hi : i ∈ st.memo.map Prod.snd) (k : Nat) (x : LVal) :
    RelPres h reg st { st with heap := setField st.heap i k x } := by
  intro d v l hr
  refine RelV.mono (MemoLe.refl _) ?_ (fun _ he => Or.inl he) d v l hr
  intro j _ hnm
  have hne : i ≠ j := fun e => hnm (e ▸ hi)
  simp only [setField, List.getElem?_modify, hne, if_false]
  cases st.heap[j]? <;> rfl

theorem RelV.le {h : Heap} {reg : Reg} {st st' : LState} (hle : SLe st st') {d : Nat} {v : Val} {l : LVal}
    (hr : RelV h reg st.heap st.memo d v l) : RelV h reg st'.heap st'.memo d v l :=
  hle.relPres d v l hr

theorem RelVals.le {h : Heap} {reg : Reg} {st st' : LState} (hle : SLe st st') {d : Nat} {vs : List Val} {ls : List LVal}
    (hr : RelVals (RelV h reg st.heap st.memo d) vs ls) : RelVals (RelV h reg st'.heap st'.memo d) vs ls :=
  hle.relPres.vals hr

/-- restored object `i` is what was saved under name `n` -/
def Good (h : Heap) (reg : Reg) (st : LState) (n : Str) (i : Nat) : Prop :=
  i < st.heap.length ∧ ∃ o ob lo, (o, n) ∈ reg ∧ h[o]? = some ob ∧ st.heap[i]? = some lo ∧
    lo.cls = ob.cls ∧ RelVals (RelV h reg st.heap st.memo h.length) (ob.fields.map (·.val)) lo.fields

theorem Good.le {h : Heap} {reg : Reg} {st st' : LState} (hle : SLe st st') {n : Str} {i : Nat}
    (hg : Good h reg st n i) : Good h reg st' n i := by
  obtain ⟨hlt, o, ob, lo, a1, a2, a3, a4, a5⟩ := hg
  exact ⟨Nat.lt_of_lt_of_le hlt hle.heap.1, o, ob, lo, a1, a2, hle.heap.get a3, a4, RelVals.le hle a5⟩

structure LInv (h : Heap) (reg : Reg) (st : LState) : Prop where
  noCb : st.callbacks = []
  noPend : st.pend = []
  keysNodup : (st.memo.map Prod.fst).Nodup
  valsNodup : (st.memo.map Prod.snd).Nodup
  disj : ∀ w ∈ st.working, lookupMemo st.memo w = none
  good : ∀ e ∈ st.memo, Good h reg st e.1 e.2

structure LExt (st st' : LState) : Prop where
  le : SLe st st'
  work : st'.working = st.working

theorem LExt.refl (st : LState) : LExt st st := ⟨SLe.refl _, rfl⟩
theorem LExt.trans {a b c : LState} (h1 : LExt a b) (h2 : LExt b c) : LExt a c :=
  ⟨h1.le.trans h2.le, by rw [h2.work, h1.work]⟩
theorem LExt.memo {a b : LState} (h : LExt a b) : MemoLe a.memo b.memo := h.le.memo

theorem tryCallbacksIfIdle_noCb (obj : LState → JVal → LRes LVal) (st : LState) (hc : st.callbacks = []) :
    tryCallbacksIfIdle obj st = st := by
  unfold tryCallbacksIfIdle
  split
  · rw [hc]; rfl
  · rfl

/-- all phases early ⇒ no late phase -/
theorem latePhase_allEarly (obj : LState → JVal → LRes LVal) (i : Nat) :
    ∀ (flds : List (Phase × JVal)), (∀ e ∈ flds, e.1 = .early) → ∀ (st : LState) (k : Nat),
      latePhase obj i st k flds = (st, .ok ())
  | [], _, st, k => rfl
  | (p, j) :: rest, hall, st, k => by
    have hp : p = .early := hall (p, j) List.mem_cons_self
    subst hp
    unfold latePhase
    simp only [reduceCtorEq, if_false]
    exact latePhase_allEarly obj i rest (fun e he => hall e (List.mem_cons_of_mem _ he)) st (k + 1)

theorem any_late_false (flds : List (Phase × JVal)) (hall : ∀ e ∈ flds, e.1 = .early) :
    flds.any (fun f => f.1 == .late) = false := by
  rw [List.any_eq_false]
  intro e he
  rw [hall e he]; decide

theorem any_cb_false (flds : List (Phase × JVal)) (hall : ∀ e ∈ flds, e.1 = .early) :
    flds.any (fun f => f.1 == .cb) = false := by
  rw [List.any_eq_false]
  intro e he
  rw [hall e he]; decide

theorem heap_concat_get {α : Type} (l : List α) (a : α) : (l ++ [a])[l.length]? = some a := by
  simp

/-- the loader of a plain class called on an inlined record: resolve the fields, allocate, done -/
theorem loadRec_plain_none (obj : LState → JVal → LRes LVal) (st st1 : LState) (cls : Nat)
    (flds : List (Phase × JVal)) (vals : List LVal) (hearly : ∀ e ∈ flds, e.1 = .early)
    (hres : resolvePhase obj .early st flds = (st1, .ok vals)) :
    loadRec obj none st cls flds =
      ({ st1 with heap := st1.heap ++ [{ cls := cls, fields := vals }] }, .ok st1.heap.length) := by
  unfold loadRec
  simp only [hres, any_late_false _ hearly, any_cb_false _ hearly, Bool.false_and, if_false, Bool.false_eq_true]
  rw [latePhase_allEarly _ _ _ hearly]

/-! ### loading an inlined sub-tree (shared by the acyclic / generator / callback developments)

`I` is the development's invariant (with whatever side conditions it needs bundled in), `E` its
extension relation, `A f q` says that fuel `f` is enough to load the *named* object `q` from a state
satisfying `I`, `Aown f p` the same for the *inlined* object `p`. -/

structure OwnCtx (h : Heap) (reg : Reg) (T : Table) (I : LState → Prop) (E : LState → LState → Prop)
    (A Aown : Nat → Nat → Prop) : Prop where
  refl : ∀ st, E st st
  trans : ∀ {a b c : LState}, E a b → E b c → E a c
  le : ∀ {a b : LState}, E a b → SLe a b
  bound : ∀ {st : LState}, I st → ∀ e ∈ st.memo, e.2 < st.heap.length
  alloc : ∀ {st : LState}, I st → ∀ x : LObj,
    I { st with heap := st.heap ++ [x] } ∧ E st { st with heap := st.heap ++ [x] }
  idle : ∀ {st : LState}, I st → ∀ obj : LState → JVal → LRes LVal, tryCallbacksIfIdle obj st = st
  fuel2 : ∀ {f p : Nat}, Aown f p → 2 ≤ f
  stepOwn : ∀ {f p : Nat} {ob : Obj} {g : Field} {p' : Nat}, Aown (f + 1) p → h[p]? = some ob → g ∈ ob.fields → g.val = .own p' → Aown f p'
  stepRef : ∀ {f p : Nat} {ob : Obj} {g : Field} {q : Nat}, Aown (f + 1) p → h[p]? = some ob → g ∈ ob.fields → g.val = .ref q → A f q
  child : ∀ f q m, A f q → (q, m) ∈ reg → ∀ st, I st →
    ∃ st' i, object T f st (.str m) = (st', .ok (.ref i)) ∧ I st' ∧ E st st' ∧ lookupMemo st'.memo m = some i
  /-- the class of an inlined object has a plain loader -/
  inlEarly : ∀ {o : Nat} {ob : Obj} {g : Field} {p : Nat} {obp : Obj}, h[o]? = some ob → g ∈ ob.fields → g.val = .own p → h[p]? = some obp →
    ∀ x ∈ obp.fields, x.phase = .early

section
variable {h : Heap} {reg : Reg} {T : Table} {I : LState → Prop} {E : LState → LState → Prop}
  {A Aown : Nat → Nat → Prop}

/-- what loading the inlined object `p` (encoded to depth `d`) with fuel `f` gives -/
def OwnOk (h : Heap) (reg : Reg) (T : Table) (I : LState → Prop) (E : LState → LState → Prop)
    (d : Nat) (p : Nat) (f : Nat) : Prop :=
  ∀ st, I st → ∃ st' j, object T f st (encVal h reg d (.own p)) = (st', .ok (.own j)) ∧ I st' ∧ E st st' ∧
    RelV h reg st'.heap st'.memo d (.own p) (.own j) ∧ j < st'.heap.length

/-- the fields of an inlined object -/
theorem own_fields (X : OwnCtx h reg T I E A Aown) (d : Nat) (p : Nat) (ob : Obj) (hob : h[p]? = some ob)
    (f1 : Nat) (hA : Aown (f1 + 1) p) (hearly : ∀ x ∈ ob.fields, x.phase = .early)
    (IH : ∀ p', (∃ g ∈ ob.fields, g.val = .own p') → RefsInV h reg d (.own p') → OwnOk h reg T I E d p' f1) :
    ∀ (fs : List Field), (∀ g ∈ fs, g ∈ ob.fields) → RefsIn h reg d fs → ∀ (st : LState), I st →
      ∃ st' vals, resolvePhase (object T f1) .early st (encFields h reg d fs) = (st', .ok vals) ∧ I st' ∧ E st st' ∧
        RelVals (RelV h reg st'.heap st'.memo d) (fs.map (·.val)) vals ∧
        ∀ j', LVal.own j' ∈ vals → j' < st'.heap.length
  | [], _, _, st, hinv => ⟨st, [], rfl, hinv, X.refl _, trivial, by intro j' hj; simp at hj⟩
  | g :: fs, hsub, hrefs, st, hinv => by
    have hg : g ∈ ob.fields := hsub g List.mem_cons_self
    have hph : g.phase = .early := hearly g hg
    have hsub' : ∀ x ∈ fs, x ∈ ob.fields := fun x hx => hsub x (List.mem_cons_of_mem _ hx)
    have hrefs' : RefsIn h reg d fs := fun x hx => hrefs x (List.mem_cons_of_mem _ hx)
    have hrg : RefsInV h reg d g.val := hrefs g List.mem_cons_self
    obtain ⟨f2, rfl⟩ : ∃ f2, f1 = f2 + 1 := ⟨f1 - 1, by have := X.fuel2 hA; omega⟩
    have head : ∃ st1 v, object T (f2 + 1) st (encVal h reg d g.val) = (st1, .ok v) ∧ I st1 ∧ E st st1 ∧
        RelV h reg st1.heap st1.memo d g.val v ∧ ∀ j', v = .own j' → j' < st1.heap.length := by
      cases hv : g.val with
      | lit n => exact ⟨st, .lit n, by simp only [encVal, object], hinv, X.refl _, by simp only [RelV], by intro j' hj; cases hj⟩
      | str s =>
        refine ⟨st, .str s, ?_, hinv, X.refl _, by simp only [RelV], by intro j' hj; cases hj⟩
        simp only [encVal, object, (literal_roundtrip s).1, if_true, (literal_roundtrip s).2]
      | ref q =>
        rw [hv] at hrg
        simp only [RefsInV] at hrg
        obtain ⟨m, hm⟩ := hrg
        have hqm : (q, m) ∈ reg := lookupName_some_mem hm
        obtain ⟨st1, i, h1, h2, h3, h4⟩ := X.child (f2 + 1) q m (X.stepRef hA hob hg hv) hqm st hinv
        refine ⟨st1, .ref i, ?_, h2, h3, ?_, by intro j' hj; cases hj⟩
        · simp only [encVal, hm, Option.getD_some]; exact h1
        · simp only [RelV]; exact ⟨m, hm, h4⟩
      | own p' =>
        rw [hv] at hrg
        obtain ⟨st1, j, h1, h2, h3, h4, h5⟩ := IH p' ⟨g, hg, hv⟩ hrg st hinv
        exact ⟨st1, .own j, h1, h2, h3, h4, by intro j' hj; cases hj; exact h5⟩
    obtain ⟨st1, v, e1, inv1, ext1, rel1, own1⟩ := head
    obtain ⟨st2, vs, e2, inv2, ext2, rel2, own2⟩ := own_fields X d p ob hob (f2 + 1) hA hearly IH fs hsub' hrefs' st1 inv1
    refine ⟨st2, v :: vs, ?_, inv2, X.trans ext1 ext2, ⟨RelV.le (X.le ext2) rel1, rel2⟩, ?_⟩
    · simp only [encFields, List.map_cons, resolvePhase, hph, if_true]
      simp only [encFields] at e2
      rw [e1]; simp only [e2]
    · intro j' hj
      rcases List.mem_cons.mp hj with e | e
      · exact Nat.lt_of_lt_of_le (own1 j' e.symm) (X.le ext2).heap.1
      · exact own2 j' e

/-- **Loading an inlined sub-tree**: a fresh anonymous cell whose fields are, recursively, what was saved. -/
theorem load_own (X : OwnCtx h reg T I E A Aown) : ∀ (d : Nat) (p : Nat) (f : Nat),
    RefsInV h reg d (.own p) → Aown f p → (∀ ob, h[p]? = some ob → ∀ x ∈ ob.fields, x.phase = .early) →
    OwnOk h reg T I E d p f
  | 0, _, _, hrefs, _, _ => by simp [RefsInV] at hrefs
  | d + 1, p, f, hrefs, hA, hearly => by
    intro st hinv
    simp only [RefsInV] at hrefs
    obtain ⟨ob, hob, hrf⟩ := hrefs
    obtain ⟨f1, rfl⟩ : ∃ f1, f = f1 + 1 := ⟨f - 1, by have := X.fuel2 hA; omega⟩
    have hE := hearly ob hob
    obtain ⟨st1, vals, eres, inv1, ext1, rel1, own1⟩ :=
      own_fields X d p ob hob f1 hA hE
        (fun p' ⟨g, hg, hv⟩ hr => load_own X d p' f1 hr (X.stepOwn hA hob hg hv)
          (fun obp hobp => X.inlEarly hob hg hv hobp))
        ob.fields (fun _ hg => hg) hrf st hinv
    let i := st1.heap.length
    let st2 : LState := { st1 with heap := st1.heap ++ [{ cls := ob.cls, fields := vals }] }
    obtain ⟨inv2, ext2⟩ := X.alloc inv1 { cls := ob.cls, fields := vals }
    have hearlyE : ∀ e ∈ encFields h reg d ob.fields, e.1 = .early := by
      intro e he
      obtain ⟨g, hg, rfl⟩ := List.mem_map.mp he
      exact hE g hg
    refine ⟨st2, i, ?_, inv2, X.trans ext1 ext2, ?_, by simp [st2, i]⟩
    · rw [encVal_own h reg d p ob hob]
      simp only [object, loadRec_plain_none _ st st1 ob.cls _ vals hearlyE eres]
      have := X.idle inv2 (object T f1)
      simp only [st2] at this ⊢
      rw [this]
    · simp only [RelV]
      refine ⟨?_, ob, { cls := ob.cls, fields := vals }, hob, heap_concat_get _ _, rfl,
        RelVals.le (X.le ext2) rel1, fun j' hj => own1 j' hj⟩
      intro hmem
      obtain ⟨e, he, hei⟩ := List.mem_map.mp hmem
      have := X.bound inv1 e he
      simp only [i] at hei; omega

end

/-! ### the setting of the round-trip theorem -/

structure Ctx (h : Heap) (main : Nat) (reg : Reg) (T : Table) (rank : Nat → Nat) : Prop where
  regOk : RegOk main reg
  tbl : ∀ o n, (o, n) ∈ reg → ∃ ob, h[o]? = some ob ∧ lookupRec T n = some (encObj h reg ob) ∧ RefsIn h reg h.length ob.fields
  early : ∀ ob ∈ h, ∀ f ∈ ob.fields, f.phase = .early
  acyc : ∀ o ob, h[o]? = some ob → ∀ f ∈ ob.fields, ∀ p, f.val.target = some p → rank p < rank o

section
variable {h : Heap} {main : Nat} {reg : Reg} {T : Table} {rank : Nat → Nat}

/-- what a successful load by name gives -/
def LoadsOk (h : Heap) (reg : Reg) (T : Table) (fuel : Nat) (st : LState) (n : Str) : Prop :=
  ∃ st' i, object T fuel st (.str n) = (st', .ok (.ref i)) ∧ LInv h reg st' ∧ LExt st st' ∧
    lookupMemo st'.memo n = some i

theorem encFields_early (C : Ctx h main reg T rank) {ob : Obj} (hob : ob ∈ h) (d : Nat) (fs : List Field)
    (hsub : ∀ f ∈ fs, f ∈ ob.fields) : ∀ e ∈ encFields h reg d fs, e.1 = .early := by
  intro e he
  obtain ⟨f, hf, rfl⟩ := List.mem_map.mp he
  exact C.early ob hob f (hsub f hf)

/-- the statement proved by induction on the fuel: a registered object of small enough rank loads -/
def NamedOk (h : Heap) (reg : Reg) (T : Table) (rank : Nat → Nat) (f : Nat) : Prop :=
  ∀ o n, (o, n) ∈ reg → rank o + 1 < f → ∀ st, LInv h reg st →
    (∀ w ∈ st.working, ∃ q, (q, w) ∈ reg ∧ rank o < rank q) → LoadsOk h reg T f st n

/-- the generic interface, instantiated for the acyclic development: the working set is fixed (`W0`),
all objects under construction have rank `≥ B` -/
theorem ownCtx_acyclic (C : Ctx h main reg T rank) (F : Nat) (IHn : ∀ f ≤ F, NamedOk h reg T rank f)
    (W0 : List Str) (B : Nat) (hW : ∀ w ∈ W0, ∃ q, (q, w) ∈ reg ∧ B ≤ rank q) :
    OwnCtx h reg T (fun st => LInv h reg st ∧ st.working = W0) (fun a b => LExt a b)
      (fun f q => f ≤ F ∧ rank q + 1 < f ∧ rank q < B) (fun f p => f ≤ F ∧ rank p + 1 < f ∧ rank p ≤ B) where
  refl := LExt.refl
  trans := LExt.trans
  le := fun e => e.le
  bound := fun hi e he => (hi.1.good e he).1
  alloc := by
    intro st hi x
    have hle : SLe st { st with heap := st.heap ++ [x] } :=
      ⟨MemoLe.refl _, heapLe_append _ _, fun _ he => Or.inl he⟩
    refine ⟨⟨⟨hi.1.noCb, hi.1.noPend, hi.1.keysNodup, hi.1.valsNodup, hi.1.disj, ?_⟩, hi.2⟩, ⟨hle, rfl⟩⟩
    intro e he
    exact (hi.1.good e he).le hle
  idle := fun hi obj => tryCallbacksIfIdle_noCb obj _ hi.1.noCb
  fuel2 := fun hA => by omega
  stepOwn := by
    intro f p ob g p' hA hob hg hv
    have := C.acyc p ob hob g hg p' (by rw [hv]; rfl)
    exact ⟨by omega, by omega, by omega⟩
  stepRef := by
    intro f p ob g q hA hob hg hv
    have := C.acyc p ob hob g hg q (by rw [hv]; rfl)
    exact ⟨by omega, by omega, by omega⟩
  child := by
    intro f q m hA hqm st hi
    obtain ⟨st', i, h1, h2, h3, h4⟩ := IHn f hA.1 q m hqm hA.2.1 st hi.1 (by
      intro w hw
      rw [hi.2] at hw
      obtain ⟨q', hq1, hq2⟩ := hW w hw
      exact ⟨q', hq1, by omega⟩)
    exact ⟨st', i, h1, ⟨h2, by rw [h3.work, hi.2]⟩, h3, h4⟩
  inlEarly := by
    intro o ob g p obp _ _ _ hobp x hx
    exact C.early obp (List.mem_of_getElem? hobp) x hx

/-- resolving the (all early) fields of a named object whose children load fine -/
theorem resolve_fields (C : Ctx h main reg T rank) (o : Nat) (ob : Obj) (hob : h[o]? = some ob)
    (f' : Nat) (hfo : rank o + 1 < f' + 1 + 1) (IHn : ∀ f ≤ f' + 1, NamedOk h reg T rank f) :
    ∀ (fs : List Field), (∀ g ∈ fs, g ∈ ob.fields) → RefsIn h reg h.length fs → ∀ (st : LState), LInv h reg st →
      (∀ w ∈ st.working, ∃ q, (q, w) ∈ reg ∧ rank o ≤ rank q) →
      ∃ st' vals, resolvePhase (object T (f' + 1)) .early st (encFields h reg h.length fs) = (st', .ok vals) ∧
        LInv h reg st' ∧ LExt st st' ∧ RelVals (RelV h reg st'.heap st'.memo h.length) (fs.map (·.val)) vals
  | [], _, _, st, hinv, _ => ⟨st, [], rfl, hinv, LExt.refl _, trivial⟩
  | g :: fs, hsub, hrefs, st, hinv, hw => by
    have hg : g ∈ ob.fields := hsub g List.mem_cons_self
    have hph : g.phase = .early := C.early ob (List.mem_of_getElem? hob) g hg
    have hsub' : ∀ x ∈ fs, x ∈ ob.fields := fun x hx => hsub x (List.mem_cons_of_mem _ hx)
    have hrefs' : RefsIn h reg h.length fs := fun x hx => hrefs x (List.mem_cons_of_mem _ hx)
    have hrg : RefsInV h reg h.length g.val := hrefs g List.mem_cons_self
    -- the head
    have head : ∃ st1 v, object T (f' + 1) st (encVal h reg h.length g.val) = (st1, .ok v) ∧ LInv h reg st1 ∧ LExt st st1 ∧
        RelV h reg st1.heap st1.memo h.length g.val v := by
      cases hv : g.val with
      | lit n => exact ⟨st, .lit n, by simp only [encVal, object], hinv, LExt.refl _, by simp only [RelV]⟩
      | str s =>
        refine ⟨st, .str s, ?_, hinv, LExt.refl _, by simp only [RelV]⟩
        simp only [encVal, object, (literal_roundtrip s).1, if_true, (literal_roundtrip s).2]
      | ref p =>
        rw [hv] at hrg
        simp only [RefsInV] at hrg
        obtain ⟨m, hm⟩ := hrg
        have hpm : (p, m) ∈ reg := lookupName_some_mem hm
        have hrk : rank p < rank o := C.acyc o ob hob g hg p (by rw [hv]; rfl)
        obtain ⟨st1, i, h1, h2, h3, h4⟩ := IHn (f' + 1) (Nat.le_refl _) p m hpm (by omega) st hinv (fun w hwm => by
          obtain ⟨q, hq1, hq2⟩ := hw w hwm; exact ⟨q, hq1, by omega⟩)
        refine ⟨st1, .ref i, ?_, h2, h3, ?_⟩
        · simp only [encVal, hm, Option.getD_some]; exact h1
        · simp only [RelV]; exact ⟨m, hm, h4⟩
      | own p =>
        rw [hv] at hrg
        have hrk : rank p < rank o := C.acyc o ob hob g hg p (by rw [hv]; rfl)
        have X := ownCtx_acyclic C (f' + 1) IHn st.working (rank o) hw
        obtain ⟨st1, j, h1, h2, h3, h4, _⟩ := load_own X h.length p (f' + 1) hrg ⟨Nat.le_refl _, by omega, by omega⟩
          (fun obp hobp x hx => C.early obp (List.mem_of_getElem? hobp) x hx) st ⟨hinv, rfl⟩
        exact ⟨st1, .own j, h1, h2.1, h3, h4⟩
    obtain ⟨st1, v, e1, inv1, ext1, rel1⟩ := head
    obtain ⟨st2, vs, e2, inv2, ext2, rel2⟩ := resolve_fields C o ob hob f' hfo IHn fs hsub' hrefs' st1 inv1 (by
      rw [ext1.work]; exact hw)
    refine ⟨st2, v :: vs, ?_, inv2, ext1.trans ext2, ⟨RelV.le ext2.le rel1, rel2⟩⟩
    simp only [encFields, List.map_cons, resolvePhase, hph, if_true]
    simp only [encFields] at e2
    rw [e1]; simp only [e2]

theorem object_named_unfold (T : Table) (f : Nat) (st : LState) (s : Str) (cls : Nat) (flds : List (Phase × JVal))
    (hlit : isLiteralStr s = false) (hm : lookupMemo st.memo s = none)
    (hr : lookupRec T s = some (.obj cls flds)) (hc : st.working.contains s = false) :
    object T (f + 1) st (.str s) =
      match loadRec (object T f) (some s) { st with working := s :: st.working } cls flds with
      | (st2, Except.error e) => ({ st2 with working := st2.working.erase s }, .error e)
      | (st2, Except.ok i) =>
        (tryCallbacksIfIdle (object T f) { st2 with working := st2.working.erase s }, .ok (.ref i)) := by
  simp only [object, hlit, hm, hr, hc, Bool.false_eq_true, if_false]
  rfl

/-- **Loading a registered name succeeds** (acyclic, plain classes, inlined records) and keeps the invariant. -/
theorem load_named (C : Ctx h main reg T rank) : ∀ (F : Nat), ∀ f ≤ F, NamedOk h reg T rank f
  | 0, f, hf => by
    intro o n _ hr; omega
  | F + 1, f, hf => by
    rcases Nat.lt_or_ge f (F + 1) with hlt | hge
    · exact load_named C F f (by omega)
    have hfe : f = F + 1 := by omega
    subst hfe
    intro o n hon hr st hinv hw
    obtain ⟨f', rfl⟩ : ∃ f', F = f' + 1 := ⟨F - 1, by omega⟩
    have hlit : isLiteralStr n = false := C.regOk.notLiteral (o, n) hon
    unfold LoadsOk
    cases hmemo : lookupMemo st.memo n with
    | some i =>
      refine ⟨st, i, ?_, hinv, LExt.refl _, hmemo⟩
      simp only [object, hlit, hmemo]
      rfl
    | none =>
      obtain ⟨ob, hob, hrec, hrefs⟩ := C.tbl o n hon
      have hobm : ob ∈ h := List.mem_of_getElem? hob
      have hnw : n ∉ st.working := by
        intro hmem
        obtain ⟨q, hq1, hq2⟩ := hw n hmem
        have := C.regOk.obj_unique hon hq1
        subst this; omega
      have hcont : st.working.contains n = false := by simpa using hnw
      let st1 : LState := { st with working := n :: st.working }
      have inv1 : LInv h reg st1 := by
        refine ⟨hinv.noCb, hinv.noPend, hinv.keysNodup, hinv.valsNodup, ?_, hinv.good⟩
        intro w hwm
        rcases List.mem_cons.mp hwm with e | e
        · rw [e]; exact hmemo
        · exact hinv.disj w e
      have hw1 : ∀ w ∈ st1.working, ∃ q, (q, w) ∈ reg ∧ rank o ≤ rank q := by
        intro w hwm
        rcases List.mem_cons.mp hwm with e | e
        · exact ⟨o, by rw [e]; exact hon, Nat.le_refl _⟩
        · obtain ⟨q, hq1, hq2⟩ := hw w e; exact ⟨q, hq1, by omega⟩
      obtain ⟨st2, vals, eres, inv2, ext2, rel2⟩ :=
        resolve_fields C o ob hob f' hr (load_named C (f' + 1)) ob.fields (fun _ hg => hg) hrefs st1 inv1 hw1
      have hearly := encFields_early C hobm h.length ob.fields (fun _ hg => hg)
      have hn2 : lookupMemo st2.memo n = none := by
        apply inv2.disj; rw [ext2.work]; exact List.mem_cons_self
      have hwork2 : st2.working = n :: st.working := ext2.work
      -- the state after allocation and registration
      let i := st2.heap.length
      let st3 : LState :=
        { memo := (n, i) :: st2.memo, working := st.working,
          heap := st2.heap ++ [{ cls := ob.cls, fields := vals }],
          callbacks := st2.callbacks, pend := st2.pend }
      have hle : SLe st2 st3 := by
        refine ⟨memoLe_cons i hn2, heapLe_append _ _, ?_⟩
        intro e he
        rcases List.mem_cons.mp he with e1 | e1
        · right; rw [e1]; exact Nat.le_refl _
        · exact Or.inl e1
      have inv3 : LInv h reg st3 := by
        refine ⟨inv2.noCb, inv2.noPend, ?_, ?_, ?_, ?_⟩
        · simp only [st3, List.map_cons, List.nodup_cons]
          exact ⟨(lookupMemo_none_iff _ _).mp hn2, inv2.keysNodup⟩
        · simp only [st3, List.map_cons, List.nodup_cons]
          refine ⟨?_, inv2.valsNodup⟩
          intro hmem
          obtain ⟨e, he, hei⟩ := List.mem_map.mp hmem
          have := (inv2.good e he).1
          simp only [i] at hei; omega
        · intro w hwm
          have hwn : w ≠ n := fun e => hnw (e ▸ hwm)
          have : lookupMemo st2.memo w = none := by
            apply inv2.disj; rw [hwork2]; exact List.mem_cons_of_mem _ hwm
          simp only [st3, lookupMemo, Ne.symm hwn, if_false]; exact this
        · intro e he
          rcases List.mem_cons.mp he with e1 | e1
          · subst e1
            refine ⟨by simp [st3, i], o, ob, { cls := ob.cls, fields := vals }, hon, hob, ?_, rfl, RelVals.le hle rel2⟩
            simp only [st3, i]; exact heap_concat_get _ _
          · exact (inv2.good e e1).le hle
      have ext3 : LExt st st3 := ⟨(show SLe st st2 from ⟨ext2.le.memo, ext2.le.heap, ext2.le.fresh⟩).trans hle, rfl⟩
      refine ⟨st3, i, ?_, inv3, ext3, by simp [st3, lookupMemo]⟩
      -- unfold the computation
      have hload : loadRec (object T (f' + 1)) (some n) st1 ob.cls (encFields h reg h.length ob.fields) = (st3, .ok i) := by
        unfold loadRec
        simp only [eres, any_late_false _ hearly, any_cb_false _ hearly, Bool.false_and,
          if_false, Bool.false_eq_true]
        rw [latePhase_allEarly _ _ _ hearly]
        simp only [st3, i, hwork2, List.erase_cons_head]
      rw [object_named_unfold T (f' + 1) st n ob.cls (encFields h reg h.length ob.fields) hlit hmemo hrec hcont]
      have hload' : loadRec (object T (f' + 1)) (some n) { st with working := n :: st.working } ob.cls
          (encFields h reg h.length ob.fields) = (st3, .ok i) := hload
      rw [hload']
      have herase : st3.working.erase n = st3.working := List.erase_of_not_mem hnw
      have hst : ({ st3 with working := st3.working.erase n } : LState) = st3 := by rw [herase]
      simp only [hst, tryCallbacksIfIdle_noCb _ st3 inv3.noCb]

end

end GlueVerif.C02
