import GlueVerif.Lemmas.C02Encode
/-! The un-serializer on the encoding of an acyclic graph of plain (non-generator, callback-free)
classes: every named load succeeds, the memo table stays injective, and every restored object has
the class and — through the memo table — the fields of the object that was saved under its name. -/
namespace GlueVerif.C02

/-! ### association-list facts -/

theorem lookupMemo_some_mem {memo : List (Str × Nat)} {n : Str} {i : Nat} (h : lookupMemo memo n = some i) :
    (n, i) ∈ memo := by
  induction memo with
  | nil => simp [lookupMemo] at h
  | cons e r ih =>
    obtain ⟨m, j⟩ := e
    unfold lookupMemo at h
    by_cases hm : m = n
    · simp only [hm, if_true, Option.some.injEq] at h; simp [hm, h]
    · simp only [hm, if_false] at h; exact List.mem_cons_of_mem _ (ih h)

theorem lookupMemo_none_iff (memo : List (Str × Nat)) (n : Str) :
    lookupMemo memo n = none ↔ n ∉ memo.map Prod.fst := by
  induction memo with
  | nil => simp [lookupMemo]
  | cons e r ih =>
    obtain ⟨m, j⟩ := e
    unfold lookupMemo
    by_cases hm : m = n
    · simp [hm]
    · simp only [hm, if_false, List.map_cons, List.mem_cons, not_or, ih]
      exact ⟨fun h => ⟨fun h' => hm h'.symm, h⟩, fun h => h.2⟩

theorem lookupMemo_of_mem {memo : List (Str × Nat)} (hnd : (memo.map Prod.fst).Nodup) {n : Str} {i : Nat}
    (h : (n, i) ∈ memo) : lookupMemo memo n = some i := by
  induction memo with
  | nil => simp at h
  | cons e r ih =>
    obtain ⟨m, j⟩ := e
    simp only [List.map_cons, List.nodup_cons] at hnd
    unfold lookupMemo
    by_cases hm : m = n
    · simp only [hm, if_true]
      rcases List.mem_cons.mp h with h1 | h1
      · simp only [Prod.mk.injEq] at h1; rw [h1.2]
      · exfalso; apply hnd.1; rw [hm]; exact List.mem_map.mpr ⟨(n, i), h1, rfl⟩
    · simp only [hm, if_false]
      rcases List.mem_cons.mp h with h1 | h1
      · simp only [Prod.mk.injEq] at h1; exact absurd h1.1.symm hm
      · exact ih hnd.2 h1

theorem lookupRec_of_mem {T : Table} (hnd : (T.map Prod.fst).Nodup) {n : Str} {j : JVal}
    (h : (n, j) ∈ T) : lookupRec T n = some j := by
  induction T with
  | nil => simp at h
  | cons e r ih =>
    obtain ⟨m, k⟩ := e
    simp only [List.map_cons, List.nodup_cons] at hnd
    unfold lookupRec
    by_cases hm : m = n
    · simp only [hm, if_true]
      rcases List.mem_cons.mp h with h1 | h1
      · simp only [Prod.mk.injEq] at h1; rw [h1.2]
      · exfalso; apply hnd.1; rw [hm]; exact List.mem_map.mpr ⟨(n, j), h1, rfl⟩
    · simp only [hm, if_false]
      rcases List.mem_cons.mp h with h1 | h1
      · simp only [Prod.mk.injEq] at h1; exact absurd h1.1.symm hm
      · exact ih hnd.2 h1

theorem nameOfIdx_of_mem {memo : List (Str × Nat)} (hnd : (memo.map Prod.snd).Nodup) {n : Str} {i : Nat}
    (h : (n, i) ∈ memo) : nameOfIdx memo i = some n := by
  induction memo with
  | nil => simp at h
  | cons e r ih =>
    obtain ⟨m, j⟩ := e
    simp only [List.map_cons, List.nodup_cons] at hnd
    unfold nameOfIdx
    by_cases hj : j = i
    · simp only [hj, if_true]
      rcases List.mem_cons.mp h with h1 | h1
      · simp only [Prod.mk.injEq] at h1; rw [h1.1]
      · exfalso; apply hnd.1; rw [hj]; exact List.mem_map.mpr ⟨(n, i), h1, rfl⟩
    · simp only [hj, if_false]
      rcases List.mem_cons.mp h with h1 | h1
      · simp only [Prod.mk.injEq] at h1; exact absurd h1.2.symm hj
      · exact ih hnd.2 h1

theorem prefix_getElem? {α : Type} {l₁ l₂ : List α} (hp : l₁ <+: l₂) {i : Nat} {a : α} (h : l₁[i]? = some a) :
    l₂[i]? = some a := by
  obtain ⟨t, rfl⟩ := hp
  have hi : i < l₁.length := by
    obtain ⟨hi, _⟩ := List.getElem?_eq_some_iff.mp h; exact hi
  rw [List.getElem?_append_left hi]; exact h

/-! ### what a restored value must look like -/

def RelVal (reg : Reg) (memo : List (Str × Nat)) : Val → LVal → Prop
  | .lit n, .lit m => n = m
  | .str s, .str t => s = t
  | .ref p, .ref j => ∃ m, lookupName reg p = some m ∧ lookupMemo memo m = some j
  | _, _ => False

def RelVals (reg : Reg) (memo : List (Str × Nat)) : List Val → List LVal → Prop
  | [], [] => True
  | v :: vs, l :: ls => RelVal reg memo v l ∧ RelVals reg memo vs ls
  | _, _ => False

def MemoLe (m m' : List (Str × Nat)) : Prop := ∀ n j, lookupMemo m n = some j → lookupMemo m' n = some j

theorem MemoLe.refl (m : List (Str × Nat)) : MemoLe m m := fun _ _ h => h
theorem MemoLe.trans {a b c : List (Str × Nat)} (h1 : MemoLe a b) (h2 : MemoLe b c) : MemoLe a c :=
  fun n j h => h2 n j (h1 n j h)

theorem memoLe_cons {m : List (Str × Nat)} {n : Str} (i : Nat) (hn : lookupMemo m n = none) :
    MemoLe m ((n, i) :: m) := by
  intro k j hk
  unfold lookupMemo
  by_cases e : n = k
  · subst e; rw [hn] at hk; cases hk
  · simp only [e, if_false]; exact hk

theorem RelVal.mono {reg : Reg} {m m' : List (Str × Nat)} (hle : MemoLe m m') {v : Val} {l : LVal}
    (h : RelVal reg m v l) : RelVal reg m' v l := by
  cases v <;> cases l <;> simp only [RelVal] at h ⊢ <;> try exact h
  obtain ⟨k, h1, h2⟩ := h
  exact ⟨k, h1, hle _ _ h2⟩

theorem RelVals.mono {reg : Reg} {m m' : List (Str × Nat)} (hle : MemoLe m m') :
    ∀ {vs : List Val} {ls : List LVal}, RelVals reg m vs ls → RelVals reg m' vs ls
  | [], [], _ => trivial
  | _ :: _, [], h => by simp [RelVals] at h
  | [], _ :: _, h => by simp [RelVals] at h
  | _ :: _, _ :: _, h => ⟨RelVal.mono hle h.1, RelVals.mono hle h.2⟩

/-- restored object `i` is what was saved under name `n` -/
def Good (h : Heap) (reg : Reg) (st : LState) (n : Str) (i : Nat) : Prop :=
  i < st.heap.length ∧ ∃ o ob lo, (o, n) ∈ reg ∧ h[o]? = some ob ∧ st.heap[i]? = some lo ∧
    lo.cls = ob.cls ∧ RelVals reg st.memo (ob.fields.map (·.val)) lo.fields

structure LInv (h : Heap) (reg : Reg) (st : LState) : Prop where
  noCb : st.callbacks = []
  noPend : st.pend = []
  keysNodup : (st.memo.map Prod.fst).Nodup
  valsNodup : (st.memo.map Prod.snd).Nodup
  disj : ∀ w ∈ st.working, lookupMemo st.memo w = none
  good : ∀ e ∈ st.memo, Good h reg st e.1 e.2

structure LExt (st st' : LState) : Prop where
  memo : MemoLe st.memo st'.memo
  heap : st.heap <+: st'.heap
  work : st'.working = st.working

theorem LExt.refl (st : LState) : LExt st st := ⟨MemoLe.refl _, List.prefix_refl _, rfl⟩
theorem LExt.trans {a b c : LState} (h1 : LExt a b) (h2 : LExt b c) : LExt a c :=
  ⟨h1.memo.trans h2.memo, List.IsPrefix.trans h1.heap h2.heap, by rw [h2.work, h1.work]⟩

theorem tryCallbacksIfIdle_noCb (obj : LState → JVal → LRes LVal) (st : LState) (hc : st.callbacks = []) :
    tryCallbacksIfIdle obj st = st := by
  unfold tryCallbacksIfIdle
  split
  · rw [hc]; rfl
  · rfl

/-- all phases early ⇒ no late phase -/
theorem latePhase_allEarly (obj : LState → JVal → LRes LVal) (i : Nat) :
    ∀ (flds : List (Phase × JVal)), (∀ e ∈ flds, e.1 = .early) → ∀ (st : LState) (k : Nat),
      latePhase obj i st k flds = (st, .ok ())
  | [], _, st, k => rfl
  | (p, j) :: rest, hall, st, k => by
    have hp : p = .early := hall (p, j) List.mem_cons_self
    subst hp
    unfold latePhase
    simp only [reduceCtorEq, if_false]
    exact latePhase_allEarly obj i rest (fun e he => hall e (List.mem_cons_of_mem _ he)) st (k + 1)

theorem any_late_false (flds : List (Phase × JVal)) (hall : ∀ e ∈ flds, e.1 = .early) :
    flds.any (fun f => f.1 == .late) = false := by
  rw [List.any_eq_false]
  intro e he
  rw [hall e he]; decide

theorem any_cb_false (flds : List (Phase × JVal)) (hall : ∀ e ∈ flds, e.1 = .early) :
    flds.any (fun f => f.1 == .cb) = false := by
  rw [List.any_eq_false]
  intro e he
  rw [hall e he]; decide


/-! ### the setting of the round-trip theorem -/

structure Ctx (h : Heap) (main : Nat) (reg : Reg) (T : Table) (rank : Nat → Nat) : Prop where
  regOk : RegOk main reg
  tbl : ∀ o n, (o, n) ∈ reg → ∃ ob, h[o]? = some ob ∧ lookupRec T n = some (encObj reg ob) ∧ RefsIn reg ob.fields
  early : ∀ ob ∈ h, ∀ f ∈ ob.fields, f.phase = .early
  noOwn : NoOwn h
  acyc : ∀ o ob, h[o]? = some ob → ∀ f ∈ ob.fields, ∀ p, f.val = .ref p → rank p < rank o

section
variable {h : Heap} {main : Nat} {reg : Reg} {T : Table} {rank : Nat → Nat}

/-- what a successful load by name gives -/
def LoadsOk (h : Heap) (reg : Reg) (T : Table) (fuel : Nat) (st : LState) (n : Str) : Prop :=
  ∃ st' i, object T fuel st (.str n) = (st', .ok (.ref i)) ∧ LInv h reg st' ∧ LExt st st' ∧
    lookupMemo st'.memo n = some i

theorem encFields_early (C : Ctx h main reg T rank) {ob : Obj} (hob : ob ∈ h) (fs : List Field)
    (hsub : ∀ f ∈ fs, f ∈ ob.fields) : ∀ e ∈ encFields reg fs, e.1 = .early := by
  intro e he
  obtain ⟨f, hf, rfl⟩ := List.mem_map.mp he
  exact C.early ob hob f (hsub f hf)

/-- resolving the (all early) fields of an object whose children load fine -/
theorem resolve_fields (C : Ctx h main reg T rank) (o : Nat) (ob : Obj) (hob : h[o]? = some ob) (hrefs : RefsIn reg ob.fields)
    (f' : Nat)
    (IHc : ∀ p m, (p, m) ∈ reg → rank p < rank o → ∀ st, LInv h reg st →
      (∀ w ∈ st.working, ∃ q, (q, w) ∈ reg ∧ rank p < rank q) → LoadsOk h reg T (f' + 1) st m) :
    ∀ (fs : List Field), (∀ g ∈ fs, g ∈ ob.fields) → ∀ (st : LState), LInv h reg st →
      (∀ w ∈ st.working, ∃ q, (q, w) ∈ reg ∧ rank o ≤ rank q) →
      ∃ st' vals, resolvePhase (object T (f' + 1)) .early st (encFields reg fs) = (st', .ok vals) ∧
        LInv h reg st' ∧ LExt st st' ∧ RelVals reg st'.memo (fs.map (·.val)) vals
  | [], _, st, hinv, _ => ⟨st, [], rfl, hinv, LExt.refl _, trivial⟩
  | g :: fs, hsub, st, hinv, hw => by
    have hg : g ∈ ob.fields := hsub g List.mem_cons_self
    have hph : g.phase = .early := C.early ob (List.mem_of_getElem? hob) g hg
    have hsub' : ∀ x ∈ fs, x ∈ ob.fields := fun x hx => hsub x (List.mem_cons_of_mem _ hx)
    -- the head
    have head : ∃ st1 v, object T (f' + 1) st (encVal reg g.val) = (st1, .ok v) ∧ LInv h reg st1 ∧ LExt st st1 ∧
        RelVal reg st1.memo g.val v := by
      cases hv : g.val with
      | lit n => exact ⟨st, .lit n, rfl, hinv, LExt.refl _, rfl⟩
      | str s =>
        refine ⟨st, .str s, ?_, hinv, LExt.refl _, rfl⟩
        simp only [encVal, object, (literal_roundtrip s).1, if_true, (literal_roundtrip s).2]
      | ref p =>
        obtain ⟨m, hm⟩ := hrefs g hg p hv
        have hpm : (p, m) ∈ reg := lookupName_some_mem hm
        have hrk : rank p < rank o := C.acyc o ob hob g hg p hv
        obtain ⟨st1, i, h1, h2, h3, h4⟩ := IHc p m hpm hrk st hinv (fun w hwm => by
          obtain ⟨q, hq1, hq2⟩ := hw w hwm; exact ⟨q, hq1, by omega⟩)
        refine ⟨st1, .ref i, ?_, h2, h3, ⟨m, hm, h4⟩⟩
        simp only [encVal, hm, Option.getD_some]; exact h1
      | own p => exact absurd hv (C.noOwn ob (List.mem_of_getElem? hob) g hg p)
    obtain ⟨st1, v, e1, inv1, ext1, rel1⟩ := head
    obtain ⟨st2, vs, e2, inv2, ext2, rel2⟩ := resolve_fields C o ob hob hrefs f' IHc fs hsub' st1 inv1 (by
      rw [ext1.work]; exact hw)
    refine ⟨st2, v :: vs, ?_, inv2, ext1.trans ext2, ⟨RelVal.mono ext2.memo rel1, rel2⟩⟩
    simp only [encFields, List.map_cons, resolvePhase, hph, if_true]
    simp only [encFields] at e2
    rw [e1]; simp only [e2]


theorem heap_concat_get {α : Type} (l : List α) (a : α) : (l ++ [a])[l.length]? = some a := by
  simp

theorem object_named_unfold (T : Table) (f : Nat) (st : LState) (s : Str) (cls : Nat) (flds : List (Phase × JVal))
    (hlit : isLiteralStr s = false) (hm : lookupMemo st.memo s = none)
    (hr : lookupRec T s = some (.obj cls flds)) (hc : st.working.contains s = false) :
    object T (f + 1) st (.str s) =
      match loadRec (object T f) (some s) { st with working := s :: st.working } cls flds with
      | (st2, Except.error e) => ({ st2 with working := st2.working.erase s }, .error e)
      | (st2, Except.ok i) =>
        (tryCallbacksIfIdle (object T f) { st2 with working := st2.working.erase s }, .ok (.ref i)) := by
  simp only [object, hlit, hm, hr, hc, Bool.false_eq_true, if_false]
  rfl

/-- **Loading a registered name succeeds** (acyclic, plain classes) and keeps the invariant. -/
theorem load_named (C : Ctx h main reg T rank) : ∀ (r : Nat) (o : Nat) (n : Str), rank o < r → (o, n) ∈ reg →
    ∀ (f : Nat), r < f → ∀ (st : LState), LInv h reg st →
      (∀ w ∈ st.working, ∃ q, (q, w) ∈ reg ∧ rank o < rank q) → LoadsOk h reg T f st n
  | 0, _, _, hr, _, _, _, _, _, _ => absurd hr (Nat.not_lt_zero _)
  | r + 1, o, n, hr, hon, f, hf, st, hinv, hw => by
    obtain ⟨f0, rfl⟩ : ∃ f0, f = f0 + 1 := ⟨f - 1, by omega⟩
    obtain ⟨f', rfl⟩ : ∃ f', f0 = f' + 1 := ⟨f0 - 1, by omega⟩
    have hlit : isLiteralStr n = false := C.regOk.notLiteral (o, n) hon
    unfold LoadsOk
    cases hmemo : lookupMemo st.memo n with
    | some i =>
      refine ⟨st, i, ?_, hinv, LExt.refl _, hmemo⟩
      simp only [object, hlit, hmemo]
      rfl
    | none =>
      obtain ⟨ob, hob, hrec, hrefs⟩ := C.tbl o n hon
      have hobm : ob ∈ h := List.mem_of_getElem? hob
      have hnw : n ∉ st.working := by
        intro hmem
        obtain ⟨q, hq1, hq2⟩ := hw n hmem
        have := C.regOk.obj_unique hon hq1
        subst this; omega
      have hcont : st.working.contains n = false := by simpa using hnw
      -- children
      have IHc : ∀ p m, (p, m) ∈ reg → rank p < rank o → ∀ st, LInv h reg st →
          (∀ w ∈ st.working, ∃ q, (q, w) ∈ reg ∧ rank p < rank q) → LoadsOk h reg T (f' + 1) st m :=
        fun p m hpm hrk st' hinv' hw' => load_named C r p m (by omega) hpm (f' + 1) (by omega) st' hinv' hw'
      let st1 : LState := { st with working := n :: st.working }
      have inv1 : LInv h reg st1 := by
        refine ⟨hinv.noCb, hinv.noPend, hinv.keysNodup, hinv.valsNodup, ?_, hinv.good⟩
        intro w hwm
        rcases List.mem_cons.mp hwm with e | e
        · rw [e]; exact hmemo
        · exact hinv.disj w e
      have hw1 : ∀ w ∈ st1.working, ∃ q, (q, w) ∈ reg ∧ rank o ≤ rank q := by
        intro w hwm
        rcases List.mem_cons.mp hwm with e | e
        · exact ⟨o, by rw [e]; exact hon, Nat.le_refl _⟩
        · obtain ⟨q, hq1, hq2⟩ := hw w e; exact ⟨q, hq1, by omega⟩
      obtain ⟨st2, vals, eres, inv2, ext2, rel2⟩ :=
        resolve_fields C o ob hob hrefs f' IHc ob.fields (fun _ hg => hg) st1 inv1 hw1
      have hearly := encFields_early C hobm ob.fields (fun _ hg => hg)
      have hn2 : lookupMemo st2.memo n = none := by
        apply inv2.disj; rw [ext2.work]; exact List.mem_cons_self
      have hwork2 : st2.working = n :: st.working := ext2.work
      -- the state after allocation and registration
      let i := st2.heap.length
      let st3 : LState :=
        { memo := (n, i) :: st2.memo, working := st.working,
          heap := st2.heap ++ [{ cls := ob.cls, fields := vals }],
          callbacks := st2.callbacks, pend := st2.pend }
      have hle : MemoLe st2.memo st3.memo := memoLe_cons i hn2
      have inv3 : LInv h reg st3 := by
        refine ⟨inv2.noCb, inv2.noPend, ?_, ?_, ?_, ?_⟩
        · simp only [st3, List.map_cons, List.nodup_cons]
          exact ⟨(lookupMemo_none_iff _ _).mp hn2, inv2.keysNodup⟩
        · simp only [st3, List.map_cons, List.nodup_cons]
          refine ⟨?_, inv2.valsNodup⟩
          intro hmem
          obtain ⟨e, he, hei⟩ := List.mem_map.mp hmem
          have := (inv2.good e he).1
          simp only [i] at hei; omega
        · intro w hwm
          have hwn : w ≠ n := fun e => hnw (e ▸ hwm)
          have : lookupMemo st2.memo w = none := by
            apply inv2.disj; rw [hwork2]; exact List.mem_cons_of_mem _ hwm
          simp only [st3, lookupMemo, Ne.symm hwn, if_false]; exact this
        · intro e he
          rcases List.mem_cons.mp he with e1 | e1
          · subst e1
            refine ⟨by simp [st3, i], o, ob, { cls := ob.cls, fields := vals }, hon, hob, ?_, rfl, RelVals.mono hle rel2⟩
            simp only [st3, i]; exact heap_concat_get _ _
          · obtain ⟨hlt, o', ob', lo', a1, a2, a3, a4, a5⟩ := inv2.good e e1
            refine ⟨by simp only [st3, List.length_append, List.length_cons, List.length_nil]; omega,
              o', ob', lo', a1, a2, ?_, a4, RelVals.mono hle a5⟩
            simp only [st3]; rw [List.getElem?_append_left hlt]; exact a3
      have ext3 : LExt st st3 := by
        refine ⟨?_, ?_, rfl⟩
        · exact (ext2.memo).trans hle
        · exact List.IsPrefix.trans ext2.heap (List.prefix_append _ _)
      refine ⟨st3, i, ?_, inv3, ext3, by simp [st3, lookupMemo]⟩
      -- unfold the computation
      have hload : loadRec (object T (f' + 1)) (some n) st1 ob.cls (encFields reg ob.fields) = (st3, .ok i) := by
        unfold loadRec
        simp only [eres, any_late_false _ hearly, any_cb_false _ hearly, Bool.false_and,
          if_false, Bool.false_eq_true]
        rw [latePhase_allEarly _ _ _ hearly]
        simp only [st3, i, hwork2, List.erase_cons_head]
      rw [object_named_unfold T (f' + 1) st n ob.cls (encFields reg ob.fields) hlit hmemo hrec hcont]
      have hload' : loadRec (object T (f' + 1)) (some n) { st with working := n :: st.working } ob.cls
          (encFields reg ob.fields) = (st3, .ok i) := hload
      rw [hload']
      have herase : st3.working.erase n = st3.working := List.erase_of_not_mem hnw
      have hst : ({ st3 with working := st3.working.erase n } : LState) = st3 := by rw [herase]
      simp only [hst, tryCallbacksIfIdle_noCb _ st3 inv3.noCb]

end

end GlueVerif.C02
