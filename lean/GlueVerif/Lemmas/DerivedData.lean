import GlueVerif.Lemmas.Derived
/-! Helper lemmas for C14: views, and `Data.__getitem__` on a whole component table. -/
set_option linter.unusedSectionVars false
set_option linter.unusedSimpArgs false
namespace GlueVerif.Derived

/-! ### numpy basic views -/

theorem ioffset_nil_right : ∀ idx : List Nat, ioffset idx [] = 0
  | [] => rfl
  | _ :: _ => rfl

theorem ioffset_view : ∀ (v : List NAxis) (ss : List Int) (idx : List Nat),
    viewBase v ss + ioffset idx (viewStrides v ss) = ioffsetI (vmapN v idx) ss
  | [], ss, idx => by
    cases ss <;> simp [viewBase, viewStrides, vmapN, ioffsetI, ioffset_nil_right]
  | .idx i :: vs, [], idx => by
    simp [viewBase, viewStrides, vmapN, ioffsetI, ioffset_nil_right]
  | .idx i :: vs, s :: ss, idx => by
    have ih := ioffset_view vs ss idx
    simp only [viewBase, viewStrides, vmapN, ioffsetI]
    omega
  | .sl b n st :: vs, [], idx => by
    cases idx <;> simp [viewBase, viewStrides, vmapN, ioffsetI, ioffset_nil_right]
  | .sl b n st :: vs, s :: ss, [] => by
    have ih := ioffset_view vs ss []
    simp only [viewBase, viewStrides, vmapN, ioffsetI, ioffset] at *
    omega
  | .sl b n st :: vs, s :: ss, j :: idx => by
    have ih := ioffset_view vs ss idx
    simp only [viewBase, viewStrides, vmapN, ioffsetI, ioffset] at *
    grind

/-- **A view addresses the elements numpy says it does**: element `idx` of `a[view]` is the element
of `a` at the data index `vmapN view idx`. -/
theorem applyViewN_at (a : SArr α) (v : List NAxis) (idx : List Nat) :
    (applyViewN a v).at idx = a.atI (vmapN v idx) := by
  simp only [applyViewN, SArr.at, SArr.atI]
  rw [Int.add_assoc, ioffset_view]

theorem viewStrides_length : ∀ (v : List NAxis) (ss : List Int), ss.length = v.length →
    (viewStrides v ss).length = (viewShapeN v).length
  | [], ss, _ => by cases ss <;> simp [viewStrides, viewShapeN]
  | .idx _ :: vs, [], h => by simp at h
  | .idx _ :: vs, _ :: ss, h => by
    simp only [viewStrides, viewShapeN]
    exact viewStrides_length vs ss (by simpa using h)
  | .sl _ _ _ :: vs, [], h => by simp at h
  | .sl _ _ _ :: vs, _ :: ss, h => by
    simp only [viewStrides, viewShapeN, List.length_cons]
    rw [viewStrides_length vs ss (by simpa using h)]

/-- The value of a view of shape `S`, exactly: a scalar iff `S = []`. -/
def Val.IsS (v : Val α) (S : List Nat) : Prop :=
  match v with
  | .scalar _ => S = []
  | .arr a => a.shape = S ∧ a.WF ∧ S ≠ []

theorem Val.IsS.okS {v : Val α} {S : List Nat} (h : v.IsS S) : v.OkS S := by
  cases v with
  | scalar c => trivial
  | arr a => exact ⟨h.1, h.2.1⟩

theorem toVal_IsS (a : SArr α) (hw : a.WF) : (toVal a).IsS a.shape := by
  unfold toVal
  cases hs : a.shape with
  | nil => simp [Val.IsS]
  | cons n ns => simp only [Val.IsS]; exact ⟨hs, hw, by simp⟩

theorem toVal_get (a : SArr α) (idx : List Nat) (hi : InB idx a.shape) :
    (toVal a).get idx = a.at idx := by
  unfold toVal
  cases hs : a.shape with
  | nil =>
    rw [hs] at hi
    cases idx with
    | nil => simp [Val.get, SArr.at, ioffset]
    | cons i is => simp [InB] at hi
  | cons n ns => rfl

theorem Val.IsS.isArr_iff {v : Val α} {S : List Nat} (h : v.IsS S) : v.isArr = true ↔ S ≠ [] := by
  cases v with
  | scalar c =>
    have hS : S = [] := h
    simp [Val.isArr, hS]
  | arr a => simp [Val.isArr, h.2.2]

theorem IsS_of {v : Val α} {S : List Nat} (h : v.OkS S) (ha : v.isArr = true ↔ S ≠ []) : v.IsS S := by
  cases v with
  | scalar c =>
    simp only [Val.isArr] at ha
    simp only [Val.IsS]
    apply Classical.byContradiction
    intro hne
    exact absurd (ha.mpr hne) (by simp)
  | arr a => exact ⟨h.1, h.2, ha.mp rfl⟩

/-! ### expression trees with optional leaves -/

def leafVal (get : κ → Except Err (Val α)) (idx : List Nat) (k : κ) : Option α :=
  match get k with
  | .ok v => some (v.get idx)
  | .error _ => none

def leafArr (get : κ → Except Err (Val α)) (k : κ) : Bool :=
  match get k with
  | .ok v => v.isArr
  | .error _ => false

theorem evalWith_leaf (opf : ω → α → α → α) (get : κ → Except Err (Val α)) (S : List Nat) :
    ∀ (e : Expr κ ω α), (∀ k ∈ e.fromIds, ∃ v, get k = .ok v ∧ v.OkS S) →
    ∃ res, e.evalWith opf get = .ok res ∧ res.OkS S ∧
      (∀ idx, InB idx S → e.evalPt opf (leafVal get idx) = some (res.get idx)) ∧
      res.isArr = e.fromIds.any (leafArr get)
  | .const c, _ => ⟨.scalar c, rfl, trivial, fun _ _ => rfl, rfl⟩
  | .cid k, h => by
    obtain ⟨v, hv, hok⟩ := h k (by simp [Expr.fromIds])
    refine ⟨v, hv, hok, ?_, ?_⟩
    · intro idx _; simp [Expr.evalPt, leafVal, hv]
    · simp [Expr.fromIds, leafArr, hv]
  | .bin o l r, h => by
    obtain ⟨a, ha, haok, haval, haarr⟩ := evalWith_leaf opf get S l
      (fun k hk => h k (by simp [Expr.fromIds, hk]))
    obtain ⟨b, hb, hbok, hbval, hbarr⟩ := evalWith_leaf opf get S r
      (fun k hk => h k (by simp [Expr.fromIds, hk]))
    obtain ⟨res, hres, hresok, hresarr, hresval⟩ := binaryCompute_spec (opf o) a b S haok hbok
    refine ⟨res, ?_, hresok, ?_, ?_⟩
    · simp only [Expr.evalWith, ha, hb, hres]
    · intro idx hi
      simp only [Expr.evalPt, haval idx hi, hbval idx hi, hresval idx hi]
    · rw [hresarr, haarr, hbarr]; simp [Expr.fromIds, List.any_append]

theorem Expr.evalPt_congr (opf : ω → α → α → α) (g g' : κ → Option α) :
    ∀ (e : Expr κ ω α), (∀ k ∈ e.fromIds, g k = g' k) → e.evalPt opf g = e.evalPt opf g'
  | .const _, _ => rfl
  | .cid k, h => by simpa [Expr.evalPt] using h k (by simp [Expr.fromIds])
  | .bin o l r, h => by
    simp only [Expr.evalPt]
    rw [Expr.evalPt_congr opf g g' l (fun k hk => h k (by simp [Expr.fromIds, hk])),
      Expr.evalPt_congr opf g g' r (fun k hk => h k (by simp [Expr.fromIds, hk]))]

/-! ### parsed commands: plain numpy arithmetic -/

theorem npBinary_spec (op : α → α → α) (l r : Val α) (S : List Nat) (hl : l.OkS S) (hr : r.OkS S) :
    ∃ res, npBinary op l r = some res ∧ res.OkS S ∧ res.isArr = (l.isArr || r.isArr) ∧
      ∀ idx, InB idx S → res.get idx = op (l.get idx) (r.get idx) := by
  cases l with
  | scalar c =>
    cases r with
    | scalar d => exact ⟨.scalar (op c d), rfl, trivial, rfl, fun _ _ => rfl⟩
    | arr r =>
      refine ⟨.arr (fresh2 op (fullOf c r.shape) r r.shape), rfl, ⟨hr.1, fresh2_WF _ _ _ _⟩, rfl, ?_⟩
      intro idx hi
      show (fresh2 _ _ _ _).at idx = _
      rw [fresh2_at _ _ _ _ _ (by rw [hr.1]; exact hi), fullOf_at]; rfl
  | arr l =>
    cases r with
    | scalar d =>
      refine ⟨.arr (fresh2 op l (fullOf d l.shape) l.shape), rfl, ⟨hl.1, fresh2_WF _ _ _ _⟩, rfl, ?_⟩
      intro idx hi
      show (fresh2 _ _ _ _).at idx = _
      rw [fresh2_at _ _ _ _ _ (by rw [hl.1]; exact hi), fullOf_at]; rfl
    | arr r =>
      have hsh : (l.shape == r.shape) = true := by simp [hl.1, hr.1]
      refine ⟨.arr (fresh2 op l r l.shape), by simp [npBinary, hsh], ⟨hl.1, fresh2_WF _ _ _ _⟩, rfl, ?_⟩
      intro idx hi
      show (fresh2 _ _ _ _).at idx = _
      rw [fresh2_at _ _ _ _ _ (by rw [hl.1]; exact hi)]; rfl

theorem npUnary_spec (f : α → α) (a : Val α) (S : List Nat) (ha : a.OkS S) :
    (npUnary f a).OkS S ∧ (npUnary f a).isArr = a.isArr ∧
      ∀ idx, InB idx S → (npUnary f a).get idx = f (a.get idx) := by
  cases a with
  | scalar c => exact ⟨trivial, rfl, fun _ _ => rfl⟩
  | arr a =>
    refine ⟨⟨ha.1, contig_length _⟩, rfl, ?_⟩
    intro idx hi
    show (fresh1 f a).at idx = _
    rw [fresh1_at f a idx (by rw [ha.1]; exact hi)]; rfl

theorem pevalWith_leaf (opf : ω → α → α → α) (negf : α → α) (get : κ → Except Err (Val α))
    (S : List Nat) :
    ∀ (p : PExpr κ ω α), (∀ k ∈ p.refs, ∃ v, get k = .ok v ∧ v.OkS S) →
    ∃ res, p.evalWith opf negf get = .ok res ∧ res.OkS S ∧
      (∀ idx, InB idx S → p.evalPt opf negf (leafVal get idx) = some (res.get idx)) ∧
      res.isArr = p.refs.any (leafArr get)
  | .num c, _ => ⟨.scalar c, rfl, trivial, fun _ _ => rfl, rfl⟩
  | .ref k, h => by
    obtain ⟨v, hv, hok⟩ := h k (by simp [PExpr.refs])
    refine ⟨v, hv, hok, ?_, ?_⟩
    · intro idx _; simp [PExpr.evalPt, leafVal, hv]
    · simp [PExpr.refs, leafArr, hv]
  | .neg e, h => by
    obtain ⟨a, ha, haok, haval, haarr⟩ := pevalWith_leaf opf negf get S e
      (fun k hk => h k (by simpa [PExpr.refs] using hk))
    obtain ⟨h1, h2, h3⟩ := npUnary_spec negf a S haok
    refine ⟨npUnary negf a, by simp [PExpr.evalWith, ha], h1, ?_, ?_⟩
    · intro idx hi
      simp [PExpr.evalPt, haval idx hi, h3 idx hi]
    · rw [h2, haarr]; simp [PExpr.refs]
  | .bin o l r, h => by
    obtain ⟨a, ha, haok, haval, haarr⟩ := pevalWith_leaf opf negf get S l
      (fun k hk => h k (by simp [PExpr.refs, hk]))
    obtain ⟨b, hb, hbok, hbval, hbarr⟩ := pevalWith_leaf opf negf get S r
      (fun k hk => h k (by simp [PExpr.refs, hk]))
    obtain ⟨res, hres, hresok, hresarr, hresval⟩ := npBinary_spec (opf o) a b S haok hbok
    refine ⟨res, ?_, hresok, ?_, ?_⟩
    · simp only [PExpr.evalWith, ha, hb, hres]
    · intro idx hi
      simp only [PExpr.evalPt, haval idx hi, hbval idx hi, hresval idx hi]
    · rw [hresarr, haarr, hbarr]; simp [PExpr.refs, List.any_append]

theorem PExpr.evalPt_congr (opf : ω → α → α → α) (negf : α → α) (g g' : κ → Option α) :
    ∀ (p : PExpr κ ω α), (∀ k ∈ p.refs, g k = g' k) → p.evalPt opf negf g = p.evalPt opf negf g'
  | .num _, _ => rfl
  | .ref k, h => by simpa [PExpr.evalPt] using h k (by simp [PExpr.refs])
  | .neg e, h => by
    simp only [PExpr.evalPt]
    rw [PExpr.evalPt_congr opf negf g g' e (fun k hk => h k (by simpa [PExpr.refs] using hk))]
  | .bin o l r, h => by
    simp only [PExpr.evalPt]
    rw [PExpr.evalPt_congr opf negf g g' l (fun k hk => h k (by simp [PExpr.refs, hk])),
      PExpr.evalPt_congr opf negf g g' r (fun k hk => h k (by simp [PExpr.refs, hk]))]

theorem parsedFinish_spec (S : List Nat) (v : Val α) (hv : v.OkS S)
    (harr : v.isArr = true → S ≠ []) :
    (parsedFinish S v).IsS S ∧ ∀ idx, InB idx S → (parsedFinish S v).get idx = v.get idx := by
  cases v with
  | scalar c =>
    simp only [parsedFinish]
    have hw : (fullOf c S).WF := fullOf_WF c S
    refine ⟨toVal_IsS (fullOf c S) hw, ?_⟩
    intro idx hi
    rw [toVal_get (fullOf c S) idx hi]; rfl
  | arr a =>
    exact ⟨⟨hv.1, hv.2, harr rfl⟩, fun _ _ => rfl⟩

/-! ### the full view -/

theorem viewShapeN_fullView : ∀ D : List Nat, viewShapeN (fullView D) = D
  | [] => rfl
  | h :: hs => by simp [fullView, viewShapeN]; exact viewShapeN_fullView hs

theorem fullView_length (D : List Nat) : (fullView D).length = D.length := by simp [fullView]

theorem vmapN_fullView : ∀ (D idx : List Nat), idx.length = D.length →
    vmapN (fullView D) idx = idx.map Int.ofNat
  | [], [], _ => rfl
  | h :: hs, i :: is, hl => by
    have ih := vmapN_fullView hs is (by simpa using hl)
    simp only [fullView, List.map_cons, vmapN] at *
    rw [ih]; simp
  | [], _ :: _, hl => by simp at hl
  | _ :: _, [], hl => by simp at hl

theorem InB.length : ∀ {idx S : List Nat}, InB idx S → idx.length = S.length
  | [], [], _ => rfl
  | _ :: is, _ :: ns, h => by simp [InB.length (idx := is) (S := ns) h.2]
  | [], _ :: _, h => by simp [InB] at h
  | _ :: _, [], h => by simp [InB] at h

theorem normView_nil : ∀ D : List Nat, normView D [] = some (fullView D)
  | [] => rfl
  | h :: hs => by simp [normView, normView_nil hs, fullView]

/-! ### user-function links: collecting the arguments -/

theorem sequenceE_ok (get : κ → Except Err (Val α)) (P : κ → Val α → Prop) :
    ∀ (fs : List κ), (∀ k ∈ fs, ∃ v, get k = .ok v ∧ P k v) →
    ∃ args, sequenceE (fs.map get) = .ok args ∧ All2 (fun k v => get k = .ok v ∧ P k v) fs args
  | [], _ => ⟨[], rfl, .nil⟩
  | k :: rest, h => by
    obtain ⟨v, hv, hp⟩ := h k (by simp)
    obtain ⟨args, hargs, hall⟩ := sequenceE_ok get P rest (fun k' hk' => h k' (by simp [hk']))
    exact ⟨v :: args, by simp [sequenceE, hv, hargs], .cons ⟨hv, hp⟩ hall⟩

theorem all2_mapM' {fs : List κ} {args : List (Val α)} {g : κ → Option α} {idx : List Nat}
    {R : κ → Val α → Prop} (h : All2 R fs args)
    (hg : ∀ k v, R k v → g k = some (v.get idx)) :
    mapM' g fs = some (args.map (·.get idx)) := by
  induction h with
  | nil => rfl
  | cons hr _ ih => simp [mapM', hg _ _ hr, ih]

theorem all2_forall {fs : List κ} {args : List (Val α)} {R : κ → Val α → Prop} {Q : Val α → Prop}
    (h : All2 R fs args) (hq : ∀ k v, R k v → Q v) : ∀ v ∈ args, Q v := by
  induction h with
  | nil => intro v hv; simp at hv
  | cons hr _ ih =>
    intro v hv
    simp only [List.mem_cons] at hv
    rcases hv with rfl | hv
    · exact hq _ _ hr
    · exact ih v hv

theorem all2_ne_nil {fs : List κ} {args : List (Val α)} {R : κ → Val α → Prop}
    (h : All2 R fs args) (hne : fs ≠ []) : args ≠ [] := by
  cases h with
  | nil => exact absurd rfl hne
  | cons _ _ => simp

theorem allScalar_of : ∀ (args : List (Val α)), (∀ v ∈ args, v.isArr = false) →
    allScalar args = some (args.map (·.get []))
  | [], _ => rfl
  | .scalar c :: rest, h => by
    simp [allScalar, allScalar_of rest (fun v hv => h v (by simp [hv])), Val.get]
  | .arr a :: rest, h => by
    have := h (.arr a) (by simp)
    simp [Val.isArr] at this

theorem linkCompute_scalars (f : List α → α) (rv : Bool) (args : List (Val α)) (hne : args ≠ [])
    (h : ∀ v ∈ args, v.isArr = false) :
    linkCompute f rv args = some (.scalar (f (args.map (·.get [])))) := by
  cases args with
  | nil => exact absurd rfl hne
  | cons v rest =>
    cases v with
    | arr a =>
      have := h (.arr a) (by simp)
      simp [Val.isArr] at this
    | scalar c =>
      simp [linkCompute, allScalar_of rest (fun v hv => h v (by simp [hv])), Val.get]

theorem arrs_of : ∀ (args : List (Val α)), (∀ v ∈ args, v.isArr = true) →
    ∃ as : List (SArr α), args = as.map .arr
  | [], _ => ⟨[], rfl⟩
  | .arr a :: rest, h => by
    obtain ⟨as, has⟩ := arrs_of rest (fun v hv => h v (by simp [hv]))
    exact ⟨a :: as, by simp [has]⟩
  | .scalar c :: rest, h => by
    have := h (.scalar c) (by simp)
    simp [Val.isArr] at this

/-! ### `Data.__getitem__` on a whole table -/

section table
variable {κ ω α : Type} [DecidableEq κ]

/-- Well-formed dataset of shape `D`: every stored / coordinate component is an array of shape `D`
(any strides); binary links and user-function links read at least one attribute. -/
def TableOk (D : List Nat) (t : Table κ ω α) : Prop :=
  ∀ k c, t.find k = some c →
    match c with
    | .prim a _ => a.shape = D ∧ a.WF
    | .derived (.binary e) => e.fromIds ≠ []
    | .derived (.func fs _ _) => fs ≠ []
    | .derived (.parsed _) => True

theorem getData_spec (I : Interp ω α) (D : List Nat) (t : Table κ ω α) (nv : List NAxis)
    (hT : TableOk D t) (hv : nv.length = D.length) :
    ∀ (fuel : Nat) (k : κ), refsOk fuel t k = true →
    ∃ res, getData I nv (viewShapeN nv) fuel t k = .ok res ∧ res.IsS (viewShapeN nv) ∧
      ∀ idx, InB idx (viewShapeN nv) → specAt I fuel t (vmapN nv idx) k = some (res.get idx)
  | 0, _, h => by simp [refsOk] at h
  | fuel + 1, k, h => by
    have ih := getData_spec I D t nv hT hv fuel
    simp only [refsOk] at h
    cases hf : t.find k with
    | none => simp [hf] at h
    | some c =>
      have hc := hT k c hf
      cases c with
      | prim a co =>
        simp only at hc
        have hw : (applyViewN a nv).WF := by
          simp only [SArr.WF, applyViewN]
          exact viewStrides_length nv a.strides (by rw [hc.2, hc.1, hv])
        refine ⟨toVal (applyViewN a nv), by simp [getData, hf], toVal_IsS _ hw, ?_⟩
        intro idx hi
        simp only [specAt, hf]
        rw [toVal_get _ idx hi, applyViewN_at]
      | derived l =>
        simp only [hf] at h
        have hleaf : ∀ k' ∈ l.fromIds, ∃ v, getData I nv (viewShapeN nv) fuel t k' = .ok v ∧
            (v.IsS (viewShapeN nv) ∧ ∀ idx, InB idx (viewShapeN nv) →
              specAt I fuel t (vmapN nv idx) k' = some (v.get idx)) := by
          intro k' hk'
          exact ih k' (List.all_eq_true.mp h k' hk')
        have hleafArr : ∀ k' ∈ l.fromIds,
            leafArr (getData I nv (viewShapeN nv) fuel t) k' = decide (viewShapeN nv ≠ []) := by
          intro k' hk'
          obtain ⟨v, hv', his, _⟩ := hleaf k' hk'
          simp only [leafArr, hv']
          by_cases hS : viewShapeN nv = []
          · have : ¬ (v.isArr = true) := fun ha => (his.isArr_iff.mp ha) hS
            simp [hS]; simpa using this
          · simp [hS, his.isArr_iff.mpr hS]
        have hleafVal : ∀ idx, InB idx (viewShapeN nv) → ∀ k' ∈ l.fromIds,
            specAt I fuel t (vmapN nv idx) k' = leafVal (getData I nv (viewShapeN nv) fuel t) idx k' := by
          intro idx hi k' hk'
          obtain ⟨v, hv', _, hsp⟩ := hleaf k' hk'
          simp [leafVal, hv', hsp idx hi]
        cases l with
        | binary e =>
          simp only at hc
          obtain ⟨res, hres, hok, hval, harr⟩ := evalWith_leaf I.opf (getData I nv (viewShapeN nv) fuel t)
            (viewShapeN nv) e (fun k' hk' => by
              obtain ⟨v, hv', his, _⟩ := hleaf k' hk'
              exact ⟨v, hv', his.okS⟩)
          have hisS : res.IsS (viewShapeN nv) := by
            apply IsS_of hok
            rw [harr]
            obtain ⟨k0, hk0⟩ := List.exists_mem_of_ne_nil _ hc
            constructor
            · intro hany
              obtain ⟨k', hk', hka⟩ := List.any_eq_true.mp hany
              rw [hleafArr k' hk'] at hka
              simpa using hka
            · intro hS
              exact List.any_eq_true.mpr ⟨k0, hk0, by rw [hleafArr k0 hk0]; simpa using hS⟩
          refine ⟨res, by simp [getData, hf, hres], hisS, ?_⟩
          intro idx hi
          simp only [specAt, hf]
          rw [Expr.evalPt_congr I.opf _ _ e (hleafVal idx hi)]
          exact hval idx hi
        | func fs f rv =>
          simp only at hc
          obtain ⟨args, hargs, hall⟩ := sequenceE_ok (getData I nv (viewShapeN nv) fuel t)
            (fun k' v => v.IsS (viewShapeN nv) ∧ ∀ idx, InB idx (viewShapeN nv) →
              specAt I fuel t (vmapN nv idx) k' = some (v.get idx)) fs hleaf
          have hargsne : args ≠ [] := all2_ne_nil hall hc
          have hspec : ∀ idx, InB idx (viewShapeN nv) →
              mapM' (specAt I fuel t (vmapN nv idx)) fs = some (args.map (·.get idx)) :=
            fun idx hi => all2_mapM' hall (fun k' v hr => hr.2.2 idx hi)
          by_cases hS : viewShapeN nv = []
          · -- 0-d view: every argument is a scalar
            have hsc : ∀ v ∈ args, v.isArr = false :=
              all2_forall (Q := fun v => v.isArr = false) hall (fun k' v hr => by
                have : ¬ (v.isArr = true) := fun ha => (hr.2.1.isArr_iff.mp ha) hS
                simpa using this)
            have hlc := linkCompute_scalars (I.fnf f) rv args hargsne hsc
            refine ⟨.scalar (I.fnf f (args.map (·.get []))), by simp [getData, hf, hargs, hlc], hS, ?_⟩
            intro idx hi
            simp only [specAt, hf, hspec idx hi, Option.map_some, Val.get]
            rw [hS] at hi
            cases idx with
            | nil => rfl
            | cons i is => simp [InB] at hi
          · have har : ∀ v ∈ args, v.isArr = true :=
              all2_forall (Q := fun v => v.isArr = true) hall
                (fun k' v hr => hr.2.1.isArr_iff.mpr hS)
            obtain ⟨as, has⟩ := arrs_of args har
            have hasne : as ≠ [] := by
              intro h0; apply hargsne; rw [has, h0]; rfl
            have hasok : ∀ a ∈ as, a.shape = viewShapeN nv ∧ a.WF := by
              intro a ha
              have hm : Val.arr a ∈ args := by rw [has]; exact List.mem_map.mpr ⟨a, ha, rfl⟩
              have := all2_forall (Q := fun v => v.IsS (viewShapeN nv)) hall (fun _ _ hr => hr.2.1) _ hm
              exact ⟨this.1, this.2.1⟩
            obtain ⟨res, hres, hrs, hrw, hrat⟩ := linkCompute_arr (I.fnf f) rv as (viewShapeN nv) hasne hasok
            rw [← has] at hres
            refine ⟨.arr res, by simp [getData, hf, hargs, hres], ⟨hrs, hrw, hS⟩, ?_⟩
            intro idx hi
            simp only [specAt, hf, hspec idx hi, Option.map_some, Val.get]
            rw [hrat idx hi, has, List.map_map]
            rfl
        | parsed p =>
          obtain ⟨res, hres, hok, hval, harr⟩ := pevalWith_leaf I.opf I.negf
            (getData I nv (viewShapeN nv) fuel t) (viewShapeN nv) p (fun k' hk' => by
              obtain ⟨v, hv', his, _⟩ := hleaf k' hk'
              exact ⟨v, hv', his.okS⟩)
          have hfin := parsedFinish_spec (viewShapeN nv) res hok (by
            intro ha
            rw [harr] at ha
            obtain ⟨k', hk', hka⟩ := List.any_eq_true.mp ha
            rw [hleafArr k' hk'] at hka
            simpa using hka)
          refine ⟨parsedFinish (viewShapeN nv) res, by simp [getData, hf, hres], hfin.1, ?_⟩
          intro idx hi
          simp only [specAt, hf]
          rw [PExpr.evalPt_congr I.opf I.negf _ _ p (hleafVal idx hi), hfin.2 idx hi]
          exact hval idx hi

end table

end GlueVerif.Derived
