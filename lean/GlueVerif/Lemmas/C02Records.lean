import GlueVerif.Model.C02Records
import GlueVerif.Lemmas.C02Names
/-! Per-class field-level lemmas: for every class of the table, the transcribed loader applied to what
the transcribed saver returns rebuilds exactly the saved fields (`decode (encode x) = some x`), for
all field values.  What this rules out, class by class: a key written under one name and read under
another, a field that is not written (the loader's default would come back), a string written
through `id`/`do` (`st__` prefix) but read as is or vice versa, a reference written inlined but read
as a name, an operator symbol that `SYMOP` does not map back, a `_type` that selects another class. -/
namespace GlueVerif.C02.Cls
open GlueVerif.C02

theorem cObject_cId (v : PV) : cObject (cId v) = some v := by
  cases v with
  | lit n => rfl
  | str s => simp only [cId, cObject, (literal_roundtrip s).1, if_true, (literal_roundtrip s).2]
  | obj o => rfl

theorem cObject_cDo (v : PV) : cObject (cDo v) = some v := by
  cases v with
  | lit n => rfl
  | str s => simp only [cDo, cObject, (literal_roundtrip s).1, if_true, (literal_roundtrip s).2]
  | obj o => rfl

theorem mapM_cObject_cId : ∀ (l : List PV), (l.map cId).mapM cObject = some l
  | [] => rfl
  | v :: l => by simp [List.mapM_cons, cObject_cId, mapM_cObject_cId l]

theorem mapM_cObject_cDo : ∀ (l : List PV), (l.map cDo).mapM cObject = some l
  | [] => rfl
  | v :: l => by simp [List.mapM_cons, cObject_cDo, mapM_cObject_cDo l]

theorem objectsOf_cId (l : List PV) : objectsOf (.list (l.map cId)) = some l := mapM_cObject_cId l
theorem objectsOf_cDo (l : List PV) : objectsOf (.list (l.map cDo)) = some l := mapM_cObject_cDo l

theorem mapM_pairOf : ∀ (l : List (PV × PV)), (l.map fun p => JV.list [cDo p.1, cDo p.2]).mapM pairOf = some l
  | [] => rfl
  | p :: l => by simp [List.mapM_cons, pairOf, cObject_cDo, mapM_pairOf l]

theorem Ori.ofSym_sym (o : Ori) : Ori.ofSym o.sym = some o := by cases o <;> decide

/-- `SYMOP[OPSYM[op]] = op`: the two tables are inverse to each other (the symbols are pairwise different) -/
theorem Op.ofSym_sym (o : Op) : Op.ofSym o.sym = some o := by cases o <;> decide

theorem mapM_pairOf' (l : List (PV × PV)) :
    List.mapM (pairOf ∘ fun p => JV.list [cDo p.fst, cDo p.snd]) l = some l := by
  have := mapM_pairOf l
  rwa [List.mapM_map] at this

@[simp] theorem cDo_lit (n : Lit) : cDo (.lit n) = .lit n := rfl
@[simp] theorem cId_lit (n : Lit) : cId (.lit n) = .lit n := rfl
@[simp] theorem cDo_obj (o : Nat) : cDo (.obj o) = .inl o := rfl
@[simp] theorem cId_obj (o : Nat) : cId (.obj o) = .name o := rfl
@[simp] theorem cObject_lit (n : Lit) : cObject (.lit n) = some (.lit n) := rfl
@[simp] theorem cObject_inl (o : Nat) : cObject (.inl o) = some (.obj o) := rfl
@[simp] theorem cObject_name (o : Nat) : cObject (.name o) = some (.obj o) := rfl

local macro "rec_simp" : tactic =>
  `(tactic| simp [Rec.get?, Rec.getD, List.lookup, asLit, rawLit, asObj,
      cObject_cId, cObject_cDo, objectsOf_cId, objectsOf_cDo])

theorem RectangularROI.decode_encode (x : RectF) : RectangularROI.decode (RectangularROI.encode x) = some x := by
  simp only [RectangularROI.decode, RectangularROI.encode]; rec_simp

theorem RangeROI.decode_encode (x : RangeF) : RangeROI.decode (RangeROI.encode x) = some x := by
  simp only [RangeROI.decode, RangeROI.encode]; simp [Rec.get?, List.lookup, rawLit, Ori.ofSym_sym]

theorem XYRangeROI.decode_encode (o : Ori) (x : XYRangeF) : XYRangeROI.decode (XYRangeROI.encode o x) = some x := by
  simp only [XYRangeROI.decode, XYRangeROI.encode, RangeROI.encode]; rec_simp

theorem CircularROI.decode_encode (x : CircF) : CircularROI.decode (CircularROI.encode x) = some x := by
  simp only [CircularROI.decode, CircularROI.encode]; rec_simp

theorem CircularAnnulusROI.decode_encode (x : AnnulusF) :
    CircularAnnulusROI.decode (CircularAnnulusROI.encode x) = some x := by
  simp only [CircularAnnulusROI.decode, CircularAnnulusROI.encode]; rec_simp

theorem EllipticalROI.decode_encode (x : EllipseF) : EllipticalROI.decode (EllipticalROI.encode x) = some x := by
  simp only [EllipticalROI.decode, EllipticalROI.encode]; rec_simp

theorem VertexROI.decode_encode (x : VertexF) : VertexROI.decode (VertexROI.encode x) = some x := by
  simp only [VertexROI.decode, VertexROI.encode]; rec_simp

theorem CategoricalROI.decode_encode (x : CatRoiF) : CategoricalROI.decode (CategoricalROI.encode x) = some x := by
  simp only [CategoricalROI.decode, CategoricalROI.encode]; rec_simp

theorem Projected3dROI.decode_encode (x : Proj3dF) : Projected3dROI.decode (Projected3dROI.encode x) = some x := by
  simp only [Projected3dROI.decode, Projected3dROI.encode]; rec_simp

theorem RangeSubsetState.decode_encode (x : RangeStF) : RangeSubsetState.decode (RangeSubsetState.encode x) = some x := by
  simp only [RangeSubsetState.decode, RangeSubsetState.encode]; rec_simp

theorem MultiRangeSubsetState.decode_encode (x : MultiRangeF) :
    MultiRangeSubsetState.decode (MultiRangeSubsetState.encode x) = some x := by
  simp only [MultiRangeSubsetState.decode, MultiRangeSubsetState.encode]
  simp [Rec.get?, List.lookup, cObject_cId, mapM_pairOf']

theorem InequalitySubsetState.decode_encode (x : IneqF) (hop : x.op.validIneq = true) :
    InequalitySubsetState.decode (InequalitySubsetState.encode x) = some x := by
  simp only [InequalitySubsetState.decode, InequalitySubsetState.encode]
  simp [Rec.get?, List.lookup, cObject_cId, Op.ofSym_sym, hop]

theorem CategorySubsetState.decode_encode (x : CategoryF) :
    CategorySubsetState.decode (CategorySubsetState.encode x) = some x := by
  simp only [CategorySubsetState.decode, CategorySubsetState.encode]; rec_simp

theorem ElementSubsetState.decode_encode (x : ElementF) :
    ElementSubsetState.decode (ElementSubsetState.encode x) = some x := by
  obtain ⟨ind, uuid⟩ := x
  cases uuid <;> simp [ElementSubsetState.decode, ElementSubsetState.encode, Rec.get?, List.lookup, cObject_cDo]

theorem SliceSubsetState.decode_encode (x : SliceF) : SliceSubsetState.decode (SliceSubsetState.encode x) = some x := by
  simp only [SliceSubsetState.decode, SliceSubsetState.encode]; rec_simp

theorem MaskSubsetState.decode_encode (x : MaskF) : MaskSubsetState.decode (MaskSubsetState.encode x) = some x := by
  simp only [MaskSubsetState.decode, MaskSubsetState.encode]
  simp [Rec.get?, List.lookup, cObject_cDo, objectsOf_cId]

theorem RoiSubsetState.decode_encode (x : RoiStF) : RoiSubsetState.decode (RoiSubsetState.encode x) = some x := by
  simp only [RoiSubsetState.decode, RoiSubsetState.encode]
  simp [Rec.get?, Rec.getD, List.lookup, cObject_cId]

theorem RoiSubsetStateNd.decode_encode (x : RoiNdF) : RoiSubsetStateNd.decode (RoiSubsetStateNd.encode x) = some x := by
  simp only [RoiSubsetStateNd.decode, RoiSubsetStateNd.encode]
  simp [Rec.get?, List.lookup, cObject_cId, objectsOf_cId]

theorem RoiSubsetState3d.decode_encode (x : Roi3dF) : RoiSubsetState3d.decode (RoiSubsetState3d.encode x) = some x := by
  simp only [RoiSubsetState3d.decode, RoiSubsetState3d.encode]
  simp [Rec.get?, Rec.getD, List.lookup, cObject_cId]

theorem CategoricalROISubsetState.decode_encode (x : CatRoiStF) :
    CategoricalROISubsetState.decode (CategoricalROISubsetState.encode x) = some x := by
  simp only [CategoricalROISubsetState.decode, CategoricalROISubsetState.encode]
  simp [Rec.get?, List.lookup, cObject_cId]

theorem CategoricalROISubsetState2D.decode_encode (x : CatRoi2dF) :
    CategoricalROISubsetState2D.decode (CategoricalROISubsetState2D.encode x) = some x := by
  simp only [CategoricalROISubsetState2D.decode, CategoricalROISubsetState2D.encode]
  simp [Rec.get?, List.lookup, cObject_cId, rawLit]

theorem CategoricalMultiRangeSubsetState.decode_encode (x : CatMultiRangeF) :
    CategoricalMultiRangeSubsetState.decode (CategoricalMultiRangeSubsetState.encode x) = some x := by
  simp only [CategoricalMultiRangeSubsetState.decode, CategoricalMultiRangeSubsetState.encode]
  simp [Rec.get?, List.lookup, cObject_cId, rawLit]

theorem CompositeSubsetState.decode_encode (x : CompositeF) :
    CompositeSubsetState.decode x.kind (CompositeSubsetState.encode x) = some x := by
  simp only [CompositeSubsetState.decode, CompositeSubsetState.encode]
  simp [Rec.get?, List.lookup, cObject_cId]

theorem MultiOrState.decode_encode (x : MultiOrF) : MultiOrState.decode (MultiOrState.encode x) = some x := by
  simp only [MultiOrState.decode, MultiOrState.encode]
  simp [Rec.get?, List.lookup, objectsOf_cId]

theorem FloodFillSubsetState.decode_encode (x : FloodFillF) :
    FloodFillSubsetState.decode (FloodFillSubsetState.encode x) = some x := by
  simp only [FloodFillSubsetState.decode, FloodFillSubsetState.encode]
  simp [Rec.get?, List.lookup, cObject_cId, asLit]

theorem AffineCoordinates.decode_encode (x : AffineF) : AffineCoordinates.decode (AffineCoordinates.encode x) = some x := by
  simp only [AffineCoordinates.decode, AffineCoordinates.encode]
  simp [Rec.get?, List.lookup, cObject_cDo, rawLit]

theorem IdentityCoordinates.decode_encode (x : IdentityF) :
    IdentityCoordinates.decode (IdentityCoordinates.encode x) = some x := by
  simp only [IdentityCoordinates.decode, IdentityCoordinates.encode]
  simp [Rec.get?, List.lookup, rawLit]

theorem LinkCollection.decode_encode (x : LinkCollF) : LinkCollection.decode (LinkCollection.encode x) = some x := by
  simp only [LinkCollection.decode, LinkCollection.encode]
  simp [Rec.get?, List.lookup, cObject_cId]

theorem MultiLink.decode_encode (x : MultiLinkF) : MultiLink.decode (MultiLink.encode x) = some x := by
  simp only [MultiLink.decode, MultiLink.encode, LinkCollection.encode]
  simp [Rec.get?, Rec.getD, List.lookup, cObject_cId, rawLit]

theorem LinkSame.decode_encode (x : CidPairF) : LinkSame.decode (LinkSame.encode x) = some x := by
  simp only [LinkSame.decode, LinkSame.encode]
  simp [Rec.get?, List.lookup, cObject_cId]

theorem LinkTwoWay.decode_encode (x : TwoWayF) : LinkTwoWay.decode (LinkTwoWay.encode x) = some x := by
  simp only [LinkTwoWay.decode, LinkTwoWay.encode]
  simp [Rec.get?, List.lookup, cObject_cId]

theorem LinkAligned.decode_encode (x : DataPairF) : LinkAligned.decode (LinkAligned.encode x) = some x := by
  simp only [LinkAligned.decode, LinkAligned.encode]
  simp [Rec.get?, List.lookup, cObject_cId]

theorem PartialResult.decode_encode (x : PartialF) : PartialResult.decode (PartialResult.encode x) = some x := by
  simp only [PartialResult.decode, PartialResult.encode]
  simp [Rec.get?, List.lookup, cObject_cDo, rawLit]

theorem PySlice.decode_encode (x : SliceObjF) : PySlice.decode (PySlice.encode x) = some x := by
  simp only [PySlice.decode, PySlice.encode]
  simp [Rec.get?, List.lookup, rawLit]

theorem PyTuple.decode_encode (x : ContentsF) : PyList.decode (PyTuple.encode x) = some x := by
  simp only [PyList.decode, PyTuple.encode]
  simp [Rec.get?, List.lookup, objectsOf_cDo]

theorem PyList.decode_encode (x : ContentsF) : PyList.decode (PyList.encode x) = some x := by
  simp only [PyList.decode, PyList.encode]
  simp [Rec.get?, List.lookup, objectsOf_cId]

/-- the only side condition of the table: an `InequalitySubsetState` holds one of the six comparison
operators (its constructor refuses anything else) -/
def Body.wf : Body → Bool
  | .ineq f => f.op.validIneq
  | _ => true

/-- **Every pair of the table is field-faithful**: `GlueUnSerializer._dispatch(rec)(rec, context)` applied to
`GlueSerializer.do(obj)` rebuilds an object of the same class with exactly the same fields. -/
theorem Body.decode_encode (b : Body) (hwf : b.wf = true) : Body.decode b.encode = some b := by
  cases b with
  | rect f => simp [Body.decode, Body.encode, Body.tag, Body.saverRec, RectangularROI.decode_encode]
  | range f => simp [Body.decode, Body.encode, Body.tag, Body.saverRec, RangeROI.decode_encode]
  | xrange f => simp [Body.decode, Body.encode, Body.tag, Body.saverRec, XYRangeROI.decode_encode]
  | yrange f => simp [Body.decode, Body.encode, Body.tag, Body.saverRec, XYRangeROI.decode_encode]
  | circ f => simp [Body.decode, Body.encode, Body.tag, Body.saverRec, CircularROI.decode_encode]
  | annulus f => simp [Body.decode, Body.encode, Body.tag, Body.saverRec, CircularAnnulusROI.decode_encode]
  | ellipse f => simp [Body.decode, Body.encode, Body.tag, Body.saverRec, EllipticalROI.decode_encode]
  | polygon f => simp [Body.decode, Body.encode, Body.tag, Body.saverRec, VertexROI.decode_encode]
  | path f => simp [Body.decode, Body.encode, Body.tag, Body.saverRec, VertexROI.decode_encode]
  | catRoi f => simp [Body.decode, Body.encode, Body.tag, Body.saverRec, CategoricalROI.decode_encode]
  | proj3d f => simp [Body.decode, Body.encode, Body.tag, Body.saverRec, Projected3dROI.decode_encode]
  | baseState => simp [Body.decode, Body.encode, Body.tag]
  | rangeSt f => simp [Body.decode, Body.encode, Body.tag, Body.saverRec, RangeSubsetState.decode_encode]
  | multiRange f => simp [Body.decode, Body.encode, Body.tag, Body.saverRec, MultiRangeSubsetState.decode_encode]
  | ineq f =>
    simp only [Body.wf] at hwf
    simp [Body.decode, Body.encode, Body.tag, Body.saverRec, InequalitySubsetState.decode_encode f hwf]
  | category f => simp [Body.decode, Body.encode, Body.tag, Body.saverRec, CategorySubsetState.decode_encode]
  | element f => simp [Body.decode, Body.encode, Body.tag, Body.saverRec, ElementSubsetState.decode_encode]
  | sliceSt f => simp [Body.decode, Body.encode, Body.tag, Body.saverRec, SliceSubsetState.decode_encode]
  | mask f => simp [Body.decode, Body.encode, Body.tag, Body.saverRec, MaskSubsetState.decode_encode]
  | roiSt f => simp [Body.decode, Body.encode, Body.tag, Body.saverRec, RoiSubsetState.decode_encode]
  | roiNd f => simp [Body.decode, Body.encode, Body.tag, Body.saverRec, RoiSubsetStateNd.decode_encode]
  | roi3d f => simp [Body.decode, Body.encode, Body.tag, Body.saverRec, RoiSubsetState3d.decode_encode]
  | catRoiSt f => simp [Body.decode, Body.encode, Body.tag, Body.saverRec, CategoricalROISubsetState.decode_encode]
  | catRoi2d f => simp [Body.decode, Body.encode, Body.tag, Body.saverRec, CategoricalROISubsetState2D.decode_encode]
  | catMultiRange f =>
    simp [Body.decode, Body.encode, Body.tag, Body.saverRec, CategoricalMultiRangeSubsetState.decode_encode]
  | composite f =>
    obtain ⟨k, s1, s2⟩ := f
    cases k <;>
      simp [Body.decode, Body.encode, Body.tag, Body.saverRec, CompKind.tag,
        CompositeSubsetState.decode_encode ⟨_, s1, s2⟩]
  | multiOr f => simp [Body.decode, Body.encode, Body.tag, Body.saverRec, MultiOrState.decode_encode]
  | floodFill f => simp [Body.decode, Body.encode, Body.tag, Body.saverRec, FloodFillSubsetState.decode_encode]
  | affine f => simp [Body.decode, Body.encode, Body.tag, Body.saverRec, AffineCoordinates.decode_encode]
  | identityCoords f => simp [Body.decode, Body.encode, Body.tag, Body.saverRec, IdentityCoordinates.decode_encode]
  | baseCoords => simp [Body.decode, Body.encode, Body.tag]
  | linkColl f => simp [Body.decode, Body.encode, Body.tag, Body.saverRec, LinkCollection.decode_encode]
  | multiLink f => simp [Body.decode, Body.encode, Body.tag, Body.saverRec, MultiLink.decode_encode]
  | linkSame f => simp [Body.decode, Body.encode, Body.tag, Body.saverRec, LinkSame.decode_encode]
  | linkUnits f => simp [Body.decode, Body.encode, Body.tag, Body.saverRec, LinkSame.decode_encode]
  | linkTwoWay f => simp [Body.decode, Body.encode, Body.tag, Body.saverRec, LinkTwoWay.decode_encode]
  | linkAligned f => simp [Body.decode, Body.encode, Body.tag, Body.saverRec, LinkAligned.decode_encode]
  | partialResult f => simp [Body.decode, Body.encode, Body.tag, Body.saverRec, PartialResult.decode_encode]
  | pySlice f => simp [Body.decode, Body.encode, Body.tag, Body.saverRec, PySlice.decode_encode]
  | pyTuple f => simp [Body.decode, Body.encode, Body.tag, Body.saverRec, PyTuple.decode_encode]
  | pyList f => simp [Body.decode, Body.encode, Body.tag, Body.saverRec, PyList.decode_encode]

/-! ### typed graphs as framework heaps -/

/-- no class of the table has a generator loader: every value is read by the loader itself, except
`SliceSubsetState.reference_data` (callback) -/
theorem Body.fields_phase (b : Body) : ∀ f ∈ b.fields, f.phase ≠ .late := by
  intro f hf
  simp only [Body.fields, List.mem_flatMap, List.mem_filterMap, Option.map_eq_some_iff] at hf
  obtain ⟨kv, _, j, _, v, _, rfl⟩ := hf
  simp only [phaseOf]
  split <;> decide

theorem erase_get {g : TGraph} {o : Nat} {t : TObj} (h : g[o]? = some t) :
    (erase g)[o]? = some { cls := t.body.tag.idx, label := t.label, fields := t.body.fields } := by
  simp [erase, h]

theorem erase_mem {g : TGraph} {ob : Obj} (h : ob ∈ erase g) : ∃ t ∈ g, ob.fields = t.body.fields := by
  simp only [erase, List.mem_map] at h
  obtain ⟨t, ht, rfl⟩ := h
  exact ⟨t, ht, rfl⟩

theorem erase_noGenCb (g : TGraph) : noGenCb (erase g) = true := by
  unfold noGenCb
  rw [List.all_eq_true]
  intro ob hob
  obtain ⟨t, _, hf⟩ := erase_mem hob
  have : ob.fields.any (fun f => f.phase == .late) = false := by
    rw [List.any_eq_false]
    intro f hfm
    rw [hf] at hfm
    have := t.body.fields_phase f hfm
    simpa using this
  simp [this]

theorem erase_mainPlain (g : TGraph) (main : Nat) : mainPlain (erase g) main = true := by
  unfold mainPlain
  cases hm : (erase g)[main]? with
  | none => rfl
  | some ob =>
    simp only
    rw [List.all_eq_true]
    intro f hf
    obtain ⟨t, _, hfe⟩ := erase_mem (List.mem_of_getElem? hm)
    rw [hfe] at hf
    have := t.body.fields_phase f hf
    simpa using this

theorem erase_length (g : TGraph) : (erase g).length = g.length := by simp [erase]

end GlueVerif.C02.Cls
