import GlueVerif.Model.Joins
/-!
Helper lemmas for C11, part 1: the `_recursing` DFS (`getMask` / `tryPartners`), its fuel,
the characterisation "result = propagation along the first admissible join path", views.
Core Lean only.
-/
namespace GlueVerif.Joins.Lemmas
open GlueVerif.Joins

/-! ### the measure: datasets whose flag is not set -/

/-- Number of datasets whose `_recursing` flag is not set. -/
def unflagged (w : World) (G : List Nat) : Nat := (List.range w.length).countP fun i => decide (i ∉ G)

theorem countP_cons_flag (G : List Nat) (d : Nat) (hd : d ∉ G) : ∀ n,
    (List.range n).countP (fun i => decide (i ∉ d :: G)) + (if d < n then 1 else 0) =
    (List.range n).countP (fun i => decide (i ∉ G)) := by
  intro n
  induction n with
  | zero => simp
  | succ n ih =>
    rw [List.range_succ, List.countP_append, List.countP_append]
    simp only [List.countP_singleton]
    by_cases hnd : n = d
    · subst hnd
      have e1 : (if decide (n ∉ n :: G) = true then 1 else 0) = 0 := by simp
      have e2 : (if decide (n ∉ G) = true then 1 else 0) = 1 := by simp [hd]
      have h3 : ¬ n < n := by omega
      have h4 : n < n + 1 := by omega
      rw [e1, e2, if_pos h4]
      rw [if_neg h3] at ih
      omega
    · have h1 : decide (n ∉ d :: G) = decide (n ∉ G) := by
        simp [hnd]
      rw [h1]
      by_cases hdn : d < n
      · have h4 : d < n + 1 := by omega
        rw [if_pos h4]
        rw [if_pos hdn] at ih
        omega
      · have h4 : ¬ d < n + 1 := by omega
        rw [if_neg h4]
        rw [if_neg hdn] at ih
        omega

theorem unflagged_cons (w : World) (G : List Nat) (d : Nat) (hd : d ∉ G) (hlt : d < w.length) :
    unflagged w (d :: G) + 1 = unflagged w G := by
  have := countP_cons_flag G d hd w.length
  simp only [hlt, if_true] at this
  exact this

theorem unflagged_le (w : World) (G : List Nat) : unflagged w G ≤ w.length := by
  unfold unflagged
  have := List.countP_le_length (p := fun i => decide (i ∉ G)) (l := List.range w.length)
  simpa using this

/-- A well-behaved join-mask function never raises IncompatibleAttribute and never "runs out of
fuel" (it is not recursive). -/
def JMGood (jm : JoinMaskFn) : Prop :=
  ∀ kl kr n1 n2, jm kl kr n1 n2 ≠ .outOfFuel ∧ jm kl kr n1 n2 ≠ .incompatible

theorem jmOf_good (f : Nat → Nat → List Key → List Key → Bool) : JMGood (jmOf f) := by
  intro kl kr n1 n2
  unfold jmOf
  split <;> simp

/-! ### termination -/

theorem tryPartners_ne_outOfFuel (jm : JoinMaskFn) (hjm : JMGood jm) (w : World) (d : Nat) (ds : Dataset)
    (v : View) (call : Nat → List Nat → Res) (G : List Nat)
    (hcall : ∀ o, o ≠ d → o ∉ G → call o (d :: G) ≠ .outOfFuel) :
    ∀ js, tryPartners jm w d ds v call js G ≠ .outOfFuel := by
  intro js
  induction js with
  | nil => simp [tryPartners]
  | cons j js ih =>
    unfold tryPartners
    split
    · exact ih
    · rename_i hskip
      have hne : j.other ≠ d := fun h => hskip (Or.inl h)
      have hng : j.other ∉ G := fun h => hskip (Or.inr h)
      have hc := hcall j.other hne hng
      split
      · exact ih
      · split
        · exact (hjm _ _ _ _).1
        · simp
      · rename_i r h1 h2
        intro h
        apply hc
        rw [← h]

theorem getMask_ne_outOfFuel (jm : JoinMaskFn) (hjm : JMGood jm) (w : World) :
    ∀ fuel d G v, d ∉ G → unflagged w G < fuel → getMask jm w fuel d G v ≠ .outOfFuel := by
  intro fuel
  induction fuel with
  | zero => intro d G v _ h; omega
  | succ fuel ih =>
    intro d G v hd hlt
    unfold getMask
    split
    · simp
    · rename_i ds hds
      split
      · simp
      · apply tryPartners_ne_outOfFuel jm hjm
        intro o hod hog
        apply ih
        · simp [hod, hog]
        · have hdl : d < w.length := by
            have := List.getElem?_eq_some_iff.mp hds
            exact this.1
          have := unflagged_cons w G d hd hdl
          omega

/-- Once the answer is not "out of fuel", more fuel does not change it. -/
theorem tryPartners_congr_call (jm : JoinMaskFn) (w : World) (d : Nat) (ds : Dataset) (v : View)
    (c1 c2 : Nat → List Nat → Res) (G : List Nat)
    (h : ∀ o, c1 o (d :: G) ≠ .outOfFuel → c2 o (d :: G) = c1 o (d :: G)) :
    ∀ js, tryPartners jm w d ds v c1 js G ≠ .outOfFuel →
      tryPartners jm w d ds v c2 js G = tryPartners jm w d ds v c1 js G := by
  intro js
  induction js with
  | nil => intro _; simp [tryPartners]
  | cons j js ih =>
    intro hne
    unfold tryPartners at hne ⊢
    split
    · rename_i hskip
      simp only [hskip, if_true] at hne
      exact ih hne
    · rename_i hskip
      simp only [hskip, if_false] at hne
      by_cases hc : c1 j.other (d :: G) = .outOfFuel
      · rw [hc] at hne
        simp at hne
      · rw [h j.other hc]
        cases hr : c1 j.other (d :: G) with
        | incompatible =>
          rw [hr] at hne
          exact ih hne
        | mask m => rfl
        | error => rfl
        | outOfFuel => exact absurd hr hc

theorem getMask_succ (jm : JoinMaskFn) (w : World) :
    ∀ fuel d G v, getMask jm w fuel d G v ≠ .outOfFuel →
      getMask jm w (fuel + 1) d G v = getMask jm w fuel d G v := by
  intro fuel
  induction fuel with
  | zero => intro d G v h; simp [getMask] at h
  | succ fuel ih =>
    intro d G v h
    rw [getMask] at h ⊢
    conv => rhs; rw [getMask]
    cases hds : w[d]? with
    | none => rfl
    | some ds =>
      rw [hds] at h
      simp only at h ⊢
      cases hown : ds.ownMask with
      | some m => rfl
      | none =>
        rw [hown] at h
        simp only at h ⊢
        exact tryPartners_congr_call jm w d ds v _ _ G (fun o ho => ih o (d :: G) none ho) ds.joins h

theorem getMask_add (jm : JoinMaskFn) (w : World) (fuel d : Nat) (G : List Nat) (v : View)
    (h : getMask jm w fuel d G v ≠ .outOfFuel) :
    ∀ k, getMask jm w (fuel + k) d G v = getMask jm w fuel d G v := by
  intro k
  induction k with
  | zero => rfl
  | succ k ih =>
    rw [← Nat.add_assoc, getMask_succ jm w (fuel + k) d G v (by rw [ih]; exact h), ih]

/-! ### result = propagation along the first admissible path -/

/-- The propagation along the first path of a list of admissible paths (none: incompatible). -/
def firstAlong (jm : JoinMaskFn) (w : World) (ps : List (List (Nat × Join) × Nat)) (v : View) : Res :=
  match ps with
  | [] => .incompatible
  | p :: _ => along jm w p.1 p.2 v

theorem paths_ne_nil_lookup (w : World) : ∀ fuel d G, paths w fuel d G ≠ [] → ∃ ds, w[d]? = some ds := by
  intro fuel d G h
  cases fuel with
  | zero => simp [paths] at h
  | succ fuel =>
    unfold paths at h
    split at h
    · simp at h
    · rename_i ds hds
      exact ⟨ds, hds⟩

theorem along_paths_ne_incompatible (jm : JoinMaskFn) (hjm : JMGood jm) (w : World) :
    ∀ fuel d G v p, p ∈ paths w fuel d G → along jm w p.1 p.2 v ≠ .incompatible := by
  intro fuel
  induction fuel with
  | zero => intro d G v p h; simp [paths] at h
  | succ fuel ih =>
    intro d G v p hp
    rw [paths] at hp
    cases hds : w[d]? with
    | none => rw [hds] at hp; simp at hp
    | some ds =>
      rw [hds] at hp
      simp only at hp
      cases hown : ds.ownMask with
      | some m =>
        rw [hown] at hp
        simp only [List.mem_singleton] at hp
        subst hp
        simp [along, hds, hown]
      | none =>
        rw [hown] at hp
        simp only at hp
        rw [List.mem_flatMap] at hp
        obtain ⟨j, hj, hp⟩ := hp
        split at hp
        · simp at hp
        · rw [List.mem_map] at hp
          obtain ⟨q, hq, rfl⟩ := hp
          have hq' := ih j.other (d :: G) none q hq
          obtain ⟨R, hR⟩ := paths_ne_nil_lookup w fuel j.other (d :: G) (List.ne_nil_of_mem hq)
          simp only [along]
          cases hr : along jm w q.1 q.2 none with
          | incompatible => exact absurd hr hq'
          | mask mR =>
            simp only [hds, hR]
            exact (hjm _ _ _ _).2
          | error => simp
          | outOfFuel => simp

theorem tryPartners_eq_first (jm : JoinMaskFn) (hjm : JMGood jm) (w : World) (fuel d : Nat) (ds : Dataset)
    (hds : w[d]? = some ds) (v : View) (G : List Nat)
    (ih : ∀ o, o ≠ d → o ∉ G →
      getMask jm w fuel o (d :: G) none = firstAlong jm w (paths w fuel o (d :: G)) none) :
    ∀ js, tryPartners jm w d ds v (fun o G' => getMask jm w fuel o G' none) js G =
      firstAlong jm w (js.flatMap fun j =>
        if j.other = d ∨ j.other ∈ G then []
        else (paths w fuel j.other (d :: G)).map fun p => ((d, j) :: p.1, p.2)) v := by
  intro js
  induction js with
  | nil => simp [tryPartners, firstAlong]
  | cons j js ihjs =>
    unfold tryPartners
    rw [List.flatMap_cons]
    split
    · simp only [List.nil_append]
      exact ihjs
    · rename_i hskip
      have hne : j.other ≠ d := fun h => hskip (Or.inl h)
      have hng : j.other ∉ G := fun h => hskip (Or.inr h)
      rw [ih j.other hne hng]
      cases hps : paths w fuel j.other (d :: G) with
      | nil =>
        simp only [firstAlong, List.map_nil, List.nil_append]
        exact ihjs
      | cons p ps =>
        have hp : p ∈ paths w fuel j.other (d :: G) := by rw [hps]; simp
        have hne' := along_paths_ne_incompatible jm hjm w fuel j.other (d :: G) none p hp
        simp only [firstAlong, List.map_cons, List.cons_append, along]
        cases hr : along jm w p.1 p.2 none with
        | incompatible => exact absurd hr hne'
        | mask mR =>
          simp only [hds]
          cases w[j.other]? <;> rfl
        | error => rfl
        | outOfFuel => rfl

/-- **Determinism of the DFS**: with enough fuel, `get_mask` is the propagation along the first
admissible join path in dict order, and `IncompatibleAttribute` if there is none. -/
theorem getMask_eq_first (jm : JoinMaskFn) (hjm : JMGood jm) (w : World) :
    ∀ fuel d G v, d ∉ G → unflagged w G < fuel →
      getMask jm w fuel d G v = firstAlong jm w (paths w fuel d G) v := by
  intro fuel
  induction fuel with
  | zero => intro d G v _ h; omega
  | succ fuel ih =>
    intro d G v hd hlt
    unfold getMask paths
    split
    · simp [firstAlong]
    · rename_i ds hds
      split
      · rename_i m hown
        simp [firstAlong, along, hds, hown]
      · rename_i hown
        apply tryPartners_eq_first jm hjm w fuel d ds hds v G
        intro o hod hog
        apply ih
        · simp [hod, hog]
        · have hdl : d < w.length := (List.getElem?_eq_some_iff.mp hds).1
          have := unflagged_cons w G d hd hdl
          omega

/-- No dataset can evaluate the selection ⇒ there is no admissible path. -/
theorem paths_nil_of_no_evaluator (w : World) (hno : ∀ ds ∈ w, ds.ownMask = none) :
    ∀ fuel d G, paths w fuel d G = [] := by
  intro fuel
  induction fuel with
  | zero => intro d G; simp [paths]
  | succ fuel ih =>
    intro d G
    unfold paths
    split
    · rfl
    · rename_i ds hds
      have hmem : ds ∈ w := List.mem_of_getElem? hds
      rw [hno ds hmem]
      simp only
      rw [List.flatMap_eq_nil_iff]
      intro j _
      split
      · rfl
      · rw [ih]; rfl

/-! ### views -/

theorem applyView_map {α β : Type} (v : View) (f : α → β) (xs : List α) :
    applyView v (xs.map f) = (applyView v xs).map f := by
  cases v with
  | none => rfl
  | some idx =>
    simp only [applyView, List.getElem?_map, List.map_filterMap]

/-- Apply a function to the mask, leave the other outcomes alone. -/
def mapRes (g : List Bool → List Bool) : Res → Res
  | .mask m => .mask (g m)
  | r => r

theorem propagate_view (f : Nat → Nat → List Key → List Key → Bool) (L : Dataset) (j : Join) (R : Dataset)
    (mR : List Bool) (v : View) :
    propagate (jmOf f) L j R mR v = mapRes (applyView v) (propagate (jmOf f) L j R mR none) := by
  unfold propagate jmOf
  split
  · simp only [mapRes]
    rw [applyView_map, applyView_map]
    rfl
  · rfl

theorem along_view (f : Nat → Nat → List Key → List Key → Bool) (w : World) (p : List (Nat × Join)) (e : Nat) (v : View) :
    along (jmOf f) w p e v = mapRes (applyView v) (along (jmOf f) w p e none) := by
  cases p with
  | nil =>
    simp only [along]
    cases w[e]? with
    | none => rfl
    | some ds =>
      simp only
      cases ds.ownMask <;> rfl
  | cons s rest =>
    obtain ⟨d, j⟩ := s
    simp only [along]
    cases along (jmOf f) w rest e none with
    | mask mR =>
      simp only
      cases w[d]? with
      | none => rfl
      | some L =>
        cases w[j.other]? with
        | none => rfl
        | some R => exact propagate_view f L j R mR v
    | incompatible => rfl
    | error => rfl
    | outOfFuel => rfl

/-! ### congruence in the join-mask function -/

theorem tryPartners_congr_jm (jm1 jm2 : JoinMaskFn) (w : World) (d : Nat) (ds : Dataset) (v : View)
    (c1 c2 : Nat → List Nat → Res) (G : List Nat) (hc : ∀ o G', c1 o G' = c2 o G')
    (js : List Join)
    (hp : ∀ j ∈ js, ∀ R, w[j.other]? = some R → ∀ mR, propagate jm1 ds j R mR v = propagate jm2 ds j R mR v) :
    tryPartners jm1 w d ds v c1 js G = tryPartners jm2 w d ds v c2 js G := by
  induction js with
  | nil => rfl
  | cons j js ih =>
    have ih' := ih (fun j' hj' => hp j' (List.mem_cons_of_mem _ hj'))
    unfold tryPartners
    split
    · exact ih'
    · rw [hc]
      cases c2 j.other (d :: G) with
      | incompatible => exact ih'
      | mask mR =>
        simp only
        cases hR : w[j.other]? with
        | none => rfl
        | some R => exact hp j (List.mem_cons_self) R hR mR
      | error => rfl
      | outOfFuel => rfl

theorem getMask_congr_jm (jm1 jm2 : JoinMaskFn) (w : World)
    (hp : ∀ L ∈ w, ∀ j ∈ L.joins, ∀ R, w[j.other]? = some R → ∀ mR v,
      propagate jm1 L j R mR v = propagate jm2 L j R mR v) :
    ∀ fuel d G v, getMask jm1 w fuel d G v = getMask jm2 w fuel d G v := by
  intro fuel
  induction fuel with
  | zero => intro d G v; rfl
  | succ fuel ih =>
    intro d G v
    unfold getMask
    split
    · rfl
    · rename_i ds hds
      split
      · rfl
      · have hmem : ds ∈ w := List.mem_of_getElem? hds
        exact tryPartners_congr_jm jm1 jm2 w d ds v _ _ G (fun o G' => ih o G' none) ds.joins
          (fun j hj R hR mR => hp ds hmem j hj R hR mR v)

end GlueVerif.Joins.Lemmas
