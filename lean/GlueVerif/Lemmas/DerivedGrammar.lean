import GlueVerif.Model.Derived
/-! Helper lemmas for C14: the recursive-descent parser inverts the minimal-parentheses printer. -/
set_option linter.unusedSimpArgs false
set_option linter.unusedVariables false
namespace GlueVerif.Derived.Grammar
variable {κ α : Type}

def sz : TExpr κ α → Nat
  | .num _ => 1
  | .ref _ => 1
  | .neg e => sz e + 1
  | .bin _ l r => sz l + sz r + 1

/-- Text of `e` at grammar level `L`. -/
def printAt (L : Nat) (e : TExpr κ α) : List (Tok κ α) := wrap L e (print e)

def noPow : List (Tok κ α) → Bool
  | .op .pow :: _ => false
  | _ => true

def noMulDiv : List (Tok κ α) → Bool
  | .op .mul :: _ => false
  | .op .div :: _ => false
  | _ => true

def noAddSub : List (Tok κ α) → Bool
  | .op .add :: _ => false
  | .op .sub :: _ => false
  | _ => true

/-- Length of the left spine of `+`/`-` (number of loop iterations of `pExprLoop`, plus one). -/
def dE : TExpr κ α → Nat
  | .bin .add l _ => dE l + 1
  | .bin .sub l _ => dE l + 1
  | _ => 1

def dT : TExpr κ α → Nat
  | .bin .mul l _ => dT l + 1
  | .bin .div l _ => dT l + 1
  | _ => 1

theorem sz_pos (e : TExpr κ α) : 1 ≤ sz e := by cases e <;> simp [sz] <;> omega

theorem dE_le (e : TExpr κ α) : dE e ≤ sz e := by
  induction e with
  | num c => simp [dE, sz]
  | ref k => simp [dE, sz]
  | neg e _ => simp [dE, sz]
  | bin o l r ihl _ => cases o <;> simp [dE, sz] <;> omega

theorem dT_le (e : TExpr κ α) : dT e ≤ sz e := by
  induction e with
  | num c => simp [dT, sz]
  | ref k => simp [dT, sz]
  | neg e _ => simp [dT, sz]
  | bin o l r ihl _ => cases o <;> simp [dT, sz] <;> omega

/-! ### one-step unfoldings of the parser -/

theorem pExpr_succ (f : Nat) (ts : List (Tok κ α)) :
    pExpr (f + 1) ts = (pTerm f ts).bind fun p => pExprLoop f p.1 p.2 := by
  simp only [pExpr]
  cases pTerm f ts with
  | none => rfl
  | some p => cases p; rfl

theorem pTerm_succ (f : Nat) (ts : List (Tok κ α)) :
    pTerm (f + 1) ts = (pFactor f ts).bind fun p => pTermLoop f p.1 p.2 := by
  simp only [pTerm]
  cases pFactor f ts with
  | none => rfl
  | some p => cases p; rfl

theorem pExprLoop_stop (f : Nat) (acc : TExpr κ α) (ts : List (Tok κ α)) (h : noAddSub ts = true) :
    pExprLoop (f + 1) acc ts = some (acc, ts) := by
  cases ts with
  | nil => simp [pExprLoop]
  | cons t rest =>
    cases t with
    | op o => cases o <;> simp [noAddSub] at h <;> simp [pExprLoop]
    | _ => simp [pExprLoop]

theorem pTermLoop_stop (f : Nat) (acc : TExpr κ α) (ts : List (Tok κ α)) (h : noMulDiv ts = true) :
    pTermLoop (f + 1) acc ts = some (acc, ts) := by
  cases ts with
  | nil => simp [pTermLoop]
  | cons t rest =>
    cases t with
    | op o => cases o <;> simp [noMulDiv] at h <;> simp [pTermLoop]
    | _ => simp [pTermLoop]

theorem pExprLoop_add (f : Nat) (acc : TExpr κ α) (ts : List (Tok κ α)) :
    pExprLoop (f + 1) acc (.op .add :: ts) =
      (pTerm f ts).bind fun p => pExprLoop f (.bin .add acc p.1) p.2 := by
  simp only [pExprLoop]
  cases pTerm f ts with
  | none => rfl
  | some p => cases p; rfl

theorem pExprLoop_sub (f : Nat) (acc : TExpr κ α) (ts : List (Tok κ α)) :
    pExprLoop (f + 1) acc (.op .sub :: ts) =
      (pTerm f ts).bind fun p => pExprLoop f (.bin .sub acc p.1) p.2 := by
  simp only [pExprLoop]
  cases pTerm f ts with
  | none => rfl
  | some p => cases p; rfl

theorem pTermLoop_mul (f : Nat) (acc : TExpr κ α) (ts : List (Tok κ α)) :
    pTermLoop (f + 1) acc (.op .mul :: ts) =
      (pFactor f ts).bind fun p => pTermLoop f (.bin .mul acc p.1) p.2 := by
  simp only [pTermLoop]
  cases pFactor f ts with
  | none => rfl
  | some p => cases p; rfl

theorem pTermLoop_div (f : Nat) (acc : TExpr κ α) (ts : List (Tok κ α)) :
    pTermLoop (f + 1) acc (.op .div :: ts) =
      (pFactor f ts).bind fun p => pTermLoop f (.bin .div acc p.1) p.2 := by
  simp only [pTermLoop]
  cases pFactor f ts with
  | none => rfl
  | some p => cases p; rfl

theorem pFactor_neg (f : Nat) (ts : List (Tok κ α)) :
    pFactor (f + 1) (.op .sub :: ts) = (pFactor f ts).map fun p => (.neg p.1, p.2) := by
  simp only [pFactor]
  cases pFactor f ts with
  | none => rfl
  | some p => cases p; rfl

/-- The token list starts like an atom (`num`, `{tag}` or `(`). -/
def atomStart : List (Tok κ α) → Bool
  | .num _ :: _ => true
  | .tag _ :: _ => true
  | .lp :: _ => true
  | _ => false

theorem pFactor_atomStart (f : Nat) (ts : List (Tok κ α)) (h : atomStart ts = true) :
    pFactor (f + 1) ts = pPower f ts := by
  cases ts with
  | nil => simp [atomStart] at h
  | cons t rest =>
    cases t with
    | op o => simp [atomStart] at h
    | _ => simp [pFactor]

theorem pPower_atom (f : Nat) (ts rest : List (Tok κ α)) (a : TExpr κ α)
    (h : pAtom f ts = some (a, rest)) (hr : noPow rest = true) :
    pPower (f + 1) ts = some (a, rest) := by
  simp only [pPower, h]
  cases rest with
  | nil => rfl
  | cons t r =>
    cases t with
    | op o => cases o <;> simp [noPow] at hr <;> rfl
    | _ => rfl

theorem pPower_pow (f : Nat) (ts rest : List (Tok κ α)) (a : TExpr κ α)
    (h : pAtom f ts = some (a, .op .pow :: rest)) :
    pPower (f + 1) ts = (pFactor f rest).map fun p => (.bin .pow a p.1, p.2) := by
  simp only [pPower, h]
  cases pFactor f rest with
  | none => rfl
  | some p => cases p; rfl

theorem pAtom_lp (f : Nat) (ts rest : List (Tok κ α)) (e : TExpr κ α)
    (h : pExpr f ts = some (e, .rp :: rest)) :
    pAtom (f + 1) (.lp :: ts) = some (e, rest) := by
  simp [pAtom, h]

/-! ### the five level claims -/

def CA (n : Nat) (s : List (Tok κ α)) (e : TExpr κ α) : Prop :=
  ∀ g, n ≤ g → ∀ rest, pAtom g (s ++ rest) = some (e, rest)
def CP (n : Nat) (s : List (Tok κ α)) (e : TExpr κ α) : Prop :=
  ∀ g, n ≤ g → ∀ rest, noPow rest = true → pPower g (s ++ rest) = some (e, rest)
def CF (n : Nat) (s : List (Tok κ α)) (e : TExpr κ α) : Prop :=
  ∀ g, n ≤ g → ∀ rest, noPow rest = true → pFactor g (s ++ rest) = some (e, rest)
def CT (n d : Nat) (s : List (Tok κ α)) (e : TExpr κ α) : Prop :=
  ∀ g, n ≤ g → ∀ rest, noPow rest = true → pTerm g (s ++ rest) = pTermLoop (g - d) e rest
def CE (n d : Nat) (s : List (Tok κ α)) (e : TExpr κ α) : Prop :=
  ∀ g, n ≤ g → ∀ rest, noPow rest = true → noMulDiv rest = true →
    pExpr g (s ++ rest) = pExprLoop (g - d) e rest

theorem atomStart_append (s rest : List (Tok κ α)) (h : atomStart s = true) :
    atomStart (s ++ rest) = true := by
  cases s with
  | nil => simp [atomStart] at h
  | cons t r => cases t <;> simp_all [atomStart]

theorem CA.toCP {n : Nat} {s : List (Tok κ α)} {e : TExpr κ α} (h : CA n s e) : CP (n + 1) s e := by
  intro g hg rest hr
  obtain ⟨g', rfl⟩ : ∃ g', g = g' + 1 := ⟨g - 1, by omega⟩
  exact pPower_atom g' _ rest e (h g' (by omega) rest) hr

theorem CP.toCF {n : Nat} {s : List (Tok κ α)} {e : TExpr κ α} (h : CP n s e)
    (hs : atomStart s = true) : CF (n + 1) s e := by
  intro g hg rest hr
  obtain ⟨g', rfl⟩ : ∃ g', g = g' + 1 := ⟨g - 1, by omega⟩
  rw [pFactor_atomStart g' _ (atomStart_append s rest hs)]
  exact h g' (by omega) rest hr

theorem CF.toCT {n : Nat} {s : List (Tok κ α)} {e : TExpr κ α} (h : CF n s e) : CT (n + 1) 1 s e := by
  intro g hg rest hr
  obtain ⟨g', rfl⟩ : ∃ g', g = g' + 1 := ⟨g - 1, by omega⟩
  rw [pTerm_succ, h g' (by omega) rest hr]
  rfl

theorem CT.toCE {n d : Nat} {s : List (Tok κ α)} {e : TExpr κ α} (h : CT n d s e) (hd : d + 1 ≤ n) :
    CE (n + 1) 1 s e := by
  intro g hg rest hr hm
  obtain ⟨g', rfl⟩ : ∃ g', g = g' + 1 := ⟨g - 1, by omega⟩
  rw [pExpr_succ, h g' (by omega) rest hr]
  obtain ⟨k, hk⟩ : ∃ k, g' - d = k + 1 := ⟨g' - d - 1, by omega⟩
  rw [hk, pTermLoop_stop k e rest hm]
  rfl

theorem CE.toCA {n d : Nat} {s : List (Tok κ α)} {e : TExpr κ α} (h : CE n d s e) (hd : d + 1 ≤ n) :
    CA (n + 1) ([.lp] ++ s ++ [.rp]) e := by
  intro g hg rest
  obtain ⟨g', rfl⟩ : ∃ g', g = g' + 1 := ⟨g - 1, by omega⟩
  have h1 := h g' (by omega) (.rp :: rest) rfl rfl
  obtain ⟨k, hk⟩ : ∃ k, g' - d = k + 1 := ⟨g' - d - 1, by omega⟩
  rw [hk, pExprLoop_stop k e (.rp :: rest) rfl] at h1
  have : [Tok.lp] ++ s ++ [Tok.rp] ++ rest = Tok.lp :: (s ++ Tok.rp :: rest) := by simp
  rw [this]
  exact pAtom_lp g' _ rest e h1

theorem CA.mono {n m : Nat} {s : List (Tok κ α)} {e : TExpr κ α} (h : CA n s e) (hm : n ≤ m) : CA m s e :=
  fun g hg => h g (by omega)
theorem CP.mono {n m : Nat} {s : List (Tok κ α)} {e : TExpr κ α} (h : CP n s e) (hm : n ≤ m) : CP m s e :=
  fun g hg => h g (by omega)
theorem CF.mono {n m : Nat} {s : List (Tok κ α)} {e : TExpr κ α} (h : CF n s e) (hm : n ≤ m) : CF m s e :=
  fun g hg => h g (by omega)
theorem CT.mono {n m d : Nat} {s : List (Tok κ α)} {e : TExpr κ α} (h : CT n d s e) (hm : n ≤ m) : CT m d s e :=
  fun g hg => h g (by omega)
theorem CE.mono {n m d : Nat} {s : List (Tok κ α)} {e : TExpr κ α} (h : CE n d s e) (hm : n ≤ m) : CE m d s e :=
  fun g hg => h g (by omega)

/-- Everything the induction needs to know about a subexpression: it parses back at every grammar
level with fuel `8 * sz e`. -/
structure Good (e : TExpr κ α) : Prop where
  a : CA (8 * sz e) (printAt 4 e) e
  p : CP (8 * sz e) (printAt 3 e) e
  f : CF (8 * sz e) (printAt 2 e) e
  t : CT (8 * sz e) (dT e) (printAt 1 e) e
  e : CE (8 * sz e) (dE e) (printAt 0 e) e

theorem lp_atomStart (s : List (Tok κ α)) : atomStart ([Tok.lp] ++ s ++ [Tok.rp]) = true := rfl

theorem good_num (c : α) : Good (.num c : TExpr κ α) := by
  have hA : CA 1 [Tok.num c] (.num c : TExpr κ α) := by
    intro g hg rest
    obtain ⟨g', rfl⟩ : ∃ g', g = g' + 1 := ⟨g - 1, by omega⟩
    simp [pAtom]
  have hP := hA.toCP
  have hF := hP.toCF rfl
  have hT := hF.toCT
  have hE := hT.toCE (by omega)
  exact ⟨hA.mono (by simp [sz]), hP.mono (by simp [sz]), hF.mono (by simp [sz]),
    hT.mono (by simp [sz]), hE.mono (by simp [sz])⟩

theorem good_ref (k : κ) : Good (.ref k : TExpr κ α) := by
  have hA : CA 1 [Tok.tag k] (.ref k : TExpr κ α) := by
    intro g hg rest
    obtain ⟨g', rfl⟩ : ∃ g', g = g' + 1 := ⟨g - 1, by omega⟩
    simp [pAtom]
  have hP := hA.toCP
  have hF := hP.toCF rfl
  have hT := hF.toCT
  have hE := hT.toCE (by omega)
  exact ⟨hA.mono (by simp [sz]), hP.mono (by simp [sz]), hF.mono (by simp [sz]),
    hT.mono (by simp [sz]), hE.mono (by simp [sz])⟩

theorem good_neg (x : TExpr κ α) (hx : Good x) : Good (.neg x) := by
  have hs := sz_pos x
  -- own level: factor
  have hF : CF (8 * sz x + 1) (Tok.op .sub :: printAt 2 x) (.neg x) := by
    intro g hg rest hr
    obtain ⟨g', rfl⟩ : ∃ g', g = g' + 1 := ⟨g - 1, by omega⟩
    rw [List.cons_append, pFactor_neg, hx.f g' (by omega) rest hr]
    rfl
  have hT := hF.toCT
  have hE := hT.toCE (by omega)
  have hA := hE.toCA (by omega)
  have hP := hA.toCP
  refine ⟨?_, ?_, ?_, ?_, ?_⟩
  · simpa [printAt, wrap, prec, print] using hA.mono (m := 8 * sz (.neg x)) (by simp [sz]; omega)
  · simpa [printAt, wrap, prec, print] using hP.mono (m := 8 * sz (.neg x)) (by simp [sz]; omega)
  · simpa [printAt, wrap, prec, print] using hF.mono (m := 8 * sz (.neg x)) (by simp [sz]; omega)
  · simpa [printAt, wrap, prec, print, dT] using hT.mono (m := 8 * sz (.neg x)) (by simp [sz]; omega)
  · simpa [printAt, wrap, prec, print, dE] using hE.mono (m := 8 * sz (.neg x)) (by simp [sz]; omega)

theorem good_pow (l r : TExpr κ α) (hl : Good l) (hr : Good r) : Good (.bin .pow l r) := by
  have hsl := sz_pos l
  have hsr := sz_pos r
  -- own level: power
  have hP : CP (8 * sz l + 8 * sz r + 1) (printAt 4 l ++ [Tok.op .pow] ++ printAt 2 r) (.bin .pow l r) := by
    intro g hg rest hrest
    obtain ⟨g', rfl⟩ : ∃ g', g = g' + 1 := ⟨g - 1, by omega⟩
    have h1 := hl.a g' (by omega) (Tok.op .pow :: (printAt 2 r ++ rest))
    have : printAt 4 l ++ [Tok.op .pow] ++ printAt 2 r ++ rest =
        printAt 4 l ++ Tok.op .pow :: (printAt 2 r ++ rest) := by simp
    rw [this, pPower_pow g' _ _ l h1, hr.f g' (by omega) rest hrest]
    rfl
  have hstart : atomStart (printAt 4 l ++ [Tok.op .pow] ++ printAt 2 r) = true := by
    have : atomStart (printAt 4 l) = true := by
      cases l with
      | num c => rfl
      | ref k => rfl
      | neg e => simp [printAt, wrap, prec, atomStart]
      | bin o a b => cases o <;> simp [printAt, wrap, prec, atomStart]
    rw [List.append_assoc]
    exact atomStart_append _ _ this
  have hF := hP.toCF hstart
  have hT := hF.toCT
  have hE := hT.toCE (by omega)
  have hA := hE.toCA (by omega)
  refine ⟨?_, ?_, ?_, ?_, ?_⟩
  · simpa [printAt, wrap, prec, print] using hA.mono (m := 8 * sz (.bin .pow l r)) (by simp [sz]; omega)
  · simpa [printAt, wrap, prec, print] using hP.mono (m := 8 * sz (.bin .pow l r)) (by simp [sz]; omega)
  · simpa [printAt, wrap, prec, print] using hF.mono (m := 8 * sz (.bin .pow l r)) (by simp [sz]; omega)
  · simpa [printAt, wrap, prec, print, dT] using hT.mono (m := 8 * sz (.bin .pow l r)) (by simp [sz]; omega)
  · simpa [printAt, wrap, prec, print, dE] using hE.mono (m := 8 * sz (.bin .pow l r)) (by simp [sz]; omega)

theorem good_mul (l r : TExpr κ α) (hl : Good l) (hr : Good r) : Good (.bin .mul l r) := by
  have hsl := sz_pos l
  have hsr := sz_pos r
  have hdl := dT_le l
  -- own level: term (left-associative chain)
  have hT : CT (8 * sz l + 8 * sz r + 1) (dT l + 1)
      (printAt 1 l ++ [Tok.op .mul] ++ printAt 2 r) (.bin .mul l r) := by
    intro g hg rest hrest
    have : printAt 1 l ++ [Tok.op .mul] ++ printAt 2 r ++ rest =
        printAt 1 l ++ Tok.op .mul :: (printAt 2 r ++ rest) := by simp
    rw [this, hl.t g (by omega) _ rfl]
    obtain ⟨k, hk⟩ : ∃ k, g - dT l = k + 1 := ⟨g - dT l - 1, by omega⟩
    rw [hk, pTermLoop_mul, hr.f k (by omega) rest hrest]
    have : g - (dT l + 1) = k := by omega
    rw [this]
    rfl
  have hE := hT.toCE (by omega)
  have hA := hE.toCA (by omega)
  have hP := hA.toCP
  have hF := hP.toCF (lp_atomStart _)
  refine ⟨?_, ?_, ?_, ?_, ?_⟩
  · simpa [printAt, wrap, prec, print] using hA.mono (m := 8 * sz (.bin .mul l r)) (by simp [sz]; omega)
  · simpa [printAt, wrap, prec, print] using hP.mono (m := 8 * sz (.bin .mul l r)) (by simp [sz]; omega)
  · simpa [printAt, wrap, prec, print] using hF.mono (m := 8 * sz (.bin .mul l r)) (by simp [sz]; omega)
  · simpa [printAt, wrap, prec, print, dT] using hT.mono (m := 8 * sz (.bin .mul l r)) (by simp [sz]; omega)
  · simpa [printAt, wrap, prec, print, dE] using hE.mono (m := 8 * sz (.bin .mul l r)) (by simp [sz]; omega)

theorem good_div (l r : TExpr κ α) (hl : Good l) (hr : Good r) : Good (.bin .div l r) := by
  have hsl := sz_pos l
  have hsr := sz_pos r
  have hdl := dT_le l
  -- own level: term (left-associative chain)
  have hT : CT (8 * sz l + 8 * sz r + 1) (dT l + 1)
      (printAt 1 l ++ [Tok.op .div] ++ printAt 2 r) (.bin .div l r) := by
    intro g hg rest hrest
    have : printAt 1 l ++ [Tok.op .div] ++ printAt 2 r ++ rest =
        printAt 1 l ++ Tok.op .div :: (printAt 2 r ++ rest) := by simp
    rw [this, hl.t g (by omega) _ rfl]
    obtain ⟨k, hk⟩ : ∃ k, g - dT l = k + 1 := ⟨g - dT l - 1, by omega⟩
    rw [hk, pTermLoop_div, hr.f k (by omega) rest hrest]
    have : g - (dT l + 1) = k := by omega
    rw [this]
    rfl
  have hE := hT.toCE (by omega)
  have hA := hE.toCA (by omega)
  have hP := hA.toCP
  have hF := hP.toCF (lp_atomStart _)
  refine ⟨?_, ?_, ?_, ?_, ?_⟩
  · simpa [printAt, wrap, prec, print] using hA.mono (m := 8 * sz (.bin .div l r)) (by simp [sz]; omega)
  · simpa [printAt, wrap, prec, print] using hP.mono (m := 8 * sz (.bin .div l r)) (by simp [sz]; omega)
  · simpa [printAt, wrap, prec, print] using hF.mono (m := 8 * sz (.bin .div l r)) (by simp [sz]; omega)
  · simpa [printAt, wrap, prec, print, dT] using hT.mono (m := 8 * sz (.bin .div l r)) (by simp [sz]; omega)
  · simpa [printAt, wrap, prec, print, dE] using hE.mono (m := 8 * sz (.bin .div l r)) (by simp [sz]; omega)

theorem good_add (l r : TExpr κ α) (hl : Good l) (hr : Good r) : Good (.bin .add l r) := by
  have hsl := sz_pos l
  have hsr := sz_pos r
  have hdl := dE_le l
  have hdr := dT_le r
  -- own level: expr (left-associative chain)
  have hE : CE (8 * sz l + 8 * sz r + 1) (dE l + 1)
      (printAt 0 l ++ [Tok.op .add] ++ printAt 1 r) (.bin .add l r) := by
    intro g hg rest hrest hmd
    have : printAt 0 l ++ [Tok.op .add] ++ printAt 1 r ++ rest =
        printAt 0 l ++ Tok.op .add :: (printAt 1 r ++ rest) := by simp
    rw [this, hl.e g (by omega) _ rfl rfl]
    obtain ⟨k, hk⟩ : ∃ k, g - dE l = k + 1 := ⟨g - dE l - 1, by omega⟩
    rw [hk, pExprLoop_add, hr.t k (by omega) rest hrest]
    obtain ⟨j, hj⟩ : ∃ j, k - dT r = j + 1 := ⟨k - dT r - 1, by omega⟩
    rw [hj, pTermLoop_stop j r rest hmd]
    have : g - (dE l + 1) = k := by omega
    rw [this]
    rfl
  have hA := hE.toCA (by omega)
  have hP := hA.toCP
  have hF := hP.toCF (lp_atomStart _)
  have hT := hF.toCT
  refine ⟨?_, ?_, ?_, ?_, ?_⟩
  · simpa [printAt, wrap, prec, print] using hA.mono (m := 8 * sz (.bin .add l r)) (by simp [sz]; omega)
  · simpa [printAt, wrap, prec, print] using hP.mono (m := 8 * sz (.bin .add l r)) (by simp [sz]; omega)
  · simpa [printAt, wrap, prec, print] using hF.mono (m := 8 * sz (.bin .add l r)) (by simp [sz]; omega)
  · simpa [printAt, wrap, prec, print, dT] using hT.mono (m := 8 * sz (.bin .add l r)) (by simp [sz]; omega)
  · simpa [printAt, wrap, prec, print, dE] using hE.mono (m := 8 * sz (.bin .add l r)) (by simp [sz]; omega)

theorem good_sub (l r : TExpr κ α) (hl : Good l) (hr : Good r) : Good (.bin .sub l r) := by
  have hsl := sz_pos l
  have hsr := sz_pos r
  have hdl := dE_le l
  have hdr := dT_le r
  -- own level: expr (left-associative chain)
  have hE : CE (8 * sz l + 8 * sz r + 1) (dE l + 1)
      (printAt 0 l ++ [Tok.op .sub] ++ printAt 1 r) (.bin .sub l r) := by
    intro g hg rest hrest hmd
    have : printAt 0 l ++ [Tok.op .sub] ++ printAt 1 r ++ rest =
        printAt 0 l ++ Tok.op .sub :: (printAt 1 r ++ rest) := by simp
    rw [this, hl.e g (by omega) _ rfl rfl]
    obtain ⟨k, hk⟩ : ∃ k, g - dE l = k + 1 := ⟨g - dE l - 1, by omega⟩
    rw [hk, pExprLoop_sub, hr.t k (by omega) rest hrest]
    obtain ⟨j, hj⟩ : ∃ j, k - dT r = j + 1 := ⟨k - dT r - 1, by omega⟩
    rw [hj, pTermLoop_stop j r rest hmd]
    have : g - (dE l + 1) = k := by omega
    rw [this]
    rfl
  have hA := hE.toCA (by omega)
  have hP := hA.toCP
  have hF := hP.toCF (lp_atomStart _)
  have hT := hF.toCT
  refine ⟨?_, ?_, ?_, ?_, ?_⟩
  · simpa [printAt, wrap, prec, print] using hA.mono (m := 8 * sz (.bin .sub l r)) (by simp [sz]; omega)
  · simpa [printAt, wrap, prec, print] using hP.mono (m := 8 * sz (.bin .sub l r)) (by simp [sz]; omega)
  · simpa [printAt, wrap, prec, print] using hF.mono (m := 8 * sz (.bin .sub l r)) (by simp [sz]; omega)
  · simpa [printAt, wrap, prec, print, dT] using hT.mono (m := 8 * sz (.bin .sub l r)) (by simp [sz]; omega)
  · simpa [printAt, wrap, prec, print, dE] using hE.mono (m := 8 * sz (.bin .sub l r)) (by simp [sz]; omega)

theorem good_all : ∀ e : TExpr κ α, Good e
  | .num c => good_num c
  | .ref k => good_ref k
  | .neg x => good_neg x (good_all x)
  | .bin .add l r => good_add l r (good_all l) (good_all r)
  | .bin .sub l r => good_sub l r (good_all l) (good_all r)
  | .bin .mul l r => good_mul l r (good_all l) (good_all r)
  | .bin .div l r => good_div l r (good_all l) (good_all r)
  | .bin .pow l r => good_pow l r (good_all l) (good_all r)

theorem wrap_length_ge (L : Nat) (e : TExpr κ α) (s : List (Tok κ α)) : s.length ≤ (wrap L e s).length := by
  unfold wrap; split <;> simp <;> omega

theorem sz_le_print : ∀ e : TExpr κ α, sz e ≤ (print e).length
  | .num c => by simp [sz, print]
  | .ref k => by simp [sz, print]
  | .neg x => by
    have := sz_le_print x
    have := wrap_length_ge 2 x (print x)
    simp only [sz, print, List.length_cons]; omega
  | .bin o l r => by
    have hl := sz_le_print l
    have hr := sz_le_print r
    cases o <;> simp only [sz, print, List.length_append, List.length_cons, List.length_nil] <;>
      first
      | (have := wrap_length_ge 0 l (print l); have := wrap_length_ge 1 r (print r); omega)
      | (have := wrap_length_ge 1 l (print l); have := wrap_length_ge 2 r (print r); omega)
      | (have := wrap_length_ge 4 l (print l); have := wrap_length_ge 2 r (print r); omega)

/-- **The parser inverts the printer**: for every expression tree, parsing its minimal-parentheses
text gives the tree back. -/
theorem parse_print_eq (e : TExpr κ α) : parse (print e) = some e := by
  have hg := (good_all e).e
  have hlen := sz_le_print e
  have hd := dE_le e
  have h0 : printAt 0 e = print e := by simp [printAt, wrap]
  have h1 := hg (12 * (print e).length + 12) (by omega) [] rfl rfl
  rw [h0, List.append_nil] at h1
  obtain ⟨k, hk⟩ : ∃ k, 12 * (print e).length + 12 - dE e = k + 1 :=
    ⟨12 * (print e).length + 12 - dE e - 1, by omega⟩
  rw [hk, pExprLoop_stop k e [] rfl] at h1
  simp [parse, h1]

end GlueVerif.Derived.Grammar
