import GlueVerif.Model.C12Registry
/-!
Helper lemmas for C12, part 1: the chase loop (soundness of the bounded chase w.r.t. the big-step
loop semantics, determinism, the generic "checker ⇒ terminates from every start name" lemma,
acyclicity) and the lifts of the Bool table checkers to their Prop statements.  Core Lean only.
-/
namespace GlueVerif.C12.Lemmas
open GlueVerif.C12

variable {α : Type} [DecidableEq α]

/-! ## lookup -/

theorem plookup_some_mem {t : Patches α} {k v : α} (h : plookup t k = some v) : (k, v) ∈ t := by
  induction t with
  | nil => simp [plookup] at h
  | cons p r ih =>
    obtain ⟨a, b⟩ := p
    unfold plookup at h
    split at h
    · rename_i hak
      cases h
      subst hak
      exact List.mem_cons_self
    · exact List.mem_cons_of_mem _ (ih h)

theorem plookup_none_not_key {t : Patches α} {k : α} (h : plookup t k = none) :
    ∀ p ∈ t, p.1 ≠ k := by
  induction t with
  | nil => intro p hp; cases hp
  | cons q r ih =>
    obtain ⟨a, b⟩ := q
    unfold plookup at h
    split at h
    · cases h
    · rename_i hak
      intro p hp
      cases hp with
      | head => exact hak
      | tail _ hp' => exact ih h p hp'

/-! ## bounded chase vs. loop semantics -/

theorem chase_sound {t : Patches α} : ∀ (f : Nat) (n r : α), chase t f n = some r → Loop t n r := by
  intro f
  induction f with
  | zero =>
    intro n r h
    unfold chase at h
    split at h
    · rename_i hn
      cases h
      exact Loop.done hn
    · cases h
  | succ f ih =>
    intro n r h
    unfold chase at h
    split at h
    · rename_i hn
      cases h
      exact Loop.done hn
    · rename_i m hm
      exact Loop.step hm (ih m r h)

theorem chase_mono {t : Patches α} : ∀ (f : Nat) (n r : α),
    chase t f n = some r → chase t (f + 1) n = some r := by
  intro f
  induction f with
  | zero =>
    intro n r h
    unfold chase at h
    split at h
    · rename_i hn
      cases h
      unfold chase
      simp [hn]
    · cases h
  | succ f ih =>
    intro n r h
    unfold chase at h
    split at h
    · rename_i hn
      cases h
      unfold chase
      simp [hn]
    · rename_i m hm
      have := ih m r h
      rw [chase.eq_2]
      simp only [hm]
      exact this

theorem chase_mono_le {t : Patches α} {f f' : Nat} (hle : f ≤ f') {n r : α}
    (h : chase t f n = some r) : chase t f' n = some r := by
  induction hle with
  | refl => exact h
  | step _ ih => exact chase_mono _ _ _ ih

theorem loop_not_key {t : Patches α} {n r : α} (h : Loop t n r) : plookup t r = none := by
  induction h with
  | done hn => exact hn
  | step _ _ ih => exact ih

theorem loop_det {t : Patches α} {n r r' : α} (h : Loop t n r) (h' : Loop t n r') : r = r' := by
  induction h with
  | done hn =>
    cases h' with
    | done _ => rfl
    | step hm _ => rw [hn] at hm; cases hm
  | step hm _ ih =>
    cases h' with
    | done hn => rw [hn] at hm; cases hm
    | step hm' hl' =>
      rw [hm] at hm'
      cases hm'
      exact ih hl'

theorem loop_chase {t : Patches α} {n r : α} (h : Loop t n r) : ∃ f, chase t f n = some r := by
  induction h with
  | done hn => exact ⟨0, by unfold chase; simp [hn]⟩
  | step hm _ ih =>
    obtain ⟨f, hf⟩ := ih
    exact ⟨f + 1, by rw [chase.eq_2]; simp only [hm]; exact hf⟩

/-- **Generic termination lemma.**  If the checker accepts the table, the chase started at *any*
name (key or not, in the table or not) ends within `|table|` redirections, the unbounded Python
loop terminates with the same result, and that result is not a key. -/
theorem chaseAll_terminates {t : Patches α} (h : chaseAll t = true) (n : α) :
    ∃ r, chase t t.length n = some r ∧ Loop t n r ∧ plookup t r = none := by
  have key : ∃ r, chase t t.length n = some r := by
    cases hn : plookup t n with
    | none =>
      refine ⟨n, ?_⟩
      cases hl : t.length with
      | zero => unfold chase; simp [hn]
      | succ k => unfold chase; simp [hn]
    | some m =>
      have hmem := plookup_some_mem hn
      have := (List.all_eq_true.mp h) (n, m) hmem
      exact Option.isSome_iff_exists.mp this
  obtain ⟨r, hr⟩ := key
  have hl := chase_sound _ _ _ hr
  exact ⟨r, hr, hl, loop_not_key hl⟩

/-! ## acyclicity -/

/-- Follow exactly `k` redirections (`none` if a non-key is reached earlier). -/
def stepN (t : Patches α) : Nat → α → Option α
  | 0, n => some n
  | k + 1, n => match plookup t n with
    | none => none
    | some m => stepN t k m

theorem stepN_succ_right {t : Patches α} : ∀ (k : Nat) (n : α),
    stepN t (k + 1) n = (stepN t k n).bind (plookup t) := by
  intro k
  induction k with
  | zero =>
    intro n
    cases hn : plookup t n <;> simp [stepN, hn]
  | succ k ih =>
    intro n
    rw [stepN]
    cases hn : plookup t n with
    | none => simp [stepN, hn]
    | some m =>
      simp only
      rw [ih m]
      conv => rhs; rw [stepN]
      simp [hn]

/-- A name from which the loop terminates is not on a cycle. -/
theorem loop_no_cycle {t : Patches α} {n r : α} (h : Loop t n r) :
    ∀ k, 0 < k → stepN t k n ≠ some n := by
  induction h with
  | done hn =>
    intro k hk
    cases k with
    | zero => cases hk
    | succ k => simp [stepN, hn]
  | @step n m r hm _ ih =>
    intro k hk hcyc
    cases k with
    | zero => cases hk
    | succ k =>
      -- stepN (k+1) n = stepN k m = some n, hence stepN (k+1) m = plookup n = some m
      have h1 : stepN t k m = some n := by
        have := hcyc
        rw [stepN] at this
        simp only [hm] at this
        exact this
      have h2 : stepN t (k + 1) m = some m := by
        rw [stepN_succ_right, h1]
        simpa using hm
      exact ih (k + 1) (Nat.succ_pos k) h2

theorem chaseAll_acyclic {t : Patches α} (h : chaseAll t = true) (n : α) :
    ∀ k, 0 < k → stepN t k n ≠ some n := by
  obtain ⟨_, _, hl, _⟩ := chaseAll_terminates h n
  exact loop_no_cycle hl

/-! ## lifts of the table checkers -/

theorem keysNodup_spec : ∀ {ks : List α}, keysNodup ks = true → ks.Nodup := by
  intro ks
  induction ks with
  | nil => intro _; exact List.nodup_nil
  | cons k r ih =>
    intro h
    simp only [keysNodup, Bool.and_eq_true, Bool.not_eq_true', List.contains_eq_mem,
      decide_eq_false_iff_not] at h
    exact List.nodup_cons.mpr ⟨h.1, ih h.2⟩

theorem noCaptureExcept_spec {t : Patches α} {cl : ClassTable α} {nameOf : α → String}
    {exc : List String} (h : noCaptureExcept t cl nameOf exc = true) :
    ∀ p ∈ t, isLiveWritten cl p.1 = true → nameOf p.1 ∈ exc := by
  intro p hp hw
  have hmem : p.1 ∈ capturedKeys t cl := by
    unfold capturedKeys
    exact List.mem_filter.mpr ⟨List.mem_map.mpr ⟨p, hp, rfl⟩, hw⟩
  have := (List.all_eq_true.mp h) p.1 hmem
  simpa using this

theorem capturedImportable_spec {t : Patches α} {cl : ClassTable α} {imp : List (α × Bool)}
    (h : capturedImportable t cl imp = true) :
    ∀ p ∈ t, isLiveWritten cl p.1 = true → (p.1, true) ∈ imp := by
  intro p hp hw
  have hmem : p.1 ∈ capturedKeys t cl := by
    unfold capturedKeys
    exact List.mem_filter.mpr ⟨List.mem_map.mpr ⟨p, hp, rfl⟩, hw⟩
  have := (List.all_eq_true.mp h) p.1 hmem
  simpa using this

/-! ### the lookup after the chase -/

/-- the three cases of `finish`, as a specification. -/
theorem finish_spec (imp : α → Bool) (name r : α) :
    (imp r = true → finish imp name r = .found r) ∧
    (imp r = false → r ≠ name → imp name = true → finish imp name r = .found name) ∧
    (imp r = false → (r = name ∨ imp name = false) → finish imp name r = .error r) := by
  refine ⟨fun h => ?_, fun h hne hn => ?_, fun h hor => ?_⟩
  · simp [finish, h]
  · simp [finish, h, hne, hn]
  · rcases hor with rfl | hn
    · simp [finish, h]
    · simp [finish, h, hn]

/-- a key that can be imported under its own name while its target cannot: the lookup returns the
key itself. -/
theorem lookup_falls_back {t : Patches α} (imp : α → Bool) (fuel : Nat) (name r : α)
    (hr : chase t fuel name = some r) (hlive : imp name = true) (ht : imp r = false) :
    lookupWithPatches t imp fuel name = some (.found name) := by
  have hne : r ≠ name := by
    intro e
    rw [e, hlive] at ht
    exact absurd ht (by decide)
  simp only [lookupWithPatches, hr, Option.map_some]
  rw [(finish_spec imp name r).2.1 ht hne hlive]

theorem blookup_some_mem {t : List (α × Bool)} {k : α} {v : Bool}
    (h : blookup t k = some v) : (k, v) ∈ t := by
  induction t with
  | nil => simp [blookup] at h
  | cons p r ih =>
    obtain ⟨a, b⟩ := p
    unfold blookup at h
    split at h
    · rename_i hak
      cases h
      subst hak
      exact List.mem_cons_self
    · exact List.mem_cons_of_mem _ (ih h)

theorem targetsImportable_spec {t : Patches α} {inPkg : α → Bool} {imp : List (α × Bool)}
    (h : targetsImportable t inPkg imp = true) :
    ∀ p ∈ t, ∀ r, chase t t.length p.1 = some r → inPkg r = true → (r, true) ∈ imp := by
  intro p hp r hr hin
  have := (List.all_eq_true.mp h) p hp
  simp only [hr, hin, Bool.not_true, Bool.false_or, beq_iff_eq] at this
  exact blookup_some_mem this

theorem rlookup_some_mem {t : Registry α} {k : α} {v : List Int}
    (h : rlookup t k = some v) : (k, v) ∈ t := by
  induction t with
  | nil => simp [rlookup] at h
  | cons p r ih =>
    obtain ⟨a, b⟩ := p
    unfold rlookup at h
    split at h
    · rename_i hak
      cases h
      subst hak
      exact List.mem_cons_self
    · exact List.mem_cons_of_mem _ (ih h)

theorem consecutive_spec {vs : List Int} (h : consecutive vs = true) :
    ∃ n, 0 < n ∧ vs = oneTo n := by
  simp only [consecutive, Bool.and_eq_true, beq_iff_eq, Bool.not_eq_true', List.isEmpty_eq_false_iff] at h
  refine ⟨vs.length, ?_, h.1⟩
  exact List.length_pos_iff.mpr h.2

omit [DecidableEq α] in
theorem registryConsecutive_spec {r : Registry α} (h : registryConsecutive r = true) :
    ∀ e ∈ r, ∃ n, 0 < n ∧ e.2 = oneTo n := by
  intro e he
  exact consecutive_spec ((List.all_eq_true.mp h) e he)

theorem versionsMatch_spec {sav lod : Registry α} {only : α → Bool}
    (h : versionsMatch sav lod only = true) :
    (∀ e ∈ lod, rlookup sav e.1 = some e.2) ∧
    (∀ e ∈ sav, only e.1 = false → rlookup lod e.1 = some e.2) := by
  simp only [versionsMatch, Bool.and_eq_true] at h
  refine ⟨?_, ?_⟩
  · intro e he
    have := (List.all_eq_true.mp h.1) e he
    simpa using this
  · intro e he hno
    have := (List.all_eq_true.mp h.2) e he
    simp only [Bool.or_eq_true, beq_iff_eq] at this
    cases this with
    | inl h1 => rw [hno] at h1; cases h1
    | inr h2 => exact h2

theorem newestIsLast_spec {sav lod : Registry α} {only : α → Bool}
    (h : newestIsLast sav lod only = true) :
    ∀ e ∈ sav, newestVersion e.2 = some (Int.ofNat e.2.length) ∧
      (only e.1 = false → ∃ vs, rlookup lod e.1 = some vs ∧ Int.ofNat e.2.length ∈ vs) := by
  intro e he
  have := (List.all_eq_true.mp h) e he
  simp only [Bool.and_eq_true, beq_iff_eq, Bool.or_eq_true, List.contains_eq_mem,
    decide_eq_true_eq] at this
  refine ⟨this.1, ?_⟩
  intro hno
  cases this.2 with
  | inl h1 => rw [hno] at h1; cases h1
  | inr h2 =>
    cases hl : rlookup lod e.1 with
    | none => rw [hl] at h2; simp at h2
    | some vs => rw [hl] at h2; exact ⟨vs, rfl, by simpa using h2⟩

end GlueVerif.C12.Lemmas
