import GlueVerif.Lemmas.C05Graph
/-!
C05 — programs: the implementation model (`Impl.run`, with memo tables and the code's invalidation)
against the property (`Spec.run`, nothing cached) over *all* histories.
-/
namespace GlueVerif.C05Cache
open GlueVerif.SubsetEval

def HasRep (g : Graph) (n : NodeId) : Prop := ∃ e, Rep g n e

theorem HasRep.mono {g g' : Graph} {n : NodeId} (h : HasRep g n) (hle : g.Le g') : HasRep g' n := by
  obtain ⟨e, he⟩ := h; exact ⟨e, Rep.mono hle e n he⟩

/-- The implementation state and the Spec state describe the same objects. -/
structure SyncB (s : SubsetEval.Impl.State) (ss : Spec.State) : Prop where
  g : s.h.g = ss.g
  vars : s.vars = ss.vars
  cur : s.cur = ss.cur
  repV : ∀ n ∈ ss.vars, HasRep ss.g n
  repC : HasRep ss.g ss.cur

structure Sync (st : Impl.State) (ss : Spec.State) : Prop where
  b : SyncB st.s ss
  epoch : st.epoch = ss.epoch

theorem mem_of_getElem? {α} {l : List α} {i : Nat} {x : α} (h : l[i]? = some x) : x ∈ l := by
  exact List.mem_of_getElem? h

theorem lookupAll_mem {α} (xs : List α) : ∀ (as : List Nat) (r : List α), lookupAll xs as = some r →
    ∀ x ∈ r, x ∈ xs
  | [], r, h, x, hx => by simp only [lookupAll, Option.some.injEq] at h; subst h; cases hx
  | a :: as, r, h, x, hx => by
    simp only [lookupAll] at h
    cases ha : xs[a]? with
    | none => rw [ha] at h; cases h
    | some y =>
      cases hl : lookupAll xs as with
      | none => rw [ha, hl] at h; cases h
      | some r' =>
        rw [ha, hl] at h; simp only [Option.some.injEq] at h; subst h
        rcases List.mem_cons.mp hx with rfl | hm
        · exact mem_of_getElem? ha
        · exact lookupAll_mem xs as r' hl x hm

theorem repAll_of_hasRep {g : Graph} : ∀ (xs : List Nat), (∀ x ∈ xs, HasRep g x) →
    ∃ ys, RepAll g xs ys ∧ (xs ≠ [] → ys ≠ [])
  | [], _ => ⟨[], by simp only [RepAll], fun h => absurd rfl h⟩
  | x :: xs, h => by
    obtain ⟨e, he⟩ := h x (by simp)
    obtain ⟨ys, hys, _⟩ := repAll_of_hasRep xs (fun x' hx' => h x' (by simp [hx']))
    exact ⟨e :: ys, by simp only [RepAll]; exact ⟨he, hys⟩, fun _ => by simp⟩

def isEvalOp : SubsetEval.Op → Bool
  | .eval _ _ _ _ => true
  | .evalCur _ _ => true
  | _ => false

/-- What a non-evaluating op of C01's fragment does: the same to the object graph in the
implementation and in the Spec, nothing to arrays and memo tables. -/
structure BaseRes (s : SubsetEval.Impl.State) (r : SubsetEval.Impl.State × SubsetEval.Impl.Out)
    (q : Spec.State × Obs) : Prop where
  sync : SyncB r.1 q.1
  obs : r.2.obs = q.2
  arrays : r.1.h.arrays = s.h.arrays
  memo : r.1.h.memo = s.h.memo
  le : s.h.g.Le r.1.h.g
  epoch : True

theorem baseRes_bad {s : SubsetEval.Impl.State} {ss : Spec.State} (hs : SyncB s ss) :
    BaseRes s (s, ⟨.bad, none⟩) (ss, .bad) :=
  ⟨hs, rfl, rfl, rfl, Graph.Le.refl _, trivial⟩

theorem baseRes_bind {s : SubsetEval.Impl.State} {ss : Spec.State} (hs : SyncB s ss) {g' : Graph} {n : Nat}
    (hle : ss.g.Le g') (hr : HasRep g' n) :
    BaseRes s ({ s with h := { s.h with g := g' }, vars := s.vars ++ [n] }, ⟨.none, none⟩)
      ({ ss with g := g', vars := ss.vars ++ [n] }, .none) := by
  refine ⟨⟨rfl, by simp only [hs.vars], hs.cur, ?_, hs.repC.mono hle⟩, rfl, rfl, rfl, by rw [hs.g]; exact hle, trivial⟩
  intro m hm
  simp only [List.mem_append, List.mem_singleton] at hm
  rcases hm with hm | rfl
  · exact (hs.repV m hm).mono hle
  · exact hr

theorem stepBase_noneval (tbl : ClassTable) (hf : tbl.Faithful) (env : Env) (s : SubsetEval.Impl.State)
    (ss : Spec.State) (hs : SyncB s ss) (o : SubsetEval.Op) (ho : isEvalOp o = false) :
    BaseRes s (SubsetEval.Impl.step tbl env s o) (Spec.stepBase tbl env ss o) := by
  have hg := hs.g
  have hv := hs.vars
  cases o with
  | leaf k c =>
    simp only [SubsetEval.Impl.step, Spec.stepBase, SubsetEval.Impl.bind, hg, hv]
    obtain ⟨hle, hr⟩ := mkLeaf_spec ss.g k c
    have := baseRes_bind hs hle ⟨_, hr⟩
    simpa only [hg, hv] using this
  | bin op a b =>
    simp only [SubsetEval.Impl.step, Spec.stepBase, hv]
    cases ha : ss.vars[a]? with
    | none => exact baseRes_bad hs
    | some x =>
      cases hb : ss.vars[b]? with
      | none => exact baseRes_bad hs
      | some y =>
        obtain ⟨ea, hra⟩ := hs.repV x (mem_of_getElem? ha)
        obtain ⟨eb, hrb⟩ := hs.repV y (mem_of_getElem? hb)
        obtain ⟨g', n, e1, hle, hr⟩ := mkBin_spec tbl hf ss.g op x y ea eb hra hrb
        simp only [SubsetEval.Impl.bindOpt, Spec.bindOpt, hg, e1]
        have := baseRes_bind hs hle ⟨_, hr⟩
        simpa only [hg, hv] using this
  | inv a =>
    simp only [SubsetEval.Impl.step, Spec.stepBase, hv]
    cases ha : ss.vars[a]? with
    | none => exact baseRes_bad hs
    | some x =>
      obtain ⟨ea, hra⟩ := hs.repV x (mem_of_getElem? ha)
      obtain ⟨g', n, e1, hle, hr⟩ := mkInv_spec tbl hf ss.g x ea hra
      simp only [SubsetEval.Impl.bindOpt, Spec.bindOpt, hg, e1]
      have := baseRes_bind hs hle ⟨_, hr⟩
      simpa only [hg, hv] using this
  | multiOr as =>
    simp only [SubsetEval.Impl.step, Spec.stepBase, hv]
    cases hx : lookupAll ss.vars as with
    | none => exact baseRes_bad hs
    | some xs =>
      cases xs with
      | nil => exact baseRes_bad hs
      | cons x xs =>
        have hmem := lookupAll_mem ss.vars as (x :: xs) hx
        obtain ⟨ys, hys, hne⟩ := repAll_of_hasRep (g := ss.g) (x :: xs) (fun z hz => hs.repV z (hmem z hz))
        obtain ⟨hle, hr⟩ := mkMultiOr_spec ss.g (x :: xs) ys (hne (by simp)) hys
        simp only [SubsetEval.Impl.bind, hg]
        have := baseRes_bind hs hle ⟨_, hr⟩
        simpa only [hg, hv] using this
  | copy a =>
    simp only [SubsetEval.Impl.step, Spec.stepBase, hv]
    cases ha : ss.vars[a]? with
    | none => exact baseRes_bad hs
    | some x =>
      obtain ⟨ea, hra⟩ := hs.repV x (mem_of_getElem? ha)
      obtain ⟨g', n, e1, hle, hr⟩ := copy_spec tbl hf ss.g x ea hra
      simp only [SubsetEval.Impl.bindOpt, Spec.bindOpt, hg, e1]
      have := baseRes_bind hs hle ⟨_, hr⟩
      simpa only [hg, hv] using this
  | eval a d v f => simp [isEvalOp] at ho
  | evalCur d v => simp [isEvalOp] at ho
  | edit m a =>
    simp only [SubsetEval.Impl.step, Spec.stepBase, hv]
    cases ha : ss.vars[a]? with
    | none => exact baseRes_bad hs
    | some x =>
      obtain ⟨ea, hra⟩ := hs.repV x (mem_of_getElem? ha)
      obtain ⟨ec, hrc⟩ := hs.repC
      obtain ⟨g', n, e1, hle, hr⟩ := editGraph_spec tbl hf ss.g m x ss.cur ea ec hra hrc
      simp only [SubsetEval.Impl.setCur, hg, hs.cur, e1]
      exact ⟨⟨rfl, hv, rfl, fun z hz => (hs.repV z hz).mono hle, ⟨_, hr⟩⟩, rfl, rfl, rfl, by rw [hg]; exact hle, trivial⟩
  | useCur =>
    simp only [SubsetEval.Impl.step, Spec.stepBase, hv, hs.cur]
    refine ⟨⟨hg, rfl, by first | rfl | exact hs.cur, ?_, hs.repC⟩, rfl, rfl, rfl, Graph.Le.refl _, trivial⟩
    intro z hz
    simp only [List.mem_append, List.mem_singleton] at hz
    rcases hz with hz | rfl
    · exact hs.repV z hz
    · exact hs.repC
  | child a i =>
    simp only [SubsetEval.Impl.step, Spec.stepBase, hv]
    cases ha : ss.vars[a]? with
    | none => exact baseRes_bad hs
    | some x =>
      obtain ⟨ea, hra⟩ := hs.repV x (mem_of_getElem? ha)
      have hc := child_sim i hra
      simp only [hg]
      cases hch : ss.g.child x i with
      | none => exact baseRes_bad hs
      | some y =>
        obtain ⟨e', _, hr'⟩ := hc.1 y hch
        refine ⟨⟨hg, by simp only [hv], hs.cur, ?_, hs.repC⟩, rfl, rfl, rfl, Graph.Le.refl _, trivial⟩
        intro z hz
        simp only [List.mem_append, List.mem_singleton] at hz
        rcases hz with hz | rfl
        · exact hs.repV z hz
        · exact ⟨e', hr'⟩

/-- An evaluation whose reachable entries are coherent returns the demanded result. -/
theorem observe_fresh {tbl : ClassTable} {env : Env} {s : SubsetEval.Impl.State} {ss : Spec.State}
    (hs : SyncB s ss) {x : NodeId} {d : DataId} {v : View} {f : Form} (hx : HasRep ss.g x)
    (hc : CohOn tbl env (Reach s.h.g x f) d v s.h) :
    SyncB (SubsetEval.Impl.observe s (toMask tbl env s.h.g.fuel s.h x d v f)).1 ss ∧
      (SubsetEval.Impl.observe s (toMask tbl env s.h.g.fuel s.h x d v f)).2.obs = .mask (denoteNow env ss.g x d v) ∧
      CohOn tbl env (Reach s.h.g x f) d v (SubsetEval.Impl.observe s (toMask tbl env s.h.g.fuel s.h x d v f)).1.h := by
  obtain ⟨e, he⟩ := hx
  have he' : Rep s.h.g x e := by rw [hs.g]; exact he
  have hp := toMask_specOn tbl env (Reach s.h.g x f) s.h.g.fuel s.h x d v f e (Reach.closed _ _ _) hc he' .refl
    he'.depth_lt_fuel
  rw [denoteNow_of_rep he]
  rcases hr : toMask tbl env s.h.g.fuel s.h x d v f with ⟨h', res⟩
  rw [hr] at hp
  have pg : h'.g = s.h.g := hp.g
  have hsync : SyncB { s with h := h' } ss := ⟨by show h'.g = ss.g; rw [pg]; exact hs.g, hs.vars, hs.cur, hs.repV, hs.repC⟩
  have pc : CohOn tbl env (Reach s.h.g x f) d v h' := hp.coh
  cases res with
  | error er =>
    have hres : e.denote env d v = .error er := hp.res
    simp only [SubsetEval.Impl.observe]
    exact ⟨hsync, by rw [hres], pc⟩
  | ok a =>
    obtain ⟨m, harr, hden⟩ : ∃ m, h'.arrays[a]? = some m ∧ e.denote env d v = .ok m := hp.res
    simp only [SubsetEval.Impl.observe, harr]
    exact ⟨hsync, by rw [hden], pc⟩

/-- Hypothesis of the partial theorem for one op (Prop form of `opClean`). -/
def EvalOk (tbl : ClassTable) (w : World) (st : Impl.State) : Op → Prop
  | .base (.eval a d v f) =>
    ∀ x, st.s.vars[a]? = some x → CohOn tbl (w st.epoch) (Reach st.s.h.g x f) d v st.s.h
  | .base (.evalCur d v) => CohOn tbl (w st.epoch) (Reach st.s.h.g st.s.cur .kw) d v st.s.h
  | _ => True

def RunOk (tbl : ClassTable) (pol : Policy) (w : World) : Impl.State → List Op → Prop
  | _, [] => True
  | st, op :: ops => EvalOk tbl w st op ∧ RunOk tbl pol w (Impl.step tbl pol w st op).1 ops

theorem invalidate_g (tbl : ClassTable) (i : Inval) (h : Heap) (cur : NodeId) : (invalidate tbl i h cur).g = h.g := by
  cases i with
  | none => rfl
  | all => rfl
  | top =>
    simp only [invalidate]
    cases h.g.nodes[cur]? with
    | none => rfl
    | some nd => dsimp only; cases tbl.memoTable nd <;> rfl

theorem hasRep_sameShape {g g' : Graph} (hs : SameShape g g') {n : NodeId} (h : HasRep g n) : HasRep g' n := by
  obtain ⟨e, he⟩ := h; exact Rep.sameShape hs e n he

/-- One step: if the evaluated object has no stale key below it, the implementation observes what the
Spec demands, and both keep describing the same objects. -/
theorem step_fresh (tbl : ClassTable) (hf : tbl.Faithful) (pol : Policy) (w : World) (st : Impl.State)
    (ss : Spec.State) (hs : Sync st ss) (op : Op) (hok : EvalOk tbl w st op) :
    Sync (Impl.step tbl pol w st op).1 (Spec.step tbl w ss op).1 ∧
      (Impl.step tbl pol w st op).2.obs = (Spec.step tbl w ss op).2 := by
  have hb := hs.b
  have hep := hs.epoch
  cases op with
  | base o =>
    cases hev : isEvalOp o with
    | false =>
      have r := stepBase_noneval tbl hf (w st.epoch) st.s ss hb o hev
      simp only [Impl.step, Spec.step, ← hep]
      refine ⟨⟨r.sync, ?_⟩, r.obs⟩
      show st.epoch = (Spec.stepBase tbl (w st.epoch) ss o).1.epoch
      cases o <;> simp only [Spec.stepBase, Spec.bindOpt] <;> (try (split <;> (try exact hep))) <;>
        (try (split <;> (try exact hep))) <;> (try (split <;> (try exact hep))) <;> (try exact hep)
    | true =>
      cases o with
      | eval a d v f =>
        simp only [Impl.step, Spec.step, SubsetEval.Impl.step, Spec.stepBase, ← hep, hb.vars]
        cases ha : ss.vars[a]? with
        | none => exact ⟨⟨hb, hep⟩, rfl⟩
        | some x =>
          have hc := hok x (by rw [hb.vars]; exact ha)
          have r := observe_fresh (tbl := tbl) (env := w st.epoch) hb (hb.repV x (mem_of_getElem? ha)) hc
          exact ⟨⟨r.1, hep⟩, r.2.1⟩
      | evalCur d v =>
        simp only [Impl.step, Spec.step, SubsetEval.Impl.step, Spec.stepBase, ← hep]
        have hc : CohOn tbl (w st.epoch) (Reach st.s.h.g st.s.cur .kw) d v st.s.h := hok
        have r := observe_fresh (tbl := tbl) (env := w st.epoch) (x := st.s.cur) hb (by rw [hb.cur]; exact hb.repC) hc
        rw [hb.cur] at r
        rw [hb.cur]
        exact ⟨⟨r.1, hep⟩, r.2.1⟩
      | _ => simp [isEvalOp] at hev
  | setAttr a k c =>
    simp only [Impl.step, Spec.step, hb.vars, hb.g]
    cases ha : ss.vars[a]? with
    | none => exact ⟨hs, rfl⟩
    | some n =>
      dsimp only
      cases hg'' : setAttrK ss.g n k c with
      | none => exact ⟨hs, rfl⟩
      | some g' =>
        have hsh := setAttrG_sameShape (setAttrK_some hg'')
        exact ⟨⟨⟨rfl, hb.vars, hb.cur, fun z hz => hasRep_sameShape hsh (hb.repV z hz), hasRep_sameShape hsh hb.repC⟩, hep⟩, rfl⟩
  | editParam a k c =>
    simp only [Impl.step, Spec.step, hb.vars, hb.g]
    cases ha : ss.vars[a]? with
    | none => exact ⟨hs, rfl⟩
    | some n =>
      dsimp only
      cases hg'' : editParamK ss.g n k c with
      | none => exact ⟨hs, rfl⟩
      | some g' =>
        have hsh := editParamG_sameShape (editParamK_some hg'')
        exact ⟨⟨⟨rfl, hb.vars, hb.cur, fun z hz => hasRep_sameShape hsh (hb.repV z hz), hasRep_sameShape hsh hb.repC⟩, hep⟩, rfl⟩
  | dataMut m d =>
    simp only [Impl.step, Spec.step]
    exact ⟨⟨⟨by show (invalidate tbl (pol.inval m) st.s.h st.s.cur).g = ss.g; rw [invalidate_g]; exact hb.g,
      hb.vars, hb.cur, hb.repV, hb.repC⟩, by show st.epoch + 1 = ss.epoch + 1; rw [hep]⟩, by first | rfl | trivial⟩
  | clearAll =>
    simp only [Impl.step, Spec.step]
    exact ⟨⟨⟨hb.g, hb.vars, hb.cur, hb.repV, hb.repC⟩, hep⟩, by first | rfl | trivial⟩
  | change =>
    simp only [Impl.step, Spec.step]
    exact ⟨⟨⟨hb.g, hb.vars, hb.cur, hb.repV, hb.repC⟩, by show st.epoch + 1 = ss.epoch + 1; rw [hep]⟩, by first | rfl | trivial⟩

theorem init_sync : Sync {} {} := by
  refine ⟨⟨rfl, rfl, rfl, fun n hn => (by cases hn), ?_⟩, rfl⟩
  exact ⟨.leaf emptyContent, by simp only [Rep]; exact ⟨.base, 0, rfl, rfl⟩⟩

theorem run_fresh (tbl : ClassTable) (hf : tbl.Faithful) (pol : Policy) (w : World) :
    ∀ (ops : List Op) (st : Impl.State) (ss : Spec.State), Sync st ss → RunOk tbl pol w st ops →
      (Impl.run tbl pol w st ops).2.map (·.obs) = (Spec.run tbl w ss ops).2 ∧
      Sync (Impl.run tbl pol w st ops).1 (Spec.run tbl w ss ops).1
  | [], _, _, hs, _ => ⟨rfl, hs⟩
  | op :: ops, st, ss, hs, hok => by
    have h1 := step_fresh tbl hf pol w st ss hs op hok.1
    have h2 := run_fresh tbl hf pol w ops _ _ h1.1 hok.2
    refine ⟨?_, h2.2⟩
    simp only [Impl.run, Spec.run, List.map_cons, h1.2, h2.1]

/-! ## From the run-time check to the hypothesis -/

theorem opClean_evalOk {tbl : ClassTable} {w : World} {st : Impl.State} {op : Op}
    (h : opClean tbl w st op = true) : EvalOk tbl w st op := by
  cases op with
  | base o =>
    cases o with
    | eval a d v f =>
      intro x hx
      simp only [opClean, hx] at h
      exact cleanBelow_cohOn h
    | evalCur d v => exact cleanBelow_cohOn (by simpa only [opClean] using h)
    | _ => trivial
  | _ => trivial

theorem progClean_runOk (tbl : ClassTable) (pol : Policy) (w : World) :
    ∀ (ops : List Op) (st : Impl.State), progClean tbl pol w st ops = true → RunOk tbl pol w st ops
  | [], _, _ => trivial
  | op :: ops, st, h => by
    simp only [progClean, Bool.and_eq_true] at h
    exact ⟨opClean_evalOk h.1, progClean_runOk tbl pol w ops _ h.2⟩

/-! ## Global coherence: histories that never leave a stale entry behind -/

theorem cohOn_of_coherent {tbl : ClassTable} {env : Env} {h : Heap} (hc : CacheCoherent env h)
    (S : NodeId → Form → Prop) (d : DataId) (v : View) : CohOn tbl env S d v h := by
  intro n f t a _ _ hl
  obtain ⟨x, hx, hk, ha⟩ := Heap.lookup_some hl
  obtain ⟨e, m, hr, harr, hd⟩ := hc x hx
  rw [hk] at hr hd
  rw [ha] at harr
  exact ⟨e, m, hr, harr, hd⟩

theorem evalOk_of_coherent {tbl : ClassTable} {w : World} {st : Impl.State}
    (hc : CacheCoherent (w st.epoch) st.s.h) (op : Op) : EvalOk tbl w st op := by
  cases op with
  | base o =>
    cases o with
    | eval a d v f => intro x _; exact cohOn_of_coherent hc _ d v
    | evalCur d v => exact cohOn_of_coherent hc _ d v
    | _ => trivial
  | _ => trivial

theorem cacheCoherent_observe {tbl : ClassTable} {env : Env} {s : SubsetEval.Impl.State} {x : NodeId}
    {d : DataId} {v : View} {f : Form} (hx : HasRep s.h.g x) (hc : CacheCoherent env s.h) :
    CacheCoherent env (SubsetEval.Impl.observe s (toMask tbl env s.h.g.fuel s.h x d v f)).1.h := by
  obtain ⟨e, he⟩ := hx
  have hp := toMask_spec tbl env s.h.g.fuel s.h x d v f e hc he he.depth_lt_fuel
  rcases hr : toMask tbl env s.h.g.fuel s.h x d v f with ⟨h', res⟩
  rw [hr] at hp
  have pc : CacheCoherent env h' := hp.coh
  cases res with
  | error er => exact pc
  | ok a =>
    simp only [SubsetEval.Impl.observe]
    cases h'.arrays[a]? <;> exact pc

/-- One step keeps *every* memo entry coherent when data-side mutations clear all tables and the
mutated parameter is below no memoised, evaluated object. -/
theorem step_coherent (tbl : ClassTable) (hf : tbl.Faithful) (pol : Policy) (hp : pol.ClearsAll) (w : World)
    (st : Impl.State) (ss : Spec.State) (hs : Sync st ss) (op : Op)
    (hc : CacheCoherent (w st.epoch) st.s.h) (hu : mutationUnseen st op = true) :
    CacheCoherent (w (Impl.step tbl pol w st op).1.epoch) (Impl.step tbl pol w st op).1.s.h := by
  have hb := hs.b
  cases op with
  | base o =>
    cases hev : isEvalOp o with
    | false =>
      have r := stepBase_noneval tbl hf (w st.epoch) st.s ss hb o hev
      simp only [Impl.step]
      refine CacheCoherent.transfer hc r.le r.memo ?_
      intro x _; rw [r.arrays]
    | true =>
      cases o with
      | eval a d v f =>
        simp only [Impl.step, SubsetEval.Impl.step]
        cases ha : st.s.vars[a]? with
        | none => exact hc
        | some x =>
          have hx : HasRep st.s.h.g x := by
            rw [hb.g]; exact hb.repV x (by rw [← hb.vars]; exact mem_of_getElem? ha)
          exact cacheCoherent_observe hx hc
      | evalCur d v =>
        simp only [Impl.step, SubsetEval.Impl.step]
        have hx : HasRep st.s.h.g st.s.cur := by rw [hb.g, hb.cur]; exact hb.repC
        exact cacheCoherent_observe hx hc
      | _ => simp [isEvalOp] at hev
  | setAttr a k c =>
    simp only [Impl.step]
    cases ha : st.s.vars[a]? with
    | none => exact hc
    | some n =>
      dsimp only
      cases hg'' : setAttrK st.s.h.g n k c with
      | none => exact hc
      | some g' =>
        have hg' := setAttrK_some hg''
        simp only [mutationUnseen, ha, List.all_eq_true] at hu
        intro x hx
        obtain ⟨e, m, hr, harr, hd⟩ := hc x hx
        have hnr := hu x hx
        refine ⟨e, m, ?_, harr, hd⟩
        exact Rep.setAttr_frame hg' e _ _ hr (by simpa using hnr)
  | editParam a k c =>
    simp only [Impl.step]
    cases ha : st.s.vars[a]? with
    | none => exact hc
    | some n =>
      dsimp only
      cases hg'' : editParamK st.s.h.g n k c with
      | none => exact hc
      | some g' =>
        have hg' := editParamK_some hg''
        simp only [editParamG] at hg'
        split at hg'
        · rename_i k0 p0 hn0
          split at hg'
          · simp only [Option.some.injEq] at hg'; subst hg'
            simp only [mutationUnseen, ha, hn0, List.all_eq_true] at hu
            intro x hx
            obtain ⟨e, m, hr, harr, hd⟩ := hc x hx
            have hnr := hu x hx
            refine ⟨e, m, ?_, harr, hd⟩
            exact Rep.editParam_frame e _ _ hr (by simpa using hnr)
          · cases hg'
        · cases hg'
  | dataMut m d =>
    simp only [Impl.step, invalidate, hp m]
    intro x hx; cases hx
  | clearAll =>
    simp only [Impl.step]
    intro x hx; cases hx
  | change =>
    simp only [mutationUnseen, List.isEmpty_iff] at hu
    simp only [Impl.step]
    intro x hx; rw [hu] at hx; cases hx

theorem run_coherent (tbl : ClassTable) (hf : tbl.Faithful) (pol : Policy) (hp : pol.ClearsAll) (w : World) :
    ∀ (ops : List Op) (st : Impl.State) (ss : Spec.State), Sync st ss → CacheCoherent (w st.epoch) st.s.h →
      progUnseen tbl pol w st ops = true → RunOk tbl pol w st ops
  | [], _, _, _, _, _ => trivial
  | op :: ops, st, ss, hs, hc, hu => by
    simp only [progUnseen, Bool.and_eq_true] at hu
    have hok : EvalOk tbl w st op := evalOk_of_coherent hc op
    have h1 := step_fresh tbl hf pol w st ss hs op hok
    have hc' := step_coherent tbl hf pol hp w st ss hs op hc hu.1
    exact ⟨hok, run_coherent tbl hf pol hp w ops _ _ h1.1 hc' hu.2⟩

theorem progUnseen_of_noParamMut (tbl : ClassTable) (pol : Policy) (w : World) :
    ∀ (ops : List Op) (st : Impl.State), (∀ op ∈ ops, op.isParamMut = false ∧ op.isBareChange = false) →
      progUnseen tbl pol w st ops = true
  | [], _, _ => rfl
  | op :: ops, st, h => by
    simp only [progUnseen, Bool.and_eq_true]
    refine ⟨?_, progUnseen_of_noParamMut tbl pol w ops _ (fun o ho => h o (by simp [ho]))⟩
    have := h op (by simp)
    cases op <;> simp_all [mutationUnseen, Op.isParamMut, Op.isBareChange]

/-! ## Generic keyed caches -/

theorem slotRun_sound {I K O : Type} [DecidableEq K] (key : I → K) (f : I → O)
    (hinj : ∀ i j, key i = key j → f i = f j) :
    ∀ (is : List I) (c : Option (K × O)), (∀ k o, c = some (k, o) → ∀ i, key i = k → f i = o) →
      slotRun key f c is = is.map f
  | [], _, _ => rfl
  | i :: is, c, hc => by
    simp only [slotRun, List.map_cons]
    cases c with
    | none =>
      simp only [slotStep]
      rw [slotRun_sound key f hinj is _ (by intro k o h j hj; cases h; exact hinj j i hj)]
    | some ko =>
      obtain ⟨k, o⟩ := ko
      simp only [slotStep]
      by_cases hk : k = key i
      · simp only [hk, if_true]
        have : o = f i := (hc k o rfl i hk.symm).symm
        rw [this, slotRun_sound key f hinj is _ (by intro k' o' h j hj; cases h; exact hinj j i hj)]
      · simp only [hk, if_false]
        rw [slotRun_sound key f hinj is _ (by intro k' o' h j hj; cases h; exact hinj j i hj)]

theorem dictRun_sound {I K O : Type} [DecidableEq K] (key : I → K) (f : I → O)
    (hinj : ∀ i j, key i = key j → f i = f j) :
    ∀ (is : List I) (c : List (K × O)), (∀ e ∈ c, ∀ i, key i = e.1 → f i = e.2) →
      dictRun key f c is = is.map f
  | [], _, _ => rfl
  | i :: is, c, hc => by
    simp only [dictRun, List.map_cons, dictStep]
    cases hfnd : c.find? (fun e => e.1 = key i) with
    | some e =>
      have hm := List.mem_of_find?_eq_some hfnd
      have hk : e.1 = key i := by simpa using List.find?_some hfnd
      dsimp only
      rw [hc e hm i hk.symm, dictRun_sound key f hinj is c hc]
    | none =>
      dsimp only
      rw [dictRun_sound key f hinj is _ ?_]
      intro e he j hj
      simp only [List.mem_append, List.mem_singleton] at he
      rcases he with he | rfl
      · exact hc e he j hj
      · exact hinj j i hj

end GlueVerif.C05Cache
