import GlueVerif.Lemmas.DerivedHeap
/-! Lemmas for C14, link objects: `update_id` on shared link objects — every object the data set
can reach ends up renamed (however often it is visited), nothing else about it changes, and every
value is kept. -/
set_option linter.unusedSectionVars false
set_option linter.unusedSimpArgs false
set_option linter.unusedVariables false
namespace GlueVerif.DerivedHeap
open GlueVerif.Derived

section free
variable {κ ω α : Type} [DecidableEq κ]

theorem E.trans {old new : κ} {a b c : Heap κ ω α} (e1 : E old new a b) (e2 : E old new b c) :
    E old new a c := by
  refine ⟨e2.ln.trans e1.ln, e2.ll.trans e1.ll, e2.lc.trans e1.lc, e2.ld.trans e1.ld, ?_, ?_, ?_, ?_⟩
  · intro i x hx
    obtain ⟨y, hy, hxy⟩ := e2.nodes i x hx
    obtain ⟨z, hz, hyz⟩ := e1.nodes i y hy
    refine ⟨z, hz, ?_⟩
    rcases hxy with rfl | rfl
    · exact hyz
    · exact Or.inr (ren_of_or hyz)
  · intro i x hx
    obtain ⟨y, hy, hxy⟩ := e2.lists i x hx
    obtain ⟨z, hz, hyz⟩ := e1.lists i y hy
    refine ⟨z, hz, ?_⟩
    rcases hxy with rfl | rfl
    · exact hyz
    · rcases hyz with rfl | rfl
      · exact Or.inr rfl
      · exact Or.inr (renL_idem old new z)
  · intro i x hx
    obtain ⟨y, hy, hxy⟩ := e2.cmds i x hx
    obtain ⟨z, hz, hyz⟩ := e1.cmds i y hy
    refine ⟨z, hz, ?_⟩
    rcases hxy with rfl | rfl
    · exact hyz
    · rcases hyz with rfl | rfl
      · exact Or.inr rfl
      · exact Or.inr (PExpr.replace_idem old new z)
  · intro i x hx
    obtain ⟨y, hy, hxy⟩ := e2.defs i x hx
    obtain ⟨z, hz, hyz⟩ := e1.defs i y hy
    refine ⟨z, hz, ?_⟩
    rcases hxy with rfl | rfl
    · exact hyz
    · rcases hyz with rfl | rfl
      · exact Or.inr rfl
      · exact Or.inr (renL_idem old new z)

/-! #### `old`-free items are fixed points of the renaming; renamed items are `old`-free -/

theorem ren_ne {old new : κ} (hne : new ≠ old) (k : κ) : ren old new k ≠ old := by
  unfold ren
  by_cases h : k = old
  · simp [h, hne]
  · simp [h]

theorem ren_fix {old new k : κ} (h : k ≠ old) : ren old new k = k := by simp [ren, h]

theorem map_ren_free {old new : κ} (hne : new ≠ old) (l : List κ) : old ∉ l.map (ren old new) := by
  intro hm
  obtain ⟨k, _, hk⟩ := List.mem_map.mp hm
  exact ren_ne hne k hk

theorem map_ren_fix {old new : κ} : ∀ (l : List κ), old ∉ l → l.map (ren old new) = l
  | [], _ => rfl
  | k :: rest, h => by
    have hk : k ≠ old := fun e => h (by simp [e])
    have hr : old ∉ rest := fun m => h (by simp [m])
    simp [ren_fix hk, map_ren_fix rest hr]

def Opnd.FreeOf (old : κ) : Opnd κ α → Prop
  | .cid k => k ≠ old
  | _ => True

def Node.FreeOf (old : κ) : Node κ ω α → Prop
  | .binary _ l r _ => l.FreeOf old ∧ r.FreeOf old
  | _ => True

theorem Opnd.ren_free {old new : κ} (hne : new ≠ old) (o : Opnd κ α) : (o.ren old new).FreeOf old := by
  cases o with
  | const c => trivial
  | cid k => exact ren_ne hne k
  | link m => trivial

theorem Opnd.ren_fix {old new : κ} (o : Opnd κ α) (h : o.FreeOf old) : o.ren old new = o := by
  cases o with
  | const c => rfl
  | cid k => simp only [Opnd.ren]; rw [DerivedHeap.ren_fix h]
  | link m => rfl

theorem Node.ren_free {old new : κ} (hne : new ≠ old) (nd : Node κ ω α) : (nd.ren old new).FreeOf old := by
  cases nd with
  | binary o l r f => exact ⟨Opnd.ren_free hne l, Opnd.ren_free hne r⟩
  | func f rv frm => trivial
  | parsed c f => trivial

theorem Node.ren_fix {old new : κ} (nd : Node κ ω α) (h : nd.FreeOf old) : nd.ren old new = nd := by
  cases nd with
  | binary o l r f => simp only [Node.ren]; rw [Opnd.ren_fix l h.1, Opnd.ren_fix r h.2]
  | func f rv frm => rfl
  | parsed c f => rfl

theorem PExpr.replace_free {old new : κ} (hne : new ≠ old) : ∀ (p : PExpr κ ω α),
    old ∉ (p.replace old new).refs
  | .num c => by simp [PExpr.replace, PExpr.refs]
  | .ref k => by
    simp only [PExpr.replace, PExpr.refs, List.mem_singleton]
    exact fun e => ren_ne hne k e.symm
  | .neg e => by simp only [PExpr.replace, PExpr.refs]; exact PExpr.replace_free hne e
  | .bin o l r => by
    simp only [PExpr.replace, PExpr.refs, List.mem_append, not_or]
    exact ⟨PExpr.replace_free hne l, PExpr.replace_free hne r⟩

theorem PExpr.replace_fix {old new : κ} : ∀ (p : PExpr κ ω α), old ∉ p.refs → p.replace old new = p
  | .num c, _ => rfl
  | .ref k, h => by
    simp only [PExpr.refs, List.mem_singleton] at h
    have : k ≠ old := fun e => h e.symm
    simp [PExpr.replace, this]
  | .neg e, h => by
    simp only [PExpr.replace]; rw [PExpr.replace_fix e (by simpa [PExpr.refs] using h)]
  | .bin o l r, h => by
    simp only [PExpr.refs, List.mem_append, not_or] at h
    simp only [PExpr.replace]; rw [PExpr.replace_fix l h.1, PExpr.replace_fix r h.2]

/-- Link object `x` no longer mentions `old`: not as an operand, not in its definition, not in its
`ParsedCommand` object. -/
structure FreeAt (old : κ) (h : Heap κ ω α) (x : NodeId) : Prop where
  node : ∀ nd, h.nodes[x]? = some nd → nd.FreeOf old
  defs : ∀ l, h.defIds[x]? = some l → old ∉ l
  cmd : ∀ (c : CmdId) (f : ListId) (p : PExpr κ ω α), h.nodes[x]? = some (Node.parsed c f) →
    h.cmds[c]? = some p → old ∉ p.refs

theorem Node.ren_parsed {old new : κ} {nd : Node κ ω α} {c : CmdId} {f : ListId}
    (h : Node.parsed c f = nd ∨ Node.parsed c f = nd.ren old new) : nd = Node.parsed c f := by
  cases nd with
  | binary o l r g => rcases h with h | h <;> cases h
  | func g rv frm => rcases h with h | h <;> cases h
  | parsed c' f' => rcases h with h | h <;> exact h.symm

/-- Further renaming never brings `old` back. -/
theorem FreeAt.mono {old new : κ} {h h' : Heap κ ω α} (e : E old new h h') {x : NodeId}
    (hf : FreeAt old h x) : FreeAt old h' x := by
  refine ⟨?_, ?_, ?_⟩
  · intro nd' hn'
    obtain ⟨nd, hn, hor⟩ := e.nodes x nd' hn'
    have := hf.node nd hn
    rcases hor with rfl | rfl
    · exact this
    · rw [Node.ren_fix nd this]; exact this
  · intro l' hl'
    obtain ⟨l, hl, hor⟩ := e.defs x l' hl'
    have := hf.defs l hl
    rcases hor with rfl | rfl
    · exact this
    · rw [map_ren_fix l this]; exact this
  · intro c f p' hn' hp'
    obtain ⟨nd, hn, hor⟩ := e.nodes x _ hn'
    have hnd := Node.ren_parsed hor
    subst hnd
    obtain ⟨p, hp, hor2⟩ := e.cmds c p' hp'
    have := hf.cmd c f p hn hp
    rcases hor2 with rfl | rfl
    · exact this
    · rw [PExpr.replace_fix p this]; exact this

/-- An `old`-free object of a heap obtained by renaming **is** the renamed original: operands,
definition and (for a parsed link) the command object. -/
theorem FreeAt.char {old new : κ} {h h' : Heap κ ω α} (e : E old new h h') {x : NodeId}
    (hf : FreeAt old h' x) :
    h'.nodes[x]? = (h.nodes[x]?).map (Node.ren old new) ∧
    h'.defIds[x]? = (h.defIds[x]?).map (List.map (ren old new)) ∧
    ∀ (c : CmdId) (f : ListId), h.nodes[x]? = some (Node.parsed c f) →
      h'.cmds[c]? = (h.cmds[c]?).map (PExpr.replace old new) := by
  have hnodes : h'.nodes[x]? = (h.nodes[x]?).map (Node.ren old new) := by
    cases hn' : h'.nodes[x]? with
    | none =>
      have : h.nodes[x]? = none := by
        apply List.getElem?_eq_none
        rw [← e.ln]
        exact Nat.le_of_not_lt fun hlt => by
          rw [List.getElem?_eq_getElem hlt] at hn'; cases hn'
      rw [this]; rfl
    | some nd' =>
      obtain ⟨nd, hn, hor⟩ := e.nodes x nd' hn'
      rw [hn]
      rcases hor with rfl | rfl
      · simp only [Option.map_some]
        rw [Node.ren_fix _ (hf.node _ hn')]
      · rfl
  refine ⟨hnodes, ?_, ?_⟩
  · cases hl' : h'.defIds[x]? with
    | none =>
      have : h.defIds[x]? = none := by
        apply List.getElem?_eq_none
        rw [← e.ld]
        exact Nat.le_of_not_lt fun hlt => by
          rw [List.getElem?_eq_getElem hlt] at hl'; cases hl'
      rw [this]; rfl
    | some l' =>
      obtain ⟨l, hl, hor⟩ := e.defs x l' hl'
      rw [hl]
      rcases hor with rfl | rfl
      · simp only [Option.map_some]
        rw [map_ren_fix _ (hf.defs _ hl')]
      · rfl
  · intro c f hn
    have hn' : h'.nodes[x]? = some (Node.parsed c f) := by rw [hnodes, hn]; rfl
    cases hp' : h'.cmds[c]? with
    | none =>
      have : h.cmds[c]? = none := by
        apply List.getElem?_eq_none
        rw [← e.lc]
        exact Nat.le_of_not_lt fun hlt => by
          rw [List.getElem?_eq_getElem hlt] at hp'; cases hp'
      rw [this]; rfl
    | some p' =>
      obtain ⟨p, hp, hor⟩ := e.cmds c p' hp'
      rw [hp]
      rcases hor with rfl | rfl
      · simp only [Option.map_some]
        rw [PExpr.replace_fix _ (hf.cmd c f _ hn' hp')]
      · rfl

/-! #### reachability between link objects -/

def Opnd.links : Opnd κ α → List NodeId
  | .link m => [m]
  | _ => []

def Node.links : Node κ ω α → List NodeId
  | .binary _ l r _ => l.links ++ r.links
  | _ => []

/-- `x` is `n` or an operand (of an operand …) of link object `n`. -/
inductive HReach (h : Heap κ ω α) : NodeId → NodeId → Prop
  | refl (n : NodeId) : HReach h n n
  | step {n m x : NodeId} {nd : Node κ ω α} :
      h.nodes[n]? = some nd → m ∈ nd.links → HReach h m x → HReach h n x

theorem Node.ren_links (old new : κ) (nd : Node κ ω α) : (nd.ren old new).links = nd.links := by
  cases nd with
  | binary o l r f =>
    simp only [Node.ren, Node.links]
    cases l <;> cases r <;> rfl
  | func f rv frm => rfl
  | parsed c f => rfl

theorem E.node_fwd {old new : κ} {h0 h : Heap κ ω α} (e : E old new h0 h) {i : Nat}
    {nd0 : Node κ ω α} (h0n : h0.nodes[i]? = some nd0) :
    ∃ nd, h.nodes[i]? = some nd ∧ (nd = nd0 ∨ nd = nd0.ren old new) := by
  have hlt : i < h.nodes.length := by
    rw [e.ln]; exact (List.getElem?_eq_some_iff.mp h0n).1
  obtain ⟨nd0', h0n', hor⟩ := e.nodes i _ (List.getElem?_eq_getElem hlt)
  rw [h0n] at h0n'
  cases h0n'
  exact ⟨_, List.getElem?_eq_getElem hlt, hor⟩

theorem HReach.of_E {old new : κ} {h0 h : Heap κ ω α} (e : E old new h0 h) {n x : NodeId}
    (r : HReach h0 n x) : HReach h n x := by
  induction r with
  | refl n => exact .refl n
  | step hn hm _ ih =>
    obtain ⟨nd, hnd, hor⟩ := e.node_fwd hn
    refine .step hnd ?_ ih
    rcases hor with rfl | rfl
    · exact hm
    · rw [Node.ren_links]; exact hm

theorem HReach.tail {h : Heap κ ω α} {n x m : NodeId} {nd : Node κ ω α} (r : HReach h n x)
    (hx : h.nodes[x]? = some nd) (hm : m ∈ nd.links) : HReach h n m := by
  induction r with
  | refl _ => exact .step hx hm (.refl m)
  | step hn' hm' _ ih => exact .step hn' hm' (ih hx)

/-- **`replace_ids` reaches everything**: after `link.replace_ids(old, new)` on a well-formed
(acyclic) heap, the object and every object reachable from it through operands are `old`-free —
however the objects are shared and however often each was visited. -/
theorem replaceIds_free (old new : κ) (hne : new ≠ old) : ∀ (fuel : Nat) (h : Heap κ ω α) (n : NodeId),
    h.WF → n < fuel → ∀ x, HReach h n x → FreeAt old (replaceIds old new fuel h n) x
  | 0, _, _, _, hlt, _, _ => absurd hlt (Nat.not_lt_zero _)
  | fuel + 1, h, n, hw, hlt, x, hr => by
    simp only [replaceIds]
    cases hn : h.nodes[n]? with
    | none =>
      -- no such object: nothing is reachable but `n` itself, about which nothing is claimed
      cases hr with
      | refl _ =>
        refine ⟨?_, ?_, ?_⟩
        · intro nd h'
          rw [hn] at h'; cases h'
        · intro l hl
          have : h.defIds[n]? = none := by
            apply List.getElem?_eq_none
            rw [hw.defLen]
            exact Nat.le_of_not_lt fun hlt' => by
              rw [List.getElem?_eq_getElem hlt'] at hn; cases hn
          rw [this] at hl; cases hl
        · intro c f p h'
          rw [hn] at h'; cases h'
      | step hn' _ _ => rw [hn] at hn'; cases hn'
    | some nd =>
      have e0 : E old new h ((h.renList nd.frm old new).renDef n old new) :=
        ((E.refl old new h).renList nd.frm).renDef n
      -- the definition of `n` is renamed first
      have hdef0 : ∀ l, ((h.renList nd.frm old new).renDef n old new).defIds[n]? = some l → old ∉ l := by
        intro l hl
        obtain ⟨l0, _, hy⟩ := modify_some _ _ _ _ _ hl
        simp only [if_true] at hy
        rw [hy]; exact map_ren_free hne l0
      cases nd with
      | func f rv frm =>
        cases hr with
        | refl _ =>
          refine ⟨?_, hdef0, ?_⟩
          · intro nd' h'
            have h'' : h.nodes[n]? = some nd' := h'
            rw [hn] at h''
            rw [← Option.some.inj h'']; trivial
          · intro c g p h'
            have h'' : h.nodes[n]? = some (Node.parsed c g) := h'
            rw [hn] at h''; cases h''
        | step hn' hm _ => rw [hn] at hn'; cases hn'; simp [Node.links] at hm
      | parsed c frm =>
        cases hr with
        | refl _ =>
          refine ⟨fun nd' h' => ?_, fun l hl => hdef0 l hl, fun c' g p h' hp => ?_⟩
          · have h'' : h.nodes[n]? = some nd' := h'
            rw [hn] at h''
            rw [← Option.some.inj h'']; trivial
          · have h'' : h.nodes[n]? = some (Node.parsed c' g) := h'
            rw [hn] at h''
            cases h''
            obtain ⟨p0, _, hy⟩ := modify_some _ _ _ _ _ hp
            simp only [if_true] at hy
            rw [hy]; exact PExpr.replace_free hne p0
        | step hn' hm _ => rw [hn] at hn'; cases hn'; simp [Node.links] at hm
      | binary o l r frm =>
        simp only [Node.frm] at e0 hdef0
        simp only
        have hok := hw.ok n _ hn
        have hrec : ∀ (h' : Heap κ ω α) (o' : Opnd κ α), E old new h h' → o'.Ok n →
            E old new h' (replaceOp (replaceIds old new fuel) h' o') ∧
            ∀ m ∈ o'.links, ∀ y, HReach h m y →
              FreeAt old (replaceOp (replaceIds old new fuel) h' o') y := by
          intro h' o' e' hk
          cases o' with
          | const c => exact ⟨E.refl old new h', fun m hm => by simp [Opnd.links] at hm⟩
          | cid k => exact ⟨E.refl old new h', fun m hm => by simp [Opnd.links] at hm⟩
          | link m' =>
            refine ⟨replaceIds_E old new h' fuel h' m' (E.refl old new h'), ?_⟩
            intro m hm y hy
            simp only [Opnd.links, List.mem_singleton] at hm
            subst hm
            have hmlt : m < fuel := Nat.lt_of_lt_of_le hk (Nat.le_of_lt_succ hlt)
            exact replaceIds_free old new hne fuel h' m (e'.wf hw) hmlt y (HReach.of_E e' hy)
        obtain ⟨e1, f1⟩ := hrec _ l e0 hok.1
        have e01 := e0.trans e1
        obtain ⟨e2, f2⟩ := hrec _ r e01 hok.2.1
        have e02 := e01.trans e2
        generalize replaceOp (replaceIds old new fuel)
          (replaceOp (replaceIds old new fuel) ((h.renList frm old new).renDef n old new) l) r = h2
          at e2 f2 e02
        generalize replaceOp (replaceIds old new fuel) ((h.renList frm old new).renDef n old new) l = h1
          at e1 f1 e01 e2
        -- the final rebinding of the operands of `n`
        obtain ⟨nd2, hn2, hor2⟩ := e02.node_fwd hn
        have e23 : E old new h2 (h2.setNode n (.binary o (l.ren old new) (r.ren old new) frm)) := by
          refine (E.refl old new h2).setNode n _ nd2 hn2 ?_
          have : Node.binary o (l.ren old new) (r.ren old new) frm = (Node.binary o l r frm).ren old new := rfl
          rw [this]
          rcases hor2 with rfl | rfl
          · exact Or.inr rfl
          · exact Or.inl rfl
        cases hr with
        | refl _ =>
          have hlt2 : n < h2.nodes.length := (List.getElem?_eq_some_iff.mp hn2).1
          refine ⟨fun nd' h' => ?_, fun l' hl' => ?_, fun c g p h' => ?_⟩
          · simp only [Heap.setNode, List.getElem?_set, if_true, hlt2, Option.some.injEq] at h'
            rw [← h']
            exact ⟨Opnd.ren_free hne l, Opnd.ren_free hne r⟩
          · have hl2 : h2.defIds[n]? = some l' := hl'
            obtain ⟨l0, hl0, hor⟩ := (e1.trans e2).defs n l' hl2
            have hf0 := hdef0 l0 hl0
            rcases hor with rfl | rfl
            · exact hf0
            · rw [map_ren_fix l0 hf0]; exact hf0
          · simp only [Heap.setNode, List.getElem?_set, if_true, hlt2, Option.some.injEq] at h'
            cases h'
        | step hn' hm hy =>
          rw [hn] at hn'
          cases hn'
          simp only [Node.links, List.mem_append] at hm
          rcases hm with hm | hm
          · exact ((f1 _ hm x hy).mono e2).mono e23
          · exact (f2 _ hm x hy).mono e23

end free

/-! #### `Data.update_id` on the whole data set -/

section update
variable {κ ω α : Type} [DecidableEq κ]

/-- The pointers of the component table name existing link objects. -/
def PtrValid (s : State κ ω α) : Prop :=
  ∀ p ∈ s.t, ∀ n, nodeOf p.2 = some n → n < s.h.nodes.length

def replStep (old new : κ) (h : Heap κ ω α) (p : κ × Comp κ NodeId α) : Heap κ ω α :=
  match nodeOf p.2 with
  | some n => replaceIds old new h.fuel h n
  | none => h

/-- The loop `for component in self._components.values(): component.link.replace_ids(old, new)`:
afterwards every link object reachable from a pointer of the table is `old`-free, and the heap is
the original one with some items renamed. -/
theorem foldRepl_spec (old new : κ) (hne : new ≠ old) (h0 : Heap κ ω α) (hw : h0.WF) :
    ∀ (es : List (κ × Comp κ NodeId α)) (h : Heap κ ω α), E old new h0 h →
    (∀ p ∈ es, ∀ n, nodeOf p.2 = some n → n < h0.nodes.length) →
    E old new h0 (es.foldl (replStep old new) h) ∧
    (∀ y, FreeAt old h y → FreeAt old (es.foldl (replStep old new) h) y) ∧
    ∀ p ∈ es, ∀ n, nodeOf p.2 = some n → ∀ x, HReach h0 n x →
      FreeAt old (es.foldl (replStep old new) h) x
  | [], h, e, _ => ⟨e, fun _ hf => hf, fun p hp => by simp at hp⟩
  | p :: es, h, e, hv => by
    simp only [List.foldl_cons]
    have e1 : E old new h (replStep old new h p) := by
      unfold replStep
      cases hn : nodeOf p.2 with
      | none => exact E.refl old new h
      | some n => exact replaceIds_E old new h _ h n (E.refl old new h)
    obtain ⟨e', mono', free'⟩ := foldRepl_spec old new hne h0 hw es _ (e.trans e1)
      (fun q hq => hv q (List.mem_cons_of_mem _ hq))
    refine ⟨e', fun y hf => mono' y (hf.mono e1), ?_⟩
    intro q hq n hn x hr
    rcases List.mem_cons.mp hq with rfl | hq
    · apply mono'
      have hlt : n < h.fuel := by
        have hq0 : n < h0.nodes.length := hv q (List.mem_cons_self ..) n hn
        have hln : h.nodes.length = h0.nodes.length := e.ln
        show n < h.nodes.length + 1
        rw [hln]
        exact Nat.lt_succ_of_lt hq0
      have := replaceIds_free old new hne h.fuel h n (e.wf hw) hlt x (HReach.of_E e hr)
      simpa [replStep, hn] using this
    · exact free' q hq n hn x hr

def renT (old new : κ) : Tgt κ → Tgt κ
  | .inl k => .inl (ren old new k)
  | .inr n => .inr n

/-- What evaluating a component of the data set can reach. -/
def Good (s : State κ ω α) : Tgt κ → Prop
  | .inl _ => True
  | .inr x => ∃ p ∈ s.t, ∃ n, nodeOf p.2 = some n ∧ HReach s.h n x

theorem rename_ptr (old new : κ) (c : Comp κ NodeId α)
    (hc : (∃ a co, c = Comp.prim a co) ∨ (∃ n, c = ptr n)) : c.rename old new = c := by
  rcases hc with ⟨a, co, rfl⟩ | ⟨n, rfl⟩
  · rfl
  · simp [ptr, Comp.rename, Link.replace]

/-- The table part of `update_id` on a pointer table is the renaming of the key. -/
theorem updateId_false_ptr (t : HTable κ α) (old new : κ) (hne : new ≠ old) (hold : old ∈ t.keys)
    (hnew : new ∉ t.keys) (hnd : t.keys.Nodup) (hp : PtrTable t) :
    updateId false t old new = specRename old new t := by
  have hc : t.keys.contains old = true := by simpa using hold
  simp only [updateId, hne, if_false, hc, if_true]
  rw [ofPairs_nodup _ (rename_keys_nodup old new t hnd hnew)]
  simp only [specRename]
  apply List.map_congr_left
  intro p hm
  rw [rename_ptr old new p.2 (hp p hm)]
  by_cases h1 : p.1 = old <;> simp [h1]

theorem find_mem : ∀ (t : HTable κ α) (k : κ) (c : Comp κ NodeId α), t.find k = some c → (k, c) ∈ t
  | [], _, _, h => by simp [Table.find] at h
  | (k', c') :: rest, k, c, h => by
    simp only [Table.find] at h
    by_cases hk : k' = k
    · simp only [hk, if_true, Option.some.injEq] at h
      rw [hk, h]; exact List.mem_cons_self ..
    · simp only [hk, if_false] at h
      exact List.mem_cons_of_mem _ (find_mem rest k c h)

/-- **`update_id` keeps every value, also through shared link objects.**  On a data set whose
heap is well formed, with unique identifiers and a pointer table, after the accepted call
`update_id(old, new)` (`new` not in use) — the loop over the derived components rewriting link
objects *in place*, an object shared by several expressions being visited once per path — whatever
value a component (`.inl k`) or a link object the data set can reach (`.inr x`) had at a data
index, the renamed component / the same object has afterwards. -/
theorem updateIdH_values (I : Interp ω α) (s : State κ ω α) (old new : κ) (hne : new ≠ old)
    (hold : old ∈ s.t.keys) (hnew : new ∉ s.t.keys) (hnd : s.t.keys.Nodup) (hp : PtrTable s.t)
    (hw : s.h.WF) (hv : PtrValid s) (idx : List Int) :
    ∀ (fuel : Nat) (tgt : Tgt κ) (v : α), Good s tgt → specH I fuel s idx tgt = some v →
      specH I fuel (updateIdH s old new) idx (renT old new tgt) = some v := by
  have hc : s.t.keys.contains old = true := by simpa using hold
  have ht1 : updateId false s.t old new = specRename old new s.t :=
    updateId_false_ptr s.t old new hne hold hnew hnd hp
  -- the state after the call
  have hs' : updateIdH s old new =
      ⟨(specRename old new s.t).foldl (replStep old new) s.h, specRename old new s.t⟩ := by
    simp only [updateIdH, hne, if_false, hc, if_true, ht1]
    rfl
  rw [hs']
  -- pointers of the renamed table are the pointers of the table
  have hvalid : ∀ p ∈ specRename old new s.t, ∀ n, nodeOf p.2 = some n → n < s.h.nodes.length := by
    intro p hm n hn
    simp only [specRename, List.mem_map] at hm
    obtain ⟨q, hq, rfl⟩ := hm
    simp only [rename_ptr old new q.2 (hp q hq)] at hn
    exact hv q hq n hn
  obtain ⟨e', _, free'⟩ := foldRepl_spec old new hne s.h hw (specRename old new s.t) s.h
    (E.refl old new s.h) hvalid
  generalize (specRename old new s.t).foldl (replStep old new) s.h = h' at e' free'
  have hfree : ∀ x, Good s (.inr x) → FreeAt old h' x := by
    intro x ⟨q, hq, n, hn, hr⟩
    refine free' (if q.1 = old then new else q.1, q.2.rename old new) ?_ n ?_ x hr
    · simp only [specRename, List.mem_map]; exact ⟨q, hq, rfl⟩
    · simp only [rename_ptr old new q.2 (hp q hq)]; exact hn
  intro fuel
  induction fuel with
  | zero => intro tgt v _ h; simp [specH] at h
  | succ fuel ih =>
    intro tgt v hg h
    have ihk : ∀ k u, specH I fuel s idx (.inl k) = some u →
        specH I fuel ⟨h', specRename old new s.t⟩ idx (.inl (if k = old then new else k)) = some u :=
      fun k u hu => ih (.inl k) u trivial hu
    cases tgt with
    | inl k =>
      simp only [specH] at h
      cases hf : s.t.find k with
      | none => simp [hf] at h
      | some c =>
        have hmem := find_mem s.t k c hf
        have hfr := find_specRename old new s.t k c hnew hf
        rw [rename_ptr old new c (hp (k, c) hmem)] at hfr
        simp only [renT, ren, specH, hfr]
        rcases hp (k, c) hmem with ⟨a, co, rfl⟩ | ⟨n, rfl⟩
        · simpa [hf] using h
        · simp only [hf, ptr] at h
          simp only [ptr]
          exact ih (.inr n) v ⟨(k, ptr n), hmem, n, rfl, .refl n⟩ h
    | inr x =>
      obtain ⟨hnode, hdefs, hcmd⟩ := (hfree x hg).char e'
      simp only [specH] at h
      simp only [renT, specH, hnode]
      cases hn : s.h.nodes[x]? with
      | none => simp [hn] at h
      | some nd =>
        obtain ⟨q, hq, n, hqn, hr⟩ := hg
        have hgood : ∀ m ∈ nd.links, Good s (.inr m) :=
          fun m hm => ⟨q, hq, n, hqn, hr.tail hn hm⟩
        have hop : ∀ (o' : Opnd κ α) (u : α), (∀ m ∈ o'.links, Good s (.inr m)) →
            specOp (specH I fuel s idx) o' = some u →
            specOp (specH I fuel ⟨h', specRename old new s.t⟩ idx) (o'.ren old new) = some u := by
          intro o' u hg' hu
          cases o' with
          | const c => exact hu
          | cid k => exact ihk k u hu
          | link m => exact ih (.inr m) u (hg' m (by simp [Opnd.links])) hu
        simp only [hn] at h
        simp only [hn, Option.map_some]
        cases nd with
        | binary o l r frm =>
          simp only at h
          simp only [Node.ren]
          cases hl : specOp (specH I fuel s idx) l with
          | none => simp [hl] at h
          | some a =>
            cases hr' : specOp (specH I fuel s idx) r with
            | none => simp [hl, hr'] at h
            | some b =>
              rw [hop l a (fun m hm => hgood m (by simp [Node.links, hm])) hl,
                hop r b (fun m hm => hgood m (by simp [Node.links, hm])) hr']
              simpa [hl, hr'] using h
        | func f rv frm =>
          simp only at h
          simp only [Node.ren, hdefs]
          cases hd : s.h.defIds[x]? with
          | none => simp [hd] at h
          | some fs =>
            simp only [hd] at h
            simp only [Option.map_some]
            cases hm : mapM' (fun k => specH I fuel s idx (.inl k)) fs with
            | none => simp [hm] at h
            | some us =>
              have := mapM'_rename old new (fun k => specH I fuel s idx (.inl k))
                (fun k => specH I fuel ⟨h', specRename old new s.t⟩ idx (.inl k)) ihk fs us hm
              unfold ren
              rw [this]
              simpa [hm] using h
        | parsed c frm =>
          simp only at h
          simp only [Node.ren, hcmd c frm hn]
          cases hpc : s.h.cmds[c]? with
          | none => simp [hpc] at h
          | some p =>
            simp only [hpc] at h
            simp only [Option.map_some]
            exact PExpr.evalPt_replace I.opf I.negf old new _ _ ihk p v h


/-- The invariant (well-formedness, one list object per link object, coherence) survives the loop
of `update_id` — whatever the table holds. -/
theorem foldRepl_inv (old new : κ) (h0 : Heap κ ω α) (hi : h0.Inv) :
    ∀ (es : List (κ × Comp κ NodeId α)) (h : Heap κ ω α), E old new h0 h → h.Coherent →
    E old new h0 (es.foldl (replStep old new) h) ∧ (es.foldl (replStep old new) h).Coherent
  | [], h, e, hc => ⟨e, hc⟩
  | p :: es, h, e, hc => by
    simp only [List.foldl_cons]
    have step : E old new h0 (replStep old new h p) ∧ (replStep old new h p).Coherent := by
      unfold replStep
      cases hn : nodeOf p.2 with
      | none => exact ⟨e, hc⟩
      | some n =>
        exact ⟨replaceIds_E old new h0 _ h n e, replaceIds_coh old new h0 hi.own _ h n e hc⟩
    exact foldRepl_inv old new h0 hi es _ step.1 step.2

/-- **Every call keeps the heap invariant**: `add_component`, `add_component_link` and
`remove_component` do not touch link objects at all; `update_id` rewrites them in place and keeps
well-formedness, "one list object per link object" (no aliasing) and coherence. -/
theorem implCallH_inv (s s' : State κ ω α) (c : HCall κ α) (hi : s.h.Inv)
    (hc : implCallH s c = some s') : s'.h.Inv := by
  cases c with
  | addS k a =>
    simp only [implCallH] at hc
    cases h1 : addComp s.t k (.prim a false) with
    | none => simp [h1] at hc
    | some t => simp only [h1, Option.map_some, Option.some.injEq] at hc; rw [← hc]; exact hi
  | add k n =>
    simp only [implCallH] at hc
    split at hc
    · cases h1 : addComp s.t k (ptr n) with
      | none => simp [h1] at hc
      | some t => simp only [h1, Option.map_some, Option.some.injEq] at hc; rw [← hc]; exact hi
    · cases hc
  | addRaw k n =>
    simp only [implCallH] at hc
    cases h1 : addComp s.t k (ptr n) with
    | none => simp [h1] at hc
    | some t => simp only [h1, Option.map_some, Option.some.injEq] at hc; rw [← hc]; exact hi
  | remove k =>
    simp only [implCallH] at hc
    cases h1 : s.t.find k with
    | none => simp only [h1, Option.some.injEq] at hc; rw [← hc]; exact hi
    | some c' =>
      simp only [h1] at hc
      split at hc
      · cases hc
      · simp only [Option.some.injEq] at hc; rw [← hc]; exact hi
  | update o n =>
    simp only [implCallH] at hc
    split at hc
    · simp only [Option.some.injEq] at hc; rw [← hc]; exact hi
    · split at hc
      · cases hc
      · simp only [Option.some.injEq] at hc
        rw [← hc]
        unfold updateIdH
        split
        · exact hi
        · split
          · obtain ⟨e, hcoh⟩ := foldRepl_inv o n s.h hi (updateId false s.t o n) s.h
              (E.refl o n s.h) hi.coh
            exact ⟨e.wf hi.wf, e.own hi.own, hcoh⟩
          · exact hi


/-! #### visiting a shared object a second time changes nothing -/

theorem modify_self {β : Type} (l : List β) (i : Nat) (f : β → β)
    (h : ∀ x, l[i]? = some x → f x = x) : l.modify i f = l := by
  apply List.ext_getElem?
  intro j
  rw [List.getElem?_modify]
  cases hj : l[j]? with
  | none => rfl
  | some x =>
    by_cases hij : i = j
    · subst hij; simp [h x hj]
    · simp [hij]

theorem set_self {β : Type} (l : List β) (i : Nat) (x : β) (h : l[i]? = some x) : l.set i x = l := by
  apply List.ext_getElem?
  intro j
  rw [List.getElem?_set]
  by_cases hij : i = j
  · subst hij
    have hlt : i < l.length := (List.getElem?_eq_some_iff.mp h).1
    simp only [if_true, hlt]
    exact h.symm
  · simp [hij]

/-- On objects that are already `old`-free (cells included, by coherence) `replace_ids` is the
identity. -/
theorem replaceIds_noop (old new : κ) : ∀ (fuel : Nat) (h : Heap κ ω α) (n : NodeId),
    h.Coherent → (∀ x, HReach h n x → FreeAt old h x) → replaceIds old new fuel h n = h
  | 0, _, _, _, _ => rfl
  | fuel + 1, h, n, hc, hf => by
    simp only [replaceIds]
    cases hn : h.nodes[n]? with
    | none => rfl
    | some nd =>
      obtain ⟨ids, hcell, hdef⟩ := hc n nd hn
      have hfn := hf n (.refl n)
      have hidsfree : old ∉ ids := hfn.defs ids hdef
      have h0 : (h.renList nd.frm old new).renDef n old new = h := by
        have e1 : h.lists.modify nd.frm (·.map (ren old new)) = h.lists :=
          modify_self _ _ _ (fun x hx => by
            rw [hcell] at hx; cases hx; exact map_ren_fix ids hidsfree)
        have e2 : h.defIds.modify n (·.map (ren old new)) = h.defIds :=
          modify_self _ _ _ (fun x hx => by
            rw [hdef] at hx; cases hx; exact map_ren_fix ids hidsfree)
        simp only [Heap.renList, Heap.renDef, e1, e2]
      cases nd with
      | func f rv frm => exact h0
      | parsed c frm =>
        simp only [Node.frm] at h0
        simp only
        rw [h0]
        have e3 : h.cmds.modify c (·.replace old new) = h.cmds :=
          modify_self _ _ _ (fun p hp => PExpr.replace_fix p (hfn.cmd c frm p hn hp))
        simp only [Heap.renCmd, e3]
      | binary o l r frm =>
        simp only [Node.frm] at h0
        simp only
        rw [h0]
        have hop : ∀ (o' : Opnd κ α), (∀ m ∈ o'.links, m ∈ (Node.binary o l r frm).links) →
            replaceOp (replaceIds old new fuel) h o' = h := by
          intro o' hsub
          cases o' with
          | const c => rfl
          | cid k => rfl
          | link m =>
            exact replaceIds_noop old new fuel h m hc
              (fun x hx => hf x (.step hn (hsub m (by simp [Opnd.links])) hx))
        rw [hop l (fun m hm => by simp [Node.links, hm]), hop r (fun m hm => by simp [Node.links, hm])]
        have hfree := hfn.node _ hn
        have : Node.binary o (l.ren old new) (r.ren old new) frm = Node.binary o l r frm := by
          rw [Opnd.ren_fix l hfree.1, Opnd.ren_fix r hfree.2]
        rw [this]
        simp only [Heap.setNode, set_self _ _ _ hn]

/-- **`replace_ids` applied twice is `replace_ids` applied once**: a link object that is shared —
the operand of several expressions, or backing several derived attributes — is visited once per
path by `update_id`; every visit after the first leaves the whole heap as it is. -/
theorem replaceIds_twice (old new : κ) (hne : new ≠ old) (fuel : Nat) (h : Heap κ ω α) (n : NodeId)
    (hi : h.Inv) (hlt : n < fuel) :
    replaceIds old new fuel (replaceIds old new fuel h n) n = replaceIds old new fuel h n := by
  have e := replaceIds_E old new h fuel h n (E.refl old new h)
  apply replaceIds_noop old new fuel _ n
    (replaceIds_coh old new h hi.own fuel h n (E.refl old new h) hi.coh)
  intro x hx
  -- reachability in the rewritten heap is reachability in the original heap
  have hback : ∀ {a b : NodeId}, HReach (replaceIds old new fuel h n) a b → HReach h a b := by
    intro a b r
    induction r with
    | refl _ => exact .refl _
    | step hn' hm _ ih =>
      obtain ⟨nd0, h0n, hor⟩ := e.nodes _ _ hn'
      refine .step h0n ?_ ih
      rcases hor with rfl | rfl
      · exact hm
      · rw [Node.ren_links] at hm; exact hm
  exact replaceIds_free old new hne fuel h n hi.wf hlt x (hback hx)

end update

end GlueVerif.DerivedHeap
