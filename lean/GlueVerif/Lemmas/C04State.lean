import GlueVerif.Lemmas.C04Attr
import GlueVerif.Lemmas.C04Slice
/-!
# C04 — every selection class: `to_mask(data, view)` is the gather of the membership test
-/
namespace GlueVerif.Lemmas.C04
open GlueVerif.ArrayUtil GlueVerif.C04
open GlueVerif.Coords (Sel selOf selsOf selShape ViewErr)

theorem selShape_cons_many (ks : List Nat) (rest : List Sel) :
    selShape (Sel.many ks :: rest) = ks.length :: selShape rest := rfl

/-- `a[slice(None)]` is `a` for an array with at least one axis. -/
theorem viewPoints_fullSlice (sh : List Nat) (hne : sh.isEmpty = false) :
    viewPoints sh (.basic [.slice none none none]) = .ok (sh, allIdx sh) := by
  cases sh with
  | nil => simp at hne
  | cons h hs =>
    simp only [viewPoints, selsOf, selOf_fullSlice, selsOf_nil, bind, Except.bind, pure, Except.pure,
      selShape_cons_many, selShape_fullSels, List.length_range, List.map_cons, Sel.toList,
      map_toList_fullSels]
    rfl

theorem gather_noneToSlice {α : Type} (sh : List Nat) (hne : sh.isEmpty = false) (f : List Nat → α)
    (v : View) : gather sh f (Impl.noneToSlice v) = gather sh f v := by
  cases v with
  | none =>
    unfold Impl.noneToSlice gather
    rw [viewPoints_fullSlice sh hne]
    rfl
  | ellipsis => rfl
  | basic items => rfl
  | arrays s items => rfl
  | mask m => rfl

theorem elementFull_eq (sh : List Nat) (inds : List Int) :
    Impl.elementFull sh inds = tabulate sh (Spec.holds sh (.element inds)) := by
  unfold Impl.elementFull tabulate
  congr 1
  rw [← map_flat_allIdx sh, List.map_map]
  rfl

/-- Re-ordered positive-step slices are positive-step slices (a missing entry is `slice(None)`). -/
theorem reorderSlices_pos (order : List Nat) (sls : List ViewItem)
    (hp : sls.all Spec.posSliceEntry = true) : (reorderSlices order sls).all Spec.posSliceEntry = true := by
  simp only [reorderSlices, List.all_map, List.all_eq_true, Function.comp_def]
  intro m _
  simp only [List.getD]
  cases hm : sls[m]? with
  | none => rfl
  | some it =>
    simp only [Option.getD_some]
    exact (List.all_eq_true.mp hp) it (List.mem_of_getElem? hm)

/-- The coordinates of the matching point of the other dataset along the axes `ks`. -/
theorem map_otherCoord (links : List (Option Nat)) (idx : List Nat) (ks : List Nat)
    (h : ks.all (fun k => links.contains (some k)) = true) :
    (ks.map fun k => idx.getD (axisOf links k) 0) = ks.map fun k => otherCoord links idx k := by
  apply List.map_congr_left
  intro k hk
  exact (otherCoord_eq_getD_axisOf links idx k ((List.all_eq_true.mp h) k hk)).symm

/-- `state.to_mask(data, view)` is the gather of the selection's membership test, for every
selection class (and every Boolean combination), every shape and every positive-step view. -/
theorem mask_gather (sh : List Nat) (v : View) (hv : v.posStep = true) : ∀ st : State,
    Spec.stateWf sh st = true →
    Impl.mask sh st v = gather sh (Spec.holds sh st) v
  | .base, _ => rfl
  | .unrelated, _ => rfl
  | .table f, _ => rfl
  | .pred a p, hw => by
    simp only [Spec.stateWf] at hw
    simp only [Impl.mask, Spec.holds, attr_gather sh a hw v]
    exact (gather_comp sh (Spec.attrAt sh a) p v).symm
  | .pred2 a b p, hw => by
    simp only [Spec.stateWf, Bool.and_eq_true] at hw
    simp only [Impl.mask, Spec.holds, attr_gather sh a hw.1 v, attr_gather sh b hw.2 v]
    exact (gather_zip sh (Spec.attrAt sh a) (Spec.attrAt sh b) p v).symm
  | .predN as p, hw => by
    simp only [Spec.stateWf] at hw
    simp only [Impl.mask, Spec.holds, attrsN_gather sh as hw v]
    exact (gather_comp sh (fun idx => as.map fun a => Spec.attrAt sh a idx) p v).symm
  | .sliceOf order sls, hw => by
    simp only [Spec.stateWf, Bool.and_eq_true, beq_iff_eq] at hw
    simp only [Impl.mask, Spec.holds]
    exact sliceMask_gather sh (reorderSlices order sls) v (by simp [reorderSlices, hw.1])
      (reorderSlices_pos order sls hw.2) hv
  | .maskOf links ks msh m, hw => by
    simp only [Spec.stateWf, Bool.and_eq_true, Bool.not_eq_true'] at hw
    simp only [Impl.mask, Spec.holds]
    rw [gather_noneToSlice sh hw.2 _ v]
    congr 1
    funext idx
    rw [map_otherCoord links idx ks hw.1]
  | .roiPix axes roi, _ => by
    simp only [Impl.mask, Spec.holds]
    exact roiPix_gather sh axes roi v
  | .roiChunked axes roi, _ => by
    simp only [Impl.mask, Spec.holds]
    exact roiPix_gather sh axes roi v
  | .loop1d _ f, _ => rfl
  | .sliceSt sls, hw => by
    simp only [Spec.stateWf, Bool.and_eq_true, beq_iff_eq] at hw
    simp only [Impl.mask, Spec.holds]
    exact sliceMask_gather sh sls v hw.1 hw.2 hv
  | .maskSame m, hw => by
    simp only [Spec.stateWf, Bool.and_eq_true, Bool.not_eq_true'] at hw
    simp only [Impl.mask, Spec.holds]
    exact gather_noneToSlice sh hw.2 _ v
  | .maskAxes axes msh m, hw => by
    simp only [Spec.stateWf, Bool.not_eq_true'] at hw
    simp only [Impl.mask, Spec.holds]
    exact gather_noneToSlice sh hw _ v
  | .element inds, hw => by
    simp only [Spec.stateWf] at hw
    simp only [Impl.mask, hw, if_true, elementFull_eq]
    cases v with
    | none => rfl
    | ellipsis => exact index_tabulate sh _ _
    | basic items => exact index_tabulate sh _ _
    | arrays s items => exact index_tabulate sh _ _
    | mask m => exact index_tabulate sh _ _
  | .and a b, hw => by
    simp only [Spec.stateWf, Bool.and_eq_true] at hw
    simp only [Impl.mask, Spec.holds, mask_gather sh v hv a hw.1, mask_gather sh v hv b hw.2]
    exact (gather_zip sh _ _ (· && ·) v).symm
  | .or a b, hw => by
    simp only [Spec.stateWf, Bool.and_eq_true] at hw
    simp only [Impl.mask, Spec.holds, mask_gather sh v hv a hw.1, mask_gather sh v hv b hw.2]
    exact (gather_zip sh _ _ (· || ·) v).symm
  | .xor a b, hw => by
    simp only [Spec.stateWf, Bool.and_eq_true] at hw
    simp only [Impl.mask, Spec.holds, mask_gather sh v hv a hw.1, mask_gather sh v hv b hw.2]
    exact (gather_zip sh _ _ (fun x y => x != y) v).symm
  | .inv a, hw => by
    simp only [Spec.stateWf] at hw
    simp only [Impl.mask, Spec.holds, mask_gather sh v hv a hw]
    exact (gather_comp sh _ (!·) v).symm

/-- **Views of membership masks**: `get_mask(state, view)` equals the full-size mask indexed by the
view — same shape, same values, same errors. -/
theorem mask_view (sh : List Nat) (st : State) (v : View) (hw : Spec.stateWf sh st = true)
    (hv : v.posStep = true) :
    Impl.mask sh st v = Spec.viewOfRes (Impl.mask sh st .none) v := by
  rw [mask_gather sh v hv st hw, mask_gather sh .none rfl st hw, gather_none]
  exact (index_tabulate sh _ v).symm

end GlueVerif.Lemmas.C04
