import GlueVerif.Lemmas.CoordsLinks
import GlueVerif.Model.C15History
/-!
# C15 — histories: a read in any reachable state equals the Spec of that state
-/
namespace GlueVerif.Lemmas.Coords
open GlueVerif.Coords GlueVerif.ArrayUtil

/-- One read in an `ok` state: the implementation's readers agree with the Spec's. -/
theorem readOp_impl_eq_spec (s : CoordData) (op : HOp) (hs : s.ok = true) (hop : opOk s op = true) :
    readOp Impl.readers s op = readOp Spec.readers s op := by
  cases hc : s.coords with
  | none => cases op <;> simp [readOp, hc]
  | some c =>
    have hwf : c.wf = true ∧ s.shape.length = c.n := by
      simpa [CoordData.ok, hc] using hs
    cases op with
    | readWorld a v =>
      have ha : a < c.n := by simpa [opOk, hc] using hop
      simp only [readOp, hc, Option.map_some, Impl.readers, Spec.readers]
      rw [show Impl.worldView c s.shape a v = Spec.worldView c s.shape a v from
        worldViewWith_eq Impl.dependentAxes c s.shape a v ha hwf.2 (need_subset_dependentAxes c a ha)]
    | readP2W i v =>
      have hi : i < c.n := by simpa [opOk, hc] using hop
      simp only [readOp, hc, Option.map_some, Impl.readers, Spec.readers]
      rw [show Impl.linkP2W c s.shape i v = Spec.linkP2W c s.shape i v from
        linkP2WWith_eq Impl.dependentAxes c s.shape i v hi hwf.2 (need_subset_dependentAxes c i hi)]
    | readW2P i v =>
      have hi : i < c.n := by simpa [opOk, hc] using hop
      simp only [readOp, hc, Option.map_some, Impl.readers, Spec.readers]
      rw [linkW2P_eq c hwf.1 s.shape i v hi hwf.2]
    | update _ _ => rfl
    | setCoords _ => rfl
    | touch => rfl

theorem runWith_impl_eq_spec (s : CoordData) (ops : List HOp) (h : histOk s ops = true) :
    runWith Impl.readers s ops = runWith Spec.readers s ops := by
  induction ops generalizing s with
  | nil => rfl
  | cons op rest ih =>
    simp only [histOk, Bool.and_eq_true] at h
    simp only [runWith]
    rw [readOp_impl_eq_spec s op h.1.1 h.1.2, ih (s.apply op) h.2]

/-- The observations of a history split at any point: what comes after a prefix depends on the
prefix only through the state it leaves (`CoordData.apply` folded over it). -/
theorem runWith_append (R : Readers) (s : CoordData) (pre post : List HOp) :
    runWith R s (pre ++ post) = runWith R s pre ++ runWith R (pre.foldl CoordData.apply s) post := by
  induction pre generalizing s with
  | nil => simp [runWith]
  | cons op rest ih => simp [runWith, ih, List.append_assoc]

end GlueVerif.Lemmas.Coords
