import GlueVerif.Lemmas.C18ViewerInv
/-!
# C18 part 1 — `add_data`, save / restore, and the reaction to collection changes
-/
namespace GlueVerif.Lemmas.C18Viewer
open GlueVerif.Collection GlueVerif.C18Viewer

/-! ## `add_data` -/

theorem eff_addArt {v : VState} (hg : Good v) (hi : IdsOk v) {L0 : Layer} (hf : hasLayer v.arts L0 = false) :
    Eff v (addArt L0 v) (fun L => hasLayer v.arts L || L == L0) := by
  refine ⟨good_addArt hg hf, idsOk_addArt hi hg _, ?_, ?_⟩
  · rw [addArt_eq _ v hg.synced]; exact ⟨rfl, rfl, rfl⟩
  · intro L
    rw [addArt_eq _ v hg.synced]
    show hasLayer (v.arts ++ [⟨v.nArt, L0⟩]) L = (hasLayer v.arts L || L == L0)
    rw [hasLayer_append]
    congr 1
    by_cases hL : L = L0
    · subst hL; simp [hasLayer]
    · have h1 : (L0 == L) = false := beq_eq_false_iff_ne.2 (fun e => hL e.symm)
      have h2 : (L == L0) = false := beq_eq_false_iff_ne.2 hL
      simp [hasLayer, h1, h2]

theorem mem_addData_given (w : Want) (d x : Nat) (hd : d ∉ w.given) :
    x ∈ (w.addData d).given ↔ (x ∈ w.given ∨ x = d) := by
  simp [Want.addData, hd]

theorem mem_addData_hidden (w : Want) (d : Nat) (x : Sub) (hd : d ∉ w.given) :
    x ∈ (w.addData d).hidden ↔ (x ∈ w.hidden ∧ x.data ≠ some d) := by
  simp [Want.addData, hd]

theorem mem_addData_extra (w : Want) (d : Nat) (x : Sub) (hd : d ∉ w.given) :
    x ∈ (w.addData d).extra ↔ (x ∈ w.extra ∧ x.data ≠ some d) := by
  simp [Want.addData, hd]

theorem inv_addData (v : VState) (h : VInv v) (d : Nat) : VInv (step v (.addData d)) := by
  have hc := colOk_of_inv h.col
  show VInv (addDataOp d v)
  unfold addDataOp
  by_cases hsh : hasLayer v.arts (.data d) = true
  · simp only [hsh, if_true]; exact vinv_err h false
  · have hf : hasLayer v.arts (.data d) = false := by simpa using hsh
    simp only [hf, Bool.false_eq_true, if_false]
    by_cases hD : d ∈ v.col.datasets
    · have hDc : v.col.datasets.contains d = true := by simpa using hD
      simp only [hDc, Bool.not_true, Bool.false_eq_true, if_false]
      have hG : d ∉ v.want.given := fun hg => by
        have := (shown_data h d).2 ⟨hD, hg⟩
        rw [hf] at this; exact Bool.noConfusion this
      have e1 := eff_addArt (good_upd h.good v.col v.want false) (idsOk_upd h.ids v.col v.want false) (L0 := .data d) hf
      have e2 := eff_foldl_addSubsetH (v.col.dsubs d) e1.good e1.ids
      have e : Eff { v with err := false }
          ((v.col.dsubs d).foldl (fun v s => addSubsetH s v) (addArt (.data d) { v with err := false }))
          (fun L => (hasLayer v.arts L || L == .data d) || (v.col.dsubs d).any (fun s => L == .sub s)) := by
        refine ⟨e2.good, e2.ids, e1.rest.trans e2.rest, ?_⟩
        intro L
        rw [e2.layers L, e1.layers L]
      refine vinv_of_eff e (v.want.addData d) h.col ?_ ?_ ?_ ?_ ?_
      · intro L
        simp only [Bool.or_eq_true, List.any_eq_true]
        cases L with
        | data d' =>
          rw [shown_data h, cur_data, wanted_data, mem_addData_given _ _ _ hG]
          have h1 : ((Layer.data d' == Layer.data d) = true) ↔ d' = d := by simp
          have h2 : ¬ ∃ x, x ∈ v.col.dsubs d ∧ (Layer.data d' == Layer.sub x) = true := by
            rintro ⟨x, _, hx⟩
            have : Layer.data d' = Layer.sub x := by simpa using hx
            exact Layer.noConfusion this
          rw [h1]
          constructor
          · rintro ((⟨ha, hb⟩ | rfl) | hx)
            · exact ⟨ha, Or.inl hb⟩
            · exact ⟨hD, Or.inr rfl⟩
            · exact absurd hx h2
          · rintro ⟨ha, hb | rfl⟩
            · exact Or.inl (Or.inl ⟨ha, hb⟩)
            · exact Or.inl (Or.inr rfl)
        | sub x =>
          rw [shown_sub h, cur_sub, wanted_sub, givenSub_iff, givenSub_iff,
            mem_addData_hidden _ _ _ hG, mem_addData_extra _ _ _ hG]
          have h1 : ¬ ((Layer.sub x == Layer.data d) = true) := by
            intro hx
            have : Layer.sub x = Layer.data d := by simpa using hx
            exact Layer.noConfusion this
          have h2 : (∃ y, y ∈ v.col.dsubs d ∧ (Layer.sub x == Layer.sub y) = true) ↔ x ∈ v.col.dsubs d := by
            constructor
            · rintro ⟨y, hy, hxy⟩
              have : x = y := by simpa using hxy
              exact this ▸ hy
            · intro hx; exact ⟨x, hx, by simp⟩
          rw [h2]
          constructor
          · rintro ((⟨ha, hw⟩ | hx) | hx)
            · refine ⟨ha, ?_⟩
              rcases hw with ⟨⟨d0, hd0, hg0⟩, hh⟩ | hx
              · left
                exact ⟨⟨d0, hd0, (mem_addData_given _ _ _ hG).2 (Or.inl hg0)⟩, fun hm => hh hm.1⟩
              · by_cases hxd : x.data = some d
                · left
                  exact ⟨⟨d, hxd, (mem_addData_given _ _ _ hG).2 (Or.inr rfl)⟩, fun hm => hm.2 hxd⟩
                · right; exact ⟨hx, hxd⟩
            · exact absurd hx h1
            · have hxd := hc.subData d x hx
              exact ⟨attached_of_mem hc hx,
                Or.inl ⟨⟨d, hxd, (mem_addData_given _ _ _ hG).2 (Or.inr rfl)⟩, fun hm => hm.2 hxd⟩⟩
          · rintro ⟨ha, hw⟩
            rcases hw with ⟨⟨d0, hd0, hg0⟩, hh⟩ | ⟨hx, hxd⟩
            · rw [mem_addData_given _ _ _ hG] at hg0
              rcases hg0 with hg0 | rfl
              · left; left
                refine ⟨ha, Or.inl ⟨⟨d0, hd0, hg0⟩, fun hm => hh ⟨hm, ?_⟩⟩⟩
                rw [hd0]; intro e
                exact hG (Option.some.inj e ▸ hg0)
              · right
                obtain ⟨d1, _, hx1⟩ := (attached_iff hc x).1 ha
                have := hc.subData d1 x hx1
                rw [hd0] at this
                exact (Option.some.inj this) ▸ hx1
            · left; left; exact ⟨ha, Or.inr hx⟩
      · intro d' hd'
        rw [mem_addData_given _ _ _ hG] at hd'
        rcases hd' with hd' | rfl
        · exact h.givenCur d' hd'
        · exact hD
      · intro x hx; rw [mem_addData_hidden _ _ _ hG] at hx; exact h.hiddenCur x hx.1
      · intro x hx; rw [mem_addData_extra _ _ _ hG] at hx; exact h.extraCur x hx.1
      · intro x hx
        rw [mem_addData_extra _ _ _ hG] at hx
        rw [givenSub_false_iff]
        intro d0 hd0 hg0
        rw [mem_addData_given _ _ _ hG] at hg0
        rcases hg0 with hg0 | rfl
        · exact (givenSub_false_iff _ _).1 (h.extraNotGiven x hx.1) d0 hd0 hg0
        · exact hx.2 hd0
    · have hDc : v.col.datasets.contains d = false := by simpa using hD
      simp only [hDc, Bool.not_false, if_true]
      exact vinv_err h true

/-! ## save / restore -/

theorem renSub_eq {st : Collection.State} (hc : ColOk st) {s : Sub}
    (ha : attached st.datasets st.dsubs s = true) : renSub st s = s := by
  obtain ⟨d, hd, hs⟩ := (attached_iff hc s).1 ha
  have hsd := hc.subData d s hs
  have : st.datasets.find? (fun d => (st.dsubs d).contains s) = some d := by
    apply Lemmas.C06.find?_unique _ _ _ hd (by simpa using hs)
    intro x _ hx
    have hx' : s ∈ st.dsubs x := by simpa using hx
    have := hc.subData x s hx'
    rw [hsd] at this
    exact (Option.some.inj this).symm
  unfold renSub
  rw [this]
  cases s; simp_all

theorem vinv_col_congr {v : VState} (h : VInv v) {c : Collection.State} (hc : Collection.Inv c)
    (hD : c.datasets = v.col.datasets) (hS : c.dsubs = v.col.dsubs) (e : Bool) :
    VInv { v with col := c, err := e } where
  col := hc
  good := ⟨h.good.synced, h.good.nodupL, h.good.idsLt⟩
  ids := ⟨h.ids.nodupI⟩
  shown := by
    intro L
    show hasLayer v.arts L = true ↔ (currentLayer c.datasets c.dsubs L = true ∧ wantedLayer v.want L = true)
    rw [hD, hS]; exact h.shown L
  givenCur := by show ∀ d ∈ v.want.given, d ∈ c.datasets; rw [hD]; exact h.givenCur
  hiddenCur := by show ∀ s ∈ v.want.hidden, attached c.datasets c.dsubs s = true; rw [hD, hS]; exact h.hiddenCur
  extraCur := by show ∀ s ∈ v.want.extra, attached c.datasets c.dsubs s = true; rw [hD, hS]; exact h.extraCur
  extraNotGiven := h.extraNotGiven

/-- on a state that satisfies the invariant, save + restore of the viewer changes nothing in the
layer bookkeeping: same layers, same layer states, same order. -/
theorem restoreV_eq (v : VState) (h : VInv v) :
    restoreV v = { v with col := { v.col with done := [], undone := [] }, err := false } := by
  have hc := colOk_of_inv h.col
  have hart : ∀ a ∈ v.arts, renArt v.col a = a := by
    intro a ha
    have hcur := ((h.shown a.layer).1 (hasLayer_of_mem ha)).1
    cases a with
    | mk id layer =>
      cases layer with
      | data d => rfl
      | sub s =>
        simp only [renArt, renLayer]
        rw [renSub_eq hc (by simpa [currentLayer] using hcur)]
  have h1 : v.arts.map (renArt v.col) = v.arts := Lemmas.C06.map_eq_self _ _ hart
  have h2 : v.slayers.map (renArt v.col) = v.slayers := by
    rw [h.good.synced]; exact h1
  have h3 : v.want.hidden.map (renSub v.col) = v.want.hidden :=
    Lemmas.C06.map_eq_self _ _ (fun s hs => renSub_eq hc (h.hiddenCur s hs))
  have h4 : v.want.extra.map (renSub v.col) = v.want.extra :=
    Lemmas.C06.map_eq_self _ _ (fun s hs => renSub_eq hc (h.extraCur s hs))
  unfold restoreV
  rw [h1, h2, h3, h4, Lemmas.C06.restore_eq _ h.col]

theorem inv_restore (v : VState) (h : VInv v) : VInv (step v .restore) := by
  show VInv (restoreV v)
  rw [restoreV_eq v h]
  exact vinv_col_congr h (Lemmas.C06.inv_stack v.col h.col [] []) rfl rfl false

/-! ## reaction to a collection change -/

theorem mem_dataDeleted (old new : Collection.State) (d : Nat) :
    d ∈ dataDeleted old new ↔ (d ∈ old.datasets ∧ d ∉ new.datasets) := by
  simp [dataDeleted]

theorem mem_deleted {old : Collection.State} (ho : ColOk old) (new : Collection.State) (s : Sub) :
    s ∈ deleted old new ↔ ∃ d, s ∈ old.dsubs d ∧ s ∉ new.dsubs d := by
  simp only [deleted, List.mem_flatMap, List.mem_range, List.mem_filter, Bool.not_eq_true',
    List.contains_eq_mem, decide_eq_false_iff_not]
  constructor
  · rintro ⟨d, _, h1, h2⟩; exact ⟨d, h1, h2⟩
  · rintro ⟨d, h1, h2⟩
    exact ⟨d, ho.dBound d (mem_datasets_of_mem_dsubs ho h1), h1, h2⟩

theorem mem_created (old new : Collection.State) (s : Sub) :
    s ∈ created old new ↔ ∃ d, d ∈ new.datasets ∧ s ∈ new.dsubs d ∧ s ∉ old.dsubs d := by
  simp [created]

theorem mem_restrict_given (w : Want) (st : Collection.State) (d : Nat) :
    d ∈ (w.restrict st).given ↔ (d ∈ w.given ∧ d ∈ st.datasets) := by simp [Want.restrict]

theorem mem_restrict_hidden (w : Want) (st : Collection.State) (s : Sub) :
    s ∈ (w.restrict st).hidden ↔ (s ∈ w.hidden ∧ attached st.datasets st.dsubs s = true) := by
  simp [Want.restrict]

theorem mem_restrict_extra (w : Want) (st : Collection.State) (s : Sub) :
    s ∈ (w.restrict st).extra ↔ (s ∈ w.extra ∧ attached st.datasets st.dsubs s = true) := by
  simp [Want.restrict]

/-- the layers that survive the delete messages. -/
def keep (old new : Collection.State) (arts : List Art) (L : Layer) : Bool :=
  hasLayer arts L && (dataDeleted old new).all (fun d => !L.ofData d) &&
    (deleted old new).all (fun s => !(L == .sub s))

theorem eff_react (old new : Collection.State) {v : VState} (hg : Good v) (hi : IdsOk v) :
    Eff v (react old new v) (fun L => keep old new v.arts L ||
      (created old new).any (fun s => L == .sub s &&
        (match s.data with | some d => keep old new v.arts (.data d) | none => false))) := by
  have e1 := eff_foldl_onDataDelete (dataDeleted old new) hg hi
  have e2 := eff_foldl_onDelete (deleted old new) e1.good e1.ids
  have e3 := eff_foldl_onCreate (created old new) e2.good e2.ids
  have hk : ∀ L, hasLayer ((deleted old new).foldl onDelete ((dataDeleted old new).foldl onDataDelete v)).arts L
      = keep old new v.arts L := by
    intro L; rw [e2.layers L, e1.layers L]; rfl
  refine ⟨e3.good, e3.ids, (e1.rest.trans e2.rest).trans e3.rest, ?_⟩
  intro L
  show hasLayer ((created old new).foldl onCreate _).arts L = _
  rw [e3.layers L, hk L]
  congr 1
  congr 1
  funext s
  cases s.data with
  | none => rfl
  | some d => simp only [hk]

theorem keep_data_iff (old new : Collection.State) (arts : List Art) (d : Nat) :
    keep old new arts (.data d) = true ↔ (hasLayer arts (.data d) = true ∧ d ∉ dataDeleted old new) := by
  unfold keep
  simp only [Bool.and_eq_true, List.all_eq_true, Bool.not_eq_true']
  constructor
  · rintro ⟨⟨h1, h2⟩, _⟩
    refine ⟨h1, fun hm => ?_⟩
    have := h2 d hm
    simp [Layer.ofData] at this
  · rintro ⟨h1, h2⟩
    refine ⟨⟨h1, ?_⟩, ?_⟩
    · intro d' hd'
      have : d ≠ d' := fun e => h2 (e ▸ hd')
      simp [Layer.ofData, this]
    · intro s _
      exact beq_eq_false_iff_ne.2 (fun e => Layer.noConfusion e)

theorem keep_sub_iff (old new : Collection.State) (arts : List Art) (x : Sub) :
    keep old new arts (.sub x) = true ↔
      (hasLayer arts (.sub x) = true ∧ (∀ d ∈ dataDeleted old new, x.data ≠ some d) ∧ x ∉ deleted old new) := by
  unfold keep
  simp only [Bool.and_eq_true, List.all_eq_true, Bool.not_eq_true']
  constructor
  · rintro ⟨⟨h1, h2⟩, h3⟩
    refine ⟨h1, ?_, ?_⟩
    · intro d hd e
      have := h2 d hd
      simp [Layer.ofData, e] at this
    · intro hm
      have := h3 x hm
      simp at this
  · rintro ⟨h1, h2, h3⟩
    refine ⟨⟨h1, ?_⟩, ?_⟩
    · intro d hd
      have := h2 d hd
      simp [Layer.ofData, this]
    · intro s hs
      exact beq_eq_false_iff_ne.2 (fun e => h3 (Layer.sub.inj e ▸ hs))

theorem inv_col (v : VState) (h : VInv v) (op : COp) : VInv (step v (.col op)) := by
  have hNew : Collection.Inv (Collection.Impl.step v.col op.toOp) := Lemmas.C06.inv_step v.col _ h.col
  have ho := colOk_of_inv h.col
  have hn := colOk_of_inv hNew
  generalize hnew : Collection.Impl.step v.col op.toOp = new at hNew hn
  have e := eff_react v.col new (v := { v with col := new, err := false })
    (good_upd h.good new v.want false) (idsOk_upd h.ids new v.want false)
  show VInv { react v.col (Collection.Impl.step v.col op.toOp)
      { v with col := Collection.Impl.step v.col op.toOp, err := false } with
      want := v.want.restrict (Collection.Impl.step v.col op.toOp) }
  rw [hnew]
  refine vinv_of_eff e (v.want.restrict new) hNew ?_ ?_ ?_ ?_ ?_
  · intro L
    show (keep v.col new v.arts L || (created v.col new).any (fun s => L == .sub s &&
        (match s.data with | some d => keep v.col new v.arts (.data d) | none => false))) = true ↔
      (currentLayer new.datasets new.dsubs L = true ∧ wantedLayer (v.want.restrict new) L = true)
    rw [Bool.or_eq_true, List.any_eq_true]
    cases L with
    | data d =>
      have hno : ¬ ∃ s, s ∈ created v.col new ∧ (Layer.data d == Layer.sub s &&
          (match s.data with | some d => keep v.col new v.arts (.data d) | none => false)) = true := by
        rintro ⟨s, _, hs⟩
        rw [Bool.and_eq_true] at hs
        have : Layer.data d = Layer.sub s := by simpa using hs.1
        exact Layer.noConfusion this
      rw [keep_data_iff, mem_dataDeleted, shown_data h, cur_data, wanted_data, mem_restrict_given]
      constructor
      · rintro (⟨⟨h1, h2⟩, h3⟩ | hx)
        · have : d ∈ new.datasets := by
            by_cases hd : d ∈ new.datasets
            · exact hd
            · exact absurd ⟨h1, hd⟩ h3
          exact ⟨this, h2, this⟩
        · exact absurd hx hno
      · rintro ⟨h1, h2, _⟩
        exact Or.inl ⟨⟨h.givenCur d h2, h2⟩, fun hh => hh.2 h1⟩
    | sub x =>
      rw [keep_sub_iff, shown_sub h, cur_sub, wanted_sub, givenSub_iff, givenSub_iff,
        mem_restrict_hidden, mem_restrict_extra, mem_deleted ho]
      constructor
      · rintro (⟨⟨ha, hw⟩, hdd, hdel⟩ | ⟨s, hs, hx⟩)
        · -- an old layer that survived
          obtain ⟨d0, hd0, hx0⟩ := (attached_iff ho x).1 ha
          have hxd := ho.subData d0 x hx0
          have hd0n : d0 ∈ new.datasets := by
            by_cases hd : d0 ∈ new.datasets
            · exact hd
            · exact absurd hxd (hdd d0 ((mem_dataDeleted _ _ _).2 ⟨hd0, hd⟩))
          have hx0n : x ∈ new.dsubs d0 := by
            by_cases hm : x ∈ new.dsubs d0
            · exact hm
            · exact absurd ⟨d0, hx0, hm⟩ hdel
          have han : attached new.datasets new.dsubs x = true := (attached_iff hn x).2 ⟨d0, hd0n, hx0n⟩
          refine ⟨han, ?_⟩
          rcases hw with ⟨⟨d1, hd1, hg1⟩, hh⟩ | hx
          · left
            have : d1 = d0 := by rw [hxd] at hd1; exact (Option.some.inj hd1).symm
            subst this
            exact ⟨⟨d1, hd1, (mem_restrict_given _ _ _).2 ⟨hg1, hd0n⟩⟩, fun hm => hh hm.1⟩
          · right; exact ⟨hx, han⟩
        · -- a new subset of a dataset that is shown
          rw [Bool.and_eq_true] at hx
          have hxs : x = s := by simpa using hx.1
          subst hxs
          obtain ⟨d0, hd0n, hx0n, hx0o⟩ := (mem_created _ _ _).1 hs
          have hxd := hn.subData d0 x hx0n
          rw [hxd] at hx
          have hk := (keep_data_iff _ _ _ _).1 hx.2
          have hg0 := ((shown_data h d0).1 hk.1).2
          refine ⟨(attached_iff hn x).2 ⟨d0, hd0n, hx0n⟩, Or.inl ⟨⟨d0, hxd, (mem_restrict_given _ _ _).2 ⟨hg0, hd0n⟩⟩, ?_⟩⟩
          intro hm
          obtain ⟨d1, _, hx1⟩ := (attached_iff ho x).1 (h.hiddenCur x hm.1)
          have := ho.subData d1 x hx1
          rw [hxd] at this
          exact hx0o ((Option.some.inj this) ▸ hx1)
      · rintro ⟨han, hw⟩
        obtain ⟨d0, hd0n, hx0n⟩ := (attached_iff hn x).1 han
        have hxd := hn.subData d0 x hx0n
        by_cases hx0o : x ∈ v.col.dsubs d0
        · -- it was there before
          left
          have hd0o := mem_datasets_of_mem_dsubs ho hx0o
          have hao : attached v.col.datasets v.col.dsubs x = true := (attached_iff ho x).2 ⟨d0, hd0o, hx0o⟩
          refine ⟨⟨hao, ?_⟩, ?_, ?_⟩
          · rcases hw with ⟨⟨d1, hd1, hg1⟩, hh⟩ | hx
            · left
              exact ⟨⟨d1, hd1, ((mem_restrict_given _ _ _).1 hg1).1⟩, fun hm => hh ⟨hm, han⟩⟩
            · right; exact hx.1
          · intro d hd e
            rw [hxd] at e
            have : d0 = d := Option.some.inj e
            subst this
            exact ((mem_dataDeleted _ _ _).1 hd).2 hd0n
          · rintro ⟨d1, hx1, hx1n⟩
            have := ho.subData d1 x hx1
            rw [hxd] at this
            have : d0 = d1 := Option.some.inj this
            subst this
            exact hx1n hx0n
        · -- it is new
          right
          refine ⟨x, (mem_created _ _ _).2 ⟨d0, hd0n, hx0n, hx0o⟩, ?_⟩
          rw [Bool.and_eq_true]
          refine ⟨by simp, ?_⟩
          rw [hxd]
          show keep v.col new v.arts (.data d0) = true
          rw [keep_data_iff, mem_dataDeleted]
          rcases hw with ⟨⟨d1, hd1, hg1⟩, _⟩ | hx
          · have : d1 = d0 := by rw [hxd] at hd1; exact (Option.some.inj hd1).symm
            subst this
            have hg := ((mem_restrict_given _ _ _).1 hg1).1
            exact ⟨(shown_data h d1).2 ⟨h.givenCur d1 hg, hg⟩, fun hh => hh.2 hd0n⟩
          · exfalso
            obtain ⟨d1, _, hx1⟩ := (attached_iff ho x).1 (h.extraCur x hx.1)
            have := ho.subData d1 x hx1
            rw [hxd] at this
            exact hx0o ((Option.some.inj this) ▸ hx1)
  · intro d hd; exact ((mem_restrict_given _ _ _).1 hd).2
  · intro s hs; exact ((mem_restrict_hidden _ _ _).1 hs).2
  · intro s hs; exact ((mem_restrict_extra _ _ _).1 hs).2
  · intro s hs
    rw [givenSub_false_iff]
    intro d hd hg
    exact (givenSub_false_iff _ _).1 (h.extraNotGiven s ((mem_restrict_extra _ _ _).1 hs).1) d hd
      ((mem_restrict_given _ _ _).1 hg).1

/-! ## every step, every history -/

theorem inv_step (v : VState) (op : VOp) (h : VInv v) : VInv (step v op) := by
  cases op with
  | col op => exact inv_col v h op
  | addData d => exact inv_addData v h d
  | addSubset d g => exact inv_addSubset v h d g
  | removeData d => exact inv_removeData v h d
  | removeSubset d g => exact inv_removeSubset v h d g
  | removeLayer d g => exact inv_removeLayer v h d g
  | popState d g => exact inv_popState v h d g
  | restore => exact inv_restore v h

theorem inv_run (ops : List VOp) : ∀ v : VState, VInv v → VInv (run v ops) := by
  induction ops with
  | nil => intro v h; exact h
  | cons op ops ih => intro v h; exact ih _ (inv_step v op h)

/-! ## the invariant implies the executable property predicate -/

theorem specOk_of_inv (v : VState) (h : VInv v) : specOkV v = true := by
  have hc := colOk_of_inv h.col
  unfold specOkV C18Viewer.specOk
  simp only [Bool.and_eq_true, decide_eq_true_eq, List.all_eq_true, beq_iff_eq, Bool.or_eq_true,
    Bool.not_eq_true']
  refine ⟨⟨⟨⟨⟨h.good.synced, h.good.nodupL⟩, h.ids.nodupI⟩, ?_⟩, ?_⟩, ?_⟩
  · intro a ha
    exact (h.shown a.layer).1 (hasLayer_of_mem ha)
  · intro d hd
    right
    have hD := h.givenCur d hd
    refine ⟨(shown_data h d).2 ⟨hD, hd⟩, ?_⟩
    intro s hs
    by_cases hh : s ∈ v.want.hidden
    · left; simpa using hh
    · right
      refine (shown_sub h s).2 ⟨attached_of_mem hc hs, Or.inl ⟨(givenSub_iff _ _).2 ⟨d, hc.subData d s hs, hd⟩, hh⟩⟩
  · intro s hs
    exact (shown_sub h s).2 ⟨h.extraCur s hs, Or.inr hs⟩

end GlueVerif.Lemmas.C18Viewer
