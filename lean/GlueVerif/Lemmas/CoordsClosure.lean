import GlueVerif.Model.Coords
import Mathlib.Tactic.Linarith
/-!
# C15 — the `_coupled_axes` loop

`coupledLoop` with fuel `2n+1` reaches a fixed point of `coupledStep` (every round that changes the
state turns at least one of the `2n` flags on), a fixed point is closed under the correlation
matrix, and the state only grows, so the seeds stay inside.
-/
namespace GlueVerif.Lemmas.Coords
open GlueVerif.Coords

theorem getD_map_range_bool (n : Nat) (f : Nat → Bool) (k : Nat) :
    ((List.range n).map f).getD k false = if k < n then f k else false := by
  by_cases h : k < n
  · simp [List.getD, h]
  · simp [List.getD, h]

theorem getD_of_length_le (l : List Bool) (k : Nat) (h : l.length ≤ k) : l.getD k false = false := by
  simp [List.getD, List.getElem?_eq_none h]

/-! ### counting the flags that are still off -/

theorem count_false_mono : ∀ (l l' : List Bool), l.length = l'.length →
    (∀ i, l.getD i false = true → l'.getD i false = true) →
    l'.count false ≤ l.count false ∧ (l ≠ l' → l'.count false < l.count false)
  | [], [], _, _ => by simp
  | [], _ :: _, h, _ => by simp at h
  | _ :: _, [], h, _ => by simp at h
  | a :: l, b :: l', h, hle => by
    have hlen : l.length = l'.length := by simpa using h
    have htail : ∀ i, l.getD i false = true → l'.getD i false = true := by
      intro i hi
      have := hle (i + 1)
      simpa using this hi
    have hhead : a = true → b = true := by
      have := hle 0
      simpa using this
    obtain ⟨ih1, ih2⟩ := count_false_mono l l' hlen htail
    cases a <;> cases b
    · -- false, false
      simp only [List.count_cons_self]
      refine ⟨by omega, fun hne => ?_⟩
      have : l ≠ l' := fun e => hne (by rw [e])
      have := ih2 this
      omega
    · -- false, true
      simp only [List.count_cons_self, List.count_cons_of_ne (by decide : (true : Bool) ≠ false)]
      exact ⟨by omega, fun _ => by omega⟩
    · -- true, false : impossible
      exact absurd (hhead rfl) (by decide)
    · simp only [List.count_cons_of_ne (by decide : (true : Bool) ≠ false)]
      refine ⟨ih1, fun hne => ?_⟩
      have : l ≠ l' := fun e => hne (by rw [e])
      exact ih2 this

/-! ### one round -/

section step
variable (C : Nat → Nat → Bool) (n : Nat)

theorem step_len1 (s : List Bool × List Bool) : (coupledStep C n s).1.length = n := by
  simp [coupledStep]
theorem step_len2 (s : List Bool × List Bool) : (coupledStep C n s).2.length = n := by
  simp [coupledStep]

theorem step_world (s : List Bool × List Bool) (w : Nat) (hw : w < n) :
    (coupledStep C n s).2.getD w false =
      (s.2.getD w false || (List.range n).any fun p => s.1.getD p false && C w p) := by
  simp only [coupledStep]
  rw [getD_map_range_bool, if_pos hw]

theorem step_pixel (s : List Bool × List Bool) (p : Nat) (hp : p < n) :
    (coupledStep C n s).1.getD p false =
      (s.1.getD p false || (List.range n).any fun w => (coupledStep C n s).2.getD w false && C w p) := by
  simp only [coupledStep]
  rw [getD_map_range_bool, if_pos hp]

theorem step_ge1 (s : List Bool × List Bool) (h1 : s.1.length = n) (i : Nat)
    (h : s.1.getD i false = true) : (coupledStep C n s).1.getD i false = true := by
  by_cases hi : i < n
  · rw [step_pixel C n s i hi, h, Bool.true_or]
  · rw [getD_of_length_le s.1 i (by omega)] at h; cases h

theorem step_ge2 (s : List Bool × List Bool) (h2 : s.2.length = n) (i : Nat)
    (h : s.2.getD i false = true) : (coupledStep C n s).2.getD i false = true := by
  by_cases hi : i < n
  · rw [step_world C n s i hi, h, Bool.true_or]
  · rw [getD_of_length_le s.2 i (by omega)] at h; cases h

/-- A fixed point of the round is closed under the correlation matrix. -/
theorem closed_of_fixed (s : List Bool × List Bool) (hfix : coupledStep C n s = s) :
    closedUnder C n s = true := by
  unfold closedUnder
  simp only [List.all_eq_true, List.mem_range, Bool.or_eq_true, Bool.not_eq_true', beq_iff_eq]
  intro w hw p hp
  by_cases hC : C w p = true
  · right
    have hW := step_world C n s w hw
    have hP := step_pixel C n s p hp
    rw [hfix] at hW hP
    cases hpw : s.2.getD w false <;> cases hpp : s.1.getD p false
    · rfl
    · -- pixel p inside, world w outside: contradicts the world update
      rw [hpw, Bool.false_or] at hW
      have : ((List.range n).any fun p => s.1.getD p false && C w p) = true := by
        rw [List.any_eq_true]
        exact ⟨p, List.mem_range.mpr hp, by rw [hpp, hC]; rfl⟩
      rw [this] at hW; cases hW
    · rw [hpp, Bool.false_or] at hP
      have : ((List.range n).any fun w => s.2.getD w false && C w p) = true := by
        rw [List.any_eq_true]
        exact ⟨w, List.mem_range.mpr hw, by rw [hpw, hC]; rfl⟩
      rw [this] at hP; cases hP
    · rfl
  · left
    simpa using hC

/-- The number of flags that are off. -/
def offCount (s : List Bool × List Bool) : Nat := s.1.count false + s.2.count false

theorem offCount_step_lt (s : List Bool × List Bool) (h1 : s.1.length = n) (h2 : s.2.length = n)
    (hne : coupledStep C n s ≠ s) : offCount (coupledStep C n s) < offCount s := by
  have a := count_false_mono s.1 (coupledStep C n s).1 (by rw [h1, step_len1]) (step_ge1 C n s h1)
  have b := count_false_mono s.2 (coupledStep C n s).2 (by rw [h2, step_len2]) (step_ge2 C n s h2)
  unfold offCount
  by_cases e1 : s.1 = (coupledStep C n s).1
  · have e2 : s.2 ≠ (coupledStep C n s).2 := by
      intro e2
      apply hne
      exact Prod.ext e1.symm e2.symm
    have := b.2 e2
    have := a.1
    omega
  · have := a.2 e1
    have := b.1
    omega

/-- With more fuel than flags that are off, the loop ends in a fixed point. -/
theorem loop_fixed : ∀ (fuel : Nat) (s : List Bool × List Bool), s.1.length = n → s.2.length = n →
    offCount s < fuel → coupledStep C n (coupledLoop C n fuel s) = coupledLoop C n fuel s
  | 0, _, _, _, h => by omega
  | fuel + 1, s, h1, h2, h => by
    unfold coupledLoop
    simp only
    by_cases he : (coupledStep C n s == s) = true
    · rw [if_pos he]
      exact eq_of_beq he
    · rw [if_neg he]
      have hne : coupledStep C n s ≠ s := fun e => he (by rw [e]; exact beq_self_eq_true _)
      have := offCount_step_lt C n s h1 h2 hne
      exact loop_fixed fuel _ (step_len1 C n s) (step_len2 C n s) (by omega)

/-- The loop only turns flags on. -/
theorem loop_ge : ∀ (fuel : Nat) (s : List Bool × List Bool), s.1.length = n → s.2.length = n →
    (∀ i, s.1.getD i false = true → (coupledLoop C n fuel s).1.getD i false = true) ∧
    (∀ i, s.2.getD i false = true → (coupledLoop C n fuel s).2.getD i false = true)
  | 0, s, _, _ => by simp [coupledLoop]
  | fuel + 1, s, h1, h2 => by
    unfold coupledLoop
    simp only
    by_cases he : (coupledStep C n s == s) = true
    · rw [if_pos he]; exact ⟨fun _ h => h, fun _ h => h⟩
    · rw [if_neg he]
      obtain ⟨a, b⟩ := loop_ge fuel (coupledStep C n s) (step_len1 C n s) (step_len2 C n s)
      exact ⟨fun i h => a i (step_ge1 C n s h1 i h), fun i h => b i (step_ge2 C n s h2 i h)⟩

end step

theorem seedFlags_length (n : Nat) (seeds : List Nat) : (seedFlags n seeds).length = n := by
  simp [seedFlags]

theorem seedFlags_getD (n : Nat) (seeds : List Nat) (k : Nat) (hk : k < n) (hm : k ∈ seeds) :
    (seedFlags n seeds).getD k false = true := by
  unfold seedFlags
  rw [getD_map_range_bool, if_pos hk]
  simpa using hm

theorem offCount_le (s : List Bool × List Bool) : offCount s ≤ s.1.length + s.2.length := by
  unfold offCount
  have := List.count_le_length (a := false) (l := s.1)
  have := List.count_le_length (a := false) (l := s.2)
  omega

/-- **`_coupled_axes` is correct**: the flags it returns are closed under the correlation matrix
and contain the seeds — for every coordinate object, of any dimension. -/
theorem coupledAxes_spec (c : Coord) (ps ws : List Nat) :
    closedUnder c.corr c.n (coupledAxes c ps ws) = true ∧
    (∀ p, p ∈ ps → p < c.n → (coupledAxes c ps ws).1.getD p false = true) ∧
    (∀ w, w ∈ ws → w < c.n → (coupledAxes c ps ws).2.getD w false = true) := by
  unfold coupledAxes
  have l1 := seedFlags_length c.n ps
  have l2 := seedFlags_length c.n ws
  have hoff : offCount (seedFlags c.n ps, seedFlags c.n ws) < 2 * c.n + 1 := by
    have := offCount_le (seedFlags c.n ps, seedFlags c.n ws)
    simp only [l1, l2] at this
    omega
  refine ⟨closed_of_fixed _ _ _ (loop_fixed c.corr c.n _ _ l1 l2 hoff), ?_, ?_⟩
  · intro p hp hpn
    exact (loop_ge c.corr c.n _ _ l1 l2).1 p (seedFlags_getD c.n ps p hpn hp)
  · intro w hw hwn
    exact (loop_ge c.corr c.n _ _ l1 l2).2 w (seedFlags_getD c.n ws w hwn hw)

theorem closedUnder_iff (C : Nat → Nat → Bool) (n : Nat) (s : List Bool × List Bool) :
    closedUnder C n s = true ↔
      ∀ w, w < n → ∀ p, p < n → C w p = true → s.2.getD w false = s.1.getD p false := by
  unfold closedUnder
  simp only [List.all_eq_true, List.mem_range, Bool.or_eq_true, Bool.not_eq_true', beq_iff_eq]
  constructor
  · intro h w hw p hp hC
    rcases h w hw p hp with h' | h'
    · rw [hC] at h'; cases h'
    · exact h'
  · intro h w hw p hp
    by_cases hC : C w p = true
    · exact Or.inr (h w hw p hp hC)
    · exact Or.inl (by simpa using hC)

end GlueVerif.Lemmas.Coords
