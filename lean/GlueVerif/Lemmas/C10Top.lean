import GlueVerif.Lemmas.C10Chunk
/-! C10: the `SliceSubsetState` shortcut, the plain (non-NaN-aware) path, and the top-level
refinement `implStat = specStat`. Core Lean only. -/
namespace GlueVerif.Lemmas.C10
open GlueVerif.ArrayUtil GlueVerif.Stats

/-! ### NaN-aware vs plain path -/

theorem keepFn_plain (cfg : Cfg) (data : Idx → Val) (t : Idx) (hf : cfg.finite = false)
    (hp : cfg.positive = false) (hn : (data t).isNan = false) :
    keepFn cfg false data (fun _ => true) t = keepFn cfg true data (fun _ => true) t := by
  simp [keepFn, hf, hp, hn]

/-- With no selection, the code's reducer choice (`finite or positive`) gives the NaN-aware result
as soon as it is NaN-aware or the array holds no NaN. -/
theorem cellVals_na_switch (cfg : Cfg) (red : List Bool) (sh : List Nat) (data : Idx → Val) (k : Idx)
    (h : (cfg.finite || cfg.positive) = true ∨ ∀ t, inRange t sh = true → (data t).isNan = false) :
    cellVals red sh (keepFn cfg (cfg.finite || cfg.positive) data (fun _ => true)) k =
      cellVals red sh (keepFn cfg true data (fun _ => true)) k := by
  apply cellVals_congr_range
  intro t ht
  rcases h with h | h
  · rw [h]
  · cases hb : (cfg.finite || cfg.positive) with
    | true => rfl
    | false =>
      simp only [Bool.or_eq_false_iff] at hb
      rw [keepFn_plain cfg data t hb.1 hb.2 (h t ht)]

theorem cellVals_mask_range (cfg : Cfg) (red : List Bool) (sh : List Nat) (data : Idx → Val)
    (m : Idx → Bool) (k : Idx) :
    cellVals red sh (keepFn cfg true data m) k =
      cellVals red sh (keepFn cfg true data (fun j => inRange j sh && m j)) k := by
  apply cellVals_congr_range
  intro t ht
  simp [keepFn, ht]

/-! ### the SliceSubsetState shortcut -/

theorem subOk_length : ∀ (sh : List Nat) (vs : Sub), subOk sh vs = true → vs.length = sh.length := by
  intro sh
  induction sh with
  | nil => intro vs h; cases vs <;> simp [subOk] at h ⊢
  | cons s ss ih =>
    intro vs h
    cases vs with
    | nil => simp [subOk] at h
    | cons x xs =>
      obtain ⟨b, n, st⟩ := x
      simp only [subOk, Bool.and_eq_true] at h
      simp [ih xs h.2]

theorem subMask_false_of_inSubRed_false : ∀ (red : List Bool) (vs : Sub) (t : Idx),
    red.length = vs.length → t.length = vs.length → inSubRed red vs t = false → subMask vs t = false := by
  intro red
  induction red with
  | nil =>
    intro vs t hl ht h
    cases vs with
    | nil => cases t <;> simp [inSubRed] at h ht
    | cons _ _ => simp at hl
  | cons r rs ih =>
    intro vs t hl ht h
    cases vs with
    | nil => simp at hl
    | cons x xs =>
      obtain ⟨b, n, st⟩ := x
      cases t with
      | nil => simp at ht
      | cons i is =>
        have hl' : rs.length = xs.length := by simpa using hl
        have ht' : is.length = xs.length := by simpa using ht
        cases r with
        | true =>
          simp only [inSubRed, Bool.and_eq_false_iff] at h
          simp only [subMask, Bool.and_eq_false_iff]
          rcases h with h | h
          · left; exact h
          · right; exact ih xs is hl' ht' h
        | false =>
          simp only [inSubRed] at h
          simp only [subMask, Bool.and_eq_false_iff]
          right; exact ih xs is hl' ht' h

theorem subIdx_facts : ∀ (sh : List Nat) (vs : Sub) (t : Idx), subOk sh vs = true →
    inRange t (subShape vs) = true →
    inRange (subIdx vs t) sh = true ∧ subMask vs (subIdx vs t) = true := by
  intro sh
  induction sh with
  | nil =>
    intro vs t hok ht
    cases vs with
    | nil => cases t <;> simp [subShape, inRange, subIdx, subMask] at ht ⊢
    | cons _ _ => simp [subOk] at hok
  | cons h hs ih =>
    intro vs t hok ht
    cases vs with
    | nil => simp [subOk] at hok
    | cons x xs =>
      obtain ⟨b, n, st⟩ := x
      simp only [subOk, Bool.and_eq_true, decide_eq_true_eq, Bool.or_eq_true, beq_iff_eq] at hok
      obtain ⟨⟨hst, hfit⟩, hok'⟩ := hok
      cases t with
      | nil => simp [subShape, inRange] at ht
      | cons t0 t =>
        simp only [subShape, List.map_cons, inRange, Bool.and_eq_true, decide_eq_true_eq] at ht
        obtain ⟨h1, h2⟩ := ih xs t hok' (by simpa [subShape] using ht.2)
        have hlt : b + t0 * st < h := by
          rcases hfit with h0 | hfit
          · omega
          · exact prog_lt b n st h t0 hfit ht.1
        simp only [subIdx, inRange, subMask, Bool.and_eq_true, decide_eq_true_eq]
        refine ⟨⟨hlt, h1⟩, ?_, h2⟩
        rw [onProg_true]
        exact ⟨t0, ht.1, rfl⟩

/-- **The `SliceSubsetState` shortcut** (statistic of `data[slices]` without a mask) computes, in
its cell `k`, the masked statistic of the full array at the corresponding cell. -/
theorem slice_shortcut_cell (cfg : Cfg) (sh : List Nat) (data : Idx → Val) (vs : Sub)
    (red : List Bool) (k : Idx) (hl : red.length = sh.length) (hok : subOk sh vs = true)
    (hk : inRange k (keptShape red (subShape vs)) = true) :
    cellVals red (subShape vs) (keepFn cfg true (fun j => data (subIdx vs j)) (fun _ => true)) k =
      cellVals red sh (keepFn cfg true data (fun j => inRange j sh && subMask vs j)) (mapKept red vs k) := by
  have hlen := subOk_length sh vs hok
  rw [cellVals_sub red sh vs _ k hl hok
    (fun t ht hns => by
      apply keepFn_mask_false
      have := subMask_false_of_inSubRed_false red vs t (by rw [hl, hlen])
        (by rw [hlen]; exact inRange_length t sh ht) hns
      simp [this]) hk]
  apply cellVals_congr_range
  intro t ht
  obtain ⟨h1, h2⟩ := subIdx_facts sh vs t hok ht
  simp [keepFn, h1, h2]


/-! ### top-level refinement -/

theorem noNan_of_all (sh : List Nat) (g : Idx → Val)
    (h : ((allIdx sh).all fun j => !(g j).isNan) = true) :
    ∀ t, inRange t sh = true → (g t).isNan = false := by
  intro t ht
  rw [List.all_eq_true] at h
  have := h t ((mem_allIdx sh t).mpr ht)
  simpa using this

theorem inRange_singleton (k : Idx) (h : Nat) (hk : inRange k [h] = true) : ∃ i, k = [i] ∧ i < h := by
  cases k with
  | nil => simp [inRange] at hk
  | cons i is =>
    cases is with
    | nil => exact ⟨i, rfl, by simpa [inRange] using hk⟩
    | cons _ _ => simp [inRange] at hk

/-- **`Data.compute_statistic` refines its definition**: under the decidable hypothesis `statP`,
for every statistic, filter setting, shape, data, selection kind, view kind, view, axis kind, set of
reduced axes and chunk limit, the result of the code path taken (chunk loop / no selection /
`SliceSubsetState` shortcut / minimal sub-array with padding / bail-out / empty mask) has the
documented shape and, in every cell, the NaN-aware statistic of the selected, filtered values. -/
theorem implStat_eq_spec (cfg : Cfg) (sh : List Nat) (data : Idx → Val) (sel : SelM) (vk : ViewKind)
    (v : List VItem) (ak : AxisKind) (red : List Bool) (nmax : Nat)
    (hP : statP cfg sh data sel vk v red = true) :
    (implStat cfg sh data sel vk v ak red nmax).shape = (specStat cfg sh data sel vk v red).shape ∧
    ∀ k, inRange k (specStat cfg sh data sel vk v red).shape = true →
      (implStat cfg sh data sel vk v ak red nmax).cell k = (specStat cfg sh data sel vk v red).cell k := by
  unfold statP at hP
  simp only [Bool.and_eq_true, List.all_eq_true, decide_eq_true_eq, beq_iff_eq, bne_iff_ne, ne_eq,
    Bool.or_eq_true] at hP
  obtain ⟨⟨⟨⟨⟨hpos, hl⟩, hview⟩, hne⟩, hsub⟩, hnan⟩ := hP
  by_cases hC : ((vk == ViewKind.none) && (ak == AxisKind.tuple) &&
      decide ((red.filter id).length > 0) && ((red.filter id).length + 1 == sh.length) &&
      decide (prod sh > nmax) && !sel.isSlice) = true
  · -- the chunk loop
    simp only [Bool.and_eq_true, beq_iff_eq, decide_eq_true_eq, Bool.not_eq_true'] at hC
    obtain ⟨⟨⟨⟨⟨hvk, hak⟩, hred0⟩, hcnt⟩, hsize⟩, hns⟩ := hC
    subst hvk; subst hak
    have hv : v = fullView sh := by
      rcases hview with h | h
      · exact absurd rfl h
      · exact h
    subst hv
    rw [viewShape'_fullView] at hl hne
    have hone : oneKept red = true := oneKept_of_count red (by omega)
    obtain ⟨_, hh, f3⟩ := kept_axis_facts red sh hone hl hpos
    have hns' : sel.isSlice = false := hns
    have hshape := implStat_chunked_shape cfg sh data sel red nmax hpos hl hns' hcnt hred0 hsize
    cases sel with
    | slice vs => simp [SelM.isSlice] at hns
    | none =>
      refine ⟨by rw [hshape]; simp [specStat, uStat, viewShape'_fullView], ?_⟩
      intro k hk
      simp only [specStat, uStat, viewShape'_fullView] at hk ⊢
      rw [f3] at hk
      obtain ⟨i, rfl, hi⟩ := inRange_singleton k _ hk
      rw [implStat_chunked_cell cfg sh data .none red nmax i hpos hl hns' hcnt hred0 hsize hi]
      simp only [canon, canonNA, canonMask, uStat, SelM.maskFn]
      rw [cellVals_na_switch cfg red sh data [i] (by
        rcases hnan with h | h
        · left; simpa [codeNanAware] using h
        · right
          intro t ht
          have := noNan_of_all sh (fun j => data (viewIdx (fullView sh) j))
            (by simpa [noNanInScope, viewShape'_fullView] using h) t ht
          simpa [viewIdx_fullView sh t ht] using this)]
      rw [cellVals_mask_range]
      congr 1
      apply cellVals_congr_range
      intro t ht
      simp [keepFn, viewIdx_fullView sh t ht]
    | mask m =>
      refine ⟨by rw [hshape]; simp [specStat, uStat, viewShape'_fullView], ?_⟩
      intro k hk
      simp only [specStat, uStat, viewShape'_fullView] at hk ⊢
      rw [f3] at hk
      obtain ⟨i, rfl, hi⟩ := inRange_singleton k _ hk
      rw [implStat_chunked_cell cfg sh data (.mask m) red nmax i hpos hl hns' hcnt hred0 hsize hi]
      simp only [canon, canonNA, canonMask, uStat, SelM.maskFn]
      congr 1
      apply cellVals_congr_range
      intro t ht
      simp [keepFn, viewIdx_fullView sh t ht]
  · -- no chunking: `implDirect`
    have hC' : ((vk == ViewKind.none) && (ak == AxisKind.tuple) &&
      decide ((red.filter id).length > 0) && ((red.filter id).length + 1 == sh.length) &&
      decide (prod sh > nmax) && !sel.isSlice) = false := by simpa using hC
    have himpl : implStat cfg sh data sel vk v ak red nmax = implDirect cfg data sel vk v red := by
      unfold implStat
      simp only [hC', Bool.false_eq_true, if_false]
    rw [himpl]
    cases sel with
    | none =>
      simp only [implDirect, uStatImpl, specStat, SelM.maskFn]
      rw [if_neg hne]
      refine ⟨rfl, ?_⟩
      intro k _
      simp only [uStat]
      rw [cellVals_na_switch cfg red (viewShape' v) (fun j => data (viewIdx v j)) k (by
        rcases hnan with h | h
        · left; simpa [codeNanAware] using h
        · right
          exact noNan_of_all (viewShape' v) (fun j => data (viewIdx v j))
            (by simpa [noNanInScope] using h))]
      rw [cellVals_mask_range]
    | mask m =>
      have hs : specStat cfg sh data (.mask m) vk v red =
          uStat cfg true red (viewShape' v) (fun j => data (viewIdx v j))
            (fun j => inRange j (viewShape' v) && m (viewIdx v j)) := by
        cases vk <;> rfl
      rw [hs]
      simp only [implDirect]
      refine ⟨by rw [implMasked_shape]; rfl, ?_⟩
      intro k hk
      exact implMasked_cell cfg data v red m k hl hk
    | slice vs =>
      by_cases hvk : vk = ViewKind.none
      · subst hvk
        have hv : v = fullView sh := by
          rcases hview with h | h
          · exact absurd rfl h
          · exact h
        subst hv
        rw [viewShape'_fullView] at hl
        simp only [implDirect, uStatImpl, specStat, beq_self_eq_true, if_true]
        by_cases hz : prod (subShape vs) = 0
        · simp [hz]
        · simp only [hz, if_false]
          refine ⟨rfl, ?_⟩
          intro k hk
          simp only [uStat] at hk ⊢
          rw [if_pos hk]
          rw [cellVals_na_switch cfg red (subShape vs) (fun j => data (subIdx vs j)) k (by
            rcases hnan with h | h
            · left; simpa [codeNanAware] using h
            · right
              exact noNan_of_all (subShape vs) (fun j => data (subIdx vs j))
                (by simpa [noNanInScope] using h))]
          rw [slice_shortcut_cell cfg sh data vs red k hl hsub hk]
      · have hs : specStat cfg sh data (.slice vs) vk v red =
            uStat cfg true red (viewShape' v) (fun j => data (viewIdx v j))
              (fun j => inRange j (viewShape' v) && subMask vs (viewIdx v j)) := by
          cases vk with
          | none => exact absurd rfl hvk
          | ellipsis => rfl
          | tuple => rfl
        rw [hs]
        have hi : implDirect cfg data (.slice vs) vk v red = implDirect.implMasked cfg data v red (subMask vs) := by
          cases vk with
          | none => exact absurd rfl hvk
          | ellipsis => rfl
          | tuple => rfl
        rw [hi]
        refine ⟨by rw [implMasked_shape]; rfl, ?_⟩
        intro k hk
        exact implMasked_cell cfg data v red (subMask vs) k hl hk

end GlueVerif.Lemmas.C10
