import GlueVerif.Lemmas.C11Joins
import GlueVerif.Lemmas.C11Shapes
/-!
Helper lemmas for C11, part 4: the coded join step is the by-value join step on well-formed worlds,
the model's output satisfies the oracle `specOk`, the pointwise reading of one join step, and
the unique-path (chain) lemma.
-/
namespace GlueVerif.Joins.Lemmas
open GlueVerif.Joins

theorem implJoinMask_good : JMGood Impl.joinMask := by
  intro kl kr n1 n2
  rw [implJoinMask_eq_jmOf]
  exact jmOf_good _ kl kr n1 n2

/-! ### membership helpers -/

theorem mem_applyView {α : Type} (v : View) (xs : List α) (x : α) (h : x ∈ applyView v xs) : x ∈ xs := by
  cases v with
  | none => exact h
  | some idx =>
    simp only [applyView, List.mem_filterMap] at h
    obtain ⟨i, _, hi⟩ := h
    exact List.mem_of_getElem? hi

theorem mem_select_iff {α : Type} : ∀ (xs : List α) (m : List Bool) (x : α),
    x ∈ select xs m ↔ ∃ r : Nat, xs[r]? = some x ∧ m[r]? = some true
  | [], m, x => by simp [select]
  | y :: xs, [], x => by simp [select]
  | y :: xs, b :: m, x => by
    have ih := mem_select_iff xs m x
    simp only [select, List.zip_cons_cons, List.filterMap_cons] at ih ⊢
    constructor
    · intro h
      cases b with
      | true =>
        simp only [if_true, List.mem_cons] at h
        rcases h with rfl | h
        · exact ⟨0, by simp, by simp⟩
        · obtain ⟨r, h1, h2⟩ := ih.mp h
          exact ⟨r + 1, by simpa using h1, by simpa using h2⟩
      | false =>
        simp only [Bool.false_eq_true, if_false] at h
        obtain ⟨r, h1, h2⟩ := ih.mp h
        exact ⟨r + 1, by simpa using h1, by simpa using h2⟩
    · rintro ⟨r, h1, h2⟩
      cases r with
      | zero =>
        simp only [List.getElem?_cons_zero, Option.some.injEq] at h1 h2
        subst h1 h2
        simp
      | succ r =>
        simp only [List.getElem?_cons_succ] at h1 h2
        have := ih.mpr ⟨r, h1, h2⟩
        cases b <;> simp [this]

theorem mem_select {α : Type} (xs : List α) (m : List Bool) (x : α) (h : x ∈ select xs m) : x ∈ xs := by
  obtain ⟨r, h1, _⟩ := (mem_select_iff xs m x).mp h
  exact List.mem_of_getElem? h1

theorem any_congr_mem {α : Type} (p q : α → Bool) : ∀ xs : List α, (∀ x ∈ xs, p x = q x) → xs.any p = xs.any q
  | [], _ => rfl
  | x :: xs, h => by
    simp only [List.any_cons]
    rw [h x (by simp), any_congr_mem p q xs (fun y hy => h y (List.mem_cons_of_mem _ hy))]

/-! ### the coded join step is the by-value join step -/

theorem propagate_impl_eq_spec (L : Dataset) (j : Join) (R : Dataset) (mR : List Bool) (v : View)
    (h : joinOk L j R = true) :
    propagate Impl.joinMask L j R mR v = propagate Np.joinMask L j R mR v := by
  unfold propagate
  rw [implJoinMask_eq_jmOf]
  unfold Np.joinMask jmOf
  split
  · congr 1
    apply List.map_congr_left
    intro l hl
    apply any_congr_mem
    intro r hr
    obtain ⟨lrow, hlrow, rfl⟩ := List.mem_map.mp hl
    obtain ⟨rrow, hrrow, rfl⟩ := List.mem_map.mp hr
    have hlm := mem_applyView v L.rows lrow hlrow
    have hrm := mem_select R.rows mR rrow hrrow
    apply implRowMatch_eq_spec _ _ _ _ (rowKeys_length_le _ _ _) (rowKeys_length_le _ _ _)
    intro hnn h1
    simp only [joinOk, Bool.and_eq_true, Bool.or_eq_true, bne_iff_ne, ne_eq, beq_iff_eq,
      List.all_eq_true] at h
    rcases h.2 with (h2 | h2) | h2
    · exact absurd hnn h2
    · exact absurd h2 h1
    · exact h2 lrow hlm rrow hrm
  · rfl

theorem worldOk_joinOk (w : World) (hw : worldOk w = true) (L : Dataset) (hL : L ∈ w) (j : Join)
    (hj : j ∈ L.joins) (R : Dataset) (hR : w[j.other]? = some R) : joinOk L j R = true := by
  simp only [worldOk, List.all_eq_true] at hw
  have := hw L hL j hj
  rw [hR] at this
  exact this

theorem worldOk_arity (w : World) (hw : worldOk w = true) (L : Dataset) (hL : L ∈ w) (j : Join)
    (hj : j ∈ L.joins) : arityOk j.own.length j.oth.length = true := by
  simp only [worldOk, List.all_eq_true] at hw
  have := hw L hL j hj
  cases hR : w[j.other]? with
  | none => rw [hR] at this; cases this
  | some R =>
    rw [hR] at this
    simp only [joinOk, Bool.and_eq_true] at this
    exact this.1

theorem getMask_impl_eq_spec (w : World) (hw : worldOk w = true) (fuel d : Nat) (G : List Nat) (v : View) :
    getMask Impl.joinMask w fuel d G v = getMask Np.joinMask w fuel d G v :=
  getMask_congr_jm _ _ w
    (fun L hL j hj R hR mR v => propagate_impl_eq_spec L j R mR v (worldOk_joinOk w hw L hL j hj R hR))
    fuel d G v

/-! ### numpy's promoted comparison is exact comparison when every promotion is value-preserving -/

theorem all_congr_mem {α : Type} (p q : α → Bool) : ∀ xs : List α, (∀ x ∈ xs, p x = q x) → xs.all p = xs.all q
  | [], _ => rfl
  | x :: xs, h => by
    simp only [List.all_cons]
    rw [h x (by simp), all_congr_mem p q xs (fun y hy => h y (List.mem_cons_of_mem _ hy))]

theorem veqX_eq_veq (a b : Key) (h : exactPair a b = true) : veqX a b = veq a b := by
  simp [veqX, h]

theorem veqXO_eq_veqO (a b : Option Key) (h : exactPairO a b = true) : veqXO a b = veqO a b := by
  cases a with
  | none => rfl
  | some a =>
    cases b with
    | none => rfl
    | some b => exact veqX_eq_veq a b h

/-- Exact equality implies numpy equality: promotion can only *add* matches. -/
theorem veq_of_veqX (a b : Key) (h : veqX a b = true) : veq a b = true := by
  simp only [veqX, Bool.and_eq_true] at h
  exact h.1

theorem npRowMatch_eq_spec (n1 n2 : Nat) (l r : List Key) (h : exactRows n1 n2 l r = true) :
    Np.rowMatch n1 n2 l r = Spec.rowMatch n1 n2 l r := by
  unfold Np.rowMatch Spec.rowMatch
  unfold exactRows at h
  by_cases h11 : n1 = 1 ∧ n2 = 1
  · simp only [h11, and_self, if_true] at h ⊢
    exact (veqXO_eq_veqO _ _ h).symm
  · simp only [h11, if_false] at h ⊢
    by_cases hnn : n1 = n2
    · simp only [hnn, if_true] at h ⊢
      rw [List.all_eq_true] at h
      exact all_congr_mem _ _ _ (fun p hp => (veqX_eq_veq _ _ (h p hp)).symm)
    · simp only [hnn, if_false] at h ⊢
      by_cases h1 : n1 = 1
      · simp only [h1, if_true] at h ⊢
        rw [List.all_eq_true] at h
        exact any_congr_mem _ _ _ (fun b hb => (veqXO_eq_veqO _ _ (h b hb)).symm)
      · simp only [h1, if_false] at h ⊢
        rw [List.all_eq_true] at h
        exact any_congr_mem _ _ _ (fun a ha => (veqXO_eq_veqO _ _ (h a ha)).symm)

theorem propagate_np_eq_spec (L : Dataset) (j : Join) (R : Dataset) (mR : List Bool) (v : View)
    (h : exactJoin L j R = true) :
    propagate Np.joinMask L j R mR v = propagate Spec.joinMask L j R mR v := by
  unfold propagate Np.joinMask Spec.joinMask jmOf
  split
  · congr 1
    apply List.map_congr_left
    intro l hl
    apply any_congr_mem
    intro r hr
    obtain ⟨lrow, hlrow, rfl⟩ := List.mem_map.mp hl
    obtain ⟨rrow, hrrow, rfl⟩ := List.mem_map.mp hr
    have hlm := mem_applyView v L.rows lrow hlrow
    have hrm := mem_select R.rows mR rrow hrrow
    simp only [exactJoin, List.all_eq_true] at h
    exact npRowMatch_eq_spec _ _ _ _ (h lrow hlm rrow hrm)
  · rfl

theorem exactOk_exactJoin (w : World) (hx : exactOk w = true) (L : Dataset) (hL : L ∈ w) (j : Join)
    (hj : j ∈ L.joins) (R : Dataset) (hR : w[j.other]? = some R) : exactJoin L j R = true := by
  simp only [exactOk, List.all_eq_true] at hx
  have := hx L hL j hj
  rw [hR] at this
  exact this

theorem getMask_np_eq_spec (w : World) (hx : exactOk w = true) (fuel d : Nat) (G : List Nat) (v : View) :
    getMask Np.joinMask w fuel d G v = getMask Spec.joinMask w fuel d G v :=
  getMask_congr_jm _ _ w
    (fun L hL j hj R hR mR v => propagate_np_eq_spec L j R mR v (exactOk_exactJoin w hx L hL j hj R hR))
    fuel d G v

/-! ### on well-formed worlds every admissible path yields a mask -/

theorem along_paths_is_mask (f : Nat → Nat → List Key → List Key → Bool) (w : World)
    (har : ∀ L ∈ w, ∀ j ∈ L.joins, arityOk j.own.length j.oth.length = true) :
    ∀ fuel d G v p, p ∈ paths w fuel d G → ∃ m, along (jmOf f) w p.1 p.2 v = .mask m := by
  intro fuel
  induction fuel with
  | zero => intro d G v p h; simp [paths] at h
  | succ fuel ih =>
    intro d G v p hp
    rw [paths] at hp
    cases hds : w[d]? with
    | none => rw [hds] at hp; simp at hp
    | some ds =>
      rw [hds] at hp
      simp only at hp
      cases hown : ds.ownMask with
      | some m =>
        rw [hown] at hp
        simp only [List.mem_singleton] at hp
        subst hp
        exact ⟨applyView v m, by simp [along, hds, hown]⟩
      | none =>
        rw [hown] at hp
        simp only at hp
        rw [List.mem_flatMap] at hp
        obtain ⟨j, hj, hp⟩ := hp
        split at hp
        · simp at hp
        · rw [List.mem_map] at hp
          obtain ⟨q, hq, rfl⟩ := hp
          obtain ⟨mR, hmR⟩ := ih j.other (d :: G) none q hq
          obtain ⟨R, hR⟩ := paths_ne_nil_lookup w fuel j.other (d :: G) (List.ne_nil_of_mem hq)
          simp only [along, hmR, hds, hR]
          have ha := har ds (List.mem_of_getElem? hds) j hj
          simp only [propagate, jmOf, ha, if_true]
          exact ⟨_, rfl⟩

/-- **The model's output satisfies the oracle**: on a well-formed world, what `get_mask` computes
(the coded shapes, the byte path, the `_recursing` DFS) is accepted by `specOk` — the by-value
propagation along an admissible join path, or `incompatible` when there is none. -/
theorem specOk_impl (w : World) (d : Nat) (v : View) (hw : worldOk w = true) (hx : exactOk w = true) :
    specOk w d v (Impl.getMask w d v) = true := by
  unfold Impl.getMask
  rw [getMask_impl_eq_spec w hw, getMask_np_eq_spec w hx]
  have hfirst := getMask_eq_first Spec.joinMask (jmOf_good _) w (w.length + 1) d [] v (by simp)
    (by have := unflagged_le w []; omega)
  rw [hfirst]
  unfold specOk
  cases hps : paths w (w.length + 1) d [] with
  | nil => simp [firstAlong]
  | cons p ps =>
    obtain ⟨m, hm⟩ := along_paths_is_mask Spec.rowMatch w
      (fun L hL j hj => worldOk_arity w hw L hL j hj) (w.length + 1) d [] v p (by rw [hps]; simp)
    simp only [firstAlong]
    have hm' : along Spec.joinMask w p.1 p.2 v = .mask m := hm
    rw [hm']
    simp [hm']

/-! ### pointwise reading of one join step -/

/-- One join step with a row test `f`, without a view: the mask has one entry per row of the left
dataset, and row `i` is selected iff some selected row of the partner passes the test. -/
theorem propagate_jmOf_iff (f : Nat → Nat → List Key → List Key → Bool) (L : Dataset) (j : Join) (R : Dataset)
    (mR : List Bool) (har : arityOk j.own.length j.oth.length = true) :
    ∃ m, propagate (jmOf f) L j R mR none = .mask m ∧ m.length = L.rows.length ∧
      ∀ (i : Nat) (lrow : List Cell), L.rows[i]? = some lrow →
        (m[i]? = some true ↔ ∃ (r : Nat) (rrow : List Cell), R.rows[r]? = some rrow ∧ mR[r]? = some true ∧
          f j.own.length j.oth.length (rowKeys L.dts j.own lrow) (rowKeys R.dts j.oth rrow) = true) := by
  refine ⟨(L.rows.map (rowKeys L.dts j.own)).map (fun l =>
    ((select R.rows mR).map (rowKeys R.dts j.oth)).any (f j.own.length j.oth.length l)), ?_, by simp, ?_⟩
  · simp only [propagate, jmOf, har, if_true, applyView]
  intro i lrow hi
  simp only [List.getElem?_map, hi, Option.map_some, Option.some.injEq, List.any_eq_true,
    List.mem_map]
  constructor
  · rintro ⟨_, ⟨rrow, hrrow, rfl⟩, hf⟩
    obtain ⟨r, h1, h2⟩ := (mem_select_iff _ _ _).mp hrrow
    exact ⟨r, rrow, h1, h2, hf⟩
  · rintro ⟨r, rrow, h1, h2, hf⟩
    exact ⟨_, ⟨rrow, (mem_select_iff _ _ _).mpr ⟨r, h1, h2⟩, rfl⟩, hf⟩

/-- The same for the coded branches, with membership by value as the row test. -/
theorem propagate_impl_iff (L : Dataset) (j : Join) (R : Dataset) (mR : List Bool) (hok : joinOk L j R = true) :
    ∃ m, propagate Impl.joinMask L j R mR none = .mask m ∧ m.length = L.rows.length ∧
      ∀ (i : Nat) (lrow : List Cell), L.rows[i]? = some lrow →
        (m[i]? = some true ↔ ∃ (r : Nat) (rrow : List Cell), R.rows[r]? = some rrow ∧ mR[r]? = some true ∧
          Np.rowMatch j.own.length j.oth.length (rowKeys L.dts j.own lrow) (rowKeys R.dts j.oth rrow) = true) := by
  rw [propagate_impl_eq_spec L j R mR none hok]
  have har : arityOk j.own.length j.oth.length = true := by
    simp only [joinOk, Bool.and_eq_true] at hok
    exact hok.1
  exact propagate_jmOf_iff Np.rowMatch L j R mR har

theorem rowKeys_single (dts : List DType) (row : List Cell) (c : Nat) :
    (rowKeys dts [c] row)[0]? = keyOf dts row c := by
  unfold rowKeys
  simp only [List.filterMap_cons, List.filterMap_nil]
  cases keyOf dts row c <;> rfl

/-! ### `paths` enumerates exactly the declarative join paths -/

theorem joinPath_of_mem_paths (w : World) : ∀ fuel d G steps e,
    (steps, e) ∈ paths w fuel d G → JoinPath w d G steps e := by
  intro fuel
  induction fuel with
  | zero => intro d G steps e h; simp [paths] at h
  | succ fuel ih =>
    intro d G steps e hp
    rw [paths] at hp
    cases hds : w[d]? with
    | none => rw [hds] at hp; simp at hp
    | some ds =>
      rw [hds] at hp
      simp only at hp
      cases hown : ds.ownMask with
      | some m =>
        rw [hown] at hp
        simp only [List.mem_singleton, Prod.mk.injEq] at hp
        obtain ⟨rfl, rfl⟩ := hp
        exact JoinPath.here _ G ds m hds hown
      | none =>
        rw [hown] at hp
        simp only at hp
        rw [List.mem_flatMap] at hp
        obtain ⟨j, hj, hp⟩ := hp
        split at hp
        · simp at hp
        · rename_i hskip
          rw [List.mem_map] at hp
          obtain ⟨q, hq, heq⟩ := hp
          simp only [Prod.mk.injEq] at heq
          obtain ⟨rfl, rfl⟩ := heq
          exact JoinPath.step d G ds j q.1 q.2 hds hown hj (fun h => hskip (Or.inl h))
            (fun h => hskip (Or.inr h)) (ih j.other (d :: G) q.1 q.2 hq)

theorem mem_paths_of_joinPath (w : World) (d : Nat) (G : List Nat) (steps : List (Nat × Join)) (e : Nat)
    (h : JoinPath w d G steps e) : ∀ fuel, steps.length < fuel → (steps, e) ∈ paths w fuel d G := by
  induction h with
  | here d G ds m hds hown =>
    intro fuel hf
    cases fuel with
    | zero => simp at hf
    | succ fuel =>
      rw [paths]
      simp only [hds, hown, List.mem_singleton]
  | step d G ds j steps e hds hown hj hne hng _ ih =>
    intro fuel hf
    cases fuel with
    | zero => simp at hf
    | succ fuel =>
      rw [paths]
      simp only [hds, hown, List.mem_flatMap]
      refine ⟨j, hj, ?_⟩
      have hskip : ¬ (j.other = d ∨ j.other ∈ G) := by
        rintro (h | h)
        · exact hne h
        · exact hng h
      simp only [hskip, if_false, List.mem_map]
      exact ⟨(steps, e), ih fuel (by simp at hf; omega), rfl⟩

/-- A simple path that avoids `G` and starts at an unflagged dataset is shorter than the number of
unflagged datasets. -/
theorem joinPath_length (w : World) (d : Nat) (G : List Nat) (steps : List (Nat × Join)) (e : Nat)
    (h : JoinPath w d G steps e) : d ∉ G → steps.length < unflagged w G := by
  induction h with
  | here d G ds m hds hown =>
    intro hd
    have hdl : d < w.length := (List.getElem?_eq_some_iff.mp hds).1
    have := unflagged_cons w G d hd hdl
    simp only [List.length_nil]
    omega
  | step d G ds j steps e hds hown hj hne hng _ ih =>
    intro hd
    have hdl : d < w.length := (List.getElem?_eq_some_iff.mp hds).1
    have h1 := unflagged_cons w G d hd hdl
    have h2 := ih (by simp [hne, hng])
    simp only [List.length_cons]
    omega

/-! ### chains: a unique admissible path -/

/-- `steps` (ending at the evaluator `e`) is the only way the DFS can go from its first dataset:
every dataset on it cannot evaluate the selection, its join `j` leads to the next dataset, and all
its other joins lead back to datasets already on the path (or in `G`, or to itself). -/
def IsChain (w : World) : List Nat → List (Nat × Join) → Nat → Prop
  | _, [], e => ∃ ds, w[e]? = some ds ∧ ds.ownMask.isSome = true
  | G, (d, j) :: rest, e =>
    ∃ ds, w[d]? = some ds ∧ ds.ownMask = none ∧ j ∈ ds.joins ∧ j.other ≠ d ∧ j.other ∉ G ∧
      (∀ j' ∈ ds.joins, j' = j ∨ j'.other = d ∨ j'.other ∈ G) ∧
      j.other = (match rest with | [] => e | s :: _ => s.1) ∧
      IsChain w (d :: G) rest e

def chainStart (steps : List (Nat × Join)) (e : Nat) : Nat :=
  match steps with
  | [] => e
  | s :: _ => s.1

theorem flatMap_head_of_only {α β : Type} (F : α → List β) (j : α) (q : β) (qs : List β) (hF : F j = q :: qs) :
    ∀ js : List α, j ∈ js → (∀ j' ∈ js, j' = j ∨ F j' = []) → ∃ rest, js.flatMap F = q :: rest
  | [], h, _ => by simp at h
  | j' :: js, hmem, hall => by
    rw [List.flatMap_cons]
    rcases hall j' (by simp) with rfl | hnil
    · rw [hF]
      exact ⟨_, rfl⟩
    · rw [hnil, List.nil_append]
      have hj : j ∈ js := by
        rcases List.mem_cons.mp hmem with rfl | h
        · rw [hF] at hnil; cases hnil
        · exact h
      exact flatMap_head_of_only F j q qs hF js hj (fun x hx => hall x (List.mem_cons_of_mem _ hx))

theorem paths_of_chain (w : World) : ∀ (steps : List (Nat × Join)) (e : Nat) (G : List Nat) (fuel : Nat),
    IsChain w G steps e → steps.length < fuel →
    ∃ rest, paths w fuel (chainStart steps e) G = (steps, e) :: rest
  | [], e, G, fuel, h, hf => by
    obtain ⟨ds, hds, hown⟩ := h
    cases fuel with
    | zero => simp at hf
    | succ fuel =>
      simp only [chainStart]
      rw [paths]
      cases ho : ds.ownMask with
      | none => rw [ho] at hown; cases hown
      | some m =>
        simp only [hds, ho]
        exact ⟨[], rfl⟩
  | (d, j) :: rest, e, G, fuel, h, hf => by
    obtain ⟨ds, hds, hown, hj, hne, hng, hall, hnext, hrest⟩ := h
    cases fuel with
    | zero => simp at hf
    | succ fuel =>
      simp only [chainStart]
      rw [paths]
      simp only [hds, hown]
      have hlen : rest.length < fuel := by simp at hf; omega
      obtain ⟨tl, htl⟩ := paths_of_chain w rest e (d :: G) fuel hrest hlen
      have hstart : chainStart rest e = j.other := by
        rw [hnext]; cases rest <;> rfl
      rw [hstart] at htl
      have hskip : ¬ (j.other = d ∨ j.other ∈ G) := by
        rintro (h | h)
        · exact hne h
        · exact hng h
      have hF : (fun j : Join => if j.other = d ∨ j.other ∈ G then []
          else List.map (fun p => ((d, j) :: p.fst, p.snd)) (paths w fuel j.other (d :: G))) j =
          ((d, j) :: rest, e) :: List.map (fun p => ((d, j) :: p.fst, p.snd)) tl := by
        simp only [hskip, if_false, htl, List.map_cons]
      exact flatMap_head_of_only _ j _ _ hF ds.joins hj (fun j' hj' => by
        rcases hall j' hj' with rfl | hskip'
        · exact Or.inl rfl
        · right
          simp only [hskip', if_true])

/-- **Chains**: along a chain the answer is the composition of the single join steps. -/
theorem getMask_chain (jm : JoinMaskFn) (hjm : JMGood jm) (w : World) (steps : List (Nat × Join)) (e : Nat)
    (G : List Nat) (fuel : Nat) (v : View) (hc : IsChain w G steps e)
    (hd : chainStart steps e ∉ G) (hf1 : steps.length < fuel) (hf2 : unflagged w G < fuel) :
    getMask jm w fuel (chainStart steps e) G v = along jm w steps e v := by
  rw [getMask_eq_first jm hjm w fuel _ G v hd hf2]
  obtain ⟨rest, hrest⟩ := paths_of_chain w steps e G fuel hc hf1
  rw [hrest]
  rfl

end GlueVerif.Joins.Lemmas
