import GlueVerif.Lemmas.C05Eval
/-!
C05 — the object graph under mutation.

* `exprOf` (computable) is exactly `Rep`: `exprOf_sound`, `exprOf_complete`, `denoteNow_of_rep`;
* `Reach g n f n' f'`: the evaluation of `(n, f)` can call `(n', f')`; `cleanBelow_cohOn`: the run-time
  check implies coherence on everything reachable;
* frame lemmas for `setAttrG` / `editParamG`: an object that cannot reach the mutated object keeps its
  value; every object keeps *a* value.
-/
namespace GlueVerif.C05Cache
open GlueVerif.SubsetEval

/-! ## `exprOf` is `Rep` -/

theorem mapOpt_sound {f : Nat → Option Expr} {g : Graph} {b : Nat}
    (hf : ∀ c e, f c = some e → Rep g c e) :
    ∀ (cs : List Nat) (es : List Expr), mapOpt f cs = some es → (∀ c ∈ cs, c < b) → RepList g b cs es
  | [], es, h, _ => by simp only [mapOpt, Option.some.injEq] at h; subst h; simp only [RepList]
  | c :: cs, es, h, hb => by
    simp only [mapOpt] at h
    cases hc : f c with
    | none => rw [hc] at h; cases h
    | some e =>
      cases hcs : mapOpt f cs with
      | none => rw [hc, hcs] at h; cases h
      | some es' =>
        rw [hc, hcs] at h
        simp only [Option.some.injEq] at h; subst h
        simp only [RepList]
        exact ⟨hb c (by simp), hf c e hc, mapOpt_sound hf cs es' hcs (fun c' hc' => hb c' (by simp [hc']))⟩

theorem mapOpt_ne_nil {f : Nat → Option Expr} : ∀ (cs : List Nat) (es : List Expr),
    mapOpt f cs = some es → cs ≠ [] → es ≠ []
  | [], _, _, hne => absurd rfl hne
  | c :: cs, es, h, _ => by
    simp only [mapOpt] at h
    cases hc : f c with
    | none => rw [hc] at h; cases h
    | some e =>
      cases hcs : mapOpt f cs with
      | none => rw [hc, hcs] at h; cases h
      | some es' => rw [hc, hcs] at h; simp only [Option.some.injEq] at h; subst h; simp

theorem exprOf_sound (g : Graph) : ∀ (fuel : Nat) (n : Nat) (e : Expr), exprOf g fuel n = some e → Rep g n e := by
  intro fuel
  induction fuel with
  | zero => intro n e h; simp only [exprOf] at h; cases h
  | succ fuel ih =>
    intro n e h
    simp only [exprOf] at h
    cases hn : g.nodes[n]? with
    | none => rw [hn] at h; cases h
    | some nd =>
      rw [hn] at h
      cases nd with
      | leaf k p =>
        dsimp only at h
        cases hp : g.params[p]? with
        | none => rw [hp] at h; cases h
        | some c =>
          rw [hp] at h; simp only [Option.some.injEq] at h; subst h
          simp only [Rep]; exact ⟨k, p, hn, hp⟩
      | bin op l r =>
        dsimp only at h
        split at h
        · rename_i hlt
          cases hl : exprOf g fuel l with
          | none => rw [hl] at h; cases h
          | some a =>
            cases hr : exprOf g fuel r with
            | none => rw [hl, hr] at h; cases h
            | some b =>
              rw [hl, hr] at h; simp only [Option.some.injEq] at h; subst h
              simp only [Rep]
              exact ⟨l, r, hn, hlt.1, hlt.2, ih l a hl, ih r b hr⟩
        · cases h
      | inv c =>
        dsimp only at h
        split at h
        · rename_i hlt
          cases hc : exprOf g fuel c with
          | none => rw [hc] at h; cases h
          | some a =>
            rw [hc] at h; simp only [Option.some.injEq] at h; subst h
            simp only [Rep]
            exact ⟨c, hn, hlt, ih c a hc⟩
        · cases h
      | multiOr lst =>
        dsimp only at h
        cases hl : g.lists[lst]? with
        | none => rw [hl] at h; cases h
        | some cs =>
          rw [hl] at h
          dsimp only at h
          split at h
          · rename_i hok
            cases hm : mapOpt (exprOf g fuel) cs with
            | none => rw [hm] at h; cases h
            | some es =>
              rw [hm] at h; simp only [Option.some.injEq] at h; subst h
              simp only [Rep]
              refine ⟨lst, cs, hn, hl, mapOpt_ne_nil cs es hm hok.1, ?_⟩
              refine mapOpt_sound (fun c e hc => ih c e hc) cs es hm ?_
              intro c hc
              have := List.all_eq_true.mp hok.2 c hc
              simpa using this
          · cases h

theorem mapOpt_complete {f : Nat → Option Expr} {g : Graph} {b : Nat} {es0 : List Expr}
    (hf : ∀ c e, e ∈ es0 → Rep g c e → f c = some e) :
    ∀ (cs : List Nat) (es : List Expr), (∀ e ∈ es, e ∈ es0) → RepList g b cs es →
      mapOpt f cs = some es ∧ (∀ c ∈ cs, c < b)
  | [], [], _, _ => ⟨rfl, fun _ h => by cases h⟩
  | c :: cs, e :: es, hsub, h => by
    simp only [RepList] at h
    obtain ⟨h1, h2⟩ := mapOpt_complete hf cs es (fun e' he' => hsub e' (by simp [he'])) h.2.2
    refine ⟨?_, ?_⟩
    · simp only [mapOpt, hf c e (hsub e (by simp)) h.2.1, h1]
    · intro c' hc'
      rcases List.mem_cons.mp hc' with rfl | hm
      · exact h.1
      · exact h2 c' hm
  | [], _ :: _, _, h => by simp only [RepList] at h
  | _ :: _, [], _, h => by simp only [RepList] at h

theorem depth_lt_of_mem : ∀ (es : List Expr) (e : Expr), e ∈ es → e.depth ≤ depthList es
  | [], _, h => by cases h
  | x :: xs, e, h => by
    simp only [depthList]
    rcases List.mem_cons.mp h with rfl | hm
    · omega
    · have := depth_lt_of_mem xs e hm; omega

theorem exprOf_complete (g : Graph) : ∀ (fuel : Nat) (e : Expr) (n : Nat), Rep g n e → e.depth < fuel →
    exprOf g fuel n = some e := by
  intro fuel
  induction fuel with
  | zero => intro e n _ hd; omega
  | succ fuel ih =>
    intro e n hrep hd
    cases e with
    | leaf c =>
      simp only [Rep] at hrep
      obtain ⟨k, p, h1, h2⟩ := hrep
      simp only [exprOf, h1, h2]
    | bin op a b =>
      simp only [Rep] at hrep
      obtain ⟨l, r, h1, hl, hr, ha, hb⟩ := hrep
      simp only [Expr.depth] at hd
      simp only [exprOf, h1, hl, hr, and_self, if_true, ih a l ha (by omega), ih b r hb (by omega)]
    | inv a =>
      simp only [Rep] at hrep
      obtain ⟨c, h1, hc, ha⟩ := hrep
      simp only [Expr.depth] at hd
      simp only [exprOf, h1, hc, if_true, ih a c ha (by omega)]
    | multiOr es =>
      simp only [Rep] at hrep
      obtain ⟨lst, cs, h1, h2, hne, h3⟩ := hrep
      simp only [Expr.depth] at hd
      have hm := mapOpt_complete (f := exprOf g fuel) (es0 := es) (g := g) (b := n)
        (fun c e he hr => ih e c hr (by have := depth_lt_of_mem es e he; omega)) cs es (fun _ h => h) h3
      have hcsne : cs ≠ [] := by
        intro hh; subst hh
        cases es with
        | nil => exact hne rfl
        | cons _ _ => simp only [RepList] at h3
      have hall : cs.all (· < n) = true := by
        rw [List.all_eq_true]; intro c hc; simpa using hm.2 c hc
      simp only [exprOf, h1, h2, hm.1, hall, hcsne, ne_eq, not_false_eq_true, and_self, if_true]

/-- The computable demanded result is `denote` of the value the object stands for. -/
theorem denoteNow_of_rep {env : Env} {g : Graph} {n : Nat} {e : Expr} (h : Rep g n e) (d : DataId) (v : View) :
    denoteNow env g n d v = e.denote env d v := by
  simp only [denoteNow, exprOf_complete g g.fuel e n h h.depth_lt_fuel]

theorem rep_of_denoteNow_ok {env : Env} {g : Graph} {n : Nat} {d : DataId} {v : View} {m : Mask}
    (h : denoteNow env g n d v = .ok m) : ∃ e, Rep g n e ∧ e.denote env d v = .ok m := by
  simp only [denoteNow] at h
  cases he : exprOf g g.fuel n with
  | none => rw [he] at h; cases h
  | some e => rw [he] at h; exact ⟨e, exprOf_sound g _ n e he, h⟩

/-! ## What an evaluation can reach -/

/-- `Reach g n f n' f'`: evaluating object `n` in call form `f` can call `to_mask` of object `n'` in
call form `f'` (operands of And/Or/Xor/Invert positionally, members of a many-way or by keyword). -/
inductive Reach (g : Graph) (n : NodeId) (f : Form) : NodeId → Form → Prop where
  | refl : Reach g n f n f
  | binL {m : NodeId} {f' : Form} {op : BinOp} {l r : NodeId} :
      Reach g n f m f' → g.nodes[m]? = some (.bin op l r) → Reach g n f l .pos
  | binR {m : NodeId} {f' : Form} {op : BinOp} {l r : NodeId} :
      Reach g n f m f' → g.nodes[m]? = some (.bin op l r) → Reach g n f r .pos
  | inv {m : NodeId} {f' : Form} {c : NodeId} :
      Reach g n f m f' → g.nodes[m]? = some (.inv c) → Reach g n f c .pos
  | mor {m : NodeId} {f' : Form} {lst : ListId} {cs : List NodeId} {c : NodeId} :
      Reach g n f m f' → g.nodes[m]? = some (.multiOr lst) → g.lists[lst]? = some cs → c ∈ cs →
      Reach g n f c .kw

theorem Reach.closed (g : Graph) (n : NodeId) (f : Form) : Closed g (Reach g n f) :=
  ⟨fun _ _ _ _ _ hs hn => ⟨.binL hs hn, .binR hs hn⟩, fun _ _ _ hs hn => .inv hs hn,
   fun _ _ _ _ _ hs hn hl hc => .mor hs hn hl hc⟩

theorem Reach.trans {g : Graph} {n : NodeId} {f : Form} {m : NodeId} {f' : Form} {k : NodeId} {f'' : Form}
    (h1 : Reach g n f m f') (h2 : Reach g m f' k f'') : Reach g n f k f'' := by
  induction h2 with
  | refl => exact h1
  | binL _ hn ih => exact .binL ih hn
  | binR _ hn ih => exact .binR ih hn
  | inv _ hn ih => exact .inv ih hn
  | mor _ hn hl hc ih => exact .mor ih hn hl hc

theorem RepList.mem {g : Graph} {b : Nat} : ∀ (cs : List Nat) (es : List Expr), RepList g b cs es →
    ∀ c ∈ cs, ∃ e, Rep g c e
  | [], [], _, _, h => by cases h
  | c :: cs, e :: es, h, c', hc' => by
    simp only [RepList] at h
    rcases List.mem_cons.mp hc' with rfl | hm
    · exact ⟨e, h.2.1⟩
    · exact RepList.mem cs es h.2.2 c' hm
  | [], _ :: _, h, _, _ => by simp only [RepList] at h
  | _ :: _, [], h, _, _ => by simp only [RepList] at h

/-- Everything below an object that stands for a value stands for a value. -/
theorem rep_of_reach {g : Graph} {n : NodeId} {f : Form} {n' : NodeId} {f' : Form} (hr : Reach g n f n' f') :
    ∀ {e : Expr}, Rep g n e → ∃ e', Rep g n' e' := by
  induction hr with
  | refl => intro e h; exact ⟨e, h⟩
  | binL _ hn ih =>
    intro e h
    obtain ⟨em, hm⟩ := ih h
    cases em with
    | bin op a b =>
      simp only [Rep] at hm; obtain ⟨l', r', h1, _, _, ha, _⟩ := hm
      rw [h1] at hn; cases hn; exact ⟨a, ha⟩
    | leaf _ => simp only [Rep] at hm; obtain ⟨_, _, h1, _⟩ := hm; rw [h1] at hn; cases hn
    | inv _ => simp only [Rep] at hm; obtain ⟨_, h1, _⟩ := hm; rw [h1] at hn; cases hn
    | multiOr _ => simp only [Rep] at hm; obtain ⟨_, _, h1, _⟩ := hm; rw [h1] at hn; cases hn
  | binR _ hn ih =>
    intro e h
    obtain ⟨em, hm⟩ := ih h
    cases em with
    | bin op a b =>
      simp only [Rep] at hm; obtain ⟨l', r', h1, _, _, _, hb⟩ := hm
      rw [h1] at hn; cases hn; exact ⟨b, hb⟩
    | leaf _ => simp only [Rep] at hm; obtain ⟨_, _, h1, _⟩ := hm; rw [h1] at hn; cases hn
    | inv _ => simp only [Rep] at hm; obtain ⟨_, h1, _⟩ := hm; rw [h1] at hn; cases hn
    | multiOr _ => simp only [Rep] at hm; obtain ⟨_, _, h1, _⟩ := hm; rw [h1] at hn; cases hn
  | inv _ hn ih =>
    intro e h
    obtain ⟨em, hm⟩ := ih h
    cases em with
    | inv a =>
      simp only [Rep] at hm; obtain ⟨c', h1, _, ha⟩ := hm
      rw [h1] at hn; cases hn; exact ⟨a, ha⟩
    | leaf _ => simp only [Rep] at hm; obtain ⟨_, _, h1, _⟩ := hm; rw [h1] at hn; cases hn
    | bin _ _ _ => simp only [Rep] at hm; obtain ⟨_, _, h1, _⟩ := hm; rw [h1] at hn; cases hn
    | multiOr _ => simp only [Rep] at hm; obtain ⟨_, _, h1, _⟩ := hm; rw [h1] at hn; cases hn
  | mor _ hn hl hc ih =>
    intro e h
    obtain ⟨em, hm⟩ := ih h
    cases em with
    | multiOr es =>
      simp only [Rep] at hm; obtain ⟨lst', cs', h1, h2, _, h3⟩ := hm
      rw [h1] at hn; cases hn; rw [h2] at hl; cases hl
      exact RepList.mem _ es h3 _ hc
    | leaf _ => simp only [Rep] at hm; obtain ⟨_, _, h1, _⟩ := hm; rw [h1] at hn; cases hn
    | bin _ _ _ => simp only [Rep] at hm; obtain ⟨_, _, h1, _⟩ := hm; rw [h1] at hn; cases hn
    | inv _ => simp only [Rep] at hm; obtain ⟨_, h1, _⟩ := hm; rw [h1] at hn; cases hn

/-- The run-time check reaches everything `Reach` does. -/
theorem cleanBelow_reach {tbl : ClassTable} {env : Env} {h : Heap} {d : DataId} {v : View}
    {n : NodeId} {f : Form} {n' : NodeId} {f' : Form} (hr : Reach h.g n f n' f') :
    ∀ {fuel : Nat}, cleanBelow tbl env h fuel n d v f = true →
      ∃ fuel', cleanBelow tbl env h (fuel' + 1) n' d v f' = true := by
  induction hr with
  | refl =>
    intro fuel hc
    cases fuel with
    | zero => simp only [cleanBelow] at hc; cases hc
    | succ k => exact ⟨k, hc⟩
  | binL _ hn ih =>
    intro fuel hc
    obtain ⟨k, hk⟩ := ih hc
    simp only [cleanBelow, hn, Bool.and_eq_true] at hk
    have := hk.2.1
    cases k with
    | zero => simp only [cleanBelow] at this; cases this
    | succ k' => exact ⟨k', this⟩
  | binR _ hn ih =>
    intro fuel hc
    obtain ⟨k, hk⟩ := ih hc
    simp only [cleanBelow, hn, Bool.and_eq_true] at hk
    have := hk.2.2
    cases k with
    | zero => simp only [cleanBelow] at this; cases this
    | succ k' => exact ⟨k', this⟩
  | inv _ hn ih =>
    intro fuel hc
    obtain ⟨k, hk⟩ := ih hc
    simp only [cleanBelow, hn, Bool.and_eq_true] at hk
    have := hk.2
    cases k with
    | zero => simp only [cleanBelow] at this; cases this
    | succ k' => exact ⟨k', this⟩
  | mor _ hn hl hcm ih =>
    intro fuel hc
    obtain ⟨k, hk⟩ := ih hc
    simp only [cleanBelow, hn, hl, Bool.and_eq_true, List.all_eq_true] at hk
    have := hk.2 _ hcm
    cases k with
    | zero => simp only [cleanBelow] at this; cases this
    | succ k' => exact ⟨k', this⟩

/-- **The run-time check is sound**: if `cleanBelow` holds, every entry the evaluation of `(n, f)` on
`(d, v)` can consult is coherent. -/
theorem cleanBelow_cohOn {tbl : ClassTable} {env : Env} {h : Heap} {d : DataId} {v : View}
    {n : NodeId} {f : Form} {fuel : Nat} (hc : cleanBelow tbl env h fuel n d v f = true) :
    CohOn tbl env (Reach h.g n f) d v h := by
  intro n' f' t a hs heff hl
  obtain ⟨k, hk⟩ := cleanBelow_reach hs hc
  obtain ⟨hv, nd, hnd, hmt⟩ := heff
  simp only [cleanBelow, Bool.and_eq_true] at hk
  have h1 := hk.1
  simp only [keyCleanB, hnd, hmt, hv, hl, coherentB] at h1
  cases harr : h.arrays[a]? with
  | none => rw [harr] at h1; cases h1
  | some m =>
    rw [harr] at h1
    have hd : denoteNow env h.g n' d v = .ok m := by simpa using h1
    obtain ⟨e, hr, hden⟩ := rep_of_denoteNow_ok hd
    exact ⟨e, m, hr, rfl, hden⟩

/-! ## Frame lemmas for parameter mutations -/

theorem reachesNode_self {g : Graph} {fuel n : Nat} : reachesNode g fuel n n = true := by
  cases fuel <;> simp [reachesNode]

mutual
/-- `state.<field> = value` on object `n0`: an object that cannot reach `n0` keeps its value. -/
theorem Rep.setAttr_frame {g g' : Graph} {n0 : Nat} {c0 : Content} (hg : setAttrG g n0 c0 = some g') :
    ∀ (e : Expr) (fuel n : Nat), Rep g n e → reachesNode g fuel n n0 = false → Rep g' n e
  | .leaf c, fuel, n, h, hr => by
    simp only [Rep] at h ⊢
    obtain ⟨k, p, h1, h2⟩ := h
    have hne : n ≠ n0 := by intro hh; subst hh; rw [reachesNode_self] at hr; cases hr
    simp only [setAttrG] at hg
    split at hg
    · simp only [Option.some.injEq] at hg; subst hg
      refine ⟨k, p, ?_, getElem?_append_some h2⟩
      show (g.nodes.set n0 _)[n]? = _
      rw [List.getElem?_set_ne (fun hh => hne hh.symm)]; exact h1
    · cases hg
  | .bin op a b, fuel, n, h, hr => by
    simp only [Rep] at h ⊢
    obtain ⟨l, r, h1, hl, hrr, ha, hb⟩ := h
    have hne : n ≠ n0 := by intro hh; subst hh; rw [reachesNode_self] at hr; cases hr
    cases fuel with
    | zero => simp [reachesNode] at hr
    | succ fuel =>
      simp only [reachesNode, h1, Bool.or_eq_false_iff] at hr
      have hn' : g'.nodes[n]? = some (.bin op l r) := by
        simp only [setAttrG] at hg
        split at hg
        · simp only [Option.some.injEq] at hg; subst hg
          show (g.nodes.set n0 _)[n]? = _
          rw [List.getElem?_set_ne (fun hh => hne hh.symm)]; exact h1
        · cases hg
      exact ⟨l, r, hn', hl, hrr, Rep.setAttr_frame hg a fuel l ha hr.2.1, Rep.setAttr_frame hg b fuel r hb hr.2.2⟩
  | .inv a, fuel, n, h, hr => by
    simp only [Rep] at h ⊢
    obtain ⟨c, h1, hc, ha⟩ := h
    have hne : n ≠ n0 := by intro hh; subst hh; rw [reachesNode_self] at hr; cases hr
    cases fuel with
    | zero => simp [reachesNode] at hr
    | succ fuel =>
      simp only [reachesNode, h1, Bool.or_eq_false_iff] at hr
      have hn' : g'.nodes[n]? = some (.inv c) := by
        simp only [setAttrG] at hg
        split at hg
        · simp only [Option.some.injEq] at hg; subst hg
          show (g.nodes.set n0 _)[n]? = _
          rw [List.getElem?_set_ne (fun hh => hne hh.symm)]; exact h1
        · cases hg
      exact ⟨c, hn', hc, Rep.setAttr_frame hg a fuel c ha hr.2⟩
  | .multiOr es, fuel, n, h, hr => by
    simp only [Rep] at h ⊢
    obtain ⟨lst, cs, h1, h2, hne', h3⟩ := h
    have hne : n ≠ n0 := by intro hh; subst hh; rw [reachesNode_self] at hr; cases hr
    cases fuel with
    | zero => simp [reachesNode] at hr
    | succ fuel =>
      simp only [reachesNode, h1, h2, Bool.or_eq_false_iff] at hr
      have hn' : g'.nodes[n]? = some (.multiOr lst) ∧ g'.lists[lst]? = some cs := by
        simp only [setAttrG] at hg
        split at hg
        · simp only [Option.some.injEq] at hg; subst hg
          refine ⟨?_, h2⟩
          show (g.nodes.set n0 _)[n]? = _
          rw [List.getElem?_set_ne (fun hh => hne hh.symm)]; exact h1
        · cases hg
      refine ⟨lst, cs, hn'.1, hn'.2, hne', RepList.setAttr_frame hg es fuel cs n h3 ?_⟩
      intro c hc
      have := hr.2
      rw [List.any_eq_false] at this
      simpa using this c hc
theorem RepList.setAttr_frame {g g' : Graph} {n0 : Nat} {c0 : Content} (hg : setAttrG g n0 c0 = some g') :
    ∀ (es : List Expr) (fuel : Nat) (cs : List Nat) (b : Nat), RepList g b cs es →
      (∀ c ∈ cs, reachesNode g fuel c n0 = false) → RepList g' b cs es
  | [], _, [], _, _, _ => by simp only [RepList]
  | e :: es, fuel, c :: cs, b, h, hr => by
    simp only [RepList] at h ⊢
    exact ⟨h.1, Rep.setAttr_frame hg e fuel c h.2.1 (hr c (by simp)),
      RepList.setAttr_frame hg es fuel cs b h.2.2 (fun c' hc' => hr c' (by simp [hc']))⟩
  | [], _, _ :: _, _, h, _ => by simp only [RepList] at h
  | _ :: _, _, [], _, h, _ => by simp only [RepList] at h
end

mutual
/-- In-place edit of parameter object `p0`: an object that cannot reach `p0` keeps its value. -/
theorem Rep.editParam_frame {g : Graph} {p0 : Nat} {c0 : Content} :
    ∀ (e : Expr) (fuel n : Nat), Rep g n e → reachesParam g fuel n p0 = false →
      Rep { g with params := g.params.set p0 c0 } n e
  | .leaf c, fuel, n, h, hr => by
    simp only [Rep] at h ⊢
    obtain ⟨k, p, h1, h2⟩ := h
    cases fuel with
    | zero => simp [reachesParam] at hr
    | succ fuel =>
      simp only [reachesParam, h1] at hr
      have hne : p ≠ p0 := by intro hh; subst hh; simp at hr
      refine ⟨k, p, h1, ?_⟩
      show (g.params.set p0 c0)[p]? = _
      rw [List.getElem?_set_ne (fun hh => hne hh.symm)]; exact h2
  | .bin op a b, fuel, n, h, hr => by
    simp only [Rep] at h ⊢
    obtain ⟨l, r, h1, hl, hrr, ha, hb⟩ := h
    cases fuel with
    | zero => simp [reachesParam] at hr
    | succ fuel =>
      simp only [reachesParam, h1, Bool.or_eq_false_iff] at hr
      exact ⟨l, r, h1, hl, hrr, Rep.editParam_frame a fuel l ha hr.1, Rep.editParam_frame b fuel r hb hr.2⟩
  | .inv a, fuel, n, h, hr => by
    simp only [Rep] at h ⊢
    obtain ⟨c, h1, hc, ha⟩ := h
    cases fuel with
    | zero => simp [reachesParam] at hr
    | succ fuel =>
      simp only [reachesParam, h1] at hr
      exact ⟨c, h1, hc, Rep.editParam_frame a fuel c ha hr⟩
  | .multiOr es, fuel, n, h, hr => by
    simp only [Rep] at h ⊢
    obtain ⟨lst, cs, h1, h2, hne', h3⟩ := h
    cases fuel with
    | zero => simp [reachesParam] at hr
    | succ fuel =>
      simp only [reachesParam, h1, h2] at hr
      refine ⟨lst, cs, h1, h2, hne', RepList.editParam_frame es fuel cs n h3 ?_⟩
      intro c hc
      rw [List.any_eq_false] at hr
      simpa using hr c hc
theorem RepList.editParam_frame {g : Graph} {p0 : Nat} {c0 : Content} :
    ∀ (es : List Expr) (fuel : Nat) (cs : List Nat) (b : Nat), RepList g b cs es →
      (∀ c ∈ cs, reachesParam g fuel c p0 = false) →
      RepList { g with params := g.params.set p0 c0 } b cs es
  | [], _, [], _, _, _ => by simp only [RepList]
  | e :: es, fuel, c :: cs, b, h, hr => by
    simp only [RepList] at h ⊢
    exact ⟨h.1, Rep.editParam_frame e fuel c h.2.1 (hr c (by simp)),
      RepList.editParam_frame es fuel cs b h.2.2 (fun c' hc' => hr c' (by simp [hc']))⟩
  | [], _, _ :: _, _, h, _ => by simp only [RepList] at h
  | _ :: _, _, [], _, h, _ => by simp only [RepList] at h
end

/-- A graph mutation that keeps every object's kind of node, the operands and the lists, and only
changes what elementary selections say. -/
structure SameShape (g g' : Graph) : Prop where
  leaf : ∀ (n : Nat) (k : Kind) (p : ParamId) (c : Content), g.nodes[n]? = some (.leaf k p) →
    g.params[p]? = some c → ∃ k' p' c', g'.nodes[n]? = some (.leaf k' p') ∧ g'.params[p']? = some c'
  bin : ∀ (n : Nat) (op : BinOp) (l r : Nat), g.nodes[n]? = some (.bin op l r) → g'.nodes[n]? = some (.bin op l r)
  inv : ∀ (n : Nat) (c : Nat), g.nodes[n]? = some (.inv c) → g'.nodes[n]? = some (.inv c)
  mor : ∀ (n : Nat) (lst : Nat), g.nodes[n]? = some (.multiOr lst) → g'.nodes[n]? = some (.multiOr lst)
  lists : ∀ (i : Nat) (x : List NodeId), g.lists[i]? = some x → g'.lists[i]? = some x

mutual
/-- After such a mutation every object still stands for *a* value. -/
theorem Rep.sameShape {g g' : Graph} (hs : SameShape g g') :
    ∀ (e : Expr) (n : Nat), Rep g n e → ∃ e', Rep g' n e'
  | .leaf c, n, h => by
    simp only [Rep] at h
    obtain ⟨k, p, h1, h2⟩ := h
    obtain ⟨k', p', c', h1', h2'⟩ := hs.leaf n k p c h1 h2
    exact ⟨.leaf c', by simp only [Rep]; exact ⟨k', p', h1', h2'⟩⟩
  | .bin op a b, n, h => by
    simp only [Rep] at h
    obtain ⟨l, r, h1, hl, hr, ha, hb⟩ := h
    obtain ⟨a', ha'⟩ := Rep.sameShape hs a l ha
    obtain ⟨b', hb'⟩ := Rep.sameShape hs b r hb
    exact ⟨.bin op a' b', by simp only [Rep]; exact ⟨l, r, hs.bin n op l r h1, hl, hr, ha', hb'⟩⟩
  | .inv a, n, h => by
    simp only [Rep] at h
    obtain ⟨c, h1, hc, ha⟩ := h
    obtain ⟨a', ha'⟩ := Rep.sameShape hs a c ha
    exact ⟨.inv a', by simp only [Rep]; exact ⟨c, hs.inv n c h1, hc, ha'⟩⟩
  | .multiOr es, n, h => by
    simp only [Rep] at h
    obtain ⟨lst, cs, h1, h2, hne, h3⟩ := h
    obtain ⟨es', h3', hne'⟩ := RepList.sameShape hs es cs n h3
    exact ⟨.multiOr es', by
      simp only [Rep]
      exact ⟨lst, cs, hs.mor n lst h1, hs.lists lst cs h2, fun hh => hne (hne' hh), h3'⟩⟩
theorem RepList.sameShape {g g' : Graph} (hs : SameShape g g') :
    ∀ (es : List Expr) (cs : List Nat) (b : Nat), RepList g b cs es →
      ∃ es', RepList g' b cs es' ∧ (es' = [] → es = [])
  | [], [], _, _ => ⟨[], by simp only [RepList], fun _ => rfl⟩
  | e :: es, c :: cs, b, h => by
    simp only [RepList] at h
    obtain ⟨e', he'⟩ := Rep.sameShape hs e c h.2.1
    obtain ⟨es', hes', _⟩ := RepList.sameShape hs es cs b h.2.2
    exact ⟨e' :: es', by simp only [RepList]; exact ⟨h.1, he', hes'⟩, fun hh => by cases hh⟩
  | [], _ :: _, _, h => by simp only [RepList] at h
  | _ :: _, [], _, h => by simp only [RepList] at h
end

theorem setAttrG_sameShape {g g' : Graph} {n0 : Nat} {c0 : Content} (hg : setAttrG g n0 c0 = some g') :
    SameShape g g' := by
  simp only [setAttrG] at hg
  split at hg
  · rename_i k0 p0 hn0
    simp only [Option.some.injEq] at hg; subst hg
    have hlt : n0 < g.nodes.length := lt_length_of_getElem? hn0
    refine ⟨?_, ?_, ?_, ?_, fun _ _ h => h⟩
    · intro n k p c h1 h2
      by_cases hh : n = n0
      · subst hh
        exact ⟨k0, g.params.length, c0, by show (g.nodes.set n _)[n]? = _; rw [List.getElem?_set_self hlt],
          by show (g.params ++ [c0])[g.params.length]? = _; simp⟩
      · exact ⟨k, p, c, by show (g.nodes.set n0 _)[n]? = _; rw [List.getElem?_set_ne (fun x => hh x.symm)]; exact h1,
          getElem?_append_some h2⟩
    · intro n op l r h1
      have hh : n ≠ n0 := by intro hh; subst hh; rw [hn0] at h1; cases h1
      show (g.nodes.set n0 _)[n]? = _; rw [List.getElem?_set_ne (fun x => hh x.symm)]; exact h1
    · intro n c h1
      have hh : n ≠ n0 := by intro hh; subst hh; rw [hn0] at h1; cases h1
      show (g.nodes.set n0 _)[n]? = _; rw [List.getElem?_set_ne (fun x => hh x.symm)]; exact h1
    · intro n lst h1
      have hh : n ≠ n0 := by intro hh; subst hh; rw [hn0] at h1; cases h1
      show (g.nodes.set n0 _)[n]? = _; rw [List.getElem?_set_ne (fun x => hh x.symm)]; exact h1
  · cases hg

theorem editParamG_sameShape {g g' : Graph} {n0 : Nat} {c0 : Content} (hg : editParamG g n0 c0 = some g') :
    SameShape g g' := by
  simp only [editParamG] at hg
  split at hg
  · rename_i k0 p0 hn0
    split at hg
    · rename_i hp0
      simp only [Option.some.injEq] at hg; subst hg
      refine ⟨?_, fun _ _ _ _ h => h, fun _ _ h => h, fun _ _ h => h, fun _ _ h => h⟩
      intro n k p c h1 h2
      by_cases hh : p = p0
      · subst hh
        exact ⟨k, p, c0, h1, by show (g.params.set p c0)[p]? = _; rw [List.getElem?_set_self hp0]⟩
      · exact ⟨k, p, c, h1, by show (g.params.set p0 c0)[p]? = _; rw [List.getElem?_set_ne (fun x => hh x.symm)]; exact h2⟩
    · cases hg
  · cases hg

theorem setAttrK_some {g g' : Graph} {n : Nat} {k : Kind} {c : Content} (h : setAttrK g n k c = some g') :
    setAttrG g n c = some g' := by
  simp only [setAttrK] at h
  split at h
  · exact h
  · cases h

theorem editParamK_some {g g' : Graph} {n : Nat} {k : Kind} {c : Content} (h : editParamK g n k c = some g') :
    editParamG g n c = some g' := by
  simp only [editParamK] at h
  split at h
  · exact h
  · cases h

end GlueVerif.C05Cache
