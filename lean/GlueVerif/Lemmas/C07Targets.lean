import GlueVerif.Model.C07Hub
import GlueVerif.Lemmas.C07Spec
/-!
# C07 — who receives a message (`_find_handlers`): most specific subscription, filter, priorities
-/
namespace GlueVerif.C07Hub.Lemmas
open GlueVerif.C07Hub

/-! ## Most specific subscribed super-class -/

theorem bestSub_none {mc : Cls} : ∀ {cbs : Cbs}, bestSub mc cbs = none →
    ∀ e ∈ cbs, ¬ e.1 <+: mc
  | [], _, e, he => by simp at he
  | (c, s) :: rest, h, e, he => by
    simp only [bestSub] at h
    cases hb : bestSub mc rest with
    | none =>
      simp only [hb] at h
      have hc : ¬ c <+: mc := by
        intro hp
        simp [hp] at h
      rcases List.mem_cons.mp he with heq | he'
      · rw [heq]; exact hc
      · exact bestSub_none hb e he'
    | some b =>
      obtain ⟨c', s'⟩ := b
      simp only [hb] at h
      split at h <;> simp at h

theorem bestSub_some {mc : Cls} : ∀ {cbs : Cbs} {c : Cls} {s : Sub}, bestSub mc cbs = some (c, s) →
    (c, s) ∈ cbs ∧ c <+: mc ∧ ∀ e ∈ cbs, e.1 <+: mc → e.1.length ≤ c.length
  | [], c, s, h => by simp [bestSub] at h
  | (c0, s0) :: rest, c, s, h => by
    simp only [bestSub] at h
    cases hb : bestSub mc rest with
    | none =>
      simp only [hb] at h
      by_cases hp : c0 <+: mc
      · simp only [List.isPrefixOf_iff_prefix, hp, if_true, Option.some.injEq, Prod.mk.injEq] at h
        obtain ⟨rfl, rfl⟩ := h
        refine ⟨List.mem_cons_self, hp, ?_⟩
        intro e he hpe
        rcases List.mem_cons.mp he with heq | he'
        · rw [heq]; exact Nat.le_refl _
        · exact absurd hpe (bestSub_none hb e he')
      · simp [hp] at h
    | some b =>
      obtain ⟨c', s'⟩ := b
      simp only [hb] at h
      obtain ⟨hm, hp', hmax⟩ := bestSub_some hb
      by_cases hcond : c0 <+: mc ∧ c'.length ≤ c0.length
      · simp only [List.isPrefixOf_iff_prefix, hcond, and_self, if_true, Option.some.injEq,
          Prod.mk.injEq] at h
        obtain ⟨rfl, rfl⟩ := h
        refine ⟨List.mem_cons_self, hcond.1, ?_⟩
        intro e he hpe
        rcases List.mem_cons.mp he with heq | he'
        · rw [heq]; exact Nat.le_refl _
        · exact Nat.le_trans (hmax e he' hpe) hcond.2
      · simp only [List.isPrefixOf_iff_prefix, hcond, if_false, Option.some.injEq,
          Prod.mk.injEq] at h
        obtain ⟨rfl, rfl⟩ := h
        refine ⟨List.mem_cons_of_mem _ hm, hp', ?_⟩
        intro e he hpe
        rcases List.mem_cons.mp he with heq | he'
        · rw [heq] at hpe ⊢
          have : ¬ c'.length ≤ c0.length := fun hle => hcond ⟨hpe, hle⟩
          simp only
          omega
        · exact hmax e he' hpe

/-! ## Stable sort by descending priority -/

theorem insPrio_perm (x : Lid × Sub) : ∀ ys, (insPrio x ys).Perm (x :: ys)
  | [] => List.Perm.refl _
  | y :: ys => by
    simp only [insPrio]
    split
    · exact ((insPrio_perm x ys).cons y).trans (List.Perm.swap x y ys)
    · exact List.Perm.refl _

theorem sortPrio_perm : ∀ xs, (sortPrio xs).Perm xs
  | [] => List.Perm.refl _
  | x :: xs => (insPrio_perm x (sortPrio xs)).trans ((sortPrio_perm xs).cons x)

def PrioDesc (a b : Lid × Sub) : Prop := b.2.prio ≤ a.2.prio

theorem insPrio_sorted (x : Lid × Sub) : ∀ ys, ys.Pairwise PrioDesc → (insPrio x ys).Pairwise PrioDesc
  | [], _ => by simp [insPrio]
  | y :: ys, h => by
    simp only [insPrio]
    have hy := List.pairwise_cons.mp h
    split
    · rename_i hlt
      refine List.pairwise_cons.mpr ⟨?_, insPrio_sorted x ys hy.2⟩
      intro z hz
      rcases List.mem_cons.mp ((insPrio_perm x ys).mem_iff.mp hz) with heq | hz'
      · rw [heq]; exact Int.le_of_lt hlt
      · exact hy.1 z hz'
    · rename_i hnlt
      have hxy : y.2.prio ≤ x.2.prio := Int.not_lt.mp hnlt
      refine List.pairwise_cons.mpr ⟨?_, h⟩
      intro z hz
      rcases List.mem_cons.mp hz with rfl | hz'
      · exact hxy
      · exact Int.le_trans (hy.1 z hz') hxy

theorem sortPrio_sorted : ∀ xs, (sortPrio xs).Pairwise PrioDesc
  | [] => List.Pairwise.nil
  | x :: xs => insPrio_sorted x _ (sortPrio_sorted xs)

theorem insPrio_filter (x : Lid × Sub) (p : Int) : ∀ ys, ys.Pairwise PrioDesc →
    (insPrio x ys).filter (fun e => e.2.prio = p) = (x :: ys).filter (fun e => e.2.prio = p)
  | [], _ => by simp [insPrio]
  | y :: ys, h => by
    simp only [insPrio]
    have hy := List.pairwise_cons.mp h
    split
    · rename_i hlt
      have ih := insPrio_filter x p ys hy.2
      by_cases hxp : x.2.prio = p
      · -- then y (higher priority) is not at priority p … but later equal ones could not precede x
        have hyp : ¬ y.2.prio = p := by omega
        simp only [List.filter_cons, hyp, decide_false, Bool.false_eq_true, if_false] at ih ⊢
        exact ih
      · simp only [List.filter_cons, hxp, decide_false, Bool.false_eq_true, if_false] at ih ⊢
        rw [ih]
    · rfl

theorem sortPrio_stable (p : Int) : ∀ xs,
    (sortPrio xs).filter (fun e => e.2.prio = p) = xs.filter (fun e => e.2.prio = p)
  | [] => rfl
  | x :: xs => by
    simp only [sortPrio]
    rw [insPrio_filter x p _ (sortPrio_sorted xs), List.filter_cons, List.filter_cons,
      sortPrio_stable p xs]

/-! ## `candidates` / `targets` -/

theorem mem_candidates {subs : Subs} {m : Msg} {l : Lid} {s : Sub} :
    (l, s) ∈ candidates subs m ↔
      ∃ cbs c, (l, cbs) ∈ subs ∧ bestSub m.cls cbs = some (c, s) ∧ s.filt.accepts m = true := by
  simp only [candidates, List.mem_filterMap]
  constructor
  · rintro ⟨⟨l', cbs⟩, hmem, h⟩
    cases hb : bestSub m.cls cbs with
    | none => simp [hb] at h
    | some b =>
      obtain ⟨c, s'⟩ := b
      simp only [hb] at h
      by_cases ha : s'.filt.accepts m = true
      · simp only [ha, if_true, Option.some.injEq, Prod.mk.injEq] at h
        obtain ⟨rfl, rfl⟩ := h
        exact ⟨cbs, c, hmem, hb, ha⟩
      · simp [ha] at h
  · rintro ⟨cbs, c, hmem, hb, ha⟩
    exact ⟨(l, cbs), hmem, by simp [hb, ha]⟩

theorem candidates_keys_sublist (subs : Subs) (m : Msg) :
    ((candidates subs m).map Prod.fst).Sublist (subs.map Prod.fst) := by
  induction subs with
  | nil => simp [candidates]
  | cons e rest ih =>
    simp only [candidates, List.filterMap_cons, List.map_cons] at ih ⊢
    cases hb : bestSub m.cls e.2 with
    | none => exact ih.trans (List.sublist_cons_self _ _)
    | some b =>
      by_cases ha : b.2.filt.accepts m = true
      · simp only [ha, if_true, List.map_cons]
        exact ih.cons_cons _
      · simp only [ha]
        exact ih.trans (List.sublist_cons_self _ _)

/-- Every listener occurs at most once among the targets when the table has distinct keys. -/
theorem targets_nodup {subs : Subs} (h : (subs.map Prod.fst).Nodup) (m : Msg) :
    ((targets subs m).map Prod.fst).Nodup := by
  have h1 : ((candidates subs m).map Prod.fst).Nodup := (candidates_keys_sublist subs m).nodup h
  have h2 : ((sortPrio (candidates subs m)).map Prod.fst).Perm ((candidates subs m).map Prod.fst) :=
    (sortPrio_perm _).map _
  have : (targets subs m).map Prod.fst = (sortPrio (candidates subs m)).map Prod.fst := by
    simp [targets, List.map_map, Function.comp_def]
  rw [this]
  exact h2.nodup_iff.mpr h1

theorem mem_targets {subs : Subs} {m : Msg} {l : Lid} {h : Hid} :
    (l, h) ∈ targets subs m ↔
      ∃ cbs c s, (l, cbs) ∈ subs ∧ bestSub m.cls cbs = some (c, s) ∧ s.filt.accepts m = true ∧
        s.hid = h := by
  simp only [targets, List.mem_map]
  constructor
  · rintro ⟨⟨l', s⟩, hmem, heq⟩
    simp only [Prod.mk.injEq] at heq
    obtain ⟨rfl, rfl⟩ := heq
    have := (sortPrio_perm _).mem_iff.mp hmem
    obtain ⟨cbs, c, h1, h2, h3⟩ := mem_candidates.mp this
    exact ⟨cbs, c, s, h1, h2, h3, rfl⟩
  · rintro ⟨cbs, c, s, h1, h2, h3, rfl⟩
    exact ⟨(l, s), (sortPrio_perm _).mem_iff.mpr (mem_candidates.mpr ⟨cbs, c, h1, h2, h3⟩), rfl⟩

/-! ## The table keeps distinct listeners -/

theorem subscribe_keys (subs : Subs) (l : Lid) (c : Cls) (s : Sub) :
    (subscribe subs l c s).map Prod.fst =
      if l ∈ subs.map Prod.fst then subs.map Prod.fst else subs.map Prod.fst ++ [l] := by
  induction subs with
  | nil => simp [subscribe]
  | cons e rest ih =>
    obtain ⟨l', cbs⟩ := e
    simp only [subscribe]
    by_cases hl : l' = l
    · subst hl; simp
    · have hl' : ¬ l = l' := fun h => hl h.symm
      simp only [hl, if_false, List.map_cons, ih, List.mem_cons, hl', false_or]
      split <;> simp

theorem subsOp_nodup {subs : Subs} (h : (subs.map Prod.fst).Nodup) (op : Op) :
    ((subsOp subs op).map Prod.fst).Nodup := by
  have hfilter : ∀ l, ((unsubscribeAll subs l).map Prod.fst).Nodup := by
    intro l
    exact ((List.filter_sublist (l := subs)).map Prod.fst).nodup h
  cases op with
  | sub l c s =>
    simp only [subsOp, subscribe_keys]
    split
    · exact h
    · rename_i hn
      exact List.nodup_append.mpr ⟨h, (by simp), by
        intro a ha b hb; simp at hb; subst hb; intro hab; subst hab; exact hn ha⟩
  | unsub l c =>
    simp only [subsOp, unsubscribe, List.map_map]
    have : (Prod.fst ∘ fun e : Lid × Cbs => if e.1 = l then (e.1, e.2.filter fun cb => cb.1 ≠ c) else e)
        = Prod.fst := by
      funext e; simp only [Function.comp]; split <;> rfl
    rw [this]; exact h
  | unsubAll l => exact hfilter l
  | kill l => exact hfilter l
  | bcast m => exact h
  | delay b => exact h
  | ignore c b => exact h
  | «catch» b => exact h
  | mark n => exact h
  | raise => exact h

/-- Any predicate on the subscription table that the table operations preserve is preserved by
whole executions (delayed and live). -/
theorem seqH_inv (P : Subs → Prop) {o : Spec.HOut} {k : Subs → Spec.HOut} (h1 : P o.1)
    (h2 : ∀ s, P s → P (k s).1) : P (Spec.seqH o k).1 := by
  unfold Spec.seqH
  split
  · exact h2 _ h1
  · exact h1

theorem held_inv (P : Subs → Prop) (hP : ∀ s op, P s → P (subsOp s op)) :
    ∀ (f lvl : Nat) (ign : List Cls) (subs : Subs) (ops : List Op), P subs →
      P (Spec.held f lvl ign subs ops).1 := by
  intro f
  induction f with
  | zero => intro lvl ign subs ops h; cases ops <;> simpa [Spec.held] using h
  | succ f ih =>
    intro lvl ign subs ops h
    cases ops with
    | nil => simpa [Spec.held] using h
    | cons op rest =>
      simp only [Spec.held]
      apply seqH_inv P
      · cases op with
        | bcast m => exact h
        | delay body => exact ih _ _ _ _ h
        | ignore c body => exact ih _ _ _ _ h
        | «catch» body => exact ih _ _ _ _ h
        | mark n => exact h
        | raise => exact h
        | sub l c s => exact hP _ (.sub l c s) h
        | unsub l c => exact hP _ (.unsub l c) h
        | unsubAll l => exact hP _ (.unsubAll l) h
        | kill l => exact hP _ (.kill l) h
      · intro s hs'; exact ih _ _ _ _ hs'

theorem seq_inv {σ} (P : σ → Prop) {o : Out σ} {k : σ → Out σ} (h1 : P o.1)
    (h2 : ∀ s, P s → P (k s).1) : P (seq o k).1 := by
  unfold seq
  split
  · exact h2 _ h1
  · exact h1

theorem live_inv (hs : Handlers) (P : Subs → Prop) (hP : ∀ s op, P s → P (subsOp s op)) :
    ∀ f, (∀ lvl ign subs ops, P subs → P (Spec.live hs f lvl ign subs ops).1) ∧
      (∀ lvl ign subs ts m, P subs → P (Spec.deliver hs f lvl ign subs ts m).1) ∧
      (∀ lvl ign subs q, P subs → P (Spec.flush hs f lvl ign subs q).1) := by
  intro f
  induction f with
  | zero =>
    refine ⟨?_, ?_, ?_⟩
    · intro lvl ign subs ops h; cases ops <;> simpa [Spec.live] using h
    · intro lvl ign subs ts m h; cases ts <;> simpa [Spec.deliver] using h
    · intro lvl ign subs q h; cases q <;> simpa [Spec.flush] using h
  | succ f ih =>
    have hb : ∀ (lvl : Nat) (ign : List Cls) (subs : Subs) (m : Msg), P subs →
        P (if ign.contains m.cls then ((subs, [], .ok) : Out Subs)
           else Spec.deliver hs f lvl ign subs (targets subs m) m).1 := by
      intro lvl ign subs m h
      split
      · exact h
      · exact ih.2.1 _ _ _ _ _ h
    refine ⟨?_, ?_, ?_⟩
    · intro lvl ign subs ops h
      cases ops with
      | nil => simpa [Spec.live] using h
      | cons op rest =>
        simp only [Spec.live]
        apply seq_inv P
        · cases op with
          | bcast m => exact hb _ _ _ _ h
          | delay body =>
            simp only [finallyDo]
            exact ih.2.2 _ _ _ _ (held_inv P hP _ _ _ _ _ h)
          | ignore c body => exact ih.1 _ _ _ _ h
          | «catch» body => exact ih.1 _ _ _ _ h
          | mark n => exact h
          | raise => exact h
          | sub l c s => exact hP _ (.sub l c s) h
          | unsub l c => exact hP _ (.unsub l c) h
          | unsubAll l => exact hP _ (.unsubAll l) h
          | kill l => exact hP _ (.kill l) h
        · intro s hs'; exact ih.1 _ _ _ _ hs'
    · intro lvl ign subs ts m h
      cases ts with
      | nil => simpa [Spec.deliver] using h
      | cons t ts =>
        simp only [Spec.deliver]
        apply seq_inv P
        · exact ih.1 _ _ _ _ h
        · intro s hs'; exact ih.2.1 _ _ _ _ _ hs'
    · intro lvl ign subs q h
      cases q with
      | nil => simpa [Spec.flush] using h
      | cons m ms =>
        simp only [Spec.flush]
        apply seq_inv P
        · exact hb _ _ _ _ h
        · intro s hs'; exact ih.2.2 _ _ _ _ hs'

end GlueVerif.C07Hub.Lemmas
