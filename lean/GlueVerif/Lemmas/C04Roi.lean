import GlueVerif.Lemmas.C04Index
/-!
# C04 — the pixel-space shortcut of `RoiSubsetStateNd.to_mask`

Pixel attributes are constant along the other axes: testing a sub-grid that keeps only the first
element of every non-attribute axis and broadcasting the result back gives the test of every point.
-/
namespace GlueVerif.Lemmas.C04
open GlueVerif.ArrayUtil GlueVerif.C04
open GlueVerif.Coords (Sel selOf selsOf selShape ViewErr)

/-! ### a regular sub-grid as a re-indexing of positions -/

theorem flatMap_eq_range {α β : Type} (k : List α) (g : α → List β) (d : α) :
    k.flatMap g = (List.range k.length).flatMap fun j => g (k.getD j d) := by
  conv_lhs => rw [← map_getD_range k d]
  rw [List.flatMap_map]

theorem coordsAt_cons (k : List Nat) (ks : List (List Nat)) (j : Nat) (pos : List Nat) :
    coordsAt (k :: ks) (j :: pos) = k.getD j 0 :: coordsAt ks pos := rfl

/-- The points of a regular sub-grid, row-major, are the coordinates of its positions. -/
theorem cartG_eq_positions : ∀ ks : List (List Nat),
    cartG ks = (allIdx (ks.map List.length)).map (coordsAt ks)
  | [] => rfl
  | k :: rest => by
    simp only [List.map_cons, allIdx_cons, List.map_flatMap, List.map_map]
    simp only [cartG]
    rw [flatMap_eq_range k _ 0]
    congr 1
    funext j
    rw [cartG_eq_positions rest, List.map_map]
    rfl

/-! ### the sub-grid of the shortcut -/

section
variable (axes : List Nat)

/-- `raw_comp[subset]`: all of an attribute axis, `slice(0, 1)` of the others. -/
def subOf (i : Nat) (ks : List (List Nat)) : List (List Nat) :=
  mapIdxFrom (fun i (k : List Nat) => if axes.contains i then k else k.take 1) i ks

theorem subOf_cons (i : Nat) (k : List Nat) (ks : List (List Nat)) :
    subOf axes i (k :: ks) = (if axes.contains i then k else k.take 1) :: subOf axes (i + 1) ks := rfl

/-- On an attribute axis, the coordinate of the clipped position in the sub-grid is the coordinate
of the position in the grid. -/
theorem coords_sub_clip : ∀ (ks : List (List Nat)) (i : Nat) (pos : List Nat) (a : Nat),
    pos ∈ allIdx (ks.map List.length) → axes.contains (i + a) = true →
    (coordsAt (subOf axes i ks) (clip ((subOf axes i ks).map List.length) pos)).getD a 0 =
      (coordsAt ks pos).getD a 0
  | [], _, pos, a, _, _ => by simp [subOf, mapIdxFrom, coordsAt]
  | k :: rest, i, pos, a, hp, ha => by
    rw [mem_allIdx] at hp
    cases hp with
    | cons hj ht =>
      rename_i j pos'
      rw [subOf_cons, List.map_cons, clip, coordsAt_cons, coordsAt_cons]
      cases a with
      | zero =>
        have hc : axes.contains i = true := by simpa using ha
        simp only [hc, if_true, List.getD_cons_zero]
        split
        · rename_i h1
          have : j = 0 := by omega
          rw [this]
        · rfl
      | succ a' =>
        simp only [List.getD_cons_succ]
        have ha' : axes.contains (i + 1 + a') = true := by
          have : i + 1 + a' = i + (a' + 1) := by omega
          rw [this]; exact ha
        exact coords_sub_clip rest (i + 1) pos' a' ((mem_allIdx _ _).2 ht) ha'

/-- The same without clipping (the sub-grid is the grid on attribute axes). -/
theorem coords_sub : ∀ (ks : List (List Nat)) (i : Nat) (pos : List Nat) (a : Nat),
    axes.contains (i + a) = true →
    (coordsAt (subOf axes i ks) pos).getD a 0 = (coordsAt ks pos).getD a 0
  | [], _, pos, a, _ => by simp [subOf, mapIdxFrom, coordsAt]
  | k :: rest, i, [], a, _ => by simp [subOf, mapIdxFrom, coordsAt]
  | k :: rest, i, j :: pos', a, ha => by
    rw [subOf_cons, coordsAt_cons, coordsAt_cons]
    cases a with
    | zero =>
      have hc : axes.contains i = true := by simpa using ha
      simp only [hc, if_true, List.getD_cons_zero]
    | succ a' =>
      simp only [List.getD_cons_succ]
      have ha' : axes.contains (i + 1 + a') = true := by
        have : i + 1 + a' = i + (a' + 1) := by omega
        rw [this]; exact ha
      exact coords_sub rest (i + 1) pos' a' ha'

/-- A clipped position of the grid is a position of the sub-grid. -/
theorem clip_mem : ∀ (ks : List (List Nat)) (i : Nat) (pos : List Nat),
    pos ∈ allIdx (ks.map List.length) →
    clip ((subOf axes i ks).map List.length) pos ∈ allIdx ((subOf axes i ks).map List.length)
  | [], _, pos, hp => by
    rw [mem_allIdx] at hp
    cases hp
    simp [subOf, mapIdxFrom, clip, allIdx, cartG]
  | k :: rest, i, pos, hp => by
    rw [mem_allIdx] at hp
    cases hp with
    | cons hj ht =>
      rename_i j pos'
      rw [subOf_cons, List.map_cons, clip, mem_allIdx]
      refine List.Forall₂.cons ?_ ((mem_allIdx _ _).1 (clip_mem rest (i + 1) pos' ((mem_allIdx _ _).2 ht)))
      by_cases hc : axes.contains i = true
      · simp only [hc, if_true]
        split <;> omega
      · simp only [hc, Bool.false_eq_true, if_false, List.length_take]
        split <;> omega

end

/-- **The shortcut is exact**: for every regular sub-grid `ks` (per-axis coordinate lists), every
set of attribute axes and every region, testing the reduced sub-grid and broadcasting back equals
testing every point. -/
theorem roi_shortcut_core (axes : List Nat) (roi : List Nat → Bool) (ks : List (List Nat)) :
    let resShape := ks.map List.length
    let sub := mapIdxFrom (fun i (k : List Nat) => if axes.contains i then k else k.take 1) 0 ks
    let subShape := sub.map List.length
    let small := (allIdx subShape).map fun pos => roi (axes.map fun ax => (coordsAt sub pos).getD ax 0)
    (if subShape != resShape then broadcastData small subShape resShape else small) =
      (cartG ks).map fun idx => roi (axes.map fun ax => idx.getD ax 0) := by
  intro resShape sub subShape small
  have hsub : sub = subOf axes 0 ks := rfl
  rw [cartG_eq_positions ks, List.map_map]
  split
  · -- broadcast back
    unfold broadcastData
    apply List.map_congr_left
    intro pos hp
    have hclip : clip subShape pos ∈ allIdx subShape := by
      simpa [subShape, hsub] using clip_mem axes ks 0 pos hp
    show small.getD (flat subShape (clip subShape pos)) default = _
    rw [getD_map_allIdx subShape _ default hclip]
    simp only [Function.comp]
    congr 1
    apply List.map_congr_left
    intro ax hax
    have hc : axes.contains (0 + ax) = true := by simpa using hax
    simpa [subShape, hsub] using coords_sub_clip axes ks 0 pos ax hp hc
  · rename_i heq
    have heq' : subShape = resShape := by simpa using heq
    show (allIdx subShape).map _ = _
    rw [heq']
    apply List.map_congr_left
    intro pos _
    simp only [Function.comp]
    congr 1
    apply List.map_congr_left
    intro ax hax
    have hc : axes.contains (0 + ax) = true := by simpa using hax
    simpa [hsub] using coords_sub axes ks 0 pos ax hc

/-! ### grid views -/

theorem selOf_fullSlice (h : Nat) :
    selOf h (.slice none none none) = .ok (.many (List.range h)) := by
  simp only [selOf, sliceIndices, Option.getD_none]
  simp only [show ((1 : Int) == 0) = false from rfl, Bool.false_eq_true, if_false,
    show ¬ ((1 : Int) < 0) from by omega, show (1 : Int) > 0 from by omega, if_true]
  congr 2
  have hl : rangeLen 0 (h : Int) (1 : Int).toNat = h := by
    have h1 : (1 : Int).toNat = 1 := rfl
    rw [h1]
    unfold rangeLen
    split
    · simp
    · omega
  rw [hl]
  apply List.ext_getElem
  · simp
  · intro n h1 h2
    simp

theorem selsOf_nil : ∀ sh : List Nat, selsOf sh [] = .ok (sh.map fun h => Sel.many (List.range h))
  | [] => rfl
  | h :: hs => by simp [selsOf, selsOf_nil hs, Except.map]

/-- A tuple of slices keeps every axis: the result shape is the list of per-axis lengths. -/
theorem selShape_of_slices : ∀ (sh : List Nat) (items : List ViewItem) (sels : List Sel),
    selsOf sh items = .ok sels →
    items.all ViewItem.isSlice = true →
    selShape sels = (sels.map Sel.toList).map List.length
  | [], [], sels, h, _ => by simp [selsOf] at h; cases h; rfl
  | [], _ :: _, sels, h, _ => by simp [selsOf] at h
  | hh :: hs, [], sels, h, _ => by
    rw [selsOf_nil] at h
    cases h
    simp [selShape, Sel.toList, List.filterMap_map, Function.comp_def]
  | hh :: hs, it :: its, sels, h, hall => by
    simp only [selsOf] at h
    simp only [List.all_cons, Bool.and_eq_true] at hall
    cases h1 : selOf hh it with
    | error e => rw [h1] at h; cases h
    | ok s =>
      cases h2 : selsOf hs its with
      | error e => rw [h1, h2] at h; cases h
      | ok rest =>
        rw [h1, h2] at h
        cases h
        have ih := selShape_of_slices hs its rest h2 hall.2
        cases it with
        | int i => simp [ViewItem.isSlice] at hall
        | slice a b c =>
          simp only [selOf] at h1
          split at h1
          · cases h1
          · cases h1
            simp only [selShape, List.filterMap_cons, List.map_cons, Sel.toList] at ih ⊢
            rw [ih]

/-- The shortcut on a sub-grid is the region test of every point of the sub-grid. -/
theorem roiGrid_eq (axes : List Nat) (roi : List Nat → Bool) (ks : List (List Nat)) :
    Impl.roiGrid axes roi ks =
      ⟨ks.map List.length, (cartG ks).map fun idx => roi (axes.map fun ax => idx.getD ax 0)⟩ := by
  have h := roi_shortcut_core axes roi ks
  simp only at h
  unfold Impl.roiGrid
  simp only
  split
  · rename_i hc
    rw [if_pos hc] at h
    rw [h]
  · rename_i hc
    rw [if_neg hc] at h
    rw [h]

theorem map_toList_fullSels (sh : List Nat) :
    (sh.map fun h => Sel.many (List.range h)).map Sel.toList = sh.map List.range := by
  rw [List.map_map]; rfl

theorem map_length_map_range (sh : List Nat) : (sh.map List.range).map List.length = sh := by
  rw [List.map_map]
  conv_rhs => rw [← List.map_id sh]
  apply List.map_congr_left
  intro a _
  simp

/-- **`RoiSubsetStateNd.to_mask` on pixel attributes**: for every shape, every set of attribute axes,
every region and every view, the result is the region test of every gathered point. -/
theorem roiPix_gather (sh : List Nat) (axes : List Nat) (roi : List Nat → Bool) (v : View) :
    Impl.roiPix sh axes roi v = gather sh (fun idx => roi (axes.map fun ax => idx.getD ax 0)) v := by
  unfold Impl.roiPix
  split
  · rename_i hg
    cases v with
    | none =>
      simp only [gridItems, selsOf_nil, gather, viewPoints, roiGrid_eq, map_toList_fullSels,
        map_length_map_range, allIdx]
    | ellipsis =>
      simp only [gridItems, selsOf_nil, gather, viewPoints, roiGrid_eq, map_toList_fullSels,
        map_length_map_range, allIdx]
    | basic items =>
      simp only [gridItems, gather, viewPoints, bind, Except.bind, pure, Except.pure]
      cases hs : selsOf sh items with
      | error e => rfl
      | ok sels =>
        simp only [roiGrid_eq]
        rw [selShape_of_slices sh items sels hs (by simpa [isGridView] using hg)]
    | arrays s items => simp [isGridView] at hg
    | mask m => simp [isGridView] at hg
  · rfl

end GlueVerif.Lemmas.C04
