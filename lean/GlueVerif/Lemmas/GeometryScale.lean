import GlueVerif.Lemmas.Geometry
/-!
# C08 helper lemmas: containment does not depend on the unit of length or on the origin

`scaleRoi k` multiplies every length of a region (positions, sizes, radii, vertices — not the angle) by
`k`; for `k > 0` the coded test `Impl.contains` and the geometric definition `Spec.contains` give the same
answer on `k·p` as the original region on `p`, for every class and every branch (bounding-box
prefilters included).  Together with `move_equivariant` (translation) this is the exact-arithmetic
statement behind the magnitude / offset ladder of the differential check: nothing in the coded tests
may depend on an absolute scale.
-/
namespace GlueVerif.Lemmas.Geometry
open GlueVerif.Geometry

def scalePt (k : Rat) (v : Pt) : Pt := (k * v.1, k * v.2)

/-- Every length of the region multiplied by `k` (the rotation angle stays). -/
def scaleRoi (k : Rat) : Roi → Roi
  | .rect r => .rect { r with xmin := k * r.xmin, xmax := k * r.xmax, ymin := k * r.ymin, ymax := k * r.ymax }
  | .circle c => .circle ⟨k * c.xc, k * c.yc, k * c.r⟩
  | .ellipse e => .ellipse { e with xc := k * e.xc, yc := k * e.yc, rx := k * e.rx, ry := k * e.ry }
  | .annulus a => .annulus ⟨k * a.xc, k * a.yc, k * a.rin, k * a.rout⟩
  | .range r => .range { r with lo := k * r.lo, hi := k * r.hi }
  | .poly g => .poly { g with vs := g.vs.map (scalePt k) }
  | .undefined => .undefined

theorem kmul_le {k a b : Rat} (hk : 0 < k) : k * a ≤ k * b ↔ a ≤ b :=
  ⟨fun h => le_of_mul_le_mul_left h hk, fun h => mul_le_mul_of_nonneg_left h hk.le⟩

theorem kmul_lt {k a b : Rat} (hk : 0 < k) : k * a < k * b ↔ a < b :=
  ⟨fun h => lt_of_mul_lt_mul_left h hk.le, fun h => mul_lt_mul_of_pos_left h hk⟩

/-- `a' < b' ↔ a < b` when `a' = k·a`, `b' = k·b`. -/
theorem lin_lt {k : Rat} (hk : 0 < k) (a b a' b' : Rat) (ha : a' = k * a) (hb : b' = k * b) :
    a' < b' ↔ a < b := by subst ha hb; exact kmul_lt hk

theorem lin_le {k : Rat} (hk : 0 < k) (a b a' b' : Rat) (ha : a' = k * a) (hb : b' = k * b) :
    a' ≤ b' ↔ a ≤ b := by subst ha hb; exact kmul_le hk

theorem rmin_mul {k : Rat} (hk : 0 < k) (a b : Rat) : rmin (k * a) (k * b) = k * rmin a b := by
  unfold rmin
  by_cases h : a ≤ b
  · rw [if_pos h, if_pos ((kmul_le hk).2 h)]
  · rw [if_neg h, if_neg (fun h' => h ((kmul_le hk).1 h'))]

theorem rmax_mul {k : Rat} (hk : 0 < k) (a b : Rat) : rmax (k * a) (k * b) = k * rmax a b := by
  unfold rmax
  by_cases h : a ≤ b
  · rw [if_pos h, if_pos ((kmul_le hk).2 h)]
  · rw [if_neg h, if_neg (fun h' => h ((kmul_le hk).1 h'))]

/-! ### rectangle -/

def rectScale (k : Rat) (r : Rect) : Rect :=
  { r with xmin := k * r.xmin, xmax := k * r.xmax, ymin := k * r.ymin, ymax := k * r.ymax }

theorem rectScale_halfw (k : Rat) (r : Rect) : (rectScale k r).width / 2 = k * (r.width / 2) := by
  simp only [Rect.width, rectScale]; ring
theorem rectScale_halfh (k : Rat) (r : Rect) : (rectScale k r).height / 2 = k * (r.height / 2) := by
  simp only [Rect.height, rectScale]; ring
theorem rectScale_center (k : Rat) (r : Rect) : (rectScale k r).center = scalePt k r.center := by
  simp only [Rect.center, Rect.width, Rect.height, rectScale, scalePt]
  ext <;> simp only <;> ring

theorem rectScale_loc (k : Rat) (r : Rect) (p : Pt) : (rectScale k r).loc (scalePt k p) = scalePt k (r.loc p) := by
  simp only [Rect.loc, rectScale_center, unrot, scalePt]
  ext <;> simp only [rectScale] <;> ring

theorem rectScale_corner (k : Rat) (r : Rect) (a b : Rat) :
    (rectScale k r).corner (k * a) (k * b) = scalePt k (r.corner a b) := by
  simp only [Rect.corner, rectScale_center, rot, scalePt]
  ext <;> simp only [rectScale] <;> ring

theorem rectScale_bbox {k : Rat} (hk : 0 < k) (r : Rect) :
    (rectScale k r).bbox = (k * r.bxmin, k * r.bxmax, k * r.bymin, k * r.bymax) := by
  simp only [Rect.bbox, Rect.bxmin, Rect.bxmax, Rect.bymin, Rect.bymax, rectScale_halfw, rectScale_halfh,
    ← mul_neg, rectScale_corner, scalePt, rmin_mul hk, rmax_mul hk]

theorem rectScale_keep {k : Rat} (hk : 0 < k) (r : Rect) (p : Pt) :
    (rectScale k r).keep (scalePt k p) = r.keep p := by
  unfold Rect.keep
  rw [Bool.eq_iff_iff, rectScale_bbox hk]
  simp only [inBox_iff, scalePt, Rect.bbox, kmul_le hk]

theorem rectScale_contains {k : Rat} (hk : 0 < k) (r : Rect) (p : Pt) :
    Impl.rectContains (rectScale k r) (scalePt k p) = Impl.rectContains r p := by
  rw [Bool.eq_iff_iff]
  have hc : (rectScale k r).center = (k * r.center.1, k * r.center.2) := rectScale_center k r
  cases h : branchOf r.c r.s with
  | axis =>
    rw [impl_rect_axis_iff _ _ (show branchOf (rectScale k r).c (rectScale k r).s = .axis from h),
      impl_rect_axis_iff r p h, rectScale_halfw, rectScale_halfh, hc]
    simp only [scalePt]
    exact and_congr (lin_lt hk _ _ _ _ (by ring) (by ring)) (and_congr (lin_lt hk _ _ _ _ (by ring) (by ring))
      (and_congr (lin_lt hk _ _ _ _ (by ring) (by ring)) (lin_lt hk _ _ _ _ (by ring) (by ring))))
  | quarter =>
    rw [impl_rect_quarter_iff _ _ (show branchOf (rectScale k r).c (rectScale k r).s = .quarter from h),
      impl_rect_quarter_iff r p h, rectScale_halfw, rectScale_halfh, hc]
    simp only [scalePt]
    exact and_congr (lin_lt hk _ _ _ _ (by ring) (by ring)) (and_congr (lin_lt hk _ _ _ _ (by ring) (by ring))
      (and_congr (lin_lt hk _ _ _ _ (by ring) (by ring)) (lin_lt hk _ _ _ _ (by ring) (by ring))))
  | general =>
    rw [impl_rect_general_iff _ _ (show branchOf (rectScale k r).c (rectScale k r).s = .general from h),
      impl_rect_general_iff r p h, rectScale_keep hk, rectScale_loc, rectScale_halfw, rectScale_halfh]
    simp only [scalePt]
    exact and_congr Iff.rfl (and_congr
      (and_congr (lin_le hk _ _ _ _ (by ring) (by ring)) (lin_le hk _ _ _ _ (by ring) (by ring)))
      (and_congr (lin_le hk _ _ _ _ (by ring) (by ring)) (lin_le hk _ _ _ _ (by ring) (by ring))))

theorem rectScale_spec {k : Rat} (hk : 0 < k) (r : Rect) (p : Pt) :
    Spec.rectContains (rectScale k r) (scalePt k p) = Spec.rectContains r p := by
  rw [Bool.eq_iff_iff, spec_rect_iff, spec_rect_iff, rectScale_loc, rectScale_halfw, rectScale_halfh]
  simp only [scalePt]
  exact and_congr (lin_lt hk _ _ _ _ (by ring) (by ring)) (and_congr (lin_lt hk _ _ _ _ (by ring) (by ring))
    (and_congr (lin_lt hk _ _ _ _ (by ring) (by ring)) (lin_lt hk _ _ _ _ (by ring) (by ring))))

/-! ### circle, annulus, range -/

theorem dist2_scale (k xc yc : Rat) (p : Pt) :
    dist2 (k * xc) (k * yc) (scalePt k p) = (k * k) * dist2 xc yc p := by
  simp only [dist2, scalePt]; ring

theorem circleScale_contains {k : Rat} (hk : 0 < k) (c : Circle) (p : Pt) :
    Impl.circleContains ⟨k * c.xc, k * c.yc, k * c.r⟩ (scalePt k p) = Impl.circleContains c p := by
  rw [Bool.eq_iff_iff, circle_iff, circle_iff, dist2_scale]
  exact lin_lt (mul_pos hk hk) _ _ _ _ rfl (by ring)

theorem annulusScale_contains {k : Rat} (hk : 0 < k) (a : Annulus) (p : Pt) :
    Impl.annulusContains ⟨k * a.xc, k * a.yc, k * a.rin, k * a.rout⟩ (scalePt k p) = Impl.annulusContains a p := by
  rw [Bool.eq_iff_iff, annulus_iff, annulus_iff, dist2_scale]
  exact and_congr (lin_le (mul_pos hk hk) _ _ _ _ (by ring) rfl) (lin_lt (mul_pos hk hk) _ _ _ _ rfl (by ring))

theorem rangeScale_contains {k : Rat} (hk : 0 < k) (r : Range) (p : Pt) :
    Impl.rangeContains { r with lo := k * r.lo, hi := k * r.hi } (scalePt k p) = Impl.rangeContains r p := by
  rw [Bool.eq_iff_iff, range_iff, range_iff]
  cases r.isX <;> simp only [scalePt, Bool.false_eq_true, if_false, if_true, kmul_lt hk]

/-! ### ellipse -/

def ellScale (k : Rat) (e : Ellipse) : Ellipse :=
  { e with xc := k * e.xc, yc := k * e.yc, rx := k * e.rx, ry := k * e.ry }

theorem ellF_scale {k : Rat} (hk : 0 < k) (x y rx ry : Rat) :
    ellF (k * x) (k * y) (k * rx) (k * ry) = ellF x y rx ry := by
  have hkk : k * k ≠ 0 := (mul_pos hk hk).ne'
  unfold ellF
  rw [show k * x * (k * x) = (k * k) * (x * x) by ring, show k * rx * (k * rx) = (k * k) * (rx * rx) by ring,
    show k * y * (k * y) = (k * k) * (y * y) by ring, show k * ry * (k * ry) = (k * k) * (ry * ry) by ring,
    mul_div_mul_left _ _ hkk, mul_div_mul_left _ _ hkk]

theorem ellScale_loc (k : Rat) (e : Ellipse) (p : Pt) : (ellScale k e).loc (scalePt k p) = scalePt k (e.loc p) := by
  simp only [Ellipse.loc, unrot, scalePt, ellScale]
  ext <;> simp only <;> ring

theorem ellScale_keep {k : Rat} (hk : 0 < k) (e : Ellipse) (p : Pt) :
    (ellScale k e).keep (scalePt k p) = e.keep p := by
  rw [Bool.eq_iff_iff, ell_keep_iff, ell_keep_iff]
  simp only [ellScale, scalePt, rmax_mul hk]
  exact and_congr (lin_le hk _ _ _ _ (by ring) rfl) (and_congr (lin_le hk _ _ _ _ rfl (by ring))
    (and_congr (lin_le hk _ _ _ _ (by ring) rfl) (lin_le hk _ _ _ _ rfl (by ring))))

theorem ellScale_zero {k : Rat} (hk : 0 < k) (e : Ellipse) :
    ((ellScale k e).rx = 0 ∨ (ellScale k e).ry = 0) ↔ (e.rx = 0 ∨ e.ry = 0) := by
  simp only [ellScale, mul_eq_zero, hk.ne', false_or]

theorem ellScale_contains {k : Rat} (hk : 0 < k) (e : Ellipse) (p : Pt) :
    Impl.ellipseContains (ellScale k e) (scalePt k p) = Impl.ellipseContains e p := by
  unfold Impl.ellipseContains
  by_cases h0 : e.rx = 0 ∨ e.ry = 0
  · rw [if_pos h0, if_pos ((ellScale_zero hk e).2 h0)]
  · rw [if_neg h0, if_neg (fun h => h0 ((ellScale_zero hk e).1 h))]
    have hb : branchOf (ellScale k e).c (ellScale k e).s = branchOf e.c e.s := rfl
    rw [hb, ellScale_keep hk, ellScale_loc]
    have e1 : ellF ((scalePt k p).1 - (ellScale k e).xc) ((scalePt k p).2 - (ellScale k e).yc) (ellScale k e).rx
        (ellScale k e).ry = ellF (p.1 - e.xc) (p.2 - e.yc) e.rx e.ry := by
      simp only [scalePt, ellScale, ← mul_sub]
      exact ellF_scale hk _ _ _ _
    have e2 : ellF ((scalePt k p).1 - (ellScale k e).xc) ((scalePt k p).2 - (ellScale k e).yc) (ellScale k e).ry
        (ellScale k e).rx = ellF (p.1 - e.xc) (p.2 - e.yc) e.ry e.rx := by
      simp only [scalePt, ellScale, ← mul_sub]
      exact ellF_scale hk _ _ _ _
    have e3 : ellF (scalePt k (e.loc p)).1 (scalePt k (e.loc p)).2 (ellScale k e).rx (ellScale k e).ry =
        ellF (e.loc p).1 (e.loc p).2 e.rx e.ry := by
      simp only [scalePt, ellScale]
      exact ellF_scale hk _ _ _ _
    rw [e1, e2, e3]

theorem ellScale_spec {k : Rat} (hk : 0 < k) (e : Ellipse) (p : Pt) :
    Spec.ellipseContains (ellScale k e) (scalePt k p) = Spec.ellipseContains e p := by
  unfold Spec.ellipseContains
  by_cases h0 : e.rx = 0 ∨ e.ry = 0
  · rw [if_pos h0, if_pos ((ellScale_zero hk e).2 h0)]
  · rw [if_neg h0, if_neg (fun h => h0 ((ellScale_zero hk e).1 h)), ellScale_loc]
    have e3 : ellF (scalePt k (e.loc p)).1 (scalePt k (e.loc p)).2 (ellScale k e).rx (ellScale k e).ry =
        ellF (e.loc p).1 (e.loc p).2 e.rx e.ry := by
      simp only [scalePt, ellScale]
      exact ellF_scale hk _ _ _ _
    rw [e3]

/-! ### polygon -/

theorem edgeCross_scale {k : Rat} (hk : 0 < k) (p a b : Pt) :
    edgeCross (scalePt k p) (scalePt k a) (scalePt k b) = edgeCross p a b := by
  apply edgeCross_congr
  · simp only [scalePt]; exact kmul_le hk
  · simp only [scalePt]; exact kmul_le hk
  · simp only [scalePt]
    exact lin_le (mul_pos hk hk) _ _ _ _ (by ring) (by ring)

theorem crossPath_scale {k : Rat} (hk : 0 < k) (p a : Pt) (vs : List Pt) :
    crossPath (scalePt k p) (scalePt k a) (vs.map (scalePt k)) = crossPath p a vs := by
  induction vs generalizing a with
  | nil => rfl
  | cons b rest ih => simp only [List.map_cons, crossPath, edgeCross_scale hk, ih]

theorem crossParity_scale {k : Rat} (hk : 0 < k) (p : Pt) (vs : List Pt) :
    crossParity (vs.map (scalePt k)) (scalePt k p) = crossParity vs p := by
  cases vs with
  | nil => rfl
  | cons v rest =>
    simp only [crossParity, List.map_cons]
    have : List.map (scalePt k) rest ++ [scalePt k v] = (rest ++ [v]).map (scalePt k) := by simp
    rw [this, crossPath_scale hk]

theorem minList_scale {k : Rat} (hk : 0 < k) (x : Rat) (xs : List Rat) :
    minList (k * x) (xs.map (k * ·)) = k * minList x xs := by
  induction xs generalizing x with
  | nil => rfl
  | cons y rest ih =>
    simp only [minList, List.map_cons, List.foldl_cons, rmin_mul hk] at ih ⊢
    exact ih (rmin x y)

theorem maxList_scale {k : Rat} (hk : 0 < k) (x : Rat) (xs : List Rat) :
    maxList (k * x) (xs.map (k * ·)) = k * maxList x xs := by
  induction xs generalizing x with
  | nil => rfl
  | cons y rest ih =>
    simp only [maxList, List.map_cons, List.foldl_cons, rmax_mul hk] at ih ⊢
    exact ih (rmax x y)

theorem polyKeep_scale {k : Rat} (hk : 0 < k) (p : Pt) (vs : List Pt) :
    polyKeep (vs.map (scalePt k)) (scalePt k p) = polyKeep vs p := by
  cases vs with
  | nil => rfl
  | cons v rest =>
    rw [Bool.eq_iff_iff]
    simp only [polyKeep, polyBBox, List.map_cons, inBox_iff, List.map_map]
    have e1 : (fun x : Pt => x.1) ∘ scalePt k = (k * ·) ∘ (fun x : Pt => x.1) := by funext x; rfl
    have e2 : (fun x : Pt => x.2) ∘ scalePt k = (k * ·) ∘ (fun x : Pt => x.2) := by funext x; rfl
    have s1 : (scalePt k v).1 = k * v.1 := rfl
    have s2 : (scalePt k v).2 = k * v.2 := rfl
    have s3 : (scalePt k p).1 = k * p.1 := rfl
    have s4 : (scalePt k p).2 = k * p.2 := rfl
    rw [e1, e2, s1, s2, s3, s4, ← List.map_map, ← List.map_map, minList_scale hk, maxList_scale hk,
      minList_scale hk, maxList_scale hk]
    simp only [kmul_le hk]

theorem polyScale_contains {k : Rat} (hk : 0 < k) (p : Pt) (vs : List Pt) :
    Impl.polyContains (vs.map (scalePt k)) (scalePt k p) = Impl.polyContains vs p := by
  simp only [Impl.polyContains, polyKeep_scale hk, crossParity_scale hk, List.length_map]

/-! ### every class -/

/-- **Scale equivariance** of the coded test and of the geometric definition. -/
theorem contains_scale (roi : Roi) (k : Rat) (hk : 0 < k) (p : Pt) :
    Impl.contains (scaleRoi k roi) (scalePt k p) = Impl.contains roi p ∧
    Spec.contains (scaleRoi k roi) (scalePt k p) = Spec.contains roi p := by
  cases roi with
  | rect r => exact ⟨rectScale_contains hk r p, rectScale_spec hk r p⟩
  | circle c => exact ⟨circleScale_contains hk c p, circleScale_contains hk c p⟩
  | ellipse e => exact ⟨ellScale_contains hk e p, ellScale_spec hk e p⟩
  | annulus a => exact ⟨annulusScale_contains hk a p, annulusScale_contains hk a p⟩
  | range r => exact ⟨rangeScale_contains hk r p, rangeScale_contains hk r p⟩
  | poly g => exact ⟨polyScale_contains hk p g.vs, crossParity_scale hk p g.vs⟩
  | undefined => exact ⟨rfl, rfl⟩

/-- **Translation equivariance**, in terms of the model's own `move_to`: moving the region to
`center + d` and the point by `d` does not change the answer (every class; a range only looks at,
and only moves along, its own axis). -/
theorem contains_translate (roi : Roi) (d p : Pt) :
    Impl.contains (roi.moveTo (roi.center.1 + d.1, roi.center.2 + d.2)) (p.1 + d.1, p.2 + d.2) =
      Impl.contains roi p := by
  rw [move_equivariant]
  cases roi with
  | range r =>
    simp only [Roi.moveDelta, Roi.center, Impl.contains]
    rw [Bool.eq_iff_iff, range_iff, range_iff]
    cases r.isX <;> simp
  | rect r => simp only [Roi.moveDelta, Roi.center]; congr 1; ext <;> simp
  | circle c => simp only [Roi.moveDelta, Roi.center]; congr 1; ext <;> simp
  | ellipse e => simp only [Roi.moveDelta, Roi.center]; congr 1; ext <;> simp
  | annulus a => simp only [Roi.moveDelta, Roi.center]; congr 1; ext <;> simp
  | poly g => simp only [Roi.moveDelta, Roi.center]; congr 1; ext <;> simp
  | undefined => rfl

end GlueVerif.Lemmas.Geometry
