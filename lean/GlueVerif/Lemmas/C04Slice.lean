import GlueVerif.Lemmas.C04Roi
import GlueVerif.Lemmas.ArrayUtil
/-!
# C04 — `SliceSubsetState.to_mask` under a view

Axis by axis (from C20 `combineNorm_correct`): the flags written by `mask[subslice] = True` on the
viewed axis are the state's membership test at the coordinates the view selects; integer entries
either drop the axis or empty the result; the outer conjunction of the per-axis flags is the test of
every gathered point.
-/
namespace GlueVerif.Lemmas.C04
open GlueVerif.ArrayUtil GlueVerif.C04
open GlueVerif.Coords (Sel selOf selsOf selShape ViewErr)

/-! ### lists -/

theorem length_cartG {α : Type} : ∀ ls : List (List α), (cartG ls).length = prod (ls.map List.length)
  | [] => rfl
  | l :: ls => by
    simp only [cartG, List.map_cons, prod_cons]
    induction l with
    | nil => simp
    | cons x xs ih =>
      rw [List.flatMap_cons, List.length_append, ih, List.length_map, length_cartG ls,
        List.length_cons, Nat.succ_mul, Nat.add_comm]

theorem prod_selShape : ∀ sels : List Sel,
    prod ((sels.map Sel.toList).map List.length) = prod (selShape sels)
  | [] => rfl
  | s :: rest => by
    have ih := prod_selShape rest
    cases s with
    | scalar k =>
      have h1 : selShape (Sel.scalar k :: rest) = selShape rest := rfl
      rw [h1, ← ih]
      simp only [List.map_cons, Sel.toList, List.length_cons, List.length_nil, prod_cons]
      omega
    | many ks =>
      have h1 : selShape (Sel.many ks :: rest) = ks.length :: selShape rest := rfl
      rw [h1]
      simp only [List.map_cons, Sel.toList, prod_cons, ih]

theorem flatMap_replicate_false {α : Type} (ks : List α) (m : Nat) :
    ks.flatMap (fun _ => List.replicate m false) = List.replicate (ks.length * m) false := by
  induction ks with
  | nil => simp
  | cons x xs ih =>
    rw [List.flatMap_cons, ih, List.length_cons, Nat.succ_mul, Nat.add_comm, List.replicate_add]

/-! ### one axis -/

/-- Relation between the outcome of one axis of `SliceSubsetState.to_mask` and what numpy selects
on that axis. -/
inductive AxRel (n : Nat) (sl : ViewItem) : AxisOut → Sel → Prop
  | dropped (k : Nat) : Spec.stateEntryHas n sl k = true → AxRel n sl .dropped (.scalar k)
  | miss (k : Nat) : Spec.stateEntryHas n sl k = false → AxRel n sl .miss (.scalar k)
  | flags (ks : List Nat) : AxRel n sl (.flags (ks.map (Spec.stateEntryHas n sl))) (.many ks)

theorem posEntry_indices {sl : ViewItem} (h : Spec.posSliceEntry sl = true) (n : Nat) :
    ∃ a b c bs es ss, sl = .slice a b c ∧ sliceIndices a b c n = some (bs, es, ss) ∧ 0 < ss := by
  cases sl with
  | int i => simp [Spec.posSliceEntry] at h
  | slice a b c =>
    cases c with
    | none =>
      have : ∃ t, sliceIndices a b none n = some t ∧ 0 < t.2.2 := by simp [sliceIndices]
      obtain ⟨⟨bs, es, ss⟩, h1, h2⟩ := this
      exact ⟨a, b, none, bs, es, ss, rfl, h1, h2⟩
    | some s =>
      simp only [Spec.posSliceEntry, decide_eq_true_eq] at h
      have hne : (s == 0) = false := by simp; omega
      have : ∃ t, sliceIndices a b (some s) n = some t ∧ t.2.2 = s := by simp [sliceIndices, hne]
      obtain ⟨⟨bs, es, ss⟩, h1, h2⟩ := this
      simp only at h2
      exact ⟨a, b, some s, bs, es, ss, rfl, h1, by omega⟩

theorem contains_pyRange_iff (bs es : Int) (ss : Nat) (hss : 0 < ss) (x : Int) :
    (pyRange bs es ss).contains x = true ↔ bs ≤ x ∧ x < es ∧ (ss : Int) ∣ x - bs := by
  rw [List.contains_iff_mem, Lemmas.C20Combine.mem_pyRange _ _ _ hss]

theorem sliceAxis_none {n : Nat} {sl : ViewItem} (hp : Spec.posSliceEntry sl = true) :
    sliceAxis n sl none = .ok (.flags ((List.range n).map (Spec.stateEntryHas n sl))) := by
  obtain ⟨a, b, c, bs, es, ss, rfl, hsi, hss⟩ := posEntry_indices hp n
  simp only [sliceAxis, stateAxisFlags, hsi, hss, if_true, emap]
  congr 2
  apply List.map_congr_left
  intro p _
  simp only [Spec.stateEntryHas, hsi]

theorem sliceAxis_int {n : Nat} {sl : ViewItem} (hp : Spec.posSliceEntry sl = true) {k : Int}
    {sel : Sel} (hs : selOf n (.int k) = .ok sel) :
    ∃ o, sliceAxis n sl (some (.int k)) = .ok o ∧ AxRel n sl o sel := by
  obtain ⟨a, b, c, bs, es, ss, rfl, hsi, hss⟩ := posEntry_indices hp n
  simp only [selOf] at hs
  split at hs
  · rename_i hk
    cases hs
    have hin : inAxis n k = true := by simp [inAxis, hk.1, hk.2]
    have hw : (if k < 0 then k + ↑n else k).toNat = wrapD n k := rfl
    simp only [sliceAxis, hsi, hin, Bool.not_true, Bool.false_eq_true, if_false, hw]
    have hc : ((ss.toNat : Nat) : Int) = ss := Int.toNat_of_nonneg (by omega)
    have hmem := contains_pyRange_iff bs es ss.toNat (by omega) ((wrapD n k : Nat) : Int)
    rw [hc] at hmem
    split
    · rename_i hcond
      refine ⟨_, rfl, AxRel.miss _ ?_⟩
      simp only [Spec.stateEntryHas, hsi]
      rw [Bool.eq_false_iff]
      intro hcon
      obtain ⟨h1, h2, h3⟩ := hmem.1 hcon
      rcases hcond with hcond | hcond | hcond
      · omega
      · omega
      · exact hcond (Int.emod_eq_zero_of_dvd h3)
    · rename_i hcond
      refine ⟨_, rfl, AxRel.dropped _ ?_⟩
      simp only [Spec.stateEntryHas, hsi]
      rw [hmem]
      simp only [not_or, not_lt, Decidable.not_not] at hcond
      exact ⟨by omega, by omega, Int.dvd_of_emod_eq_zero hcond.2.2⟩
  · cases hs

theorem sliceAxis_slice {n : Nat} {sl : ViewItem} (hp : Spec.posSliceEntry sl = true)
    {va vb vc : Option Int} (hv : ViewItem.posStep (.slice va vb vc) = true)
    {sel : Sel} (hs : selOf n (.slice va vb vc) = .ok sel) :
    ∃ o, sliceAxis n sl (some (.slice va vb vc)) = .ok o ∧ AxRel n sl o sel := by
  obtain ⟨a, b, c, bs, es, ss, rfl, hsi, hss⟩ := posEntry_indices hp n
  obtain ⟨va', vb', vc', bv, ev, sv, hveq, hvi, hsv⟩ :=
    posEntry_indices (sl := .slice va vb vc) (by simpa [Spec.posSliceEntry, ViewItem.posStep] using hv) n
  cases hveq
  simp only [selOf, hvi, hsv, if_true] at hs
  cases hs
  have hcv : ((sv.toNat : Nat) : Int) = sv := Int.toNat_of_nonneg (by omega)
  have hcs : ((ss.toNat : Nat) : Int) = ss := Int.toNat_of_nonneg (by omega)
  have hbv : 0 ≤ bv := ((sliceIndices_bounds hvi).1 hsv).1
  have hnot : ¬ (sv ≤ 0 ∨ ss ≤ 0) := by omega
  simp only [sliceAxis, hvi, hsi, hnot, if_false]
  refine ⟨_, rfl, ?_⟩
  have key : (List.range (rangeLen bv ev sv.toNat)).map (fun p =>
        (applySliceTo (rangeLen bv ev sv.toNat)
          (combineNorm bv ev sv.toNat bs es ss.toNat).1
          (combineNorm bv ev sv.toNat bs es ss.toNat).2.1
          (combineNorm bv ev sv.toNat bs es ss.toNat).2.2).contains p) =
      ((List.range (rangeLen bv ev sv.toNat)).map fun (k : Nat) => (bv + (k : Int) * sv).toNat).map
        (Spec.stateEntryHas n (.slice a b c)) := by
    rw [List.map_map]
    apply List.map_congr_left
    intro p hp
    rw [List.mem_range] at hp
    have hcorr := Lemmas.C20Combine.combineNorm_correct bv ev sv.toNat bs es ss.toNat (by omega) (by omega)
    rw [hcorr]
    simp only [Function.comp, Spec.stateEntryHas, hsi]
    have hlt := (Lemmas.C20Combine.lt_rangeLen_iff bv ev sv.toNat (by omega) p).1 hp
    rw [hcv] at hlt
    have hnn : 0 ≤ (p : Int) * sv := Int.mul_nonneg (Int.natCast_nonneg p) (by omega)
    have hcast : (((bv + (p : Int) * sv).toNat : Nat) : Int) = bv + (p : Int) * sv :=
      Int.toNat_of_nonneg (by omega)
    rw [Bool.eq_iff_iff, List.contains_iff_mem,
      Lemmas.C20Combine.mem_combineSpec _ _ _ _ _ _ (by omega) (by omega),
      contains_pyRange_iff _ _ _ (by omega), hcast, hcv, hcs]
    constructor
    · rintro ⟨_, h2, h3, h4⟩; exact ⟨h2, h3, h4⟩
    · rintro ⟨h2, h3, h4⟩; exact ⟨hlt, h2, h3, h4⟩
  rw [key]
  exact AxRel.flags _

/-! ### all axes -/

def AxesRel : List Nat → List ViewItem → List AxisOut → List Sel → Prop
  | n :: ns, sl :: sls, o :: os, s :: ss => AxRel n sl o s ∧ AxesRel ns sls os ss
  | [], [], [], [] => True
  | _, _, _, _ => False

theorem sliceAxes_rel : ∀ (sh : List Nat) (sls : List ViewItem) (items : List ViewItem)
    (sels : List Sel), sls.length = sh.length → sls.all Spec.posSliceEntry = true →
    items.all ViewItem.posStep = true → selsOf sh items = .ok sels →
    ∃ outs, sliceAxes sh sls items = .ok outs ∧ AxesRel sh sls outs sels
  | [], [], [], sels, _, _, _, h => by
    simp [selsOf] at h; cases h
    exact ⟨[], rfl, trivial⟩
  | [], [], _ :: _, sels, _, _, _, h => by simp [selsOf] at h
  | [], _ :: _, _, _, hl, _, _, _ => by simp at hl
  | _ :: _, [], _, _, hl, _, _, _ => by simp at hl
  | n :: ns, sl :: sls, [], sels, hl, hp, hi, h => by
    simp only [selsOf] at h
    cases hrec : selsOf ns [] with
    | error e => rw [hrec] at h; cases h
    | ok rest =>
      rw [hrec] at h
      cases h
      simp only [List.all_cons, Bool.and_eq_true] at hp
      obtain ⟨outs, ho, hr⟩ := sliceAxes_rel ns sls [] rest (by simpa using hl) hp.2 hi hrec
      refine ⟨AxisOut.flags ((List.range n).map (Spec.stateEntryHas n sl)) :: outs, ?_, ?_⟩
      · simp only [sliceAxes, sliceAxis_none hp.1, ho]
      · exact ⟨AxRel.flags _, hr⟩
  | n :: ns, sl :: sls, it :: its, sels, hl, hp, hi, h => by
    simp only [selsOf] at h
    simp only [List.all_cons, Bool.and_eq_true] at hp hi
    cases h1 : selOf n it with
    | error e => rw [h1] at h; cases h
    | ok s =>
      cases h2 : selsOf ns its with
      | error e => rw [h1, h2] at h; cases h
      | ok rest =>
        rw [h1, h2] at h
        cases h
        obtain ⟨outs, ho, hr⟩ := sliceAxes_rel ns sls its rest (by simpa using hl) hp.2 hi.2 h2
        have hax : ∃ o, sliceAxis n sl (some it) = .ok o ∧ AxRel n sl o s := by
          cases it with
          | int k => exact sliceAxis_int hp.1 h1
          | slice va vb vc => exact sliceAxis_slice hp.1 hi.1 h1
        obtain ⟨o, hoa, hra⟩ := hax
        refine ⟨o :: outs, ?_, ⟨hra, hr⟩⟩
        simp only [sliceAxes, hoa, ho]

/-- The outer conjunction of the per-axis outcomes is the state's test of every gathered point. -/
theorem axes_product : ∀ (sh : List Nat) (sls : List ViewItem) (outs : List AxisOut) (sels : List Sel),
    AxesRel sh sls outs sels →
    (cartG (sels.map Sel.toList)).map (Spec.sliceHolds sh sls) =
      (if outs.any AxisOut.isMiss then List.replicate (prod (selShape sels)) false
       else outerAnd (outs.filterMap AxisOut.flags?))
  | [], [], [], [], _ => by simp [cartG, Spec.sliceHolds, outerAnd]
  | n :: ns, sl :: sls, o :: os, s :: ss, h => by
    obtain ⟨h1, h2⟩ := h
    have ih := axes_product ns sls os ss h2
    have hlen : (cartG (ss.map Sel.toList)).length = prod (selShape ss) := by
      rw [length_cartG, prod_selShape]
    cases h1 with
    | dropped k hk =>
      simp only [List.map_cons, Sel.toList, cartG, List.flatMap_cons, List.flatMap_nil, List.append_nil,
        List.map_map, List.any_cons, AxisOut.isMiss, Bool.false_or, List.filterMap_cons, AxisOut.flags?]
      have : selShape (Sel.scalar k :: ss) = selShape ss := rfl
      rw [this, ← ih]
      apply List.map_congr_left
      intro t _
      simp [Spec.sliceHolds, hk]
    | miss k hk =>
      simp only [List.map_cons, Sel.toList, cartG, List.flatMap_cons, List.flatMap_nil, List.append_nil,
        List.map_map, List.any_cons, AxisOut.isMiss, Bool.true_or, if_true]
      have : selShape (Sel.scalar k :: ss) = selShape ss := rfl
      rw [this, ← hlen]
      apply List.ext_getElem
      · simp
      · intro i h1 h2
        simp [Spec.sliceHolds, hk]
    | flags ks =>
      simp only [List.map_cons, Sel.toList, cartG, List.map_flatMap, List.map_map, List.any_cons,
        AxisOut.isMiss, Bool.false_or, List.filterMap_cons, AxisOut.flags?]
      have hshape : selShape (Sel.many ks :: ss) = ks.length :: selShape ss := rfl
      have hrow : ∀ x, ((cartG (ss.map Sel.toList)).map
          ((Spec.sliceHolds (n :: ns) (sl :: sls)) ∘ fun t => x :: t)) =
          ((cartG (ss.map Sel.toList)).map (Spec.sliceHolds ns sls)).map (Spec.stateEntryHas n sl x && ·) := by
        intro x
        rw [List.map_map]
        rfl
      simp only [hrow, ih]
      split
      · rename_i hm
        rw [hshape, prod_cons]
        have : ∀ x : Nat, (List.replicate (prod (selShape ss)) false).map (Spec.stateEntryHas n sl x && ·) =
            List.replicate (prod (selShape ss)) false := by
          intro x; simp
        simp only [this]
        exact flatMap_replicate_false ks _
      · simp only [outerAnd, cartG, List.flatMap_map, List.map_flatMap, List.map_map]
        congr 1
  | [], [], [], _ :: _, h => by simp [AxesRel] at h
  | [], [], _ :: _, _, h => by simp [AxesRel] at h
  | [], _ :: _, _, _, h => by simp [AxesRel] at h
  | _ :: _, [], _, _, h => by simp [AxesRel] at h
  | _ :: _, _ :: _, [], _, h => by simp [AxesRel] at h
  | _ :: _, _ :: _, _ :: _, [], h => by simp [AxesRel] at h

/-- With every selection a list (no integer entry) no axis is dropped or missed. -/
theorem axesRel_many_noMiss : ∀ (sh : List Nat) (sls : List ViewItem) (outs : List AxisOut)
    (sels : List Sel), AxesRel sh sls outs sels →
    (∀ s ∈ sels, ∃ ks, s = Sel.many ks) → outs.any AxisOut.isMiss = false
  | [], [], [], [], _, _ => rfl
  | n :: ns, sl :: sls, o :: os, s :: ss, h, hm => by
    obtain ⟨h1, h2⟩ := h
    have ih := axesRel_many_noMiss ns sls os ss h2 (fun s' hs' => hm s' (List.mem_cons_of_mem _ hs'))
    obtain ⟨ks, hks⟩ := hm s List.mem_cons_self
    subst hks
    cases h1 with
    | flags ks => simp [AxisOut.isMiss, ih]
  | [], [], [], _ :: _, h, _ => by simp [AxesRel] at h
  | [], [], _ :: _, _, h, _ => by simp [AxesRel] at h
  | [], _ :: _, _, _, h, _ => by simp [AxesRel] at h
  | _ :: _, [], _, _, h, _ => by simp [AxesRel] at h
  | _ :: _, _ :: _, [], _, h, _ => by simp [AxesRel] at h
  | _ :: _, _ :: _, _ :: _, [], h, _ => by simp [AxesRel] at h

/-! ### the whole method -/

theorem selShape_fullSels (sh : List Nat) : selShape (sh.map fun h => Sel.many (List.range h)) = sh := by
  induction sh with
  | nil => rfl
  | cons h hs ih => simp [selShape] at ih ⊢

/-- The full mask: `zeros(shape); mask[tuple(slices)] = True` is the tabulated membership test. -/
theorem sliceFull_eq (sh : List Nat) (sls : List ViewItem) (hl : sls.length = sh.length)
    (hp : sls.all Spec.posSliceEntry = true) :
    Impl.sliceFull sh sls = .ok (tabulate sh (Spec.sliceHolds sh sls)) := by
  obtain ⟨outs, ho, hr⟩ := sliceAxes_rel sh sls [] _ hl hp rfl (selsOf_nil sh)
  have hq := axes_product sh sls outs _ hr
  have hnm := axesRel_many_noMiss sh sls outs _ hr (by
    intro s hs
    simp only [List.mem_map] at hs
    obtain ⟨h, _, rfl⟩ := hs
    exact ⟨_, rfl⟩)
  rw [hnm] at hq
  simp only [Bool.false_eq_true, if_false, map_toList_fullSels] at hq
  unfold Impl.sliceFull
  rw [ho]
  simp only [tabulate, allIdx, hq]

/-- **`SliceSubsetState.to_mask(data, view)`**: for every shape, every list of positive-step state
slices and every positive-step view, the result is the state's membership test of every gathered
point. -/
theorem sliceMask_gather (sh : List Nat) (sls : List ViewItem) (v : View)
    (hl : sls.length = sh.length) (hp : sls.all Spec.posSliceEntry = true)
    (hv : v.posStep = true) :
    Impl.sliceMask sh sls v = gather sh (Spec.sliceHolds sh sls) v := by
  have hfull := sliceFull_eq sh sls hl hp
  have grid : ∀ items : List ViewItem, items.all ViewItem.posStep = true →
      (match viewPoints sh (.basic items) with
       | .error e => Except.error e
       | .ok (shape, _) =>
         match sliceAxes sh sls items with
         | .error e => .error e
         | .ok outs =>
           if outs.any AxisOut.isMiss then .ok ⟨shape, List.replicate (prod shape) false⟩
           else .ok ⟨shape, outerAnd (outs.filterMap AxisOut.flags?)⟩) =
        gather sh (Spec.sliceHolds sh sls) (.basic items) := by
    intro items hi
    simp only [gather, viewPoints, bind, Except.bind, pure, Except.pure]
    cases hs : selsOf sh items with
    | error e => rfl
    | ok sels =>
      obtain ⟨outs, ho, hr⟩ := sliceAxes_rel sh sls items sels hl hp hi hs
      have hq := axes_product sh sls outs sels hr
      simp only [ho]
      rw [hq]
      split <;> rfl
  cases v with
  | none =>
    have h0 := grid [] rfl
    simp only [gather, viewPoints, bind, Except.bind, pure, Except.pure, selsOf_nil,
      selShape_fullSels, map_toList_fullSels] at h0
    simp only [Impl.sliceMask, gridItems, viewPoints, gather]
    exact h0
  | ellipsis =>
    have h0 := grid [] rfl
    simp only [gather, viewPoints, bind, Except.bind, pure, Except.pure, selsOf_nil,
      selShape_fullSels, map_toList_fullSels] at h0
    simp only [Impl.sliceMask, gridItems, viewPoints, gather]
    exact h0
  | basic items =>
    simp only [Impl.sliceMask, gridItems]
    exact grid items (by simpa [View.posStep] using hv)
  | arrays s items =>
    simp only [Impl.sliceMask, hfull]
    exact index_tabulate sh _ _
  | mask m =>
    simp only [Impl.sliceMask, hfull]
    exact index_tabulate sh _ _

end GlueVerif.Lemmas.C04
