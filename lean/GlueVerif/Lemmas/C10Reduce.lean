import GlueVerif.Model.Stats
import Mathlib.Tactic.Linarith
import Mathlib.Algebra.Order.Field.Basic
import Mathlib.Data.Rat.Floor
/-! C10: reducers over a partition (min / max / sum). -/
namespace GlueVerif.Lemmas.C10
open GlueVerif.Stats

theorem vmin_fin (a b : Rat) : Val.vmin (.fin a) (.fin b) = .fin (min a b) := by
  simp only [Val.vmin, Val.leq]
  by_cases h : a ≤ b
  · simp [h]
  · have : b ≤ a := le_of_lt (not_le.mp h)
    simp [h, min_eq_right this]

theorem vmax_fin (a b : Rat) : Val.vmax (.fin a) (.fin b) = .fin (max a b) := by
  simp only [Val.vmax, Val.leq]
  by_cases h : a ≤ b
  · simp [h]
  · have : b ≤ a := le_of_lt (not_le.mp h)
    simp [h, max_eq_left this]

theorem vmin_nn : Val.vmin .ninf .ninf = .ninf := rfl
theorem vmin_np : Val.vmin .ninf .pinf = .ninf := rfl
theorem vmin_nf (q : Rat) : Val.vmin .ninf (.fin q) = .ninf := rfl
theorem vmin_pn : Val.vmin .pinf .ninf = .ninf := rfl
theorem vmin_pp : Val.vmin .pinf .pinf = .pinf := rfl
theorem vmin_pf (q : Rat) : Val.vmin .pinf (.fin q) = .fin q := rfl
theorem vmin_fn (q : Rat) : Val.vmin (.fin q) .ninf = .ninf := rfl
theorem vmin_fp (q : Rat) : Val.vmin (.fin q) .pinf = .fin q := rfl
theorem vmax_nn : Val.vmax .ninf .ninf = .ninf := rfl
theorem vmax_np : Val.vmax .ninf .pinf = .pinf := rfl
theorem vmax_nf (q : Rat) : Val.vmax .ninf (.fin q) = .fin q := rfl
theorem vmax_pn : Val.vmax .pinf .ninf = .pinf := rfl
theorem vmax_pp : Val.vmax .pinf .pinf = .pinf := rfl
theorem vmax_pf (q : Rat) : Val.vmax .pinf (.fin q) = .pinf := rfl
theorem vmax_fn (q : Rat) : Val.vmax (.fin q) .ninf = .fin q := rfl
theorem vmax_fp (q : Rat) : Val.vmax (.fin q) .pinf = .pinf := rfl

theorem vmin_assoc (a b c : Val) (ha : a.isNan = false) (hb : b.isNan = false) (hc : c.isNan = false) :
    Val.vmin (Val.vmin a b) c = Val.vmin a (Val.vmin b c) := by
  cases a <;> cases b <;> cases c <;> simp [Val.isNan] at ha hb hc <;>
    simp only [vmin_fin, vmin_nn, vmin_np, vmin_nf, vmin_pn, vmin_pp, vmin_pf, vmin_fn, vmin_fp,
      min_assoc]

theorem vmax_assoc (a b c : Val) (ha : a.isNan = false) (hb : b.isNan = false) (hc : c.isNan = false) :
    Val.vmax (Val.vmax a b) c = Val.vmax a (Val.vmax b c) := by
  cases a <;> cases b <;> cases c <;> simp [Val.isNan] at ha hb hc <;>
    simp only [vmax_fin, vmax_nn, vmax_np, vmax_nf, vmax_pn, vmax_pp, vmax_pf, vmax_fn, vmax_fp,
      max_assoc]

theorem vmin_notNan (a b : Val) (ha : a.isNan = false) (hb : b.isNan = false) :
    (Val.vmin a b).isNan = false := by
  unfold Val.vmin; split <;> assumption

theorem vmax_notNan (a b : Val) (ha : a.isNan = false) (hb : b.isNan = false) :
    (Val.vmax a b).isNan = false := by
  unfold Val.vmax; split <;> assumption

theorem foldl_notNan (op : Val → Val → Val)
    (hop : ∀ a b, a.isNan = false → b.isNan = false → (op a b).isNan = false) :
    ∀ (xs : List Val) (a : Val), a.isNan = false → (∀ v ∈ xs, v.isNan = false) →
      (xs.foldl op a).isNan = false := by
  intro xs
  induction xs with
  | nil => intro a ha _; simpa
  | cons x xs ih =>
    intro a ha h
    simp only [List.foldl_cons]
    exact ih _ (hop a x ha (h x (by simp))) (fun v hv => h v (by simp [hv]))

theorem foldl_assoc (op : Val → Val → Val)
    (hop : ∀ a b, a.isNan = false → b.isNan = false → (op a b).isNan = false)
    (hassoc : ∀ a b c, a.isNan = false → b.isNan = false → c.isNan = false →
      op (op a b) c = op a (op b c)) :
    ∀ (s : List Val) (a y : Val), a.isNan = false → y.isNan = false → (∀ v ∈ s, v.isNan = false) →
      s.foldl op (op a y) = op a (s.foldl op y) := by
  intro s
  induction s with
  | nil => intro a y _ _ _; rfl
  | cons z s ih =>
    intro a y ha hy h
    have hz := h z (by simp)
    simp only [List.foldl_cons]
    rw [hassoc a y z ha hy hz]
    exact ih a (op y z) ha (hop y z hy hz) (fun v hv => h v (by simp [hv]))

theorem reduce_fold_append (op : Val → Val → Val)
    (hop : ∀ a b, a.isNan = false → b.isNan = false → (op a b).isNan = false)
    (hassoc : ∀ a b c, a.isNan = false → b.isNan = false → c.isNan = false →
      op (op a b) c = op a (op b c))
    (red : List Val → Val) (hred0 : red [] = .nan) (hred : ∀ x r, red (x :: r) = r.foldl op x)
    (xs ys : List Val) (hx : ∀ v ∈ xs, v.isNan = false) (hy : ∀ v ∈ ys, v.isNan = false) :
    red (xs ++ ys) = nanCombine op (red xs) (red ys) := by
  cases xs with
  | nil => simp [hred0, nanCombine]
  | cons x r =>
    have hx0 := hx x (by simp)
    have hr : ∀ v ∈ r, v.isNan = false := fun v hv => hx v (by simp [hv])
    have hA := foldl_notNan op hop r x hx0 hr
    cases ys with
    | nil =>
      simp only [List.append_nil, hred0, hred]
      cases hv : List.foldl op x r <;> simp [nanCombine, hv] at hA ⊢
    | cons y s =>
      have hy0 := hy y (by simp)
      have hs : ∀ v ∈ s, v.isNan = false := fun v hv => hy v (by simp [hv])
      have hB := foldl_notNan op hop s y hy0 hs
      simp only [List.cons_append, hred, List.foldl_append, List.foldl_cons]
      rw [foldl_assoc op hop hassoc s _ y hA hy0 hs]
      cases hv : List.foldl op x r <;> cases hw : List.foldl op y s <;>
        simp [nanCombine, hv, hw, Val.isNan] at hA hB ⊢

theorem reduceMin_append (xs ys : List Val) (hx : ∀ v ∈ xs, v.isNan = false)
    (hy : ∀ v ∈ ys, v.isNan = false) :
    reduceMin (xs ++ ys) = nanCombine Val.vmin (reduceMin xs) (reduceMin ys) :=
  reduce_fold_append Val.vmin vmin_notNan vmin_assoc reduceMin rfl (fun _ _ => rfl) xs ys hx hy

theorem reduceMax_append (xs ys : List Val) (hx : ∀ v ∈ xs, v.isNan = false)
    (hy : ∀ v ∈ ys, v.isNan = false) :
    reduceMax (xs ++ ys) = nanCombine Val.vmax (reduceMax xs) (reduceMax ys) :=
  reduce_fold_append Val.vmax vmax_notNan vmax_assoc reduceMax rfl (fun _ _ => rfl) xs ys hx hy

/-! sum over finite values -/

def sumQ : List Val → Rat
  | [] => 0
  | .fin q :: r => q + sumQ r
  | _ :: r => sumQ r

theorem foldl_add_fin : ∀ (xs : List Val) (acc : Rat), (∀ v ∈ xs, v.isFin = true) →
    xs.foldl Val.add (.fin acc) = .fin (acc + sumQ xs) := by
  intro xs
  induction xs with
  | nil => intro acc _; simp [sumQ]
  | cons x r ih =>
    intro acc h
    have hx := h x (by simp)
    cases x <;> simp [Val.isFin] at hx
    rename_i q
    simp only [List.foldl_cons, Val.add, sumQ]
    rw [ih (acc + q) (fun v hv => h v (by simp [hv]))]
    congr 1
    ring

theorem sumQ_append (xs ys : List Val) : sumQ (xs ++ ys) = sumQ xs + sumQ ys := by
  induction xs with
  | nil => simp [sumQ]
  | cons x r ih => cases x <;> simp [sumQ, ih] ; ring

theorem reduceSum_fin (xs : List Val) (h : ∀ v ∈ xs, v.isFin = true) (hne : xs ≠ []) :
    reduceSum xs = .fin (sumQ xs) := by
  cases xs with
  | nil => exact absurd rfl hne
  | cons x r =>
    simp only [reduceSum]
    rw [foldl_add_fin (x :: r) 0 h]
    simp

theorem reduceSum_append (xs ys : List Val) (hx : ∀ v ∈ xs, v.isFin = true)
    (hy : ∀ v ∈ ys, v.isFin = true) :
    reduceSum (xs ++ ys) = nanCombine Val.add (reduceSum xs) (reduceSum ys) := by
  by_cases hxe : xs = []
  · subst hxe; simp [reduceSum, nanCombine]
  · by_cases hye : ys = []
    · subst hye
      rw [List.append_nil, reduceSum_fin xs hx hxe]
      simp [reduceSum, nanCombine]
    · rw [reduceSum_fin xs hx hxe, reduceSum_fin ys hy hye,
        reduceSum_fin (xs ++ ys) (fun v hv => by
          rcases List.mem_append.mp hv with h | h
          · exact hx v h
          · exact hy v h) (by simp [hxe])]
      simp [nanCombine, Val.add, sumQ_append]

end GlueVerif.Lemmas.C10
