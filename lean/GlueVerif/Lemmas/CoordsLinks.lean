import GlueVerif.Lemmas.CoordsViews
/-!
# C15 — `_calculate`, the inverse shortcut and the coordinate links equal the direct transformation
-/
namespace GlueVerif.Lemmas.Coords
open GlueVerif.Coords GlueVerif.ArrayUtil
open Finset

theorem getD_map_range' {α : Type} (n : Nat) (f : Nat → α) (k : Nat) (d : α) :
    ((List.range n).map f).getD k d = if k < n then f k else d := by
  by_cases h : k < n
  · simp [List.getD, h]
  · simp [List.getD, h]

/-! ### `dependent_axes` covers what the world axis needs -/

theorem contains_dependentAxes (c : Coord) (axis i : Nat) (hi : i < c.n)
    (h : (coupledAxes c [c.n - 1 - axis] [c.n - 1 - axis]).1.getD (c.n - 1 - i) false = true ∨
         (coupledAxes c [c.n - 1 - axis] [c.n - 1 - axis]).2.getD (c.n - 1 - i) false = true) :
    (Impl.dependentAxes c axis).contains i = true := by
  unfold Impl.dependentAxes
  simp only [List.contains_eq_mem, List.mem_filter, List.mem_range, Bool.or_eq_true, decide_eq_true_eq]
  exact ⟨hi, h⟩

theorem need_subset_dependentAxes (c : Coord) (a : Nat) (ha : a < c.n) :
    needSubset c a (Impl.dependentAxes c a) = true := by
  rw [needSubset_iff]
  intro i hi hc
  obtain ⟨hcl, _, hw⟩ := coupledAxes_spec c [c.n - 1 - a] [c.n - 1 - a]
  apply contains_dependentAxes c a i hi
  left
  have := (closedUnder_iff _ _ _).mp hcl (c.n - 1 - a) (by omega) (c.n - 1 - i) (by omega) hc
  rw [← this]
  exact hw _ (by simp) (by omega)

/-! ### `_calculate` for every view -/

theorem worldViewWith_eq (depFn : Coord → Nat → List Nat) (c : Coord) (sh : List Nat) (a : Nat)
    (v : View) (ha : a < c.n) (hsh : sh.length = c.n) (hdep : needSubset c a (depFn c a) = true) :
    Impl.worldViewWith depFn c sh a v = Spec.worldView c sh a v := by
  have hfull := gridWith_eq depFn c a ha (fullSels sh) hdep (by rw [fullSels_length, hsh])
  cases v with
  | all =>
    simp only [Impl.worldViewWith, Spec.worldView, viewPoints, bind, Except.bind, pure, Except.pure]
    rw [hfull]
  | basic items =>
    simp only [Impl.worldViewWith, Spec.worldView, viewPoints, bind, Except.bind, pure, Except.pure]
    cases hs : selsOf sh items with
    | error e => rfl
    | ok sels =>
      simp only
      rw [gridWith_eq depFn c a ha sels hdep (by rw [selsOf_length sh items sels hs, hsh])]
  | arrays s ix =>
    simp only [Impl.worldViewWith, Spec.worldView, bind, Except.bind, pure, Except.pure]
    cases hv : viewPoints sh (.arrays s ix) with
    | error e => rfl
    | ok r =>
      obtain ⟨shape, pts⟩ := r
      simp only
      rw [arraysPath_eq c a ha pts (fun idx hidx => by
        rw [viewPoints_length sh _ shape pts hv idx hidx, hsh])]
  | mask m =>
    simp only [Impl.worldViewWith, Spec.worldView, viewPoints, bind, Except.bind, pure, Except.pure]
    split
    · rfl
    · simp only
      rw [hfull, maskFilter_map, List.length_map]

/-! ### the inverse transformation -/

theorem Coord.wf_affine {n : Nat} {m inv : Mat} (h : (Coord.affine n m inv).wf = true) :
    lastRowOk n m = true ∧ isInv n m inv = true := by
  simp only [Coord.wf, Bool.and_eq_true] at h
  exact ⟨h.1.2, h.2⟩

/-- `world_to_pixel ∘ pixel_to_world = id` for a well-formed coordinate object. -/
theorem Coord.w2p_p2w (c : Coord) (hwf : c.wf = true) (x : List Rat) (hx : x.length = c.n) :
    c.w2p (c.p2w x) = x := by
  cases c with
  | identity n =>
    simp only [Coord.n] at hx
    simp only [Coord.w2p, Coord.p2w]
    apply List.ext_getElem
    · simp [hx]
    · intro i h1 h2
      have hi : i < n := by simpa using h1
      simp [List.getD, hi, h2]
  | affine n m inv =>
    obtain ⟨hrow, hinv⟩ := Coord.wf_affine hwf
    exact affApply_inv_affApply hrow hinv x hx

/-- Component `p` of `world_to_pixel` only depends on the world axes with a non-zero entry in
row `p` of the inverse. -/
theorem w2p_congr (c : Coord) (p : Nat) (hp : p < c.n) (y y' : List Rat)
    (h : ∀ w, w < c.n → c.invEnt p w ≠ 0 → y.getD w 0 = y'.getD w 0) :
    (c.w2p y).getD p 0 = (c.w2p y').getD p 0 := by
  cases c with
  | identity n =>
    simp only [Coord.w2p, Coord.n] at *
    rw [getD_map_range, getD_map_range, if_pos hp, if_pos hp]
    exact h p hp (by simp [Coord.invEnt])
  | affine n m inv =>
    simp only [Coord.w2p, Coord.n] at *
    rw [getD_affApply _ _ _ _ hp, getD_affApply _ _ _ _ hp]
    congr 1
    apply Finset.sum_congr rfl
    intro j hj
    by_cases hz : ent inv p j = 0
    · rw [hz, zero_mul, zero_mul]
    · rw [h j (Finset.mem_range.mp hj) (by simpa [Coord.invEnt] using hz)]

/-- Row `p` of the inverse vanishes outside every block (closed pair of flag sets) containing
pixel axis `p`. -/
theorem invEnt_zero_outside (c : Coord) (hwf : c.wf = true) (s : List Bool × List Bool)
    (hcl : closedUnder c.corr c.n s = true) (p w : Nat) (hp : p < c.n) (hw : w < c.n)
    (hP : s.1.getD p false = true) (hW : s.2.getD w false = false) : c.invEnt p w = 0 := by
  have hcl' := (closedUnder_iff _ _ _).mp hcl
  cases c with
  | identity n =>
    simp only [Coord.invEnt]
    by_cases e : p = w
    · subst e
      have := hcl' p hp p hp (by simp [Coord.corr])
      rw [hP, hW] at this; cases this
    · rw [if_neg e]
  | affine n m inv =>
    obtain ⟨hrow, hinv⟩ := Coord.wf_affine hwf
    simp only [Coord.invEnt, Coord.n] at *
    apply inv_zero_outside_block hrow hinv (fun j => s.1.getD j false) (fun j => s.2.getD j false)
      _ p w hp hw hP hW
    intro w' hw' p' hp' hne
    exact hcl' w' hw' p' hp' (by simp [Coord.corr, hne])

/-- What `world2pixel_single_axis` flags covers the non-zero pattern of the inverse row. -/
theorem invRow_subset_worldDep (c : Coord) (hwf : c.wf = true) (p w : Nat) (hp : p < c.n) (hw : w < c.n)
    (hne : c.invEnt p w ≠ 0) : Impl.worldDep c p w = true := by
  obtain ⟨hcl, hps, _⟩ := coupledAxes_spec c [p] []
  unfold Impl.worldDep
  by_contra hcon
  have hW : (coupledAxes c [p] []).2.getD w false = false := by simpa using hcon
  exact hne (invEnt_zero_outside c hwf _ hcl p w hp hw (hps p (by simp) hp) hW)

/-- … and so does `from_needed = dependent_axes(coords, i)` of the world→pixel link. -/
theorem invRow_subset_dependentAxes (c : Coord) (hwf : c.wf = true) (i w : Nat) (hi : i < c.n) (hw : w < c.n)
    (hne : c.invEnt (c.n - 1 - i) (c.n - 1 - w) ≠ 0) : (Impl.dependentAxes c i).contains w = true := by
  obtain ⟨hcl, hps, _⟩ := coupledAxes_spec c [c.n - 1 - i] [c.n - 1 - i]
  apply contains_dependentAxes c i w hw
  right
  by_contra hcon
  have hW : (coupledAxes c [c.n - 1 - i] [c.n - 1 - i]).2.getD (c.n - 1 - w) false = false := by
    simpa using hcon
  exact hne (invEnt_zero_outside c hwf _ hcl _ _ (by omega) (by omega) (hps _ (by simp) (by omega)) hW)

/-- **The world→pixel shortcut never changes a value**: replacing the world inputs that
`world2pixel_single_axis` does not flag by anything else leaves pixel coordinate `p` unchanged. -/
theorem w2p_shortcut (c : Coord) (hwf : c.wf = true) (p : Nat) (hp : p < c.n) (y y' : List Rat)
    (h : ∀ w, w < c.n → Impl.worldDep c p w = true → y.getD w 0 = y'.getD w 0) :
    (c.w2p y).getD p 0 = (c.w2p y').getD p 0 :=
  w2p_congr c p hp y y' fun w hw hne => h w hw (invRow_subset_worldDep c hwf p w hp hw hne)

/-! ### links -/

theorem linkP2WWith_eq (depFn : Coord → Nat → List Nat) (c : Coord) (sh : List Nat) (i : Nat) (v : View)
    (hi : i < c.n) (hsh : sh.length = c.n) (hdep : needSubset c i (depFn c i) = true) :
    Impl.linkP2WWith depFn c sh i v = Spec.linkP2W c sh i v := by
  simp only [Impl.linkP2WWith, Spec.linkP2W, Spec.worldView, bind, Except.bind, pure, Except.pure]
  cases hv : viewPoints sh v with
  | error e => rfl
  | ok r =>
    obtain ⟨shape, pts⟩ := r
    simp only
    congr 2
    apply List.map_congr_left
    intro idx hidx
    have hl : idx.length = c.n := by rw [viewPoints_length sh v shape pts hv idx hidx, hsh]
    unfold Spec.worldAt
    apply worldAtQ_congr c i hi _ _ (by simp) (by rw [length_natPos, hl])
    intro j hj hc
    rw [getD_map_range, if_pos hj, if_pos ((needSubset_iff c i _).mp hdep j hj hc), if_pos hc, getD_natPos]

theorem cart_single (xs : List Nat) : cart [xs] = xs.map fun x => [x] := by
  simp only [cart, List.map_cons, List.map_nil]
  induction xs with
  | nil => rfl
  | cons x xs ih => simp [List.flatMap_cons, ih]

theorem linkWorldArg_eq (depFn : Coord → Nat → List Nat) (c : Coord) (sh : List Nat) (w : Nat) (v : View)
    (shape : List Nat) (pts : List (List Nat)) (hv : viewPoints sh v = .ok (shape, pts))
    (hw : w < c.n) (hsh : sh.length = c.n) (hdep : needSubset c w (depFn c w) = true) :
    Impl.linkWorldArg depFn c sh w v pts = pts.map (Spec.worldAt c w) := by
  have hfull := gridWith_eq depFn c w hw (fullSels sh) hdep (by rw [fullSels_length, hsh])
  cases v with
  | all =>
    simp only [viewPoints, Except.ok.injEq, Prod.mk.injEq] at hv
    simp only [Impl.linkWorldArg]
    rw [hfull, hv.2]
  | basic items =>
    simp only [viewPoints, bind, Except.bind, pure, Except.pure] at hv
    simp only [Impl.linkWorldArg]
    cases hs : selsOf sh items with
    | error e => rw [hs] at hv; simp at hv
    | ok sels =>
      rw [hs] at hv
      simp only [Except.ok.injEq, Prod.mk.injEq] at hv
      simp only
      rw [gridWith_eq depFn c w hw sels hdep (by rw [selsOf_length sh items sels hs, hsh]), hv.2]
  | mask m =>
    simp only [viewPoints] at hv
    split at hv
    · simp at hv
    · simp only [Except.ok.injEq, Prod.mk.injEq] at hv
      simp only [Impl.linkWorldArg]
      rw [hfull, maskFilter_map, hv.2]
  | arrays s ix =>
    have hlen := viewPoints_length sh _ shape pts hv
    simp only [viewPoints] at hv
    split at hv
    · simp at hv
    rename_i h1
    split at hv
    · simp at hv
    rename_i h2
    simp only [Except.ok.injEq, Prod.mk.injEq] at hv
    simp only [not_or, Decidable.not_not] at h1
    match ix, h1, h2, hv with
    | [], _, _, hv =>
      simp only [Impl.linkWorldArg]
      exact arraysPath_eq c w hw pts fun idx hidx => by rw [hlen idx hidx, hsh]
    | _ :: _ :: _, _, _, hv =>
      simp only [Impl.linkWorldArg]
      exact arraysPath_eq c w hw pts fun idx hidx => by rw [hlen idx hidx, hsh]
    | [a], h1, h2, hv =>
      simp only [Impl.linkWorldArg]
      -- one-dimensional data: sh = [h]
      have hsh1 : sh.length = 1 := by simpa using h1.1.symm
      match sh, hsh1 with
      | [h], _ =>
        have ha : a.length = prod s := by
          have := h1.2
          simp only [List.any_cons, List.any_nil, Bool.or_false, decide_eq_true_eq] at this
          by_contra hne
          exact absurd (by simpa using hne) this
        have hrange : ∀ k ∈ a, k < h := by
          intro k hk
          by_contra hge
          apply h2
          simp only [List.zip_cons_cons, List.zip_nil_right, List.any_cons, List.any_nil, Bool.or_false,
            List.any_eq_true, decide_eq_true_eq]
          exact ⟨k, hk, by omega⟩
        rw [hfull, ← hv.2]
        simp only [fullSels, List.map_cons, List.map_nil, Sel.toList, cart_single, List.map_map]
        simp only [pointsOf, List.map_cons, List.map_nil, List.map_map]
        apply List.ext_getElem
        · simp [ha]
        · intro r h1' h2'
          simp only [List.getElem_map, List.getElem_range, Function.comp]
          have hr : r < a.length := by simpa using h1'
          have hk := hrange a[r] (List.getElem_mem hr)
          have : a.getD r 0 = a[r] := by simp [List.getD, hr]
          rw [this]
          simp [List.getD, hk]

theorem toFits_length (l : List Rat) : (toFits l).length = l.length := by simp [toFits]

theorem linkW2P_eq (c : Coord) (hwf : c.wf = true) (sh : List Nat) (i : Nat) (v : View)
    (hi : i < c.n) (hsh : sh.length = c.n) :
    Impl.linkW2P c sh i v = Spec.linkW2P c sh i v := by
  simp only [Impl.linkW2P, Impl.linkW2PWith, Spec.linkW2P, bind, Except.bind, pure, Except.pure]
  cases hv : viewPoints sh v with
  | error e => rfl
  | ok res =>
    obtain ⟨shape, pts⟩ := res
    simp only
    congr 2
    apply List.ext_getElem
    · simp
    · intro r h1 h2
      have hr : r < pts.length := by simpa using h2
      simp only [List.getElem_map, List.getElem_range]
      have hl : pts[r].length = c.n := by
        rw [viewPoints_length sh v shape pts hv _ (List.getElem_mem hr), hsh]
      apply w2p_congr c (c.n - 1 - i) (by omega)
      intro w' hw' hne
      -- numpy index of the world axis
      have hwn : c.n - 1 - w' < c.n := by omega
      have hback : c.n - 1 - (c.n - 1 - w') = w' := by omega
      unfold toFits
      rw [getD_reverse _ c.n w' (by simp) hw']
      rw [getD_map_range, if_pos hwn]
      have hneed : (Impl.dependentAxes c i).contains (c.n - 1 - w') = true :=
        invRow_subset_dependentAxes c hwf i _ hi hwn (by rw [hback]; exact hne)
      have hflag : Impl.worldDep c (c.n - 1 - i) (c.n - 1 - (c.n - 1 - w')) = true := by
        rw [hback]; exact invRow_subset_worldDep c hwf _ w' (by omega) hw' hne
      rw [if_pos hneed, if_pos hflag, getD_map_range', if_pos hwn]
      rw [linkWorldArg_eq Impl.dependentAxes c sh _ v shape pts hv hwn hsh
        (need_subset_dependentAxes c _ hwn)]
      -- right-hand side: component w' of the forward transformation is the world value
      have : (c.p2w (natPos pts[r]).reverse).getD w' 0 = Spec.worldAt c (c.n - 1 - w') pts[r] := by
        unfold Spec.worldAt worldAtQ toFits
        rw [hback]
      rw [this]
      simp [List.getD, hr]

/-- The world→pixel link reproduces the pixel component (round trip through the exact inverse). -/
theorem specLinkW2P_eq_pixel (c : Coord) (hwf : c.wf = true) (sh : List Nat) (i : Nat) (v : View)
    (hi : i < c.n) (hsh : sh.length = c.n) :
    Spec.linkW2P c sh i v = Spec.pixelView sh i v := by
  simp only [Spec.linkW2P, Spec.pixelView, bind, Except.bind, pure, Except.pure]
  cases hv : viewPoints sh v with
  | error e => rfl
  | ok res =>
    obtain ⟨shape, pts⟩ := res
    simp only
    congr 2
    apply List.map_congr_left
    intro idx hidx
    have hl : idx.length = c.n := by rw [viewPoints_length sh v shape pts hv idx hidx, hsh]
    rw [Coord.w2p_p2w c hwf _ (by rw [toFits_length, length_natPos, hl])]
    unfold toFits
    rw [getD_reverse _ c.n _ (by rw [length_natPos, hl]) (by omega), getD_natPos]
    congr 2
    omega

/-- Identity coordinates: the world value at a grid point is the pixel index itself. -/
theorem identity_worldAt (n a : Nat) (ha : a < n) (idx : List Nat) (hl : idx.length = n) :
    Spec.worldAt (.identity n) a idx = ((idx.getD a 0 : Nat) : Rat) := by
  unfold Spec.worldAt worldAtQ toFits
  simp only [Coord.p2w, Coord.n]
  rw [getD_map_range, if_pos (by omega), getD_reverse _ n _ (by rw [length_natPos, hl]) (by omega), getD_natPos]
  congr 2
  omega

theorem identity_worldView (n : Nat) (sh : List Nat) (a : Nat) (v : View) (ha : a < n) (hsh : sh.length = n) :
    Spec.worldView (.identity n) sh a v = Spec.pixelView sh a v := by
  simp only [Spec.worldView, Spec.pixelView, bind, Except.bind, pure, Except.pure]
  cases hv : viewPoints sh v with
  | error e => rfl
  | ok res =>
    obtain ⟨shape, pts⟩ := res
    simp only
    congr 2
    apply List.map_congr_left
    intro idx hidx
    exact identity_worldAt n a ha idx (by rw [viewPoints_length sh v shape pts hv idx hidx, hsh])

/-- Pinned tree: a non-zero diagonal makes `dependent_axes` cover what the world axis needs. -/
theorem need_subset_pinned_of_diag (c : Coord) (a : Nat) (ha : a < c.n)
    (hdiag : ∀ k, k < c.n → c.corr k k = true) :
    needSubset c a (Pinned.dependentAxes c a) = true := by
  rw [needSubset_iff]
  intro i hi hc
  unfold Pinned.dependentAxes
  simp only [List.contains_eq_mem, List.mem_filter, List.mem_range, List.any_eq_true, Bool.and_eq_true,
    decide_eq_true_eq]
  exact ⟨hi, a, ha, hdiag _ (by omega), hc⟩

/-- Generic form of the inverse shortcut: any flag set covering the non-zero pattern of the
inverse row is safe. -/
theorem w2p_shortcut_of_pattern (c : Coord) (p : Nat) (hp : p < c.n) (flags : Nat → Bool)
    (hpat : invRowSubset c p flags = true) (y y' : List Rat)
    (h : ∀ w, w < c.n → flags w = true → y.getD w 0 = y'.getD w 0) :
    (c.w2p y).getD p 0 = (c.w2p y').getD p 0 := by
  apply w2p_congr c p hp
  intro w hw hne
  apply h w hw
  unfold invRowSubset at hpat
  simp only [List.all_eq_true, List.mem_range, Bool.or_eq_true, beq_iff_eq] at hpat
  rcases hpat w hw with h' | h'
  · exact absurd h' hne
  · exact h'

end GlueVerif.Lemmas.Coords
