import GlueVerif.Lemmas.C17Step
/-!
Helper lemmas for C17, part 3: `update_values_from_data` (with repair F13) preserves `Inv`; every call
(arbitrary arguments) preserves `Inv` (`stepCore_inv`, `step_inv`, `inv_run`).
-/
namespace GlueVerif.Lemmas.C17
open GlueVerif.DataStruct

/-! ## labels of existing identifiers are not touched by allocating new ones -/

theorem lookup_fresh_prefix {extra base : List (Cid × Label)} {c : Cid}
    (h : ∀ p ∈ extra, p.1 ≠ c) : (extra ++ base).lookup c = base.lookup c := by
  induction extra with
  | nil => rfl
  | cons p ps ih =>
    have hp : (c == p.1) = false := by
      have := h p List.mem_cons_self
      simpa using fun e => this e.symm
    obtain ⟨a, b⟩ := p
    simp only [List.cons_append, List.lookup_cons, hp]
    exact ih (fun q hq => h q (List.mem_cons_of_mem _ hq))

theorem label_newPixels (s : State) (n : Nat) (c : Cid) (hc : c < s.next) :
    (newPixels s n).1.label c = s.label c := by
  simp only [State.label, newPixels]
  rw [lookup_fresh_prefix]
  intro p hp
  simp only [List.mem_map, List.mem_range] at hp
  obtain ⟨i, _, rfl⟩ := hp
  simp only; omega

/-! ## what the world / pixel re-generation leaves alone -/

structure Frame (s t : State) : Prop where
  shape : t.shape = s.shape
  hub : t.hub = s.hub
  dlabel : t.dlabel = s.dlabel
  linked : t.linked = s.linked
  inDc : t.inDc = s.inDc
  next : s.next ≤ t.next
  label : ∀ c, c < s.next → t.label c = s.label c
  comps : ∀ x ∈ t.comps, x.kind.isCoord = false → x ∈ s.comps

theorem Frame.refl (s : State) : Frame s s :=
  ⟨rfl, rfl, rfl, rfl, rfl, Nat.le_refl _, fun _ _ => rfl, fun _ hx _ => hx⟩

theorem Frame.trans {a b c : State} (h1 : Frame a b) (h2 : Frame b c) : Frame a c :=
  ⟨h2.shape.trans h1.shape, h2.hub.trans h1.hub, h2.dlabel.trans h1.dlabel, h2.linked.trans h1.linked,
   h2.inDc.trans h1.inDc, Nat.le_trans h1.next h2.next,
   fun c hc => (h2.label c (Nat.lt_of_lt_of_le hc h1.next)).trans (h1.label c hc),
   fun x hx hk => h1.comps x (h2.comps x hx hk) hk⟩

theorem frame_removeAll (s : State) (ids : List Cid) : Frame s (removeAll s ids).1 ∧
    (removeAll s ids).1.coords = s.coords ∧ (removeAll s ids).1.pix = s.pix ∧
    (removeAll s ids).1.world = s.world ∧ (removeAll s ids).1.nlinks = s.nlinks := by
  obtain ⟨R, hR⟩ := removeAll_ok ids s
  rw [hR.state]
  exact ⟨⟨rfl, rfl, rfl, rfl, rfl, Nat.le_refl _, fun _ _ => rfl, fun x hx _ => (List.mem_filter.1 hx).1⟩,
    rfl, rfl, rfl, rfl⟩

theorem frame_newWorlds (s : State) (n : Nat) : Frame s (newWorlds s n).1 ∧ (newWorlds s n).1.coords = s.coords ∧
    (newWorlds s n).1.pix = s.pix := by
  refine ⟨⟨rfl, rfl, rfl, rfl, rfl, by simp [newWorlds], ?_, ?_⟩, rfl, rfl⟩
  · intro c hc
    simp only [State.label, newWorlds]
    rw [lookup_fresh_prefix]
    intro p hp
    simp only [List.mem_map, List.mem_range] at hp
    obtain ⟨i, _, rfl⟩ := hp
    simp only; omega
  · intro x hx hk
    simp only [newWorlds, List.mem_append, List.mem_map, List.mem_range] at hx
    rcases hx with hx | ⟨i, _, rfl⟩
    · exact hx
    · simp [Kind.isCoord] at hk

theorem frame_newPixels (s : State) (n : Nat) : Frame s (newPixels s n).1 ∧ (newPixels s n).1.coords = s.coords ∧
    (newPixels s n).1.world = s.world ∧ (newPixels s n).1.nlinks = s.nlinks := by
  refine ⟨⟨rfl, rfl, rfl, rfl, rfl, by simp [newPixels], fun c hc => label_newPixels s n c hc, ?_⟩, rfl, rfl, rfl⟩
  intro x hx hk
  simp only [newPixels, List.mem_append, List.mem_map, List.mem_range] at hx
  rcases hx with hx | ⟨i, _, rfl⟩
  · exact hx
  · simp [Kind.isCoord] at hk

theorem frame_updateWorld (s : State) (n : Nat) : Frame s (updateWorld s n).1 ∧
    (updateWorld s n).1.coords = s.coords ∧ (updateWorld s n).1.pix = s.pix := by
  simp only [updateWorld, Res.bind]
  obtain ⟨f1, c1, p1, _, _⟩ := frame_removeAll s s.world
  generalize (removeAll s s.world).1 = s1 at f1 c1 p1
  have f2 : Frame s { s1 with world := [], nlinks := 0 } :=
    ⟨f1.shape, f1.hub, f1.dlabel, f1.linked, f1.inDc, f1.next, f1.label, f1.comps⟩
  split
  · obtain ⟨f3, c3, p3⟩ := frame_newWorlds { s1 with world := [], nlinks := 0 } n
    exact ⟨f2.trans f3, by rw [c3]; exact c1, by rw [p3]; exact p1⟩
  · exact ⟨f2, c1, p1⟩

theorem frame_setCoords (s : State) (v : Option Nat) : Frame s (setCoords s v).1 ∧
    (setCoords s v).1.coords = v ∧ (setCoords s v).1.pix = s.pix := by
  simp only [setCoords]
  split
  · split
    · exact ⟨⟨rfl, rfl, rfl, rfl, rfl, Nat.le_refl _, fun _ _ => rfl, fun _ hx _ => hx⟩, rfl, rfl⟩
    · obtain ⟨f, c, p⟩ := frame_updateWorld { s with coords := v } s.shape.length
      exact ⟨⟨f.shape, f.hub, f.dlabel, f.linked, f.inDc, f.next, f.label, f.comps⟩, c, p⟩
  · rename_i hc
    have : s.coords = v := by simpa using hc
    exact ⟨Frame.refl s, this, rfl⟩

/-! ## stage 1: components without a match are removed -/

def staleIds (s : State) (newLabels : List Label) : List Cid :=
  ((nonCoord s).filter fun c => !newLabels.contains (s.label c.cid)).map (·.cid)

theorem uf_stage1 {s : State} (h : Inv s) (newLabels : List Label) :
    ∃ R : List Cid, (removeAll s (staleIds s newLabels)).1 = { s with comps := s.comps.filter (fun x => !R.contains x.cid) } ∧
      Inv (removeAll s (staleIds s newLabels)).1 ∧
      (∀ x ∈ s.comps.filter (fun x => !R.contains x.cid), x.kind.isCoord = false →
        newLabels.contains (s.label x.cid) = true) ∧
      (∀ x ∈ s.comps, x.kind.isCoord = true → (!R.contains x.cid) = true) := by
  obtain ⟨R, hR⟩ := removeAll_ok (staleIds s newLabels) s
  have hkeep : ∀ x ∈ s.comps, x.kind.isCoord = true → (!R.contains x.cid) = true := by
    intro x hx hco
    simp only [Bool.not_eq_true', List.contains_eq_mem, decide_eq_false_iff_not]
    intro hm
    rcases hR.kinds _ hm with hst | ⟨y, hy, hyx, hyd⟩
    · simp only [staleIds, nonCoord, List.mem_map, List.mem_filter] at hst
      obtain ⟨y, ⟨⟨hy, hnc⟩, _⟩, hyx⟩ := hst
      have : y = x := cid_inj h.nodup hy hx hyx
      subst this
      simp [hco] at hnc
    · have : y = x := cid_inj h.nodup hy hx hyx
      subst this
      cases hk : y.kind <;> simp_all [Kind.isCoord, Kind.isDerived]
  refine ⟨R, hR.state, ?_, ?_, hkeep⟩
  · rw [hR.state]
    exact inv_filter h _ hkeep
  · intro x hx hnc
    obtain ⟨hx1, hx2⟩ := List.mem_filter.1 hx
    by_cases hl : newLabels.contains (s.label x.cid) = true
    · exact hl
    · exfalso
      have hst : x.cid ∈ staleIds s newLabels := by
        simp only [staleIds, nonCoord, List.mem_map, List.mem_filter]
        exact ⟨x, ⟨⟨hx1, by simp [hnc]⟩, by simpa using hl⟩, rfl⟩
      have := hR.complete _ hst (List.mem_map.2 ⟨x, hx1, rfl⟩)
      simp only [Bool.not_eq_true', List.contains_eq_mem, decide_eq_false_iff_not] at hx2
      exact hx2 this

/-! ## stage 2/3 when the number of dimensions changes: pixel components are re-generated -/

/-- After `coords = None`: drop the pixel components, take the new shape, generate new pixel
components. The stored arrays still have the old shape. -/
theorem invG_rebuildPixels {s : State} (h : Inv s) (hco : s.coords = none) (sh' : Shape) :
    let r := removeAll s s.pix
    let t := (newPixels { r.1 with pix := [], shape := sh' } sh'.length).1
    InvG s.shape t ∧ t.shape = sh' ∧ (∀ x ∈ t.comps, x.kind.isCoord = false → x ∈ s.comps) ∧
    (∀ c, c < s.next → t.label c = s.label c) ∧ t.hub = s.hub ∧ t.coords = none ∧ s.next ≤ t.next ∧
    t.dlabel = s.dlabel ∧ t.linked = s.linked ∧ t.inDc = s.inDc := by
  intro r t
  obtain ⟨R, hR⟩ := removeAll_ok s.pix s
  have hw := h.world
  simp only [hco, Option.isSome_none, Bool.false_eq_true, if_false] at hw
  have hRk : ∀ x ∈ s.comps, x.cid ∈ R → (∃ a, x.kind = .pixel a) ∨ x.kind.isDerived = true := by
    intro x hx hxr
    rcases hR.kinds _ hxr with hp | ⟨y, hy, hyx, hyd⟩
    · left
      obtain ⟨i, hi, hget⟩ := List.getElem_of_mem hp
      obtain ⟨c, hc, hcid, hk⟩ := h.pixel.2.1 i hi
      have : c = x := cid_inj h.nodup hc hx (by rw [hcid, hget])
      subst this
      exact ⟨i, hk⟩
    · right
      have : y = x := cid_inj h.nodup hy hx hyx
      subst this; exact hyd
  have hPgone : ∀ x ∈ s.comps.filter (fun x => !R.contains x.cid), ∀ a, x.kind ≠ .pixel a := by
    intro x hx a hk
    obtain ⟨hx1, hx2⟩ := List.mem_filter.1 hx
    have := h.pixel.2.2 x hx1 a hk
    have hmem : x.cid ∈ s.pix := List.mem_of_getElem? this
    have := hR.complete _ hmem (List.mem_map.2 ⟨x, hx1, rfl⟩)
    simp only [Bool.not_eq_true', List.contains_eq_mem, decide_eq_false_iff_not] at hx2
    exact hx2 this
  have hfl : ∀ c ∈ cids (s.comps.filter (fun x => !R.contains x.cid)), c < s.next := by
    intro c hc
    obtain ⟨y, hy, rfl, _⟩ := mem_cids_filter hc
    exact h.fresh.1 _ (List.mem_map.2 ⟨y, hy, rfl⟩)
  have hnd : (cids (s.comps.filter (fun x => !R.contains x.cid))).Nodup := by
    simp only [cids]
    exact (List.Sublist.map _ List.filter_sublist).nodup (by simpa [cids] using h.nodup)
  have hPk : ∀ x ∈ famComps s.next .pixel sh'.length, ∃ i, x.kind = .pixel i ∧ x.cid = s.next + i ∧ i < sh'.length := by
    intro x hx
    simp only [famComps, List.mem_map, List.mem_range] at hx
    obtain ⟨i, hi, rfl⟩ := hx
    exact ⟨i, rfl, rfl, hi⟩
  have ht : t = { s with
      comps := s.comps.filter (fun x => !R.contains x.cid) ++ famComps s.next .pixel sh'.length,
      pix := famIds s.next sh'.length, shape := sh',
      labels := (List.range sh'.length).map (fun i => (s.next + i, pixelLabel i sh'.length)) ++ s.labels,
      next := s.next + sh'.length } := by
    simp only [t, r, hR.state, newPixels, List.nil_append]
    rfl
  have e1 : List.map (fun x => x.cid) (famComps s.next Kind.pixel sh'.length) = famIds s.next sh'.length :=
    cids_famComps _ _ _
  refine ⟨?_, by rw [ht], ?_, ?_, by rw [ht], by rw [ht]; exact hco, by rw [ht]; simp, by rw [ht], by rw [ht], by rw [ht]⟩
  · rw [ht]
    refine ⟨?_, ?_, ?_, ?_, ?_, ?_⟩
    · simp only [cids, List.map_append]
      rw [e1, List.nodup_append]
      refine ⟨by simpa [cids] using hnd, famIds_nodup _ _, ?_⟩
      intro a ha b hb hab
      subst hab
      have := hfl a (by simpa [cids] using ha)
      have := mem_famIds.1 hb
      omega
    · intro c hc hk
      rcases List.mem_append.1 hc with hc | hc
      · exact h.shapes c (List.mem_filter.1 hc).1 hk
      · obtain ⟨i, hi, _⟩ := hPk c hc; rw [hk] at hi; cases hi
    · have := famOk_range (s.comps.filter (fun x => !R.contains x.cid)) [] s.next sh'.length .pixel pixel_inj
        hPgone (by simp)
      simpa using this
    · simp only [hco, Option.isSome_none, Bool.false_eq_true, if_false]
      refine ⟨hw.1, ?_⟩
      intro c hc a hk
      rcases List.mem_append.1 hc with hc | hc
      · exact hw.2 c (List.mem_filter.1 hc).1 a hk
      · obtain ⟨i, hi, _⟩ := hPk c hc; rw [hk] at hi; cases hi
    · have := h.links
      simp only [hco, Option.isSome_none, Bool.false_eq_true, if_false] at this ⊢
      exact this
    · refine ⟨?_, fun c hc => by have := h.fresh.2 c hc; simp only; omega⟩
      intro c hc
      simp only [cids, List.map_append, List.mem_append] at hc
      rcases hc with hc | hc
      · have := hfl c (by simpa [cids] using hc); simp only; omega
      · rw [e1] at hc
        have := mem_famIds.1 hc; simp only; omega
  · rw [ht]
    intro x hx hnc
    rcases List.mem_append.1 hx with hx | hx
    · exact (List.mem_filter.1 hx).1
    · obtain ⟨i, hi, _⟩ := hPk x hx
      simp [hi, Kind.isCoord] at hnc
  · intro c hc
    rw [ht]
    simp only [State.label]
    rw [lookup_fresh_prefix]
    intro p hp
    simp only [List.mem_map, List.mem_range] at hp
    obtain ⟨i, _, rfl⟩ := hp
    simp only; omega


/-! ## the value refresh, the additions, the tail -/

theorem inv_refresh {t : State} {sh : Shape} (h : InvG sh t) (both : List Label) (o : Other)
    (hshape : t.shape = o.shape)
    (hall : ∀ x ∈ t.comps, x.kind = .main → both.contains (t.label x.cid) = true) :
    Inv { t with comps := applyRefresh t both o } := by
  obtain ⟨h1, h2, h3, h4, h6, h7⟩ := h
  have hf : ∀ c ∈ t.comps, ((fun x : Comp =>
      if (!x.kind.isCoord && both.contains (t.label x.cid) && x.kind.isMain) = true then
        { x with shape := o.shape, val := (o.comps.lookup (t.label x.cid)).getD 0 } else x) c).cid = c.cid ∧
      ((fun x : Comp =>
      if (!x.kind.isCoord && both.contains (t.label x.cid) && x.kind.isMain) = true then
        { x with shape := o.shape, val := (o.comps.lookup (t.label x.cid)).getD 0 } else x) c).kind = c.kind := by
    intro c _
    simp only
    split <;> exact ⟨rfl, rfl⟩
  have hcids : cids (applyRefresh t both o) = cids t.comps := by
    simp only [applyRefresh, cids, List.map_map]
    apply List.map_congr_left
    intro c hc
    exact (hf c hc).1
  refine ⟨?_, ?_, ?_, ?_, h6, ?_⟩
  · rw [hcids]; exact h1
  · intro c hc hk
    simp only [applyRefresh, List.mem_map] at hc
    obtain ⟨c0, hc0, rfl⟩ := hc
    have hk0 : c0.kind = .main := by rw [← (hf c0 hc0).2]; exact hk
    have := hall c0 hc0 hk0
    have hm : t.label c0.cid ∈ both := by simpa using this
    simp [hk0, Kind.isCoord, Kind.isMain, hm, hshape]
  · exact famOk_map h3 _ hf
  · simp only
    split
    next hco => simp only [hco, if_true] at h4; exact famOk_map h4 _ hf
    next hco =>
      simp only [hco] at h4
      refine ⟨h4.1, ?_⟩
      intro c hc a
      simp only [applyRefresh, List.mem_map] at hc
      obtain ⟨c0, hc0, rfl⟩ := hc
      rw [(hf c0 hc0).2]
      exact h4.2 c0 hc0 a
  · exact ⟨by rw [hcids]; exact h7.1, h7.2⟩

/-- Storing a component whose shape is the dataset's leaves `_shape` alone. -/
theorem addRaw_shape {s : State} (c : Comp) (hc : compShape s.shape c = s.shape) : (addRaw s c).1.shape = s.shape := by
  simp [addRaw, hc]

theorem frame_createPixelWorld (s : State) (n : Nat) : Frame s (createPixelWorld s n).1 := by
  simp only [createPixelWorld, Res.bind]
  exact (frame_newPixels s n).1.trans (frame_updateWorld _ n).1

/-- `add_component` of an array that has the dataset's shape leaves `_shape` alone. -/
theorem addMain_shape (s : State) (c : Cid) (shape : Shape) (val : Nat) (hs : shape = s.shape) :
    (addMain s c shape val).1.shape = s.shape := by
  subst hs
  simp only [addMain, Res.bind]
  split
  · have := (frame_createPixelWorld s s.shape.length).shape
    rw [addRaw_shape _ (by simp [compShape, this]), this]
  · exact addRaw_shape _ rfl

theorem inv_addNewOnes (shape : Shape) : ∀ (l : List (Label × Nat)) {s : State}, Inv s → s.shape = shape →
    Inv (addNewOnes s shape l).1
  | [], s, h, _ => by simpa [addNewOnes] using h
  | (lab, v) :: rest, s, h, hs => by
    have hcan : canAdd s shape = true := by simp [canAdd, hs]
    simp only [addNewOnes, hcan]
    obtain ⟨a, _, _, d, _, _, _, hn, hcid, _⟩ := fresh_frame s lab
    have hI : Inv (addMain (fresh s lab).1 (fresh s lab).2 shape v).1 := by
      apply inv_addMain (inv_fresh h lab)
      · rw [hn, hcid]; exact Nat.lt_succ_self _
      · rw [a, hcid]; exact fresh_not_mem h
      · rw [canAdd_fresh]; exact hcan
    have hS : (addMain (fresh s lab).1 (fresh s lab).2 shape v).1.shape = shape := by
      rw [addMain_shape _ _ _ _ (by rw [d, hs]), d, hs]
    simpa using inv_addNewOnes shape rest hI hS

theorem inv_setLabel {s : State} (h : Inv s) (l : Label) : Inv (setLabelImpl s l).1 := by
  simp only [setLabelImpl]
  split
  · exact inv_frame h rfl rfl rfl rfl rfl rfl rfl (Nat.le_refl _)
  · exact h

theorem inv_ufFinish {s : State} (h : Inv s) (o : Other) : Inv (ufFinish s o).1 := by
  simp only [ufFinish, Res.bind]
  exact inv_setCoords (inv_setLabel h _) _

/-! ## assembly -/

theorem mem_both {oldL newL : List Label} {l : Label} (h1 : l ∈ oldL) (h2 : newL.contains l = true) :
    (oldL.filter newL.contains).contains l = true := by
  simp only [List.contains_eq_mem, decide_eq_true_eq, List.mem_filter]
  exact ⟨h1, by simpa using h2⟩

theorem invG_setShape {s : State} {sh : Shape} (h : InvG sh s) (sh' : Shape) (hl : sh'.length = s.shape.length) :
    InvG sh { s with shape := sh' } := by
  obtain ⟨h1, h2, h3, h4, h6, h7⟩ := h
  refine ⟨h1, h2, ?_, ?_, ?_, h7⟩
  · simp only [hl]; exact h3
  · simp only [hl]; exact h4
  · simp only [hl]; exact h6

/-- What stages 1–3 of `update_values_from_data` establish: all clauses of the invariant except that
the arrays may still have their previous shape; every main component left is one of the survivors
of stage 1; labels of existing identifiers are untouched. -/
theorem ufStages_key {s : State} (h : Inv s) (o : Other) :
    ∃ (R : List Cid) (sh : Shape), InvG sh (ufStages s o).1 ∧ (ufStages s o).1.shape = o.shape ∧
      (∀ x ∈ (ufStages s o).1.comps, x.kind = .main → x ∈ s.comps.filter (fun x => !R.contains x.cid)) ∧
      (∀ c, c < s.next → (ufStages s o).1.label c = s.label c) ∧
      (∀ x ∈ s.comps.filter (fun x => !R.contains x.cid), x.kind.isCoord = false →
        (o.comps.map (·.1)).contains (s.label x.cid) = true) := by
  obtain ⟨R, hs1, hI1, hsurv, hkeep⟩ := uf_stage1 h (o.comps.map (·.1))
  have hst : ufRemove s (o.comps.map (·.1)) = removeAll s (staleIds s (o.comps.map (·.1))) := rfl
  refine ⟨R, ?_⟩
  simp only [ufStages, hst, Res.bind]
  generalize hs1' : (removeAll s (staleIds s (o.comps.map (·.1)))).1 = s1 at hI1 hs1
  have hs1c : s1.comps = s.comps.filter (fun x => !R.contains x.cid) := by rw [hs1]
  have hs1l : ∀ c, s1.label c = s.label c := by intro c; rw [hs1]; rfl
  have hs1n : s1.next = s.next := by rw [hs1]
  have hs1s : s1.shape = s.shape := by rw [hs1]
  by_cases hnd : (o.shape.length != s.shape.length) = true
  · -- the number of dimensions changes
    simp only [hnd, if_true, ufDropCoords, Res.bind, ufReshape]
    have hI2 := inv_setCoords hI1 none
    obtain ⟨f12, hco2, _⟩ := frame_setCoords s1 none
    generalize (setCoords s1 none).1 = s2 at hI2 hco2 f12
    obtain ⟨hG, hsh, hcomps, hlab, _⟩ := invG_rebuildPixels hI2 hco2 o.shape
    refine ⟨s2.shape, hG, hsh, ?_, ?_, hsurv⟩
    · intro x hx hk
      have hnc : x.kind.isCoord = false := by simp [hk, Kind.isCoord]
      have := f12.comps x (hcomps x hx hnc) hnc
      rw [hs1c] at this; exact this
    · intro c hc
      rw [hlab c (Nat.lt_of_lt_of_le (hs1n ▸ hc) f12.next), f12.label c (hs1n ▸ hc), hs1l]
  · -- same number of dimensions: only the shape changes
    simp only [hnd, Bool.false_eq_true, if_false, ufReshape]
    have hlen : o.shape.length = s.shape.length := by simpa using hnd
    refine ⟨s1.shape, ?_, trivial, ?_, ?_, hsurv⟩
    · exact invG_setShape hI1 o.shape (by rw [hs1s]; exact hlen)
    · intro x hx _
      rw [← hs1c]; exact hx
    · intro c _; exact hs1l c

/-- The state before the "add components that did not exist" loop satisfies the invariant. -/
theorem inv_ufRefreshed {s : State} (h : Inv s) (o : Other) :
    let t := (ufStages s o).1
    Inv { t with comps := (applyRefresh t
        (((nonCoord s).map (fun c => s.label c.cid)).filter (o.comps.map (·.1)).contains) o) } ∧
    t.shape = o.shape := by
  intro t
  obtain ⟨R, sh, hG, hsh, hmain, hlab, hsurv⟩ := ufStages_key h o
  have hall : ∀ x ∈ (ufStages s o).1.comps, x.kind = .main →
      (((nonCoord s).map (fun c => s.label c.cid)).filter (o.comps.map (·.1)).contains).contains ((ufStages s o).1.label x.cid) = true := by
    intro x hx hk
    have hxf := hmain x hx hk
    have hxs : x ∈ s.comps := (List.mem_filter.1 hxf).1
    have hnc : x.kind.isCoord = false := by simp [hk, Kind.isCoord]
    rw [hlab _ (h.fresh.1 _ (List.mem_map.2 ⟨x, hxs, rfl⟩))]
    apply mem_both
    · simp only [nonCoord, List.mem_map, List.mem_filter]
      exact ⟨x, ⟨hxs, by simp [hnc]⟩, rfl⟩
    · exact hsurv x hxf hnc
  exact ⟨inv_refresh hG _ o hsh hall, hsh⟩

theorem inv_updateFrom {s : State} (h : Inv s) (o : Other) :
    Inv (updateFromImpl s o).state := by
  simp only [updateFromImpl]
  split
  · exact h
  split
  · exact h
  obtain ⟨hI4, hsh⟩ := inv_ufRefreshed h o
  have hI5 := inv_addNewOnes o.shape
    (o.comps.filter fun p => !((nonCoord s).map (fun c => s.label c.cid)).contains p.1) hI4 hsh
  split
  · exact hI5
  · simp only [ok]
    exact inv_ufFinish hI5 o

/-! ## every call preserves `Inv` -/

theorem lt_idBound : ∀ (ids : List Cid) (b : Nat) (c : Cid), c ∈ ids ∨ c < b → c < ids.foldl (fun b c => max b (c + 1)) b
  | [], b, c, h => by
    rcases h with h | h
    · cases h
    · exact h
  | x :: xs, b, c, h => by
    simp only [List.foldl_cons]
    apply lt_idBound xs
    rcases h with h | h
    · rcases List.mem_cons.1 h with rfl | h
      · right; omega
      · left; exact h
    · right; omega

/-- After `alloc` every identifier the call mentions is a known object. -/
theorem alloc_ids (s : State) (op : Op) : ∀ c ∈ op.ids, c < (alloc s op).next := by
  intro c hc
  have := lt_idBound op.ids 0 c (Or.inl hc)
  simp only [alloc, idBound]
  omega

theorem inv_alloc {s : State} (h : Inv s) (op : Op) : Inv (alloc s op) :=
  inv_frame h rfl rfl rfl rfl rfl rfl rfl (by simp only [alloc]; omega)

/-- Every call whose arguments are known objects preserves the invariant. -/
theorem stepCore_inv {s : State} {op : Op} (h : Inv s) (hids : ∀ c ∈ op.ids, c < s.next) :
    Inv (stepCore s op).state := by
  cases op with
  | addArray l shape val => exact inv_addArray h l shape val
  | addArrayAt c shape val => exact inv_addArrayAt h c shape val (hids c (by simp [Op.ids]))
  | addDerived v l deps => exact inv_addDerived h v l deps
  | remove c => exact inv_remove h c
  | reorder cs => exact inv_reorder h cs
  | updateId old new =>
    simp only [stepCore]
    split
    · exact h
    · rename_i hnew
      simp only [ok]
      by_cases heq : new = old
      · subst heq
        simp [updateIdImpl]
        exact h
      · have hne : (new != old) = true := by simpa using heq
        simp only [hne, Bool.true_and, Bool.not_eq_true] at hnew
        exact inv_updateId h old new (hids new (by simp [Op.ids])) (by simpa using hnew)
  | updateComponents m => exact inv_updateComponents h m
  | updateFrom o => exact inv_updateFrom h o
  | setCoords v => exact inv_setCoords h v
  | rename c l =>
    simp only [stepCore]
    split
    · exact h
    · exact inv_frame h rfl rfl rfl rfl rfl rfl rfl (Nat.le_refl _)
  | setLabel l => exact inv_setLabel h l
  | attach =>
    simp only [stepCore]
    split
    · exact h
    · simp only [ok]
      obtain ⟨h1, h2, h3, h4, h6, h7⟩ := h
      exact ⟨h1, h2, h3, h4, h6, h7.1, by simp⟩
  | detach => exact inv_frame h rfl rfl rfl rfl rfl rfl rfl (Nat.le_refl _)
  | register => exact inv_frame h rfl rfl rfl rfl rfl rfl rfl (Nat.le_refl _)
  | setLinked cs =>
    simp only [stepCore]
    split
    · exact h
    · simp only [ok]
      obtain ⟨h1, h2, h3, h4, h6, h7⟩ := h
      exact ⟨h1, h2, h3, h4, h6, h7.1, fun c hc' => hids c (by simpa [Op.ids] using hc')⟩
  | nop => exact h

/-- **Every call preserves the invariant.** -/
theorem step_inv {s : State} {op : Op} (h : Inv s) : Inv (step s op).state :=
  stepCore_inv (inv_alloc h op) (alloc_ids s op)

theorem inv_run : ∀ (ops : List Op) {s : State}, Inv s → Inv (run s ops)
  | [], _, h => h
  | op :: ops, _, h => inv_run ops (step_inv h)

end GlueVerif.Lemmas.C17
