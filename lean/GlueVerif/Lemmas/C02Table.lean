import GlueVerif.Model.C02Serial
/-! Lemmas that lift the kernel-evaluated table check (`offenders … = []`) to the readable statement
of `no_silent_fallthrough`. -/
namespace GlueVerif.C02

theorem offenders_nil_iff (tbl : List ClassRow) (faithful loud : List Nat) :
    offenders tbl faithful loud = [] ↔ ∀ r ∈ tbl, rowOk tbl faithful loud r = true := by
  unfold offenders
  rw [List.map_eq_nil_iff, List.filter_eq_nil_iff]
  constructor
  · intro h r hr
    have := h r hr
    simpa using this
  · intro h r hr
    simp [h r hr]

/-- What a passing row means. -/
theorem rowOk_sound (tbl : List ClassRow) (faithful loud : List Nat) (r : ClassRow)
    (h : rowOk tbl faithful loud r = true) (hc : r.concrete = true) (hl : r.id ∉ loud) :
    selectSaver tbl r = none ∨
      ∃ s, selectSaver tbl r = some s ∧ selectLoader tbl r = some s ∧ (s = r.id ∨ s ∈ faithful) := by
  unfold rowOk at h
  have hl' : loud.contains r.id = false := by
    simpa using hl
  simp only [hc, hl', Bool.not_true, Bool.false_or] at h
  cases hs : selectSaver tbl r with
  | none => exact Or.inl rfl
  | some s =>
    right
    cases hld : selectLoader tbl r with
    | none => simp [hs, hld] at h
    | some l =>
      simp only [hs, hld, Bool.and_eq_true, beq_iff_eq, Bool.or_eq_true, List.contains_eq_mem,
        decide_eq_true_eq] at h
      exact ⟨s, rfl, by rw [h.1], h.2⟩

/-- The dispatch only ever selects a class of the MRO. -/
theorem firstWith_mem (tbl : List ClassRow) (p : ClassRow → Bool) (mro : List Nat) (c : Nat)
    (h : firstWith tbl p mro = some c) : c ∈ mro := by
  induction mro with
  | nil => simp [firstWith] at h
  | cons a rest ih =>
    unfold firstWith at h
    split at h
    · split at h
      · simp only [Option.some.injEq] at h; simp [h]
      · exact List.mem_cons_of_mem _ (ih h)
    · exact List.mem_cons_of_mem _ (ih h)

theorem selectSaver_mem_mro (tbl : List ClassRow) (r : ClassRow) (c : Nat)
    (h : selectSaver tbl r = some c) : c ∈ r.mro := by
  unfold selectSaver at h
  split at h
  · rename_i c' hc
    simp only [Option.some.injEq] at h
    exact h ▸ firstWith_mem tbl _ _ _ hc
  · exact firstWith_mem tbl _ _ _ h

end GlueVerif.C02
