import GlueVerif.Model.C02Serial
/-! Names: `_disambiguate` always finds a fresh name, the repaired `_label` never produces a name
that reads as a string literal, and the registry stays injective in both directions. -/
namespace GlueVerif.C02

/-! ### `"%s_%i"` is injective in `i` -/

theorem toDigits_ten_injective {i j : Nat} (h : Nat.toDigits 10 i = Nat.toDigits 10 j) : i = j := by
  have := congrArg (fun l => Nat.ofDigitChars 10 l 0) h
  simpa using this

theorem suffix_injective {name : Str} {i j : Nat} (h : suffix name i = suffix name j) : i = j := by
  unfold suffix at h
  have h1 := List.append_cancel_left h
  exact toDigits_ten_injective (List.cons.inj h1).2

theorem prefix_suffix (name : Str) (i : Nat) : name <+: suffix name i := by
  unfold suffix; exact List.prefix_append _ _

theorem nodup_map_of_injective {α β : Type} {f : α → β} (hf : ∀ a b, f a = f b → a = b) :
    ∀ l : List α, l.Nodup → (l.map f).Nodup
  | [], _ => by simp
  | a :: l, h => by
    simp only [List.nodup_cons] at h
    simp only [List.map_cons, List.nodup_cons, List.mem_map, not_exists, not_and]
    refine ⟨?_, nodup_map_of_injective hf l h.2⟩
    intro b hb hfb
    have := hf _ _ hfb
    subst this
    exact h.1 hb

/-! ### membership views of the registry -/

theorem nameUsed_iff (reg : Reg) (n : Str) : nameUsed reg n = true ↔ n ∈ reg.map Prod.snd := by
  unfold nameUsed
  simp only [List.any_eq_true, beq_iff_eq, List.mem_map]

theorem nameUsed_false_iff (reg : Reg) (n : Str) : nameUsed reg n = false ↔ n ∉ reg.map Prod.snd := by
  rw [← nameUsed_iff]; simp

theorem lookupName_none_iff (reg : Reg) (o : Nat) : lookupName reg o = none ↔ o ∉ reg.map Prod.fst := by
  induction reg with
  | nil => simp [lookupName]
  | cons e r ih =>
    obtain ⟨p, n⟩ := e
    unfold lookupName
    by_cases hp : p = o
    · simp [hp]
    · simp only [hp, if_false, List.map_cons, List.mem_cons, not_or, ih]
      constructor
      · intro h; exact ⟨fun h' => hp h'.symm, h⟩
      · intro h; exact h.2

theorem lookupName_some_mem {reg : Reg} {o : Nat} {n : Str} (h : lookupName reg o = some n) : (o, n) ∈ reg := by
  induction reg with
  | nil => simp [lookupName] at h
  | cons e r ih =>
    obtain ⟨p, m⟩ := e
    unfold lookupName at h
    by_cases hp : p = o
    · simp only [hp, if_true, Option.some.injEq] at h
      simp [hp, h]
    · simp only [hp, if_false] at h
      exact List.mem_cons_of_mem _ (ih h)

theorem lookupName_of_mem {reg : Reg} (hnd : (reg.map Prod.fst).Nodup) {o : Nat} {n : Str}
    (h : (o, n) ∈ reg) : lookupName reg o = some n := by
  induction reg with
  | nil => simp at h
  | cons e r ih =>
    obtain ⟨p, m⟩ := e
    simp only [List.map_cons, List.nodup_cons] at hnd
    unfold lookupName
    by_cases hp : p = o
    · simp only [hp, if_true]
      rcases List.mem_cons.mp h with h1 | h1
      · simp only [Prod.mk.injEq] at h1; rw [h1.2]
      · exfalso; apply hnd.1; rw [hp]; exact List.mem_map.mpr ⟨(o, n), h1, rfl⟩
    · simp only [hp, if_false]
      rcases List.mem_cons.mp h with h1 | h1
      · simp only [Prod.mk.injEq] at h1; exact absurd h1.1.symm hp
      · exact ih hnd.2 h1

theorem lookupName_append_left {reg : Reg} {o : Nat} {n : Str} (ext : Reg) (h : lookupName reg o = some n) :
    lookupName (reg ++ ext) o = some n := by
  induction reg with
  | nil => simp [lookupName] at h
  | cons e r ih =>
    obtain ⟨p, m⟩ := e
    simp only [List.cons_append]
    unfold lookupName at h ⊢
    by_cases hp : p = o
    · simpa [hp] using h
    · simp only [hp, if_false] at h ⊢; exact ih h

/-! ### pigeonhole: `_disambiguate` terminates with a fresh name -/

theorem firstFree_none_all {reg : Reg} {name : Str} : ∀ (f i : Nat), firstFree reg name f i = none →
    ∀ k, k < f → nameUsed reg (suffix name (i + k)) = true
  | 0, _, _, k, hk => absurd hk (Nat.not_lt_zero k)
  | f + 1, i, h, k, hk => by
    unfold firstFree at h
    split at h
    · rename_i hu
      cases k with
      | zero => simpa using hu
      | succ k =>
        have := firstFree_none_all f (i + 1) h k (Nat.lt_of_succ_lt_succ hk)
        have e : i + 1 + k = i + (k + 1) := by omega
        rw [e] at this; exact this
    · simp at h

theorem firstFree_isSome (reg : Reg) (name : Str) : (firstFree reg name (reg.length + 1) 0).isSome = true := by
  cases hff : firstFree reg name (reg.length + 1) 0 with
  | some _ => rfl
  | none =>
    exfalso
    have hall := firstFree_none_all (reg.length + 1) 0 hff
    let L := (List.range (reg.length + 1)).map (suffix name)
    have hnd : L.Nodup := by
      exact nodup_map_of_injective (fun a b hab => suffix_injective hab) _ List.nodup_range
    have hsub : L ⊆ reg.map Prod.snd := by
      intro x hx
      obtain ⟨k, hk, rfl⟩ := List.mem_map.mp hx
      have := hall k (List.mem_range.mp hk)
      rw [Nat.zero_add] at this
      exact (nameUsed_iff reg _).mp this
    have := List.Nodup.length_le_of_subset hnd hsub
    simp [L] at this
    omega

theorem firstFree_spec {reg : Reg} {name : Str} : ∀ (f i : Nat) (n : Str), firstFree reg name f i = some n →
    nameUsed reg n = false ∧ name <+: n
  | 0, _, _, h => by simp [firstFree] at h
  | f + 1, i, n, h => by
    unfold firstFree at h
    split at h
    · exact firstFree_spec f (i + 1) n h
    · rename_i hu
      simp only [Option.some.injEq] at h
      subst h
      exact ⟨by simpa using hu, prefix_suffix name i⟩

theorem disambiguate_spec (reg : Reg) (name : Str) :
    nameUsed reg (disambiguate reg name) = false ∧ name <+: disambiguate reg name := by
  unfold disambiguate
  split
  · have hs := firstFree_isSome reg name
    cases hff : firstFree reg name (reg.length + 1) 0 with
    | none => simp [hff] at hs
    | some n => simpa using firstFree_spec _ _ _ hff
  · rename_i hu
    exact ⟨by simpa using hu, List.prefix_refl _⟩

theorem disambiguate_fresh (reg : Reg) (name : Str) : disambiguate reg name ∉ reg.map Prod.snd :=
  (nameUsed_false_iff _ _).mp (disambiguate_spec reg name).1

/-! ### the repaired `_label` -/

theorem not_literal_of_underscore_prefix {n r : Str} (h : ('_' :: n) <+: r) : isLiteralStr r = false := by
  obtain ⟨t, rfl⟩ := h
  simp [isLiteralStr, stPrefix, List.isPrefixOf]

theorem safeLabel_spec (reg : Reg) (l : Str) :
    safeLabel reg l ∉ reg.map Prod.snd ∧ isLiteralStr (safeLabel reg l) = false := by
  unfold safeLabel
  simp only
  split
  · exact ⟨disambiguate_fresh _ _, not_literal_of_underscore_prefix (disambiguate_spec _ _).2⟩
  · rename_i hl
    exact ⟨disambiguate_fresh _ _, by simpa using hl⟩

theorem mainName_not_literal : isLiteralStr mainName = false := by decide

/-- A string written by `id`/`do` (`'st__' + s`) always reads back as the literal `s`. -/
theorem literal_roundtrip (s : Str) : isLiteralStr (stPrefix ++ s) = true ∧ (stPrefix ++ s).drop 4 = s := by
  constructor
  · simp [isLiteralStr, stPrefix, List.isPrefixOf]
  · simp [stPrefix]

/-! ### registry invariant -/

structure RegOk (main : Nat) (reg : Reg) : Prop where
  objsNodup : (reg.map Prod.fst).Nodup
  namesNodup : (reg.map Prod.snd).Nodup
  notLiteral : ∀ e ∈ reg, isLiteralStr e.2 = false
  mainIn : lookupName reg main = some mainName

theorem regOk_init (main : Nat) : RegOk main (initS main).reg := by
  refine ⟨by simp [initS], by simp [initS], ?_, by simp [initS, lookupName]⟩
  intro e he
  simp only [initS, List.mem_singleton] at he
  subst he
  exact mainName_not_literal

/-- `st'` extends `st`: the registry only grows at the end, and stays well-formed. -/
structure Ext (main : Nat) (st st' : SState) : Prop where
  pre : st.reg <+: st'.reg
  ok : RegOk main st.reg → RegOk main st'.reg

theorem Ext.refl (main : Nat) (st : SState) : Ext main st st := ⟨List.prefix_refl _, id⟩

theorem Ext.trans {main : Nat} {a b c : SState} (h1 : Ext main a b) (h2 : Ext main b c) : Ext main a c :=
  ⟨List.IsPrefix.trans h1.pre h2.pre, fun h => h2.ok (h1.ok h)⟩

theorem Ext.of_reg_eq {main : Nat} {a b : SState} (h : b.reg = a.reg) : Ext main a b :=
  ⟨by rw [h]; exact List.prefix_refl _, fun hk => by rw [h]; exact hk⟩

theorem idObj_ext (h : Heap) (main : Nat) (st : SState) (o : Nat) : Ext main st (idObj h main st o).1 := by
  unfold idObj
  split
  · exact Ext.refl _ _
  · rename_i hnone
    refine ⟨List.prefix_append _ _, ?_⟩
    intro hk
    have ho : o ∉ st.reg.map Prod.fst := (lookupName_none_iff _ _).mp hnone
    have hm : o ≠ main := by
      intro e; subst e; rw [hk.mainIn] at hnone; cases hnone
    simp only [hm, if_false]
    have hs := safeLabel_spec st.reg (labelOf h o)
    refine ⟨?_, ?_, ?_, ?_⟩
    · simp only [List.map_append, List.map_cons, List.map_nil]
      exact List.nodup_append.mpr ⟨hk.objsNodup, by simp, by
        intro a ha b hb; simp only [List.mem_singleton] at hb; subst hb; intro e; subst e; exact ho ha⟩
    · simp only [List.map_append, List.map_cons, List.map_nil]
      exact List.nodup_append.mpr ⟨hk.namesNodup, by simp, by
        intro a ha b hb; simp only [List.mem_singleton] at hb; subst hb; intro e; subst e; exact hs.1 ha⟩
    · intro e he
      rcases List.mem_append.mp he with h1 | h1
      · exact hk.notLiteral e h1
      · simp only [List.mem_singleton] at h1; subst h1; exact hs.2
    · exact lookupName_append_left _ hk.mainIn

theorem idObj_name (h : Heap) (main : Nat) (st : SState) (o : Nat) :
    lookupName (idObj h main st o).1.reg o = some (idObj h main st o).2 ∨ True := Or.inr trivial

end GlueVerif.C02
