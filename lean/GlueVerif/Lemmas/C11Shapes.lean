import GlueVerif.Lemmas.C11Bytes
/-!
Helper lemmas for C11, part 3: IEEE equality vs. bit equality after `+ 0`, the n-n byte test
`nnMatch` is tuple equality by value, the `|=` loops of the 1-n / n-1 shapes, and
`Impl.joinMask = jmOf Impl.rowMatch`, `Impl.rowMatch = Np.rowMatch`.
-/
namespace GlueVerif.Joins.Lemmas
open GlueVerif.Joins

/-! ### IEEE equality on bit patterns -/

theorem expBits4 : expBits 4 = 8 := rfl
theorem manBits4 : manBits 4 = 23 := rfl
theorem expBits8 : expBits 8 = 11 := rfl
theorem manBits8 : manBits 8 = 52 := rfl
theorem negZero4 : negZero 4 = 2147483648 := by decide
theorem negZero8 : negZero 8 = 9223372036854775808 := by decide

/-- For a non-NaN `a`: the patterns of `a + 0` and `b + 0` coincide iff `a == b` in IEEE arithmetic. -/
theorem flt_norm_eq_iff (w : Nat) (hw : w = 4 ∨ w = 8) (a b : Nat) (ha : isNaN w a = false) :
    ((if a = negZero w then 0 else a) = (if b = negZero w then 0 else b)) ↔
      eqAt (.flt w) (.f a) (.f b) = true := by
  rcases hw with rfl | rfl
  · simp only [eqAt, isNaN, isZero, negZero4, expBits4, manBits4, Bool.and_eq_true, Bool.not_eq_true',
      Bool.or_eq_true, beq_iff_eq, ne_eq, Bool.and_eq_false_iff, beq_eq_false_iff_ne,
      bne_eq_false_iff_eq, Nat.reducePow, Nat.reduceSub] at ha ⊢
    constructor
    · intro h
      split at h <;> split at h <;> omega
    · intro h
      split <;> split <;> omega
  · simp only [eqAt, isNaN, isZero, negZero8, expBits8, manBits8, Bool.and_eq_true, Bool.not_eq_true',
      Bool.or_eq_true, beq_iff_eq, ne_eq, Bool.and_eq_false_iff, beq_eq_false_iff_ne,
      bne_eq_false_iff_eq, Nat.reducePow, Nat.reduceSub] at ha ⊢
    constructor
    · intro h
      split at h <;> split at h <;> omega
    · intro h
      split <;> split <;> omega

theorem isNaN_zero (w : Nat) (hw : w = 4 ∨ w = 8) : isNaN w 0 = false := by
  rcases hw with rfl | rfl <;> decide

theorem isNaN_negZero (w : Nat) (hw : w = 4 ∨ w = 8) : isNaN w (negZero w) = false := by
  rcases hw with rfl | rfl <;> decide

/-! ### one pair of items after `common_key_arrays` -/

theorem norm0_valid (c : DType) (x : Cell) (h : validCell c x = true) : validCell c (norm0 c x) = true := by
  cases c with
  | int s w => simpa [norm0] using h
  | str w => simpa [norm0] using h
  | flt w =>
    cases x with
    | f b =>
      simp only [norm0]
      split
      · simp only [validCell, Bool.and_eq_true, decide_eq_true_eq] at h ⊢
        exact ⟨h.1, Nat.pow_pos (by omega)⟩
      · exact h
    | i v => simp [validCell] at h
    | s cs => simp [validCell] at h

/-- After the cast to the common dtype and `+ 0`: "the left item is not NaN and the two items
have the same bytes' worth of content" is exactly numpy's `==` on the items. -/
theorem pair_iff (c : DType) (x y : Cell) (hx : validCell c x = true) (hy : validCell c y = true) :
    (cellNaN c (norm0 c x) = false ∧ norm0 c x = norm0 c y) ↔ eqAt c x y = true := by
  cases c with
  | int s w => simp [norm0, cellNaN, eqAt]
  | str w => simp [norm0, cellNaN, eqAt]
  | flt w =>
    cases x with
    | f a =>
      cases y with
      | f b =>
        have hw : w = 4 ∨ w = 8 := by
          simp only [validCell, Bool.and_eq_true, Bool.or_eq_true, beq_iff_eq] at hx
          exact hx.1
        simp only [norm0, cellNaN, Cell.f.injEq]
        cases hna : isNaN w a with
        | true =>
          have hne : a ≠ negZero w := by
            intro h; rw [h, isNaN_negZero w hw] at hna; cases hna
          simp [hne, hna, eqAt]
        | false =>
          have h0 : isNaN w (if a = negZero w then 0 else a) = false := by
            split
            · exact isNaN_zero w hw
            · exact hna
          rw [h0]
          simp only [true_and]
          exact flt_norm_eq_iff w hw a b hna
      | i v => simp [validCell] at hy
      | s cs => simp [validCell] at hy
    | i v => simp [validCell] at hx
    | s cs => simp [validCell] at hx

/-! ### rows of `concatenate_arrays` -/

theorem enc_rows_eq_iff : ∀ ts : List (DType × Cell × Cell),
    (∀ t ∈ ts, validCell t.1 t.2.1 = true ∧ validCell t.1 t.2.2 = true) →
    ((encLeft ts).length = (encRight ts).length ∧ (encLeft ts = encRight ts ↔ ∀ t ∈ ts, t.2.1 = t.2.2))
  | [], _ => by simp [encLeft, encRight]
  | t :: ts, hv => by
    have ht := hv t (by simp)
    have ih := enc_rows_eq_iff ts (fun u hu => hv u (List.mem_cons_of_mem _ hu))
    have hl : (enc t.1 t.2.1).length = (enc t.1 t.2.2).length := by
      rw [enc_length _ _ ht.1, enc_length _ _ ht.2]
    simp only [encLeft, encRight, List.flatMap_cons, List.length_append] at ih ⊢
    refine ⟨by omega, ?_⟩
    constructor
    · intro h
      obtain ⟨h1, h2⟩ := List.append_inj h hl
      intro u hu
      rcases List.mem_cons.mp hu with rfl | hu
      · exact enc_inj _ _ _ ht.1 ht.2 h1
      · exact (ih.2.mp h2) u hu
    · intro h
      rw [h t (by simp), ih.2.mpr (fun u hu => h u (List.mem_cons_of_mem _ hu))]

/-- **The n-n byte test is tuple equality by value** (F6 + F6b repaired code): for key tuples whose
paired items are legal after promotion, comparing the NUL-stripped concatenated bytes (and masking
NaN rows) selects exactly the tuples that are equal component by component under numpy's `==`. -/
theorem nnMatch_eq (l r : List Key) (h : rowsOk l r = true) :
    nnMatch l r = (l.zip r).all fun p => veq p.1 p.2 := by
  have hv : ∀ t ∈ (l.zip r).map castPair, validCell t.1 t.2.1 = true ∧ validCell t.1 t.2.2 = true := by
    intro t ht
    obtain ⟨p, hp, rfl⟩ := List.mem_map.mp ht
    simp only [rowsOk, List.all_eq_true] at h
    have := h p hp
    simp only [pairOk, Bool.and_eq_true] at this
    exact ⟨norm0_valid _ _ this.1.2, norm0_valid _ _ this.2⟩
  have hrows := enc_rows_eq_iff _ hv
  rw [Bool.eq_iff_iff]
  simp only [nnMatch, Bool.and_eq_true, List.all_eq_true, Bool.not_eq_true', beq_iff_eq]
  constructor
  · rintro ⟨hnan, hstrip⟩ p hp
    have heq := (hrows.2.mp (stripZ_inj _ _ hrows.1 hstrip)) (castPair p) (List.mem_map_of_mem hp)
    have hn := hnan (castPair p) (List.mem_map_of_mem hp)
    simp only [rowsOk, List.all_eq_true] at h
    have hp' := h p hp
    simp only [pairOk, Bool.and_eq_true] at hp'
    exact (pair_iff _ _ _ hp'.1.2 hp'.2).mp ⟨hn, heq⟩
  · intro hall
    have hboth : ∀ t ∈ (l.zip r).map castPair, cellNaN t.1 t.2.1 = false ∧ t.2.1 = t.2.2 := by
      intro t ht
      obtain ⟨p, hp, rfl⟩ := List.mem_map.mp ht
      simp only [rowsOk, List.all_eq_true] at h
      have hp' := h p hp
      simp only [pairOk, Bool.and_eq_true] at hp'
      exact (pair_iff _ _ _ hp'.1.2 hp'.2).mpr (hall p hp)
    refine ⟨fun t ht => (hboth t ht).1, ?_⟩
    rw [hrows.2.mpr (fun t ht => (hboth t ht).2)]

/-! ### the `|=` loops -/

theorem zipWith_or_map {α : Type} (A B : α → Bool) : ∀ kl : List α,
    orMask (kl.map A) (kl.map B) = kl.map fun l => A l || B l
  | [] => rfl
  | l :: kl => by
    simp only [orMask, List.map_cons, List.zipWith_cons_cons, List.cons.injEq, true_and]
    exact zipWith_or_map A B kl

theorem any_or {β : Type} (p q : β → Bool) : ∀ xs : List β,
    (xs.any p || xs.any q) = xs.any fun x => p x || q x
  | [] => rfl
  | x :: xs => by
    simp only [List.any_cons]
    rw [← any_or p q xs]
    cases p x <;> cases q x <;> cases xs.any p <;> cases xs.any q <;> rfl

/-- `mask = zeros; for k in range(n): mask |= isin_k(left, right)` selects the rows for which some
`k` and some selected partner row match. -/
theorem foldl_orMask_isin {α β : Type} (g : Nat → α → β → Bool) (kl : List α) (kr : List β) : ∀ n,
    (List.range n).foldl (fun m k => orMask m (isin (g k) kl kr)) (List.replicate kl.length false) =
      kl.map fun l => kr.any fun r => (List.range n).any fun k => g k l r
  | 0 => by
    simp only [List.range_zero, List.foldl_nil, List.any_nil]
    induction kl with
    | nil => rfl
    | cons l kl ih =>
      simp only [List.length_cons, List.replicate_succ, List.map_cons, List.cons.injEq]
      refine ⟨?_, ih⟩
      induction kr with
      | nil => rfl
      | cons r kr ihr => simp [List.any_cons]
  | n + 1 => by
    rw [List.range_succ, List.foldl_append, foldl_orMask_isin g kl kr n]
    simp only [List.foldl_cons, List.foldl_nil, isin]
    rw [zipWith_or_map]
    apply List.map_congr_left
    intro l _
    rw [any_or]
    congr 1
    funext r
    simp [List.any_append]

/-- Scanning the positions `0 .. n-1` of a tuple of length `≤ n` is scanning its items. -/
theorem any_range_getElem? (g : Option Key → Bool) (hg : g none = false) (r : List Key) :
    ∀ m, (List.range (r.length + m)).any (fun k => g r[k]?) = r.any fun b => g (some b) := by
  intro m
  induction m with
  | zero =>
    simp only [Nat.add_zero]
    induction r with
    | nil => rfl
    | cons x t ih =>
      rw [List.length_cons, List.range_succ_eq_map, List.any_cons, List.any_map, List.any_cons]
      simp only [List.getElem?_cons_zero]
      congr 1
  | succ m ih =>
    rw [← Nat.add_assoc, List.range_succ, List.any_append, ih]
    have : r[r.length + m]? = none := by
      apply List.getElem?_eq_none
      omega
    simp [hg]

theorem any_range_of_le (g : Option Key → Bool) (hg : g none = false) (r : List Key) (n : Nat)
    (h : r.length ≤ n) : (List.range n).any (fun k => g r[k]?) = r.any fun b => g (some b) := by
  have := any_range_getElem? g hg r (n - r.length)
  rwa [show r.length + (n - r.length) = n by omega] at this

theorem veqO_none_right (a : Option Key) : veqO a none = false := by
  cases a <;> rfl

theorem veqO_none_left (b : Option Key) : veqO none b = false := rfl

/-! ### the coded branches are row tests -/

/-- The four coded branches, loops included, are "row selected ⇔ some selected partner row passes
`Impl.rowMatch`". -/
theorem implJoinMask_eq_jmOf (kl kr : List (List Key)) (n1 n2 : Nat) :
    Impl.joinMask kl kr n1 n2 = jmOf Impl.rowMatch kl kr n1 n2 := by
  unfold Impl.joinMask jmOf Impl.rowMatch
  by_cases h11 : n1 = 1 ∧ n2 = 1
  · obtain ⟨rfl, rfl⟩ := h11
    simp [arityOk, isin]
  · simp only [h11, if_false]
    by_cases hnn : n1 = n2
    · subst hnn
      by_cases h0 : n1 = 0
      · subst h0
        simp [arityOk]
      · have : arityOk n1 n1 = true := by simp [arityOk, h0]
        simp [h0, this, isin]
    · simp only [hnn, if_false]
      by_cases h1 : n1 = 1
      · subst h1
        have : arityOk 1 n2 = true := by simp [arityOk]
        simp only [this, if_true]
        rw [foldl_orMask_isin (fun k l r => veqO l[0]? r[k]?) kl kr n2]
      · simp only [h1, if_false]
        by_cases h2 : n2 = 1
        · subst h2
          by_cases h0 : n1 = 0
          · subst h0
            simp [arityOk]
          · have : arityOk n1 1 = true := by simp [arityOk, h0]
            simp only [this, if_true, h0, if_false]
            rw [foldl_orMask_isin (fun k l r => veqO l[k]? r[0]?) kl kr n1]
        · have : arityOk n1 n2 = false := by
            simp only [arityOk, Bool.and_eq_false_iff, bne_eq_false_iff_eq, Bool.or_eq_false_iff,
              beq_eq_false_iff_ne]
            exact Or.inr ⟨⟨hnn, h1⟩, h2⟩
          simp [h2, this]

/-- On legal key tuples the coded row test is membership by value. -/
theorem implRowMatch_eq_spec (n1 n2 : Nat) (l r : List Key) (hl : l.length ≤ n1) (hr : r.length ≤ n2)
    (hok : n1 = n2 → n1 ≠ 1 → rowsOk l r = true) :
    Impl.rowMatch n1 n2 l r = Np.rowMatch n1 n2 l r := by
  unfold Impl.rowMatch Np.rowMatch
  by_cases h11 : n1 = 1 ∧ n2 = 1
  · simp [h11]
  · simp only [h11, if_false]
    by_cases hnn : n1 = n2
    · simp only [hnn, if_true]
      exact nnMatch_eq l r (hok hnn (fun h => h11 ⟨h, hnn ▸ h⟩))
    · simp only [hnn, if_false]
      by_cases h1 : n1 = 1
      · simp only [h1, if_true]
        exact any_range_of_le (fun o => veqO l[0]? o) (veqO_none_right _) r n2 hr
      · simp only [h1, if_false]
        exact any_range_of_le (fun o => veqO o r[0]?) rfl l n1 hl

theorem rowKeys_length_le (dts : List DType) (cids : List Nat) (row : List Cell) :
    (rowKeys dts cids row).length ≤ cids.length := by
  unfold rowKeys
  exact List.length_filterMap_le _ _

end GlueVerif.Joins.Lemmas
