import GlueVerif.Model.C04Views
import GlueVerif.Lemmas.C20Combine
import GlueVerif.Lemmas.CoordsViews
/-!
# C04 — the L0 indexing model: enumeration of index tuples, in-range points, gather = index

* `map_flat_allIdx` : the row-major offsets of `allIdx sh` are `0, 1, …, prod sh - 1`;
* `get_tabulate`   : `(tabulate sh f).get idx = f idx` for `idx` below `sh`;
* `viewPoints_mem` : every index tuple a view gathers from lies below the shape;
* `index_tabulate` : `(tabulate sh f).index v = gather sh f v` — indexing a materialised array is
  gathering its defining function.
-/
namespace GlueVerif.Lemmas.C04
open GlueVerif.ArrayUtil GlueVerif.C04
open GlueVerif.Coords (Sel selOf selsOf selShape maskFilter ViewErr)

/-! ### lists -/

theorem flatMap_range_blocks (h P : Nat) :
    (List.range h).flatMap (fun i => (List.range P).map (i * P + ·)) = List.range (h * P) := by
  induction h with
  | zero => simp
  | succ h ih =>
    rw [List.range_succ, List.flatMap_append, ih, Nat.succ_mul, List.range_add]
    simp

theorem map_getD_range {α : Type} (l : List α) (d : α) :
    (List.range l.length).map (fun k => l.getD k d) = l := by
  apply List.ext_getElem
  · simp
  · intro n h1 h2
    simp [List.getD, List.getElem?_eq_getElem h2]

/-! ### `cartG`, `allIdx`, `flat` -/

theorem mem_cartG {α : Type} : ∀ (ls : List (List α)) (row : List α),
    row ∈ cartG ls ↔ List.Forall₂ (fun x l => x ∈ l) row ls
  | [], row => by
    simp only [cartG, List.mem_singleton]
    constructor
    · rintro rfl; exact List.Forall₂.nil
    · intro h; cases h; rfl
  | l :: ls, row => by
    simp only [cartG, List.mem_flatMap, List.mem_map]
    constructor
    · rintro ⟨x, hx, t, ht, rfl⟩
      exact List.Forall₂.cons hx ((mem_cartG ls t).1 ht)
    · intro h
      cases h with
      | cons hx ht => exact ⟨_, hx, _, (mem_cartG ls _).2 ht, rfl⟩

theorem mem_allIdx (sh idx : List Nat) :
    idx ∈ allIdx sh ↔ List.Forall₂ (fun i h => i < h) idx sh := by
  unfold allIdx
  rw [mem_cartG]
  induction sh generalizing idx with
  | nil =>
    constructor <;> (intro h; cases h; exact List.Forall₂.nil)
  | cons h hs ih =>
    constructor
    · intro hh
      cases hh with
      | cons hx ht => exact List.Forall₂.cons (by simpa using hx) ((ih _).1 ht)
    · intro hh
      cases hh with
      | cons hx ht => exact List.Forall₂.cons (by simpa using hx) ((ih _).2 ht)

theorem length_of_mem_allIdx {sh idx : List Nat} (h : idx ∈ allIdx sh) : idx.length = sh.length :=
  ((mem_allIdx sh idx).1 h).length_eq

theorem allIdx_cons (h : Nat) (hs : List Nat) :
    allIdx (h :: hs) = (List.range h).flatMap fun i => (allIdx hs).map (i :: ·) := rfl

theorem map_flat_allIdx : ∀ sh : List Nat, (allIdx sh).map (flat sh) = List.range (prod sh)
  | [] => by simp [allIdx, cartG, flat, prod]
  | h :: hs => by
    rw [allIdx_cons, List.map_flatMap]
    have : ∀ i, ((allIdx hs).map (i :: ·)).map (flat (h :: hs)) =
        (List.range (prod hs)).map (i * prod hs + ·) := by
      intro i
      rw [← map_flat_allIdx hs, List.map_map, List.map_map]
      rfl
    simp only [this]
    rw [flatMap_range_blocks]
    rfl

theorem length_allIdx (sh : List Nat) : (allIdx sh).length = prod sh := by
  have := congrArg List.length (map_flat_allIdx sh)
  simpa using this

/-- Position of an in-range index tuple in the row-major enumeration. -/
theorem getElem?_allIdx_flat {sh idx : List Nat} (h : idx ∈ allIdx sh) :
    (allIdx sh)[flat sh idx]? = some idx := by
  obtain ⟨n, hn, rfl⟩ := List.getElem_of_mem h
  have h1 := map_flat_allIdx sh
  have h2 : ((allIdx sh).map (flat sh))[n]? = (List.range (prod sh))[n]? := by rw [h1]
  have hn' : n < prod sh := by rw [← length_allIdx]; exact hn
  rw [List.getElem?_map, List.getElem?_eq_getElem hn, List.getElem?_range hn'] at h2
  simp only [Option.map_some, Option.some.injEq] at h2
  rw [h2, List.getElem?_eq_getElem hn]

theorem flat_lt {sh idx : List Nat} (h : idx ∈ allIdx sh) : flat sh idx < prod sh := by
  have := getElem?_allIdx_flat h
  rw [← length_allIdx]
  exact (List.getElem?_eq_some_iff.1 this).1

/-- The element of a tabulated array at an in-range index tuple is the function's value. -/
theorem getD_map_allIdx {α : Type} (sh : List Nat) (f : List Nat → α) (d : α) {idx : List Nat}
    (h : idx ∈ allIdx sh) : ((allIdx sh).map f).getD (flat sh idx) d = f idx := by
  simp [List.getD, List.getElem?_map, getElem?_allIdx_flat h]

theorem get_tabulate {α : Type} [Inhabited α] (sh : List Nat) (f : List Nat → α) {idx : List Nat}
    (h : idx ∈ allIdx sh) : (tabulate sh f).get idx = f idx :=
  getD_map_allIdx sh f default h

/-- Re-tabulating a materialised array of the right size gives it back. -/
theorem tabulate_get {α : Type} [Inhabited α] (a : NArr α) (h : a.data.length = prod a.shape) :
    tabulate a.shape a.get = a := by
  unfold tabulate NArr.get
  have : (allIdx a.shape).map (fun idx => a.data.getD (flat a.shape idx) default) =
      ((allIdx a.shape).map (flat a.shape)).map (fun k => a.data.getD k default) := by
    rw [List.map_map]; rfl
  rw [this, map_flat_allIdx, ← h, map_getD_range]

/-! ### every gathered index tuple is in range -/

theorem wrapD_lt {h : Nat} {i : Int} (hi : inAxis h i = true) : wrapD h i < h := by
  simp only [inAxis, Bool.and_eq_true, decide_eq_true_eq] at hi
  unfold wrapD
  split <;> omega

/-- Bounds of `slice.indices`. -/
theorem sliceIndices_bounds {a b c : Option Int} {h : Nat} {b' e' st' : Int}
    (hs : sliceIndices a b c h = some (b', e', st')) :
    (0 < st' → 0 ≤ b' ∧ b' ≤ h ∧ 0 ≤ e' ∧ e' ≤ h) ∧
    (st' < 0 → -1 ≤ b' ∧ b' ≤ (h : Int) - 1 ∧ -1 ≤ e' ∧ e' ≤ (h : Int) - 1) ∧ st' ≠ 0 := by
  unfold sliceIndices at hs
  simp only at hs
  split at hs
  · cases hs
  · rename_i hne
    simp only [Option.some.injEq, Prod.mk.injEq] at hs
    obtain ⟨hb, he, hst⟩ := hs
    have hne' : st' ≠ 0 := by
      intro h0; apply hne; rw [hst]; simp [h0]
    refine ⟨?_, ?_, hne'⟩
    · intro hpos
      have hnl : ¬ (c.getD 1 < 0) := by omega
      simp only [hnl, if_false] at hb he
      subst hb he
      refine ⟨?_, ?_, ?_, ?_⟩ <;> (cases a <;> cases b <;> simp only [] <;> (repeat' split) <;> omega)
    · intro hneg
      have hnl : (c.getD 1 < 0) := by omega
      simp only [hnl, if_true] at hb he
      subst hb he
      refine ⟨?_, ?_, ?_, ?_⟩ <;> (cases a <;> cases b <;> simp only [] <;> (repeat' split) <;> omega)

theorem selOf_lt {h : Nat} {it : ViewItem} {sel : Sel} (hs : selOf h it = .ok sel) :
    ∀ k ∈ sel.toList, k < h := by
  cases it with
  | int i =>
    simp only [selOf] at hs
    split at hs
    · rename_i hi
      cases hs
      intro k hk
      simp only [Sel.toList, List.mem_singleton] at hk
      subst hk
      split <;> omega
    · cases hs
  | slice a b c =>
    simp only [selOf] at hs
    split at hs
    · cases hs
    · rename_i b' e' st' hsl
      cases hs
      obtain ⟨hpos, hneg, hne⟩ := sliceIndices_bounds hsl
      intro k hk
      simp only [Sel.toList, List.mem_map, List.mem_range] at hk
      obtain ⟨j, hj, rfl⟩ := hk
      by_cases hst : st' > 0
      · simp only [hst, if_true] at hj
        obtain ⟨h1, h2, h3, h4⟩ := hpos hst
        have hc : ((st'.toNat : Nat) : Int) = st' := Int.toNat_of_nonneg (by omega)
        have := (Lemmas.C20Combine.lt_rangeLen_iff b' e' st'.toNat (by omega) j).1 hj
        rw [hc] at this
        have hnn : 0 ≤ (j : Int) * st' := Int.mul_nonneg (Int.natCast_nonneg j) (by omega)
        omega
      · simp only [hst, if_false] at hj
        have hst' : st' < 0 := by omega
        obtain ⟨h1, h2, h3, h4⟩ := hneg hst'
        have hc : (((-st').toNat : Nat) : Int) = -st' := Int.toNat_of_nonneg (by omega)
        have := (Lemmas.C20Combine.lt_rangeLen_iff e' b' (-st').toNat (by omega) j).1 hj
        rw [hc] at this
        have hnn : 0 ≤ (j : Int) * (-st') := Int.mul_nonneg (Int.natCast_nonneg j) (by omega)
        have hmul : (j : Int) * (-st') = -((j : Int) * st') := by ring
        omega

theorem selsOf_lt : ∀ (sh : List Nat) (items : List ViewItem) (sels : List Sel),
    selsOf sh items = .ok sels → List.Forall₂ (fun (s : Sel) h => ∀ k ∈ s.toList, k < h) sels sh
  | [], [], sels, h => by simp [selsOf] at h; cases h; exact List.Forall₂.nil
  | [], _ :: _, sels, h => by simp [selsOf] at h
  | hh :: hs, [], sels, h => by
    simp only [selsOf] at h
    cases hrec : selsOf hs [] with
    | error e => rw [hrec] at h; cases h
    | ok rest =>
      rw [hrec] at h
      cases h
      refine List.Forall₂.cons ?_ (selsOf_lt hs [] rest hrec)
      intro k hk
      simpa [Sel.toList] using hk
  | hh :: hs, it :: its, sels, h => by
    simp only [selsOf] at h
    cases h1 : selOf hh it with
    | error e => rw [h1] at h; cases h
    | ok s =>
      cases h2 : selsOf hs its with
      | error e => rw [h1, h2] at h; cases h
      | ok rest =>
        rw [h1, h2] at h
        cases h
        exact List.Forall₂.cons (selOf_lt h1) (selsOf_lt hs its rest h2)

theorem forall₂_mem_lt {row : List Nat} {sels : List Sel} {sh : List Nat}
    (h1 : List.Forall₂ (fun x (l : List Nat) => x ∈ l) row (sels.map Sel.toList))
    (h2 : List.Forall₂ (fun (s : Sel) h => ∀ k ∈ s.toList, k < h) sels sh) :
    List.Forall₂ (fun i h => i < h) row sh := by
  induction h2 generalizing row with
  | nil => cases h1; exact List.Forall₂.nil
  | cons hs _ ih =>
    cases h1 with
    | cons hx ht => exact List.Forall₂.cons (hs _ hx) (ih ht)

theorem arrayPoint_mem (sh : List Nat) (items : List AItem) (len r : Nat)
    (hl : items.length = sh.length)
    (hv : (sh.zip items).all (fun p => p.2.valid p.1 len) = true) (hr : r < len) :
    ((sh.zip items).map fun p => p.2.coord p.1 r) ∈ allIdx sh := by
  rw [mem_allIdx]
  induction sh generalizing items with
  | nil => simp
  | cons h hs ih =>
    cases items with
    | nil => simp at hl
    | cons it its =>
      simp only [List.zip_cons_cons, List.all_cons, Bool.and_eq_true] at hv
      simp only [List.zip_cons_cons, List.map_cons]
      refine List.Forall₂.cons ?_ (ih its (by simpa using hl) hv.2)
      cases it with
      | arr xs =>
        simp only [AItem.valid, Bool.and_eq_true, beq_iff_eq, List.all_eq_true] at hv
        simp only [AItem.coord]
        have hr' : r < xs.length := by omega
        have hm : xs.getD r 0 ∈ xs := by
          simp [List.getD, List.getElem?_eq_getElem hr']
        exact wrapD_lt (hv.1.2 _ hm)
      | int i =>
        simp only [AItem.valid] at hv
        exact wrapD_lt hv.1

/-- Every index tuple a view gathers from lies below the shape. -/
theorem viewPoints_mem {sh : List Nat} {v : View} {s : List Nat} {pts : List (List Nat)}
    (h : viewPoints sh v = .ok (s, pts)) : ∀ p ∈ pts, p ∈ allIdx sh := by
  cases v with
  | none => simp only [viewPoints] at h; cases h; exact fun p hp => hp
  | ellipsis => simp only [viewPoints] at h; cases h; exact fun p hp => hp
  | basic items =>
    simp only [viewPoints] at h
    cases hs : selsOf sh items with
    | error e => rw [hs] at h; cases h
    | ok sels =>
      rw [hs] at h
      cases h
      intro p hp
      rw [mem_allIdx]
      exact forall₂_mem_lt ((mem_cartG _ _).1 hp) (selsOf_lt sh items sels hs)
  | arrays s' items =>
    simp only [viewPoints] at h
    split at h
    · cases h
    · rename_i hl
      split at h
      · rename_i hv
        cases h
        intro p hp
        simp only [List.mem_map, List.mem_range] at hp
        obtain ⟨r, hr, rfl⟩ := hp
        exact arrayPoint_mem sh items _ r (by simpa using hl) hv hr
      · cases h
  | mask m =>
    simp only [viewPoints] at h
    split at h
    · cases h
    · cases h
      intro p hp
      exact Lemmas.Coords.mem_maskFilter _ _ _ hp

/-! ### gather = index of the tabulated function -/

/-- **Indexing a materialised array is gathering its defining function**, for every view (any
step sign, any integers, index arrays, masks), including the error cases. -/
theorem index_tabulate {α : Type} [Inhabited α] (sh : List Nat) (f : List Nat → α) (v : View) :
    (tabulate sh f).index v = gather sh f v := by
  unfold NArr.index gather
  show (match viewPoints sh v with
    | .ok (s, pts) => Except.ok (NArr.mk s (pts.map (tabulate sh f).get))
    | .error e => Except.error e) = _
  cases hvp : viewPoints sh v with
  | error e => rfl
  | ok sp =>
    obtain ⟨s, pts⟩ := sp
    simp only
    congr 2
    apply List.map_congr_left
    intro p hp
    exact get_tabulate sh f (viewPoints_mem hvp p hp)

theorem gather_none {α : Type} (sh : List Nat) (f : List Nat → α) :
    gather sh f .none = .ok (tabulate sh f) := rfl

/-- Elementwise post-processing commutes with gathering. -/
theorem gather_comp {α β : Type} (sh : List Nat) (f : List Nat → α) (g : α → β) (v : View) :
    gather sh (fun idx => g (f idx)) v = emap (NArr.map g) (gather sh f v) := by
  unfold gather
  cases viewPoints sh v with
  | error e => rfl
  | ok sp => obtain ⟨s, pts⟩ := sp; simp [emap, NArr.map, List.map_map, Function.comp_def]

theorem gather_zip {α β γ : Type} (sh : List Nat) (f : List Nat → α) (g : List Nat → β)
    (op : α → β → γ) (v : View) :
    gather sh (fun idx => op (f idx) (g idx)) v = zipRes op (gather sh f v) (gather sh g v) := by
  unfold gather zipRes
  cases viewPoints sh v with
  | error e => rfl
  | ok sp =>
    obtain ⟨s, pts⟩ := sp
    simp only
    congr 2
    induction pts with
    | nil => rfl
    | cons p ps ih => simp only [List.map_cons, List.zipWith_cons_cons, ih]

end GlueVerif.Lemmas.C04
