import GlueVerif.Model.C16FRB
/-!
# C16 — the sample grid and what a translated coordinate depends on

* `BRel fs bs bs'` : two bounds lists agree except at positions flagged in `fs`, where both hold a
  scalar; `PRel` is the same relation on sample points.
* `cart_map_congr` : mapping related functions over the grids of related bounds gives equal lists.
* `val_congr`      : a translated coordinate only depends on the axes listed in `dimensions`.
* `frbUncached_congr` : a buffer does not depend on scalars at axes outside `dimensions_all`.
-/
namespace GlueVerif.Lemmas.C16
open GlueVerif.FRB GlueVerif.FRB.Impl

/-! ## related bounds / points -/

inductive BRel : List Bool → List Bound → List Bound → Prop
  | nil : BRel [] [] []
  | same (f : Bool) (b : Bound) {fs bs bs'} : BRel fs bs bs' → BRel (f :: fs) (b :: bs) (b :: bs')
  | free (s s' : Rat) {fs bs bs'} : BRel fs bs bs' → BRel (true :: fs) (.scalar s :: bs) (.scalar s' :: bs')

inductive PRel : List Bool → List Rat → List Rat → Prop
  | nil : PRel [] [] []
  | same (f : Bool) (x : Rat) {fs p p'} : PRel fs p p' → PRel (f :: fs) (x :: p) (x :: p')
  | free (x x' : Rat) {fs p p'} : PRel fs p p' → PRel (true :: fs) (x :: p) (x' :: p')

theorem BRel.refl : ∀ (fs : List Bool) (bs : List Bound), fs.length = bs.length → BRel fs bs bs
  | [], [], _ => .nil
  | f :: fs, b :: bs, h => .same f b (BRel.refl fs bs (by simpa using h))
  | [], _ :: _, h => by simp at h
  | _ :: _, [], h => by simp at h

theorem BRel.length_eq {fs bs bs'} (h : BRel fs bs bs') : bs.length = bs'.length := by
  induction h with
  | nil => rfl
  | same _ _ _ ih => simp [ih]
  | free _ _ _ ih => simp [ih]

theorem BRel.boundsValid_eq {fs bs bs'} (h : BRel fs bs bs') : boundsValid bs = boundsValid bs' := by
  induction h with
  | nil => rfl
  | same _ _ _ ih => simp only [boundsValid, List.all_cons] at ih ⊢; rw [ih]
  | free _ _ _ ih => simp only [boundsValid, List.all_cons] at ih ⊢; rw [ih]

theorem BRel.outShape_eq {fs bs bs'} (h : BRel fs bs bs') : outShape bs = outShape bs' := by
  induction h with
  | nil => rfl
  | same _ b _ ih => cases b <;> simp [outShape, ih]
  | free _ _ _ ih => simp [outShape, ih]

theorem BRel.isRange_getD {fs bs bs'} (h : BRel fs bs bs') (i : Nat) :
    (bs.getD i (.scalar 0)).isRange = (bs'.getD i (.scalar 0)).isRange := by
  induction h generalizing i with
  | nil => rfl
  | same _ _ _ ih => cases i with
    | zero => simp
    | succ i => simpa using ih i
  | free _ _ _ ih => cases i with
    | zero => simp [Bound.isRange]
    | succ i => simpa using ih i

/-- The central grid lemma: related bounds give grids whose points are pairwise related. -/
theorem cart_map_congr {α : Type} {fs bs bs'} (h : BRel fs bs bs') :
    ∀ (g g' : List Rat → α), (∀ p p', PRel fs p p' → g p = g' p') →
      (gridPoints bs).map g = (gridPoints bs').map g' := by
  induction h with
  | nil =>
    intro g g' hg
    simp [gridPoints, cart, hg [] [] .nil]
  | same f b _ ih =>
    intro g g' hg
    simp only [gridPoints, List.map_cons, cart, List.map_flatMap, List.map_map]
    congr 1
    funext x
    exact ih (g ∘ fun p => x :: p) (g' ∘ fun p => x :: p) (fun p p' hp => hg _ _ (.same f x hp))
  | free s s' _ ih =>
    intro g g' hg
    simp only [gridPoints, List.map_cons, cart, Bound.positions, List.flatMap_cons, List.flatMap_nil,
      List.append_nil, List.map_map]
    exact ih (g ∘ fun p => s :: p) (g' ∘ fun p => s' :: p) (fun p p' hp => hg _ _ (.free s s' hp))

theorem gridPoints_length_eq {fs bs bs'} (h : BRel fs bs bs') :
    (gridPoints bs).length = (gridPoints bs').length := by
  have := cart_map_congr h (fun _ => ()) (fun _ => ()) (fun _ _ _ => rfl)
  simpa using congrArg List.length this

/-! ## `dimensions` really bound the dependency -/

def agreeOn (dims : List Nat) (p p' : List Rat) : Prop := ∀ k, k ∈ dims → p.getD k 0 = p'.getD k 0

theorem getD_tail (p : List Rat) (k : Nat) : p.tail.getD k 0 = p.getD (k + 1) 0 := by
  cases p <;> simp

theorem dot_congr (coefs : List Rat) : ∀ (p p' : List Rat),
    (∀ k, coefs.getD k 0 ≠ 0 → p.getD k 0 = p'.getD k 0) → dot coefs p = dot coefs p' := by
  induction coefs with
  | nil => intro p p' _; rfl
  | cons a as ih =>
    intro p p' h
    simp only [dot]
    have h0 : a * p.headD 0 = a * p'.headD 0 := by
      by_cases ha : a = 0
      · simp [ha, Rat.zero_mul]
      · have := h 0 (by simpa using ha)
        have e : ∀ q : List Rat, q.headD 0 = q.getD 0 0 := by intro q; cases q <;> simp
        rw [e p, e p', this]
    rw [h0, ih p.tail p'.tail]
    intro k hk
    rw [getD_tail, getD_tail]
    exact h (k + 1) (by simpa using hk)

theorem mem_insertSorted (x y : Nat) (ys : List Nat) : y ∈ insertSorted x ys ↔ y = x ∨ y ∈ ys := by
  induction ys with
  | nil => simp [insertSorted]
  | cons z zs ih =>
    simp only [insertSorted]
    split
    · simp
    · split
      · rename_i h; subst h; simp
      · simp [ih]; constructor
        · rintro (h | h | h) <;> simp [h]
        · rintro (h | h | h) <;> simp [h]

theorem mem_sortDedup (xs : List Nat) (y : Nat) : y ∈ sortDedup xs ↔ y ∈ xs := by
  induction xs with
  | nil => simp [sortDedup]
  | cons x xs ih =>
    have : sortDedup (x :: xs) = insertSorted x (sortDedup xs) := rfl
    rw [this, mem_insertSorted, ih]; simp

theorem coefsCovered_spec {coefs : List Rat} {dims : List Nat} (h : coefsCovered coefs dims = true)
    (k : Nat) (hk : coefs.getD k 0 ≠ 0) : k ∈ dims := by
  by_cases hlt : k < coefs.length
  · simp only [coefsCovered, List.all_eq_true, List.mem_range] at h
    have := h k hlt
    simp only [Bool.or_eq_true, beq_iff_eq, List.contains_iff_mem] at this
    rcases this with h0 | h1
    · exact absurd h0 hk
    · exact h1
  · exfalso; apply hk
    simp [List.getD, List.getElem?_eq_none (Nat.le_of_not_lt hlt)]

mutual
theorem val_congr : ∀ (d : Deriv), d.wf = true → ∀ (p p' : List Rat), agreeOn d.dims p p' →
    d.val p = d.val p'
  | .pixel k, _, p, p', h => by
    simp only [Deriv.val]; exact h k (by simp [Deriv.dims])
  | .world coefs c dims, hwf, p, p', h => by
    simp only [Deriv.val]
    have hc : coefsCovered coefs dims = true := by simpa [Deriv.wf] using hwf
    rw [dot_congr coefs p p' (fun k hk => h k (show k ∈ (Deriv.world coefs c dims).dims from
      coefsCovered_spec hc k hk))]
  | .via coefs c fs, hwf, p, p', h => by
    simp only [Deriv.val]
    rw [valList_congr fs (by simpa [Deriv.wf] using hwf) p p'
      (fun k hk => h k (by simp only [Deriv.dims]; exact (mem_sortDedup _ _).2 hk))]
  | .missing, _, _, _, _ => rfl
  | .nonPixel, _, _, _, _ => rfl
theorem valList_congr : ∀ (ds : List Deriv), Deriv.wfList ds = true → ∀ (p p' : List Rat),
    agreeOn (Deriv.dimsList ds) p p' → Deriv.valList p ds = Deriv.valList p' ds
  | [], _, _, _, _ => rfl
  | d :: ds, hwf, p, p', h => by
    simp only [Deriv.wfList, Bool.and_eq_true] at hwf
    simp only [Deriv.valList]
    rw [val_congr d hwf.1 p p' (fun k hk => h k (by simp [Deriv.dimsList, hk])),
      valList_congr ds hwf.2 p p' (fun k hk => h k (by simp [Deriv.dimsList, hk]))]
end

/-! ## the wildcard mask -/

/-- Positions at which `bounds_for_cache(bounds, dims)` puts the wildcard. -/
def freeMaskFrom (dims : List Nat) : Nat → List Bound → List Bool
  | _, [] => []
  | i, b :: bs => isWild dims i b :: freeMaskFrom dims (i + 1) bs

theorem freeMaskFrom_length (dims : List Nat) : ∀ (i : Nat) (bs : List Bound),
    (freeMaskFrom dims i bs).length = bs.length
  | _, [] => rfl
  | i, _ :: bs => by simp [freeMaskFrom, freeMaskFrom_length dims (i + 1) bs]

/-- A stored wildcard key matches exactly the bounds lists related to the original one. -/
theorem matches_brel (dims : List Nat) : ∀ (i : Nat) (bs bs' : List Bound),
    matchesAll (boundsForCacheFrom dims i bs) bs' = true → BRel (freeMaskFrom dims i bs) bs bs'
  | _, [], [], _ => .nil
  | _, [], _ :: _, h => by simp [boundsForCacheFrom, matchesAll] at h
  | _, _ :: _, [], h => by simp [boundsForCacheFrom, matchesAll] at h
  | i, b :: bs, b' :: bs', h => by
    simp only [boundsForCacheFrom, matchesAll, Bool.and_eq_true] at h
    have ih := matches_brel dims (i + 1) bs bs' h.2
    simp only [freeMaskFrom]
    by_cases hc : isWild dims i b = true
    · rw [hc]
      rw [if_pos hc] at h
      cases b with
      | range lo hi n => simp [isWild, Bound.isRange] at hc
      | scalar s =>
        cases b' with
        | scalar s' => exact .free s s' ih
        | range lo hi n => simp [KB.matches] at h
    · rw [if_neg hc] at h
      have hb : b = b' := by simpa [KB.matches] using h.1
      subst hb
      exact .same _ b ih

/-- Conversely (used for non-vacuity): related bounds are matched by the stored key. -/
theorem brel_matches (dims : List Nat) : ∀ (i : Nat) (bs bs' : List Bound),
    BRel (freeMaskFrom dims i bs) bs bs' → matchesAll (boundsForCacheFrom dims i bs) bs' = true
  | _, [], [], _ => rfl
  | _, [], _ :: _, h => by have := h.length_eq; simp at this
  | _, _ :: _, [], h => by have := h.length_eq; simp at this
  | i, b :: bs, b' :: bs', h => by
    simp only [freeMaskFrom] at h
    simp only [boundsForCacheFrom, matchesAll, Bool.and_eq_true]
    generalize hf : isWild dims i b = f at h
    cases h with
    | same _ _ h' =>
      refine ⟨?_, brel_matches dims (i + 1) bs bs' h'⟩
      split
      · rename_i hc
        rw [← hf] at hc
        cases b with
        | range lo hi n => simp [isWild, Bound.isRange] at hc
        | scalar s => rfl
      · simp [KB.matches]
    | free s s' h' =>
      refine ⟨?_, brel_matches dims (i + 1) bs bs' h'⟩
      simp [KB.matches]

theorem prel_agree (dims : List Nat) : ∀ (i : Nat) (bs : List Bound) (p p' : List Rat),
    PRel (freeMaskFrom dims i bs) p p' → ∀ k, (i + k) ∈ dims → p.getD k 0 = p'.getD k 0
  | _, [], _, _, h, k, _ => by cases h; rfl
  | i, b :: bs, p, p', h, k, hk => by
    simp only [freeMaskFrom] at h
    generalize hf : isWild dims i b = f at h
    cases h with
    | same _ x h' =>
      cases k with
      | zero => simp
      | succ k =>
        simp only [List.getD_cons_succ]
        exact prel_agree dims (i + 1) bs _ _ h' k (by rw [Nat.add_assoc, Nat.add_comm 1 k]; exact hk)
    | free x x' h' =>
      cases k with
      | zero =>
        exfalso
        simp only [isWild, Bool.and_eq_true, Bool.not_eq_true', List.contains_eq_mem,
          decide_eq_false_iff_not] at hf
        exact hf.1 (by simpa using hk)
      | succ k =>
        simp only [List.getD_cons_succ]
        exact prel_agree dims (i + 1) bs _ _ h' k (by rw [Nat.add_assoc, Nat.add_comm 1 k]; exact hk)

theorem prel_agreeOn {dims : List Nat} {bs : List Bound} {p p' : List Rat}
    (h : PRel (freeMaskFrom dims 0 bs) p p') : agreeOn dims p p' :=
  fun k hk => prel_agree dims 0 bs p p' h k (by simpa using hk)

/-! ## one axis, all axes, the whole buffer -/

theorem derivOf_wf {w : World} (hw : w.wf) (t s k : Nat) : (w.derivOf t s k).wf = true := by
  unfold World.derivOf; split
  · rfl
  · exact hw t s k

theorem computeAxis_congr {w : World} (hw : w.wf) (t s i : Nat) {fs bs bs'} (hrel : BRel fs bs bs')
    (hfree : ∀ p p', PRel fs p p' → agreeOn (w.derivOf t s i).dims p p') :
    computeAxis w t s i bs = computeAxis w t s i bs' := by
  unfold computeAxis
  rw [hrel.length_eq]
  have hraw : (gridPoints bs).map (fun pt => rne ((w.derivOf t s i).val pt)) =
      (gridPoints bs').map (fun pt => rne ((w.derivOf t s i).val pt)) :=
    cart_map_congr hrel _ _ (fun p p' hp => by
      rw [val_congr _ (derivOf_wf hw t s i) p p' (hfree p p' hp)])
  simp only [hraw]

/-- `dimensions_all` (it does not depend on the bounds). -/
def dimsAll (w : World) (r : Req) : List Nat :=
  (List.range (w.ndim r.data)).flatMap fun k => (w.derivOf r.target r.data k).dims

theorem computeAxis_dims {w : World} {t s i : Nat} {bs : List Bound} {ax : AxisT}
    (h : computeAxis w t s i bs = .ok ax) : ax.dims = (w.derivOf t s i).dims := by
  simp only [computeAxis] at h
  split at h
  · cases h
  · split at h
    · cases h
    · cases h; rfl

theorem axesPlain_dims {w : World} {r : Req} : ∀ (ks : List Nat) (axes : List AxisT),
    axesPlain w r ks = .ok axes → dimsAllOf axes = ks.flatMap fun k => (w.derivOf r.target r.data k).dims
  | [], axes, h => by simp [axesPlain] at h; cases h; rfl
  | k :: ks, axes, h => by
    simp only [axesPlain] at h
    split at h
    · cases h
    · rename_i ax hax
      split at h
      · cases h
      · rename_i axs haxs
        cases h
        simp [dimsAllOf, computeAxis_dims hax]
        have := axesPlain_dims ks axs haxs
        simpa [dimsAllOf] using this

theorem axesPlain_congr {w : World} (hw : w.wf) (r r' : Req) (hd : r'.data = r.data)
    (ht : r'.target = r.target) {fs} (hrel : BRel fs r.bounds r'.bounds) :
    ∀ (ks : List Nat), (∀ k, k ∈ ks → ∀ p p', PRel fs p p' → agreeOn (w.derivOf r.target r.data k).dims p p') →
      axesPlain w r' ks = axesPlain w r ks
  | [], _ => rfl
  | k :: ks, h => by
    simp only [axesPlain, hd, ht]
    rw [← computeAxis_congr hw r.target r.data k hrel (h k (by simp))]
    rw [axesPlain_congr hw r r' hd ht hrel ks (fun k' hk' => h k' (by simp [hk']))]

theorem finish_congr (w : World) (r r' : Req) (axes : List AxisT) (hd : r'.data = r.data)
    (ht : r'.target = r.target) (hw : r'.what = r.what) (hb : r'.broadcast = r.broadcast)
    {fs} (hrel : BRel fs r.bounds r'.bounds) : finish w r' axes = finish w r axes := by
  have hlc : ∀ idx, lookupCell w r' idx = lookupCell w r idx := by
    intro idx; simp [lookupCell, hd, hw]
  have hic : invalidCell r' = invalidCell r := by simp [invalidCell, hw]
  have hce : cellErr? w r' = cellErr? w r := by simp [cellErr?, hd, hw]
  unfold finish
  simp only [hd, ht, hb, hce, hic, hlc, ← hrel.outShape_eq, ← gridPoints_length_eq hrel,
    ← hrel.isRange_getD]

/-- **A buffer does not depend on scalar bounds at axes outside `dimensions_all`** (general form:
any number of such positions at once; the cache id plays no role). -/
theorem frbUncached_congr' {w : World} (hw : w.wf) (r r' : Req) (hd : r'.data = r.data)
    (ht : r'.target = r.target) (hwh : r'.what = r.what) (hb : r'.broadcast = r.broadcast)
    (h : BRel (freeMaskFrom (dimsAll w r) 0 r.bounds) r.bounds r'.bounds) :
    frbUncached w r' = frbUncached w r := by
  unfold frbUncached
  simp only [← h.boundsValid_eq, hd]
  have hax := axesPlain_congr hw r r' hd ht h (List.range (w.ndim r.data))
    (fun k hk p p' hp j hj => prel_agreeOn hp j (by
      simp only [dimsAll, List.mem_flatMap]; exact ⟨k, hk, hj⟩))
  simp only [hax]
  split
  · rfl
  · split
    · rfl
    · exact finish_congr w r r' _ hd ht hwh hb h

theorem frbUncached_congr {w : World} (hw : w.wf) (r : Req) (bs' : List Bound)
    (h : BRel (freeMaskFrom (dimsAll w r) 0 r.bounds) r.bounds bs') :
    frbUncached w { r with bounds := bs' } = frbUncached w r :=
  frbUncached_congr' hw r { r with bounds := bs' } rfl rfl rfl rfl h

end GlueVerif.Lemmas.C16
