import GlueVerif.Model.Stats
/-! Helper lemmas for C10: the n-d cell enumeration `cellVals` under sub-grids (boxes, strided
slices, chunk views). Core Lean only. -/
namespace GlueVerif.Lemmas.C10
open GlueVerif.ArrayUtil GlueVerif.Stats

/-! ### flatMap over a range that vanishes outside the image of a strictly monotone map -/

theorem flatMap_nil_of_forall {α β} (l : List α) (g : α → List β) (h : ∀ x ∈ l, g x = []) :
    l.flatMap g = [] := by
  induction l with
  | nil => rfl
  | cons x xs ih =>
    simp only [List.flatMap_cons]
    rw [h x (by simp), ih (fun y hy => h y (by simp [hy]))]
    rfl

theorem flatMap_congr_mem {α β} (l : List α) (f g : α → List β) (h : ∀ x ∈ l, f x = g x) :
    l.flatMap f = l.flatMap g := by
  induction l with
  | nil => rfl
  | cons x xs ih =>
    simp only [List.flatMap_cons]
    rw [h x (by simp), ih (fun y hy => h y (by simp [hy]))]

theorem flatMap_range_mono {β} (g : Nat → List β) :
    ∀ (h n : Nat) (φ : Nat → Nat), (∀ i j, i < j → j < n → φ i < φ j) → (∀ j, j < n → φ j < h) →
      (∀ i, i < h → (∀ j, j < n → i ≠ φ j) → g i = []) →
      (List.range h).flatMap g = (List.range n).flatMap (fun j => g (φ j)) := by
  intro h
  induction h with
  | zero =>
    intro n φ _ hlt _
    cases n with
    | zero => rfl
    | succ n => exact absurd (hlt 0 (by omega)) (by omega)
  | succ h ih =>
    intro n φ hmono hlt hvan
    rw [List.range_succ, List.flatMap_append]
    by_cases hc : 0 < n ∧ φ (n - 1) = h
    · obtain ⟨hn, hlast⟩ := hc
      obtain ⟨m, rfl⟩ : ∃ m, n = m + 1 := ⟨n - 1, by omega⟩
      simp only [Nat.add_sub_cancel] at hlast
      rw [List.range_succ, List.flatMap_append]
      have := ih m φ (fun i j hij hj => hmono i j hij (by omega))
        (fun j hj => by have := hmono j m hj (by omega); omega)
        (fun i hi hne => hvan i (by omega) (fun j hj => by
          by_cases hjm : j = m
          · subst hjm; omega
          · exact hne j (by omega)))
      rw [this]
      simp [hlast]
    · have hall : ∀ j, j < n → φ j < h := by
        intro j hj
        have h1 := hlt j hj
        by_cases hjn : j = n - 1
        · subst hjn
          have : φ (n - 1) ≠ h := fun e => hc ⟨by omega, e⟩
          omega
        · have h2 := hmono j (n - 1) (by omega) (by omega)
          have h3 := hlt (n - 1) (by omega)
          omega
      have hgh : g h = [] := hvan h (by omega) (fun j hj => by have := hall j hj; omega)
      rw [ih n φ hmono hall (fun i hi hne => hvan i (by omega) hne)]
      simp [hgh]

/-! ### cellVals -/

theorem cellVals_none : ∀ (red : List Bool) (sh : List Nat) (f : Idx → Option Val) (k : Idx),
    (∀ t, inRange t sh = true → f t = none) → cellVals red sh f k = [] := by
  intro red
  induction red with
  | nil =>
    intro sh f k hf
    cases sh with
    | nil =>
      cases k with
      | nil => simp [cellVals, hf [] (by simp [inRange])]
      | cons _ _ => simp [cellVals]
    | cons _ _ => simp [cellVals]
  | cons r rs ih =>
    intro sh f k hf
    cases sh with
    | nil => cases r <;> simp [cellVals]
    | cons h hs =>
      cases r with
      | true =>
        simp only [cellVals]
        apply flatMap_nil_of_forall
        intro i hi
        apply ih
        intro t ht
        exact hf (i :: t) (by simp [inRange, ht, List.mem_range.mp hi])
      | false =>
        cases k with
        | nil => simp [cellVals]
        | cons k0 k =>
          simp only [cellVals]
          split
          · apply ih
            intro t ht
            exact hf (k0 :: t) (by simp [inRange, ht, *])
          · rfl

theorem cellVals_congr (red : List Bool) (sh : List Nat) (f g : Idx → Option Val) (k : Idx)
    (h : ∀ t, f t = g t) : cellVals red sh f k = cellVals red sh g k := by
  have : f = g := funext h
  rw [this]

/-- The coordinates on the *reduced* axes lie on their progressions. -/
def inSubRed : List Bool → Sub → Idx → Bool
  | true :: rs, (b, n, st) :: ss, i :: is => onProg b n st i && inSubRed rs ss is
  | false :: rs, _ :: ss, _ :: is => inSubRed rs ss is
  | [], [], [] => true
  | _, _, _ => false

theorem onProg_false (b n st i : Nat) : onProg b n st i = false ↔ ∀ j, j < n → i ≠ b + j * st := by
  simp [onProg, List.any_eq_false]

theorem onProg_true (b n st i : Nat) : onProg b n st i = true ↔ ∃ j, j < n ∧ i = b + j * st := by
  simp [onProg, List.any_eq_true]

theorem prog_lt (b n st h j : Nat) (hfit : b + (n - 1) * st < h) (hj : j < n) : b + j * st < h := by
  have : j * st ≤ (n - 1) * st := Nat.mul_le_mul_right st (by omega)
  omega

theorem prog_mono (b st i j : Nat) (hst : 0 < st) (hij : i < j) : b + i * st < b + j * st := by
  have : i * st < j * st := Nat.mul_lt_mul_of_pos_right hij hst
  omega

/-- **Sub-grid lemma.** If `f` vanishes at every in-range index whose reduced coordinates leave the
sub-grid, the values of cell `mapKept red sub k` of the enclosing array are exactly (same values,
same order) the values of cell `k` of the sub-grid. -/
theorem cellVals_sub : ∀ (red : List Bool) (sh : List Nat) (sub : Sub) (f : Idx → Option Val)
    (k : Idx), red.length = sh.length → subOk sh sub = true →
    (∀ t, inRange t sh = true → inSubRed red sub t = false → f t = none) →
    inRange k (keptShape red (subShape sub)) = true →
    cellVals red sh f (mapKept red sub k) =
      cellVals red (subShape sub) (fun j => f (subIdx sub j)) k := by
  intro red
  induction red with
  | nil =>
    intro sh sub f k hl hok _ hk
    cases sh with
    | cons _ _ => simp at hl
    | nil =>
      cases sub with
      | cons _ _ => simp [subOk] at hok
      | nil =>
        cases k with
        | nil => simp [cellVals, mapKept, subShape, subIdx]
        | cons _ _ => simp [keptShape, subShape, inRange] at hk
  | cons r rs ih =>
    intro sh sub f k hl hok hvan hk
    cases sh with
    | nil => simp at hl
    | cons h hs =>
      cases sub with
      | nil => simp [subOk] at hok
      | cons s ss =>
        obtain ⟨b, n, st⟩ := s
        simp only [subOk, Bool.and_eq_true, decide_eq_true_eq, Bool.or_eq_true, beq_iff_eq] at hok
        obtain ⟨⟨hst, hfit⟩, hok'⟩ := hok
        have hl' : rs.length = hs.length := by simpa using hl
        cases r with
        | true =>
          simp only [mapKept, subShape, List.map_cons, cellVals]
          have hk' : inRange k (keptShape rs (subShape ss)) = true := by
            simpa [keptShape, subShape] using hk
          rw [flatMap_range_mono _ h n (fun j => b + j * st)
            (fun i j hij _ => prog_mono b st i j hst hij)
            (fun j hj => by
              rcases hfit with h0 | hfit
              · omega
              · exact prog_lt b n st h j hfit hj)
            (fun i hi hne => by
              apply cellVals_none
              intro t ht
              apply hvan (i :: t) (by simp [inRange, hi, ht])
              simp [inSubRed, (onProg_false b n st i).mpr hne])]
          apply flatMap_congr_mem
          intro j hjm
          have hj : j < n := List.mem_range.mp hjm
          · have := ih hs ss (fun t => f ((b + j * st) :: t)) k hl' hok'
              (fun t ht hns => by
                apply hvan ((b + j * st) :: t)
                · have hlt : b + j * st < h := by
                    rcases hfit with h0 | hfit
                    · omega
                    · exact prog_lt b n st h j hfit hj
                  simp [inRange, hlt, ht]
                · simp [inSubRed, hns]) hk'
            simpa [subShape, subIdx] using this
        | false =>
          cases k with
          | nil => simp [keptShape, subShape, inRange] at hk
          | cons k0 k =>
            simp only [keptShape, subShape, List.map_cons, inRange, Bool.and_eq_true,
              decide_eq_true_eq] at hk
            obtain ⟨hk0, hk'⟩ := hk
            have hlt : b + k0 * st < h := by
              rcases hfit with h0 | hfit
              · omega
              · exact prog_lt b n st h k0 hfit hk0
            simp only [mapKept, subShape, List.map_cons, cellVals, hlt, hk0, if_true]
            have := ih hs ss (fun t => f ((b + k0 * st) :: t)) k hl' hok'
              (fun t ht hns => by
                apply hvan ((b + k0 * st) :: t)
                · simp [inRange, hlt, ht]
                · simpa [inSubRed] using hns) (by simpa [subShape] using hk')
            simpa [subShape, subIdx] using this

end GlueVerif.Lemmas.C10
