import GlueVerif.Lemmas.C05Spec
/-!
Lemmas for the re-entrant part of C05 (`Model/C05Cache.lean`, section "Re-entrant evaluation"):

* the dirty-flag flow of scripts (`flow`) is compositional; the transcribed scripts of the repaired code are
  `Sound` for every value of their parameters and wherever the link-manager blocks are inserted;
* the same flow on flat histories (`flowOps`): a history whose flow never evaluates while dirty keeps every
  memo entry coherent at every evaluation (`run_flow`), hence refines the Spec (`run_fresh`);
* expanding sound scripts with *any* listeners gives such a history (`flowOps_expand`).
-/
namespace GlueVerif.C05Cache
open GlueVerif.SubsetEval

/-! ## Scripts -/

theorem flow_append (a b : List Phase) : ∀ d, flow d (a ++ b) = (flow d a).bind (fun d' => flow d' b) := by
  induction a with
  | nil => intro d; rfl
  | cons p r ih =>
    intro d
    cases p with
    | clear => simp only [List.cons_append, flow, ih]
    | change => simp only [List.cons_append, flow, ih]
    | msg m =>
      cases d
      · simp only [List.cons_append, flow, ih]; rfl
      · simp only [List.cons_append, flow]; rfl

def Script.Rem.isNil : Script.Rem → Bool
  | .nil => true
  | _ => false

/-- Removing components is sound from any state: every `_remove_component` clears after its `pop` (and after
the removal of its dependents) and before its two messages. -/
theorem flow_remove (r : Script.Rem) : ∀ d, flow d (Script.remove r) = some (r.isNil && d) := by
  induction r with
  | nil => intro d; simp [Script.remove, flow, Script.Rem.isNil]
  | node deps sib ihd ihs =>
    intro d
    simp only [Script.remove, List.append_assoc, List.cons_append, List.nil_append, flow]
    rw [flow_append, ihd]
    simp only [Option.bind_some, flow, Script.Rem.isNil, Bool.false_and]
    rw [ihs]
    simp

theorem flow_adds (n : Nat) : flow false (Script.adds n) = some false := by
  induction n with
  | zero => rfl
  | succ n ih =>
    simp only [Script.adds, List.replicate_succ, List.flatten_cons] at ih ⊢
    simp only [Script.add, List.cons_append, List.nil_append, flow]
    exact ih

theorem flow_extSync (d : Bool) : flow d Script.extSync = some false := by cases d <;> rfl

theorem flow_syncs (n : Nat) : ∀ d, flow d (Script.syncs n) = some (decide (n = 0) && d) := by
  induction n with
  | zero => intro d; simp [Script.syncs, flow]
  | succ n ih =>
    intro d
    simp only [Script.syncs, List.replicate_succ, List.flatten_cons] at ih ⊢
    rw [flow_append, flow_extSync, Option.bind_some, ih]
    simp

/-- Messages are no-ops for the flag of a flow that never breaks. -/
theorem flow_filter_nonmsg (ps : List Phase) : ∀ d b, flow d ps = some b →
    flow d (ps.filter (fun p => !p.isMsg)) = some b := by
  induction ps with
  | nil => intro d b h; exact h
  | cons p r ih =>
    intro d b h
    cases p with
    | clear => simp only [List.filter_cons, Phase.isMsg, Bool.not_false, if_true, flow] at h ⊢; exact ih _ _ h
    | change => simp only [List.filter_cons, Phase.isMsg, Bool.not_false, if_true, flow] at h ⊢; exact ih _ _ h
    | msg m =>
      cases d
      · simp only [flow] at h
        simp only [List.filter_cons, Phase.isMsg, Bool.not_true]
        exact ih _ _ h
      · simp [flow] at h

theorem flow_msgs (ms : List Phase) (h : ∀ p ∈ ms, p.isMsg = true) : flow false ms = some false := by
  induction ms with
  | nil => rfl
  | cons p r ih =>
    cases p with
    | msg m => simp only [flow]; exact ih (fun q hq => h q (by simp [hq]))
    | clear => have := h .clear (by simp); simp [Phase.isMsg] at this
    | change => have := h .change (by simp); simp [Phase.isMsg] at this

/-- A block under `hub.delay_callbacks()` that is sound when its messages are delivered at once is sound when
they are delivered at the exit of the block. -/
theorem flow_delayed (ps : List Phase) (d : Bool) (h : flow d ps = some false) :
    flow d (Script.delayed ps) = some false := by
  simp only [Script.delayed]
  rw [flow_append, flow_filter_nonmsg ps d false h]
  simp only [Option.bind_some]
  exact flow_msgs _ (fun p hp => by simpa using (List.mem_filter.mp hp).2)

theorem flow_world (a b : Nat) : flow false (Script.world a b) = some false := by
  apply flow_delayed
  rw [flow_append, flow_remove]
  simp only [Bool.and_false, Option.bind_some]
  exact flow_adds b

theorem flow_updateValues (removed : Script.Rem) (ndim : Option (Nat × Script.Rem × Nat)) (added : Nat)
    (label : Bool) (coords : Option (Nat × Nat)) :
    flow false (Script.updateValues removed ndim added label coords) = some false := by
  rcases ndim with _ | ⟨w, pix, n⟩ <;> rcases coords with _ | ⟨a, b⟩ <;> cases label <;>
    simp [Script.updateValues, flow_append, flow_remove, flow_world, flow_adds, flow]

/-- Link-manager blocks can be inserted before any message of a sound script. -/
theorem flow_mergeSync (sk : List Phase) : ∀ (obs : List Msg) (d : Bool), flow d sk = some false →
    flow d (Script.mergeSync sk obs) = some false := by
  induction sk with
  | nil =>
    intro obs d h
    simp only [flow, Option.some.injEq] at h
    subst h
    simp only [Script.mergeSync, flow_syncs, Bool.and_false]
  | cons p r ih =>
    intro obs d h
    cases p with
    | clear => simp only [Script.mergeSync, flow] at h ⊢; exact ih obs false h
    | change => simp only [Script.mergeSync, flow] at h ⊢; exact ih obs true h
    | msg m =>
      cases d
      · simp only [flow] at h
        simp only [Script.mergeSync]
        rw [flow_append, flow_syncs]
        simp only [Bool.and_false, Option.bind_some, flow]
        exact ih _ false h
      · simp [flow] at h

theorem mutation_script_sound (m : Mutation) : Sound m.script := by
  cases m with
  | updateComponents => rfl
  | updateValues r n a l c => exact flow_updateValues r n a l c
  | addComponent => rfl
  | replaceComponent => rfl
  | removeComponent r => simp only [Sound, Mutation.script, flow_remove, Bool.and_false]
  | updateId => rfl
  | setCoords a b => exact flow_world a b
  | linkChange => rfl

/-! ## Flat histories -/

/-- The dirty flag through one primitive step (data-side mutations clear everything: `pol.ClearsAll`). `none`:
an evaluation while dirty, or an in-place parameter edit / setter (not data-side). -/
def opFlow (d : Bool) : Op → Option Bool
  | .clearAll => some false
  | .change => some true
  | .dataMut _ _ => some false
  | .setAttr _ _ _ => none
  | .editParam _ _ _ => none
  | .base o => if isEvalOp o then (if d then none else some false) else some d

def flowOps : Bool → List Op → Option Bool
  | d, [] => some d
  | d, op :: ops => (opFlow d op).bind (fun d' => flowOps d' ops)

theorem flowOps_append (a b : List Op) : ∀ d, flowOps d (a ++ b) = (flowOps d a).bind (fun d' => flowOps d' b) := by
  induction a with
  | nil => intro d; rfl
  | cons o r ih =>
    intro d
    simp only [List.cons_append, flowOps]
    cases opFlow d o with
    | none => rfl
    | some d' => simp only [Option.bind_some, ih]

theorem evalOk_of_nonEval {tbl : ClassTable} {w : World} {st : Impl.State} {op : Op} {d' : Bool}
    (h : opFlow true op = some d') : EvalOk tbl w st op := by
  cases op with
  | base o =>
    cases o with
    | eval a d v f => simp [opFlow, isEvalOp] at h
    | evalCur d v => simp [opFlow, isEvalOp] at h
    | _ => trivial
  | _ => trivial

/-- One step of the flow invariant "clean ⇒ every memo entry is coherent with the current state". -/
theorem step_flow (tbl : ClassTable) (hf : tbl.Faithful) (pol : Policy) (hp : pol.ClearsAll) (w : World)
    (st : Impl.State) (ss : Spec.State) (hs : Sync st ss) (op : Op) (d d' : Bool)
    (hc : d = false → CacheCoherent (w st.epoch) st.s.h) (hfl : opFlow d op = some d') :
    EvalOk tbl w st op ∧
      (d' = false → CacheCoherent (w (Impl.step tbl pol w st op).1.epoch) (Impl.step tbl pol w st op).1.s.h) := by
  cases d with
  | false =>
    have hc0 := hc rfl
    refine ⟨evalOk_of_coherent hc0 op, fun hd' => ?_⟩
    apply step_coherent tbl hf pol hp w st ss hs op hc0
    cases op with
    | change => subst hd'; simp [opFlow] at hfl
    | setAttr a k c => simp [opFlow] at hfl
    | editParam a k c => simp [opFlow] at hfl
    | base o => rfl
    | dataMut m dd => rfl
    | clearAll => rfl
  | true =>
    refine ⟨evalOk_of_nonEval hfl, fun hd' => ?_⟩
    subst hd'
    cases op with
    | clearAll => simp only [Impl.step]; intro x hx; cases hx
    | dataMut m dd => simp only [Impl.step, invalidate, hp m]; intro x hx; cases hx
    | change => simp [opFlow] at hfl
    | setAttr a k c => simp [opFlow] at hfl
    | editParam a k c => simp [opFlow] at hfl
    | base o =>
      simp only [opFlow] at hfl
      cases ho : isEvalOp o <;> simp [ho] at hfl

/-- A history that never evaluates while dirty evaluates only through coherent tables. -/
theorem run_flow (tbl : ClassTable) (hf : tbl.Faithful) (pol : Policy) (hp : pol.ClearsAll) (w : World) :
    ∀ (ops : List Op) (st : Impl.State) (ss : Spec.State) (d b : Bool), Sync st ss →
      (d = false → CacheCoherent (w st.epoch) st.s.h) → flowOps d ops = some b → RunOk tbl pol w st ops
  | [], _, _, _, _, _, _, _ => trivial
  | op :: ops, st, ss, d, b, hs, hc, hfl => by
    simp only [flowOps] at hfl
    cases hd : opFlow d op with
    | none => simp [hd] at hfl
    | some d' =>
      simp only [hd, Option.bind_some] at hfl
      have h := step_flow tbl hf pol hp w st ss hs op d d' hc hd
      have h1 := step_fresh tbl hf pol w st ss hs op h.1
      exact ⟨h.1, run_flow tbl hf pol hp w ops _ _ d' b h1.1 h.2 hfl⟩

theorem flowOps_evals (es : List LEval) : flowOps false (es.map LEval.toOp) = some false := by
  induction es with
  | nil => rfl
  | cons e r ih =>
    cases e <;> simp only [List.map_cons, LEval.toOp, flowOps, opFlow, isEvalOp, if_true, Bool.false_eq_true,
      if_false, Option.bind_some, ih]

/-- Expanding a script whose flow never breaks, with **any** listeners, never evaluates while dirty. -/
theorem flowOps_expandScript (L : Listeners) (s : List Phase) : ∀ d b, flow d s = some b →
    flowOps d (expandScript L s) = some b := by
  induction s with
  | nil => intro d b h; exact h
  | cons p r ih =>
    intro d b h
    simp only [expandScript, List.flatMap_cons] at ih ⊢
    rw [flowOps_append]
    cases p with
    | clear =>
      simp only [flow] at h
      simp only [expandPhase, expandPhaseWith, flowOps, opFlow, Option.bind_some]
      exact ih _ _ h
    | change =>
      simp only [flow] at h
      simp only [expandPhase, expandPhaseWith, flowOps, opFlow, Option.bind_some]
      exact ih _ _ h
    | msg m =>
      cases d
      · simp only [flow] at h
        simp only [expandPhase, expandPhaseWith, flowOps_evals, Option.bind_some]
        exact ih _ _ h
      · simp [flow] at h

theorem opFlow_plain {o : Op} (h1 : o.isParamMut = false) (h2 : o.isBareChange = false) :
    opFlow false o = some false := by
  cases o with
  | base o => simp only [opFlow]; cases isEvalOp o <;> rfl
  | setAttr a k c => simp [Op.isParamMut] at h1
  | editParam a k c => simp [Op.isParamMut] at h1
  | change => simp [Op.isBareChange] at h2
  | dataMut m d => rfl
  | clearAll => rfl

theorem flowOps_expand (L : Listeners) : ∀ (prog : List LOp),
    (∀ s, LOp.mutate s ∈ prog → Sound s) →
    (∀ o, LOp.op o ∈ prog → o.isParamMut = false ∧ o.isBareChange = false) →
    flowOps false (expand L prog) = some false
  | [], _, _ => rfl
  | .op o :: r, hs, ho => by
    have h := ho o (by simp)
    simp only [expand, flowOps, opFlow_plain h.1 h.2, Option.bind_some]
    exact flowOps_expand L r (fun s hm => hs s (by simp [hm])) (fun o hm => ho o (by simp [hm]))
  | .mutate s :: r, hs, ho => by
    simp only [expand]
    rw [flowOps_append, flowOps_expandScript L s false false (hs s (by simp))]
    exact flowOps_expand L r (fun s hm => hs s (by simp [hm])) (fun o hm => ho o (by simp [hm]))

end GlueVerif.C05Cache
