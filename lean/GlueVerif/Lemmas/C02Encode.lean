import GlueVerif.Lemmas.C02Serialize
/-! What `serialize` produces for graphs without inlined objects: a registry that is closed under
references, in which every object is reachable from `main` through earlier entries, and a table that
is the pure encoding of every registered object under the *final* naming. -/
namespace GlueVerif.C02

/-- pure encoding of a field value under a complete naming; `d` is the nesting depth left for inlined
objects (the recursion fuel of `doObj`) -/
def encVal (h : Heap) (reg : Reg) : Nat → Val → JVal
  | _, .lit n => .lit n
  | _, .str s => .str (stPrefix ++ s)
  | _, .ref p => .str ((lookupName reg p).getD [])
  | 0, .own _ => .lit 0
  | d + 1, .own p =>
    match h[p]? with
    | none => .lit 0
    | some ob => .obj ob.cls (ob.fields.map fun f => (f.phase, encVal h reg d f.val))

def encFields (h : Heap) (reg : Reg) (d : Nat) (fs : List Field) : List (Phase × JVal) :=
  fs.map fun f => (f.phase, encVal h reg d f.val)

/-- the record of a named object: what `doObj h main (h.length + 1)` writes under the final naming -/
def encObj (h : Heap) (reg : Reg) (ob : Obj) : JVal := .obj ob.cls (encFields h reg h.length ob.fields)

theorem encVal_own (h : Heap) (reg : Reg) (d p : Nat) (ob : Obj) (hob : h[p]? = some ob) :
    encVal h reg (d + 1) (.own p) = .obj ob.cls (encFields h reg d ob.fields) := by
  simp only [encVal, hob, encFields]

/-- all references of a value — for an inlined object: of its whole sub-tree — are registered -/
def RefsInV (h : Heap) (reg : Reg) : Nat → Val → Prop
  | _, .lit _ => True
  | _, .str _ => True
  | _, .ref p => ∃ m, lookupName reg p = some m
  | 0, .own _ => False
  | d + 1, .own p => ∃ ob, h[p]? = some ob ∧ ∀ f ∈ ob.fields, RefsInV h reg d f.val

/-- all references of `fs` (and of the inlined sub-trees, to depth `d`) are registered -/
def RefsIn (h : Heap) (reg : Reg) (d : Nat) (fs : List Field) : Prop := ∀ f ∈ fs, RefsInV h reg d f.val

/-- `t` is referred to by name from `q` or from an object inlined (to depth `< d`) below `q` -/
def RefInTree (h : Heap) : Nat → Nat → Nat → Prop
  | 0, _, _ => False
  | d + 1, q, t => ∃ ob, h[q]? = some ob ∧ ∃ f ∈ ob.fields, f.val = .ref t ∨ ∃ p, f.val = .own p ∧ RefInTree h d p t

/-- every entry but `main` is referenced by an object registered *earlier* (or by an object inlined below it) -/
def Reach (h : Heap) (main : Nat) (reg : Reg) : Prop :=
  ∀ pre e post, reg = pre ++ e :: post → e.1 = main ∨
    ∃ q ∈ pre.map Prod.fst, RefInTree h (h.length + 1) q e.1

theorem lookupName_append_new {reg : Reg} {o : Nat} (n : Str) (hn : lookupName reg o = none) :
    lookupName (reg ++ [(o, n)]) o = some n := by
  induction reg with
  | nil => simp [lookupName]
  | cons e r ih =>
    obtain ⟨p, m⟩ := e
    unfold lookupName at hn
    by_cases hp : p = o
    · simp [hp] at hn
    · simp only [hp, if_false] at hn
      simp only [List.cons_append, lookupName, hp, if_false]
      exact ih hn

variable (h : Heap) (main : Nat)

theorem reach_init : Reach h main (initS main).reg := by
  intro pre e post he
  simp only [initS] at he
  cases pre with
  | nil => simp only [List.nil_append, List.cons.injEq] at he; left; rw [← he.1]
  | cons a pre' =>
    simp only [List.cons_append, List.cons.injEq] at he
    have := he.2
    cases pre' <;> simp at this

theorem reach_snoc {reg : Reg} (hr : Reach h main reg) (p : Nat) (n : Str)
    (hp : ∃ q ∈ reg.map Prod.fst, RefInTree h (h.length + 1) q p) :
    Reach h main (reg ++ [(p, n)]) := by
  intro pre e post he
  rcases List.eq_nil_or_concat post with hpost | ⟨post', x, hpost⟩
  · subst hpost
    have h2 := List.append_inj' he (by simp)
    right
    rw [← h2.1]
    have he' : (p, n) = e := by simpa using h2.2
    rw [← he']
    exact hp
  · subst hpost
    have : reg ++ [(p, n)] = (pre ++ e :: post') ++ [x] := by simp [he, List.concat_eq_append]
    have h2 := List.append_inj' this (by simp)
    exact hr pre e post' h2.1

/-! ### effect of `id` -/

theorem idObj_spec (st : SState) (o : Nat) :
    (idObj h main st o).1.working = st.working ∧
    lookupName (idObj h main st o).1.reg o = some (idObj h main st o).2 ∧
    ((idObj h main st o).1.reg = st.reg ∨ ∃ n, (idObj h main st o).1.reg = st.reg ++ [(o, n)]) := by
  unfold idObj
  split
  · rename_i n hn; exact ⟨rfl, hn, Or.inl rfl⟩
  · rename_i hn
    exact ⟨rfl, lookupName_append_new _ hn, Or.inr ⟨_, rfl⟩⟩

/-! ### `_working` is restored by every successful `do` -/

def DoOWork (doO : DoO) : Prop := ∀ st p st' j, doO st p = .ok (st', j) → st'.working = st.working

theorem doField_work {doO : DoO} (hO : DoOWork doO) {st st' : SState} {v : Val} {j : JVal}
    (hd : doField h main doO st v = .ok (st', j)) : st'.working = st.working := by
  unfold doField at hd
  cases v with
  | lit n => simp only [Except.ok.injEq, Prod.mk.injEq] at hd; rw [← hd.1]
  | str s => simp only [Except.ok.injEq, Prod.mk.injEq] at hd; rw [← hd.1]
  | ref p =>
    simp only [Except.ok.injEq, Prod.mk.injEq] at hd
    rw [← hd.1]; exact (idObj_spec h main st p).1
  | own p => exact hO _ _ _ _ hd

theorem doFields_work {doO : DoO} (hO : DoOWork doO) :
    ∀ (fs : List Field) (st st' : SState) (js : List (Phase × JVal)),
      doFields h main doO st fs = .ok (st', js) → st'.working = st.working
  | [], st, st', js, hd => by
    simp only [doFields, Except.ok.injEq, Prod.mk.injEq] at hd
    rw [← hd.1]
  | f :: fs, st, st', js, hd => by
    unfold doFields at hd
    split at hd
    · cases hd
    · rename_i st1 j hf
      split at hd
      · cases hd
      · rename_i st2 js2 hfs
        simp only [Except.ok.injEq, Prod.mk.injEq] at hd
        rw [← hd.1, doFields_work hO fs st1 st2 js2 hfs, doField_work h main hO hf]

theorem doObj_work : ∀ (f : Nat), DoOWork (doObj h main f)
  | 0 => by intro st p st' j hd; simp [doObj] at hd
  | f + 1 => by
    intro st o st' j hd
    unfold doObj at hd
    split at hd
    · cases hd
    · split at hd
      · cases hd
      · split at hd
        · cases hd
        · rename_i st1 js hfs
          simp only [Except.ok.injEq, Prod.mk.injEq] at hd
          rw [← hd.1]
          have := doFields_work h main (doObj_work f) _ _ _ _ hfs
          simp only [this, List.erase_cons_head]

theorem doPass_work (fuel : Nat) : ∀ (items : Reg) (st st' : SState) (tbl : Table),
    doPass h main fuel st items = .ok (st', tbl) → st'.working = st.working
  | [], st, st', tbl, hd => by
    simp only [doPass, Except.ok.injEq, Prod.mk.injEq] at hd
    rw [← hd.1]
  | (o, n) :: rest, st, st', tbl, hd => by
    unfold doPass at hd
    split at hd
    · cases hd
    · rename_i st1 j ho
      split at hd
      · cases hd
      · rename_i st2 js hr
        simp only [Except.ok.injEq, Prod.mk.injEq] at hd
        rw [← hd.1, doPass_work fuel rest st1 st2 js hr, doObj_work h main fuel _ _ _ _ ho]

/-! ### a `do` that registers nothing is the pure encoding -/

theorem reg_eq_of_sandwich {a b c : Reg} (h1 : a <+: b) (h2 : b <+: c) (h3 : c = a) : b = a := by
  subst h3
  exact (List.IsPrefix.eq_of_length_le h2 (List.IsPrefix.length_le h1))

/-- a successful `do` of an inlined object that registers nothing returns its pure encoding (to the
depth `d` = the fuel of that `do`), and every reference of its sub-tree is registered -/
def DoOFixed (d : Nat) (doO : DoO) : Prop :=
  ∀ st p st' j, doO st p = .ok (st', j) → st'.reg = st.reg →
    j = encVal h st.reg d (.own p) ∧ RefsInV h st.reg d (.own p)

theorem doFields_fixed {doO : DoO} {d : Nat} (hO : DoOExt main doO) (hF : DoOFixed h d doO) :
    ∀ (fs : List Field) (st st' : SState) (js : List (Phase × JVal)),
      doFields h main doO st fs = .ok (st', js) → st'.reg = st.reg →
      js = encFields h st.reg d fs ∧ RefsIn h st.reg d fs
  | [], st, st', js, hd, _ => by
    simp only [doFields, Except.ok.injEq, Prod.mk.injEq] at hd
    exact ⟨by rw [← hd.2]; rfl, by intro f hf; simp at hf⟩
  | f :: fs, st, st', js, hd, he => by
    unfold doFields at hd
    split at hd
    · cases hd
    · rename_i st1 j hf
      split at hd
      · cases hd
      · rename_i st2 js2 hfs
        simp only [Except.ok.injEq, Prod.mk.injEq] at hd
        have e1 := doField_ext h main hO hf
        have e2 := doFields_ext h main hO fs st1 st2 js2 hfs
        have he2 : st2.reg = st.reg := by rw [hd.1]; exact he
        have h1 : st1.reg = st.reg := reg_eq_of_sandwich e1.pre e2.pre he2
        have ih := doFields_fixed hO hF fs st1 st2 js2 hfs (by rw [he2, h1])
        rw [h1] at ih
        -- the head field
        have hj : j = encVal h st.reg d f.val ∧ RefsInV h st.reg d f.val := by
          unfold doField at hf
          cases hv : f.val with
          | lit n =>
            rw [hv] at hf; simp only [Except.ok.injEq, Prod.mk.injEq] at hf
            exact ⟨by rw [← hf.2]; simp only [encVal], by simp only [RefsInV]⟩
          | str s =>
            rw [hv] at hf; simp only [Except.ok.injEq, Prod.mk.injEq] at hf
            exact ⟨by rw [← hf.2]; simp only [encVal], by simp only [RefsInV]⟩
          | ref p =>
            rw [hv] at hf; simp only [Except.ok.injEq, Prod.mk.injEq] at hf
            have sp := (idObj_spec h main st p).2.1
            rw [hf.1, h1] at sp
            refine ⟨?_, ?_⟩
            · rw [← hf.2]; simp only [encVal, sp, Option.getD_some]
            · simp only [RefsInV]; exact ⟨_, sp⟩
          | own p =>
            rw [hv] at hf
            exact hF st p st1 j hf h1
        refine ⟨?_, ?_⟩
        · rw [← hd.2, ih.1, hj.1]; rfl
        · intro g hg
          rcases List.mem_cons.mp hg with e | e
          · subst e; exact hj.2
          · exact ih.2 g e

theorem doObj_fixed : ∀ (f : Nat), DoOFixed h f (doObj h main f)
  | 0 => by intro st p st' j hd; simp [doObj] at hd
  | f + 1 => by
    intro st o st' j hd he
    unfold doObj at hd
    split at hd
    · cases hd
    · split at hd
      · cases hd
      · rename_i ob hob
        split at hd
        · cases hd
        · rename_i st1 js hfs
          simp only [Except.ok.injEq, Prod.mk.injEq] at hd
          have he1 : st1.reg = st.reg := by rw [← he, ← hd.1]
          have := doFields_fixed h main (doObj_ext h main f) (doObj_fixed f) ob.fields _ _ _ hfs he1
          refine ⟨?_, ?_⟩
          · rw [encVal_own h st.reg f o ob hob, ← hd.2, this.1]
          · simp only [RefsInV]; exact ⟨ob, hob, this.2⟩

/-- the table entry a pass writes for a registered object when it registers nothing -/
theorem doObj_fixed_named (f : Nat) (st st' : SState) (o : Nat) (j : JVal)
    (hd : doObj h main (f + 1) st o = .ok (st', j)) (he : st'.reg = st.reg) :
    ∃ ob, h[o]? = some ob ∧ j = .obj ob.cls (encFields h st.reg f ob.fields) ∧ RefsIn h st.reg f ob.fields := by
  obtain ⟨h1, h2⟩ := doObj_fixed h main (f + 1) st o st' j hd he
  simp only [RefsInV] at h2
  obtain ⟨ob, hob, h3⟩ := h2
  exact ⟨ob, hob, by rw [h1, encVal_own h st.reg f o ob hob], h3⟩

theorem doPass_fixed (fuel : Nat) : ∀ (items : Reg) (st st' : SState) (tbl : Table),
    doPass h main (fuel + 1) st items = .ok (st', tbl) → st'.reg = st.reg →
    tbl.map Prod.fst = items.map Prod.snd ∧
      ∀ o n, (o, n) ∈ items → ∃ ob, h[o]? = some ob ∧ (n, .obj ob.cls (encFields h st.reg fuel ob.fields)) ∈ tbl ∧
        RefsIn h st.reg fuel ob.fields
  | [], st, st', tbl, hd, _ => by
    simp only [doPass, Except.ok.injEq, Prod.mk.injEq] at hd
    rw [← hd.2]; exact ⟨rfl, by intro o n hm; simp at hm⟩
  | (o, n) :: rest, st, st', tbl, hd, he => by
    unfold doPass at hd
    split at hd
    · cases hd
    · rename_i st1 j ho
      split at hd
      · cases hd
      · rename_i st2 js hr
        simp only [Except.ok.injEq, Prod.mk.injEq] at hd
        have e1 := doObj_ext h main (fuel + 1) _ _ _ _ ho
        have e2 := doPass_ext h main (fuel + 1) rest st1 st2 js hr
        have he2 : st2.reg = st.reg := by rw [hd.1]; exact he
        have h1 : st1.reg = st.reg := reg_eq_of_sandwich e1.pre e2.pre he2
        have ih := doPass_fixed fuel rest st1 st2 js hr (by rw [he2, h1])
        rw [h1] at ih
        have hob := doObj_fixed_named h main fuel st st1 o j ho h1
        refine ⟨by rw [← hd.2]; simp [ih.1], ?_⟩
        intro o' n' hm
        rcases List.mem_cons.mp hm with e | e
        · simp only [Prod.mk.injEq] at e
          obtain ⟨ob, h1', h2', h3'⟩ := hob
          refine ⟨ob, by rw [e.1]; exact h1', ?_, h3'⟩
          rw [← hd.2, e.2, ← h2']; exact List.mem_cons_self
        · obtain ⟨ob, h1', h2', h3'⟩ := ih.2 o' n' e
          exact ⟨ob, h1', by rw [← hd.2]; exact List.mem_cons_of_mem _ h2', h3'⟩

/-! ### reachability is preserved -/

/-- whatever a `do` of the inlined object `p` (fuel `d`) registers is referred to from the tree of `p` -/
def DoOReach (d : Nat) (doO : DoO) : Prop :=
  ∀ st p st' j, doO st p = .ok (st', j) → ∀ q, q ∈ st.reg.map Prod.fst →
    (∀ t, RefInTree h d p t → RefInTree h (h.length + 1) q t) →
    Reach h main st.reg → q ∈ st'.reg.map Prod.fst ∧ Reach h main st'.reg

theorem doFields_reach {doO : DoO} {d : Nat} (hR : DoOReach h main d doO) (q : Nat) (cur : Nat) (ob : Obj)
    (hcur : h[cur]? = some ob) (hemb : ∀ t, RefInTree h (d + 1) cur t → RefInTree h (h.length + 1) q t) :
    ∀ (fs : List Field), (∀ f ∈ fs, f ∈ ob.fields) → ∀ (st st' : SState) (js : List (Phase × JVal)),
      doFields h main doO st fs = .ok (st', js) → q ∈ st.reg.map Prod.fst → Reach h main st.reg →
      q ∈ st'.reg.map Prod.fst ∧ Reach h main st'.reg
  | [], _, st, st', js, hd, hqin, hr => by
    simp only [doFields, Except.ok.injEq, Prod.mk.injEq] at hd
    rw [← hd.1]; exact ⟨hqin, hr⟩
  | f :: fs, hsub, st, st', js, hd, hqin, hr => by
    unfold doFields at hd
    split at hd
    · cases hd
    · rename_i st1 j hf
      split at hd
      · cases hd
      · rename_i st2 js2 hfs
        simp only [Except.ok.injEq, Prod.mk.injEq] at hd
        rw [← hd.1]
        have hsub' : ∀ g ∈ fs, g ∈ ob.fields := fun g hg => hsub g (List.mem_cons_of_mem _ hg)
        have hfm : f ∈ ob.fields := hsub f List.mem_cons_self
        have step : q ∈ st1.reg.map Prod.fst ∧ Reach h main st1.reg := by
          unfold doField at hf
          cases hv : f.val with
          | lit n => rw [hv] at hf; simp only [Except.ok.injEq, Prod.mk.injEq] at hf; rw [← hf.1]; exact ⟨hqin, hr⟩
          | str s => rw [hv] at hf; simp only [Except.ok.injEq, Prod.mk.injEq] at hf; rw [← hf.1]; exact ⟨hqin, hr⟩
          | ref p =>
            rw [hv] at hf; simp only [Except.ok.injEq, Prod.mk.injEq] at hf
            rw [← hf.1]
            rcases (idObj_spec h main st p).2.2 with e | ⟨n, e⟩
            · rw [e]; exact ⟨hqin, hr⟩
            · rw [e]
              refine ⟨by simp only [List.map_append, List.mem_append]; exact Or.inl hqin, ?_⟩
              refine reach_snoc h main hr p n ⟨q, hqin, hemb p ?_⟩
              simp only [RefInTree]
              exact ⟨ob, hcur, f, hfm, Or.inl hv⟩
          | own p =>
            rw [hv] at hf
            refine hR st p st1 j hf q hqin ?_ hr
            intro t ht
            apply hemb
            simp only [RefInTree]
            exact ⟨ob, hcur, f, hfm, Or.inr ⟨p, hv, ht⟩⟩
        exact doFields_reach hR q cur ob hcur hemb fs hsub' st1 st2 js2 hfs step.1 step.2

theorem doObj_reach : ∀ (f : Nat), DoOReach h main f (doObj h main f)
  | 0 => by intro st p st' j hd; simp [doObj] at hd
  | f + 1 => by
    intro st o st' j hd q hqin hemb hr
    unfold doObj at hd
    split at hd
    · cases hd
    · split at hd
      · cases hd
      · rename_i ob hob
        split at hd
        · cases hd
        · rename_i st1 js hfs
          simp only [Except.ok.injEq, Prod.mk.injEq] at hd
          rw [← hd.1]
          exact doFields_reach h main (doObj_reach f) q o ob hob hemb ob.fields (fun _ hf => hf)
            { st with working := o :: st.working } st1 js hfs hqin hr

theorem doPass_reach (fuel : Nat) (hfuel : fuel = h.length) : ∀ (items : Reg) (st st' : SState) (tbl : Table),
    doPass h main (fuel + 1) st items = .ok (st', tbl) → (∀ e ∈ items, e.1 ∈ st.reg.map Prod.fst) →
    Reach h main st.reg → Reach h main st'.reg
  | [], st, st', tbl, hd, _, hr => by
    simp only [doPass, Except.ok.injEq, Prod.mk.injEq] at hd
    rw [← hd.1]; exact hr
  | (o, n) :: rest, st, st', tbl, hd, hin, hr => by
    unfold doPass at hd
    split at hd
    · cases hd
    · rename_i st1 j ho
      split at hd
      · cases hd
      · rename_i st2 js hr2
        simp only [Except.ok.injEq, Prod.mk.injEq] at hd
        rw [← hd.1]
        have r1 := (doObj_reach h main (fuel + 1) st o st1 j ho o (hin (o, n) List.mem_cons_self)
          (by intro t ht; rw [← hfuel]; exact ht) hr).2
        have e1 := doObj_ext h main (fuel + 1) _ _ _ _ ho
        refine doPass_reach fuel hfuel rest st1 st2 js hr2 ?_ r1
        intro e he
        have := hin e (List.mem_cons_of_mem _ he)
        obtain ⟨t, ht⟩ := e1.pre
        rw [← ht]; simp only [List.map_append, List.mem_append]; exact Or.inl this

/-! ### the fixpoint loop -/

/-- the invariants that hold between passes -/
structure Between (st : SState) : Prop where
  regOk : RegOk main st.reg
  reach : Reach h main st.reg
  idle : st.working = []

theorem between_init : Between h main (initS main) :=
  ⟨regOk_init main, reach_init h main, rfl⟩

theorem between_pass {st st' : SState} {tbl : Table} (hb : Between h main st)
    (hp : doPass h main (h.length + 1) st st.reg = .ok (st', tbl)) : Between h main st' :=
  ⟨(doPass_ext h main _ _ _ _ _ hp).ok hb.regOk,
   doPass_reach h main h.length rfl _ _ _ _ hp (fun e he => List.mem_map.mpr ⟨e, he, rfl⟩) hb.reach,
   by rw [doPass_work h main _ _ _ _ _ hp, hb.idle]⟩

theorem doAll_last : ∀ (k : Nat) (st st' : SState) (tbl : Table),
    Between h main st → doAll h main (h.length + 1) k st = .ok (st', tbl) →
    ∃ st0, Between h main st0 ∧ doPass h main (h.length + 1) st0 st0.reg = .ok (st', tbl) ∧ st'.reg = st0.reg
  | 0, st, st', tbl, _, hd => by simp [doAll] at hd
  | k + 1, st, st', tbl, hb, hd => by
    unfold doAll at hd
    split at hd
    · cases hd
    · rename_i st1 t1 hp
      split at hd
      · rename_i hlen
        simp only [Except.ok.injEq, Prod.mk.injEq] at hd
        refine ⟨st, hb, by rw [← hd.1, ← hd.2]; exact hp, ?_⟩
        rw [← hd.1]
        exact (List.IsPrefix.eq_of_length (doPass_ext h main _ _ _ _ _ hp).pre hlen.symm).symm
      · exact doAll_last k st1 st' tbl (between_pass h main hb hp) hd

/-- **What the serializer produces** (any graph: named references and inlined records). -/
theorem serialize_spec {st : SState} {T : Table} (hs : serialize h main = .ok (st, T)) :
    RegOk main st.reg ∧ Reach h main st.reg ∧ T.map Prod.fst = st.reg.map Prod.snd ∧
      ∀ o n, (o, n) ∈ st.reg → ∃ ob, h[o]? = some ob ∧ (n, encObj h st.reg ob) ∈ T ∧ RefsIn h st.reg h.length ob.fields := by
  obtain ⟨st0, hb, hp, he⟩ := doAll_last h main _ _ _ _ (between_init h main) hs
  have hb' := between_pass h main hb hp
  have := doPass_fixed h main h.length st0.reg st0 st T hp he
  rw [← he] at this
  exact ⟨hb'.regOk, hb'.reach, this.1, this.2⟩

end GlueVerif.C02
