import GlueVerif.Lemmas.C02Serialize
/-! What `serialize` produces for graphs without inlined objects: a registry that is closed under
references, in which every object is reachable from `main` through earlier entries, and a table that
is the pure encoding of every registered object under the *final* naming. -/
namespace GlueVerif.C02

/-- pure encoding of a field value under a complete naming -/
def encVal (reg : Reg) : Val → JVal
  | .lit n => .lit n
  | .str s => .str (stPrefix ++ s)
  | .ref p => .str ((lookupName reg p).getD [])
  | .own _ => .lit 0

def encFields (reg : Reg) (fs : List Field) : List (Phase × JVal) := fs.map fun f => (f.phase, encVal reg f.val)

def encObj (reg : Reg) (ob : Obj) : JVal := .obj ob.cls (encFields reg ob.fields)

def NoOwnFields (fs : List Field) : Prop := ∀ f ∈ fs, ∀ p, f.val ≠ .own p

def NoOwn (h : Heap) : Prop := ∀ ob ∈ h, NoOwnFields ob.fields

/-- all references of `fs` are registered -/
def RefsIn (reg : Reg) (fs : List Field) : Prop := ∀ f ∈ fs, ∀ p, f.val = .ref p → ∃ m, lookupName reg p = some m

/-- every entry but `main` is referenced by an object registered *earlier* -/
def Reach (h : Heap) (main : Nat) (reg : Reg) : Prop :=
  ∀ pre e post, reg = pre ++ e :: post → e.1 = main ∨
    ∃ q ∈ pre.map Prod.fst, ∃ ob, h[q]? = some ob ∧ ∃ f ∈ ob.fields, f.val = .ref e.1

theorem lookupName_append_new {reg : Reg} {o : Nat} (n : Str) (hn : lookupName reg o = none) :
    lookupName (reg ++ [(o, n)]) o = some n := by
  induction reg with
  | nil => simp [lookupName]
  | cons e r ih =>
    obtain ⟨p, m⟩ := e
    unfold lookupName at hn
    by_cases hp : p = o
    · simp [hp] at hn
    · simp only [hp, if_false] at hn
      simp only [List.cons_append, lookupName, hp, if_false]
      exact ih hn

variable (h : Heap) (main : Nat)

theorem reach_init : Reach h main (initS main).reg := by
  intro pre e post he
  simp only [initS] at he
  cases pre with
  | nil => simp only [List.nil_append, List.cons.injEq] at he; left; rw [← he.1]
  | cons a pre' =>
    simp only [List.cons_append, List.cons.injEq] at he
    have := he.2
    cases pre' <;> simp at this

theorem reach_snoc {reg : Reg} (hr : Reach h main reg) (p : Nat) (n : Str)
    (hp : ∃ q ∈ reg.map Prod.fst, ∃ ob, h[q]? = some ob ∧ ∃ f ∈ ob.fields, f.val = .ref p) :
    Reach h main (reg ++ [(p, n)]) := by
  intro pre e post he
  rcases List.eq_nil_or_concat post with hpost | ⟨post', x, hpost⟩
  · subst hpost
    have h2 := List.append_inj' he (by simp)
    right
    rw [← h2.1]
    have he' : (p, n) = e := by simpa using h2.2
    rw [← he']
    exact hp
  · subst hpost
    have : reg ++ [(p, n)] = (pre ++ e :: post') ++ [x] := by simp [he, List.concat_eq_append]
    have h2 := List.append_inj' this (by simp)
    exact hr pre e post' h2.1

/-! ### effect of `id` -/

theorem idObj_spec (st : SState) (o : Nat) :
    (idObj h main st o).1.working = st.working ∧
    lookupName (idObj h main st o).1.reg o = some (idObj h main st o).2 ∧
    ((idObj h main st o).1.reg = st.reg ∨ ∃ n, (idObj h main st o).1.reg = st.reg ++ [(o, n)]) := by
  unfold idObj
  split
  · rename_i n hn; exact ⟨rfl, hn, Or.inl rfl⟩
  · rename_i hn
    exact ⟨rfl, lookupName_append_new _ hn, Or.inr ⟨_, rfl⟩⟩

/-! ### `_working` is restored by every successful `do` -/

def DoOWork (doO : DoO) : Prop := ∀ st p st' j, doO st p = .ok (st', j) → st'.working = st.working

theorem doField_work {doO : DoO} (hO : DoOWork doO) {st st' : SState} {v : Val} {j : JVal}
    (hd : doField h main doO st v = .ok (st', j)) : st'.working = st.working := by
  unfold doField at hd
  cases v with
  | lit n => simp only [Except.ok.injEq, Prod.mk.injEq] at hd; rw [← hd.1]
  | str s => simp only [Except.ok.injEq, Prod.mk.injEq] at hd; rw [← hd.1]
  | ref p =>
    simp only [Except.ok.injEq, Prod.mk.injEq] at hd
    rw [← hd.1]; exact (idObj_spec h main st p).1
  | own p => exact hO _ _ _ _ hd

theorem doFields_work {doO : DoO} (hO : DoOWork doO) :
    ∀ (fs : List Field) (st st' : SState) (js : List (Phase × JVal)),
      doFields h main doO st fs = .ok (st', js) → st'.working = st.working
  | [], st, st', js, hd => by
    simp only [doFields, Except.ok.injEq, Prod.mk.injEq] at hd
    rw [← hd.1]
  | f :: fs, st, st', js, hd => by
    unfold doFields at hd
    split at hd
    · cases hd
    · rename_i st1 j hf
      split at hd
      · cases hd
      · rename_i st2 js2 hfs
        simp only [Except.ok.injEq, Prod.mk.injEq] at hd
        rw [← hd.1, doFields_work hO fs st1 st2 js2 hfs, doField_work h main hO hf]

theorem doObj_work : ∀ (f : Nat), DoOWork (doObj h main f)
  | 0 => by intro st p st' j hd; simp [doObj] at hd
  | f + 1 => by
    intro st o st' j hd
    unfold doObj at hd
    split at hd
    · cases hd
    · split at hd
      · cases hd
      · split at hd
        · cases hd
        · rename_i st1 js hfs
          simp only [Except.ok.injEq, Prod.mk.injEq] at hd
          rw [← hd.1]
          have := doFields_work h main (doObj_work f) _ _ _ _ hfs
          simp only [this, List.erase_cons_head]

theorem doPass_work (fuel : Nat) : ∀ (items : Reg) (st st' : SState) (tbl : Table),
    doPass h main fuel st items = .ok (st', tbl) → st'.working = st.working
  | [], st, st', tbl, hd => by
    simp only [doPass, Except.ok.injEq, Prod.mk.injEq] at hd
    rw [← hd.1]
  | (o, n) :: rest, st, st', tbl, hd => by
    unfold doPass at hd
    split at hd
    · cases hd
    · rename_i st1 j ho
      split at hd
      · cases hd
      · rename_i st2 js hr
        simp only [Except.ok.injEq, Prod.mk.injEq] at hd
        rw [← hd.1, doPass_work fuel rest st1 st2 js hr, doObj_work h main fuel _ _ _ _ ho]

/-! ### a `do` that registers nothing is the pure encoding -/

theorem reg_eq_of_sandwich {a b c : Reg} (h1 : a <+: b) (h2 : b <+: c) (h3 : c = a) : b = a := by
  subst h3
  exact (List.IsPrefix.eq_of_length_le h2 (List.IsPrefix.length_le h1))

theorem doFields_fixed {doO : DoO} (hO : DoOExt main doO) :
    ∀ (fs : List Field), NoOwnFields fs → ∀ (st st' : SState) (js : List (Phase × JVal)),
      doFields h main doO st fs = .ok (st', js) → st'.reg = st.reg →
      js = encFields st.reg fs ∧ RefsIn st.reg fs
  | [], _, st, st', js, hd, _ => by
    simp only [doFields, Except.ok.injEq, Prod.mk.injEq] at hd
    exact ⟨by rw [← hd.2]; rfl, by intro f hf; simp at hf⟩
  | f :: fs, hno, st, st', js, hd, he => by
    unfold doFields at hd
    split at hd
    · cases hd
    · rename_i st1 j hf
      split at hd
      · cases hd
      · rename_i st2 js2 hfs
        simp only [Except.ok.injEq, Prod.mk.injEq] at hd
        have e1 := doField_ext h main hO hf
        have e2 := doFields_ext h main hO fs st1 st2 js2 hfs
        have he2 : st2.reg = st.reg := by rw [hd.1]; exact he
        have h1 : st1.reg = st.reg := reg_eq_of_sandwich e1.pre e2.pre he2
        have hno' : NoOwnFields fs := fun g hg => hno g (List.mem_cons_of_mem _ hg)
        have ih := doFields_fixed hO fs hno' st1 st2 js2 hfs (by rw [he2, h1])
        rw [h1] at ih
        -- the head field
        have hj : j = encVal st.reg f.val ∧ (∀ p, f.val = .ref p → ∃ m, lookupName st.reg p = some m) := by
          unfold doField at hf
          cases hv : f.val with
          | lit n =>
            rw [hv] at hf; simp only [Except.ok.injEq, Prod.mk.injEq] at hf
            exact ⟨by rw [← hf.2]; rfl, by intro p hp; cases hp⟩
          | str s =>
            rw [hv] at hf; simp only [Except.ok.injEq, Prod.mk.injEq] at hf
            exact ⟨by rw [← hf.2]; rfl, by intro p hp; cases hp⟩
          | ref p =>
            rw [hv] at hf; simp only [Except.ok.injEq, Prod.mk.injEq] at hf
            have sp := (idObj_spec h main st p).2.1
            rw [hf.1, h1] at sp
            refine ⟨?_, ?_⟩
            · rw [← hf.2]; simp only [encVal, sp, Option.getD_some]
            · intro q hq; cases hq; exact ⟨_, sp⟩
          | own p => exact absurd hv (hno f (List.mem_cons_self) p)
        refine ⟨?_, ?_⟩
        · rw [← hd.2, ih.1, hj.1]; rfl
        · intro g hg p hp
          rcases List.mem_cons.mp hg with e | e
          · subst e; exact hj.2 p hp
          · exact ih.2 g e p hp

theorem doObj_fixed (hno : NoOwn h) (f : Nat) (st st' : SState) (o : Nat) (j : JVal)
    (hd : doObj h main (f + 1) st o = .ok (st', j)) (he : st'.reg = st.reg) :
    ∃ ob, h[o]? = some ob ∧ j = encObj st.reg ob ∧ RefsIn st.reg ob.fields := by
  unfold doObj at hd
  split at hd
  · cases hd
  · split at hd
    · cases hd
    · rename_i ob hob
      split at hd
      · cases hd
      · rename_i st1 js hfs
        simp only [Except.ok.injEq, Prod.mk.injEq] at hd
        have hno' : NoOwnFields ob.fields := hno ob (List.mem_of_getElem? hob)
        have he1 : st1.reg = st.reg := by rw [← he, ← hd.1]
        have := doFields_fixed h main (doObj_ext h main f) ob.fields hno' _ _ _ hfs he1
        exact ⟨ob, hob, by rw [← hd.2, this.1]; rfl, this.2⟩

theorem doPass_fixed (hno : NoOwn h) (fuel : Nat) : ∀ (items : Reg) (st st' : SState) (tbl : Table),
    doPass h main (fuel + 1) st items = .ok (st', tbl) → st'.reg = st.reg →
    tbl.map Prod.fst = items.map Prod.snd ∧
      ∀ o n, (o, n) ∈ items → ∃ ob, h[o]? = some ob ∧ (n, encObj st.reg ob) ∈ tbl ∧ RefsIn st.reg ob.fields
  | [], st, st', tbl, hd, _ => by
    simp only [doPass, Except.ok.injEq, Prod.mk.injEq] at hd
    rw [← hd.2]; exact ⟨rfl, by intro o n hm; simp at hm⟩
  | (o, n) :: rest, st, st', tbl, hd, he => by
    unfold doPass at hd
    split at hd
    · cases hd
    · rename_i st1 j ho
      split at hd
      · cases hd
      · rename_i st2 js hr
        simp only [Except.ok.injEq, Prod.mk.injEq] at hd
        have e1 := doObj_ext h main (fuel + 1) _ _ _ _ ho
        have e2 := doPass_ext h main (fuel + 1) rest st1 st2 js hr
        have he2 : st2.reg = st.reg := by rw [hd.1]; exact he
        have h1 : st1.reg = st.reg := reg_eq_of_sandwich e1.pre e2.pre he2
        have ih := doPass_fixed hno fuel rest st1 st2 js hr (by rw [he2, h1])
        rw [h1] at ih
        have hob := doObj_fixed h main hno fuel st st1 o j ho h1
        refine ⟨by rw [← hd.2]; simp [ih.1], ?_⟩
        intro o' n' hm
        rcases List.mem_cons.mp hm with e | e
        · simp only [Prod.mk.injEq] at e
          obtain ⟨ob, h1', h2', h3'⟩ := hob
          refine ⟨ob, by rw [e.1]; exact h1', ?_, h3'⟩
          rw [← hd.2, e.2, ← h2']; exact List.mem_cons_self
        · obtain ⟨ob, h1', h2', h3'⟩ := ih.2 o' n' e
          exact ⟨ob, h1', by rw [← hd.2]; exact List.mem_cons_of_mem _ h2', h3'⟩

/-! ### reachability is preserved -/

theorem doFields_reach {doO : DoO} (q : Nat) (ob : Obj) (hq : h[q]? = some ob) :
    ∀ (fs : List Field), NoOwnFields fs → (∀ f ∈ fs, f ∈ ob.fields) → ∀ (st st' : SState) (js : List (Phase × JVal)),
      doFields h main doO st fs = .ok (st', js) → q ∈ st.reg.map Prod.fst → Reach h main st.reg →
      Reach h main st'.reg
  | [], _, _, st, st', js, hd, _, hr => by
    simp only [doFields, Except.ok.injEq, Prod.mk.injEq] at hd
    rw [← hd.1]; exact hr
  | f :: fs, hno, hsub, st, st', js, hd, hqin, hr => by
    unfold doFields at hd
    split at hd
    · cases hd
    · rename_i st1 j hf
      split at hd
      · cases hd
      · rename_i st2 js2 hfs
        simp only [Except.ok.injEq, Prod.mk.injEq] at hd
        rw [← hd.1]
        have hno' : NoOwnFields fs := fun g hg => hno g (List.mem_cons_of_mem _ hg)
        have hsub' : ∀ g ∈ fs, g ∈ ob.fields := fun g hg => hsub g (List.mem_cons_of_mem _ hg)
        have step : q ∈ st1.reg.map Prod.fst ∧ Reach h main st1.reg := by
          unfold doField at hf
          cases hv : f.val with
          | lit n => rw [hv] at hf; simp only [Except.ok.injEq, Prod.mk.injEq] at hf; rw [← hf.1]; exact ⟨hqin, hr⟩
          | str s => rw [hv] at hf; simp only [Except.ok.injEq, Prod.mk.injEq] at hf; rw [← hf.1]; exact ⟨hqin, hr⟩
          | ref p =>
            rw [hv] at hf; simp only [Except.ok.injEq, Prod.mk.injEq] at hf
            rw [← hf.1]
            rcases (idObj_spec h main st p).2.2 with e | ⟨n, e⟩
            · rw [e]; exact ⟨hqin, hr⟩
            · rw [e]
              refine ⟨by simp only [List.map_append, List.mem_append]; exact Or.inl hqin, ?_⟩
              exact reach_snoc h main hr p n ⟨q, hqin, ob, hq, f, hsub f List.mem_cons_self, hv⟩
          | own p => exact absurd hv (hno f List.mem_cons_self p)
        exact doFields_reach q ob hq fs hno' hsub' st1 st2 js2 hfs step.1 step.2

theorem doObj_reach (hno : NoOwn h) (f : Nat) (st st' : SState) (o : Nat) (j : JVal)
    (hd : doObj h main (f + 1) st o = .ok (st', j)) (ho : o ∈ st.reg.map Prod.fst)
    (hr : Reach h main st.reg) : Reach h main st'.reg := by
  unfold doObj at hd
  split at hd
  · cases hd
  · split at hd
    · cases hd
    · rename_i ob hob
      split at hd
      · cases hd
      · rename_i st1 js hfs
        simp only [Except.ok.injEq, Prod.mk.injEq] at hd
        rw [← hd.1]
        exact doFields_reach h main o ob hob ob.fields (hno ob (List.mem_of_getElem? hob)) (fun _ hf => hf)
          { st with working := o :: st.working } st1 js hfs ho hr

theorem doPass_reach (hno : NoOwn h) (fuel : Nat) : ∀ (items : Reg) (st st' : SState) (tbl : Table),
    doPass h main (fuel + 1) st items = .ok (st', tbl) → (∀ e ∈ items, e.1 ∈ st.reg.map Prod.fst) →
    Reach h main st.reg → Reach h main st'.reg
  | [], st, st', tbl, hd, _, hr => by
    simp only [doPass, Except.ok.injEq, Prod.mk.injEq] at hd
    rw [← hd.1]; exact hr
  | (o, n) :: rest, st, st', tbl, hd, hin, hr => by
    unfold doPass at hd
    split at hd
    · cases hd
    · rename_i st1 j ho
      split at hd
      · cases hd
      · rename_i st2 js hr2
        simp only [Except.ok.injEq, Prod.mk.injEq] at hd
        rw [← hd.1]
        have r1 := doObj_reach h main hno fuel st st1 o j ho (hin (o, n) List.mem_cons_self) hr
        have e1 := doObj_ext h main (fuel + 1) _ _ _ _ ho
        refine doPass_reach hno fuel rest st1 st2 js hr2 ?_ r1
        intro e he
        have := hin e (List.mem_cons_of_mem _ he)
        obtain ⟨t, ht⟩ := e1.pre
        rw [← ht]; simp only [List.map_append, List.mem_append]; exact Or.inl this

/-! ### the fixpoint loop -/

/-- the invariants that hold between passes -/
structure Between (st : SState) : Prop where
  regOk : RegOk main st.reg
  reach : Reach h main st.reg
  idle : st.working = []

theorem between_init : Between h main (initS main) :=
  ⟨regOk_init main, reach_init h main, rfl⟩

theorem between_pass (hno : NoOwn h) (fuel : Nat) {st st' : SState} {tbl : Table} (hb : Between h main st)
    (hp : doPass h main (fuel + 1) st st.reg = .ok (st', tbl)) : Between h main st' :=
  ⟨(doPass_ext h main _ _ _ _ _ hp).ok hb.regOk,
   doPass_reach h main hno fuel _ _ _ _ hp (fun e he => List.mem_map.mpr ⟨e, he, rfl⟩) hb.reach,
   by rw [doPass_work h main _ _ _ _ _ hp, hb.idle]⟩

theorem doAll_last (hno : NoOwn h) (fuel : Nat) : ∀ (k : Nat) (st st' : SState) (tbl : Table),
    Between h main st → doAll h main (fuel + 1) k st = .ok (st', tbl) →
    ∃ st0, Between h main st0 ∧ doPass h main (fuel + 1) st0 st0.reg = .ok (st', tbl) ∧ st'.reg = st0.reg
  | 0, st, st', tbl, _, hd => by simp [doAll] at hd
  | k + 1, st, st', tbl, hb, hd => by
    unfold doAll at hd
    split at hd
    · cases hd
    · rename_i st1 t1 hp
      split at hd
      · rename_i hlen
        simp only [Except.ok.injEq, Prod.mk.injEq] at hd
        refine ⟨st, hb, by rw [← hd.1, ← hd.2]; exact hp, ?_⟩
        rw [← hd.1]
        exact (List.IsPrefix.eq_of_length (doPass_ext h main _ _ _ _ _ hp).pre hlen.symm).symm
      · exact doAll_last hno fuel k st1 st' tbl (between_pass h main hno fuel hb hp) hd

/-- **What the serializer produces** (graphs without inlined objects). -/
theorem serialize_spec (hno : NoOwn h) {st : SState} {T : Table} (hs : serialize h main = .ok (st, T)) :
    RegOk main st.reg ∧ Reach h main st.reg ∧ T.map Prod.fst = st.reg.map Prod.snd ∧
      ∀ o n, (o, n) ∈ st.reg → ∃ ob, h[o]? = some ob ∧ (n, encObj st.reg ob) ∈ T ∧ RefsIn st.reg ob.fields := by
  obtain ⟨st0, hb, hp, he⟩ := doAll_last h main hno h.length _ _ _ _ (between_init h main) hs
  have hb' := between_pass h main hno h.length hb hp
  have := doPass_fixed h main hno h.length st0.reg st0 st T hp he
  rw [← he] at this
  exact ⟨hb'.regOk, hb'.reach, this.1, this.2⟩

end GlueVerif.C02
