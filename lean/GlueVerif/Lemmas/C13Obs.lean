import GlueVerif.Lemmas.C13Refine
/-!
# C13 — helper lemmas, part 3: the selection masks are a function of the observation, and the
zipper Spec accepts only what the property says.  Core Lean only.
-/
namespace GlueVerif.Lemmas.C13
open GlueVerif.C13Undo

/-- the selection of the group at an observed position. -/
def stateAt (gs : List (Nat × Nat × Sel)) : Option Nat → Sel
  | some i => ((gs[i]?).map (·.2.2)).getD (.atom 0)
  | none => .atom 0

theorem stateAt_cons_succ (x : Nat × Nat × Sel) (xs : List (Nat × Nat × Sel)) (o : Option Nat) :
    stateAt (x :: xs) (o.map (· + 1)) = stateAt xs o := by
  cases o <;> simp [stateAt]

theorem stateOf_list (l : List Group) (gid : Nat) :
    ((l.find? (fun g => g.id == gid)).map (·.state)).getD (.atom 0) =
      stateAt (l.map fun g => (g.label, g.style, g.state)) ((l.map (·.id)).findIdx? (· == gid)) := by
  induction l with
  | nil => rfl
  | cons a rest ih =>
    simp only [List.find?_cons, List.map_cons, List.findIdx?_cons]
    by_cases h : (a.id == gid) = true
    · simp [h, stateAt]
    · have h' : (a.id == gid) = false := by simpa using h
      simp only [h', Bool.false_eq_true, if_false]
      rw [stateAt_cons_succ]
      exact ih

theorem stateOf_eq (b : Body) (gid : Nat) : stateOf b gid = stateAt (observe b).groups (pos b gid) :=
  stateOf_list b.groups gid

theorem range_map_inj {α : Type} (n m : Nat) (f g : Nat → α)
    (h : (List.range n).map f = (List.range m).map g) : n = m ∧ ∀ d, d < n → f d = g d := by
  have hl : n = m := by simpa using congrArg List.length h
  subst hl
  refine ⟨rfl, fun d hd => ?_⟩
  have := List.map_inj_left.mp h d (List.mem_range.mpr hd)
  exact this

/-- **The selection masks are determined by the observation**: two sessions with the same
observation show the same mask for every subset on every dataset, whatever the atoms mean. -/
theorem masks_of_observe (atoms : Nat → Nat → List Bool) (b b' : Body)
    (h : observe b = observe b') : masks atoms b = masks atoms b' := by
  have hg : (observe b).groups = (observe b').groups := by rw [h]
  have hd : (observe b).dsubs = (observe b').dsubs := by rw [h]
  obtain ⟨hn, hrow⟩ := range_map_inj _ _ _ _ hd
  unfold masks
  rw [← hn]
  apply List.map_congr_left
  intro d hdm
  have hrow' := hrow d (List.mem_range.mp hdm)
  have e1 : ∀ (x : Body), (x.dsubs d).map (fun g => (stateOf x g).eval (atoms d)) =
      ((x.dsubs d).map (pos x)).map (fun p => (stateAt (observe x).groups p).eval (atoms d)) := by
    intro x
    rw [List.map_map]
    apply List.map_congr_left
    intro g _
    simp only [Function.comp, stateOf_eq]
  rw [e1 b, e1 b', hrow', hg]

/-! ## what the Spec accepts -/

open Spec in
/-- if the zipper accepts `do` followed by `undo`, the observation after the `undo` is the one
before the `do`, and neither raised. -/
theorem spec_undo_after_do {α : Type} [BEq α] [LawfulBEq α] (z z1 z2 : Zipper α) (s1 s2 : Step α)
    (h1 : s1.letter = .do) (h2 : s2.letter = .undo)
    (a1 : z.step s1 = some z1) (a2 : z1.step s2 = some z2) :
    s1.err = false ∧ s2.err = false ∧ s2.obs = z.cur ∧ z2.cur = z.cur := by
  simp only [Zipper.step, h1] at a1
  split at a1
  · cases a1
  · next he =>
    split at a1
    · injection a1 with a1
      subst a1
      simp only [Zipper.step, h2, maxUndo, List.take_succ_cons] at a2
      split at a2
      · next hc =>
        split at a2
        · injection a2 with a2
          subst a2
          simp only [Bool.and_eq_true, Bool.not_eq_true', beq_iff_eq] at hc
          exact ⟨by simpa using he, hc.1, hc.2, rfl⟩
        · cases a2
      · cases a2
    · cases a1

open Spec in
/-- if the zipper accepts `undo` (without error) followed by `redo`, the observation after the
`redo` is the one before the `undo`. -/
theorem spec_redo_after_undo {α : Type} [BEq α] [LawfulBEq α] (z z1 z2 : Zipper α) (s1 s2 : Step α)
    (h1 : s1.letter = .undo) (h2 : s2.letter = .redo) (he : s1.err = false)
    (a1 : z.step s1 = some z1) (a2 : z1.step s2 = some z2) :
    s2.err = false ∧ s2.obs = z.cur ∧ z2.cur = z.cur := by
  obtain ⟨zp, zc, zf⟩ := z
  simp only [Zipper.step, h1, he] at a1
  cases zp with
  | nil => simp at a1
  | cons p ps =>
    simp only at a1
    split at a1
    · split at a1
      · injection a1 with a1
        subst a1
        simp only [Zipper.step, h2] at a2
        split at a2
        · next hc =>
          split at a2
          · injection a2 with a2
            subst a2
            simp only [Bool.and_eq_true, Bool.not_eq_true', beq_iff_eq] at hc
            exact ⟨hc.1, hc.2, rfl⟩
          · cases a2
        · cases a2
      · cases a1
    · cases a1

open Spec in
/-- after an accepted `do` an accepted `redo` raises and changes nothing: a new command clears the
redo history. -/
theorem spec_redo_after_do {α : Type} [BEq α] [LawfulBEq α] (z z1 z2 : Zipper α) (s1 s2 : Step α)
    (h1 : s1.letter = .do) (h2 : s2.letter = .redo)
    (a1 : z.step s1 = some z1) (a2 : z1.step s2 = some z2) :
    z1.future = [] ∧ s1.nUndone = 0 ∧ s2.err = true ∧ s2.obs = s1.obs ∧ z2 = z1 := by
  simp only [Zipper.step, h1] at a1
  split at a1
  · cases a1
  · split at a1
    · next hs =>
      injection a1 with a1
      subst a1
      simp only [Zipper.step, h2] at a2
      split at a2
      · next hc =>
        split at a2
        · injection a2 with a2
          simp only [Bool.and_eq_true, beq_iff_eq] at hc hs
          refine ⟨rfl, by simpa using hs.2, hc.1, hc.2, a2.symm⟩
        · cases a2
      · cases a2
    · cases a1

/-- the zipper never holds more than `MAX_UNDO` entries before the cursor after a `do`, and the
total never grows by moving. -/
theorem spec_bound {α : Type} [BEq α] (z z' : Spec.Zipper α) (s : Spec.Step α)
    (h : z.past.length + z.future.length ≤ maxUndo) (a : z.step s = some z') :
    z'.past.length + z'.future.length ≤ maxUndo := by
  obtain ⟨zp, zc, zf⟩ := z
  simp only [Spec.Zipper.step] at a
  split at a
  · split at a
    · cases a
    · split at a
      · injection a with a; subst a; simp only [List.length_take, List.length_nil]; omega
      · cases a
  · cases zp with
    | nil =>
      simp only at a
      split at a
      · split at a
        · injection a with a; subst a; exact h
        · cases a
      · cases a
    | cons p ps =>
      simp only at a
      split at a
      · split at a
        · injection a with a; subst a; simp only [List.length_cons] at h ⊢; omega
        · cases a
      · cases a
  · cases zf with
    | nil =>
      simp only at a
      split at a
      · split at a
        · injection a with a; subst a; exact h
        · cases a
      · cases a
    | cons p ps =>
      simp only at a
      split at a
      · split at a
        · injection a with a; subst a; simp only [List.length_cons] at h ⊢; omega
        · cases a
      · cases a

end GlueVerif.Lemmas.C13
