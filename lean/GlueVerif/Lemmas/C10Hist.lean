import GlueVerif.Model.Stats
import Mathlib.Data.Rat.Floor
import Mathlib.Tactic.Linarith
import Mathlib.Tactic.Ring
import Mathlib.Tactic.FieldSimp
import Mathlib.Algebra.Order.Field.Basic
/-! Helper lemmas for C10 histograms (exact rational arithmetic; single Mathlib modules). -/
namespace GlueVerif.Lemmas.C10
open GlueVerif.Stats

theorem sum_ite_range (n b : Nat) (w : Rat) :
    ((List.range n).map (fun k => if b = k then w else 0)).sum = if b < n then w else 0 := by
  induction n with
  | zero => simp
  | succ n ih =>
    rw [List.range_succ, List.map_append, List.sum_append, ih]
    by_cases h1 : b < n
    · have : b ≠ n := by omega
      simp [h1, this, Nat.lt_succ_of_lt h1]
    · by_cases h2 : b = n
      · subst h2; simp
      · have : ¬ b < n + 1 := by omega
        simp [h1, h2, this]

theorem histOf_cons (binf : Rat → Nat) (n : Nat) (p : Rat × Rat) (ps : List (Rat × Rat)) :
    histOf binf n (p :: ps) =
      (List.range n).map (fun k => (if binf p.1 = k then p.2 else 0) +
        ((ps.filter fun q => binf q.1 == k).map (·.2)).sum) := by
  unfold histOf
  apply List.map_congr_left
  intro k _
  by_cases h : binf p.1 = k
  · simp [List.filter_cons, h]
  · simp [List.filter_cons, h]

/-- The bins of a histogram add up to the total weight of the binned elements, provided every
element's bin index is below the number of bins. -/
theorem histOf_total (binf : Rat → Nat) (n : Nat) (xs : List (Rat × Rat))
    (h : ∀ p ∈ xs, binf p.1 < n) : (histOf binf n xs).sum = (xs.map (·.2)).sum := by
  induction xs with
  | nil => simp [histOf]
  | cons p ps ih =>
    rw [histOf_cons, List.sum_map_add, sum_ite_range]
    have hp := h p (by simp)
    have ih' := ih (fun q hq => h q (by simp [hq]))
    unfold histOf at ih'
    rw [ih']
    simp [hp]

theorem implBinLin_lt (lo hi' x : Rat) (n : Nat) (hn : 0 < n) (hlo : lo ≤ x) (hx : x < hi') :
    implBinLin lo hi' n x < n := by
  unfold implBinLin
  have hd : 0 < hi' - lo := by linarith
  have hq0 : 0 ≤ (x - lo) * (n : Rat) / (hi' - lo) := by
    apply div_nonneg
    · apply mul_nonneg
      · linarith
      · exact_mod_cast Nat.zero_le n
    · linarith
  have hfl : Rat.floor ((x - lo) * (n : Rat) / (hi' - lo)) = ⌊(x - lo) * (n : Rat) / (hi' - lo)⌋ := rfl
  rw [hfl, Int.toNat_lt (Int.floor_nonneg.mpr hq0), Int.floor_lt]
  rw [div_lt_iff₀ hd]
  have hnpos : (0 : Rat) < n := by exact_mod_cast hn
  push_cast
  nlinarith

/-- Bin index from bounds in terms of the nudged width. -/
theorem implBinLin_eq' (lo hi eps x : Rat) (n k : Nat) (hn : 0 < n) (hdd : 0 < hi + eps - lo)
    (h1 : lo + (k : Rat) * (hi + eps - lo) / n ≤ x)
    (h2 : x < lo + ((k : Rat) + 1) * (hi + eps - lo) / n) :
    implBinLin lo (hi + eps) n x = k := by
  unfold implBinLin
  have hnpos : (0 : Rat) < n := by exact_mod_cast hn
  have hfl : Rat.floor ((x - lo) * (n : Rat) / (hi + eps - lo)) = ⌊(x - lo) * (n : Rat) / (hi + eps - lo)⌋ := rfl
  rw [hfl]
  have hk : ⌊(x - lo) * (n : Rat) / (hi + eps - lo)⌋ = (k : Int) := by
    rw [Int.floor_eq_iff]
    constructor
    · rw [le_div_iff₀ hdd]
      have : (k : Rat) * (hi + eps - lo) / n ≤ x - lo := by linarith
      rw [div_le_iff₀ hnpos] at this
      push_cast
      linarith
    · rw [div_lt_iff₀ hdd]
      have : x - lo < ((k : Rat) + 1) * (hi + eps - lo) / n := by linarith
      rw [lt_div_iff₀ hnpos] at this
      push_cast
      linarith
  rw [hk]
  simp

/-- A value at least `k·(w + ε/n)` above the lower range end and strictly below edge `k+1` is
counted in bin `k` (`w = (hi - lo)/n` the bin width, `ε ≥ 0` the nudge of the upper range end). -/
theorem implBinLin_eq (lo hi eps x : Rat) (n k : Nat) (hn : 0 < n) (hd : lo < hi) (he : 0 ≤ eps)
    (h1 : lo + (k : Rat) * (hi + eps - lo) / n ≤ x) (h2 : x < lo + ((k : Rat) + 1) * (hi - lo) / n) :
    implBinLin lo (hi + eps) n x = k := by
  have hnpos : (0 : Rat) < n := by exact_mod_cast hn
  apply implBinLin_eq' lo hi eps x n k hn (by linarith) h1
  have : ((k : Rat) + 1) * (hi - lo) / n ≤ ((k : Rat) + 1) * (hi + eps - lo) / n := by
    apply div_le_div_of_nonneg_right _ hnpos.le
    have hk0 : (0 : Rat) ≤ (k : Rat) + 1 := by positivity
    nlinarith
  linarith

theorem specBinLog_lt (lo hi x : Rat) (n : Nat) (hn : 0 < n) : specBinLog lo hi n x < n := by
  unfold specBinLog
  split
  · exact hn
  · dsimp only
    have h := (List.length_filter_lt_length_iff_exists
      (p := fun j => decide (1 ≤ j) && decide ((hi / lo) ^ j ≤ (x / lo) ^ n))
      (l := List.range n)).mpr ⟨0, List.mem_range.mpr hn, by simp⟩
    simpa using h

theorem mem_histKeep (lo hi : Rat) (xs : List (Val × Rat)) (p : Rat × Rat)
    (h : p ∈ histKeep lo hi xs) : lo ≤ p.1 ∧ p.1 ≤ hi := by
  unfold histKeep at h
  rw [List.mem_filterMap] at h
  obtain ⟨a, _, ha⟩ := h
  cases hv : a.1 with
  | fin q =>
    simp only [hv] at ha
    split at ha
    · rename_i hc
      injection ha with ha
      subst ha
      exact hc
    · simp at ha
  | nan => simp [hv] at ha
  | ninf => simp [hv] at ha
  | pinf => simp [hv] at ha

theorem ulp_pos (q : Rat) : 0 < ulp q := by
  unfold ulp
  split
  · exact zpow_pos (by norm_num) _
  · exact zpow_pos (by norm_num) _

end GlueVerif.Lemmas.C10

namespace GlueVerif.Lemmas.C10
open GlueVerif.Stats

theorem histOf_congr (f g : Rat → Nat) (n : Nat) (xs : List (Rat × Rat))
    (h : ∀ p ∈ xs, f p.1 = g p.1) : histOf f n xs = histOf g n xs := by
  unfold histOf
  apply List.map_congr_left
  intro k _
  congr 1
  congr 1
  apply List.filter_congr
  intro p hp
  rw [h p hp]

/-- The upper range end itself is counted in the last bin when the nudge is positive and small. -/
theorem implBinLin_top (lo hi eps : Rat) (n : Nat) (hn : 0 < n) (hd : lo < hi) (he : 0 < eps)
    (hsmall : ((n : Rat) - 1) * eps ≤ hi - lo) : implBinLin lo (hi + eps) n hi = n - 1 := by
  have hnpos : (0 : Rat) < n := by exact_mod_cast hn
  have hcast : ((n - 1 : Nat) : Rat) = (n : Rat) - 1 := by
    rw [Nat.cast_sub (by omega)]; simp
  apply implBinLin_eq' lo hi eps hi n (n - 1) hn (by linarith)
  · rw [hcast]
    have : ((n : Rat) - 1) * (hi + eps - lo) / n ≤ hi - lo := by
      rw [div_le_iff₀ hnpos]
      nlinarith
    linarith
  · rw [hcast]
    have : ((n : Rat) - 1 + 1) * (hi + eps - lo) / n = hi + eps - lo := by
      field_simp
      ring
    linarith

theorem specBinLin_spec (lo hi x : Rat) (n : Nat) (hn : 0 < n) (hd : lo < hi) (hlo : lo ≤ x)
    (hx : x < hi) :
    x < lo + ((specBinLin lo hi n x : Nat) + 1 : Rat) * (hi - lo) / n := by
  unfold specBinLin
  have hne : lo ≠ hi := ne_of_lt hd
  have hxne : x ≠ hi := ne_of_lt hx
  simp only [hne, hxne, if_false]
  have hnpos : (0 : Rat) < n := by exact_mod_cast hn
  have hdd : 0 < hi - lo := by linarith
  set t := (x - lo) * (n : Rat) / (hi - lo) with ht
  have ht0 : 0 ≤ t := by
    apply div_nonneg
    · apply mul_nonneg <;> linarith
    · linarith
  have hfl : Rat.floor t = ⌊t⌋ := rfl
  rw [hfl]
  have h1 : t < (⌊t⌋ : Rat) + 1 := Int.lt_floor_add_one t
  have h2 : ((⌊t⌋.toNat : Nat) : Rat) = (⌊t⌋ : Rat) := by
    have : (0 : Int) ≤ ⌊t⌋ := Int.floor_nonneg.mpr ht0
    exact_mod_cast Int.toNat_of_nonneg this
  rw [h2]
  have h3 : x - lo = t * (hi - lo) / n := by
    rw [ht]; field_simp
  have : t * (hi - lo) / n < ((⌊t⌋ : Rat) + 1) * (hi - lo) / n := by
    apply div_lt_div_of_pos_right _ hnpos
    exact mul_lt_mul_of_pos_right h1 hdd
  linarith

/-- Outside the nudge's reach the code's bin index is the textbook one. -/
theorem implBinLin_eq_spec (lo hi eps x : Rat) (n : Nat) (hn : 0 < n) (hd : lo < hi) (he : 0 < eps)
    (hsmall : ((n : Rat) - 1) * eps ≤ hi - lo) (hlo : lo ≤ x) (hhi : x ≤ hi)
    (hc : clearOfEdges lo hi eps n x = true) :
    implBinLin lo (hi + eps) n x = specBinLin lo hi n x := by
  by_cases hxe : x = hi
  · subst hxe
    rw [implBinLin_top lo x eps n hn hd he hsmall]
    unfold specBinLin
    simp [ne_of_lt hd]
  · have hx : x < hi := lt_of_le_of_ne hhi hxe
    unfold clearOfEdges at hc
    simp only [Bool.or_eq_true, beq_iff_eq, hxe, false_or, decide_eq_true_eq] at hc
    exact implBinLin_eq lo hi eps x n _ hn hd he.le hc (specBinLin_spec lo hi x n hn hd hlo hx)

end GlueVerif.Lemmas.C10

namespace GlueVerif.Lemmas.C10
open GlueVerif.Stats

theorem histOf_length (f : Rat → Nat) (n : Nat) (xs : List (Rat × Rat)) : (histOf f n xs).length = n := by
  simp [histOf]

theorem sum_replicate_zero (n : Nat) : (List.replicate n (0 : Rat)).sum = 0 := by
  induction n with
  | zero => rfl
  | succ n ih => simp [List.replicate_succ, ih]

theorem implHist_total (r0 r1 : Rat) (n : Nat) (log : Bool) (xs : List (Val × Rat)) (b : List Rat)
    (hn : 0 < n) (hlog : log = true → 0 < min r0 r1)
    (h : implHist r0 r1 n log xs = .bins b) :
    b.length = n ∧ b.sum = specHistTotal r0 r1 xs := by
  unfold implHist at h
  unfold specHistTotal
  have hmm : min r0 r1 ≤ max r0 r1 := min_le_max
  generalize hlo : min r0 r1 = lo at *
  generalize hhi : max r0 r1 = hi at *
  dsimp only at h
  split at h
  · rename_i hemp
    injection h with h
    subst h
    have : histKeep lo hi xs = [] := by simpa using hemp
    simp [this, sum_replicate_zero]
  · split at h
    · rename_i hl
      have hpos := hlog hl
      split at h
      · rename_i hneg
        rcases hneg with h1 | h1 <;> linarith
      · split at h
        · rename_i h0; linarith
        · injection h with h
          subst h
          refine ⟨histOf_length _ _ _, ?_⟩
          apply histOf_total
          intro p _
          exact specBinLog_lt lo hi p.1 n hn
    · injection h with h
      subst h
      refine ⟨histOf_length _ _ _, ?_⟩
      apply histOf_total
      intro p hp
      obtain ⟨h1, h2⟩ := mem_histKeep lo hi xs p hp
      apply implBinLin_lt lo _ p.1 n hn h1
      have := ulp_pos hi
      linarith

/-- Per-bin clause, partial: under `histP` the code's linear histogram is the textbook one. -/
theorem implHist_perbin (r0 r1 : Rat) (n : Nat) (xs : List (Val × Rat)) (hn : 0 < n)
    (hP : histP (min r0 r1) (max r0 r1) (10 * ulp (max r0 r1)) n
      (histKeep (min r0 r1) (max r0 r1) xs) = true) :
    implHist r0 r1 n false xs = .bins (specHist r0 r1 n false xs) := by
  unfold implHist specHist
  generalize hlo : min r0 r1 = lo at *
  generalize hhi : max r0 r1 = hi at *
  unfold histP at hP
  simp only [Bool.and_eq_true, decide_eq_true_eq, List.all_eq_true] at hP
  obtain ⟨⟨hd, hsmall⟩, hall⟩ := hP
  have heps : 0 < 10 * ulp hi := by have := ulp_pos hi; linarith
  dsimp only
  simp only [Bool.false_eq_true, if_false]
  split
  · rename_i hemp
    have : histKeep lo hi xs = [] := by simpa using hemp
    simp [this, histOf]
  · congr 1
    apply histOf_congr
    intro p hp
    obtain ⟨h1, h2⟩ := mem_histKeep lo hi xs p hp
    exact implBinLin_eq_spec lo hi _ p.1 n hn hd heps hsmall h1 h2 (hall p hp)

end GlueVerif.Lemmas.C10
