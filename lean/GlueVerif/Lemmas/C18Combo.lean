import GlueVerif.Model.C18Combo
/-!
# C18 parts 2 and 3 — helper lemmas: `refresh`, echo's selection rule, the helper machines
-/
namespace GlueVerif.Lemmas.C18Combo
open GlueVerif.C18Combo

/-! ## 1. `refresh` -/

theorem cidsOf_append (xs ys : List Choice) : cidsOf (xs ++ ys) = cidsOf xs ++ cidsOf ys := by
  induction xs with
  | nil => rfl
  | cons x xs ih => cases x <;> simp [cidsOf, ih]

theorem cidsOf_map_cid (cs : List Nat) : cidsOf (cs.map Choice.cid) = cs := by
  induction cs with
  | nil => rfl
  | cons c cs ih => simp [cidsOf, ih]

theorem mem_cidsOf (xs : List Choice) (c : Nat) : c ∈ cidsOf xs ↔ Choice.cid c ∈ xs := by
  induction xs with
  | nil => simp [cidsOf]
  | cons x xs ih => cases x <;> simp [cidsOf, ih]

theorem none_mem_map_cid (cs : List Nat) : Choice.none ∉ cs.map Choice.cid := by simp

/-- a guarded section `if body is empty then [] else sep :: body` contributes exactly its ids. -/
theorem cidsOf_section (sep : Choice) (hsep : ∀ c, sep ≠ .cid c) (cs : List Nat) :
    cidsOf (if (cs.map Choice.cid).isEmpty then [] else sep :: cs.map Choice.cid) = cs := by
  cases cs with
  | nil => rfl
  | cons c cs =>
    simp only [List.map_cons, List.isEmpty_cons, Bool.false_eq_true, if_false]
    cases sep <;> simp_all [cidsOf, cidsOf_map_cid]

theorem cidsOf_refreshOne (F : Flags) (multi : Bool) (d : DS) :
    cidsOf (refreshOne F multi d) = offeredCids F d := by
  unfold refreshOne offeredCids
  simp only [cidsOf_append]
  have h1 : cidsOf (if multi then [Choice.sepData d.id] else []) = [] := by cases multi <;> rfl
  have h2 : cidsOf (if ((mainCids F d).map Choice.cid).isEmpty then []
      else if (F.pixel || F.world || (F.derived && !d.derived.isEmpty)) = true then
        Choice.sepMain :: (mainCids F d).map Choice.cid else (mainCids F d).map Choice.cid) = mainCids F d := by
    cases hm : mainCids F d with
    | nil => rfl
    | cons c cs =>
      simp only [List.map_cons, List.isEmpty_cons, Bool.false_eq_true, if_false]
      split <;> simp [cidsOf, cidsOf_map_cid]
  have h3 := cidsOf_section Choice.sepDerived (by intro c h; cases h) (derivedCids F d)
  have h4 := cidsOf_section Choice.sepCoord (by intro c h; cases h) (coordCids F d)
  rw [h1, h2, h3, h4]; simp

/-- **the ids offered by `refresh`, in order.** -/
theorem cidsOf_refresh (F : Flags) (ds : List DS) : cidsOf (refresh F ds) = ds.flatMap (offeredCids F) := by
  unfold refresh
  rw [cidsOf_append]
  have h1 : cidsOf (if F.none = true then [Choice.none] else []) = [] := by cases F.none <;> rfl
  rw [h1, List.nil_append]
  generalize decide (ds.length > 1) = multi
  induction ds with
  | nil => rfl
  | cons d ds ih => simp only [List.flatMap_cons, cidsOf_append, cidsOf_refreshOne, ih]

theorem mem_offeredCids (F : Flags) (d : DS) (c : Nat) : c ∈ offeredCids F d ↔ offered F d c := by
  unfold offeredCids offered mainCids derivedCids coordCids
  simp only [List.mem_append, List.mem_map, List.mem_filter]
  constructor
  · rintro ((⟨p, ⟨hp, hk⟩, rfl⟩ | h) | h)
    · exact Or.inl ⟨p.2, hp, hk⟩
    · right; left
      cases hn : F.numeric <;> cases hd : F.derived <;> simp_all
    · right; right
      rcases h with h | h
      · left; cases hp : F.pixel <;> simp_all
      · right; cases hw : F.world <;> simp_all
  · rintro (⟨k, hp, hk⟩ | ⟨h, hn, hd⟩ | ⟨h, hp⟩ | ⟨h, hw⟩)
    · exact Or.inl (Or.inl ⟨(c, k), ⟨hp, hk⟩, rfl⟩)
    · left; right; simp [hn, hd, h]
    · right; left; simp [hp, h]
    · right; right; simp [hw, h]

theorem none_not_mem_refreshOne (F : Flags) (multi : Bool) (d : DS) : Choice.none ∉ refreshOne F multi d := by
  unfold refreshOne
  simp only [List.mem_append, not_or]
  refine ⟨⟨⟨?_, ?_⟩, ?_⟩, ?_⟩
  · cases multi <;> simp
  · split
    · simp
    · split <;> simp
  · split <;> simp
  · split <;> simp

theorem none_mem_refresh (F : Flags) (ds : List DS) : Choice.none ∈ refresh F ds ↔ F.none = true := by
  unfold refresh
  simp only [List.mem_append, List.mem_flatMap]
  constructor
  · rintro (h | ⟨d, _, hd⟩)
    · cases hn : F.none <;> simp_all
    · exact absurd hd (none_not_mem_refreshOne F _ d)
  · intro h; left; simp [h]

theorem sublist_flatMap {α β : Type} (f g : α → List β) (l : List α) (h : ∀ a, (f a).Sublist (g a)) :
    (l.flatMap f).Sublist (l.flatMap g) := by
  induction l with
  | nil => exact List.Sublist.refl _
  | cons a l ih => simp only [List.flatMap_cons]; exact List.Sublist.append (h a) ih

theorem offeredCids_sublist (F : Flags) (d : DS) : (offeredCids F d).Sublist (allCids d) := by
  unfold offeredCids allCids mainCids derivedCids coordCids
  have h1 : ((d.main.filter fun p => kindOk F p.2).map (·.1)).Sublist (d.main.map (·.1)) :=
    List.Sublist.map _ List.filter_sublist
  have h2 : (if (F.numeric && F.derived) = true then d.derived else []).Sublist d.derived := by
    split
    · exact List.Sublist.refl _
    · exact List.nil_sublist _
  have h3 : (if F.pixel = true then d.pixel else []).Sublist d.pixel := by
    split
    · exact List.Sublist.refl _
    · exact List.nil_sublist _
  have h4 : (if F.world = true then d.world else []).Sublist d.world := by
    split
    · exact List.Sublist.refl _
    · exact List.nil_sublist _
  have := List.Sublist.append (List.Sublist.append h1 h2) (List.Sublist.append h3 h4)
  simpa [List.append_assoc] using this

/-! ## 2. echo's selection rule -/

theorem selectable_selChoice (sel : Option Nat) : selectable (selChoice sel) = true := by
  cases sel <;> rfl

theorem selChoice_toSel {c : Choice} (h : selectable c = true) : selChoice (toSel c) = c := by
  cases c <;> simp_all [selectable, selChoice, toSel]

theorem pyDefault_mem {idx : Int} {xs : List Choice} {c : Choice} (h : pyDefault idx xs = some c) : c ∈ xs := by
  unfold pyDefault at h
  simp only at h
  split at h
  · exact List.mem_of_getElem? h
  · split at h
    · exact List.mem_of_getElem? h
    · split at h
      · exact List.mem_of_getLast? h
      · exact List.mem_of_head? h

theorem pyDefault_none {idx : Int} {xs : List Choice} (h : pyDefault idx xs = none) : xs = [] := by
  cases xs with
  | nil => rfl
  | cons x xs =>
    exfalso
    unfold pyDefault at h
    simp only at h
    split at h
    · rename_i hc
      rw [List.getElem?_eq_none_iff] at h
      omega
    · split at h
      · rename_i hc1 hc
        rw [List.getElem?_eq_none_iff] at h
        simp only [List.length_cons] at h hc
        omega
      · split at h <;> simp at h

/-- **whatever choice list is installed, the resulting selection is valid.** -/
theorem selOk_choicesUpdated (idx : Int) (cs : List Choice) (sel : Option Nat) :
    selOk cs (choicesUpdated idx cs sel) = true := by
  unfold choicesUpdated
  by_cases he : cs.isEmpty = true
  · have : cs = [] := by simpa using he
    subst this
    simp [selOk]
  · simp only [he, Bool.false_eq_true, if_false]
    by_cases hc : cs.contains (selChoice sel) = true
    · simp only [hc, if_true]
      unfold selOk
      have hm : selChoice sel ∈ cs.filter selectable :=
        List.mem_filter.2 ⟨by simpa using hc, selectable_selChoice sel⟩
      have hne : (cs.filter selectable).isEmpty = false := by
        cases hf : cs.filter selectable with
        | nil => rw [hf] at hm; simp at hm
        | cons _ _ => rfl
      simp only [hne, Bool.false_eq_true, if_false]
      exact hc
    · simp only [hc, Bool.false_eq_true, if_false]
      cases hp : pyDefault idx (cs.filter selectable) with
      | none =>
        have := pyDefault_none hp
        simp [selOk, this]
      | some c =>
        have hm := pyDefault_mem hp
        have hsel := (List.mem_filter.1 hm).2
        have hin := (List.mem_filter.1 hm).1
        unfold selOk
        have hne : (cs.filter selectable).isEmpty = false := by
          cases hf : cs.filter selectable with
          | nil => rw [hf] at hm; simp at hm
          | cons _ _ => rfl
        simp only [hne, Bool.false_eq_true, if_false, selChoice_toSel hsel]
        simpa using hin

theorem selOk_select (p : Picker) (v : Option Nat) (h : selOk p.choices p.sel = true)
    (ha : POp.admissible p (.select v) = true) : selOk p.choices (p.select v).1.sel = true ∧
      (p.select v).1.choices = p.choices := by
  cases v with
  | none =>
    refine ⟨?_, rfl⟩
    simp only [Picker.select, selOk]
    simp only [POp.admissible, Bool.or_eq_true] at ha
    by_cases hf : (p.choices.filter selectable).isEmpty = true
    · simp [hf]
    · simp only [hf, Bool.false_eq_true, if_false, selChoice]
      rcases ha with ha | ha
      · exact ha
      · exact absurd ha hf
  | some c =>
    simp only [Picker.select]
    by_cases hc : p.choices.contains (.cid c) = true
    · simp only [hc, if_true, and_true]
      unfold selOk
      have hm : Choice.cid c ∈ p.choices.filter selectable :=
        List.mem_filter.2 ⟨by simpa using hc, rfl⟩
      have hne : (p.choices.filter selectable).isEmpty = false := by
        cases hf : p.choices.filter selectable with
        | nil => rw [hf] at hm; simp at hm
        | cons _ _ => rfl
      simp only [hne, Bool.false_eq_true, if_false, selChoice]
      exact hc
    · simp only [hc, Bool.false_eq_true, if_false, and_true]
      exact h

theorem selOk_step (p : Picker) (op : POp) (h : selOk p.choices p.sel = true)
    (ha : op.admissible p = true) : selOk (p.step op).choices (p.step op).sel = true := by
  cases op with
  | setChoices cs => exact selOk_choicesUpdated p.idx cs p.sel
  | select v =>
    have := selOk_select p v h ha
    simp only [Picker.step]
    rw [this.2]; exact this.1

end GlueVerif.Lemmas.C18Combo
