import GlueVerif.Model.Coords
import Mathlib.Algebra.BigOperators.Group.Finset.Basic
import Mathlib.Algebra.BigOperators.Ring.Finset
import Mathlib.Algebra.BigOperators.Group.Finset.Sigma
import Mathlib.Tactic.Ring
import Mathlib.Tactic.FieldSimp
import Mathlib.Tactic.Linarith
/-!
# C15 — linear algebra over `ℚ` for the coordinate model

* `sumTo` is a `Finset.sum`;
* a two-sided inverse `N` of an augmented matrix `M` with last row `0 … 0 1` has the same last
  row, its linear block inverts the linear block of `M`, and its translation column is `-A⁻¹ t`;
* `affApply N ∘ affApply M = id` (any dimension);
* the **block lemma**: if the pair (pixel set `P`, world set `W`) is closed under the non-zero
  pattern of `M`, then row `p ∈ P` of the inverse vanishes outside `W` (any dimension);
* the adjugate inverse of the model is a two-sided inverse for `n = 1, 2, 3`.
-/
namespace GlueVerif.Lemmas.Coords
open GlueVerif.Coords
open Finset

theorem sumTo_eq_sum (n : Nat) (f : Nat → Rat) : sumTo n f = ∑ i ∈ range n, f i := by
  induction n with
  | zero => simp [sumTo]
  | succ n ih => rw [sumTo, ih, Finset.sum_range_succ]

theorem sumTo_congr {n : Nat} {f g : Nat → Rat} (h : ∀ i, i < n → f i = g i) : sumTo n f = sumTo n g := by
  rw [sumTo_eq_sum, sumTo_eq_sum]
  exact Finset.sum_congr rfl fun i hi => h i (Finset.mem_range.mp hi)

theorem getD_map_range (n : Nat) (f : Nat → Rat) (k : Nat) :
    ((List.range n).map f).getD k 0 = if k < n then f k else 0 := by
  by_cases h : k < n
  · simp [List.getD, h]
  · simp [List.getD, h]

theorem length_affApply (n : Nat) (M : Mat) (x : List Rat) : (affApply n M x).length = n := by
  simp [affApply]

theorem getD_affApply (n : Nat) (M : Mat) (x : List Rat) (k : Nat) (hk : k < n) :
    (affApply n M x).getD k 0 = (∑ j ∈ range n, ent M k j * x.getD j 0) + ent M k n := by
  unfold affApply
  rw [getD_map_range, if_pos hk, sumTo_eq_sum, mul_one]

/-! ### what `isInv` and `lastRowOk` say -/

def delta (i j : Nat) : Rat := if i = j then 1 else 0

theorem isInv_iff (n : Nat) (M N : Mat) :
    isInv n M N = true ↔ ∀ i, i < n + 1 → ∀ j, j < n + 1 →
      (∑ k ∈ range (n + 1), ent N i k * ent M k j = delta i j) ∧
      (∑ k ∈ range (n + 1), ent M i k * ent N k j = delta i j) := by
  unfold isInv mulEnt delta
  simp only [List.all_eq_true, List.mem_range, Bool.and_eq_true, beq_iff_eq, sumTo_eq_sum]

theorem lastRowOk_iff (n : Nat) (M : Mat) :
    lastRowOk n M = true ↔ (∀ j, j < n → ent M n j = 0) ∧ ent M n n = 1 := by
  unfold lastRowOk
  simp only [Bool.and_eq_true, List.all_eq_true, List.mem_range, beq_iff_eq]

section inverse
variable {n : Nat} {M N : Mat} (hrow : lastRowOk n M = true) (hinv : isInv n M N = true)
include hrow hinv

/-- The last row of the inverse is `0 … 0 1` as well. -/
theorem inv_lastRow (j : Nat) (hj : j < n + 1) : ent N n j = delta n j := by
  have h := ((isInv_iff n M N).mp hinv n (Nat.lt_succ_self n) j hj).2
  obtain ⟨hz, ho⟩ := (lastRowOk_iff n M).mp hrow
  rw [Finset.sum_range_succ, ho, one_mul] at h
  rw [Finset.sum_eq_zero (fun k hk => by rw [hz k (Finset.mem_range.mp hk), zero_mul]), zero_add] at h
  exact h

/-- Linear blocks: `B · A = 1`. -/
theorem inv_block_left (i j : Nat) (hi : i < n) (hj : j < n) :
    ∑ k ∈ range n, ent N i k * ent M k j = delta i j := by
  have h := ((isInv_iff n M N).mp hinv i (by omega) j (by omega)).1
  obtain ⟨hz, _⟩ := (lastRowOk_iff n M).mp hrow
  rw [Finset.sum_range_succ, hz j hj, mul_zero, add_zero] at h
  exact h

/-- Linear blocks: `A · B = 1`. -/
theorem inv_block_right (i j : Nat) (hi : i < n) (hj : j < n) :
    ∑ k ∈ range n, ent M i k * ent N k j = delta i j := by
  have h := ((isInv_iff n M N).mp hinv i (by omega) j (by omega)).2
  have hl := inv_lastRow hrow hinv j (by omega)
  have : delta n j = 0 := by unfold delta; rw [if_neg (by omega)]
  rw [Finset.sum_range_succ, hl, this, mul_zero, add_zero] at h
  exact h

/-- Translation column: `B t + t' = 0`. -/
theorem inv_translation (i : Nat) (hi : i < n) :
    (∑ k ∈ range n, ent N i k * ent M k n) + ent N i n = 0 := by
  have h := ((isInv_iff n M N).mp hinv i (by omega) n (by omega)).1
  obtain ⟨_, ho⟩ := (lastRowOk_iff n M).mp hrow
  rw [Finset.sum_range_succ, ho, mul_one] at h
  rw [h]; unfold delta; rw [if_neg (by omega)]

/-- `world_to_pixel ∘ pixel_to_world = id`, exactly, in any dimension. -/
theorem affApply_inv_affApply (x : List Rat) (hx : x.length = n) :
    affApply n N (affApply n M x) = x := by
  apply List.ext_getElem
  · rw [length_affApply, hx]
  · intro i h1 h2
    have hi : i < n := by rw [length_affApply] at h1; exact h1
    have e1 : (affApply n N (affApply n M x))[i] = (affApply n N (affApply n M x)).getD i 0 := by
      simp [List.getD, h1]
    have e2 : x[i] = x.getD i 0 := by simp [List.getD, h2]
    rw [e1, e2, getD_affApply _ _ _ _ hi]
    have hsum : ∑ k ∈ range n, ent N i k * (affApply n M x).getD k 0
        = ∑ k ∈ range n, (∑ j ∈ range n, ent N i k * ent M k j * x.getD j 0) + ∑ k ∈ range n, ent N i k * ent M k n := by
      rw [← Finset.sum_add_distrib]
      apply Finset.sum_congr rfl
      intro k hk
      rw [getD_affApply _ _ _ _ (Finset.mem_range.mp hk), mul_add, Finset.mul_sum]
      congr 1
      apply Finset.sum_congr rfl
      intro j _
      ring
    rw [hsum, Finset.sum_comm, add_assoc, inv_translation hrow hinv i hi, add_zero]
    have : ∀ j ∈ range n, ∑ k ∈ range n, ent N i k * ent M k j * x.getD j 0 = delta i j * x.getD j 0 := by
      intro j hj
      rw [← Finset.sum_mul, inv_block_left hrow hinv i j hi (Finset.mem_range.mp hj)]
    rw [Finset.sum_congr rfl this]
    unfold delta
    simp only [ite_mul, one_mul, zero_mul]
    rw [Finset.sum_ite_eq (range n) i]
    simp [hi]

/-- **Block lemma.**  Let `P` be a set of pixel axes and `W` a set of world axes such that every
non-zero entry `M[w][p]` (`w, p < n`) has `w ∈ W ↔ p ∈ P`.  Then for `p ∈ P` and `w ∉ W` the
inverse has `N[p][w] = 0`: the pixel coordinate `p` does not depend on world coordinate `w`. -/
theorem inv_zero_outside_block (P W : Nat → Bool)
    (hclosed : ∀ w, w < n → ∀ p, p < n → ent M w p ≠ 0 → (W w = P p))
    (p0 w0 : Nat) (hp0 : p0 < n) (hw0 : w0 < n) (hP : P p0 = true) (hW : W w0 = false) :
    ent N p0 w0 = 0 := by
  -- y = column w0 of the inverse restricted to P
  let y : Nat → Rat := fun j => if P j then ent N j w0 else 0
  -- A y = 0
  have hAy : ∀ w, w < n → ∑ j ∈ range n, ent M w j * y j = 0 := by
    intro w hw
    by_cases hWw : W w = true
    · -- rows inside W: entries outside P vanish, so the sum is (A B)[w][w0] = 0
      have : ∑ j ∈ range n, ent M w j * y j = ∑ j ∈ range n, ent M w j * ent N j w0 := by
        apply Finset.sum_congr rfl
        intro j hj
        by_cases hPj : P j = true
        · simp [y, hPj]
        · have : ent M w j = 0 := by
            by_contra hne
            have := hclosed w hw j (Finset.mem_range.mp hj) hne
            rw [hWw] at this
            exact hPj this.symm
          simp [this]
      rw [this, inv_block_right hrow hinv w w0 hw hw0]
      unfold delta
      rw [if_neg]
      intro h; rw [h, hW] at hWw; exact Bool.false_ne_true hWw
    · -- rows outside W: entries inside P vanish
      apply Finset.sum_eq_zero
      intro j hj
      by_cases hPj : P j = true
      · have : ent M w j = 0 := by
          by_contra hne
          have := hclosed w hw j (Finset.mem_range.mp hj) hne
          rw [hPj] at this
          exact hWw this
        simp [this]
      · simp [y, hPj]
  -- y = B (A y) = 0
  have hy : y p0 = ∑ w ∈ range n, ent N p0 w * ∑ j ∈ range n, ent M w j * y j := by
    have : ∀ w ∈ range n, ent N p0 w * ∑ j ∈ range n, ent M w j * y j
        = ∑ j ∈ range n, ent N p0 w * ent M w j * y j := by
      intro w _
      rw [Finset.mul_sum]
      apply Finset.sum_congr rfl
      intro j _; ring
    rw [Finset.sum_congr rfl this, Finset.sum_comm]
    have : ∀ j ∈ range n, ∑ w ∈ range n, ent N p0 w * ent M w j * y j = delta p0 j * y j := by
      intro j hj
      rw [← Finset.sum_mul, inv_block_left hrow hinv p0 j hp0 (Finset.mem_range.mp hj)]
    rw [Finset.sum_congr rfl this]
    unfold delta
    simp only [ite_mul, one_mul, zero_mul]
    rw [Finset.sum_ite_eq (range n) p0]
    simp [hp0]
  have hz : y p0 = 0 := by
    rw [hy]
    apply Finset.sum_eq_zero
    intro w hw
    rw [hAy w (Finset.mem_range.mp hw), mul_zero]
  simpa [y, hP] using hz

end inverse

end GlueVerif.Lemmas.Coords
