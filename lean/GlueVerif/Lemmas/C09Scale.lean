import GlueVerif.Lemmas.C09Affine
import GlueVerif.Lemmas.C09Dispatch
/-!
Helper lemmas for C09: changing the units / zero point of a numeric axis (`v ↦ a·v + b`, `a > 0`).

Containment, the boundary, the plotted position and the scope predicate commute with rescaling the
numeric axis of region and data alike — for polygons (matplotlib's crossing rule is literally
invariant: both sides of its product comparison are multiplied by `a`), ranges, and rectangles /
ellipses with `θ ≡ 0 (mod π)`.  Used by `Props/C09: selection_scale_equivariant` and by the driver
(band of inexact paths evaluated in coordinates normalised to the region's extent).
-/
namespace GlueVerif.C09.Lemmas
open GlueVerif.ArrayUtil

theorem aff_lt {a : Rat} (ha : 0 < a) (b u v : Rat) : a * u + b < a * v + b ↔ u < v := by
  constructor <;> intro h <;> nlinarith

theorem aff_le {a : Rat} (ha : 0 < a) (b u v : Rat) : a * u + b ≤ a * v + b ↔ u ≤ v := by
  constructor <;> intro h <;> nlinarith

theorem aff_eq {a : Rat} (ha : 0 < a) (b u v : Rat) : a * u + b = a * v + b ↔ u = v := by
  constructor
  · intro h
    exact le_antisymm ((aff_le ha b u v).mp (le_of_eq h)) ((aff_le ha b v u).mp (le_of_eq h.symm))
  · rintro rfl; rfl

theorem pmul_lt {a : Rat} (ha : 0 < a) (u v : Rat) : a * u < a * v ↔ u < v := by
  constructor <;> intro h <;> nlinarith

theorem pmul_le {a : Rat} (ha : 0 < a) (u v : Rat) : a * u ≤ a * v ↔ u ≤ v := by
  constructor <;> intro h <;> nlinarith

theorem pmul_eq {a : Rat} (ha : 0 < a) (u v : Rat) : a * u = a * v ↔ u = v := by
  constructor
  · intro h
    exact le_antisymm ((pmul_le ha u v).mp (le_of_eq h)) ((pmul_le ha v u).mp (le_of_eq h.symm))
  · rintro rfl; rfl

theorem absQ_pmul {a : Rat} (ha : 0 < a) (t : Rat) : absQ (a * t) = a * absQ t := by
  unfold absQ
  by_cases ht : t < 0
  · have : a * t < 0 := by nlinarith
    simp [ht, this]
  · have : ¬ a * t < 0 := by
      intro h; apply ht; nlinarith
    simp [ht, this]

/-! ### the crossing rule and the boundary of a polygon -/

theorem crossH_rescale (ax : Ori) {a : Rat} (ha : 0 < a) (b : Rat) (p q r : Pt) :
    crossH (p.rescale ax a b) (q.rescale ax a b) (r.rescale ax a b) = crossH p q r := by
  cases ax
  · unfold crossH Pt.rescale
    simp only
    have e3 : decide ((q.y - r.y) * (a * p.x + b - (a * q.x + b)) ≥ (a * q.x + b - (a * r.x + b)) * (p.y - q.y)) =
        decide ((q.y - r.y) * (p.x - q.x) ≥ (q.x - r.x) * (p.y - q.y)) := by
      have l : (q.y - r.y) * (a * p.x + b - (a * q.x + b)) = a * ((q.y - r.y) * (p.x - q.x)) := by ring
      have r' : (a * q.x + b - (a * r.x + b)) * (p.y - q.y) = a * ((q.x - r.x) * (p.y - q.y)) := by ring
      exact decide_congr (by rw [ge_iff_le, ge_iff_le, l, r']; exact pmul_le ha _ _)
    rw [e3]
  · unfold crossH Pt.rescale
    simp only
    have e1 : decide (a * p.y + b ≥ a * r.y + b) = decide (p.y ≥ r.y) := decide_congr (aff_le ha b _ _)
    have e2 : decide (a * q.y + b ≥ a * r.y + b) = decide (q.y ≥ r.y) := decide_congr (aff_le ha b _ _)
    have e3 : decide ((a * q.y + b - (a * r.y + b)) * (p.x - q.x) ≥ (q.x - r.x) * (a * p.y + b - (a * q.y + b))) =
        decide ((q.y - r.y) * (p.x - q.x) ≥ (q.x - r.x) * (p.y - q.y)) := by
      have l : (a * q.y + b - (a * r.y + b)) * (p.x - q.x) = a * ((q.y - r.y) * (p.x - q.x)) := by ring
      have r' : (q.x - r.x) * (a * p.y + b - (a * q.y + b)) = a * ((q.x - r.x) * (p.y - q.y)) := by ring
      exact decide_congr (by rw [ge_iff_le, ge_iff_le, l, r']; exact pmul_le ha _ _)
    rw [e1, e2, e3]

theorem evenOdd_rescale (ax : Ori) {a : Rat} (ha : 0 < a) (b : Rat) (vs : List Pt) (p : Pt) :
    evenOdd (vs.map (Pt.rescale ax a b)) (p.rescale ax a b) = evenOdd vs p :=
  evenOdd_map_exact (Pt.rescale ax a b) (crossH_rescale ax ha b) vs p

theorem rescale_affine (ax : Ori) (a b : Rat) (u v p : Pt) (t : Rat) (hx : p.x = u.x + t * (v.x - u.x))
    (hy : p.y = u.y + t * (v.y - u.y)) :
    (p.rescale ax a b).x = (u.rescale ax a b).x + t * ((v.rescale ax a b).x - (u.rescale ax a b).x) ∧
    (p.rescale ax a b).y = (u.rescale ax a b).y + t * ((v.rescale ax a b).y - (u.rescale ax a b).y) := by
  cases ax <;> unfold Pt.rescale <;> simp only <;> rw [hx, hy] <;> constructor <;> ring

theorem rescale_inv (ax : Ori) {a : Rat} (ha : a ≠ 0) (b : Rat) (p : Pt) :
    (p.rescale ax a b).rescale ax (1 / a) (-b / a) = p := by
  cases p
  cases ax <;> unfold Pt.rescale <;> simp only [Pt.mk.injEq, and_true, true_and] <;> field_simp <;> ring

theorem onSeg_rescale (ax : Ori) {a : Rat} (ha : 0 < a) (b : Rat) (u v p : Pt) :
    onSeg (u.rescale ax a b) (v.rescale ax a b) (p.rescale ax a b) = onSeg u v p := by
  rw [Bool.eq_iff_iff]
  constructor
  · intro h
    have := onSeg_map_affine (Pt.rescale ax (1 / a) (-b / a)) (rescale_affine ax (1 / a) (-b / a)) _ _ _ h
    rw [rescale_inv ax (ne_of_gt ha) b, rescale_inv ax (ne_of_gt ha) b, rescale_inv ax (ne_of_gt ha) b] at this
    exact this
  · exact onSeg_map_affine (Pt.rescale ax a b) (rescale_affine ax a b) u v p

theorem onPolyBoundary_rescale (ax : Ori) {a : Rat} (ha : 0 < a) (b : Rat) (vs : List Pt) (p : Pt) :
    onPolyBoundary (vs.map (Pt.rescale ax a b)) (p.rescale ax a b) = onPolyBoundary vs p :=
  onPolyBoundary_map (Pt.rescale ax a b) (onSeg_rescale ax ha b) vs p

/-! ### rectangles and ellipses with `θ ≡ 0 (mod π)` -/

theorem unrot_rescale_x (a b cx cy c : Rat) (p : Pt) :
    unrot (a * cx + b) cy c 0 (p.rescale .x a b) = ⟨a * (unrot cx cy c 0 p).x, (unrot cx cy c 0 p).y⟩ := by
  unfold unrot Pt.rescale
  simp only [Pt.mk.injEq]
  constructor <;> ring

theorem unrot_rescale_y (a b cx cy c : Rat) (p : Pt) :
    unrot cx (a * cy + b) c 0 (p.rescale .y a b) = ⟨(unrot cx cy c 0 p).x, a * (unrot cx cy c 0 p).y⟩ := by
  unfold unrot Pt.rescale
  simp only [Pt.mk.injEq]
  constructor <;> ring

theorem mid_aff (a b u v : Rat) : (a * u + b + (a * v + b)) / 2 = a * ((u + v) / 2) + b := by ring

theorem half_aff (a b u v : Rat) : (a * v + b - (a * u + b)) / 2 = a * ((v - u) / 2) := by ring

/-! ### containment and boundary of a region -/

theorem roiContains_rescale (ax : Ori) {a : Rat} (ha : 0 < a) (b : Rat) (r : Roi)
    (hr : r.axisAligned = true) (p : Pt) :
    roiContains (r.rescale ax a b) (p.rescale ax a b) = roiContains r p := by
  cases r with
  | range ori lo hi =>
    cases ori <;> cases ax <;>
      simp [Roi.rescale, roiContains, Pt.rescale, aff_lt ha]
  | rect xmin xmax ymin ymax c s =>
    have hs : s = 0 := by
      simp only [Roi.axisAligned, Bool.and_eq_true, decide_eq_true_eq] at hr; exact hr.1
    subst hs
    cases ax
    · simp only [Roi.rescale, roiContains, mid_aff, half_aff, unrot_rescale_x, absQ_pmul ha]
      rw [decide_congr (pmul_lt ha _ _)]
    · simp only [Roi.rescale, roiContains, mid_aff, half_aff, unrot_rescale_y, absQ_pmul ha]
      rw [decide_congr (pmul_lt ha _ _)]
  | circle _ _ _ => simp [Roi.axisAligned] at hr
  | ellipse xc yc rx ry c s =>
    have hs : s = 0 := by
      simp only [Roi.axisAligned, Bool.and_eq_true, decide_eq_true_eq] at hr; exact hr.1
    subst hs
    have haa : 0 < a * a := by nlinarith
    cases ax
    · simp only [Roi.rescale, roiContains, unrot_rescale_x]
      apply decide_congr
      generalize unrot xc yc c 0 p = q
      have l : a * q.x * (a * q.x) * (ry * ry) + q.y * q.y * (a * rx * (a * rx)) =
          (a * a) * (q.x * q.x * (ry * ry) + q.y * q.y * (rx * rx)) := by ring
      have r' : a * rx * (a * rx) * (ry * ry) = (a * a) * (rx * rx * (ry * ry)) := by ring
      rw [l, r']
      exact pmul_lt haa _ _
    · simp only [Roi.rescale, roiContains, unrot_rescale_y]
      apply decide_congr
      generalize unrot xc yc c 0 p = q
      have l : q.x * q.x * (a * ry * (a * ry)) + a * q.y * (a * q.y) * (rx * rx) =
          (a * a) * (q.x * q.x * (ry * ry) + q.y * q.y * (rx * rx)) := by ring
      have r' : rx * rx * (a * ry * (a * ry)) = (a * a) * (rx * rx * (ry * ry)) := by ring
      rw [l, r']
      exact pmul_lt haa _ _
  | poly vs => exact evenOdd_rescale ax ha b vs p
  | categorical _ => rfl

theorem onBoundary_rescale (ax : Ori) {a : Rat} (ha : 0 < a) (b : Rat) (r : Roi)
    (hr : r.axisAligned = true) (p : Pt) :
    onBoundary (r.rescale ax a b) (p.rescale ax a b) = onBoundary r p := by
  cases r with
  | range ori lo hi =>
    cases ori <;> cases ax <;>
      simp [Roi.rescale, onBoundary, Pt.rescale, aff_eq ha]
  | rect xmin xmax ymin ymax c s =>
    have hs : s = 0 := by
      simp only [Roi.axisAligned, Bool.and_eq_true, decide_eq_true_eq] at hr; exact hr.1
    subst hs
    cases ax
    · simp only [Roi.rescale, onBoundary, mid_aff, half_aff, unrot_rescale_x, absQ_pmul ha]
      rw [decide_congr (pmul_eq ha _ _), decide_congr (pmul_le ha _ _)]
    · simp only [Roi.rescale, onBoundary, mid_aff, half_aff, unrot_rescale_y, absQ_pmul ha]
      rw [decide_congr (pmul_eq ha _ _), decide_congr (pmul_le ha _ _)]
  | circle _ _ _ => simp [Roi.axisAligned] at hr
  | ellipse xc yc rx ry c s =>
    have hs : s = 0 := by
      simp only [Roi.axisAligned, Bool.and_eq_true, decide_eq_true_eq] at hr; exact hr.1
    subst hs
    have haa : 0 < a * a := by nlinarith
    cases ax
    · simp only [Roi.rescale, onBoundary, unrot_rescale_x]
      apply decide_congr
      generalize unrot xc yc c 0 p = q
      have l : a * q.x * (a * q.x) * (ry * ry) + q.y * q.y * (a * rx * (a * rx)) =
          (a * a) * (q.x * q.x * (ry * ry) + q.y * q.y * (rx * rx)) := by ring
      have r' : a * rx * (a * rx) * (ry * ry) = (a * a) * (rx * rx * (ry * ry)) := by ring
      rw [l, r']
      exact pmul_eq haa _ _
    · simp only [Roi.rescale, onBoundary, unrot_rescale_y]
      apply decide_congr
      generalize unrot xc yc c 0 p = q
      have l : q.x * q.x * (a * ry * (a * ry)) + a * q.y * (a * q.y) * (rx * rx) =
          (a * a) * (q.x * q.x * (ry * ry) + q.y * q.y * (rx * rx)) := by ring
      have r' : rx * rx * (a * ry * (a * ry)) = (a * a) * (rx * rx * (ry * ry)) := by ring
      rw [l, r']
      exact pmul_eq haa _ _
  | poly vs => exact onPolyBoundary_rescale ax ha b vs p
  | categorical _ => rfl

/-! ### the plotted position of a rescaled element -/

/-- The cats of the rescaled axis. -/
def axisCats (ax : Ori) (xc yc : Option (List Int)) : Option (List Int) :=
  match ax with
  | .x => xc
  | .y => yc

theorem plotCoord_rescale (a b : Rat) (v : Val) :
    plotCoord none (v.rescale a b) = (plotCoord none v).map fun q => a * q + b := by
  cases v with
  | num q => cases q <;> rfl
  | lab _ => rfl

theorem plotPos_rescale (ax : Ori) (a b : Rat) (xc yc : Option (List Int))
    (hnum : axisCats ax xc yc = none) (e : Elem) :
    plotPos xc yc (e.rescale ax a b) = (plotPos xc yc e).map (Pt.rescale ax a b) := by
  cases ax
  · simp only [axisCats] at hnum
    subst hnum
    simp only [plotPos, Elem.rescale, plotCoord_rescale]
    cases plotCoord none e.x <;> cases plotCoord yc e.y <;> rfl
  · simp only [axisCats] at hnum
    subst hnum
    simp only [plotPos, Elem.rescale, plotCoord_rescale]
    cases plotCoord xc e.x <;> cases plotCoord none e.y <;> rfl

theorem specSelected_rescale (ax : Ori) {a : Rat} (ha : 0 < a) (b : Rat) (r : Roi)
    (hr : r.axisAligned = true) (xc yc : Option (List Int)) (hnum : axisCats ax xc yc = none) (e : Elem) :
    specSelected (r.rescale ax a b) xc yc none (e.rescale ax a b) = specSelected r xc yc none e := by
  cases r with
  | categorical labels =>
    obtain ⟨ex, ey⟩ := e
    cases ax <;> cases ex with
    | num q => cases q <;> rfl
    | lab _ => rfl
  | range ori lo hi =>
    obtain ⟨ex, ey⟩ := e
    cases ori <;> cases ax <;> simp only [axisCats] at hnum <;> subst hnum <;>
      simp only [Roi.rescale, specSelected, specPoint, Elem.rescale, plotCoord_rescale, if_true, reduceCtorEq, if_false] <;>
      first
        | rfl
        | (generalize plotCoord none ex = o; cases o <;> simp [roiContains, aff_lt ha]; done)
        | (generalize plotCoord none ey = o; cases o <;> simp [roiContains, aff_lt ha]; done)
  | rect xmin xmax ymin ymax c s =>
    have key := roiContains_rescale ax ha b (.rect xmin xmax ymin ymax c s) hr
    have hp := plotPos_rescale ax a b xc yc hnum e
    cases ax <;>
      simp only [Roi.rescale, specSelected, specPoint, hp, Option.map_map] at key ⊢ <;>
      cases plotPos xc yc e <;> simp [applyPre, key]
  | circle _ _ _ => simp [Roi.axisAligned] at hr
  | ellipse xc' yc' rx ry c s =>
    have key := roiContains_rescale ax ha b (.ellipse xc' yc' rx ry c s) hr
    have hp := plotPos_rescale ax a b xc yc hnum e
    cases ax <;>
      simp only [Roi.rescale, specSelected, specPoint, hp, Option.map_map] at key ⊢ <;>
      cases plotPos xc yc e <;> simp [applyPre, key]
  | poly vs =>
    have key := roiContains_rescale ax ha b (.poly vs) hr
    have hp := plotPos_rescale ax a b xc yc hnum e
    simp only [Roi.rescale, specSelected, specPoint, hp, Option.map_map] at key ⊢
    cases plotPos xc yc e <;> simp [applyPre, key]

theorem specOnBoundary_rescale (ax : Ori) {a : Rat} (ha : 0 < a) (b : Rat) (r : Roi)
    (hr : r.axisAligned = true) (xc yc : Option (List Int)) (hnum : axisCats ax xc yc = none) (e : Elem) :
    specOnBoundary (r.rescale ax a b) xc yc none (e.rescale ax a b) = specOnBoundary r xc yc none e := by
  cases r with
  | categorical labels =>
    have hp := plotPos_rescale ax a b xc yc hnum e
    simp only [Roi.rescale, specOnBoundary, specPoint, hp]
    cases plotPos xc yc e <;> simp [onBoundary]
  | range ori lo hi =>
    obtain ⟨ex, ey⟩ := e
    cases ori <;> cases ax <;> simp only [axisCats] at hnum <;> subst hnum <;>
      simp only [Roi.rescale, specOnBoundary, specPoint, Elem.rescale, plotCoord_rescale, if_true, reduceCtorEq, if_false] <;>
      first
        | rfl
        | (generalize plotCoord none ex = o; cases o <;> simp [onBoundary, aff_eq ha]; done)
        | (generalize plotCoord none ey = o; cases o <;> simp [onBoundary, aff_eq ha]; done)
  | rect xmin xmax ymin ymax c s =>
    have key := onBoundary_rescale ax ha b (.rect xmin xmax ymin ymax c s) hr
    have hp := plotPos_rescale ax a b xc yc hnum e
    cases ax <;>
      simp only [Roi.rescale, specOnBoundary, specPoint, hp, Option.map_map] at key ⊢ <;>
      cases plotPos xc yc e <;> simp [applyPre, key]
  | circle _ _ _ => simp [Roi.axisAligned] at hr
  | ellipse xc' yc' rx ry c s =>
    have key := onBoundary_rescale ax ha b (.ellipse xc' yc' rx ry c s) hr
    have hp := plotPos_rescale ax a b xc yc hnum e
    cases ax <;>
      simp only [Roi.rescale, specOnBoundary, specPoint, hp, Option.map_map] at key ⊢ <;>
      cases plotPos xc yc e <;> simp [applyPre, key]
  | poly vs =>
    have key := onBoundary_rescale ax ha b (.poly vs) hr
    have hp := plotPos_rescale ax a b xc yc hnum e
    simp only [Roi.rescale, specOnBoundary, specPoint, hp, Option.map_map] at key ⊢
    cases plotPos xc yc e <;> simp [applyPre, key]

/-! ### the scope predicate -/

theorem valOk_rescale (cats : Option (List Int)) (a b : Rat) (v : Val) :
    valOk cats (v.rescale a b) = valOk cats v := by
  cases v with
  | num q => cases q <;> rfl
  | lab _ => rfl

theorem inScope_rescale (ax : Ori) {a : Rat} (ha : 0 < a) (b : Rat) (r : Roi)
    (xc yc : Option (List Int)) (usePre : Bool) (e : Elem) :
    inScope (r.rescale ax a b) xc yc usePre none (e.rescale ax a b) = inScope r xc yc usePre none e := by
  have h1 : valOk xc (e.rescale ax a b).x = valOk xc e.x := by
    cases ax <;> simp [Elem.rescale, valOk_rescale]
  have h2 : valOk yc (e.rescale ax a b).y = valOk yc e.y := by
    cases ax <;> simp [Elem.rescale, valOk_rescale]
  have h3 : (r.rescale ax a b).unitOk = r.unitOk := by
    cases r with
    | range ori lo hi => cases ori <;> cases ax <;> simp [Roi.rescale, Roi.unitOk]
    | _ => cases ax <;> simp [Roi.rescale, Roi.unitOk]
  have h4 : (r.rescale ax a b).isCategorical = r.isCategorical := by
    cases r with
    | range ori lo hi => cases ori <;> cases ax <;> simp [Roi.rescale, Roi.isCategorical]
    | _ => cases ax <;> simp [Roi.rescale, Roi.isCategorical]
  have h5 : isPolygonLike (r.rescale ax a b) usePre = isPolygonLike r usePre := by
    cases r with
    | range ori lo hi => cases ori <;> cases ax <;> simp [Roi.rescale, isPolygonLike]
    | _ => cases ax <;> simp [Roi.rescale, isPolygonLike]
  have h6 : (r.rescale ax a b).isPoly = r.isPoly := by
    cases r with
    | range ori lo hi => cases ori <;> cases ax <;> simp [Roi.rescale, Roi.isPoly]
    | _ => cases ax <;> simp [Roi.rescale, Roi.isPoly]
  have h7 : (r.rescale ax a b).isOrderedRect = r.isOrderedRect := by
    cases r with
    | range ori lo hi => cases ori <;> cases ax <;> simp [Roi.rescale, Roi.isOrderedRect, aff_le ha]
    | _ => cases ax <;> simp [Roi.rescale, Roi.isOrderedRect, aff_le ha]
  simp only [inScope, h1, h2, h3, h4, h5, h6, h7]

end GlueVerif.C09.Lemmas
