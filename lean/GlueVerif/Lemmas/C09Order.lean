import GlueVerif.Lemmas.C09Dispatch
/-! Helper lemmas for C09: category lists in any order — the selection is a function of the plotted
positions only, and `from_range` on an arbitrary (unsorted, possibly duplicated) list. -/
namespace GlueVerif.C09.Lemmas
open GlueVerif.ArrayUtil GlueVerif.Lemmas

/-- What well-kindedness + equal plotted coordinate say about one axis of two (region-sharing)
situations: both numeric with the same value, or both categorical with labels at the same position of
their (duplicate-free, arbitrarily ordered) category lists. -/
theorem axis_facts (c c' : Option (List Int)) (v v' : Val)
    (hc : catsOk c = true) (hc' : catsOk c' = true) (hk : c.isSome = c'.isSome)
    (hv : valOk c v = true) (hv' : valOk c' v' = true) (hp : plotCoord c v = plotCoord c' v') :
    (c = none ∧ c' = none ∧ ∃ q, v = .num q ∧ v' = .num q) ∨
    (∃ cs cs' l l', c = some cs ∧ c' = some cs' ∧ v = .lab l ∧ v' = .lab l' ∧
      noDup cs = true ∧ noDup cs' = true ∧ l ∈ cs ∧ l' ∈ cs' ∧ pos l cs = pos l' cs') := by
  cases c with
  | none =>
    cases c' with
    | some _ => simp at hk
    | none =>
      left
      cases v with
      | lab _ => simp [valOk] at hv
      | num q =>
        cases v' with
        | lab _ => simp [valOk] at hv'
        | num q' =>
          simp only [plotCoord] at hp
          exact ⟨rfl, rfl, q, rfl, by rw [hp]⟩
  | some cs =>
    cases c' with
    | none => simp at hk
    | some cs' =>
      right
      cases v with
      | num _ => simp [valOk] at hv
      | lab l =>
        cases v' with
        | num _ => simp [valOk] at hv'
        | lab l' =>
          simp only [plotCoord, Option.some.injEq] at hp
          exact ⟨cs, cs', l, l', rfl, rfl, rfl, rfl, hc, hc',
            mem_of_contains (by simpa [valOk] using hv), mem_of_contains (by simpa [valOk] using hv'), hp⟩

/-- One range (a `RangeROI`, or one half of an unrotated rectangle) on one axis. -/
theorem mask_rangeToState_pos (pre : Option Affine) (ori : Ori) (lo hi : Rat) (c c' : Option (List Int))
    (e e' : Elem)
    (h : (c = none ∧ c' = none ∧ ∃ q, e.get ori = .num q ∧ e'.get ori = .num q) ∨
      (∃ cs cs' l l', c = some cs ∧ c' = some cs' ∧ e.get ori = .lab l ∧ e'.get ori = .lab l' ∧
        noDup cs = true ∧ noDup cs' = true ∧ l ∈ cs ∧ l' ∈ cs' ∧ pos l cs = pos l' cs')) :
    mask pre (rangeToState ori lo hi c) e = mask pre (rangeToState ori lo hi c') e' := by
  rcases h with ⟨rfl, rfl, q, h1, h2⟩ | ⟨cs, cs', l, l', rfl, rfl, h1, h2, n1, n2, m1, m2, hp⟩
  · simp only [rangeToState, mask, h1, h2]
  · simp only [rangeToState]
    rw [mask_catRange pre cs n1 lo hi ori e l h1 m1, mask_catRange pre cs' n2 lo hi ori e' l' h2 m2, hp]

/-- The polygon-like branches. -/
theorem mask_polygonLike_pos (pre : Option Affine) (r : Roi) (xc yc xc' yc' : Option (List Int))
    (ex ey ex' ey' : Val)
    (hx : (xc = none ∧ xc' = none ∧ ∃ q, ex = .num q ∧ ex' = .num q) ∨
      (∃ cs cs' l l', xc = some cs ∧ xc' = some cs' ∧ ex = .lab l ∧ ex' = .lab l' ∧
        noDup cs = true ∧ noDup cs' = true ∧ l ∈ cs ∧ l' ∈ cs' ∧ pos l cs = pos l' cs'))
    (hy : (yc = none ∧ yc' = none ∧ ∃ q, ey = .num q ∧ ey' = .num q) ∨
      (∃ cs cs' l l', yc = some cs ∧ yc' = some cs' ∧ ey = .lab l ∧ ey' = .lab l' ∧
        noDup cs = true ∧ noDup cs' = true ∧ l ∈ cs ∧ l' ∈ cs' ∧ pos l cs = pos l' cs')) :
    mask pre (polygonLike r xc yc) ⟨ex, ey⟩ = mask pre (polygonLike r xc' yc') ⟨ex', ey'⟩ := by
  rcases hx with ⟨rfl, rfl, qx, rfl, rfl⟩ | ⟨xs, xs', lx, lx', rfl, rfl, rfl, rfl, nx, nx', mx, mx', hpx⟩ <;>
  rcases hy with ⟨rfl, rfl, qy, rfl, rfl⟩ | ⟨ys, ys', ly, ly', rfl, rfl, rfl, rfl, ny, ny', my, my', hpy⟩
  · rfl
  · simp only [polygonLike]
    cases qx with
    | none => rw [mask_catMulti_nan pre _ .y .x _ rfl, mask_catMulti_nan pre _ .y .x _ rfl]
    | some v =>
      rw [mask_catMulti pre _ ys ny .y .x _ ly v rfl rfl my, mask_catMulti pre _ ys' ny' .y .x _ ly' v rfl rfl my', hpy]
  · simp only [polygonLike]
    cases qy with
    | none => rw [mask_catMulti_nan pre _ .x .y _ rfl, mask_catMulti_nan pre _ .x .y _ rfl]
    | some v =>
      rw [mask_catMulti pre _ xs nx .x .y _ lx v rfl rfl mx, mask_catMulti pre _ xs' nx' .x .y _ lx' v rfl rfl mx', hpx]
  · simp only [polygonLike]
    rw [mask_cat2d pre r xs ys nx ny lx ly mx my, mask_cat2d pre r xs' ys' nx' ny' lx' ly' mx' my', hpx, hpy]

/-- **The selection is a function of the plotted positions only.**  Two situations with the same
region: same axis kinds, duplicate-free category lists in *any* order (possibly different lists,
different labels), elements with the same plotted coordinates ⇒ same mask value.  Holds on the
boundary too.  (A `CategoricalROI` selects labels, not positions, and is excluded.) -/
theorem mask_positions_only (r : Roi) (hr : r.isCategorical = false)
    (xc yc xc' yc' : Option (List Int)) (usePre : Bool) (pre : Option Affine) (e e' : Elem)
    (hcx : catsOk xc = true) (hcy : catsOk yc = true) (hcx' : catsOk xc' = true) (hcy' : catsOk yc' = true)
    (hkx : xc.isSome = xc'.isSome) (hky : yc.isSome = yc'.isSome)
    (hvx : valOk xc e.x = true) (hvy : valOk yc e.y = true)
    (hvx' : valOk xc' e'.x = true) (hvy' : valOk yc' e'.y = true)
    (hpx : plotCoord xc e.x = plotCoord xc' e'.x) (hpy : plotCoord yc e.y = plotCoord yc' e'.y) :
    mask pre (roiToState r xc yc usePre) e = mask pre (roiToState r xc' yc' usePre) e' := by
  obtain ⟨ex, ey⟩ := e
  obtain ⟨ex', ey'⟩ := e'
  have HX := axis_facts xc xc' ex ex' hcx hcx' hkx hvx hvx' hpx
  have HY := axis_facts yc yc' ey ey' hcy hcy' hky hvy hvy' hpy
  have hany : (xc.isSome || yc.isSome) = (xc'.isSome || yc'.isSome) := by rw [hkx, hky]
  have hnum : (xc.isSome || yc.isSome) = false → (⟨ex, ey⟩ : Elem) = ⟨ex', ey'⟩ := by
    intro h
    simp only [Bool.or_eq_false_iff, Option.isSome_eq_false_iff, Option.isNone_iff_eq_none] at h
    rcases HX with ⟨_, _, qx, rfl, rfl⟩ | ⟨_, _, _, _, h1, _⟩
    · rcases HY with ⟨_, _, qy, rfl, rfl⟩ | ⟨_, _, _, _, h1, _⟩
      · rfl
      · rw [h.2] at h1; cases h1
    · rw [h.1] at h1; cases h1
  have hpoly : mask pre (polygonLike r xc yc) ⟨ex, ey⟩ = mask pre (polygonLike r xc' yc') ⟨ex', ey'⟩ :=
    mask_polygonLike_pos pre r xc yc xc' yc' ex ey ex' ey' HX HY
  cases r with
  | categorical _ => simp [Roi.isCategorical] at hr
  | range ori lo hi =>
    cases usePre with
    | false =>
      cases ori
      · simp only [roiToState]; exact mask_rangeToState_pos pre .x lo hi xc xc' _ _ HX
      · simp only [roiToState]; exact mask_rangeToState_pos pre .y lo hi yc yc' _ _ HY
    | true =>
      cases ori <;> simp only [roiToState, ← hany] <;> split
      · exact hpoly
      · rename_i h; rw [hnum (by simpa using h)]
      · exact hpoly
      · rename_i h; rw [hnum (by simpa using h)]
  | rect xmin xmax ymin ymax c s =>
    simp only [roiToState, ← hany]
    split
    · split
      · simp only [mask_and]
        rw [mask_rangeToState_pos pre .x xmin xmax xc xc' ⟨ex, ey⟩ ⟨ex', ey'⟩ HX,
          mask_rangeToState_pos pre .y ymin ymax yc yc' ⟨ex, ey⟩ ⟨ex', ey'⟩ HY]
      · exact hpoly
    · rename_i h; rw [hnum (by simpa using h)]
  | circle _ _ _ | ellipse _ _ _ _ _ _ | poly _ =>
    simp only [roiToState, ← hany]
    split
    · exact hpoly
    · rename_i h; rw [hnum (by simpa using h)]

/-! ## `from_range` on an arbitrary list -/

/-- `from_range(cats, lo, hi).contains(l)` for **any** list (any order, duplicates): true iff the label
sits at some position `⌈lo⌉⁺ ≤ i < ⌈hi⌉⁺` of the list as passed. -/
theorem fromRange_contains_any (cats : List Int) (lo hi : Rat) (l : Int) :
    catRoiContains (fromRange cats lo hi) l = true ↔
      ∃ i, i ∈ positionsOf l cats ∧ lo ≤ (((i : Nat) : Int) : Rat) ∧ (((i : Nat) : Int) : Rat) < hi := by
  unfold fromRange
  rw [catRoiContains_eq_mem _ (strictSorted_categories _), decide_eq_true_eq, mem_categories, mem_pySlice_iff]
  constructor
  · rintro ⟨i, h1, h2, h3⟩
    exact ⟨i, (mem_positionsOf l cats i).mpr h3, (clampCeil_le lo i).mp h1, (lt_clampCeil hi i).mp h2⟩
  · rintro ⟨i, h1, h2, h3⟩
    exact ⟨i, (clampCeil_le lo i).mpr h2, (lt_clampCeil hi i).mpr h3, (mem_positionsOf l cats i).mp h1⟩

theorem specElem_true (q lo hi : Rat) (h1 : lo ≤ q) (h2 : q < hi) :
    (decide (q = lo) || (true == (decide (lo < q) && decide (q < hi)))) = true := by
  by_cases he : q = lo
  · simp [he]
  · have : lo < q := lt_of_le_of_ne h1 (Ne.symm he)
    simp [this, h2]

theorem specElem_false (q lo hi : Rat) (h : ¬ (lo ≤ q ∧ q < hi)) :
    (decide (q = lo) || (false == (decide (lo < q) && decide (q < hi)))) = true := by
  by_cases he : q = lo
  · simp [he]
  · have hn : ¬ (lo < q ∧ q < hi) := fun ⟨a, b⟩ => h ⟨le_of_lt a, b⟩
    by_cases ha : lo < q
    · have : ¬ q < hi := fun b => hn ⟨ha, b⟩
      simp [he, this]
    · simp [he, ha]

/-- The Spec `specFromRange` holds of the model of `from_range` + `contains` for every list. -/
theorem specFromRange_fromRange (cats : List Int) (lo hi : Rat) (l : Int) :
    specFromRange cats lo hi l (catRoiContains (fromRange cats lo hi) l) = true := by
  have key := fromRange_contains_any cats lo hi l
  unfold specFromRange
  cases hps : positionsOf l cats with
  | nil =>
    simp only [beq_iff_eq]
    rw [hps] at key
    cases hm : catRoiContains (fromRange cats lo hi) l with
    | false => rfl
    | true => obtain ⟨i, hi', _⟩ := key.mp hm; simp at hi'
  | cons p ps =>
    simp only
    rw [← hps, List.any_eq_true]
    cases hm : catRoiContains (fromRange cats lo hi) l with
    | true =>
      obtain ⟨i, hi1, hi2, hi3⟩ := key.mp hm
      exact ⟨i, hi1, specElem_true _ lo hi hi2 hi3⟩
    | false =>
      refine ⟨p, by rw [hps]; simp, specElem_false _ lo hi ?_⟩
      rintro ⟨a, b⟩
      have := key.mpr ⟨p, by rw [hps]; simp, a, b⟩
      rw [hm] at this; cases this

end GlueVerif.C09.Lemmas
