import GlueVerif.Lemmas.C10Cells
/-! Helper lemmas for C10: the bounding box of a mask covers it; cells outside the box are empty;
view recombination. Core Lean only. -/
namespace GlueVerif.Lemmas.C10
open GlueVerif.ArrayUtil GlueVerif.Stats

/-- every coordinate lies in the box (all axes). -/
def inBoxAll : Sub → Idx → Bool
  | (b, n, _) :: ss, i :: is => decide (b ≤ i) && decide (i < b + n) && inBoxAll ss is
  | [], [] => true
  | _, _ => false

/-- Cells whose kept coordinates leave the box are empty when `f` vanishes outside the box. -/
theorem cellVals_outside_box : ∀ (red : List Bool) (sh : List Nat) (box : Sub)
    (f : Idx → Option Val) (k : Idx),
    (∀ t, inBoxAll box t = false → f t = none) → inBoxKept red box k = false →
    cellVals red sh f k = [] := by
  intro red
  induction red with
  | nil =>
    intro sh box f k hv hk
    cases sh with
    | cons _ _ => simp [cellVals]
    | nil =>
      cases k with
      | cons _ _ => simp [cellVals]
      | nil =>
        cases box with
        | nil => simp [inBoxKept] at hk
        | cons s ss => simp [cellVals, hv [] (by simp [inBoxAll])]
  | cons r rs ih =>
    intro sh box f k hv hk
    cases sh with
    | nil => cases r <;> simp [cellVals]
    | cons h hs =>
      cases box with
      | nil =>
        apply cellVals_none
        intro t ht
        cases t with
        | nil => simp [inRange] at ht
        | cons _ _ => apply hv; simp [inBoxAll]
      | cons s ss =>
        obtain ⟨b, n, st⟩ := s
        cases r with
        | true =>
          simp only [cellVals]
          apply flatMap_nil_of_forall
          intro i _
          apply ih hs ss
          · intro t ht
            apply hv
            simp [inBoxAll, ht]
          · simpa [inBoxKept] using hk
        | false =>
          cases k with
          | nil => simp [cellVals]
          | cons k0 k =>
            simp only [cellVals]
            split
            · by_cases hin : b ≤ k0 ∧ k0 < b + n
              · apply ih hs ss
                · intro t ht
                  apply hv
                  simp [inBoxAll, ht]
                · simpa [inBoxKept, hin.1, hin.2] using hk
              · apply cellVals_none
                intro t _
                apply hv
                simp only [inBoxAll, Bool.and_eq_false_iff, decide_eq_false_iff_not]
                left
                by_cases h1 : b ≤ k0
                · right; omega
                · left; exact h1
            · rfl

/-! ### allIdx / inRange -/

theorem mem_allIdx : ∀ (sh : List Nat) (idx : Idx), idx ∈ allIdx sh ↔ inRange idx sh = true := by
  intro sh
  induction sh with
  | nil => intro idx; cases idx <;> simp [allIdx, inRange]
  | cons h hs ih =>
    intro idx
    cases idx with
    | nil => simp [allIdx, inRange]
    | cons i is =>
      simp only [allIdx, List.mem_flatMap, List.mem_range, List.mem_map, inRange, Bool.and_eq_true,
        decide_eq_true_eq]
      constructor
      · rintro ⟨a, ha, t, ht, heq⟩
        injection heq with h1 h2
        subst h1; subst h2
        exact ⟨ha, (ih _).mp ht⟩
      · rintro ⟨hi, his⟩
        exact ⟨i, hi, is, (ih _).mpr his, rfl⟩

theorem inRange_length : ∀ (idx : Idx) (sh : List Nat), inRange idx sh = true → idx.length = sh.length := by
  intro idx
  induction idx with
  | nil => intro sh h; cases sh <;> simp [inRange] at h ⊢
  | cons i is ih =>
    intro sh h
    cases sh with
    | nil => simp [inRange] at h
    | cons s ss =>
      simp only [inRange, Bool.and_eq_true] at h
      simp [ih ss h.2]

theorem inRange_getD : ∀ (idx : Idx) (sh : List Nat), inRange idx sh = true → ∀ d, d < sh.length →
    idx.getD d 0 < sh.getD d 0 := by
  intro idx
  induction idx with
  | nil => intro sh h d hd; cases sh <;> simp [inRange] at h; simp at hd
  | cons i is ih =>
    intro sh h d hd
    cases sh with
    | nil => simp [inRange] at h
    | cons s ss =>
      simp only [inRange, Bool.and_eq_true, decide_eq_true_eq] at h
      cases d with
      | zero => simpa using h.1
      | succ d => simpa using ih ss h.2 d (by simpa using hd)

/-! ### first / last true -/

theorem firstTrue_le (p : Nat → Bool) : ∀ fuel s i, s ≤ i → i < s + fuel → p i = true →
    firstTrue p fuel s ≤ i := by
  intro fuel
  induction fuel with
  | zero => intro s i h1 h2 _; omega
  | succ f ih =>
    intro s i h1 h2 hp
    simp only [firstTrue]
    split
    · exact h1
    · rename_i hps
      have : s ≠ i := fun e => by subst e; exact hps hp
      exact ih (s + 1) i (by omega) (by omega) hp

theorem lastTrueSucc_gt (p : Nat → Bool) : ∀ n i, i < n → p i = true → i < lastTrueSucc p n := by
  intro n
  induction n with
  | zero => intro i h _; omega
  | succ n ih =>
    intro i hi hp
    simp only [lastTrueSucc]
    split
    · omega
    · rename_i hpn
      have : i ≠ n := fun e => by subst e; exact hpn hp
      have := ih i (by omega) hp
      omega

theorem lastTrueSucc_le (p : Nat → Bool) : ∀ n, lastTrueSucc p n ≤ n := by
  intro n
  induction n with
  | zero => simp [lastTrueSucc]
  | succ n ih => simp only [lastTrueSucc]; split <;> omega

/-! ### the bounding box covers the mask -/

theorem inBoxAll_of_forall : ∀ (box : Sub) (idx : Idx), box.length = idx.length →
    (∀ d, d < idx.length → (box.getD d (0, 0, 0)).1 ≤ idx.getD d 0 ∧
      idx.getD d 0 < (box.getD d (0, 0, 0)).1 + (box.getD d (0, 0, 0)).2.1) →
    inBoxAll box idx = true := by
  intro box
  induction box with
  | nil => intro idx hl _; cases idx <;> simp [inBoxAll] at hl ⊢
  | cons s ss ih =>
    intro idx hl h
    cases idx with
    | nil => simp at hl
    | cons i is =>
      obtain ⟨b, n, st⟩ := s
      have h0 := h 0 (by simp)
      simp only [List.getD_cons_zero] at h0
      simp only [inBoxAll, Bool.and_eq_true, decide_eq_true_eq]
      refine ⟨⟨h0.1, h0.2⟩, ih is (by simpa using hl) ?_⟩
      intro d hd
      have := h (d + 1) (by simpa using hd)
      simpa using this

theorem bbox_length (sh : List Nat) (m : Idx → Bool) : (bbox sh m).length = sh.length := by
  simp [bbox]

theorem bbox_getD (sh : List Nat) (m : Idx → Bool) (d : Nat) (hd : d < sh.length) :
    (bbox sh m).getD d (0, 0, 0) =
      (firstTrue (anyAlong sh m d) (sh.getD d 0) 0,
       lastTrueSucc (anyAlong sh m d) (sh.getD d 0) - firstTrue (anyAlong sh m d) (sh.getD d 0) 0, 1) := by
  simp [bbox, List.getD_eq_getElem?_getD, hd]

/-- Every in-range index at which the mask is true lies inside the bounding box. -/
theorem bbox_covers (sh : List Nat) (m : Idx → Bool) (idx : Idx) (hr : inRange idx sh = true)
    (hm : m idx = true) : inBoxAll (bbox sh m) idx = true := by
  have hlen := inRange_length idx sh hr
  apply inBoxAll_of_forall
  · rw [bbox_length, hlen]
  · intro d hd
    have hd' : d < sh.length := by omega
    rw [bbox_getD sh m d hd']
    have hlt := inRange_getD idx sh hr d hd'
    have hany : anyAlong sh m d (idx.getD d 0) = true := by
      simp only [anyAlong, List.any_eq_true, Bool.and_eq_true, beq_iff_eq]
      exact ⟨idx, (mem_allIdx sh idx).mpr hr, rfl, hm⟩
    have h1 := firstTrue_le (anyAlong sh m d) (sh.getD d 0) 0 (idx.getD d 0) (by omega) (by omega) hany
    have h2 := lastTrueSucc_gt (anyAlong sh m d) (sh.getD d 0) (idx.getD d 0) hlt hany
    dsimp only
    omega

theorem subOk_of_forall : ∀ (sh : List Nat) (box : Sub), box.length = sh.length →
    (∀ d, d < sh.length → (box.getD d (0, 0, 0)).2.2 = 1 ∧
      (box.getD d (0, 0, 0)).1 + (box.getD d (0, 0, 0)).2.1 ≤ max (sh.getD d 0) (box.getD d (0, 0, 0)).1) →
    subOk sh box = true := by
  intro sh
  induction sh with
  | nil => intro box hl _; cases box <;> simp [subOk] at hl ⊢
  | cons h hs ih =>
    intro box hl hf
    cases box with
    | nil => simp at hl
    | cons s ss =>
      obtain ⟨b, n, st⟩ := s
      have h0 := hf 0 (by simp)
      simp only [List.getD_cons_zero] at h0
      obtain ⟨hst, hfit⟩ := h0
      subst hst
      simp only [subOk, Bool.and_eq_true, decide_eq_true_eq, Bool.or_eq_true, beq_iff_eq]
      refine ⟨⟨by omega, ?_⟩, ih ss (by simpa using hl) ?_⟩
      · by_cases hn : n = 0
        · left; exact hn
        · right
          have : max h b = h ∨ max h b = b := by omega
          rcases this with e | e <;> rw [e] at hfit <;> omega
      · intro d hd
        have := hf (d + 1) (by simpa using hd)
        simpa using this

theorem bbox_subOk (sh : List Nat) (m : Idx → Bool) : subOk sh (bbox sh m) = true := by
  apply subOk_of_forall
  · exact bbox_length sh m
  · intro d hd
    rw [bbox_getD sh m d hd]
    have := lastTrueSucc_le (anyAlong sh m d) (sh.getD d 0)
    dsimp only
    omega

/-! ### helpers on kept coordinates -/

theorem mapKept_shiftKept : ∀ (red : List Bool) (box : Sub) (k : Idx),
    (∀ s ∈ box, s.2.2 = 1) → inBoxKept red box k = true →
    mapKept red box (shiftKept red box k) = k := by
  intro red
  induction red with
  | nil =>
    intro box k _ hk
    cases box <;> cases k <;> simp [inBoxKept, mapKept] at hk ⊢
  | cons r rs ih =>
    intro box k h1 hk
    cases box with
    | nil => cases r <;> simp [inBoxKept] at hk
    | cons s ss =>
      obtain ⟨b, n, st⟩ := s
      have hst : st = 1 := h1 (b, n, st) (by simp)
      subst hst
      have h1' : ∀ s ∈ ss, s.2.2 = 1 := fun s hs => h1 s (by simp [hs])
      cases r with
      | true =>
        simp only [inBoxKept] at hk
        simpa [mapKept, shiftKept] using ih ss k h1' hk
      | false =>
        cases k with
        | nil => simp [inBoxKept] at hk
        | cons k0 k =>
          simp only [inBoxKept, Bool.and_eq_true, decide_eq_true_eq] at hk
          simp only [mapKept, shiftKept, ih ss k h1' hk.2, Nat.mul_one]
          congr 1
          omega

theorem shiftKept_inRange : ∀ (red : List Bool) (box : Sub) (k : Idx),
    red.length = box.length → inBoxKept red box k = true →
    inRange (shiftKept red box k) (keptShape red (subShape box)) = true := by
  intro red
  induction red with
  | nil =>
    intro box k hl hk
    cases box <;> cases k <;> simp [inBoxKept, shiftKept, keptShape, inRange] at hk hl ⊢
  | cons r rs ih =>
    intro box k hl hk
    cases box with
    | nil => simp at hl
    | cons s ss =>
      obtain ⟨b, n, st⟩ := s
      have hl' : rs.length = ss.length := by simpa using hl
      cases r with
      | true =>
        simp only [inBoxKept] at hk
        simpa [shiftKept, keptShape, subShape] using ih ss k hl' hk
      | false =>
        cases k with
        | nil => simp [inBoxKept] at hk
        | cons k0 k =>
          simp only [inBoxKept, Bool.and_eq_true, decide_eq_true_eq] at hk
          have := ih ss k hl' hk.2
          simp only [shiftKept, keptShape, subShape, List.map_cons, inRange, Bool.and_eq_true,
            decide_eq_true_eq]
          exact ⟨by omega, by simpa [subShape] using this⟩

/-- `f` vanishes wherever the reduced coordinates leave the box, if it vanishes outside the box. -/
theorem inBoxAll_false_of_inSubRed_false : ∀ (red : List Bool) (box : Sub) (t : Idx),
    red.length = box.length → t.length = box.length → (∀ s ∈ box, s.2.2 = 1) →
    inSubRed red box t = false → inBoxAll box t = false := by
  intro red
  induction red with
  | nil =>
    intro box t hl ht _ h
    cases box with
    | nil => cases t <;> simp [inSubRed] at h ht
    | cons _ _ => simp at hl
  | cons r rs ih =>
    intro box t hl ht h1 h
    cases box with
    | nil => simp at hl
    | cons s ss =>
      obtain ⟨b, n, st⟩ := s
      have hst : st = 1 := h1 (b, n, st) (by simp)
      subst hst
      cases t with
      | nil => simp at ht
      | cons i is =>
        have hl' : rs.length = ss.length := by simpa using hl
        have ht' : is.length = ss.length := by simpa using ht
        have h1' : ∀ s ∈ ss, s.2.2 = 1 := fun s hs => h1 s (by simp [hs])
        cases r with
        | true =>
          simp only [inSubRed, Bool.and_eq_false_iff] at h
          simp only [inBoxAll, Bool.and_eq_false_iff, decide_eq_false_iff_not]
          rcases h with h | h
          · left
            rw [onProg_false] at h
            by_cases hb : b ≤ i
            · right
              intro hlt
              exact h (i - b) (by omega) (by omega)
            · left; exact hb
          · right; exact ih ss is hl' ht' h1' h
        | false =>
          simp only [inSubRed] at h
          simp only [inBoxAll, Bool.and_eq_false_iff]
          right; exact ih ss is hl' ht' h1' h

/-! ### view recombination -/

theorem viewIdx_recombine : ∀ (v : List VItem) (box : Sub) (j : Idx),
    allStep1 v = true → box.length = (viewShape' v).length → (∀ s ∈ box, s.2.2 = 1) →
    viewIdx (recombine v box) j = viewIdx v (subIdx box j) := by
  intro v
  induction v with
  | nil => intro box j _ _ _; simp [recombine, viewIdx]
  | cons it vs ih =>
    intro box j hs hl h1
    cases it with
    | int i =>
      simp only [allStep1] at hs
      simp only [recombine, viewIdx]
      rw [ih box j hs (by simpa [viewShape'] using hl) h1]
    | sl b n st =>
      simp only [allStep1, Bool.and_eq_true, beq_iff_eq] at hs
      obtain ⟨hst, hs'⟩ := hs
      subst hst
      cases box with
      | nil => simp [viewShape'] at hl
      | cons s ss =>
        obtain ⟨lo, n', st'⟩ := s
        have hst' : st' = 1 := h1 (lo, n', st') (by simp)
        subst hst'
        cases j with
        | nil => simp [recombine, viewIdx, subIdx]
        | cons j0 j =>
          simp only [recombine, viewIdx, subIdx]
          rw [ih ss j hs' (by simpa [viewShape'] using hl) (fun s hs => h1 s (by simp [hs]))]
          congr 1
          omega

theorem bbox_step1 (sh : List Nat) (m : Idx → Bool) : ∀ s ∈ bbox sh m, s.2.2 = 1 := by
  intro s hs
  simp only [bbox, List.mem_map, List.mem_range] at hs
  obtain ⟨d, _, rfl⟩ := hs
  rfl

end GlueVerif.Lemmas.C10
