import GlueVerif.Lemmas.C10Stat
import GlueVerif.Lemmas.ArrayUtil
import GlueVerif.Lemmas.C20Loop
/-! C10: the chunk loop of `Data.compute_statistic` never changes a cell. Core Lean only; reuses the
C20 theorems about `iterate_chunks`. -/
namespace GlueVerif.Lemmas.C10
open GlueVerif.ArrayUtil GlueVerif.Stats

def fullChunk (sh : List Nat) : Chunk := sh.map fun h => (0, h)
def chunkSub (ch : Chunk) : Sub := ch.map fun p => (p.1, p.2 - p.1, 1)

theorem viewIdx_chunkView : ∀ (ch : Chunk) (t : Idx), viewIdx (chunkView ch) t = subIdx (chunkSub ch) t := by
  intro ch
  induction ch with
  | nil => intro t; simp [chunkView, chunkSub, viewIdx, subIdx]
  | cons p ps ih =>
    intro t
    cases t with
    | nil => simp [chunkView, chunkSub, viewIdx, subIdx]
    | cons t0 t =>
      have := ih t
      simp only [chunkView, chunkSub] at this
      simp [chunkView, chunkSub, viewIdx, subIdx, this]

theorem viewShape'_chunkView : ∀ (ch : Chunk), viewShape' (chunkView ch) = subShape (chunkSub ch) := by
  intro ch
  induction ch with
  | nil => rfl
  | cons p ps ih =>
    simp only [chunkView, chunkSub, subShape] at ih
    simp [chunkView, chunkSub, subShape, viewShape', ih]

theorem cellVals_congr_range : ∀ (red : List Bool) (sh : List Nat) (f g : Idx → Option Val) (k : Idx),
    (∀ t, inRange t sh = true → f t = g t) → cellVals red sh f k = cellVals red sh g k := by
  intro red
  induction red with
  | nil =>
    intro sh f g k h
    cases sh with
    | nil => cases k with
      | nil => simp [cellVals, h [] (by simp [inRange])]
      | cons _ _ => simp [cellVals]
    | cons _ _ => simp [cellVals]
  | cons r rs ih =>
    intro sh f g k h
    cases sh with
    | nil => cases r <;> simp [cellVals]
    | cons s ss =>
      cases r with
      | true =>
        simp only [cellVals]
        apply flatMap_congr_mem
        intro i hi
        apply ih
        intro t ht
        exact h (i :: t) (by simp [inRange, ht, List.mem_range.mp hi])
      | false =>
        cases k with
        | nil => simp [cellVals]
        | cons k0 k =>
          simp only [cellVals]
          split
          · apply ih
            intro t ht
            exact h (k0 :: t) (by simp [inRange, ht, *])
          · rfl

/-! ### structure of the chunk list -/

theorem chunks1d_full (h : Nat) (hh : 0 < h) : chunks1d h h h 0 = [(0, h)] := by
  obtain ⟨m, rfl⟩ : ∃ m, h = m + 1 := ⟨h - 1, by omega⟩
  simp only [chunks1d, Nat.zero_add, Nat.min_self]
  simp [C20Loop.chunks1d_nil_of_ge]

theorem prod_full : ∀ (hs : List Nat), (∀ s ∈ hs, 0 < s) → iterateChunksProd hs hs = [fullChunk hs] := by
  intro hs
  induction hs with
  | nil => intro _; rfl
  | cons h hs ih =>
    intro hpos
    simp only [iterateChunksProd]
    rw [ih (fun s h' => hpos s (by simp [h'])), chunks1d_full h (hpos h (by simp))]
    simp [fullChunk]

/-- With a chunk shape equal to the shape except on axis `ai`, the chunks are the 1-d chunks of axis
`ai`, full along every other axis, in increasing order. -/
theorem prod_setAt : ∀ (sh : List Nat) (ai c : Nat), (∀ s ∈ sh, 0 < s) → ai < sh.length →
    iterateChunksProd sh (sh.set ai c) =
      (chunks1d (sh.getD ai 0) c (sh.getD ai 0) 0).map (fun p => (fullChunk sh).set ai p) := by
  intro sh
  induction sh with
  | nil => intro ai c _ hai; simp at hai
  | cons h hs ih =>
    intro ai c hpos hai
    have hpos' : ∀ s ∈ hs, 0 < s := fun s h' => hpos s (by simp [h'])
    cases ai with
    | zero =>
      simp only [List.set_cons_zero, iterateChunksProd, List.getD_cons_zero]
      rw [prod_full hs hpos']
      simp [fullChunk]
    | succ ai =>
      have hai' : ai < hs.length := by simpa using hai
      simp only [List.set_cons_succ, iterateChunksProd, List.getD_cons_succ]
      rw [ih ai c hpos' hai', chunks1d_full h (hpos h (by simp))]
      have hsing : ∀ (l : List (Nat × Nat)) (f : Nat × Nat → Chunk),
          l.flatMap (fun a => [f a]) = l.map f := by
        intro l f
        induction l with
        | nil => rfl
        | cons x xs ihx => simp [List.flatMap_cons, ihx]
      simp [fullChunk, List.flatMap_map, hsing]

/-! ### writing chunk results into the buffer -/

theorem writeSlice_length (buf : List Val) (a : Nat) (vals : List Val) :
    (writeSlice buf a vals).length = buf.length := by
  simp [writeSlice]

theorem writeSlice_getD (buf : List Val) (a : Nat) (vals : List Val) (i : Nat) (hi : i < buf.length) :
    (writeSlice buf a vals).getD i .nan =
      if a ≤ i ∧ i < a + vals.length then vals.getD (i - a) .nan else buf.getD i .nan := by
  simp [writeSlice, List.getD_eq_getElem?_getD, hi]

theorem fold_chunks1d (h c : Nat) (hc : 0 < c) (W : Nat × Nat → List Val)
    (hW : ∀ p, (W p).length = p.2 - p.1) (target : Nat → Val) :
    ∀ (fuel s : Nat) (buf : List Val), buf.length = h → h ≤ s + fuel →
      (∀ p ∈ chunks1d h c fuel s, ∀ j, j < p.2 - p.1 → (W p).getD j .nan = target (p.1 + j)) →
      ∀ i, i < h →
        ((chunks1d h c fuel s).foldl (fun b p => writeSlice b p.1 (W p)) buf).getD i .nan =
          if s ≤ i then target i else buf.getD i .nan := by
  intro fuel
  induction fuel with
  | zero =>
    intro s buf _ hs _ i hi
    have : ¬ s ≤ i := by omega
    simp [chunks1d, this]
  | succ fuel ih =>
    intro s buf hlen hs hT i hi
    unfold chunks1d
    unfold chunks1d at hT
    by_cases hsh : s < h
    · simp only [hsh, if_true, List.foldl_cons] at hT ⊢
      have hT0 := hT (s, min (s + c) h) (by simp)
      rw [ih (s + c) (writeSlice buf s (W (s, min (s + c) h))) (by rw [writeSlice_length, hlen])
        (by omega) (fun p hp => hT p (by simp [hp])) i hi]
      by_cases h1 : s + c ≤ i
      · have : s ≤ i := by omega
        simp [h1, this]
      · rw [if_neg h1, writeSlice_getD _ _ _ _ (by omega), hW]
        by_cases h2 : s ≤ i
        · have hlt : i < s + (min (s + c) h - s) := by omega
          have := hT0 (i - s) (by simp only; omega)
          simp only at this
          rw [if_pos ⟨h2, hlt⟩, if_pos h2, this]
          congr 1
          omega
        · have : ¬ (s ≤ i ∧ i < s + (min (s + c) h - s)) := by omega
          simp [this, h2]
    · have : ¬ s ≤ i := by omega
      simp [hsh, this]

/-! ### reduced-axis flags with exactly one kept axis -/

def oneKept : List Bool → Bool
  | [] => false
  | true :: rs => oneKept rs
  | false :: rs => rs.all id

theorem all_id_of_filter : ∀ (rs : List Bool), (rs.filter id).length = rs.length → rs.all id = true := by
  intro rs
  induction rs with
  | nil => intro _; rfl
  | cons r rs ih =>
    intro h
    cases r with
    | true => simp only [List.filter_cons, id, if_true, List.length_cons, Nat.add_right_cancel_iff] at h
              simp [ih h]
    | false =>
      simp only [List.filter_cons, id, Bool.false_eq_true, if_false, List.length_cons] at h
      have := List.length_filter_le id rs
      omega

theorem oneKept_of_count : ∀ (red : List Bool), (red.filter id).length + 1 = red.length →
    oneKept red = true := by
  intro red
  induction red with
  | nil => intro h; simp at h
  | cons r rs ih =>
    intro h
    cases r with
    | true =>
      simp only [List.filter_cons, id, if_true, List.length_cons] at h
      simpa [oneKept] using ih (by omega)
    | false =>
      simp only [List.filter_cons, id, Bool.false_eq_true, if_false, List.length_cons] at h
      simpa [oneKept] using all_id_of_filter rs (by omega)

theorem keptShape_allTrue : ∀ (rs : List Bool) (sh : List Nat), rs.all id = true → keptShape rs sh = [] := by
  intro rs
  induction rs with
  | nil => intro sh _; simp [keptShape]
  | cons r rs ih =>
    intro sh h
    simp only [List.all_cons, id, Bool.and_eq_true] at h
    obtain ⟨hr, hrs⟩ := h
    subst hr
    cases sh with
    | nil => simp [keptShape]
    | cons s ss => simpa [keptShape] using ih ss hrs

theorem inSubRed_full : ∀ (rs : List Bool) (hs : List Nat) (t : Idx), rs.length = hs.length →
    inRange t hs = true → inSubRed rs (chunkSub (fullChunk hs)) t = true := by
  intro rs
  induction rs with
  | nil =>
    intro hs t hl ht
    cases hs with
    | nil => cases t <;> simp [inRange, inSubRed, chunkSub, fullChunk] at ht ⊢
    | cons _ _ => simp at hl
  | cons r rs ih =>
    intro hs t hl ht
    cases hs with
    | nil => simp at hl
    | cons h hs =>
      cases t with
      | nil => simp [inRange] at ht
      | cons t0 t =>
        simp only [inRange, Bool.and_eq_true, decide_eq_true_eq] at ht
        have := ih hs t (by simpa using hl) ht.2
        simp only [chunkSub, fullChunk] at this
        cases r with
        | true =>
          simp only [chunkSub, fullChunk, List.map_cons, inSubRed, Nat.sub_zero, Bool.and_eq_true]
          refine ⟨?_, this⟩
          rw [onProg_true]
          exact ⟨t0, ht.1, by omega⟩
        | false =>
          simpa [chunkSub, fullChunk, inSubRed] using this

theorem subOk_full : ∀ (hs : List Nat), (∀ s ∈ hs, 0 < s) → subOk hs (chunkSub (fullChunk hs)) = true := by
  intro hs
  induction hs with
  | nil => intro _; rfl
  | cons h hs ih =>
    intro hpos
    have := ih (fun s h' => hpos s (by simp [h']))
    simp only [chunkSub, fullChunk] at this
    have hh := hpos h (by simp)
    simp only [chunkSub, fullChunk, List.map_cons, subOk, this, Bool.and_true, Nat.sub_zero,
      Bool.and_eq_true, decide_eq_true_eq, Bool.or_eq_true, beq_iff_eq]
    refine ⟨by omega, Or.inr ?_⟩
    omega

/-- All the facts about one chunk `(a, b)` of the kept axis that the cell lemma needs. -/
theorem chunk_facts : ∀ (red : List Bool) (sh : List Nat) (a b : Nat), oneKept red = true →
    red.length = sh.length → (∀ s ∈ sh, 0 < s) → a < b → b ≤ sh.getD (firstKept red) 0 →
    let sub := chunkSub ((fullChunk sh).set (firstKept red) (a, b))
    (∀ j, mapKept red sub [j] = [a + j]) ∧
    keptShape red (subShape sub) = [b - a] ∧
    keptShape red sh = [sh.getD (firstKept red) 0] ∧
    (∀ t, inRange t sh = true → inSubRed red sub t = true) ∧
    subOk sh sub = true ∧
    firstKept red < sh.length ∧
    (∀ t, inRange t (subShape sub) = true → inRange (subIdx sub t) sh = true) ∧
    (∀ s ∈ subShape sub, 0 < s) := by
  intro red
  induction red with
  | nil => intro sh a b h; simp [oneKept] at h
  | cons r rs ih =>
    intro sh a b hone hl hpos hab hb
    cases sh with
    | nil => simp at hl
    | cons h hs =>
      have hl' : rs.length = hs.length := by simpa using hl
      have hpos' : ∀ s ∈ hs, 0 < s := fun s h' => hpos s (by simp [h'])
      have hh : 0 < h := hpos h (by simp)
      cases r with
      | true =>
        simp only [oneKept] at hone
        simp only [firstKept, List.getD_cons_succ] at hb
        obtain ⟨f1, f2, f3, f4, f5, f6, f7, f8⟩ := ih hs a b hone hl' hpos' hab hb
        simp only [firstKept, fullChunk, List.map_cons, List.set_cons_succ, chunkSub, Nat.sub_zero]
        simp only [fullChunk, chunkSub] at f1 f2 f3 f4 f5 f7 f8
        refine ⟨?_, ?_, ?_, ?_, ?_, ?_, ?_, ?_⟩
        · intro j; simpa [mapKept] using f1 j
        · simpa [subShape, keptShape] using f2
        · simpa [keptShape] using f3
        · intro t ht
          cases t with
          | nil => simp [inRange] at ht
          | cons t0 t =>
            simp only [inRange, Bool.and_eq_true, decide_eq_true_eq] at ht
            simp only [inSubRed, Bool.and_eq_true]
            refine ⟨?_, f4 t ht.2⟩
            rw [onProg_true]
            exact ⟨t0, ht.1, by omega⟩
        · simp only [subOk, f5, Bool.and_true, Bool.and_eq_true, decide_eq_true_eq, Bool.or_eq_true,
            beq_iff_eq]
          exact ⟨by omega, Or.inr (by omega)⟩
        · simpa using f6
        · intro t ht
          cases t with
          | nil => simp [subShape, inRange] at ht
          | cons t0 t =>
            simp only [subShape, List.map_cons, inRange, Bool.and_eq_true, decide_eq_true_eq] at ht
            simp only [subIdx, inRange, Bool.and_eq_true, decide_eq_true_eq]
            exact ⟨by omega, f7 t (by simpa [subShape] using ht.2)⟩
        · intro s hs'
          simp only [subShape, List.map_cons, List.mem_cons] at hs'
          rcases hs' with rfl | hs'
          · exact hh
          · exact f8 s (by simpa [subShape] using hs')
      | false =>
        simp only [oneKept] at hone
        simp only [firstKept, List.getD_cons_zero] at hb
        simp only [firstKept, fullChunk, List.map_cons, List.set_cons_zero, chunkSub]
        have hfull := inSubRed_full rs hs
        have hok := subOk_full hs hpos'
        simp only [fullChunk, chunkSub] at hfull hok
        refine ⟨?_, ?_, ?_, ?_, ?_, ?_, ?_, ?_⟩
        · intro j; simp [mapKept, mapKept_nil]
        · simp [subShape, keptShape, keptShape_allTrue rs _ hone]
        · simp [keptShape, keptShape_allTrue rs _ hone]
        · intro t ht
          cases t with
          | nil => simp [inRange] at ht
          | cons t0 t =>
            simp only [inRange, Bool.and_eq_true, decide_eq_true_eq] at ht
            simpa [inSubRed] using hfull t hl' ht.2
        · simp only [subOk, hok, Bool.and_true, Bool.and_eq_true, decide_eq_true_eq, Bool.or_eq_true,
            beq_iff_eq]
          exact ⟨by omega, Or.inr (by omega)⟩
        · simp
        · intro t ht
          cases t with
          | nil => simp [subShape, inRange] at ht
          | cons t0 t =>
            simp only [subShape, List.map_cons, inRange, Bool.and_eq_true, decide_eq_true_eq] at ht
            simp only [subIdx, inRange, Bool.and_eq_true, decide_eq_true_eq]
            refine ⟨by omega, ?_⟩
            -- the remaining axes are full
            have : ∀ (hs : List Nat) (t : Idx), inRange t (List.map (fun p : Nat × Nat × Nat => p.2.1)
                (List.map (fun p : Nat × Nat => (p.1, p.2 - p.1, 1)) (List.map (fun h => (0, h)) hs))) = true →
                inRange (subIdx (List.map (fun p : Nat × Nat => (p.1, p.2 - p.1, 1))
                  (List.map (fun h => (0, h)) hs)) t) hs = true := by
              intro hs
              induction hs with
              | nil => intro t ht; cases t <;> simp [inRange, subIdx] at ht ⊢
              | cons h hs ih2 =>
                intro t ht
                cases t with
                | nil => simp [inRange] at ht
                | cons t0 t =>
                  simp only [List.map_cons, inRange, Bool.and_eq_true, decide_eq_true_eq, Nat.sub_zero] at ht
                  simp only [List.map_cons, subIdx, inRange, Bool.and_eq_true, decide_eq_true_eq]
                  exact ⟨by omega, ih2 t ht.2⟩
            exact this hs t (by simpa [subShape] using ht.2)
        · intro s hs'
          simp only [subShape, List.map_cons, List.mem_cons, List.map_map, List.mem_map] at hs'
          rcases hs' with rfl | ⟨x, hx, rfl⟩
          · show 0 < b - a; omega
          · simpa using hpos' x hx

end GlueVerif.Lemmas.C10

namespace GlueVerif.Lemmas.C10
open GlueVerif.ArrayUtil GlueVerif.Stats

/-- The un-chunked, un-cropped computation a non-`SliceSubsetState` selection is compared with. -/
def canonNA (cfg : Cfg) (sel : SelM) : Bool :=
  match sel with
  | .none => cfg.finite || cfg.positive
  | _ => true

def canonMask (sh : List Nat) (sel : SelM) : Idx → Bool :=
  match sel with
  | .none => fun _ => true
  | .slice vs => fun j => inRange j sh && subMask vs j
  | .mask m => fun j => inRange j sh && m j

def canon (cfg : Cfg) (sh : List Nat) (data : Idx → Val) (sel : SelM) (red : List Bool) : Result :=
  uStat cfg (canonNA cfg sel) red sh data (canonMask sh sel)

theorem prod_pos_of : ∀ (sh : List Nat), (∀ s ∈ sh, 0 < s) → 0 < prod sh := by
  intro sh
  induction sh with
  | nil => intro _; simp [prod]
  | cons h hs ih =>
    intro hpos
    simp only [prod, List.foldr_cons]
    exact Nat.mul_pos (hpos h (by simp)) (ih (fun s h' => hpos s (by simp [h'])))

theorem viewShape'_fullView : ∀ (sh : List Nat), viewShape' (fullView sh) = sh := by
  intro sh
  induction sh with
  | nil => rfl
  | cons h hs ih => simp only [fullView, List.map_cons, viewShape'] at ih ⊢; rw [ih]

theorem viewIdx_fullView : ∀ (sh : List Nat) (t : Idx), inRange t sh = true → viewIdx (fullView sh) t = t := by
  intro sh
  induction sh with
  | nil => intro t ht; cases t <;> simp [inRange, fullView, viewIdx] at ht ⊢
  | cons h hs ih =>
    intro t ht
    cases t with
    | nil => simp [inRange] at ht
    | cons t0 t =>
      simp only [inRange, Bool.and_eq_true] at ht
      have := ih t ht.2
      simp only [fullView] at this
      simp [fullView, viewIdx, this]

/-- One chunk: cell `j` of the chunk's result is cell `a + j` of the full computation. -/
theorem direct_chunk (cfg : Cfg) (sh : List Nat) (data : Idx → Val) (sel : SelM) (red : List Bool)
    (a b j : Nat) (hns : sel.isSlice = false) (hone : oneKept red = true) (hl : red.length = sh.length)
    (hpos : ∀ s ∈ sh, 0 < s) (hab : a < b) (hb : b ≤ sh.getD (firstKept red) 0) (hj : j < b - a) :
    (implDirect cfg data sel .tuple (chunkView ((fullChunk sh).set (firstKept red) (a, b))) red).cell [j] =
      (canon cfg sh data sel red).cell [a + j] := by
  obtain ⟨f1, f2, f3, f4, f5, f6, f7, f8⟩ := chunk_facts red sh a b hone hl hpos hab hb
  generalize hch : (fullChunk sh).set (firstKept red) (a, b) = ch at *
  have hkj : inRange [j] (keptShape red (subShape (chunkSub ch))) = true := by
    rw [f2]; simp [inRange, hj]
  have hsub := fun (F : Idx → Option Val) (hv : ∀ t, inRange t sh = true → inSubRed red (chunkSub ch) t = false → F t = none) =>
    cellVals_sub red sh (chunkSub ch) F [j] hl f5 hv hkj
  rw [f1 j] at hsub
  cases sel with
  | slice vs => simp [SelM.isSlice] at hns
  | none =>
    simp only [implDirect, uStatImpl, viewShape'_chunkView, canon, canonNA, canonMask]
    rw [if_neg (by have := prod_pos_of _ f8; omega)]
    simp only [uStat]
    rw [hsub _ (fun t ht hns' => by rw [f4 t ht] at hns'; exact absurd hns' (by simp))]
    congr 1
    apply cellVals_congr
    intro t
    simp [keepFn, viewIdx_chunkView]
  | mask m =>
    simp only [implDirect, canon, canonNA, canonMask]
    rw [implMasked_cell cfg data _ red m [j] (by rw [viewShape'_chunkView, subShape_length]; simp [chunkSub, ← hch, fullChunk, hl])
      (by rw [viewShape'_chunkView]; exact hkj)]
    simp only [uStat, viewShape'_chunkView]
    rw [hsub _ (fun t ht hns' => by rw [f4 t ht] at hns'; exact absurd hns' (by simp))]
    congr 1
    apply cellVals_congr_range
    intro t ht
    simp [keepFn, viewIdx_chunkView, ht, f7 t ht]

/-- The un-chunked call (view `None`). -/
theorem direct_full (cfg : Cfg) (sh : List Nat) (data : Idx → Val) (sel : SelM) (red : List Bool)
    (k : Idx) (hns : sel.isSlice = false) (hl : red.length = sh.length) (hpos : ∀ s ∈ sh, 0 < s)
    (hk : inRange k (keptShape red sh) = true) :
    (implDirect cfg data sel .none (fullView sh) red).cell k = (canon cfg sh data sel red).cell k := by
  cases sel with
  | slice vs => simp [SelM.isSlice] at hns
  | none =>
    simp only [implDirect, uStatImpl, viewShape'_fullView, canon, canonNA, canonMask]
    rw [if_neg (by have := prod_pos_of _ hpos; omega)]
    simp only [uStat]
    congr 1
    apply cellVals_congr_range
    intro t ht
    simp [keepFn, viewIdx_fullView sh t ht]
  | mask m =>
    simp only [implDirect, canon, canonNA, canonMask]
    rw [implMasked_cell cfg data _ red m k (by rw [viewShape'_fullView]; exact hl)
      (by rw [viewShape'_fullView]; exact hk)]
    simp only [uStat, viewShape'_fullView]
    congr 1
    apply cellVals_congr_range
    intro t ht
    simp [keepFn, viewIdx_fullView sh t ht]

end GlueVerif.Lemmas.C10

namespace GlueVerif.Lemmas.C10
open GlueVerif.ArrayUtil GlueVerif.Stats

theorem getD_set_self (l : Chunk) (i : Nat) (p : Nat × Nat) (hi : i < l.length) :
    (l.set i p).getD i (0, 0) = p := by
  simp [List.getD_eq_getElem?_getD, hi]

theorem prod_eq_foldl (sh : List Nat) : sh.foldl (· * ·) 1 = prod sh := by
  have : ∀ (l : List Nat) (acc : Nat), l.foldl (· * ·) acc = acc * prod l := by
    intro l
    induction l with
    | nil => intro acc; simp [prod]
    | cons h hs ih =>
      intro acc
      simp only [List.foldl_cons, prod, List.foldr_cons]
      rw [ih]
      simp only [prod]
      rw [Nat.mul_assoc]
  rw [this]; simp

/-- **Chunking never changes a cell.** In the chunked configuration (view `None`, tuple of all axes
but one, more elements than `n_chunk_max`, not a `SliceSubsetState`) the value the chunk loop writes
into cell `i` — computed by a recursive call on the chunk that contains `i`, through the
minimal-subarray path of that chunk — is the value of the un-chunked full computation, for every
shape with positive sizes, every chunk limit, every selection and statistic. -/
theorem implStat_chunked_cell (cfg : Cfg) (sh : List Nat) (data : Idx → Val) (sel : SelM)
    (red : List Bool) (nmax i : Nat) (hpos : ∀ s ∈ sh, 0 < s) (hl : red.length = sh.length)
    (hns : sel.isSlice = false) (hcnt : (red.filter id).length + 1 = sh.length)
    (hred0 : 0 < (red.filter id).length) (hsize : nmax < prod sh)
    (hi : i < sh.getD (firstKept red) 0) :
    (implStat cfg sh data sel .none (fullView sh) .tuple red nmax).cell [i] =
      (canon cfg sh data sel red).cell [i] := by
  have hone : oneKept red = true := oneKept_of_count red (by omega)
  have hai : firstKept red < sh.length := by
    obtain ⟨_, _, _, _, _, f6, _, _⟩ := chunk_facts red sh 0 1 hone hl hpos (by omega)
      (by
        have : 0 < sh.getD (firstKept red) 0 := by omega
        omega)
    exact f6
  unfold implStat
  have hcond : ((ViewKind.none == ViewKind.none) && (AxisKind.tuple == AxisKind.tuple) &&
      decide ((red.filter id).length > 0) && ((red.filter id).length + 1 == sh.length) &&
      decide (prod sh > nmax) && !sel.isSlice) = true := by
    simp [hns, hred0, hcnt, hsize]
  simp only [hcond, if_true]
  -- the chunk list
  generalize hai_def : firstKept red = ai at *
  generalize hh_def : sh.getD ai 0 = h at *
  generalize hc_def : max 1 (h * nmax / prod sh) = c at *
  have hc : 0 < c := by omega
  have hchunks : iterateChunksLoop sh (setAt sh ai c) =
      (chunks1d h c h 0).map (fun p => (fullChunk sh).set ai p) := by
    unfold setAt
    rw [C20Loop.iterLoop_eq_prod sh (sh.set ai c) (by simp) hpos
      (by
        intro x hx
        rcases List.mem_or_eq_of_mem_set hx with hx | hx
        · exact hpos x hx
        · omega)]
    have hps := prod_setAt sh ai c hpos hai
    rw [hh_def] at hps
    exact hps
  rw [hchunks, List.foldl_map]
  -- the step function in `writeSlice b p.1 (W p)` form
  let W : Nat × Nat → List Val := fun p =>
    (List.range (p.2 - p.1)).map fun j =>
      (implDirect cfg data sel .tuple (chunkView ((fullChunk sh).set ai p)) red).cell [j]
  have hstep : (fun (b : List Val) (p : Nat × Nat) =>
      writeSlice b (((fullChunk sh).set ai p).getD ai (0, 0)).1
        ((List.range ((((fullChunk sh).set ai p).getD ai (0, 0)).2 - (((fullChunk sh).set ai p).getD ai (0, 0)).1)).map
          fun j => (implDirect cfg data sel .tuple (chunkView ((fullChunk sh).set ai p)) red).cell [j])) =
      fun b p => writeSlice b p.1 (W p) := by
    funext b p
    rw [getD_set_self (fullChunk sh) ai p (by simp [fullChunk]; exact hai)]
  rw [hstep]
  have := fold_chunks1d h c hc W (by intro p; simp [W])
    (fun i => (canon cfg sh data sel red).cell [i]) h 0 (List.replicate h (.fin 0)) (by simp) (by omega)
    (by
      intro p hp j hj
      obtain ⟨h1, h2, _⟩ := chunks1d_mem h c hc p h 0 hp
      have hr : (List.range (p.2 - p.1))[j]? = some j := by simp [hj]
      simp only [W, List.getD_eq_getElem?_getD, List.getElem?_map, hr, Option.map_some,
        Option.getD_some]
      have hdc := direct_chunk cfg sh data sel red p.1 p.2 j hns hone hl hpos h1
        (by rw [hai_def, hh_def]; exact h2) hj
      rw [hai_def] at hdc
      exact hdc)
    i hi
  simpa using this

end GlueVerif.Lemmas.C10

namespace GlueVerif.Lemmas.C10
open GlueVerif.ArrayUtil GlueVerif.Stats

theorem implStat_chunked_eq_direct (cfg : Cfg) (sh : List Nat) (data : Idx → Val) (sel : SelM)
    (red : List Bool) (nmax i : Nat) (hpos : ∀ s ∈ sh, 0 < s) (hl : red.length = sh.length)
    (hns : sel.isSlice = false) (hcnt : (red.filter id).length + 1 = sh.length)
    (hred0 : 0 < (red.filter id).length) (hsize : nmax < prod sh)
    (hi : i < sh.getD (firstKept red) 0) :
    (implStat cfg sh data sel .none (fullView sh) .tuple red nmax).cell [i] =
      (implDirect cfg data sel .none (fullView sh) red).cell [i] := by
  rw [implStat_chunked_cell cfg sh data sel red nmax i hpos hl hns hcnt hred0 hsize hi]
  have hone : oneKept red = true := oneKept_of_count red (by omega)
  obtain ⟨_, _, f3, _, _, _, _, _⟩ := chunk_facts red sh 0 1 hone hl hpos (by omega) (by omega)
  rw [direct_full cfg sh data sel red [i] hns hl hpos (by rw [f3]; simpa [inRange] using hi)]

theorem implStat_chunked_shape (cfg : Cfg) (sh : List Nat) (data : Idx → Val) (sel : SelM)
    (red : List Bool) (nmax : Nat) (hpos : ∀ s ∈ sh, 0 < s) (hl : red.length = sh.length)
    (hns : sel.isSlice = false) (hcnt : (red.filter id).length + 1 = sh.length)
    (hred0 : 0 < (red.filter id).length) (hsize : nmax < prod sh) :
    (implStat cfg sh data sel .none (fullView sh) .tuple red nmax).shape = keptShape red sh := by
  have hone : oneKept red = true := oneKept_of_count red (by omega)
  have hh : 0 < sh.getD (firstKept red) 0 := by
    have : firstKept red < sh.length := by
      -- the kept axis exists
      have : ∀ (r : List Bool), oneKept r = true → firstKept r < r.length := by
        intro r
        induction r with
        | nil => intro h; simp [oneKept] at h
        | cons x xs ih =>
          intro h
          cases x with
          | true => simp only [oneKept] at h; simp only [firstKept, List.length_cons]; have := ih h; omega
          | false => simp [firstKept]
      have := this red hone
      omega
    have hm : sh.getD (firstKept red) 0 ∈ sh := by
      rw [List.getD_eq_getElem?_getD, List.getElem?_eq_getElem this]
      simp
    exact hpos _ hm
  obtain ⟨_, _, f3, _, _, _, _, _⟩ := chunk_facts red sh 0 1 hone hl hpos (by omega) (by omega)
  unfold implStat
  have hcond : ((ViewKind.none == ViewKind.none) && (AxisKind.tuple == AxisKind.tuple) &&
      decide ((red.filter id).length > 0) && ((red.filter id).length + 1 == sh.length) &&
      decide (prod sh > nmax) && !sel.isSlice) = true := by
    simp [hns, hred0, hcnt, hsize]
  simp only [hcond, if_true]
  rw [f3]


theorem firstKept_lt : ∀ (r : List Bool), oneKept r = true → firstKept r < r.length := by
  intro r
  induction r with
  | nil => intro h; simp [oneKept] at h
  | cons x xs ih =>
    intro h
    cases x with
    | true => simp only [oneKept] at h; simp only [firstKept, List.length_cons]; have := ih h; omega
    | false => simp [firstKept]

theorem kept_axis_facts (red : List Bool) (sh : List Nat) (hone : oneKept red = true)
    (hl : red.length = sh.length) (hpos : ∀ s ∈ sh, 0 < s) :
    firstKept red < sh.length ∧ 0 < sh.getD (firstKept red) 0 ∧
      keptShape red sh = [sh.getD (firstKept red) 0] := by
  have h1 : firstKept red < sh.length := by have := firstKept_lt red hone; omega
  have h2 : 0 < sh.getD (firstKept red) 0 := by
    have hm : sh.getD (firstKept red) 0 ∈ sh := by
      rw [List.getD_eq_getElem?_getD, List.getElem?_eq_getElem h1]
      simp
    exact hpos _ hm
  obtain ⟨_, _, f3, _, _, _, _, _⟩ := chunk_facts red sh 0 1 hone hl hpos (by omega) (by omega)
  exact ⟨h1, h2, f3⟩

end GlueVerif.Lemmas.C10
