import GlueVerif.Model.ArrayUtil
import Mathlib.Tactic.Linarith
import Mathlib.Tactic.Ring
/-!
# C20 — `combine_slices` is exact for all inputs (positive steps)

`combineNorm_correct`: the slice computed by the code, applied to the view `range(slice1)`,
selects exactly the positions of the elements of slice 1 that also belong to slice 2 (same
positions, same order).  The heart is the remainder argument `common_iff_of_first_two`.
-/
namespace GlueVerif.Lemmas.C20Combine
open GlueVerif.ArrayUtil

/-! ### Integer arithmetic helpers -/

theorem nonneg_of_dvd_of_neg_lt {m x : Int} (hm : 0 < m) (hd : m ∣ x) (hx : -m < x) : 0 ≤ x := by
  obtain ⟨q, rfl⟩ := hd
  by_contra hneg
  have hq : q ≤ -1 := by
    by_contra hq'
    have h0 : 0 ≤ q := by omega
    have := Int.mul_nonneg hm.le h0
    omega
  nlinarith

/-- `k < ⌈a / s⌉ ↔ k * s < a`, with the ceiling written the way the code computes it. -/
theorem lt_ceil_iff (a s k : Int) (hs : 0 < s) :
    k < (if (a % s != 0) = true then a / s + 1 else a / s) ↔ k * s < a := by
  have h1 := Int.emod_add_mul_ediv a s
  have h2 := Int.emod_nonneg a (Int.ne_of_gt hs)
  have h3 := Int.emod_lt_of_pos a hs
  by_cases hr : a % s = 0
  · simp only [hr, bne_self_eq_false, Bool.false_eq_true, if_false]
    constructor
    · intro h; nlinarith
    · intro h; by_contra hk; nlinarith
  · have : (a % s != 0) = true := by simpa using hr
    rw [if_pos this]
    have h4 : 0 < a % s := by omega
    constructor
    · intro h; nlinarith
    · intro h; by_contra hk; nlinarith

theorem natCast_mul_nonneg (k st : Nat) : (0 : Int) ≤ (k : Int) * (st : Int) :=
  Int.mul_nonneg (Int.natCast_nonneg k) (Int.natCast_nonneg st)

/-! ### `rangeLen`, `rangeUp`, `pyRange` -/

theorem lt_rangeLen_iff (b e : Int) (st : Nat) (hst : 0 < st) (k : Nat) :
    k < rangeLen b e st ↔ b + (k : Int) * (st : Int) < e := by
  have hnn := natCast_mul_nonneg k st
  unfold rangeLen
  split
  · rename_i hbe
    rw [Nat.lt_iff_add_one_le, Nat.le_div_iff_mul_le hst, Nat.add_mul, Nat.one_mul]
    have hc : ((k * st : Nat) : Int) = (k : Int) * (st : Int) := by push_cast; rfl
    generalize k * st = p at hc
    omega
  · omega

theorem rangeLen_fuel (b e : Int) (st : Nat) (hst : 0 < st) :
    e ≤ b + (rangeLen b e st : Int) * (st : Int) := by
  have := (lt_rangeLen_iff b e st hst (rangeLen b e st)).not
  simp only [Nat.lt_irrefl, not_false_eq_true, true_iff] at this
  omega

theorem rangeUp_lb (b e : Int) (st fuel : Nat) (v : Int) (hv : v ∈ rangeUp b e st fuel) :
    b ≤ v := by
  induction fuel generalizing b with
  | zero => simp [rangeUp] at hv
  | succ f ih =>
    simp only [rangeUp] at hv
    split at hv
    · rcases List.mem_cons.mp hv with rfl | h
      · omega
      · have := ih _ h; omega
    · simp at hv

theorem rangeUp_sorted (b e : Int) (st : Nat) (hst : 0 < st) (fuel : Nat) :
    (rangeUp b e st fuel).Pairwise (· < ·) := by
  induction fuel generalizing b with
  | zero => simp [rangeUp]
  | succ f ih =>
    simp only [rangeUp]
    split
    · refine List.pairwise_cons.mpr ⟨fun v hv => ?_, ih _⟩
      have := rangeUp_lb _ _ _ _ _ hv
      omega
    · simp

theorem mem_rangeUp (b e : Int) (st : Nat) (hst : 0 < st) (fuel : Nat)
    (hf : e ≤ b + (fuel : Int) * (st : Int)) (v : Int) :
    v ∈ rangeUp b e st fuel ↔ b ≤ v ∧ v < e ∧ (st : Int) ∣ v - b := by
  induction fuel generalizing b with
  | zero =>
    simp only [rangeUp, List.not_mem_nil, false_iff]
    simp at hf
    omega
  | succ f ih =>
    simp only [rangeUp]
    have hst' : (0 : Int) < st := by omega
    split
    · rename_i hbe
      rw [List.mem_cons, ih (b + st) (by push_cast at hf; linarith)]
      constructor
      · rintro (rfl | ⟨h1, h2, h3⟩)
        · exact ⟨le_refl _, hbe, by simp⟩
        · refine ⟨by omega, h2, ?_⟩
          have : v - b = (v - (b + st)) + st := by ring
          rw [this]
          exact Int.dvd_add h3 (Int.dvd_refl _)
      · rintro ⟨h1, h2, h3⟩
        by_cases hvb : v = b
        · exact Or.inl hvb
        · right
          have hle := Int.le_of_dvd (by omega) h3
          refine ⟨by omega, h2, ?_⟩
          have : v - (b + st) = (v - b) - st := by ring
          rw [this]
          exact Int.dvd_sub h3 (Int.dvd_refl _)
    · simp only [List.not_mem_nil, false_iff]
      omega

theorem lt_rangeUp_length_iff (b e : Int) (st : Nat) (fuel : Nat)
    (hf : e ≤ b + (fuel : Int) * (st : Int)) (k : Nat) :
    k < (rangeUp b e st fuel).length ↔ b + (k : Int) * (st : Int) < e := by
  induction fuel generalizing b k with
  | zero =>
    have := natCast_mul_nonneg k st
    simp only [rangeUp, List.length_nil, Nat.not_lt_zero, false_iff]
    simp at hf
    omega
  | succ f ih =>
    simp only [rangeUp]
    split
    · rename_i hbe
      cases k with
      | zero => simp [hbe]
      | succ k =>
        simp only [List.length_cons, Nat.add_lt_add_iff_right]
        rw [ih (b + st) (by push_cast at hf; linarith)]
        have : b + ((k + 1 : Nat) : Int) * (st : Int) = b + st + (k : Int) * st := by
          push_cast; ring
        rw [this]
    · have := natCast_mul_nonneg k st
      simp only [List.length_nil, Nat.not_lt_zero, false_iff]
      omega

theorem rangeUp_getD (b e : Int) (st : Nat) (fuel : Nat) (k : Nat)
    (hk : k < (rangeUp b e st fuel).length) :
    (rangeUp b e st fuel).getD k 0 = b + (k : Int) * (st : Int) := by
  induction fuel generalizing b k with
  | zero => simp [rangeUp] at hk
  | succ f ih =>
    simp only [rangeUp] at hk ⊢
    split
    · rename_i hbe
      rw [if_pos hbe] at hk
      cases k with
      | zero => simp
      | succ k =>
        simp only [List.length_cons, Nat.add_lt_add_iff_right] at hk
        rw [List.getD_cons_succ, ih _ _ hk]
        push_cast; ring
    · rename_i hbe
      rw [if_neg hbe] at hk
      simp at hk

theorem mem_pyRange (b e : Int) (st : Nat) (hst : 0 < st) (v : Int) :
    v ∈ pyRange b e st ↔ b ≤ v ∧ v < e ∧ (st : Int) ∣ v - b :=
  mem_rangeUp b e st hst _ (rangeLen_fuel b e st hst) v

theorem pyRange_sorted (b e : Int) (st : Nat) (hst : 0 < st) :
    (pyRange b e st).Pairwise (· < ·) := rangeUp_sorted b e st hst _

theorem lt_pyRange_length_iff (b e : Int) (st : Nat) (hst : 0 < st) (k : Nat) :
    k < (pyRange b e st).length ↔ b + (k : Int) * (st : Int) < e :=
  lt_rangeUp_length_iff b e st _ (rangeLen_fuel b e st hst) k

theorem pyRange_getD (b e : Int) (st : Nat) (k : Nat) (hk : k < (pyRange b e st).length) :
    (pyRange b e st).getD k 0 = b + (k : Int) * (st : Int) := rangeUp_getD b e st _ k hk

/-! ### Two strictly increasing lists with the same members are equal -/

theorem eq_of_sorted_of_mem_iff {l1 l2 : List Nat} (h1 : l1.Pairwise (· < ·))
    (h2 : l2.Pairwise (· < ·)) (h : ∀ k, k ∈ l1 ↔ k ∈ l2) : l1 = l2 := by
  induction l1 generalizing l2 with
  | nil =>
    cases l2 with
    | nil => rfl
    | cons b l2 => exact absurd ((h b).mpr (by simp)) (by simp)
  | cons a l1 ih =>
    cases l2 with
    | nil => exact absurd ((h a).mp (by simp)) (by simp)
    | cons b l2 =>
      rw [List.pairwise_cons] at h1 h2
      have hab : a = b := by
        have ha := (h a).mp (by simp)
        have hb := (h b).mpr (by simp)
        rcases List.mem_cons.mp ha with ha | ha
        · exact ha
        · rcases List.mem_cons.mp hb with hb | hb
          · exact hb.symm
          · have := h1.1 _ hb; have := h2.1 _ ha; omega
      subst hab
      congr 1
      refine ih h1.2 h2.2 fun k => ?_
      constructor
      · intro hk
        have := h1.1 _ hk
        rcases List.mem_cons.mp ((h k).mp (List.mem_cons_of_mem _ hk)) with hk' | hk'
        · omega
        · exact hk'
      · intro hk
        have := h2.1 _ hk
        rcases List.mem_cons.mp ((h k).mpr (List.mem_cons_of_mem _ hk)) with hk' | hk'
        · omega
        · exact hk'

/-! ### The search loop `firstTwo` -/

/-- `firstTwo` returns (the positions of) the first two elements of the scanned range that lie on
slice 1's lattice. -/
theorem firstTwo_eq (beg1 : Int) (step1 step2 : Nat) (e : Int) (fuel : Nat) (idx : Int)
    (acc : List Int) (hacc : acc.length < 2) :
    firstTwo beg1 step1 step2 e fuel idx acc =
      acc ++ (((rangeUp idx e step2 fuel).filter
        (fun v => (v - beg1) % (step1 : Int) == 0)).map
          (fun v => (v - beg1) / (step1 : Int))).take (2 - acc.length) := by
  induction fuel generalizing idx acc with
  | zero => simp [firstTwo, rangeUp]
  | succ f ih =>
    simp only [firstTwo, rangeUp]
    by_cases hlt : idx < e
    · simp only [if_pos hlt]
      by_cases hon : ((idx - beg1) % (step1 : Int) == 0) = true
      · simp only [if_pos hon, List.filter_cons, List.map_cons]
        have hcases : acc.length = 0 ∨ acc.length = 1 := by omega
        rcases hcases with h0 | h1
        · have hnil : acc = [] := List.eq_nil_of_length_eq_zero h0
          subst hnil
          rw [if_neg (by simp), ih _ _ (by simp)]
          simp
        · rw [if_pos (by simp [h1])]
          simp [h1]
      · simp only [if_neg hon, List.filter_cons]
        exact ih _ _ hacc
    · simp [if_neg hlt]

/-! ### Applying a normalised slice with positive step -/

theorem mem_applySliceTo (n : Nat) (b e st : Int) (hst : 0 < st) (hb : 0 ≤ b) (he : 0 ≤ e)
    (k : Nat) :
    k ∈ applySliceTo n b e st ↔ b ≤ k ∧ (k : Int) < e ∧ k < n ∧ st ∣ (k : Int) - b := by
  have hne : (st == 0) = false := by simp; omega
  have hnneg : ¬ st < 0 := by omega
  have hcast : ((st.toNat : Nat) : Int) = st := Int.toNat_of_nonneg hst.le
  simp only [applySliceTo, sliceIndices, Option.getD_some, hne, Bool.false_eq_true, if_false,
    hnneg, List.mem_map]
  constructor
  · rintro ⟨v, hv, rfl⟩
    rw [mem_pyRange _ _ _ (by omega), hcast] at hv
    obtain ⟨h1, h2, h3⟩ := hv
    have hv0 : 0 ≤ v := by split at h1 <;> split at h1 <;> omega
    rw [Int.toNat_of_nonneg hv0]
    have hbn : b ≤ n := by
      by_contra hbn
      split at h1 <;> split at h2 <;> (try split at h1) <;> (try split at h2) <;> omega
    have hb' : (if b < 0 then if b + ↑n < 0 then 0 else b + ↑n else if b > ↑n then ↑n else b) = b := by
      split <;> (try split) <;> omega
    rw [hb'] at h1 h3
    refine ⟨h1, ?_, ?_, h3⟩
    · split at h2 <;> (try split at h2) <;> omega
    · split at h2 <;> (try split at h2) <;> omega
  · rintro ⟨h1, h2, h3, h4⟩
    refine ⟨(k : Int), ?_, by simp⟩
    rw [mem_pyRange _ _ _ (by omega), hcast]
    have hb' : (if b < 0 then if b + ↑n < 0 then 0 else b + ↑n else if b > ↑n then ↑n else b) = b := by
      split <;> (try split) <;> omega
    rw [hb']
    refine ⟨h1, ?_, h4⟩
    split <;> (try split) <;> omega

theorem applySliceTo_sorted (n : Nat) (b e st : Int) (hst : 0 < st) (hb : 0 ≤ b) :
    (applySliceTo n b e st).Pairwise (· < ·) := by
  have hne : (st == 0) = false := by simp; omega
  have hnneg : ¬ st < 0 := by omega
  simp only [applySliceTo, sliceIndices, Option.getD_some, hne, Bool.false_eq_true, if_false,
    hnneg]
  rw [List.pairwise_map]
  refine List.Pairwise.imp_of_mem ?_ (pyRange_sorted _ _ _ (by omega))
  intro x y hx hy hxy
  have hx0 := rangeUp_lb _ _ _ _ _ hx
  have hx1 : 0 ≤ x := by split at hx0 <;> (try split at hx0) <;> omega
  omega

/-! ### The remainder argument -/

/-- Common elements of two arithmetic progressions inside a window: if `x < y` are the first two
common elements then the common elements are exactly `x + k·(y − x)` below the upper bound.  If
`v` is common then `x + ((v − x) mod (y − x))` is common and lies in `[x, y)`, hence equals `x`. -/
theorem common_iff_of_first_two {lo e a1 a2 s1 s2 x y : Int}
    (hx : lo ≤ x ∧ x < e ∧ s2 ∣ x - a2 ∧ s1 ∣ x - a1)
    (hy : lo ≤ y ∧ y < e ∧ s2 ∣ y - a2 ∧ s1 ∣ y - a1) (hxy : x < y)
    (hfirst : ∀ v, (lo ≤ v ∧ v < e ∧ s2 ∣ v - a2 ∧ s1 ∣ v - a1) → v = x ∨ y ≤ v) (v : Int) :
    (lo ≤ v ∧ v < e ∧ s2 ∣ v - a2 ∧ s1 ∣ v - a1) ↔ x ≤ v ∧ v < e ∧ (y - x) ∣ v - x := by
  have hD : 0 < y - x := by omega
  have hd2 : s2 ∣ y - x := by
    have : y - x = (y - a2) - (x - a2) := by ring
    rw [this]; exact Int.dvd_sub hy.2.2.1 hx.2.2.1
  have hd1 : s1 ∣ y - x := by
    have : y - x = (y - a1) - (x - a1) := by ring
    rw [this]; exact Int.dvd_sub hy.2.2.2 hx.2.2.2
  constructor
  · intro hv
    have hxv : x ≤ v := by rcases hfirst v hv with h | h <;> omega
    refine ⟨hxv, hv.2.1, ?_⟩
    have hr0 := Int.emod_nonneg (v - x) (Int.ne_of_gt hD)
    have hr1 := Int.emod_lt_of_pos (v - x) hD
    have hdecomp := Int.emod_add_mul_ediv (v - x) (y - x)
    have hq : 0 ≤ (v - x) / (y - x) := Int.ediv_nonneg (by omega) hD.le
    have hDq : 0 ≤ (y - x) * ((v - x) / (y - x)) := Int.mul_nonneg hD.le hq
    have hvx2 : s2 ∣ v - x := by
      have : v - x = (v - a2) - (x - a2) := by ring
      rw [this]; exact Int.dvd_sub hv.2.2.1 hx.2.2.1
    have hvx1 : s1 ∣ v - x := by
      have : v - x = (v - a1) - (x - a1) := by ring
      rw [this]; exact Int.dvd_sub hv.2.2.2 hx.2.2.2
    have hr : (v - x) % (y - x) = (v - x) - (y - x) * ((v - x) / (y - x)) := by omega
    have hr2 : s2 ∣ (v - x) % (y - x) := by
      rw [hr]; exact Int.dvd_sub hvx2 (Dvd.dvd.mul_right hd2 _)
    have hr1' : s1 ∣ (v - x) % (y - x) := by
      rw [hr]; exact Int.dvd_sub hvx1 (Dvd.dvd.mul_right hd1 _)
    have hw := hfirst (x + (v - x) % (y - x)) ⟨by omega, by omega, by
      have : x + (v - x) % (y - x) - a2 = (x - a2) + (v - x) % (y - x) := by ring
      rw [this]; exact Int.dvd_add hx.2.2.1 hr2, by
      have : x + (v - x) % (y - x) - a1 = (x - a1) + (v - x) % (y - x) := by ring
      rw [this]; exact Int.dvd_add hx.2.2.2 hr1'⟩
    have : (v - x) % (y - x) = 0 := by omega
    exact Int.dvd_of_emod_eq_zero this
  · rintro ⟨h1, h2, h3⟩
    refine ⟨by omega, h2, ?_, ?_⟩
    · have : v - a2 = (v - x) + (x - a2) := by ring
      rw [this]; exact Int.dvd_add (Int.dvd_trans hd2 h3) hx.2.2.1
    · have : v - a1 = (v - x) + (x - a1) := by ring
      rw [this]; exact Int.dvd_add (Int.dvd_trans hd1 h3) hx.2.2.2

/-! ### The pieces of `combineNorm` -/

/-- The first index `≥ beg0` on slice 2's lattice, as the code computes it. -/
def begAdj (beg0 beg2 : Int) (step2 : Nat) : Int :=
  if (beg0 - beg2) % (step2 : Int) != 0 then beg0 + (step2 - ((beg0 - beg2) % (step2 : Int)))
  else beg0

theorem begAdj_spec (beg0 beg2 : Int) (step2 : Nat) (h2 : 0 < step2) :
    beg0 ≤ begAdj beg0 beg2 step2 ∧ begAdj beg0 beg2 step2 < beg0 + step2 ∧
      (step2 : Int) ∣ begAdj beg0 beg2 step2 - beg2 := by
  have hs : (0 : Int) < step2 := by omega
  have hr0 := Int.emod_nonneg (beg0 - beg2) (Int.ne_of_gt hs)
  have hr1 := Int.emod_lt_of_pos (beg0 - beg2) hs
  have hdecomp := Int.emod_add_mul_ediv (beg0 - beg2) step2
  unfold begAdj
  by_cases hr : (beg0 - beg2) % (step2 : Int) = 0
  · simp only [hr, bne_self_eq_false, Bool.false_eq_true, if_false]
    exact ⟨le_refl _, by omega, Int.dvd_of_emod_eq_zero hr⟩
  · have : ((beg0 - beg2) % (step2 : Int) != 0) = true := by simpa using hr
    rw [if_pos this]
    refine ⟨by omega, by omega, ?_⟩
    refine ⟨(beg0 - beg2) / (step2 : Int) + 1, ?_⟩
    rw [Int.mul_add, Int.mul_one]
    omega

/-- The elements scanned by the search loop that lie on slice 1's lattice. -/
def scanList (beg1 : Int) (step1 : Nat) (beg e : Int) (step2 : Nat) : List Int :=
  (pyRange beg e step2).filter fun v => (v - beg1) % (step1 : Int) == 0

theorem mem_scanList (beg1 : Int) (step1 : Nat) (beg e : Int) (step2 : Nat) (h2 : 0 < step2)
    (v : Int) :
    v ∈ scanList beg1 step1 beg e step2 ↔
      beg ≤ v ∧ v < e ∧ (step2 : Int) ∣ v - beg ∧ (step1 : Int) ∣ v - beg1 := by
  simp only [scanList, List.mem_filter, mem_pyRange _ _ _ h2, beq_iff_eq,
    Int.dvd_iff_emod_eq_zero, and_assoc]

theorem scanList_sorted (beg1 : Int) (step1 : Nat) (beg e : Int) (step2 : Nat) (h2 : 0 < step2) :
    (scanList beg1 step1 beg e step2).Pairwise (· < ·) :=
  List.Pairwise.filter _ (pyRange_sorted _ _ _ h2)

theorem combineNorm_eq (beg1 end1 : Int) (step1 : Nat) (beg2 end2 : Int) (step2 : Nat)
    (hnt : ¬ (beg2 ≥ end1 ∨ end2 ≤ beg1)) :
    combineNorm beg1 end1 step1 beg2 end2 step2 =
      match scanList beg1 step1 (begAdj (max beg1 beg2) beg2 step2) (min end1 end2) step2 with
      | [] => (0, 0, 1)
      | [x] => ((x - beg1) / (step1 : Int), (x - beg1) / (step1 : Int) + 1, 1)
      | x :: y :: _ =>
        ((x - beg1) / (step1 : Int),
          (if (min end1 end2 - beg1) % (step1 : Int) != 0
            then (min end1 end2 - beg1) / (step1 : Int) + 1
            else (min end1 end2 - beg1) / (step1 : Int)),
          (y - beg1) / (step1 : Int) - (x - beg1) / (step1 : Int)) := by
  have hc : ¬ ((decide (beg2 ≥ end1) || decide (end2 ≤ beg1)) = true) := by simpa using hnt
  unfold combineNorm
  rw [if_neg hc]
  simp only []
  rw [firstTwo_eq _ _ _ _ _ _ [] (by simp)]
  change (match ([] ++ List.take (2 - ([] : List Int).length)
      ((scanList beg1 step1 (begAdj (max beg1 beg2) beg2 step2) (min end1 end2) step2).map
        fun v => (v - beg1) / (step1 : Int))) with
    | [] => _ | [i] => _ | i :: j :: _ => _) = _
  rcases scanList beg1 step1 (begAdj (max beg1 beg2) beg2 step2) (min end1 end2) step2 with
    _ | ⟨x, _ | ⟨y, rest⟩⟩ <;> simp

/-- Positions of `range(slice1)` whose element belongs to `range(slice2)`. -/
theorem mem_combineSpec (beg1 end1 : Int) (step1 : Nat) (beg2 end2 : Int) (step2 : Nat)
    (h1 : 0 < step1) (h2 : 0 < step2) (k : Nat) :
    k ∈ combineSpec beg1 end1 step1 beg2 end2 step2 ↔
      beg1 + (k : Int) * (step1 : Int) < end1 ∧ beg2 ≤ beg1 + (k : Int) * (step1 : Int) ∧
        beg1 + (k : Int) * (step1 : Int) < end2 ∧
        (step2 : Int) ∣ beg1 + (k : Int) * (step1 : Int) - beg2 := by
  simp only [combineSpec, List.mem_filter, List.mem_range, List.contains_iff_mem]
  rw [← lt_pyRange_length_iff _ _ _ h1]
  refine and_congr_right fun hk => ?_
  rw [pyRange_getD _ _ _ _ hk, mem_pyRange _ _ _ h2]

theorem combineSpec_sorted (beg1 end1 : Int) (step1 : Nat) (beg2 end2 : Int) (step2 : Nat) :
    (combineSpec beg1 end1 step1 beg2 end2 step2).Pairwise (· < ·) :=
  List.Pairwise.filter _ List.pairwise_lt_range

/-- Position `k` is selected by the spec iff its element is found by the scan. -/
theorem mem_combineSpec_iff_scan (beg1 end1 : Int) (step1 : Nat) (beg2 end2 : Int) (step2 : Nat)
    (h1 : 0 < step1) (h2 : 0 < step2) (k : Nat) :
    k ∈ combineSpec beg1 end1 step1 beg2 end2 step2 ↔
      beg1 + (k : Int) * (step1 : Int) ∈
        scanList beg1 step1 (begAdj (max beg1 beg2) beg2 step2) (min end1 end2) step2 := by
  rw [mem_combineSpec _ _ _ _ _ _ h1 h2, mem_scanList _ _ _ _ _ h2]
  obtain ⟨hb1, hb2, hb3⟩ := begAdj_spec (max beg1 beg2) beg2 step2 h2
  have hs2 : (0 : Int) < step2 := by omega
  have hnn := natCast_mul_nonneg k step1
  generalize begAdj (max beg1 beg2) beg2 step2 = beg at *
  have hv1 : (step1 : Int) ∣ beg1 + (k : Int) * (step1 : Int) - beg1 := ⟨k, by ring⟩
  have hvge : beg1 ≤ beg1 + (k : Int) * (step1 : Int) := by omega
  generalize beg1 + (k : Int) * (step1 : Int) = v at *
  constructor
  · rintro ⟨a1, a2, a3, a4⟩
    have hd : (step2 : Int) ∣ v - beg := by
      have : v - beg = (v - beg2) - (beg - beg2) := by ring
      rw [this]; exact Int.dvd_sub a4 hb3
    have := nonneg_of_dvd_of_neg_lt hs2 hd (by omega)
    exact ⟨by omega, by omega, hd, hv1⟩
  · rintro ⟨a1, a2, a3, a4⟩
    refine ⟨by omega, by omega, by omega, ?_⟩
    have : v - beg2 = (v - beg) + (beg - beg2) := by ring
    rw [this]; exact Int.dvd_add a3 hb3

theorem not_mem_applySliceTo_empty (n k : Nat) : k ∉ applySliceTo n 0 0 1 := by
  rw [mem_applySliceTo _ _ _ _ (by omega) (by omega) (by omega)]
  omega

/-- `combine_slices` on normalised triples with positive steps is exact, for all inputs. -/
theorem combineNorm_correct (beg1 end1 : Int) (step1 : Nat) (beg2 end2 : Int) (step2 : Nat)
    (h1 : 0 < step1) (h2 : 0 < step2) :
    applySliceTo (rangeLen beg1 end1 step1)
        (combineNorm beg1 end1 step1 beg2 end2 step2).1
        (combineNorm beg1 end1 step1 beg2 end2 step2).2.1
        (combineNorm beg1 end1 step1 beg2 end2 step2).2.2 =
      combineSpec beg1 end1 step1 beg2 end2 step2 := by
  have hS1 : (0 : Int) < step1 := by omega
  by_cases hnt : beg2 ≥ end1 ∨ end2 ≤ beg1
  · have hout : combineNorm beg1 end1 step1 beg2 end2 step2 = (0, 0, 1) := by
      unfold combineNorm; rw [if_pos (by simpa using hnt)]
    rw [hout]
    simp only []
    refine eq_of_sorted_of_mem_iff
      (applySliceTo_sorted _ _ _ _ (by omega) (by omega)) (combineSpec_sorted ..) fun k => ?_
    rw [mem_combineSpec _ _ _ _ _ _ h1 h2]
    have := natCast_mul_nonneg k step1
    have := not_mem_applySliceTo_empty (rangeLen beg1 end1 step1) k
    constructor
    · intro h; contradiction
    · rintro ⟨a, b, c, _⟩; omega
  · rw [combineNorm_eq _ _ _ _ _ _ hnt]
    have hscan := mem_combineSpec_iff_scan beg1 end1 step1 beg2 end2 step2 h1 h2
    have hmem := mem_scanList beg1 step1 (begAdj (max beg1 beg2) beg2 step2) (min end1 end2)
      step2 h2
    have hsorted := scanList_sorted beg1 step1 (begAdj (max beg1 beg2) beg2 step2)
      (min end1 end2) step2 h2
    obtain ⟨hb1, hb2, hb3⟩ := begAdj_spec (max beg1 beg2) beg2 step2 h2
    generalize begAdj (max beg1 beg2) beg2 step2 = beg at *
    generalize hF : scanList beg1 step1 beg (min end1 end2) step2 = F at *
    rcases F with _ | ⟨x, _ | ⟨y, rest⟩⟩
    · -- no common element
      simp only []
      refine eq_of_sorted_of_mem_iff
        (applySliceTo_sorted _ _ _ _ (by omega) (by omega)) (combineSpec_sorted ..) fun k => ?_
      have := not_mem_applySliceTo_empty (rangeLen beg1 end1 step1) k
      rw [hscan k]
      simp [this]
    · -- exactly one common element
      simp only []
      have hx := (hmem x).mp (by simp)
      have hxi : (x - beg1) / (step1 : Int) * (step1 : Int) = x - beg1 :=
        Int.ediv_mul_cancel hx.2.2.2
      have hi0 : 0 ≤ (x - beg1) / (step1 : Int) := Int.ediv_nonneg (by omega) hS1.le
      generalize (x - beg1) / (step1 : Int) = i at *
      refine eq_of_sorted_of_mem_iff
        (applySliceTo_sorted _ _ _ _ (by omega) hi0) (combineSpec_sorted ..) fun k => ?_
      rw [mem_applySliceTo _ _ _ _ (by omega) hi0 (by omega), hscan k, lt_rangeLen_iff _ _ _ h1,
        List.mem_singleton]
      constructor
      · rintro ⟨a, b, c, _⟩
        have hk : (k : Int) = i := by omega
        rw [hk]; omega
      · intro hk
        have hki : (k : Int) = i :=
          Int.eq_of_mul_eq_mul_right (Int.ne_of_gt hS1) (by omega)
        exact ⟨by omega, by omega, by omega, one_dvd _⟩
    · -- at least two common elements: the remainder argument
      simp only []
      have hx := (hmem x).mp (by simp)
      have hy := (hmem y).mp (by simp)
      rw [List.pairwise_cons, List.pairwise_cons] at hsorted
      have hxy : x < y := hsorted.1 y (by simp)
      have hfirst : ∀ v, (beg ≤ v ∧ v < min end1 end2 ∧ (step2 : Int) ∣ v - beg ∧
          (step1 : Int) ∣ v - beg1) → v = x ∨ y ≤ v := by
        intro v hv
        have hvF := (hmem v).mpr hv
        rcases List.mem_cons.mp hvF with h | h
        · exact Or.inl h
        · rcases List.mem_cons.mp h with h | h
          · exact Or.inr (by omega)
          · exact Or.inr (le_of_lt (hsorted.2.1 v h))
      have hkey := common_iff_of_first_two hx hy hxy hfirst
      have hxi : (x - beg1) / (step1 : Int) * (step1 : Int) = x - beg1 :=
        Int.ediv_mul_cancel hx.2.2.2
      have hyj : (y - beg1) / (step1 : Int) * (step1 : Int) = y - beg1 :=
        Int.ediv_mul_cancel hy.2.2.2
      have hi0 : 0 ≤ (x - beg1) / (step1 : Int) := Int.ediv_nonneg (by omega) hS1.le
      have hend := fun k => lt_ceil_iff (min end1 end2 - beg1) step1 k hS1
      generalize (x - beg1) / (step1 : Int) = i at *
      generalize (y - beg1) / (step1 : Int) = j at *
      generalize (if ((min end1 end2 - beg1) % (step1 : Int) != 0) = true
        then (min end1 end2 - beg1) / (step1 : Int) + 1
        else (min end1 end2 - beg1) / (step1 : Int)) = endNew at *
      have hij : i < j := Int.lt_of_mul_lt_mul_right (by omega) hS1.le
      have hend0 : 0 ≤ endNew := by
        have := (hend (-1)).mpr (by omega)
        omega
      refine eq_of_sorted_of_mem_iff
        (applySliceTo_sorted _ _ _ _ (by omega) hi0) (combineSpec_sorted ..) fun k => ?_
      rw [mem_applySliceTo _ _ _ _ (by omega) hi0 hend0, hscan k, hmem, hkey, hend,
        lt_rangeLen_iff _ _ _ h1]
      have hdvd : (y - x) ∣ beg1 + (k : Int) * (step1 : Int) - x ↔ (j - i) ∣ (k : Int) - i := by
        have e1 : y - x = (j - i) * (step1 : Int) := by rw [Int.sub_mul]; omega
        have e2 : beg1 + (k : Int) * (step1 : Int) - x = ((k : Int) - i) * (step1 : Int) := by
          rw [Int.sub_mul]; omega
        rw [e1, e2, Int.mul_dvd_mul_iff_right (Int.ne_of_gt hS1)]
      have hle : x ≤ beg1 + (k : Int) * (step1 : Int) ↔ i ≤ (k : Int) := by
        rw [← Int.mul_le_mul_right hS1 (b := i) (c := (k : Int))]; omega
      rw [hdvd, hle]
      constructor
      · rintro ⟨a, b, c, d⟩; exact ⟨a, by omega, d⟩
      · rintro ⟨a, b, d⟩; exact ⟨a, by omega, by omega, d⟩

/-- The statement the driver evaluates (`implok`): whenever both `slice.indices` calls succeed
with positive steps, the model's output satisfies `specCombine`. -/
theorem specCombine_combineNorm (len : Nat) (s1 s2 : Option Int × Option Int × Option Int)
    (b1 e1 st1 b2 e2 st2 : Int)
    (hs1 : sliceIndices s1.1 s1.2.1 s1.2.2 len = some (b1, e1, st1))
    (hs2 : sliceIndices s2.1 s2.2.1 s2.2.2 len = some (b2, e2, st2))
    (h1 : 0 < st1) (h2 : 0 < st2) :
    specCombine len s1 s2 (combineNorm b1 e1 st1.toNat b2 e2 st2.toNat) = true := by
  unfold specCombine
  rw [hs1, hs2]
  simp only [gt_iff_lt, h1, h2, and_self, if_true, beq_iff_eq]
  exact combineNorm_correct b1 e1 st1.toNat b2 e2 st2.toNat (by omega) (by omega)

end GlueVerif.Lemmas.C20Combine
