import GlueVerif.Lemmas.CoordsLinAlg
import GlueVerif.Lemmas.CoordsClosure
/-!
# C15 — the broadcasting shortcuts never change a value

Pointwise congruence of the transformations (`worldAtQ_congr`, `w2p_congr`), then the grid / array /
mask paths of `_calculate` and the link computations, all in any dimension.
-/
namespace GlueVerif.Lemmas.Coords
open GlueVerif.Coords GlueVerif.ArrayUtil
open Finset

/-! ### list plumbing -/

theorem getD_reverse (l : List Rat) (n j : Nat) (hl : l.length = n) (hj : j < n) :
    l.reverse.getD j 0 = l.getD (n - 1 - j) 0 := by
  have h1 : j < l.reverse.length := by simp [hl, hj]
  have h2 : n - 1 - j < l.length := by omega
  simp only [List.getD, List.getElem?_eq_getElem h1, List.getElem?_eq_getElem h2, Option.getD_some,
    List.getElem_reverse]
  congr 1
  omega

theorem getD_natPos (idx : List Nat) (i : Nat) : (natPos idx).getD i 0 = ((idx.getD i 0 : Nat) : Rat) := by
  unfold natPos
  by_cases h : i < idx.length
  · simp [List.getD, h]
  · simp [List.getD, h]

theorem length_natPos (idx : List Nat) : (natPos idx).length = idx.length := by simp [natPos]

theorem mem_cart_length : ∀ (ls : List (List Nat)) (idx : List Nat), idx ∈ cart ls → idx.length = ls.length
  | [], idx, h => by simp [cart] at h; simp [h]
  | xs :: rest, idx, h => by
    simp only [cart, List.mem_flatMap, List.mem_map] at h
    obtain ⟨x, _, t, ht, rfl⟩ := h
    simp [mem_cart_length rest t ht]

theorem maskFilter_map {α β : Type} (f : α → β) : ∀ (l : List α) (m : List Bool),
    maskFilter (l.map f) m = (maskFilter l m).map f
  | [], _ => by simp [maskFilter]
  | _ :: _, [] => by simp [maskFilter]
  | x :: xs, b :: bs => by
    cases b <;> simp [maskFilter, maskFilter_map f xs bs]

theorem mem_maskFilter {α : Type} : ∀ (l : List α) (m : List Bool) (x : α), x ∈ maskFilter l m → x ∈ l
  | [], _, x, h => by simp [maskFilter] at h
  | _ :: _, [], x, h => by simp [maskFilter] at h
  | y :: ys, b :: bs, x, h => by
    cases b
    · simp only [maskFilter, Bool.false_eq_true, if_false] at h
      exact List.mem_cons_of_mem _ (mem_maskFilter ys bs x h)
    · simp only [maskFilter, if_true, List.mem_cons] at h
      rcases h with h | h
      · rw [h]; exact List.mem_cons_self
      · exact List.mem_cons_of_mem _ (mem_maskFilter ys bs x h)

theorem selsOf_length : ∀ (sh : List Nat) (items : List ViewItem) (sels : List Sel),
    selsOf sh items = .ok sels → sels.length = sh.length
  | [], [], sels, h => by simp [selsOf] at h; cases h; rfl
  | [], _ :: _, sels, h => by simp [selsOf] at h
  | h :: hs, [], sels, hh => by
    simp only [selsOf] at hh
    cases hr : selsOf hs [] with
    | error e => rw [hr] at hh; simp [Except.map] at hh
    | ok rest =>
      rw [hr] at hh
      simp only [Except.map, Except.ok.injEq] at hh
      subst hh
      simp [selsOf_length hs [] rest hr]
  | h :: hs, it :: its, sels, hh => by
    simp only [selsOf, bind, Except.bind, pure, Except.pure] at hh
    cases hs1 : selOf h it with
    | error e => rw [hs1] at hh; simp at hh
    | ok s =>
      rw [hs1] at hh
      simp only at hh
      cases hr : selsOf hs its with
      | error e => rw [hr] at hh; simp at hh
      | ok rest =>
        rw [hr] at hh
        simp only [Except.ok.injEq] at hh
        subst hh
        simp [selsOf_length hs its rest hr]

theorem fullSels_length (sh : List Nat) : (fullSels sh).length = sh.length := by simp [fullSels]

/-! ### pointwise congruence of the forward transformation -/

theorem Coord.p2w_length (c : Coord) (x : List Rat) : (c.p2w x).length = c.n := by
  cases c <;> simp [Coord.p2w, Coord.n, affApply]

theorem Coord.w2p_length (c : Coord) (x : List Rat) : (c.w2p x).length = c.n := by
  cases c <;> simp [Coord.w2p, Coord.n, affApply]

/-- Component `k` of `pixel_to_world` only depends on the pixel axes flagged in row `k` of the
correlation matrix. -/
theorem p2w_congr (c : Coord) (k : Nat) (hk : k < c.n) (x x' : List Rat)
    (h : ∀ j, j < c.n → c.corr k j = true → x.getD j 0 = x'.getD j 0) :
    (c.p2w x).getD k 0 = (c.p2w x').getD k 0 := by
  cases c with
  | identity n =>
    simp only [Coord.p2w, Coord.n] at *
    rw [getD_map_range, getD_map_range, if_pos hk, if_pos hk]
    exact h k hk (by simp [Coord.corr])
  | affine n m inv =>
    simp only [Coord.p2w, Coord.n] at *
    rw [getD_affApply _ _ _ _ hk, getD_affApply _ _ _ _ hk]
    congr 1
    apply Finset.sum_congr rfl
    intro j hj
    by_cases hz : ent m k j = 0
    · rw [hz, zero_mul, zero_mul]
    · rw [h j (Finset.mem_range.mp hj) (by simp [Coord.corr, hz])]

/-- `worldAtQ` only depends on the pixel axes flagged by the correlation row of the world axis. -/
theorem worldAtQ_congr (c : Coord) (a : Nat) (ha : a < c.n) (pos pos' : List Rat)
    (hl : pos.length = c.n) (hl' : pos'.length = c.n)
    (h : ∀ i, i < c.n → c.corr (c.n - 1 - a) (c.n - 1 - i) = true → pos.getD i 0 = pos'.getD i 0) :
    worldAtQ c a pos = worldAtQ c a pos' := by
  unfold worldAtQ toFits
  apply p2w_congr c (c.n - 1 - a) (by omega)
  intro j hj hc
  rw [getD_reverse pos c.n j hl hj, getD_reverse pos' c.n j hl' hj]
  apply h (c.n - 1 - j) (by omega)
  have : c.n - 1 - (c.n - 1 - j) = j := by omega
  rw [this]; exact hc

/-! ### `_calculate`: grid paths -/

theorem needSubset_iff (c : Coord) (a : Nat) (dep : List Nat) :
    needSubset c a dep = true ↔
      ∀ i, i < c.n → c.corr (c.n - 1 - a) (c.n - 1 - i) = true → dep.contains i = true := by
  unfold needSubset
  simp only [List.all_eq_true, List.mem_range, Bool.or_eq_true, Bool.not_eq_true']
  constructor
  · intro h i hi hc
    rcases h i hi with h' | h'
    · rw [hc] at h'; cases h'
    · exact h'
  · intro h i hi
    by_cases hc : c.corr (c.n - 1 - a) (c.n - 1 - i) = true
    · exact Or.inr (h i hi hc)
    · exact Or.inl (by simpa using hc)

theorem length_subst (c : Coord) (a : Nat) (dep firsts idx : List Nat) :
    (Impl.subst c a dep firsts idx).length = c.n := by simp [Impl.subst]

/-- The substituted position gives the same world value as the true grid point, as soon as `dep`
covers the pixel axes the world axis depends on. -/
theorem worldAtQ_subst (c : Coord) (a : Nat) (ha : a < c.n) (dep firsts idx : List Nat)
    (hdep : needSubset c a dep = true) (hidx : idx.length = c.n) :
    worldAtQ c a (Impl.subst c a dep firsts idx) = Spec.worldAt c a idx := by
  unfold Spec.worldAt
  apply worldAtQ_congr c a ha _ _ (length_subst c a dep firsts idx) (by rw [length_natPos, hidx])
  intro i hi hc
  unfold Impl.subst
  rw [getD_map_range, if_pos hi, if_pos ((needSubset_iff c a dep).mp hdep i hi hc), if_pos hc, getD_natPos]

theorem gridWith_eq (depFn : Coord → Nat → List Nat) (c : Coord) (a : Nat) (ha : a < c.n)
    (sels : List Sel) (hdep : needSubset c a (depFn c a) = true) (hs : sels.length = c.n) :
    Impl.gridWith depFn c a sels = (cart (sels.map Sel.toList)).map (Spec.worldAt c a) := by
  unfold Impl.gridWith
  apply List.map_congr_left
  intro idx hidx
  apply worldAtQ_subst c a ha _ _ _ hdep
  rw [mem_cart_length _ idx hidx, List.length_map, hs]

theorem arraysPath_eq (c : Coord) (a : Nat) (ha : a < c.n) (pts : List (List Nat))
    (hp : ∀ idx ∈ pts, idx.length = c.n) :
    Impl.arraysPath c a pts = pts.map (Spec.worldAt c a) := by
  unfold Impl.arraysPath
  apply List.map_congr_left
  intro idx hidx
  unfold Spec.worldAt
  apply worldAtQ_congr c a ha _ _ (by simp) (by rw [length_natPos, hp idx hidx])
  intro i hi hc
  rw [getD_map_range, if_pos hi, if_pos hc, getD_natPos]

/-! ### points of a view -/

theorem pointsOf_length (idx : List (List Nat)) (len : Nat) :
    ∀ p ∈ pointsOf idx len, p.length = idx.length := by
  intro p hp
  simp only [pointsOf, List.mem_map, List.mem_range] at hp
  obtain ⟨r, _, rfl⟩ := hp
  simp

theorem viewPoints_length (sh : List Nat) (v : View) (shape : List Nat) (pts : List (List Nat))
    (h : viewPoints sh v = .ok (shape, pts)) : ∀ idx ∈ pts, idx.length = sh.length := by
  intro idx hidx
  cases v with
  | all =>
    simp only [viewPoints, Except.ok.injEq, Prod.mk.injEq] at h
    rw [← h.2] at hidx
    rw [mem_cart_length _ idx hidx, List.length_map, fullSels_length]
  | basic items =>
    simp only [viewPoints, bind, Except.bind, pure, Except.pure] at h
    cases hs : selsOf sh items with
    | error e => rw [hs] at h; simp at h
    | ok sels =>
      rw [hs] at h
      simp only [Except.ok.injEq, Prod.mk.injEq] at h
      rw [← h.2] at hidx
      rw [mem_cart_length _ idx hidx, List.length_map, selsOf_length sh items sels hs]
  | arrays s ix =>
    simp only [viewPoints] at h
    split at h
    · simp at h
    · rename_i h1
      split at h
      · simp at h
      · simp only [Except.ok.injEq, Prod.mk.injEq] at h
        rw [← h.2] at hidx
        rw [pointsOf_length ix _ idx hidx]
        simp only [not_or, Decidable.not_not] at h1
        exact h1.1
  | mask m =>
    simp only [viewPoints] at h
    split at h
    · simp at h
    · simp only [Except.ok.injEq, Prod.mk.injEq] at h
      rw [← h.2] at hidx
      have := mem_maskFilter _ _ _ hidx
      rw [mem_cart_length _ idx this, List.length_map, fullSels_length]

end GlueVerif.Lemmas.Coords
