import GlueVerif.Lemmas.C09Poly
/-!
Helper lemmas for C09: `polygon_line_intersections` is correct.

Along the vertical line `x = xv` the parity of the crossings of the `+y` ray only changes at the
crossing ordinates the code collects (vertex hits and proper crossings); by direction independence
(`evenOdd_eq_parV`) this parity is matplotlib's test off the boundary, so the mid-point test of
each pair of consecutive ordinates decides the whole open interval.
-/
namespace GlueVerif.C09.Lemmas

/-! ## sort / unique on rationals -/

theorem mem_insQ (x y : Rat) (l : List Rat) : y ∈ insQ x l ↔ y = x ∨ y ∈ l := by
  induction l with
  | nil => simp [insQ]
  | cons z zs ih =>
    unfold insQ
    split
    · simp
    · split
      · rename_i h; subst h; simp
      · simp [ih]; constructor <;> (intro h; rcases h with h | h | h <;> simp [h])

theorem pairwise_insQ (x : Rat) (l : List Rat) (h : l.Pairwise (· < ·)) : (insQ x l).Pairwise (· < ·) := by
  induction l with
  | nil => simp [insQ]
  | cons z zs ih =>
    rw [List.pairwise_cons] at h
    unfold insQ
    split
    · rename_i hxz
      rw [List.pairwise_cons]
      refine ⟨?_, List.pairwise_cons.mpr h⟩
      intro y hy
      rcases List.mem_cons.mp hy with rfl | hy
      · exact hxz
      · exact lt_trans hxz (h.1 y hy)
    · split
      · exact List.pairwise_cons.mpr h
      · rename_i h1 h2
        rw [List.pairwise_cons]
        refine ⟨?_, ih h.2⟩
        intro y hy
        rcases (mem_insQ x y zs).mp hy with rfl | hy
        · exact lt_of_le_of_ne (not_lt.mp h1) (fun e => h2 e.symm)
        · exact h.1 y hy

theorem mem_sortUniq (y : Rat) (xs : List Rat) : y ∈ sortUniq xs ↔ y ∈ xs := by
  induction xs with
  | nil => simp [sortUniq]
  | cons x xs ih =>
    show y ∈ insQ x (sortUniq xs) ↔ _
    rw [mem_insQ, ih]; simp

theorem pairwise_sortUniq (xs : List Rat) : (sortUniq xs).Pairwise (· < ·) := by
  induction xs with
  | nil => simp [sortUniq]
  | cons x xs ih => exact pairwise_insQ x _ ih

theorem consecPairs_spec (S : List Rat) (hS : S.Pairwise (· < ·)) (ab : Rat × Rat)
    (h : ab ∈ consecPairs S) :
    ab.1 ∈ S ∧ ab.2 ∈ S ∧ ab.1 < ab.2 ∧ ∀ s ∈ S, s ≤ ab.1 ∨ ab.2 ≤ s := by
  induction S with
  | nil => simp [consecPairs] at h
  | cons x rest ih =>
    cases rest with
    | nil => simp [consecPairs] at h
    | cons y rest' =>
      rw [List.pairwise_cons] at hS
      simp only [consecPairs, List.mem_cons] at h
      rcases h with rfl | h
      · refine ⟨by simp, by simp, hS.1 y (by simp), ?_⟩
        intro s hs
        rcases List.mem_cons.mp hs with rfl | hs
        · left; exact le_refl _
        · right
          rcases List.mem_cons.mp hs with rfl | hs
          · exact le_refl _
          · exact le_of_lt ((List.pairwise_cons.mp hS.2).1 s hs)
      · obtain ⟨h1, h2, h3, h4⟩ := ih hS.2 h
        refine ⟨List.mem_cons_of_mem _ h1, List.mem_cons_of_mem _ h2, h3, ?_⟩
        intro s hs
        rcases List.mem_cons.mp hs with rfl | hs
        · left; exact le_of_lt (hS.1 _ h1)
        · exact h4 s hs

theorem exists_bracket (S : List Rat) (hS : S.Pairwise (· < ·)) (v : Rat) (hv : v ∉ S)
    (hlo : ∃ s ∈ S, s < v) (hhi : ∃ s ∈ S, v < s) :
    ∃ ab ∈ consecPairs S, ab.1 < v ∧ v < ab.2 := by
  induction S with
  | nil => obtain ⟨s, hs, _⟩ := hlo; simp at hs
  | cons x rest ih =>
    cases rest with
    | nil =>
      obtain ⟨s, hs, h1⟩ := hlo
      obtain ⟨t, ht, h2⟩ := hhi
      simp at hs ht
      subst hs; subst ht
      exact absurd (lt_trans h1 h2) (lt_irrefl _)
    | cons y rest' =>
      rw [List.pairwise_cons] at hS
      have hxy : x < y := hS.1 y (by simp)
      have hvy : v ≠ y := fun e => hv (by simp [e])
      have hvx : v ≠ x := fun e => hv (by simp [e])
      by_cases hlt : v < y
      · -- the only element below v is x
        obtain ⟨s, hs, h1⟩ := hlo
        have hsx : s = x := by
          rcases List.mem_cons.mp hs with e | hs'
          · exact e
          · exfalso
            have : y ≤ s := by
              rcases List.mem_cons.mp hs' with e | hs''
              · exact le_of_eq e.symm
              · exact le_of_lt ((List.pairwise_cons.mp hS.2).1 s hs'')
            linarith
        subst hsx
        exact ⟨(s, y), by simp [consecPairs], h1, hlt⟩
      · have hyv : y < v := lt_of_le_of_ne (not_lt.mp hlt) (fun e => hvy e.symm)
        obtain ⟨t, ht, h2⟩ := hhi
        have ht' : t ∈ y :: rest' := by
          rcases List.mem_cons.mp ht with e | ht'
          · subst e; linarith
          · exact ht'
        obtain ⟨ab, hab, h3⟩ := ih hS.2 (fun hm => hv (List.mem_cons_of_mem _ hm))
          ⟨y, by simp, hyv⟩ ⟨t, ht', h2⟩
        exact ⟨ab, by simp [consecPairs, hab], h3⟩

/-! ## structure of the edge list of a closed chain -/

theorem consecEdges_append_singleton (ws : List Pt) (hne : ws ≠ []) (v : Pt) :
    consecEdges (ws ++ [v]) = consecEdges ws ++ [(ws.getLast hne, v)] := by
  induction ws with
  | nil => exact absurd rfl hne
  | cons a rest ih =>
    cases rest with
    | nil => simp [consecEdges]
    | cons b rest' =>
      have := ih (by simp)
      simp only [List.cons_append, consecEdges, List.getLast_cons_cons] at this ⊢
      rw [this]

theorem cyclicEdges_cons (v : Pt) (rest : List Pt) :
    cyclicEdges (v :: rest) = consecEdges (v :: rest) ++ [((v :: rest).getLast (by simp), v)] := by
  unfold cyclicEdges
  exact consecEdges_append_singleton (v :: rest) (by simp) v

/-- Every vertex starts a cyclic edge. -/
theorem vertex_starts_edge (vs : List Pt) (q : Pt) (hq : q ∈ vs) : ∃ e ∈ cyclicEdges vs, e.1 = q := by
  cases vs with
  | nil => simp at hq
  | cons v rest =>
    rw [cyclicEdges_cons]
    -- generalise the closing vertex
    suffices h : ∀ (ws : List Pt) (w : Pt) (hne : ws ≠ []), q ∈ ws →
        ∃ e ∈ consecEdges ws ++ [(ws.getLast hne, w)], e.1 = q from h (v :: rest) v (by simp) hq
    intro ws w hne hq
    induction ws with
    | nil => exact absurd rfl hne
    | cons a rest ih =>
      cases rest with
      | nil =>
        simp at hq; subst hq
        exact ⟨(q, w), by simp [consecEdges], rfl⟩
      | cons b rest' =>
        rcases List.mem_cons.mp hq with rfl | hq'
        · exact ⟨(q, b), by simp [consecEdges], rfl⟩
        · obtain ⟨e, he, h1⟩ := ih (by simp) hq'
          refine ⟨e, ?_, h1⟩
          simp only [consecEdges, List.getLast_cons_cons, List.cons_append, List.mem_cons]
          right
          simpa using he

theorem onSeg_left (a b : Pt) : onSeg a b a = true := by
  unfold onSeg
  simp [min_le_iff, le_max_iff]

/-! ## the line `x = xv` -/

/-- The edge straddles the line (half-open rule of the crossing test). -/
def straddle (a b : Pt) (xv : Rat) : Bool := decide (a.x ≥ xv) != decide (b.x ≥ xv)

theorem yAt_mul (a b : Pt) (xv : Rat) (h : b.x - a.x ≠ 0) :
    (yAt a b xv - a.y) * (b.x - a.x) = (b.y - a.y) * (xv - a.x) := by
  unfold yAt
  field_simp
  ring

/-- `crossV` on a straddling edge compares the intersection ordinate with the point. -/
theorem crossV_straddle (a b : Pt) (xv y : Rat) (hs : straddle a b xv = true)
    (hne : yAt a b xv ≠ y) : crossV a b ⟨xv, y⟩ = decide (yAt a b xv > y) := by
  rw [crossV_def]
  unfold straddle at hs
  simp only at hs ⊢
  rw [hs, Bool.true_and]
  generalize h1 : decide (a.x ≥ xv) = b1 at hs
  generalize h2 : decide (b.x ≥ xv) = b2 at hs ⊢
  generalize h3 : decide ((b.x - xv) * (a.y - b.y) ≥ (b.y - y) * (a.x - b.x)) = b3
  generalize h4 : decide (yAt a b xv > y) = b4
  cases b1 <;> cases b2 <;> simp at hs <;>
    simp only [decide_eq_true_eq, decide_eq_false_iff_not, ge_iff_le, gt_iff_lt, not_le, not_lt] at h1 h2
  · -- a.x < xv ≤ b.x
    have hw : b.x - a.x > 0 := by linarith
    have hm := yAt_mul a b xv (ne_of_gt hw)
    have key : (yAt a b xv - y) * (b.x - a.x) = (b.x - xv) * (a.y - b.y) - (b.y - y) * (a.x - b.x) := by
      have : (yAt a b xv - y) * (b.x - a.x) = (yAt a b xv - a.y) * (b.x - a.x) + (a.y - y) * (b.x - a.x) := by ring
      rw [this, hm]; ring
    cases b3 <;> cases b4 <;>
      simp only [decide_eq_true_eq, decide_eq_false_iff_not, ge_iff_le, gt_iff_lt, not_le, not_lt] at h3 h4 <;>
      first
      | rfl
      | (exfalso
         rcases lt_or_gt_of_ne hne with hlt | hgt
         · nlinarith
         · nlinarith)
  · -- b.x < xv ≤ a.x
    have hw : b.x - a.x < 0 := by linarith
    have hm := yAt_mul a b xv (ne_of_lt hw)
    have key : (yAt a b xv - y) * (b.x - a.x) = (b.x - xv) * (a.y - b.y) - (b.y - y) * (a.x - b.x) := by
      have : (yAt a b xv - y) * (b.x - a.x) = (yAt a b xv - a.y) * (b.x - a.x) + (a.y - y) * (b.x - a.x) := by ring
      rw [this, hm]; ring
    cases b3 <;> cases b4 <;>
      simp only [decide_eq_true_eq, decide_eq_false_iff_not, ge_iff_le, gt_iff_lt, not_le, not_lt] at h3 h4 <;>
      first
      | rfl
      | (exfalso
         rcases lt_or_gt_of_ne hne with hlt | hgt
         · nlinarith
         · nlinarith)

theorem crossV_not_straddle (a b : Pt) (xv y : Rat) (hs : straddle a b xv = false) :
    crossV a b ⟨xv, y⟩ = false := by
  rw [crossV_def]
  unfold straddle at hs
  simp only at hs ⊢
  rw [hs, Bool.false_and]

/-- A vertex chain whose last vertex repeats the first. -/
def Closed (cl : List Pt) : Prop := cl.getLast? = cl.head?

theorem closed_getLast (v : Pt) (rest : List Pt) (hc : Closed (v :: rest)) :
    (v :: rest).getLast (by simp) = v := by
  unfold Closed at hc
  rw [List.getLast?_eq_some_getLast (by simp)] at hc
  simpa using hc

/-- In a closed chain the closing edge is degenerate. -/
theorem cyclic_mem_cases (cl : List Pt) (hc : Closed cl) (e : Pt × Pt) (he : e ∈ cyclicEdges cl) :
    e ∈ consecEdges cl ∨ (e.1 = e.2 ∧ e.1 ∈ cl) := by
  cases cl with
  | nil => simp [cyclicEdges] at he
  | cons v rest =>
    rw [cyclicEdges_cons, closed_getLast v rest hc] at he
    rcases List.mem_append.mp he with h | h
    · left; exact h
    · right
      simp at h
      subst h
      simp

theorem consec_subset_cyclic (cl : List Pt) (e : Pt × Pt) (he : e ∈ consecEdges cl) : e ∈ cyclicEdges cl := by
  cases cl with
  | nil => simp [consecEdges] at he
  | cons v rest =>
    rw [cyclicEdges_cons]
    exact List.mem_append_left _ he

theorem mem_crossingOrdinates (cl : List Pt) (xv y : Rat) :
    y ∈ crossingOrdinates cl xv ↔
      (∃ q ∈ cl, q.x = xv ∧ q.y = y) ∨
      (∃ e ∈ consecEdges cl, properCross e.1 e.2 xv = true ∧ yAt e.1 e.2 xv = y) := by
  unfold crossingOrdinates vertexHits properCrossings
  rw [mem_sortUniq, List.mem_append]
  simp only [List.mem_map, List.mem_filter, decide_eq_true_eq]
  constructor
  · rintro (⟨q, ⟨hq, hx⟩, hy⟩ | ⟨e, ⟨he, hp⟩, hy⟩)
    · exact Or.inl ⟨q, hq, hx, hy⟩
    · exact Or.inr ⟨e, he, hp, hy⟩
  · rintro (⟨q, hq, hx, hy⟩ | ⟨e, he, hp, hy⟩)
    · exact Or.inl ⟨q, ⟨hq, hx⟩, hy⟩
    · exact Or.inr ⟨e, ⟨he, hp⟩, hy⟩

/-- The intersection ordinate of every straddling edge is one of the collected ordinates. -/
theorem straddle_yAt_mem (cl : List Pt) (hc : Closed cl) (xv : Rat) (e : Pt × Pt)
    (he : e ∈ cyclicEdges cl) (hs : straddle e.1 e.2 xv = true) :
    yAt e.1 e.2 xv ∈ crossingOrdinates cl xv := by
  rw [mem_crossingOrdinates]
  have hmem := mem_cyclicEdges cl e he
  rcases cyclic_mem_cases cl hc e he with hce | ⟨hdeg, _⟩
  swap
  · unfold straddle at hs; rw [hdeg] at hs; simp at hs
  obtain ⟨a, b⟩ := e
  simp only at hs hmem hce ⊢
  unfold straddle at hs
  generalize h1 : decide (a.x ≥ xv) = b1 at hs
  generalize h2 : decide (b.x ≥ xv) = b2 at hs
  cases b1 <;> cases b2 <;> simp at hs <;>
    simp only [decide_eq_true_eq, decide_eq_false_iff_not, ge_iff_le, not_le] at h1 h2
  · -- a.x < xv ≤ b.x
    have hw : b.x - a.x ≠ 0 := by intro h; linarith
    have hm := yAt_mul a b xv hw
    rcases eq_or_lt_of_le h2 with heq | hlt
    · left
      refine ⟨b, hmem.2, heq.symm, ?_⟩
      have : (yAt a b xv - a.y) * (b.x - a.x) = (b.y - a.y) * (b.x - a.x) := by rw [hm, heq]
      have := mul_right_cancel₀ hw this
      linarith
    · right
      refine ⟨(a, b), hce, ?_, rfl⟩
      unfold properCross
      simp [h1, hlt]
  · -- b.x < xv ≤ a.x
    have hw : b.x - a.x ≠ 0 := by intro h; linarith
    have hm := yAt_mul a b xv hw
    rcases eq_or_lt_of_le h1 with heq | hlt
    · left
      refine ⟨a, hmem.1, heq.symm, ?_⟩
      have : (yAt a b xv - a.y) * (b.x - a.x) = 0 := by rw [hm, heq]; ring
      rcases mul_eq_zero.mp this with h | h
      · linarith
      · exact absurd h hw
    · right
      refine ⟨(a, b), hce, ?_, rfl⟩
      unfold properCross
      simp [h2, hlt]

theorem onSeg_yAt (a b : Pt) (xv : Rat) (h : properCross a b xv = true) :
    onSeg a b ⟨xv, yAt a b xv⟩ = true := by
  unfold properCross at h
  simp only [Bool.or_eq_true, Bool.and_eq_true, decide_eq_true_eq, gt_iff_lt] at h
  have hw : b.x - a.x ≠ 0 := by
    rcases h with ⟨h1, h2⟩ | ⟨h1, h2⟩ <;> (intro h0; linarith)
  have hm := yAt_mul a b xv hw
  have hm2 : (b.y - yAt a b xv) * (b.x - a.x) = (b.y - a.y) * (b.x - xv) := by
    have : (b.y - yAt a b xv) * (b.x - a.x) = (b.y - a.y) * (b.x - a.x) - (yAt a b xv - a.y) * (b.x - a.x) := by ring
    rw [this, hm]; ring
  unfold onSeg
  simp only [Bool.and_eq_true, decide_eq_true_eq, min_le_iff, le_max_iff]
  refine ⟨⟨⟨⟨?_, ?_⟩, ?_⟩, ?_⟩, ?_⟩
  · linarith
  · rcases h with ⟨h1, h2⟩ | ⟨h1, h2⟩
    · left; linarith
    · right; linarith
  · rcases h with ⟨h1, h2⟩ | ⟨h1, h2⟩
    · right; linarith
    · left; linarith
  · rcases le_total a.y b.y with hab | hab
    · left
      rcases h with ⟨h1, h2⟩ | ⟨h1, h2⟩
      · by_contra hc; nlinarith
      · by_contra hc; nlinarith
    · right
      rcases h with ⟨h1, h2⟩ | ⟨h1, h2⟩
      · by_contra hc; nlinarith
      · by_contra hc; nlinarith
  · rcases le_total a.y b.y with hab | hab
    · right
      rcases h with ⟨h1, h2⟩ | ⟨h1, h2⟩
      · by_contra hc; nlinarith
      · by_contra hc; nlinarith
    · left
      rcases h with ⟨h1, h2⟩ | ⟨h1, h2⟩
      · by_contra hc; nlinarith
      · by_contra hc; nlinarith

/-- Every collected ordinate is a boundary point of the polygon. -/
theorem crossingOrdinate_on_boundary (cl : List Pt) (xv s : Rat) (hs : s ∈ crossingOrdinates cl xv) :
    onPolyBoundary cl ⟨xv, s⟩ = true := by
  rw [mem_crossingOrdinates] at hs
  unfold onPolyBoundary
  rw [List.any_eq_true]
  rcases hs with ⟨q, hq, hx, hy⟩ | ⟨e, he, hp, hy⟩
  · obtain ⟨e, he, h1⟩ := vertex_starts_edge cl q hq
    refine ⟨e, he, ?_⟩
    have : (⟨xv, s⟩ : Pt) = e.1 := by rw [h1, ← hx, ← hy]
    rw [this]
    exact onSeg_left _ _
  · refine ⟨e, consec_subset_cyclic cl e he, ?_⟩
    rw [← hy]
    exact onSeg_yAt e.1 e.2 xv hp

/-! ## parity along the line -/

/-- Parity of the crossings of the `+y` ray from `(xv, y)`. -/
def parV (cl : List Pt) (xv y : Rat) : Bool :=
  xorAll ((cyclicEdges cl).map fun e => crossV e.1 e.2 ⟨xv, y⟩)

theorem crossV_line (cl : List Pt) (hc : Closed cl) (xv y : Rat) (hy : y ∉ crossingOrdinates cl xv)
    (e : Pt × Pt) (he : e ∈ cyclicEdges cl) :
    crossV e.1 e.2 ⟨xv, y⟩ = (straddle e.1 e.2 xv && decide (yAt e.1 e.2 xv > y)) := by
  cases hs : straddle e.1 e.2 xv with
  | false => simp [crossV_not_straddle e.1 e.2 xv y hs]
  | true =>
    have hm := straddle_yAt_mem cl hc xv e he hs
    have hne : yAt e.1 e.2 xv ≠ y := fun h => hy (h ▸ hm)
    simp [crossV_straddle e.1 e.2 xv y hs hne]

theorem parV_congr (cl : List Pt) (hc : Closed cl) (xv y1 y2 : Rat)
    (h1 : y1 ∉ crossingOrdinates cl xv) (h2 : y2 ∉ crossingOrdinates cl xv)
    (h : ∀ s ∈ crossingOrdinates cl xv, s > y1 ↔ s > y2) : parV cl xv y1 = parV cl xv y2 := by
  unfold parV
  congr 1
  apply List.map_congr_left
  intro e he
  rw [crossV_line cl hc xv y1 h1 e he, crossV_line cl hc xv y2 h2 e he]
  cases hs : straddle e.1 e.2 xv with
  | false => rfl
  | true =>
    have hm := straddle_yAt_mem cl hc xv e he hs
    simp only [Bool.true_and]
    exact decide_congr (h _ hm)

theorem parV_above (cl : List Pt) (hc : Closed cl) (xv y : Rat)
    (h : ∀ s ∈ crossingOrdinates cl xv, s < y) : parV cl xv y = false := by
  have hy : y ∉ crossingOrdinates cl xv := fun hm => lt_irrefl _ (h y hm)
  unfold parV
  apply xorAll_eq_false_of_all_false
  intro b hb
  obtain ⟨e, he, rfl⟩ := List.mem_map.mp hb
  rw [crossV_line cl hc xv y hy e he]
  cases hs : straddle e.1 e.2 xv with
  | false => rfl
  | true =>
    have hm := straddle_yAt_mem cl hc xv e he hs
    have := h _ hm
    simp only [Bool.true_and, decide_eq_false_iff_not, gt_iff_lt, not_lt]
    exact le_of_lt this

theorem parV_below (cl : List Pt) (hc : Closed cl) (xv y : Rat)
    (h : ∀ s ∈ crossingOrdinates cl xv, y < s) : parV cl xv y = false := by
  have hy : y ∉ crossingOrdinates cl xv := fun hm => lt_irrefl _ (h y hm)
  unfold parV
  have : ((cyclicEdges cl).map fun e => crossV e.1 e.2 ⟨xv, y⟩) =
      (cyclicEdges cl).map fun e => (decide (e.1.x ≥ xv) != decide (e.2.x ≥ xv)) := by
    apply List.map_congr_left
    intro e he
    rw [crossV_line cl hc xv y hy e he]
    cases hs : straddle e.1 e.2 xv with
    | false => unfold straddle at hs; simp [hs]
    | true =>
      have hm := straddle_yAt_mem cl hc xv e he hs
      have := h _ hm
      unfold straddle at hs
      simp [hs, this]
  rw [this]
  exact cyclic_parity (fun q => decide (q.x ≥ xv)) cl

/-! ## the mid-point of two consecutive ordinates -/

theorem mid_off_boundary (cl : List Pt) (hc : Closed cl) (xv a b v : Rat)
    (ha : a ∈ crossingOrdinates cl xv) (hb : b ∈ crossingOrdinates cl xv)
    (hgap : ∀ s ∈ crossingOrdinates cl xv, s ≤ a ∨ b ≤ s)
    (hav : a < v) (hvb : v < b) (hoff : onPolyBoundary cl ⟨xv, v⟩ = false) :
    onPolyBoundary cl ⟨xv, (a + b) / 2⟩ = false := by
  have ham : a < (a + b) / 2 := by linarith
  have hmb : (a + b) / 2 < b := by linarith
  have hmS : (a + b) / 2 ∉ crossingOrdinates cl xv := by
    intro hm
    rcases hgap _ hm with h | h <;> linarith
  by_contra hcon
  have hcon : onPolyBoundary cl ⟨xv, (a + b) / 2⟩ = true := by simpa using hcon
  unfold onPolyBoundary at hcon
  rw [List.any_eq_true] at hcon
  obtain ⟨e, he, hseg⟩ := hcon
  have hmem := mem_cyclicEdges cl e he
  obtain ⟨p1, p2⟩ := e
  simp only at hseg hmem
  unfold onSeg at hseg
  simp only [Bool.and_eq_true, decide_eq_true_eq, min_le_iff, le_max_iff] at hseg
  obtain ⟨⟨⟨⟨hcol, hx1⟩, hx2⟩, hy1⟩, hy2⟩ := hseg
  by_cases hvert : p1.x = p2.x
  · -- a vertical edge on the line: it contains (xv, v) as well
    have hxv : p1.x = xv := by
      rcases hx1 with h | h <;> rcases hx2 with h' | h' <;> linarith
    have hxv2 : p2.x = xv := by rw [← hvert]; exact hxv
    have hS1 : p1.y ∈ crossingOrdinates cl xv := (mem_crossingOrdinates cl xv _).mpr (Or.inl ⟨p1, hmem.1, hxv, rfl⟩)
    have hS2 : p2.y ∈ crossingOrdinates cl xv := (mem_crossingOrdinates cl xv _).mpr (Or.inl ⟨p2, hmem.2, hxv2, rfl⟩)
    have hv : onPolyBoundary cl ⟨xv, v⟩ = true := by
      unfold onPolyBoundary
      rw [List.any_eq_true]
      refine ⟨(p1, p2), he, ?_⟩
      unfold onSeg
      simp only [Bool.and_eq_true, decide_eq_true_eq, min_le_iff, le_max_iff]
      refine ⟨⟨⟨⟨?_, ?_⟩, ?_⟩, ?_⟩, ?_⟩
      · rw [hxv, hxv2]; ring
      · left; linarith
      · left; linarith
      · rcases hgap _ hS1 with h1 | h1 <;> rcases hgap _ hS2 with h2 | h2
        · rcases hy2 with h | h <;> linarith
        · left; linarith
        · right; linarith
        · rcases hy1 with h | h <;> linarith
      · rcases hgap _ hS1 with h1 | h1 <;> rcases hgap _ hS2 with h2 | h2
        · rcases hy2 with h | h <;> linarith
        · right; linarith
        · left; linarith
        · rcases hy1 with h | h <;> linarith
    rw [hoff] at hv
    exact Bool.noConfusion hv
  · -- a non-vertical edge meets the line in one point, which is a collected ordinate
    have hw : p2.x - p1.x ≠ 0 := fun h => hvert (by linarith)
    rcases cyclic_mem_cases cl hc (p1, p2) he with hce | ⟨hdeg, _⟩
    swap
    · simp only at hdeg; exact hvert (by rw [hdeg])
    apply hmS
    by_cases h1 : p1.x = xv
    · have : (p2.x - p1.x) * ((a + b) / 2 - p1.y) = 0 := by rw [hcol, h1]; ring
      rcases mul_eq_zero.mp this with h | h
      · exact absurd h hw
      · have hmid : (a + b) / 2 = p1.y := by linarith
        rw [hmid]
        exact (mem_crossingOrdinates cl xv _).mpr (Or.inl ⟨p1, hmem.1, h1, rfl⟩)
    · by_cases h2 : p2.x = xv
      · have : (p2.x - p1.x) * ((a + b) / 2 - p1.y) = (p2.x - p1.x) * (p2.y - p1.y) := by
          rw [hcol, h2]; ring
        have := mul_left_cancel₀ hw this
        have hmid : (a + b) / 2 = p2.y := by linarith
        rw [hmid]
        exact (mem_crossingOrdinates cl xv _).mpr (Or.inl ⟨p2, hmem.2, h2, rfl⟩)
      · have hpc : properCross p1 p2 xv = true := by
          unfold properCross
          simp only [Bool.or_eq_true, Bool.and_eq_true, decide_eq_true_eq, gt_iff_lt]
          rcases lt_or_gt_of_ne h1 with h1' | h1'
          · left
            refine ⟨h1', ?_⟩
            rcases hx2 with h | h
            · exact absurd (le_antisymm (le_of_lt h1') h) (fun e => h1 e)
            · exact lt_of_le_of_ne h (fun e => h2 e.symm)
          · right
            refine ⟨?_, h1'⟩
            rcases hx1 with h | h
            · exact absurd (le_antisymm h (le_of_lt h1')) (fun e => h1 e)
            · exact lt_of_le_of_ne h h2
        have hy : yAt p1 p2 xv = (a + b) / 2 := by
          have hm := yAt_mul p1 p2 xv hw
          have : (yAt p1 p2 xv - p1.y) * (p2.x - p1.x) = ((a + b) / 2 - p1.y) * (p2.x - p1.x) := by
            rw [hm]; linarith
          have := mul_right_cancel₀ hw this
          linarith
        exact (mem_crossingOrdinates cl xv _).mpr (Or.inr ⟨(p1, p2), hce, hpc, hy⟩)

/-! ## `polygon_line_intersections` on a closed chain -/

theorem pli_closed (cl : List Pt) (hc : Closed cl) (xv v : Rat)
    (hoff : onPolyBoundary cl ⟨xv, v⟩ = false) :
    (((consecPairs (crossingOrdinates cl xv)).filter fun ab =>
        pointsInsidePoly cl ⟨xv, (ab.1 + ab.2) / 2⟩).any fun s => decide (v ≥ s.1) && decide (v ≤ s.2)) =
      evenOdd cl ⟨xv, v⟩ := by
  have hS := pairwise_sortUniq (vertexHits cl xv ++ properCrossings cl xv)
  have hvS : v ∉ crossingOrdinates cl xv := by
    intro hm
    have := crossingOrdinate_on_boundary cl xv v hm
    rw [hoff] at this; exact Bool.noConfusion this
  have hev : evenOdd cl ⟨xv, v⟩ = parV cl xv v := evenOdd_eq_parV cl ⟨xv, v⟩ hoff
  have key : ∀ ab ∈ consecPairs (crossingOrdinates cl xv), ab.1 < v → v < ab.2 →
      pointsInsidePoly cl ⟨xv, (ab.1 + ab.2) / 2⟩ = evenOdd cl ⟨xv, v⟩ := by
    intro ab hab h1 h2
    obtain ⟨ha, hb, hlt, hgap⟩ := consecPairs_spec _ hS ab hab
    have hmoff := mid_off_boundary cl hc xv ab.1 ab.2 v ha hb hgap h1 h2 hoff
    rw [pointsInsidePoly_eq, hev,
      show evenOdd cl ⟨xv, (ab.1 + ab.2) / 2⟩ = parV cl xv ((ab.1 + ab.2) / 2) from evenOdd_eq_parV cl _ hmoff]
    have hmS : (ab.1 + ab.2) / 2 ∉ crossingOrdinates cl xv := by
      intro hm
      have := crossingOrdinate_on_boundary cl xv _ hm
      rw [hmoff] at this; exact Bool.noConfusion this
    apply parV_congr cl hc xv _ _ hmS hvS
    intro s hs
    rcases hgap s hs with h | h
    · constructor <;> intro h' <;> linarith
    · constructor <;> intro _ <;> linarith
  rw [Bool.eq_iff_iff]
  constructor
  · intro hany
    rw [List.any_eq_true] at hany
    obtain ⟨ab, hab, hin⟩ := hany
    rw [List.mem_filter] at hab
    simp only [Bool.and_eq_true, decide_eq_true_eq, ge_iff_le] at hin
    obtain ⟨ha, hb, _, _⟩ := consecPairs_spec _ hS ab hab.1
    have h1 : ab.1 < v := lt_of_le_of_ne hin.1 (fun e => hvS (e ▸ ha))
    have h2 : v < ab.2 := lt_of_le_of_ne hin.2 (fun e => hvS (e ▸ hb))
    rw [← key ab hab.1 h1 h2]
    exact hab.2
  · intro hin
    rw [hev] at hin
    have hlo : ∃ s ∈ crossingOrdinates cl xv, s < v := by
      by_contra hno
      have : ∀ s ∈ crossingOrdinates cl xv, v < s := by
        intro s hs
        have hne : s ≠ v := fun e => hvS (e ▸ hs)
        have : ¬ s < v := fun h => hno ⟨s, hs, h⟩
        exact lt_of_le_of_ne (not_lt.mp this) (Ne.symm hne)
      rw [show parV cl xv v = false from parV_below cl hc xv v this] at hin
      exact Bool.noConfusion hin
    have hhi : ∃ s ∈ crossingOrdinates cl xv, v < s := by
      by_contra hno
      have : ∀ s ∈ crossingOrdinates cl xv, s < v := by
        intro s hs
        have hne : s ≠ v := fun e => hvS (e ▸ hs)
        have : ¬ v < s := fun h => hno ⟨s, hs, h⟩
        exact lt_of_le_of_ne (not_lt.mp this) hne
      rw [show parV cl xv v = false from parV_above cl hc xv v this] at hin
      exact Bool.noConfusion hin
    obtain ⟨ab, hab, h1, h2⟩ := exists_bracket _ hS v hvS hlo hhi
    rw [List.any_eq_true]
    refine ⟨ab, ?_, ?_⟩
    · rw [List.mem_filter]
      refine ⟨hab, ?_⟩
      rw [key ab hab h1 h2, hev]
      exact hin
    · simp only [Bool.and_eq_true, decide_eq_true_eq, ge_iff_le]
      exact ⟨le_of_lt h1, le_of_lt h2⟩

/-! ## closing the polygon (`if px[0] != px[-1] or py[0] != py[-1]`) -/

theorem crossH_self (a p : Pt) : crossH a a p = false := crossH_same_side a a p rfl

theorem onSeg_self (a p : Pt) (h : onSeg a a p = true) : p = a := by
  unfold onSeg at h
  simp only [Bool.and_eq_true, decide_eq_true_eq, min_self, max_self] at h
  obtain ⟨⟨⟨⟨_, h1⟩, h2⟩, h3⟩, h4⟩ := h
  cases p; cases a
  simp only [Pt.mk.injEq]
  exact ⟨le_antisymm h2 h1, le_antisymm h4 h3⟩

theorem closeIfOpen_cases (vs : List Pt) :
    closeIfOpen vs = vs ∧ Closed vs ∨
    ∃ v rest, vs = v :: rest ∧ closeIfOpen vs = vs ++ [v] := by
  cases vs with
  | nil => left; exact ⟨rfl, rfl⟩
  | cons v rest =>
    unfold closeIfOpen
    rw [List.head?_cons, List.getLast?_eq_some_getLast (by simp)]
    simp only
    by_cases h : v ≠ (v :: rest).getLast (by simp)
    · right; exact ⟨v, rest, rfl, by simp [h]⟩
    · left
      have h' : v = (v :: rest).getLast (by simp) := by simpa using h
      refine ⟨by simp [h], ?_⟩
      unfold Closed
      rw [List.getLast?_eq_some_getLast (by simp), ← h']
      rfl

theorem closeIfOpen_closed (vs : List Pt) : Closed (closeIfOpen vs) := by
  rcases closeIfOpen_cases vs with ⟨h, hc⟩ | ⟨v, rest, hvs, h⟩
  · rw [h]; exact hc
  · rw [h, hvs]
    unfold Closed
    rw [List.cons_append, ← List.cons_append, List.getLast?_concat]
    rfl

theorem cyclicEdges_closeIfOpen (vs : List Pt) :
    cyclicEdges (closeIfOpen vs) = cyclicEdges vs ∨
    ∃ v, v ∈ vs ∧ cyclicEdges (closeIfOpen vs) = cyclicEdges vs ++ [(v, v)] := by
  rcases closeIfOpen_cases vs with ⟨h, _⟩ | ⟨v, rest, hvs, h⟩
  · left; rw [h]
  · right
    refine ⟨v, by rw [hvs]; simp, ?_⟩
    rw [h, hvs]
    have : (v :: rest) ++ [v] = v :: (rest ++ [v]) := rfl
    rw [this, cyclicEdges_cons]
    have hl : (v :: (rest ++ [v])).getLast (by simp) = v := by
      rw [List.getLast_cons (by simp)]; simp
    rw [hl]
    rfl

theorem evenOdd_closeIfOpen (vs : List Pt) (p : Pt) : evenOdd (closeIfOpen vs) p = evenOdd vs p := by
  unfold evenOdd
  rcases cyclicEdges_closeIfOpen vs with h | ⟨v, _, h⟩
  · rw [h]
  · rw [h, List.map_append, xorAll_append]
    simp [xorAll, crossH_self]

theorem onPolyBoundary_closeIfOpen (vs : List Pt) (p : Pt) :
    onPolyBoundary (closeIfOpen vs) p = onPolyBoundary vs p := by
  unfold onPolyBoundary
  rcases cyclicEdges_closeIfOpen vs with h | ⟨v, hv, h⟩
  · rw [h]
  · rw [h, List.any_append]
    cases hseg : onSeg v v p with
    | false => simp [hseg]
    | true =>
      have hp := onSeg_self v p hseg
      obtain ⟨e, he, h1⟩ := vertex_starts_edge vs v hv
      have : (cyclicEdges vs).any (fun e => onSeg e.1 e.2 p) = true := by
        rw [List.any_eq_true]
        refine ⟨e, he, ?_⟩
        rw [hp, ← h1]
        exact onSeg_left _ _
      simp [this]

/-- **`polygon_line_intersections` is correct**: for every polygon (open or closed vertex list,
convex or not, self-intersecting or not), every vertical line `x = xv` and every ordinate `v`
with `(xv, v)` off the polygon's boundary, `v` lies in one of the returned segments iff
`(xv, v)` is inside the polygon (even-odd rule as evaluated by matplotlib). -/
theorem pli_correct (vs : List Pt) (xv v : Rat) (hoff : onPolyBoundary vs ⟨xv, v⟩ = false) :
    ((polygonLineIntersections vs xv).any fun s => decide (v ≥ s.1) && decide (v ≤ s.2)) =
      evenOdd vs ⟨xv, v⟩ := by
  unfold polygonLineIntersections
  have := pli_closed (closeIfOpen vs) (closeIfOpen_closed vs) xv v
    (by rw [onPolyBoundary_closeIfOpen]; exact hoff)
  rw [evenOdd_closeIfOpen] at this
  exact this

/-! ## transposition and the boundary -/

theorem onSeg_swap (a b p : Pt) : onSeg a.swap b.swap p.swap = onSeg a b p := by
  unfold onSeg Pt.swap
  simp only
  rw [Bool.eq_iff_iff]
  simp only [Bool.and_eq_true, decide_eq_true_eq]
  constructor
  · rintro ⟨⟨⟨⟨h0, h1⟩, h2⟩, h3⟩, h4⟩
    exact ⟨⟨⟨⟨h0.symm, h3⟩, h4⟩, h1⟩, h2⟩
  · rintro ⟨⟨⟨⟨h0, h1⟩, h2⟩, h3⟩, h4⟩
    exact ⟨⟨⟨⟨h0.symm, h3⟩, h4⟩, h1⟩, h2⟩

theorem onPolyBoundary_swap (vs : List Pt) (p : Pt) :
    onPolyBoundary (vs.map Pt.swap) p.swap = onPolyBoundary vs p := by
  unfold onPolyBoundary
  rw [cyclicEdges_map, List.any_map]
  congr 1
  funext e
  exact onSeg_swap e.1 e.2 p

end GlueVerif.C09.Lemmas
