import GlueVerif.Lemmas.C09Cat
import GlueVerif.Lemmas.C09Line
/-! Helper lemmas for C09: masks of the states `roi_to_subset_state` builds. -/
namespace GlueVerif.C09.Lemmas
open GlueVerif.ArrayUtil GlueVerif.Lemmas

/-- Position of a label as a rational plotted coordinate. -/
abbrev pos (l : Int) (cs : List Int) : Rat := ((indexOf l cs : Nat) : Int)

theorem mask_and (pre : Option Affine) (a b : State) (e : Elem) :
    mask pre (.and a b) e = (mask pre a e && mask pre b e) := rfl

theorem mask_catRange (pre : Option Affine) (cs : List Int) (hs : noDup cs = true) (lo hi : Rat)
    (att : Ax) (e : Elem) (l : Int) (he : e.get att = .lab l) (hl : l ∈ cs) :
    mask pre (.catRoi (fromRange cs lo hi) att) e =
      (decide (lo ≤ pos l cs) && decide (pos l cs < hi)) := by
  simp only [mask, he]
  exact fromRange_contains cs hs lo hi l hl

theorem mask_numRange (pre : Option Affine) (lo hi : Rat) (att : Ax) (e : Elem) (q : Option Rat)
    (he : e.get att = .num q) :
    mask pre (.range lo hi att) e =
      (match q with | some v => decide (lo ≤ v) && decide (v ≤ hi) | none => false) := by
  simp only [mask, he]
  cases q <;> rfl

/-! ### the tables of the two categorical loops -/

theorem selMulti_get (pg : List Pt) (cats : List Int) (hs : noDup cats = true) (l : Int)
    (hl : l ∈ cats) :
    dictGet (selMulti pg cats) l =
      (if (polygonLineIntersections pg (pos l cats)).isEmpty then none
       else some (polygonLineIntersections pg (pos l cats))) := by
  have h := dictGet_zipIdx_filterMap cats hs
    (fun code => if (polygonLineIntersections pg (((code : Nat) : Int) : Rat)).isEmpty then none
      else some (polygonLineIntersections pg (((code : Nat) : Int) : Rat))) l hl 0
  simp only [Nat.zero_add] at h
  rw [← h]
  unfold selMulti
  congr 1
  apply List.filterMap_congr
  intro lc _
  simp only
  split <;> simp_all

theorem mask_catMulti (pre : Option Affine) (pg : List Pt) (cats : List Int)
    (hs : noDup cats = true) (ca na : Ax) (e : Elem) (l : Int) (v : Rat)
    (hc : e.get ca = .lab l) (hn : e.get na = .num (some v)) (hl : l ∈ cats) :
    mask pre (.catMulti (selMulti pg cats) ca na) e =
      (polygonLineIntersections pg (pos l cats)).any fun s => decide (v ≥ s.1) && decide (v ≤ s.2) := by
  simp only [mask, hc, hn, selMulti_get pg cats hs l hl]
  by_cases hemp : (polygonLineIntersections pg (pos l cats)).isEmpty = true
  · simp only [hemp, if_true]
    rw [List.isEmpty_iff] at hemp
    rw [hemp]
    rfl
  · simp only [hemp]
    rfl

theorem mask_catMulti_nan (pre : Option Affine) (sel : List (Int × List (Rat × Rat))) (ca na : Ax)
    (e : Elem) (hn : e.get na = .num none) : mask pre (.catMulti sel ca na) e = false := by
  simp only [mask, hn]
  cases e.get ca <;> rfl

theorem sel2d_get (r : Roi) (xs ys : List Int) (hs : noDup xs = true) (l : Int) (hl : l ∈ xs) :
    dictGet (sel2d r xs ys) l =
      (let row := ys.zipIdx.filterMap fun yj =>
          if sel2d.roiContainsImpl r ⟨pos l xs, ((yj.2 : Nat) : Int)⟩ then some yj.1 else none
       if row.isEmpty then none else some row) := by
  have h := dictGet_zipIdx_filterMap xs hs
    (fun code =>
      let row := ys.zipIdx.filterMap fun yj =>
          if sel2d.roiContainsImpl r ⟨((code : Nat) : Int), ((yj.2 : Nat) : Int)⟩ then some yj.1 else none
      if row.isEmpty then none else some row) l hl 0
  simp only [Nat.zero_add] at h
  rw [← h]
  unfold sel2d
  congr 1
  apply List.filterMap_congr
  intro lc _
  simp only
  split <;> simp_all

/-- Membership in a row of the 2-d table. -/
theorem mem_row (f : Nat → Bool) (ys : List Int) (hs : noDup ys = true) (l : Int) (hl : l ∈ ys) (n : Nat) :
    ((ys.zipIdx n).filterMap fun yj => if f yj.2 then some yj.1 else none).contains l =
      f (n + indexOf l ys) := by
  induction ys generalizing n with
  | nil => simp at hl
  | cons c cs ih =>
    rw [noDup_cons] at hs
    simp only [List.zipIdx_cons, List.filterMap_cons]
    by_cases hlc : l = c
    · subst hlc
      have hidx : indexOf l (l :: cs) = 0 := by simp [indexOf]
      rw [hidx, Nat.add_zero]
      cases hf : f n with
      | true => simp
      | false =>
        simp only [Bool.false_eq_true, if_false]
        rw [List.contains_eq_mem, decide_eq_false_iff_not]
        intro hm
        simp only [List.mem_filterMap] at hm
        obtain ⟨yj, hyj, hv⟩ := hm
        split at hv
        · simp at hv
          have := List.mem_zipIdx hyj
          obtain ⟨_, _, h3⟩ := this
          have hmem : yj.1 ∈ cs := by rw [h3]; exact List.getElem_mem _
          exact hs.1 (hv ▸ hmem)
        · simp at hv
    · have hl' : l ∈ cs := by
        rcases List.mem_cons.mp hl with e | h
        · exact absurd e hlc
        · exact h
      have hidx : indexOf l (c :: cs) = indexOf l cs + 1 := by simp [indexOf, hlc]
      rw [hidx]
      have := ih hs.2 hl' (n + 1)
      have hn : n + (indexOf l cs + 1) = n + 1 + indexOf l cs := by omega
      rw [hn, ← this]
      cases hf : f n with
      | false => simp
      | true =>
        simp only [if_true, List.contains_cons]
        have : (l == c) = false := by simp [hlc]
        rw [this, Bool.false_or]

theorem mask_cat2d (pre : Option Affine) (r : Roi) (xs ys : List Int)
    (hsx : noDup xs = true) (hsy : noDup ys = true) (l1 l2 : Int)
    (h1 : l1 ∈ xs) (h2 : l2 ∈ ys) :
    mask pre (.cat2d (sel2d r xs ys)) ⟨.lab l1, .lab l2⟩ =
      sel2d.roiContainsImpl r ⟨pos l1 xs, pos l2 ys⟩ := by
  simp only [mask, sel2d_get r xs ys hsx l1 h1]
  have hrow := mem_row (fun j => sel2d.roiContainsImpl r ⟨pos l1 xs, ((j : Nat) : Int)⟩) ys hsy l2 h2 0
  simp only [Nat.zero_add] at hrow
  split
  · rename_i s hs
    split at hs
    · simp at hs
    · simp only [Option.some.injEq] at hs
      rw [← hs]
      exact hrow
  · rename_i hs
    split at hs
    · rename_i hemp
      rw [List.isEmpty_iff] at hemp
      rw [hemp] at hrow
      simpa using hrow
    · simp at hs

theorem roiContainsImpl_eq (r : Roi) (p : Pt) : sel2d.roiContainsImpl r p = roiContains r p := by
  cases r <;> simp [sel2d.roiContainsImpl, roiContains, pointsInsidePoly_eq]

/-! ### the unrotated rectangle -/

theorem absQ_lt (q h : Rat) : absQ q < h ↔ -h < q ∧ q < h := by
  unfold absQ
  split <;> constructor <;> intro hh <;> (try constructor) <;> (try obtain ⟨h1, h2⟩ := hh) <;> linarith

theorem absQ_eq_abs (q : Rat) : absQ q = |q| := by
  unfold absQ
  split
  · rename_i h; rw [abs_of_neg h]
  · rename_i h; rw [abs_of_nonneg (not_lt.mp h)]

/-- Containment in an unrotated rectangle (`θ ≡ 0 mod π`: `s = 0`, `c = ±1`). -/
theorem rect0_contains (xmin xmax ymin ymax c : Rat) (hc : c * c = 1) (p : Pt) :
    roiContains (.rect xmin xmax ymin ymax c 0) p =
      (decide (xmin < p.x) && decide (p.x < xmax) && decide (ymin < p.y) && decide (p.y < ymax)) := by
  have hc' : c = 1 ∨ c = -1 := by
    have : (c - 1) * (c + 1) = 0 := by ring_nf; linarith
    rcases mul_eq_zero.mp this with h | h
    · left; linarith
    · right; linarith
  unfold roiContains unrot
  simp only
  rw [Bool.eq_iff_iff]
  simp only [Bool.and_eq_true, decide_eq_true_eq, absQ_lt]
  rcases hc' with rfl | rfl
  · constructor
    · rintro ⟨⟨h1, h2⟩, h3, h4⟩
      refine ⟨⟨⟨?_, ?_⟩, ?_⟩, ?_⟩ <;> linarith
    · rintro ⟨⟨⟨h1, h2⟩, h3⟩, h4⟩
      refine ⟨⟨?_, ?_⟩, ?_, ?_⟩ <;> linarith
  · constructor
    · rintro ⟨⟨h1, h2⟩, h3, h4⟩
      refine ⟨⟨⟨?_, ?_⟩, ?_⟩, ?_⟩ <;> linarith
    · rintro ⟨⟨⟨h1, h2⟩, h3⟩, h4⟩
      refine ⟨⟨?_, ?_⟩, ?_, ?_⟩ <;> linarith

theorem closed_eq_open (lo hi v : Rat) (h1 : v ≠ lo) (h2 : v ≠ hi) :
    (decide (lo ≤ v) && decide (v ≤ hi)) = (decide (lo < v) && decide (v < hi)) := by
  rw [Bool.eq_iff_iff]
  simp only [Bool.and_eq_true, decide_eq_true_eq]
  constructor
  · rintro ⟨a, b⟩; exact ⟨lt_of_le_of_ne a (Ne.symm h1), lt_of_le_of_ne b h2⟩
  · rintro ⟨a, b⟩; exact ⟨le_of_lt a, le_of_lt b⟩

theorem halfopen_eq_open (lo hi v : Rat) (h1 : v ≠ lo) :
    (decide (lo ≤ v) && decide (v < hi)) = (decide (lo < v) && decide (v < hi)) := by
  rw [Bool.eq_iff_iff]
  simp only [Bool.and_eq_true, decide_eq_true_eq]
  constructor
  · rintro ⟨a, b⟩; exact ⟨lt_of_le_of_ne a (Ne.symm h1), b⟩
  · rintro ⟨a, b⟩; exact ⟨le_of_lt a, b⟩

/-- The two-range decomposition of an unrotated rectangle agrees with the open rectangle off its
boundary, whichever of `<` / `≤` each upper bound uses (`<` on a categorical axis after the
ceiling, `≤` on a numeric one). -/
theorem rect0_core (xmin xmax ymin ymax c : Rat) (hc : c * c = 1) (px py : Rat) (ux uy : Prop)
    [Decidable ux] [Decidable uy]
    (hux1 : px < xmax → ux) (hux2 : ux → px ≤ xmax) (huy1 : py < ymax → uy) (huy2 : uy → py ≤ ymax)
    (hb : onBoundary (.rect xmin xmax ymin ymax c 0) ⟨px, py⟩ = false) :
    ((decide (xmin ≤ px) && decide ux) && (decide (ymin ≤ py) && decide uy)) =
      roiContains (.rect xmin xmax ymin ymax c 0) ⟨px, py⟩ := by
  rw [rect0_contains xmin xmax ymin ymax c hc]
  have hc' : c = 1 ∨ c = -1 := by
    have : (c - 1) * (c + 1) = 0 := by ring_nf; linarith
    rcases mul_eq_zero.mp this with h | h
    · left; linarith
    · right; linarith
  unfold onBoundary unrot at hb
  simp only [Bool.or_eq_false_iff, Bool.and_eq_false_iff, decide_eq_false_iff_not, absQ_eq_abs] at hb
  have hqx : |c * (px - (xmin + xmax) / 2) + 0 * (py - (ymin + ymax) / 2)| = |px - (xmin + xmax) / 2| := by
    rcases hc' with rfl | rfl
    · congr 1; ring
    · rw [show -1 * (px - (xmin + xmax) / 2) + 0 * (py - (ymin + ymax) / 2) = -(px - (xmin + xmax) / 2) by ring, abs_neg]
  have hqy : |-0 * (px - (xmin + xmax) / 2) + c * (py - (ymin + ymax) / 2)| = |py - (ymin + ymax) / 2| := by
    rcases hc' with rfl | rfl
    · congr 1; ring
    · rw [show -0 * (px - (xmin + xmax) / 2) + -1 * (py - (ymin + ymax) / 2) = -(py - (ymin + ymax) / 2) by ring, abs_neg]
  rw [hqx, hqy] at hb
  obtain ⟨hb1, hb2⟩ := hb
  have inbx : xmin ≤ px → px ≤ xmax → |px - (xmin + xmax) / 2| ≤ (xmax - xmin) / 2 := by
    intro h1 h2; rw [abs_le]; constructor <;> linarith
  have inby : ymin ≤ py → py ≤ ymax → |py - (ymin + ymax) / 2| ≤ (ymax - ymin) / 2 := by
    intro h1 h2; rw [abs_le]; constructor <;> linarith
  have ex1 : px = xmin → px ≤ xmax → |px - (xmin + xmax) / 2| = (xmax - xmin) / 2 := by
    intro h1 h2; rw [h1, abs_of_nonpos (by linarith)]; ring
  have ex2 : px = xmax → xmin ≤ px → |px - (xmin + xmax) / 2| = (xmax - xmin) / 2 := by
    intro h1 h2; rw [h1, abs_of_nonneg (by linarith)]; ring
  have ey1 : py = ymin → py ≤ ymax → |py - (ymin + ymax) / 2| = (ymax - ymin) / 2 := by
    intro h1 h2; rw [h1, abs_of_nonpos (by linarith)]; ring
  have ey2 : py = ymax → ymin ≤ py → |py - (ymin + ymax) / 2| = (ymax - ymin) / 2 := by
    intro h1 h2; rw [h1, abs_of_nonneg (by linarith)]; ring
  rw [Bool.eq_iff_iff]
  simp only [Bool.and_eq_true, decide_eq_true_eq]
  constructor
  · rintro ⟨⟨h1, h2⟩, h3, h4⟩
    have h2' := hux2 h2
    have h4' := huy2 h4
    have nx1 : px ≠ xmin := fun e => by
      rcases hb1 with h | h
      · exact h (ex1 e h2')
      · exact h (inby h3 h4')
    have nx2 : px ≠ xmax := fun e => by
      rcases hb1 with h | h
      · exact h (ex2 e h1)
      · exact h (inby h3 h4')
    have ny1 : py ≠ ymin := fun e => by
      rcases hb2 with h | h
      · exact h (ey1 e h4')
      · exact h (inbx h1 h2')
    have ny2 : py ≠ ymax := fun e => by
      rcases hb2 with h | h
      · exact h (ey2 e h3)
      · exact h (inbx h1 h2')
    exact ⟨⟨⟨lt_of_le_of_ne h1 (Ne.symm nx1), lt_of_le_of_ne h2' nx2⟩, lt_of_le_of_ne h3 (Ne.symm ny1)⟩,
      lt_of_le_of_ne h4' ny2⟩
  · rintro ⟨⟨⟨h1, h2⟩, h3⟩, h4⟩
    exact ⟨⟨le_of_lt h1, hux1 h2⟩, le_of_lt h3, huy1 h4⟩

theorem mem_of_contains {cs : List Int} {l : Int} (h : cs.contains l = true) : l ∈ cs := by
  simpa using h

end GlueVerif.C09.Lemmas
