import GlueVerif.Model.CollectionDelay
import GlueVerif.Lemmas.C06
/-!
# C06 — helper lemmas for the model with message delivery (`Model/CollectionDelay.lean`)

Core Lean only.  Structure: (1) the last queued message about a dataset, (2) the part of `InvP`
that does not mention the queue (`Core`) and its preservation by one handler call
(`_add_data` with the guard of fix F26, `_remove_data`), (3) *queueing* a message preserves `InvP`
(`invP_enqueue_*`), *delivering the oldest queued message* preserves `InvP` (`invP_deliver`), hence
flushing the queue restores the quiescent invariant (`invP_flush`, induction over the queue),
(4) group creation / removal and save + restore, (5) every operation of the history language at
any nesting depth (`dinv_step`): an immediate broadcast is "queue on the empty queue, then deliver".
-/
namespace GlueVerif.Lemmas.C06Delay
open GlueVerif.Collection GlueVerif.Collection.Delay GlueVerif.Lemmas.C06

/-! ## 1. `lastAbout` -/

theorem lastAbout_append (d : Nat) (m : QMsg) : ∀ q : List QMsg,
    lastAbout d (q ++ [m]) = if m.data = d then some m.isAdd else lastAbout d q := by
  intro q
  induction q with
  | nil => simp [lastAbout]
  | cons a q ih =>
    simp only [List.cons_append, lastAbout, ih]
    by_cases h : m.data = d
    · simp [h]
    · simp [h]

theorem lastAbout_cons_some (d : Nat) (m : QMsg) (q : List QMsg) (b : Bool)
    (h : lastAbout d q = some b) : lastAbout d (m :: q) = some b := by
  simp [lastAbout, h]

theorem lastAbout_cons_none (d : Nat) (m : QMsg) (q : List QMsg)
    (h : lastAbout d q = none) : lastAbout d (m :: q) = if m.data = d then some m.isAdd else none := by
  simp [lastAbout, h]

theorem lastAbout_none_of_bound (d : Nat) : ∀ q : List QMsg, (∀ m ∈ q, m.data ≠ d) → lastAbout d q = none := by
  intro q
  induction q with
  | nil => intro _; rfl
  | cons a q ih =>
    intro h
    have h1 := ih (fun m hm => h m (List.mem_cons_of_mem _ hm))
    have h2 := h a (List.mem_cons_self ..)
    simp [lastAbout, h1, h2]

/-! ## 2. the queue-independent part of `InvP` -/

structure Core (st : State) : Prop where
  nodupD : st.datasets.Nodup
  nodupG : st.groups.Nodup
  subsEq : st.subs = st.groups
  dBound : ∀ d ∈ st.datasets, d < st.nData
  gBound : ∀ g ∈ st.groups, g < st.nGroup
  subData : ∀ d, ∀ s ∈ st.dsubs d, s.data = some d
  subGroup : ∀ g, ∀ s ∈ st.gsubs g, s.group = g
  onePerGroup : ∀ d, ((st.dsubs d).map (·.group)).Nodup
  onePerData : ∀ g ∈ st.groups, ((st.gsubs g).map (·.data)).Nodup
  liveGroup : ∀ d, ∀ s ∈ st.dsubs d, s.group ∈ st.groups
  listed : ∀ d, ∀ s ∈ st.dsubs d, s ∈ st.gsubs s.group
  attached : ∀ g ∈ st.groups, ∀ s ∈ st.gsubs g, ∃ d, s.data = some d ∧ s ∈ st.dsubs d

theorem core_of_invP {st : State} {q : List QMsg} (h : InvP st q) : Core st :=
  ⟨h.nodupD, h.nodupG, h.subsEq, h.dBound, h.gBound, h.subData, h.subGroup, h.onePerGroup,
    h.onePerData, h.liveGroup, h.listed, h.attached⟩

theorem invP_of_core {st : State} {q : List QMsg} (c : Core st)
    (qBound : ∀ m ∈ q, m.data < st.nData)
    (pendIn : ∀ d, lastAbout d q = some true → d ∈ st.datasets)
    (pendOut : ∀ d, lastAbout d q = some false → d ∉ st.datasets)
    (settledIn : ∀ d, lastAbout d q = none → d ∈ st.datasets → ∀ g ∈ st.groups, ∃ s ∈ st.dsubs d, s.group = g)
    (settledOut : ∀ d, lastAbout d q = none → d ∉ st.datasets → st.dsubs d = []) : InvP st q :=
  ⟨c.nodupD, c.nodupG, c.subsEq, c.dBound, c.gBound, qBound, c.subData, c.subGroup, c.onePerGroup,
    c.onePerData, c.liveGroup, c.listed, c.attached, pendIn, pendOut, settledIn, settledOut⟩

/-- `Core` does not look at the collection's order, the counters of datasets, labels, stacks. -/
theorem core_congr {st st' : State} (c : Core st)
    (hD : st'.datasets.Nodup) (hDb : ∀ d ∈ st'.datasets, d < st'.nData)
    (h1 : st'.groups = st.groups) (h2 : st'.subs = st.subs) (h3 : st'.nGroup = st.nGroup)
    (h4 : st'.dsubs = st.dsubs) (h5 : st'.gsubs = st.gsubs) : Core st' := by
  refine ⟨hD, ?_, ?_, hDb, ?_, ?_, ?_, ?_, ?_, ?_, ?_, ?_⟩
  · rw [h1]; exact c.nodupG
  · rw [h1, h2]; exact c.subsEq
  · rw [h1, h3]; exact c.gBound
  · rw [h4]; exact c.subData
  · rw [h5]; exact c.subGroup
  · rw [h4]; exact c.onePerGroup
  · rw [h1, h5]; exact c.onePerData
  · rw [h1, h4]; exact c.liveGroup
  · rw [h4, h5]; exact c.listed
  · rw [h1, h4, h5]; exact c.attached

/-- an attached subset of group `g` on dataset `d` is exactly a subset `g` lists for `d`. -/
theorem mem_gone_iff {st : State} (c : Core st) (g d : Nat) (s : Sub) (hs : s ∈ st.dsubs d) :
    s ∈ (st.gsubs g).filter (fun s => s.data == some d) ↔ s.group = g := by
  constructor
  · intro hm; exact c.subGroup g s (List.mem_filter.1 hm).1
  · intro hg
    have h1 : s ∈ st.gsubs g := hg ▸ c.listed d s hs
    have h2 := c.subData d s hs
    exact List.mem_filter.2 ⟨h1, by simp [h2]⟩

theorem nodup_dsubs' {st : State} (c : Core st) (d : Nat) : (st.dsubs d).Nodup :=
  nodup_of_map (·.group) _ (c.onePerGroup d)

/-- deleting (`Subset.delete`) everything group `g` lists for dataset `d` leaves on `d` exactly
the subsets of the other groups. -/
theorem erase_gone_eq {st : State} (c : Core st) (g d : Nat) :
    ((st.gsubs g).filter (fun s => s.data == some d)).foldl List.erase (st.dsubs d) =
      (st.dsubs d).filter (fun s => !(s.group == g)) := by
  rw [foldl_erase_eq_filter _ _ (nodup_dsubs' c d)]
  apply List.filter_congr
  intro s hs
  by_cases hsg : s.group = g
  · have := (mem_gone_iff c g d s hs).2 hsg
    simp [this, hsg]
  · have : s ∉ (st.gsubs g).filter (fun s => s.data == some d) := fun hm => hsg ((mem_gone_iff c g d s hs).1 hm)
    simp [this, hsg]

theorem nodup_map_some : ∀ l : List Nat, l.Nodup → (l.map some).Nodup := by
  intro l
  induction l with
  | nil => intro _; exact List.nodup_nil
  | cons a t ih =>
    intro h
    simp only [List.map_cons, List.nodup_cons, List.mem_map, not_exists, not_and] at h ⊢
    exact ⟨fun x hx e => h.1 (Option.some.inj e ▸ hx), ih h.2⟩

theorem map_filter_nodup {α β : Type} (f : α → β) (p : α → Bool) (l : List α) (h : (l.map f).Nodup) :
    ((l.filter p).map f).Nodup :=
  List.Nodup.sublist (List.Sublist.map f (List.filter_sublist)) h

/-! ### one call of `SubsetGroup._remove_data` -/

theorem removeDataH_eq {st : State} (c : Core st) (g d : Nat) :
    removeDataH true g d st =
      { st with gsubs := upd st.gsubs g ((st.gsubs g).filter (fun s => !(s.data == some d))),
                dsubs := upd st.dsubs d ((st.dsubs d).filter (fun s => !(s.group == g))) } := by
  rw [removeDataH_fixed, erase_gone_eq c]

theorem core_removeDataH {st : State} (c : Core st) (g d : Nat) : Core (removeDataH true g d st) := by
  rw [removeDataH_eq c]
  have hds : ∀ x s, s ∈ upd st.dsubs d ((st.dsubs d).filter (fun s => !(s.group == g))) x →
      s ∈ st.dsubs x := by
    intro x s hs
    by_cases hx : x = d
    · subst hx; rw [upd_same] at hs; exact (List.mem_filter.1 hs).1
    · rw [upd_other _ _ _ _ hx] at hs; exact hs
  have hgs : ∀ x s, s ∈ upd st.gsubs g ((st.gsubs g).filter (fun s => !(s.data == some d))) x →
      s ∈ st.gsubs x := by
    intro x s hs
    by_cases hx : x = g
    · subst hx; rw [upd_same] at hs; exact (List.mem_filter.1 hs).1
    · rw [upd_other _ _ _ _ hx] at hs; exact hs
  refine ⟨c.nodupD, c.nodupG, c.subsEq, c.dBound, c.gBound, ?_, ?_, ?_, ?_, ?_, ?_, ?_⟩
  · intro x s hs; exact c.subData x s (hds x s hs)
  · intro x s hs; exact c.subGroup x s (hgs x s hs)
  · intro x
    show ((upd st.dsubs d ((st.dsubs d).filter (fun s => !(s.group == g))) x).map (·.group)).Nodup
    by_cases hx : x = d
    · subst hx; rw [upd_same]; exact map_filter_nodup _ _ _ (c.onePerGroup x)
    · rw [upd_other _ _ _ _ hx]; exact c.onePerGroup x
  · intro x hx
    show ((upd st.gsubs g ((st.gsubs g).filter (fun s => !(s.data == some d))) x).map (·.data)).Nodup
    by_cases hxg : x = g
    · subst hxg; rw [upd_same]; exact map_filter_nodup _ _ _ (c.onePerData x hx)
    · rw [upd_other _ _ _ _ hxg]; exact c.onePerData x hx
  · intro x s hs; exact c.liveGroup x s (hds x s hs)
  · intro x s hs
    show s ∈ upd st.gsubs g ((st.gsubs g).filter (fun s => !(s.data == some d))) s.group
    have hs0 := hds x s hs
    have hl := c.listed x s hs0
    by_cases hsg : s.group = g
    · rw [hsg, upd_same]
      rw [hsg] at hl
      refine List.mem_filter.2 ⟨hl, ?_⟩
      have hxd : x ≠ d := by
        intro e
        subst e
        simp only [upd_same] at hs
        have := (List.mem_filter.1 hs).2
        simp [hsg] at this
      have := c.subData x s hs0
      simp [this, hxd]
    · rw [upd_other _ _ _ _ hsg]; exact hl
  · intro x hx s hs
    have hs0 := hgs x s hs
    obtain ⟨y, hy, hsy⟩ := c.attached x hx s hs0
    refine ⟨y, hy, ?_⟩
    show s ∈ upd st.dsubs d ((st.dsubs d).filter (fun s => !(s.group == g))) y
    by_cases hyd : y = d
    · subst hyd
      rw [upd_same]
      refine List.mem_filter.2 ⟨hsy, ?_⟩
      have hsg : s.group = x := c.subGroup x s hs0
      have hxg : x ≠ g := by
        intro e
        subst e
        simp only [upd_same] at hs
        have := (List.mem_filter.1 hs).2
        simp [hy] at this
      simp [hsg, hxg]
    · rw [upd_other _ _ _ _ hyd]; exact hsy

/-- what the Delete broadcast to the groups `gs` does, as far as the invariant needs it. -/
theorem foldl_removeData_spec (d : Nat) (gs : List Nat) : ∀ st : State, Core st →
    let st' := gs.foldl (fun st g => removeDataH true g d st) st
    Core st' ∧ st'.datasets = st.datasets ∧ st'.groups = st.groups ∧ st'.nData = st.nData ∧
      (∀ x, x ≠ d → st'.dsubs x = st.dsubs x) ∧
      (∀ s ∈ st'.dsubs d, s ∈ st.dsubs d ∧ s.group ∉ gs) := by
  induction gs with
  | nil => intro st c; exact ⟨c, rfl, rfl, rfl, fun _ _ => rfl, fun s hs => ⟨hs, by simp⟩⟩
  | cons g gs ih =>
    intro st c
    simp only [List.foldl_cons]
    have c1 := core_removeDataH c g d
    obtain ⟨c2, e1, e2, e3, e4, e5⟩ := ih _ c1
    have hst : removeDataH true g d st = _ := removeDataH_eq c g d
    refine ⟨c2, ?_, ?_, ?_, ?_, ?_⟩
    · rw [e1, hst]
    · rw [e2, hst]
    · rw [e3, hst]
    · intro x hx
      rw [e4 x hx, hst]
      exact upd_other _ _ _ _ hx
    · intro s hs
      obtain ⟨h1, h2⟩ := e5 s hs
      rw [hst] at h1
      simp only [upd_same] at h1
      have h3 := List.mem_filter.1 h1
      refine ⟨h3.1, ?_⟩
      intro hm
      rcases List.mem_cons.1 hm with e | e
      · have := h3.2; simp [e] at this
      · exact h2 e

/-! ### one call of `SubsetGroup._add_data` (with the guard of fix F26) -/

theorem addDataG_frame (g d : Nat) (st : State) :
    (addDataG true g d st).datasets = st.datasets ∧ (addDataG true g d st).groups = st.groups ∧
    (addDataG true g d st).subs = st.subs ∧ (addDataG true g d st).nData = st.nData ∧
    (addDataG true g d st).nGroup = st.nGroup := by
  unfold addDataG
  split <;> simp [addData]

theorem addDataG_dsubs_other (g d : Nat) (st : State) (x : Nat) (hx : x ≠ d) :
    (addDataG true g d st).dsubs x = st.dsubs x := by
  unfold addDataG
  split
  · rfl
  · simp [addData, upd, hx]

theorem addDataG_dsubs_mono (g d : Nat) (st : State) (x : Nat) (s : Sub) (hs : s ∈ st.dsubs x) :
    s ∈ (addDataG true g d st).dsubs x := by
  unfold addDataG
  split
  · exact hs
  · simp only [addData, upd]
    split
    · rename_i e; subst e; exact List.mem_append_left _ hs
    · exact hs

theorem addDataG_has {st : State} (c : Core st) (g d : Nat) (hg : g ∈ st.groups) :
    ∃ s ∈ (addDataG true g d st).dsubs d, s.group = g := by
  unfold addDataG
  split
  · rename_i hguard
    simp only [Bool.true_and, List.any_eq_true, beq_iff_eq] at hguard
    obtain ⟨s, hs, hsd⟩ := hguard
    obtain ⟨y, hy, hsy⟩ := c.attached g hg s hs
    rw [hsd] at hy
    have : y = d := (Option.some.inj hy).symm
    subst this
    exact ⟨s, hsy, c.subGroup g s hs⟩
  · refine ⟨⟨st.nSub, some d, g⟩, ?_, rfl⟩
    simp [addData, upd]

theorem core_addDataG {st : State} (c : Core st) (g d : Nat) (hg : g ∈ st.groups) :
    Core (addDataG true g d st) := by
  unfold addDataG
  split
  · exact c
  · rename_i hguard
    have hno : ∀ s ∈ st.gsubs g, s.data ≠ some d := by
      intro s hs hsd
      apply hguard
      simp only [Bool.true_and, List.any_eq_true, beq_iff_eq]
      exact ⟨s, hs, hsd⟩
    have hds : ∀ x s, s ∈ upd st.dsubs d (st.dsubs d ++ [⟨st.nSub, some d, g⟩]) x →
        s ∈ st.dsubs x ∨ (x = d ∧ s = ⟨st.nSub, some d, g⟩) := by
      intro x s hs
      by_cases hx : x = d
      · subst hx
        rw [upd_same] at hs
        rcases List.mem_append.1 hs with h | h
        · exact Or.inl h
        · exact Or.inr ⟨rfl, by simpa using h⟩
      · rw [upd_other _ _ _ _ hx] at hs; exact Or.inl hs
    have hgs : ∀ x s, s ∈ upd st.gsubs g (st.gsubs g ++ [⟨st.nSub, some d, g⟩]) x →
        s ∈ st.gsubs x ∨ (x = g ∧ s = ⟨st.nSub, some d, g⟩) := by
      intro x s hs
      by_cases hx : x = g
      · subst hx
        rw [upd_same] at hs
        rcases List.mem_append.1 hs with h | h
        · exact Or.inl h
        · exact Or.inr ⟨rfl, by simpa using h⟩
      · rw [upd_other _ _ _ _ hx] at hs; exact Or.inl hs
    have hdm : ∀ x s, s ∈ st.dsubs x → s ∈ upd st.dsubs d (st.dsubs d ++ [⟨st.nSub, some d, g⟩]) x := by
      intro x s hs
      by_cases hx : x = d
      · subst hx; rw [upd_same]; exact List.mem_append_left _ hs
      · rw [upd_other _ _ _ _ hx]; exact hs
    have hgm : ∀ x s, s ∈ st.gsubs x → s ∈ upd st.gsubs g (st.gsubs g ++ [⟨st.nSub, some d, g⟩]) x := by
      intro x s hs
      by_cases hx : x = g
      · subst hx; rw [upd_same]; exact List.mem_append_left _ hs
      · rw [upd_other _ _ _ _ hx]; exact hs
    refine ⟨c.nodupD, c.nodupG, c.subsEq, c.dBound, c.gBound, ?_, ?_, ?_, ?_, ?_, ?_, ?_⟩
    · intro x s hs
      rcases hds x s hs with h | ⟨rfl, rfl⟩
      · exact c.subData x s h
      · rfl
    · intro x s hs
      rcases hgs x s hs with h | ⟨rfl, rfl⟩
      · exact c.subGroup x s h
      · rfl
    · intro x
      show ((upd st.dsubs d (st.dsubs d ++ [⟨st.nSub, some d, g⟩]) x).map (·.group)).Nodup
      by_cases hx : x = d
      · subst hx
        rw [upd_same, List.map_append, List.nodup_append]
        refine ⟨c.onePerGroup x, by simp, ?_⟩
        intro a ha b hb
        simp only [List.map_cons, List.map_nil, List.mem_singleton] at hb
        subst hb
        obtain ⟨t, ht, htg⟩ := List.mem_map.1 ha
        intro e
        subst e
        have h1 : t ∈ st.gsubs t.group := c.listed x t ht
        exact hno t (htg ▸ h1) (c.subData x t ht)
      · rw [upd_other _ _ _ _ hx]; exact c.onePerGroup x
    · intro x hx
      show ((upd st.gsubs g (st.gsubs g ++ [⟨st.nSub, some d, g⟩]) x).map (·.data)).Nodup
      by_cases hxg : x = g
      · subst hxg
        rw [upd_same, List.map_append, List.nodup_append]
        refine ⟨c.onePerData x hx, by simp, ?_⟩
        intro a ha b hb
        simp only [List.map_cons, List.map_nil, List.mem_singleton] at hb
        subst hb
        obtain ⟨t, ht, htd⟩ := List.mem_map.1 ha
        intro e
        exact hno t ht (htd.trans e)
      · rw [upd_other _ _ _ _ hxg]; exact c.onePerData x hx
    · intro x s hs
      rcases hds x s hs with h | ⟨rfl, rfl⟩
      · exact c.liveGroup x s h
      · exact hg
    · intro x s hs
      rcases hds x s hs with h | ⟨rfl, rfl⟩
      · exact hgm _ s (c.listed x s h)
      · show _ ∈ upd st.gsubs g (st.gsubs g ++ [⟨st.nSub, some x, g⟩]) g
        rw [upd_same]; simp
    · intro x hx s hs
      rcases hgs x s hs with h | ⟨rfl, rfl⟩
      · obtain ⟨y, hy, hsy⟩ := c.attached x hx s h
        exact ⟨y, hy, hdm y s hsy⟩
      · refine ⟨d, rfl, ?_⟩
        show _ ∈ upd st.dsubs d (st.dsubs d ++ [⟨st.nSub, some d, x⟩]) d
        rw [upd_same]; simp

/-- what the Add broadcast to the groups `gs` does, as far as the invariant needs it. -/
theorem foldl_addData_spec (d : Nat) (gs : List Nat) : ∀ st : State, Core st → (∀ g ∈ gs, g ∈ st.groups) →
    let st' := gs.foldl (fun st g => addDataG true g d st) st
    Core st' ∧ st'.datasets = st.datasets ∧ st'.groups = st.groups ∧ st'.nData = st.nData ∧
      (∀ x, x ≠ d → st'.dsubs x = st.dsubs x) ∧
      (∀ x s, s ∈ st.dsubs x → s ∈ st'.dsubs x) ∧
      (∀ g ∈ gs, ∃ s ∈ st'.dsubs d, s.group = g) := by
  induction gs with
  | nil => intro st c _; exact ⟨c, rfl, rfl, rfl, fun _ _ => rfl, fun _ _ h => h, by simp⟩
  | cons g gs ih =>
    intro st c hgs
    simp only [List.foldl_cons]
    have hg : g ∈ st.groups := hgs g (List.mem_cons_self ..)
    have c1 := core_addDataG c g d hg
    obtain ⟨f1, f2, _, f4, _⟩ := addDataG_frame g d st
    obtain ⟨c2, e1, e2, e3, e4, e5, e6⟩ := ih _ c1 (fun x hx => by rw [f2]; exact hgs x (List.mem_cons_of_mem _ hx))
    refine ⟨c2, e1.trans f1, e2.trans f2, e3.trans f4, ?_, ?_, ?_⟩
    · intro x hx; rw [e4 x hx, addDataG_dsubs_other g d st x hx]
    · intro x s hs; exact e5 x s (addDataG_dsubs_mono g d st x s hs)
    · intro g' hg'
      rcases List.mem_cons.1 hg' with rfl | h
      · obtain ⟨s, hs, hsg⟩ := addDataG_has c g' d hg
        exact ⟨s, e5 d s hs, hsg⟩
      · exact e6 g' h

/-! ## 3. queueing and delivering -/

/-- `insert` / `append` inside a delay block: the dataset joins the collection (anywhere), its Add
message joins the queue. -/
theorem invP_enqueue_add {st : State} {q : List QMsg} (h : InvP st q) (d : Nat) (D : List Nat)
    (hdn : d < st.nData) (hD : D.Nodup) (hmem : ∀ x, x ∈ D ↔ x = d ∨ x ∈ st.datasets) :
    InvP { st with datasets := D } (q ++ [.add d]) := by
  have c := core_of_invP h
  have c' : Core { st with datasets := D } := by
    refine core_congr c hD ?_ rfl rfl rfl rfl rfl
    intro x hx
    rcases (hmem x).1 hx with rfl | hx'
    · exact hdn
    · exact h.dBound x hx'
  have hla : ∀ x, lastAbout x (q ++ [.add d]) = if d = x then some true else lastAbout x q := by
    intro x; rw [lastAbout_append]; rfl
  refine invP_of_core c' ?_ ?_ ?_ ?_ ?_
  · intro m hm
    rcases List.mem_append.1 hm with hm | hm
    · exact h.qBound m hm
    · simp only [List.mem_singleton] at hm; subst hm; exact hdn
  · intro x hx
    rw [hla] at hx
    show x ∈ D
    by_cases e : d = x
    · exact (hmem x).2 (Or.inl e.symm)
    · rw [if_neg e] at hx; exact (hmem x).2 (Or.inr (h.pendIn x hx))
  · intro x hx
    rw [hla] at hx
    show x ∉ D
    by_cases e : d = x
    · rw [if_pos e] at hx; cases hx
    · rw [if_neg e] at hx
      intro hxD
      rcases (hmem x).1 hxD with e' | hx'
      · exact e e'.symm
      · exact h.pendOut x hx hx'
  · intro x hx hxD
    rw [hla] at hx
    by_cases e : d = x
    · rw [if_pos e] at hx; cases hx
    · rw [if_neg e] at hx
      have hx' : x ∈ st.datasets := by
        rcases (hmem x).1 hxD with e' | hx'
        · exact absurd e'.symm e
        · exact hx'
      exact h.settledIn x hx hx'
  · intro x hx hxD
    rw [hla] at hx
    by_cases e : d = x
    · rw [if_pos e] at hx; cases hx
    · rw [if_neg e] at hx
      exact h.settledOut x hx (fun hx' => hxD ((hmem x).2 (Or.inr hx')))

/-- `remove` inside a delay block: the dataset leaves the collection, its Delete message joins
the queue. -/
theorem invP_enqueue_del {st : State} {q : List QMsg} (h : InvP st q) (d : Nat) (hd : d ∈ st.datasets) :
    InvP { st with datasets := st.datasets.erase d } (q ++ [.del d]) := by
  have c := core_of_invP h
  have hmem : ∀ x, x ∈ st.datasets.erase d ↔ x ≠ d ∧ x ∈ st.datasets := fun x => h.nodupD.mem_erase_iff
  have c' : Core { st with datasets := st.datasets.erase d } :=
    core_congr c (h.nodupD.erase d) (fun x hx => h.dBound x ((hmem x).1 hx).2) rfl rfl rfl rfl rfl
  have hla : ∀ x, lastAbout x (q ++ [.del d]) = if d = x then some false else lastAbout x q := by
    intro x; rw [lastAbout_append]; rfl
  refine invP_of_core c' ?_ ?_ ?_ ?_ ?_
  · intro m hm
    rcases List.mem_append.1 hm with hm | hm
    · exact h.qBound m hm
    · simp only [List.mem_singleton] at hm; subst hm; exact h.dBound d hd
  · intro x hx
    rw [hla] at hx
    show x ∈ st.datasets.erase d
    by_cases e : d = x
    · rw [if_pos e] at hx; cases hx
    · rw [if_neg e] at hx; exact (hmem x).2 ⟨fun e' => e e'.symm, h.pendIn x hx⟩
  · intro x hx
    rw [hla] at hx
    show x ∉ st.datasets.erase d
    by_cases e : d = x
    · intro hxD; exact ((hmem x).1 hxD).1 e.symm
    · rw [if_neg e] at hx
      intro hxD; exact h.pendOut x hx ((hmem x).1 hxD).2
  · intro x hx hxD
    rw [hla] at hx
    by_cases e : d = x
    · rw [if_pos e] at hx; cases hx
    · rw [if_neg e] at hx
      exact h.settledIn x hx ((hmem x).1 hxD).2
  · intro x hx hxD
    rw [hla] at hx
    by_cases e : d = x
    · rw [if_pos e] at hx; cases hx
    · rw [if_neg e] at hx
      exact h.settledOut x hx (fun hx' => hxD ((hmem x).2 ⟨fun e' => e e'.symm, hx'⟩))

/-- **Delivering the oldest queued message** (its handlers run for every subscribed group)
re-establishes the pending invariant for the rest of the queue. -/
theorem invP_deliver {st : State} {m : QMsg} {q : List QMsg} (h : InvP st (m :: q)) :
    InvP (deliver true m st) q := by
  have c := core_of_invP h
  cases m with
  | add d =>
    obtain ⟨c', e1, e2, e3, e4, e5, e6⟩ :=
      foldl_addData_spec d st.subs st c (fun g hg => by rw [← c.subsEq]; exact hg)
    have hE : deliver true (.add d) st = st.subs.foldl (fun st g => addDataG true g d st) st := rfl
    rw [hE]
    refine invP_of_core c' ?_ ?_ ?_ ?_ ?_
    · intro m hm; rw [e3]; exact h.qBound m (List.mem_cons_of_mem _ hm)
    · intro x hx; rw [e1]; exact h.pendIn x (lastAbout_cons_some x _ q _ hx)
    · intro x hx; rw [e1]; exact h.pendOut x (lastAbout_cons_some x _ q _ hx)
    · intro x hx hxD g hg
      rw [e1] at hxD
      rw [e2] at hg
      by_cases e : x = d
      · subst e; exact e6 g (by rw [c.subsEq]; exact hg)
      · have hx' : lastAbout x (QMsg.add d :: q) = none := by
          rw [lastAbout_cons_none x _ q hx]
          show (if d = x then _ else _) = none
          rw [if_neg (fun e' => e e'.symm)]
        obtain ⟨s, hs, hsg⟩ := h.settledIn x hx' hxD g hg
        exact ⟨s, e5 x s hs, hsg⟩
    · intro x hx hxD
      rw [e1] at hxD
      by_cases e : x = d
      · subst e
        have hx' : lastAbout x (QMsg.add x :: q) = some true := by
          rw [lastAbout_cons_none x _ q hx]
          show (if x = x then _ else _) = _
          rw [if_pos rfl]; rfl
        exact absurd (h.pendIn x hx') hxD
      · have hx' : lastAbout x (QMsg.add d :: q) = none := by
          rw [lastAbout_cons_none x _ q hx]
          show (if d = x then _ else _) = none
          rw [if_neg (fun e' => e e'.symm)]
        rw [e4 x e]; exact h.settledOut x hx' hxD
  | del d =>
    obtain ⟨c', e1, e2, e3, e4, e5⟩ := foldl_removeData_spec d st.subs st c
    have hE : deliver true (.del d) st = st.subs.foldl (fun st g => removeDataH true g d st) st := rfl
    rw [hE]
    refine invP_of_core c' ?_ ?_ ?_ ?_ ?_
    · intro m hm; rw [e3]; exact h.qBound m (List.mem_cons_of_mem _ hm)
    · intro x hx; rw [e1]; exact h.pendIn x (lastAbout_cons_some x _ q _ hx)
    · intro x hx; rw [e1]; exact h.pendOut x (lastAbout_cons_some x _ q _ hx)
    · intro x hx hxD g hg
      rw [e1] at hxD
      rw [e2] at hg
      by_cases e : x = d
      · subst e
        have hx' : lastAbout x (QMsg.del x :: q) = some false := by
          rw [lastAbout_cons_none x _ q hx]
          show (if x = x then _ else _) = _
          rw [if_pos rfl]; rfl
        exact absurd hxD (h.pendOut x hx')
      · have hx' : lastAbout x (QMsg.del d :: q) = none := by
          rw [lastAbout_cons_none x _ q hx]
          show (if d = x then _ else _) = none
          rw [if_neg (fun e' => e e'.symm)]
        rw [e4 x e]; exact h.settledIn x hx' hxD g hg
    · intro x hx hxD
      rw [e1] at hxD
      by_cases e : x = d
      · subst e
        apply List.eq_nil_iff_forall_not_mem.2
        intro s hs
        obtain ⟨_, h2⟩ := e5 s hs
        have := c'.liveGroup x s hs
        rw [e2, ← c.subsEq] at this
        exact h2 this
      · have hx' : lastAbout x (QMsg.del d :: q) = none := by
          rw [lastAbout_cons_none x _ q hx]
          show (if d = x then _ else _) = none
          rw [if_neg (fun e' => e e'.symm)]
        rw [e4 x e]; exact h.settledOut x hx' hxD

/-- **Closing the outermost block**: the queue is flushed handler by handler and the quiescent
invariant is restored (induction over the queue). -/
theorem invP_flush : ∀ (q : List QMsg) (st : State), InvP st q → InvP (flush true q st) [] := by
  intro q
  induction q with
  | nil => intro st h; exact h
  | cons m q ih =>
    intro st h
    show InvP (flush true q (deliver true m st)) []
    exact ih _ (invP_deliver h)

/-- Delivery changes neither the collection nor the group list (only the attachment lists). -/
theorem deliver_frame (m : QMsg) (st : State) (c : Core st) :
    (deliver true m st).datasets = st.datasets ∧ (deliver true m st).groups = st.groups ∧
    (deliver true m st).nData = st.nData := by
  cases m with
  | add d =>
    obtain ⟨_, e1, e2, e3, _⟩ := foldl_addData_spec d st.subs st c (fun g hg => by rw [← c.subsEq]; exact hg)
    exact ⟨e1, e2, e3⟩
  | del d =>
    obtain ⟨_, e1, e2, e3, _⟩ := foldl_removeData_spec d st.subs st c
    exact ⟨e1, e2, e3⟩

/-! ## 4. group creation / removal, setters, save + restore — with any queue pending -/

/-- `InvP` does not look at labels, attribute values, `_sg_count`, the serial counter, the stacks. -/
theorem invP_congr {st st' : State} {q : List QMsg} (h : InvP st q)
    (h0 : st'.datasets = st.datasets) (h1 : st'.groups = st.groups) (h2 : st'.subs = st.subs)
    (h3 : st'.nGroup = st.nGroup) (h4 : st'.dsubs = st.dsubs) (h5 : st'.gsubs = st.gsubs)
    (h6 : st.nData ≤ st'.nData) : InvP st' q := by
  have c := core_congr (st' := st') (core_of_invP h) (h0 ▸ h.nodupD)
    (fun d hd => Nat.lt_of_lt_of_le (h.dBound d (h0 ▸ hd)) h6) h1 h2 h3 h4 h5
  refine invP_of_core c (fun m hm => Nat.lt_of_lt_of_le (h.qBound m hm) h6) ?_ ?_ ?_ ?_
  · rw [h0]; exact h.pendIn
  · rw [h0]; exact h.pendOut
  · rw [h0, h1, h4]; exact h.settledIn
  · rw [h0, h4]; exact h.settledOut

theorem invP_setVal {st : State} {q : List QMsg} (h : InvP st q) (g : Nat) (f : GVals → GVals) :
    InvP (setVal g f st) q := by
  unfold setVal
  split
  · exact invP_congr h rfl rfl rfl rfl rfl rfl (Nat.le_refl _)
  · exact h

theorem invP_newGroup {st : State} {q : List QMsg} (h : InvP st q) : InvP (Collection.newGroup st) q := by
  rw [newGroup_eq]
  have hg : st.nGroup ∉ st.groups := fun e => Nat.lt_irrefl _ (h.gBound _ e)
  have hold : ∀ d, ∀ s ∈ st.dsubs d, s.group ≠ st.nGroup := by
    intro d s hs e
    exact hg (e ▸ h.liveGroup d s hs)
  -- membership in the new attachment list of `d`
  have hnew : ∀ d s, s ∈ st.dsubs d ++
        ((st.datasets.zip (mkSubsD st.nSub st.nGroup st.datasets)).filter (fun p => p.1 == d)).map (·.2) →
      s ∈ st.dsubs d ∨ (d ∈ st.datasets ∧ s.data = some d ∧ s.group = st.nGroup ∧
        s ∈ mkSubsD st.nSub st.nGroup st.datasets) := by
    intro d s hs
    rcases List.mem_append.1 hs with h1 | h1
    · exact Or.inl h1
    · right
      by_cases hd : d ∈ st.datasets
      · obtain ⟨t, ht, htd, htg, htm⟩ := zip_new_mem st.nSub st.nGroup st.datasets h.nodupD d hd
        rw [ht] at h1
        simp only [List.mem_singleton] at h1
        subst h1
        exact ⟨hd, htd, htg, htm⟩
      · rw [zip_new_not_mem _ _ _ _ hd] at h1; cases h1
  refine
    { nodupD := h.nodupD, nodupG := ?_, subsEq := ?_, dBound := h.dBound, gBound := ?_, qBound := h.qBound,
      subData := ?_, subGroup := ?_, onePerGroup := ?_, onePerData := ?_, liveGroup := ?_, listed := ?_,
      attached := ?_, pendIn := h.pendIn, pendOut := h.pendOut, settledIn := ?_, settledOut := ?_ }
  · show (st.groups ++ [st.nGroup]).Nodup
    rw [List.nodup_append]
    exact ⟨h.nodupG, by simp, fun a ha b hb => by
      simp only [List.mem_singleton] at hb; subst hb; intro e; exact hg (e ▸ ha)⟩
  · show st.subs ++ [st.nGroup] = st.groups ++ [st.nGroup]
    rw [h.subsEq]
  · intro g hg'
    show g < st.nGroup + 1
    rcases List.mem_append.1 hg' with h1 | h1
    · exact Nat.lt_succ_of_lt (h.gBound g h1)
    · simp only [List.mem_singleton] at h1; subst h1; exact Nat.lt_succ_self _
  · intro d s hs
    rcases hnew d s hs with h1 | ⟨_, h1, _⟩
    · exact h.subData d s h1
    · exact h1
  · intro g s hs
    have hs' : s ∈ upd st.gsubs st.nGroup (mkSubsD st.nSub st.nGroup st.datasets) g := hs
    by_cases e : g = st.nGroup
    · subst e; rw [upd_same] at hs'; exact mkSubsD_group _ _ _ s hs'
    · rw [upd_other _ _ _ _ e] at hs'; exact h.subGroup g s hs'
  · intro d
    show ((st.dsubs d ++ ((st.datasets.zip (mkSubsD st.nSub st.nGroup st.datasets)).filter
      (fun p => p.1 == d)).map (·.2)).map (·.group)).Nodup
    by_cases hd : d ∈ st.datasets
    · obtain ⟨t, ht, _, htg, _⟩ := zip_new_mem st.nSub st.nGroup st.datasets h.nodupD d hd
      rw [ht, List.map_append, List.nodup_append]
      refine ⟨h.onePerGroup d, by simp, ?_⟩
      intro a ha b hb
      simp only [List.map_cons, List.map_nil, List.mem_singleton] at hb
      subst hb
      obtain ⟨u, hu, hug⟩ := List.mem_map.1 ha
      intro e
      exact hold d u hu (hug.trans (e.trans htg))
    · rw [zip_new_not_mem _ _ _ _ hd, List.append_nil]; exact h.onePerGroup d
  · intro g hg'
    show ((upd st.gsubs st.nGroup (mkSubsD st.nSub st.nGroup st.datasets) g).map (·.data)).Nodup
    by_cases e : g = st.nGroup
    · subst e
      rw [upd_same, mkSubsD_map_data]
      exact nodup_map_some _ h.nodupD
    · rw [upd_other _ _ _ _ e]
      rcases List.mem_append.1 hg' with h1 | h1
      · exact h.onePerData g h1
      · simp only [List.mem_singleton] at h1; exact absurd h1 e
  · intro d s hs
    show s.group ∈ st.groups ++ [st.nGroup]
    rcases hnew d s hs with h1 | ⟨_, _, h1, _⟩
    · exact List.mem_append_left _ (h.liveGroup d s h1)
    · rw [h1]; simp
  · intro d s hs
    show s ∈ upd st.gsubs st.nGroup (mkSubsD st.nSub st.nGroup st.datasets) s.group
    rcases hnew d s hs with h1 | ⟨_, _, h1, h2⟩
    · rw [upd_other _ _ _ _ (hold d s h1)]; exact h.listed d s h1
    · rw [h1, upd_same]; exact h2
  · intro g hg' s hs
    have hs' : s ∈ upd st.gsubs st.nGroup (mkSubsD st.nSub st.nGroup st.datasets) g := hs
    by_cases e : g = st.nGroup
    · subst e
      rw [upd_same] at hs'
      obtain ⟨d, _, hsd, hmem⟩ := zip_new_of_mem st.nSub st.nGroup st.datasets s hs'
      exact ⟨d, hsd, List.mem_append_right _ hmem⟩
    · rw [upd_other _ _ _ _ e] at hs'
      have hgG : g ∈ st.groups := by
        rcases List.mem_append.1 hg' with h1 | h1
        · exact h1
        · simp only [List.mem_singleton] at h1; exact absurd h1 e
      obtain ⟨d, hsd, hmem⟩ := h.attached g hgG s hs'
      exact ⟨d, hsd, List.mem_append_left _ hmem⟩
  · intro d hq hd g hg'
    show ∃ s ∈ st.dsubs d ++ _, s.group = g
    rcases List.mem_append.1 hg' with h1 | h1
    · obtain ⟨s, hs, hsg⟩ := h.settledIn d hq hd g h1
      exact ⟨s, List.mem_append_left _ hs, hsg⟩
    · simp only [List.mem_singleton] at h1
      subst h1
      obtain ⟨t, ht, _, htg, _⟩ := zip_new_mem st.nSub st.nGroup st.datasets h.nodupD d hd
      exact ⟨t, List.mem_append_right _ (by rw [ht]; simp), htg⟩
  · intro d hq hd
    show st.dsubs d ++ _ = []
    rw [h.settledOut d hq hd, zip_new_not_mem _ _ _ _ hd]; rfl

theorem invP_removeGroup {st : State} {q : List QMsg} (h : InvP st q) (g : Nat) :
    InvP (Collection.removeGroup g st) q := by
  unfold Collection.removeGroup
  split
  · simp only [foldl_deleteSub]
    have c := core_of_invP h
    have hmem : ∀ x, x ∈ st.groups.erase g ↔ x ≠ g ∧ x ∈ st.groups := fun x => h.nodupG.mem_erase_iff
    have hds : ∀ x, ((st.gsubs g).filter (fun s => s.data == some x)).foldl List.erase (st.dsubs x) =
        (st.dsubs x).filter (fun s => !(s.group == g)) := fun x => erase_gone_eq c g x
    have hsub : ∀ x s, s ∈ (st.dsubs x).filter (fun s => !(s.group == g)) → s ∈ st.dsubs x ∧ s.group ≠ g := by
      intro x s hs
      have := List.mem_filter.1 hs
      exact ⟨this.1, by simpa using this.2⟩
    refine
      { nodupD := h.nodupD, nodupG := h.nodupG.erase g, subsEq := ?_, dBound := h.dBound, gBound := ?_,
        qBound := h.qBound, subData := ?_, subGroup := h.subGroup, onePerGroup := ?_, onePerData := ?_,
        liveGroup := ?_, listed := ?_, attached := ?_, pendIn := h.pendIn, pendOut := h.pendOut,
        settledIn := ?_, settledOut := ?_ }
    · show st.subs.erase g = st.groups.erase g
      rw [h.subsEq]
    · intro x hx; exact h.gBound x ((hmem x).1 hx).2
    · intro x s hs
      have hs' : s ∈ ((st.gsubs g).filter (fun s => s.data == some x)).foldl List.erase (st.dsubs x) := hs
      rw [hds] at hs'; exact h.subData x s (hsub x s hs').1
    · intro x
      show ((((st.gsubs g).filter (fun s => s.data == some x)).foldl List.erase (st.dsubs x)).map (·.group)).Nodup
      rw [hds]; exact map_filter_nodup _ _ _ (h.onePerGroup x)
    · intro x hx; exact h.onePerData x ((hmem x).1 hx).2
    · intro x s hs
      have hs' : s ∈ ((st.gsubs g).filter (fun s => s.data == some x)).foldl List.erase (st.dsubs x) := hs
      rw [hds] at hs'
      obtain ⟨h1, h2⟩ := hsub x s hs'
      exact (hmem _).2 ⟨h2, h.liveGroup x s h1⟩
    · intro x s hs
      have hs' : s ∈ ((st.gsubs g).filter (fun s => s.data == some x)).foldl List.erase (st.dsubs x) := hs
      rw [hds] at hs'
      exact h.listed x s (hsub x s hs').1
    · intro x hx s hs
      obtain ⟨hne, hxG⟩ := (hmem x).1 hx
      obtain ⟨d, hsd, hm⟩ := h.attached x hxG s hs
      refine ⟨d, hsd, ?_⟩
      show s ∈ ((st.gsubs g).filter (fun s => s.data == some d)).foldl List.erase (st.dsubs d)
      rw [hds]
      refine List.mem_filter.2 ⟨hm, ?_⟩
      have := h.subGroup x s hs
      simp [this, hne]
    · intro d hq hd x hx
      obtain ⟨hne, hxG⟩ := (hmem x).1 hx
      obtain ⟨s, hs, hsg⟩ := h.settledIn d hq hd x hxG
      refine ⟨s, ?_, hsg⟩
      show s ∈ ((st.gsubs g).filter (fun s => s.data == some d)).foldl List.erase (st.dsubs d)
      rw [hds]
      exact List.mem_filter.2 ⟨hs, by simp [hsg, hne]⟩
    · intro d hq hd
      show ((st.gsubs g).filter (fun s => s.data == some d)).foldl List.erase (st.dsubs d) = []
      rw [h.settledOut d hq hd, foldl_erase_nil]
  · exact h

/-- at a quiescent point a dataset outside the collection carries nothing. -/
theorem removedEmpty_of_invP {st : State} (h : InvP st []) (d : Nat) (hd : d ∉ st.datasets) :
    st.dsubs d = [] := h.settledOut d rfl hd

/-- a dataset id that does not exist yet carries nothing (also while messages are queued). -/
theorem fresh_dsubs {st : State} {q : List QMsg} (h : InvP st q) (d : Nat) (hd : st.nData ≤ d) :
    st.dsubs d = [] := by
  apply h.settledOut d
  · apply lastAbout_none_of_bound
    intro m hm e
    have := h.qBound m hm
    omega
  · intro hm
    have := h.dBound d hm
    omega

/-- on a quiescent state a save / restore round trip changes nothing but the command stack. -/
theorem restore_eq' (st : State) (h : InvP st []) : Collection.restore st = { st with done := [], undone := [] } := by
  unfold Collection.restore
  apply State.ext <;> try rfl
  · exact h.subsEq.symm
  · funext d
    by_cases hd : d ∈ st.datasets
    · simp only [hd, if_true]
      apply map_eq_self
      intro s hs
      have := h.subData d s hs
      cases s; simp_all
    · simp only [hd, if_false]; exact (removedEmpty_of_invP h d hd).symm
  · funext g
    by_cases hg : g ∈ st.groups
    · simp only [hg, if_true]
      apply map_eq_self
      intro s hs
      obtain ⟨d, hsd, h2⟩ := h.attached g hg s hs
      have hd : d ∈ st.datasets := by
        apply Classical.byContradiction
        intro hd
        rw [removedEmpty_of_invP h d hd] at h2
        cases h2
      have : st.datasets.find? (fun d => (st.dsubs d).contains s) = some d := by
        apply find?_unique _ _ _ hd (by simpa using h2)
        intro x _ hx
        have hx' : s ∈ st.dsubs x := by simpa using hx
        have := h.subData x s hx'
        rw [hsd] at this
        exact (Option.some.inj this).symm
      rw [this]
      cases s; simp_all
    · simp only [hg, if_false]

theorem invP_restore {st : State} (h : InvP st []) : InvP (Collection.restore st) [] := by
  rw [restore_eq' st h]
  exact invP_congr h rfl rfl rfl rfl rfl rfl (Nat.le_refl _)

/-! ## 5. the operations of the history language, at any nesting depth

`Step s s'` : `s'` satisfies the invariant and has the depth of `s` (only `delayOpen` /
`delayClose` change the depth). -/

def Step (s s' : DState) : Prop := DInv s' ∧ s'.depth = s.depth

theorem Step.trans {a b c : DState} (h1 : Step a b) (h2 : DInv b → Step b c) : Step a c :=
  ⟨(h2 h1.1).1, (h2 h1.1).2.trans h1.2⟩

theorem step_refl {s : DState} (h : DInv s) : Step s s := ⟨h, rfl⟩

theorem step_lift {s : DState} (h : DInv s) (f : State → State) (hf : InvP (f s.col) s.queue) :
    Step s (lift f s) := ⟨⟨hf, h.idle⟩, rfl⟩

/-- `Hub.broadcast`: queue the message (block open) or deliver it at once — which is "queue it on
the empty queue, then deliver the oldest queued message". -/
theorem step_bcast {s : DState} (m : QMsg) (hidle : s.depth = 0 → s.queue = [])
    (h : InvP s.col (s.queue ++ [m])) : DInv (bcast true m s) ∧ (bcast true m s).depth = s.depth := by
  unfold bcast
  split
  · rename_i h0
    rw [hidle h0, List.nil_append] at h
    exact ⟨⟨(hidle h0) ▸ invP_deliver h, fun _ => hidle h0⟩, rfl⟩
  · rename_i h0
    exact ⟨⟨h, fun e => absurd e h0⟩, rfl⟩

theorem step_appendOne {s : DState} (h : DInv s) (d : Nat) : Step s (appendOne true d s) := by
  unfold Delay.appendOne
  split
  · exact step_refl h
  · rename_i hc
    have hd : d ∉ s.col.datasets := fun x => hc (Or.inl x)
    have hn : d < s.col.nData := Nat.lt_of_not_le (fun x => hc (Or.inr x))
    apply step_bcast (s := lift _ s) _ h.idle
    refine invP_enqueue_add h.pending d _ hn ?_ ?_
    · rw [List.nodup_append]
      exact ⟨h.pending.nodupD, by simp, fun a ha b hb => by
        simp only [List.mem_singleton] at hb; subst hb; intro e; exact hd (e ▸ ha)⟩
    · intro x; simp [or_comm]

theorem step_insertOne {s : DState} (h : DInv s) (i d : Nat) : Step s (insertOne true i d s) := by
  unfold Delay.insertOne
  split
  · exact step_refl h
  · rename_i hc
    have hd : d ∉ s.col.datasets := fun x => hc (Or.inl x)
    have hn : d < s.col.nData := Nat.lt_of_not_le (fun x => hc (Or.inr x))
    have hp : (s.col.datasets.insertIdx (min i s.col.datasets.length) d).Perm (d :: s.col.datasets) :=
      List.perm_insertIdx d s.col.datasets (Nat.min_le_right _ _)
    apply step_bcast (s := lift _ s) _ h.idle
    refine invP_enqueue_add h.pending d _ hn ?_ ?_
    · exact hp.nodup_iff.2 (List.nodup_cons.2 ⟨hd, h.pending.nodupD⟩)
    · intro x; rw [hp.mem_iff]; simp

theorem step_removeOne {s : DState} (h : DInv s) (d : Nat) : Step s (removeOne true d s) := by
  unfold Delay.removeOne
  split
  · rename_i hd
    apply step_bcast (s := lift _ s) _ h.idle
    exact invP_enqueue_del h.pending d hd
  · exact step_refl h

theorem step_foldl {α : Type} (f : DState → α → DState) (hf : ∀ s a, DInv s → Step s (f s a)) :
    ∀ (l : List α) (s : DState), DInv s → Step s (l.foldl f s) := by
  intro l
  induction l with
  | nil => intro s h; exact step_refl h
  | cons a l ih => intro s h; exact (hf s a h).trans (fun h' => ih _ h')

theorem step_extend {s : DState} (h : DInv s) (ds : List Nat) : Step s (extend true ds s) :=
  step_foldl _ (fun _ d h => step_appendOne h d) ds s h

theorem step_clear {s : DState} (h : DInv s) : Step s (clear true s) :=
  step_foldl _ (fun _ d h => step_removeOne h d) _ s h

/-- `with hub.delay_callbacks(): body` around a body that broadcasts no collection message. -/
theorem step_withDelay {s : DState} (h : DInv s) (f : State → State) (hf : InvP (f s.col) s.queue) :
    Step s (withDelay true (lift f) s) := by
  unfold withDelay delayClose delayOpen lift
  simp only [Nat.add_one_ne_zero, if_false, Nat.add_sub_cancel]
  split
  · rename_i h0
    refine ⟨⟨?_, fun _ => rfl⟩, h0.symm⟩
    exact invP_flush _ _ hf
  · rename_i h0
    exact ⟨⟨hf, fun e => absurd e h0⟩, rfl⟩

theorem step_newGroup {s : DState} (h : DInv s) : Step s (newGroup true s) :=
  step_withDelay h _ (invP_newGroup h.pending)

theorem step_removeGroup {s : DState} (h : DInv s) (g : Nat) : Step s (removeGroup true g s) := by
  unfold Delay.removeGroup
  split
  · exact step_withDelay h _ (invP_removeGroup h.pending g)
  · exact step_refl h

theorem step_stack {s : DState} (h : DInv s) (f : State → State)
    (h0 : ∀ st, (f st).datasets = st.datasets) (h1 : ∀ st, (f st).groups = st.groups)
    (h2 : ∀ st, (f st).subs = st.subs) (h3 : ∀ st, (f st).nGroup = st.nGroup)
    (h4 : ∀ st, (f st).dsubs = st.dsubs) (h5 : ∀ st, (f st).gsubs = st.gsubs)
    (h6 : ∀ st, (f st).nData = st.nData) : Step s (lift f s) :=
  step_lift h f (invP_congr h.pending (h0 _) (h1 _) (h2 _) (h3 _) (h4 _) (h5 _) (Nat.le_of_eq (h6 _).symm))

theorem step_merge {s : DState} (h : DInv s) (ds : List Nat) : Step s (merge true ds s) := by
  unfold Delay.merge
  split
  · split
    · have e0 := fresh_dsubs h.pending s.col.nData (Nat.le_refl _)
      have he : upd s.col.dsubs s.col.nData [] = s.col.dsubs := by
        have : upd s.col.dsubs s.col.nData [] = upd s.col.dsubs s.col.nData (s.col.dsubs s.col.nData) := by
          rw [e0]
        rw [this]; exact upd_self _ _
      refine ((step_lift h _ ?_).trans (fun h' => step_appendOne h' _)).trans
        (fun h' => step_foldl _ (fun _ d h => step_removeOne h d) _ _ h')
      exact invP_congr h.pending rfl rfl rfl rfl he rfl (Nat.le_succ _)
    · exact step_refl h
  · exact step_refl h

theorem step_setItem {s : DState} (h : DInv s) (key d : Nat) : Step s (setItem true key d s) := by
  unfold Delay.setItem
  split
  · exact step_refl h
  · have h1 : Step s (lift (fun st => { st with dlabel := upd st.dlabel d key }) s) :=
      step_lift h _ (invP_congr h.pending rfl rfl rfl rfl rfl rfl (Nat.le_refl _))
    refine (h1.trans (fun h' => step_foldl _ (fun s e h => ?_) _ _ h')).trans (fun h' => step_appendOne h' d)
    split
    · exact step_removeOne h e
    · exact step_refl h

theorem step_restore {s : DState} (h : DInv s) : Step s (Delay.restore s) := by
  unfold Delay.restore
  split
  · rename_i h0
    have hq := h.idle h0
    refine step_lift h _ ?_
    rw [hq]
    exact invP_restore (hq ▸ h.pending)
  · exact step_refl h

theorem step_cmdDo {s : DState} (h : DInv s) (c : DCmd) : Step s (cmdDo true c s) := by
  unfold Delay.cmdDo
  split
  · exact step_appendOne h _
  · exact step_removeOne h _

/-- whatever the command object recorded, undoing it keeps the invariant. -/
theorem step_cmdUndo {s : DState} (h : DInv s) (c : DCmd) : Step s (cmdUndo true c s) := by
  unfold Delay.cmdUndo
  split
  · split
    · exact step_removeOne h _
    · exact step_insertOne h _ _
  · exact step_refl h

theorem step_stack' {s : DState} (h : DInv s) (a b : State → List DCmd) :
    Step s (lift (fun st => { st with done := a st, undone := b st }) s) :=
  step_lift h _ (invP_congr h.pending rfl rfl rfl rfl rfl rfl (Nat.le_refl _))

theorem step_doCmd {s : DState} (h : DInv s) (add : Bool) (d : Nat) : Step s (doCmd true add d s) := by
  unfold Delay.doCmd
  exact ((step_stack' h (fun st => _ :: st.done) (fun st => st.undone)).trans
    (fun h' => step_cmdDo h' _)).trans (fun h' => step_stack' h' (fun st => st.done.take maxUndo) (fun _ => []))

theorem step_undoCmd {s : DState} (h : DInv s) : Step s (undoCmd true s) := by
  unfold Delay.undoCmd
  split
  · exact step_refl h
  · rename_i c rest _
    exact (step_stack' h (fun _ => rest) (fun st => c :: st.undone)).trans (fun h' => step_cmdUndo h' _)

theorem step_redoCmd {s : DState} (h : DInv s) : Step s (redoCmd true s) := by
  unfold Delay.redoCmd
  split
  · exact step_refl h
  · rename_i c rest _
    exact ((step_stack' h (fun st => st.done) (fun _ => rest)).trans (fun h' => step_cmdDo h' _)).trans
      (fun h' => step_stack' h' (fun st => _ :: st.done) (fun st => st.undone))

theorem step_stepOp {s : DState} (h : DInv s) (o : Op) : Step s (stepOp true s o) := by
  cases o with
  | append d => exact step_appendOne h d
  | extend ds => exact step_extend h ds
  | remove d => exact step_removeOne h d
  | clear => exact step_clear h
  | newGroup => exact step_newGroup h
  | removeGroup g => exact step_removeGroup h g
  | setState g v => exact step_lift h _ (invP_setVal h.pending _ _)
  | setLabel g v => exact step_lift h _ (invP_setVal h.pending _ _)
  | setStyle g v => exact step_lift h _ (invP_setVal h.pending _ _)
  | merge ds => exact step_merge h ds
  | insert i d => exact step_insertOne h i d
  | setItem key d => exact step_setItem h key d
  | restore => exact step_restore h
  | doCmd add d => exact step_doCmd h add d
  | undo => exact step_undoCmd h
  | redo => exact step_redoCmd h

theorem dinv_delayOpen {s : DState} (h : DInv s) : DInv (delayOpen s) :=
  ⟨h.pending, fun e => absurd e (Nat.add_one_ne_zero _)⟩

/-- leaving a block: an inner close only lowers the depth; the outermost close flushes the queue. -/
theorem dinv_delayClose {s : DState} (h : DInv s) : DInv (delayClose true s) := by
  unfold delayClose
  split
  · exact h
  · split
    · exact ⟨invP_flush _ _ h.pending, fun _ => rfl⟩
    · rename_i h1
      exact ⟨h.pending, fun e => absurd e h1⟩

theorem delayClose_depth (s : DState) : (delayClose true s).depth = s.depth - 1 := by
  unfold delayClose
  split
  · rename_i h0; rw [h0]
  · split
    · rename_i h1; exact h1.symm
    · rfl

theorem dinv_step {s : DState} (h : DInv s) (op : DOp) : DInv (Delay.step true s op) := by
  cases op with
  | op o => exact (step_stepOp h o).1
  | delayOpen => exact dinv_delayOpen h
  | delayClose => exact dinv_delayClose h

theorem dinv_init (n colors : Nat) : DInv (Delay.init n colors) := by
  refine ⟨?_, fun _ => rfl⟩
  refine ⟨List.nodup_nil, List.nodup_nil, rfl, ?_, ?_, ?_, ?_, ?_, ?_, ?_, ?_, ?_, ?_, ?_, ?_, ?_, ?_⟩ <;>
    intros <;> first | rfl | (rename_i h; cases h) | skip
  all_goals simp_all [Delay.init, Collection.init]

theorem dinv_run (ops : List DOp) : ∀ s : DState, DInv s → DInv (Delay.run true s ops) := by
  unfold Delay.run
  induction ops with
  | nil => intro s h; exact h
  | cons op ops ih => intro s h; exact ih _ (dinv_step h op)

/-- the depth after a history is determined by its `delayOpen` / `delayClose` steps alone. -/
theorem depth_run (ops : List DOp) : ∀ s : DState, DInv s →
    (Delay.run true s ops).depth = netDepth s.depth ops := by
  unfold Delay.run
  induction ops with
  | nil => intro s _; rfl
  | cons op ops ih =>
    intro s h
    simp only [List.foldl_cons]
    rw [ih _ (dinv_step h op)]
    cases op with
    | op o => simp only [Delay.step, netDepth]; rw [(step_stepOp h o).2]
    | delayOpen => rfl
    | delayClose => simp only [Delay.step, netDepth]; rw [delayClose_depth]

/-! ## 6. quiescent states: the readable invariant and the executable Spec predicate -/

theorem qinv_of_invP {st : State} (h : InvP st []) : QInv st := by
  have hrem : ∀ d, d ∉ st.datasets → st.dsubs d = [] := fun d hd => h.settledOut d rfl hd
  have hin : ∀ d s, s ∈ st.dsubs d → d ∈ st.datasets := by
    intro d s hs
    apply Classical.byContradiction
    intro hd
    rw [hrem d hd] at hs; cases hs
  refine
    { nodupD := h.nodupD, nodupG := h.nodupG, subsEq := h.subsEq, dBound := h.dBound, gBound := h.gBound,
      dataGroups := ?_, subData := h.subData, removedEmpty := hrem, groupDatas := ?_,
      subGroup := h.subGroup, groupAttached := ?_, attachedListed := fun d _ => h.listed d }
  · intro d hd
    rw [List.perm_ext_iff_of_nodup (h.onePerGroup d) h.nodupG]
    intro g
    constructor
    · intro hg
      obtain ⟨s, hs, rfl⟩ := List.mem_map.1 hg
      exact h.liveGroup d s hs
    · intro hg
      obtain ⟨s, hs, hsg⟩ := h.settledIn d rfl hd g hg
      exact List.mem_map.2 ⟨s, hs, hsg⟩
  · intro g hg
    rw [List.perm_ext_iff_of_nodup (h.onePerData g hg) (nodup_map_some _ h.nodupD)]
    intro x
    constructor
    · intro hx
      obtain ⟨s, hs, rfl⟩ := List.mem_map.1 hx
      obtain ⟨d, hsd, hm⟩ := h.attached g hg s hs
      exact List.mem_map.2 ⟨d, hin d s hm, hsd.symm⟩
    · intro hx
      obtain ⟨d, hd, rfl⟩ := List.mem_map.1 hx
      obtain ⟨s, hs, hsg⟩ := h.settledIn d rfl hd g hg
      exact List.mem_map.2 ⟨s, hsg ▸ h.listed d s hs, h.subData d s hs⟩
  · intro g hg s hs d hsd
    obtain ⟨d', hsd', hm⟩ := h.attached g hg s hs
    rw [hsd] at hsd'
    exact (Option.some.inj hsd') ▸ hm

/-- the ordered invariant of the immediate-delivery model implies the order-free one. -/
theorem qinv_of_inv {st : State} (h : Inv st) : QInv st :=
  { nodupD := h.nodupD, nodupG := h.nodupG, subsEq := h.subsEq, dBound := h.dBound, gBound := h.gBound,
    dataGroups := fun d hd => (h.dataGroups d hd) ▸ List.Perm.refl _, subData := h.subData,
    removedEmpty := h.removedEmpty, groupDatas := h.groupDatas, subGroup := h.subGroup,
    groupAttached := h.groupAttached, attachedListed := h.attachedListed }

theorem q_mem_groups {st : State} (h : QInv st) {d : Nat} (hd : d ∈ st.datasets)
    {s : Sub} (hs : s ∈ st.dsubs d) : s.group ∈ st.groups :=
  (h.dataGroups d hd).mem_iff.1 (List.mem_map.2 ⟨s, hs, rfl⟩)

theorem q_mem_datasets {st : State} (h : QInv st) {d : Nat} {s : Sub} (hs : s ∈ st.dsubs d) :
    d ∈ st.datasets := by
  apply Classical.byContradiction
  intro hd
  rw [h.removedEmpty d hd] at hs
  cases hs

theorem dataOk_of_qinv {st : State} (h : QInv st) (d : Nat) (hd : d ∈ st.datasets) : dataOk st d = true := by
  unfold dataOk
  simp only [Bool.and_eq_true, List.all_eq_true, beq_iff_eq, List.contains_eq_mem, decide_eq_true_eq]
  refine ⟨?_, ?_⟩
  · intro g hg
    have hp := h.dataGroups d hd
    exact filter_length_one (fun s : Sub => s.group) _ _ rfl (hp.nodup_iff.2 h.nodupG) g (hp.mem_iff.2 hg)
  · intro s hs
    exact ⟨q_mem_groups h hd hs, h.subData d s hs⟩

theorem groupOk_of_qinv {st : State} (h : QInv st) (g : Nat) (hg : g ∈ st.groups) : groupOk st g = true := by
  unfold groupOk
  simp only [Bool.and_eq_true, List.all_eq_true, List.any_eq_true, beq_iff_eq, List.contains_eq_mem,
    decide_eq_true_eq, Bool.or_eq_true, bne_iff_ne, ne_eq]
  refine ⟨⟨?_, ?_⟩, ?_⟩
  · intro s hs
    refine ⟨h.subGroup g s hs, ?_⟩
    have h1 : s.data ∈ (st.gsubs g).map (·.data) := List.mem_map.2 ⟨s, hs, rfl⟩
    rw [(h.groupDatas g hg).mem_iff] at h1
    obtain ⟨d, hd, hsd⟩ := List.mem_map.1 h1
    exact ⟨d, hd, hsd.symm, h.groupAttached g hg s hs d hsd.symm⟩
  · intro d hd s hs
    by_cases hsg : s.group = g
    · right; exact hsg ▸ h.attachedListed d hd s hs
    · left; exact hsg
  · have := (h.groupDatas g hg).length_eq
    simpa using this

theorem removedGroupOk_of_qinv {st : State} (h : QInv st) (g : Nat) : removedGroupOk st g = true := by
  unfold removedGroupOk
  by_cases hg : g ∈ st.groups
  · simp [hg, h.subsEq]
  · simp only [List.contains_eq_mem, hg, decide_false, Bool.false_eq_true, if_false, h.subsEq,
      Bool.not_false, Bool.true_and, List.all_eq_true, Bool.not_eq_true', decide_eq_false_iff_not]
    intro s hs d _ hsd
    have hd := q_mem_datasets h hsd
    have h1 := q_mem_groups h hd hsd
    rw [h.subGroup g s hs] at h1
    exact hg h1

theorem readsOk_of_qinv {st : State} (h : QInv st) : readsOk st (modelReads st) = true := by
  unfold readsOk
  simp only [List.all_eq_true, Bool.and_eq_true, List.any_eq_true, beq_iff_eq, Bool.or_eq_true,
    bne_iff_ne, ne_eq]
  intro g hg s hs
  refine ⟨?_, ?_⟩
  · refine ⟨⟨s, readSub st s, true⟩, ?_, rfl⟩
    unfold modelReads
    refine List.mem_map.2 ⟨s, ?_, rfl⟩
    unfold allSubs
    refine List.mem_append_right _ (List.mem_flatMap.2 ⟨g, ?_, hs⟩)
    exact List.mem_range.2 (h.gBound g hg)
  · intro r hr
    unfold modelReads at hr
    obtain ⟨s', _, rfl⟩ := List.mem_map.1 hr
    by_cases hss : s' = s
    · right
      subst hss
      simp [readSub, h.subGroup g s' hs]
    · left; exact hss

/-- The quiescent invariant implies the property predicate that the driver evaluates. -/
theorem specOk_of_qinv (st : State) (h : QInv st) : specOk st (modelReads st) = true := by
  unfold specOk
  simp only [Bool.and_eq_true, decide_eq_true_eq, List.all_eq_true]
  refine ⟨⟨⟨⟨⟨⟨⟨⟨h.nodupD, h.nodupG⟩, h.dBound⟩, h.gBound⟩, ?_⟩, ?_⟩, ?_⟩, ?_⟩, readsOk_of_qinv h⟩
  · intro d hd; exact dataOk_of_qinv h d hd
  · intro g hg; exact groupOk_of_qinv h g hg
  · intro d _
    unfold removedDataOk
    by_cases hd : d ∈ st.datasets
    · simp [hd]
    · simp [hd, h.removedEmpty d hd]
  · intro g _; exact removedGroupOk_of_qinv h g

end GlueVerif.Lemmas.C06Delay
