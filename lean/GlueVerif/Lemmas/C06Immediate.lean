import GlueVerif.Lemmas.C06Delay
/-!
# C06 — the immediate-delivery model is the delay model on histories without delay blocks

`Model/Collection.lean` (`Collection.step true`, the model C18 builds on) has no hub state and no
guard in `_add_data`.  On a history that never opens a delay block every broadcast of
`Model/CollectionDelay.lean` is delivered at once, the internal blocks of `new_subset_group` /
`remove_subset_group` flush an empty queue, and the guard of `fix: F26-add-data-idempotent` never
fires (no live group lists a dataset that is outside the collection): the two models agree step by
step.  Core Lean only.
-/
namespace GlueVerif.Lemmas.C06Immediate
open GlueVerif.Collection GlueVerif.Collection.Delay GlueVerif.Lemmas.C06

/-- a collection state with an idle hub. -/
def idle (st : State) : DState := ⟨st, 0, []⟩

theorem foldl_addDataG_eq (d : Nat) (gs : List Nat) : ∀ st : State, gs.Nodup →
    (∀ g ∈ gs, ∀ s ∈ st.gsubs g, s.data ≠ some d) →
    gs.foldl (fun st g => addDataG true g d st) st = gs.foldl (fun st g => addData g d st) st := by
  induction gs with
  | nil => intro st _ _; rfl
  | cons g gs ih =>
    intro st hnd hno
    have hg : g ∉ gs := (List.nodup_cons.1 hnd).1
    have h1 : addDataG true g d st = addData g d st := by
      unfold addDataG
      rw [if_neg]
      simp only [Bool.true_and, List.any_eq_true, beq_iff_eq, not_exists, not_and]
      intro s hs
      exact hno g (List.mem_cons_self ..) s hs
    simp only [List.foldl_cons, h1]
    apply ih _ (List.nodup_cons.1 hnd).2
    intro g' hg' s hs
    have hne : g' ≠ g := fun e => hg (e ▸ hg')
    have : (addData g d st).gsubs g' = st.gsubs g' := by simp [addData, upd, hne]
    rw [this] at hs
    exact hno g' (List.mem_cons_of_mem _ hg') s hs

/-- no subscribed group lists a dataset that is outside the collection. -/
theorem not_listed {st : State} (h : Collection.Inv st) (d : Nat) (hd : d ∉ st.datasets) :
    ∀ g ∈ st.subs, ∀ s ∈ st.gsubs g, s.data ≠ some d := by
  intro g hg s hs hsd
  rw [h.subsEq] at hg
  have h1 : s.data ∈ (st.gsubs g).map (·.data) := List.mem_map.2 ⟨s, hs, rfl⟩
  rw [(h.groupDatas g hg).mem_iff, hsd] at h1
  obtain ⟨x, hx, e⟩ := List.mem_map.1 h1
  exact hd (Option.some.inj e ▸ hx)

theorem appendOne_idle {st : State} (h : Collection.Inv st) (d : Nat) :
    Delay.appendOne true d (idle st) = idle (Collection.appendOne d st) := by
  unfold Delay.appendOne Collection.appendOne
  show (if d ∈ st.datasets ∨ st.nData ≤ d then _ else _) = _
  split
  · rfl
  · rename_i hc
    have hd : d ∉ st.datasets := fun x => hc (Or.inl x)
    show idle _ = idle _
    congr 1
    exact foldl_addDataG_eq d st.subs _ (h.subsEq ▸ h.nodupG) (not_listed h d hd)

theorem insertOne_idle {st : State} (h : Collection.Inv st) (i d : Nat) :
    Delay.insertOne true i d (idle st) = idle (Collection.insertOne i d st) := by
  unfold Delay.insertOne Collection.insertOne
  show (if d ∈ st.datasets ∨ st.nData ≤ d then _ else _) = _
  split
  · rfl
  · rename_i hc
    have hd : d ∉ st.datasets := fun x => hc (Or.inl x)
    show idle _ = idle _
    congr 1
    exact foldl_addDataG_eq d st.subs _ (h.subsEq ▸ h.nodupG) (not_listed h d hd)

theorem removeOne_idle (st : State) (d : Nat) :
    Delay.removeOne true d (idle st) = idle (Collection.removeOne true d st) := by
  unfold Delay.removeOne Collection.removeOne
  show (if d ∈ st.datasets then _ else _) = _
  split <;> rfl

theorem foldl_idle {α : Type} (f : DState → α → DState) (g : State → α → State)
    (hfg : ∀ st a, Collection.Inv st → f (idle st) a = idle (g st a))
    (hinv : ∀ st a, Collection.Inv st → Collection.Inv (g st a)) :
    ∀ (l : List α) (st : State), Collection.Inv st → l.foldl f (idle st) = idle (l.foldl g st) := by
  intro l
  induction l with
  | nil => intro st _; rfl
  | cons a l ih =>
    intro st h
    simp only [List.foldl_cons]
    rw [hfg st a h]
    exact ih _ (hinv st a h)

theorem foldl_remove_idle (l : List Nat) (st : State) (h : Collection.Inv st) :
    l.foldl (fun s d => Delay.removeOne true d s) (idle st) =
      idle (l.foldl (fun st d => Collection.removeOne true d st) st) :=
  foldl_idle _ _ (fun st d _ => removeOne_idle st d) (fun st d h => inv_removeOne d st h) l st h

theorem withDelay_idle (f : State → State) (st : State) :
    withDelay true (lift f) (idle st) = idle (f st) := by
  simp [withDelay, delayClose, delayOpen, lift, idle, flush]

theorem cmdDo_idle {st : State} (h : Collection.Inv st) (c : DCmd) :
    Delay.cmdDo true c (idle st) = idle (Collection.cmdDo true c st) := by
  unfold Delay.cmdDo Collection.cmdDo
  split
  · exact appendOne_idle h _
  · exact removeOne_idle st _

theorem cmdUndo_idle {st : State} (h : Collection.Inv st) (c : DCmd) :
    Delay.cmdUndo true c (idle st) = idle (Collection.cmdUndo true c st) := by
  unfold Delay.cmdUndo Collection.cmdUndo
  split
  · split
    · exact removeOne_idle st _
    · exact insertOne_idle h _ _
  · rfl

theorem stepOp_idle {st : State} (h : Collection.Inv st) (o : Op) :
    Delay.stepOp true (idle st) o = idle (Collection.step true st o) := by
  cases o with
  | append d => exact appendOne_idle h d
  | extend ds =>
    exact foldl_idle _ _ (fun st d h => appendOne_idle h d) (fun st d h => inv_appendOne d st h) ds st h
  | remove d => exact removeOne_idle st d
  | clear => exact foldl_remove_idle st.datasets st h
  | newGroup => exact withDelay_idle _ st
  | removeGroup g =>
    show Delay.removeGroup true g (idle st) = idle (Collection.removeGroup g st)
    unfold Delay.removeGroup
    show (if g ∈ st.groups then _ else _) = _
    split
    · exact withDelay_idle _ st
    · rename_i hg
      unfold Collection.removeGroup
      rw [if_neg hg]
  | setState g v => rfl
  | setLabel g v => rfl
  | setStyle g v => rfl
  | merge ds =>
    show Delay.merge true ds (idle st) = idle (Collection.merge true ds st)
    rcases ds with _ | ⟨d0, _ | ⟨d1, rest⟩⟩
    · rfl
    · rfl
    · simp only [Delay.merge, Collection.merge]
      show (if (d0 :: d1 :: rest).all (fun d => decide (d < st.nData)) then _ else _) = _
      split
      · have hm : st.nData ∉ st.datasets := fun e => Nat.lt_irrefl _ (h.dBound _ e)
        have he : upd st.dsubs st.nData [] = st.dsubs := by
          have e0 := h.removedEmpty _ hm
          have : upd st.dsubs st.nData [] = upd st.dsubs st.nData (st.dsubs st.nData) := by rw [e0]
          rw [this]; exact upd_self _ _
        have h1 : Collection.Inv { st with nData := st.nData + 1, dlabel := upd st.dlabel st.nData (st.dlabel d0), dsubs := upd st.dsubs st.nData [] } := by
          simp only [he]
          exact ⟨h.nodupD, h.nodupG, h.subsEq, fun d hd => Nat.lt_succ_of_lt (h.dBound d hd), h.gBound,
            h.dataGroups, h.subData, h.removedEmpty, h.groupDatas, h.subGroup, h.groupAttached, h.attachedListed⟩
        exact (congrArg (fun s => List.foldl (fun s d => Delay.removeOne true d s) s (d0 :: d1 :: rest))
          (appendOne_idle h1 st.nData)).trans (foldl_remove_idle _ _ (inv_appendOne _ _ h1))
      · rfl
  | insert i d => exact insertOne_idle h i d
  | setItem key d =>
    show Delay.setItem true key d (idle st) = idle (Collection.setItem true key d st)
    unfold Delay.setItem Collection.setItem
    show (if st.nData ≤ d then _ else _) = _
    split
    · rfl
    · have h1 : Inv { st with dlabel := upd st.dlabel d key } :=
        ⟨h.nodupD, h.nodupG, h.subsEq, h.dBound, h.gBound, h.dataGroups, h.subData, h.removedEmpty,
          h.groupDatas, h.subGroup, h.groupAttached, h.attachedListed⟩
      have h2 := foldl_idle
        (fun (s : DState) e => if s.col.dlabel e = key then Delay.removeOne true e s else s)
        (fun (st : State) e => if st.dlabel e = key then Collection.removeOne true e st else st)
        (fun st e _ => by
          show (if st.dlabel e = key then _ else _) = _
          split
          · exact removeOne_idle st e
          · rfl)
        (fun st e h => by
          show Inv (if st.dlabel e = key then _ else _)
          split
          · exact inv_removeOne e st h
          · exact h)
        st.datasets _ h1
      exact (congrArg (Delay.appendOne true d) h2).trans (appendOne_idle (inv_foldl_setItem key _ _ h1) d)
  | restore => rfl
  | doCmd add d =>
    show Delay.doCmd true add d (idle st) = idle (Collection.doCmd true add d st)
    unfold Delay.doCmd Collection.doCmd
    exact congrArg (lift (fun st => { st with done := st.done.take maxUndo, undone := [] }))
      (cmdDo_idle (inv_stack st h _ _) _)
  | undo =>
    show Delay.undoCmd true (idle st) = idle (Collection.undoCmd true st)
    unfold Delay.undoCmd Collection.undoCmd
    show (match st.done with | [] => _ | c :: rest => _) = _
    generalize st.done = dn
    cases dn with
    | nil => rfl
    | cons c rest => exact cmdUndo_idle (inv_stack st h _ _) _
  | redo =>
    show Delay.redoCmd true (idle st) = idle (Collection.redoCmd true st)
    unfold Delay.redoCmd Collection.redoCmd
    show (match st.undone with | [] => _ | c :: rest => _) = _
    generalize st.undone = un
    cases un with
    | nil => rfl
    | cons c rest =>
      exact congrArg (lift (fun st' => { st' with done := record c.add c.d st :: st'.done }))
        (cmdDo_idle (inv_stack st h _ _) _)

theorem run_idle (ops : List Op) : ∀ st : State, Collection.Inv st →
    Delay.run true (idle st) (ops.map DOp.op) = idle (Collection.run true st ops) := by
  unfold Delay.run Collection.run
  induction ops with
  | nil => intro st _; rfl
  | cons o ops ih =>
    intro st h
    simp only [List.map_cons, List.foldl_cons]
    show List.foldl _ (Delay.stepOp true (idle st) o) _ = _
    rw [stepOp_idle h o]
    exact ih _ (inv_step st o h)

end GlueVerif.Lemmas.C06Immediate
