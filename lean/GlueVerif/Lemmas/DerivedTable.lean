import GlueVerif.Model.Derived
/-! Helper lemmas for C14: the component table — `remove_component` (depth-first recursion as
coded) removes exactly the dependency closure; `update_id`. -/
set_option linter.unusedSectionVars false
set_option linter.unusedSimpArgs false
namespace GlueVerif.Derived
section
variable {κ ω α : Type} [DecidableEq κ]

/-- `d` is `k` itself, or a derived component of `t` that reads — directly or through other
derived components of `t` — the identifier `k`. -/
inductive Reach (t : Table κ ω α) (k : κ) : κ → Prop
  | root : Reach t k k
  | step {x d : κ} {c : Comp κ ω α} {fs : List κ} :
      Reach t k x → (d, c) ∈ t → c.fromIds = some fs → x ∈ fs → Reach t k d

theorem Reach.mono {t t' : Table κ ω α} {k x : κ} (h : ∀ p, p ∈ t' → p ∈ t) (r : Reach t' k x) :
    Reach t k x := by
  induction r with
  | root => exact .root
  | step _ hm hf hx ih => exact .step ih (h _ hm) hf hx

theorem Reach.trans {t : Table κ ω α} {k d x : κ} (h1 : Reach t k d) (h2 : Reach t d x) :
    Reach t k x := by
  induction h2 with
  | root => exact h1
  | step _ hm hf hx ih => exact .step ih hm hf hx

theorem mem_keys {t : Table κ ω α} {x : κ} : x ∈ t.keys ↔ ∃ c, (x, c) ∈ t := by
  simp only [Table.keys, List.mem_map]
  constructor
  · rintro ⟨⟨k, c⟩, hm, rfl⟩; exact ⟨c, hm⟩
  · rintro ⟨c, hm⟩; exact ⟨(x, c), hm, rfl⟩

theorem keys_filter {t : Table κ ω α} {P : κ → Bool} {x : κ} :
    x ∈ Table.keys (t.filter fun p => P p.1) ↔ x ∈ t.keys ∧ P x = true := by
  simp only [mem_keys, List.mem_filter]
  constructor
  · rintro ⟨c, hm, hp⟩; exact ⟨⟨c, hm⟩, hp⟩
  · rintro ⟨⟨c, hm⟩, hp⟩; exact ⟨c, hm, hp⟩

theorem mem_dependOn {t : Table κ ω α} {k d : κ} :
    d ∈ dependOn t k ↔ ∃ c fs, (d, c) ∈ t ∧ c.fromIds = some fs ∧ k ∈ fs := by
  simp only [dependOn, List.mem_map, List.mem_filter]
  constructor
  · rintro ⟨⟨d', c⟩, ⟨hm, hp⟩, rfl⟩
    cases hf : c.fromIds with
    | none => simp [hf] at hp
    | some fs =>
      simp only [hf] at hp
      exact ⟨c, fs, hm, hf, by simpa using hp⟩
  · rintro ⟨c, fs, hm, hf, hk⟩
    exact ⟨(d, c), ⟨hm, by simp [hf, hk]⟩, rfl⟩

/-- What a (partial) removal has achieved so far. -/
structure RemInv (t T : Table κ ω α) (k : κ) : Prop where
  sub : ∃ P : κ → Bool, T = t.filter (fun p => P p.1)
  sound : ∀ x, x ∈ t.keys → x ∉ T.keys → Reach t k x
  gone : k ∉ T.keys
  closed : ∀ d c fs x, (d, c) ∈ T → c.fromIds = some fs → x ∈ fs → x ∈ t.keys → x ∈ T.keys

theorem fold_inv (fuel : Nat)
    (IH : ∀ (t : Table κ ω α) (k : κ), t.length ≤ fuel → RemInv t (removeComp fuel t k) k)
    (t : Table κ ω α) (k : κ) :
    ∀ (ds : List κ) (acc : Table κ ω α),
      (∃ P : κ → Bool, acc = t.filter (fun p => P p.1)) → acc.length ≤ fuel →
      (∀ x, x ∈ t.keys → x ∉ acc.keys → Reach t k x) →
      k ∉ acc.keys →
      (∀ d ∈ ds, Reach t k d) →
      (∀ d c fs x, (d, c) ∈ acc → c.fromIds = some fs → x ∈ fs → x ∈ t.keys → x ∉ acc.keys →
        x = k ∧ d ∈ ds) →
      RemInv t (ds.foldl (fun a d => removeComp fuel a d) acc) k
  | [], acc, hsub, _, hsound, hgone, _, hcl => by
    refine ⟨hsub, hsound, hgone, ?_⟩
    intro d c fs x hm hf hx hxt
    apply Classical.byContradiction
    intro hn
    have := (hcl d c fs x hm hf hx hxt hn).2
    simp at this
  | d0 :: rest, acc, hsub, hlen, hsound, hgone, hpend, hcl => by
    obtain ⟨P, hP⟩ := hsub
    have ih0 := IH acc d0 hlen
    obtain ⟨P', hP'⟩ := ih0.sub
    have hsubset : ∀ p, p ∈ acc → p ∈ t := by
      intro p hp; rw [hP] at hp; exact (List.mem_filter.mp hp).1
    have hsubset' : ∀ p, p ∈ removeComp fuel acc d0 → p ∈ acc := by
      intro p hp; rw [hP'] at hp; exact (List.mem_filter.mp hp).1
    have hkeys' : ∀ x, x ∈ (removeComp fuel acc d0).keys → x ∈ acc.keys := by
      intro x hx
      obtain ⟨c, hc⟩ := mem_keys.mp hx
      exact mem_keys.mpr ⟨c, hsubset' _ hc⟩
    simp only [List.foldl_cons]
    apply fold_inv fuel IH t k rest (removeComp fuel acc d0)
    · refine ⟨fun x => P x && P' x, ?_⟩
      conv => lhs; rw [hP', hP]
      rw [List.filter_filter]
      congr 1
      funext p
      exact Bool.and_comm _ _
    · calc (removeComp fuel acc d0).length ≤ acc.length := by
            rw [hP']; exact List.length_filter_le _ _
        _ ≤ fuel := hlen
    · intro x hxt hxn
      by_cases hxa : x ∈ acc.keys
      · have r1 : Reach acc d0 x := ih0.sound x hxa hxn
        exact (hpend d0 (by simp)).trans (r1.mono hsubset)
      · exact hsound x hxt hxa
    · intro h; exact hgone (hkeys' k h)
    · intro d hd; exact hpend d (by simp [hd])
    · intro d c fs x hm hf hx hxt hxn
      by_cases hxa : x ∈ acc.keys
      · exact absurd (ih0.closed d c fs x hm hf hx hxa) hxn
      · obtain ⟨hxk, hdm⟩ := hcl d c fs x (hsubset' _ hm) hf hx hxt hxa
        refine ⟨hxk, ?_⟩
        have hdne : d ≠ d0 := by
          intro h; subst h
          exact ih0.gone (mem_keys.mpr ⟨c, hm⟩)
        simpa [hdne] using hdm

theorem removeComp_inv : ∀ (fuel : Nat) (t : Table κ ω α) (k : κ), t.length ≤ fuel →
    RemInv t (removeComp fuel t k) k
  | 0, t, k, h => by
    have : t = [] := List.eq_nil_of_length_eq_zero (by omega)
    subst this
    exact ⟨⟨fun _ => true, rfl⟩, fun x hx => by simp [Table.keys] at hx, by simp [removeComp, Table.keys],
      fun d c fs x hm => by simp [removeComp] at hm⟩
  | fuel + 1, t, k, h => by
    by_cases hk : t.keys.contains k = true
    · simp only [removeComp, hk, if_true]
      have hkm : k ∈ t.keys := by simpa using hk
      have herase : Table.erase t k = t.filter (fun p => (fun x => !(x == k)) p.1) := rfl
      apply fold_inv fuel (removeComp_inv fuel) t k
      · exact ⟨fun x => !(x == k), herase⟩
      · -- erasing `k` shortens the table
        obtain ⟨c, hc⟩ := mem_keys.mp hkm
        have hlt : (Table.erase t k).length < t.length := by
          rw [herase]
          apply List.length_filter_lt_length_iff_exists.mpr
          exact ⟨(k, c), hc, by simp⟩
        omega
      · intro x hxt hxn
        have : x = k := by
          apply Classical.byContradiction
          intro hne
          apply hxn
          rw [herase]
          exact (keys_filter (P := fun x => !(x == k))).mpr ⟨hxt, by simp [hne]⟩
        subst this; exact .root
      · intro hmem
        rw [herase] at hmem
        have := ((keys_filter (P := fun x => !(x == k))).mp hmem).2
        simp at this
      · intro d hd
        obtain ⟨c, fs, hm, hf, hkfs⟩ := mem_dependOn.mp hd
        have hmt : (d, c) ∈ t := by
          rw [herase] at hm; exact (List.mem_filter.mp hm).1
        exact .step .root hmt hf hkfs
      · intro d c fs x hm hf hx hxt hxn
        have hxk : x = k := by
          apply Classical.byContradiction
          intro hne
          apply hxn
          rw [herase]
          exact (keys_filter (P := fun x => !(x == k))).mpr ⟨hxt, by simp [hne]⟩
        subst hxk
        exact ⟨rfl, mem_dependOn.mpr ⟨c, fs, hm, hf, hx⟩⟩
    · have hkn : k ∉ t.keys := by simpa using hk
      simp only [removeComp, hk]
      refine ⟨⟨fun _ => true, (List.filter_eq_self.mpr (by simp)).symm⟩, fun x hx hn => absurd hx hn, hkn, ?_⟩
      intro d c fs x _ _ _ hxt
      exact hxt

/-- Every key reachable from `k` is gone after the removal. -/
theorem RemInv.complete {t T : Table κ ω α} {k : κ} (inv : RemInv t T k) (hk : k ∈ t.keys) :
    ∀ x, Reach t k x → x ∉ T.keys := by
  intro x r
  induction r with
  | root => exact inv.gone
  | @step x d c fs r hm hf hx ih =>
    intro hd
    -- `d` survived: its entry in `T` is an entry of `t` with key `d`
    obtain ⟨P, hP⟩ := inv.sub
    obtain ⟨c', hc'⟩ := mem_keys.mp hd
    have hPd : P d = true := by
      rw [hP] at hc'; exact (List.mem_filter.mp hc').2
    have hmT : (d, c) ∈ T := by
      rw [hP]; exact List.mem_filter.mpr ⟨hm, hPd⟩
    have hxt : x ∈ t.keys := by
      cases r with
      | root => exact hk
      | step _ hm' _ _ => exact mem_keys.mpr ⟨_, hm'⟩
    exact ih (inv.closed d c fs x hmT hf hx hxt)

/-- **`remove_component` removes exactly the dependency closure**, stated with the reachability
relation: a key of `t` survives iff it is not reachable from `k`; the survivors are the original
entries in their original order. -/
theorem removeComp_reach (fuel : Nat) (t : Table κ ω α) (k : κ) (hf : t.length ≤ fuel)
    (hk : k ∈ t.keys) :
    ∃ P : κ → Bool, removeComp fuel t k = t.filter (fun p => P p.1) ∧
      ∀ x, x ∈ t.keys → (P x = true ↔ ¬ Reach t k x) := by
  have inv := removeComp_inv fuel t k hf
  obtain ⟨P, hP⟩ := inv.sub
  refine ⟨P, hP, ?_⟩
  intro x hx
  constructor
  · intro hpx r
    have : x ∈ (removeComp fuel t k).keys := by
      rw [hP]; exact keys_filter.mpr ⟨hx, hpx⟩
    exact inv.complete hk x r this
  · intro hnr
    apply Classical.byContradiction
    intro hpx
    apply hnr
    apply inv.sound x hx
    intro hmem
    rw [hP] at hmem
    exact hpx (keys_filter.mp hmem).2

/-- After a removal no surviving derived component reads an identifier that is gone: if every
input of every derived component was in the table before, the same holds afterwards. -/
theorem removeComp_closed (fuel : Nat) (t : Table κ ω α) (k : κ) (hf : t.length ≤ fuel)
    (hc : ∀ d c fs x, (d, c) ∈ t → c.fromIds = some fs → x ∈ fs → x ∈ t.keys) :
    ∀ d c fs x, (d, c) ∈ removeComp fuel t k → c.fromIds = some fs → x ∈ fs →
      x ∈ (removeComp fuel t k).keys := by
  intro d c fs x hm hfs hx
  have inv := removeComp_inv fuel t k hf
  obtain ⟨P, hP⟩ := inv.sub
  have hmt : (d, c) ∈ t := by rw [hP] at hm; exact (List.mem_filter.mp hm).1
  exact inv.closed d c fs x hm hfs hx (hc d c fs x hmt hfs hx)

/-! ### the executable closure (`depClosure`, breadth-first rounds) is the reachability relation -/

/-- The keys one round adds. -/
def added (t : Table κ ω α) (s : List κ) : List κ :=
  (t.filter fun p => !(s.contains p.1) &&
    (match p.2.fromIds with | some fs => fs.any s.contains | none => false)).map (·.1)

theorem growDeps_eq (t : Table κ ω α) (s : List κ) : growDeps t s = s ++ added t s := rfl

theorem mem_added {t : Table κ ω α} {s : List κ} {d : κ} :
    d ∈ added t s ↔ d ∉ s ∧ ∃ c fs x, (d, c) ∈ t ∧ c.fromIds = some fs ∧ x ∈ fs ∧ x ∈ s := by
  simp only [added, List.mem_map, List.mem_filter]
  constructor
  · rintro ⟨⟨d', c⟩, ⟨hm, hp⟩, rfl⟩
    simp only [Bool.and_eq_true, Bool.not_eq_true', List.contains_eq_mem, decide_eq_false_iff_not] at hp
    obtain ⟨hns, hany⟩ := hp
    cases hf : c.fromIds with
    | none => simp [hf] at hany
    | some fs =>
      simp only [hf, List.any_eq_true] at hany
      obtain ⟨x, hx, hxs⟩ := hany
      exact ⟨hns, c, fs, x, hm, hf, hx, by simpa using hxs⟩
  · rintro ⟨hns, c, fs, x, hm, hf, hx, hxs⟩
    refine ⟨(d, c), ⟨hm, ?_⟩, rfl⟩
    simp only [Bool.and_eq_true, Bool.not_eq_true', List.contains_eq_mem, decide_eq_false_iff_not, hf,
      List.any_eq_true]
    exact ⟨hns, x, hx, by simpa using hxs⟩

theorem closureIter_sound (t : Table κ ω α) (k : κ) : ∀ (n : Nat) (s : List κ),
    (∀ x ∈ s, Reach t k x) → ∀ x ∈ closureIter t n s, Reach t k x
  | 0, _, h => h
  | n + 1, s, h => by
    apply closureIter_sound t k n (growDeps t s)
    intro x hx
    rw [growDeps_eq, List.mem_append] at hx
    rcases hx with hx | hx
    · exact h x hx
    · obtain ⟨_, c, fs, y, hm, hf, hy, hys⟩ := mem_added.mp hx
      exact .step (h y hys) hm hf hy

theorem closureIter_mono (t : Table κ ω α) : ∀ (n : Nat) (s : List κ), ∀ x ∈ s, x ∈ closureIter t n s
  | 0, _, _, h => h
  | n + 1, s, x, h => closureIter_mono t n (growDeps t s) x (by rw [growDeps_eq]; simp [h])

theorem closureIter_fix (t : Table κ ω α) : ∀ (n : Nat) (s : List κ), added t s = [] →
    closureIter t n s = s
  | 0, _, _ => rfl
  | n + 1, s, h => by
    have : growDeps t s = s := by rw [growDeps_eq, h]; simp
    simp only [closureIter, this]
    exact closureIter_fix t n s h

/-- Number of keys of `t` not yet in `s`. -/
def missing (t : Table κ ω α) (s : List κ) : Nat := (t.filter fun p => !(s.contains p.1)).length

theorem missing_lt {t : Table κ ω α} {s : List κ} (h : added t s ≠ []) :
    missing t (growDeps t s) < missing t s := by
  obtain ⟨d, hd⟩ := List.exists_mem_of_ne_nil _ h
  obtain ⟨hns, c, fs, x, hm, _, _, _⟩ := mem_added.mp hd
  have hdg : d ∈ growDeps t s := by rw [growDeps_eq]; simp [hd]
  unfold missing
  have hff : (t.filter fun p => !((growDeps t s).contains p.1)) =
      (t.filter fun p => !(s.contains p.1)).filter fun p => !((growDeps t s).contains p.1) := by
    rw [List.filter_filter]
    apply List.filter_congr
    intro p _
    by_cases hp : p.1 ∈ growDeps t s
    · simp [hp]
    · have : p.1 ∉ s := fun hs => hp (by rw [growDeps_eq]; simp [hs])
      simp [hp, this]
  rw [hff]
  apply List.length_filter_lt_length_iff_exists.mpr
  refine ⟨(d, c), List.mem_filter.mpr ⟨hm, by simp [hns]⟩, by simp [hdg]⟩

theorem closureIter_saturated (t : Table κ ω α) : ∀ (n : Nat) (s : List κ), missing t s ≤ n →
    added t (closureIter t n s) = []
  | 0, s, h => by
    simp only [closureIter]
    have h0 : (t.filter fun p => !(s.contains p.1)) = [] :=
      List.eq_nil_of_length_eq_zero (by unfold missing at h; omega)
    apply List.eq_nil_iff_forall_not_mem.mpr
    intro d hd
    obtain ⟨hns, c, _, _, hm, _, _, _⟩ := mem_added.mp hd
    have : (d, c) ∈ (t.filter fun p => !(s.contains p.1)) := List.mem_filter.mpr ⟨hm, by simp [hns]⟩
    rw [h0] at this
    simp at this
  | n + 1, s, h => by
    simp only [closureIter]
    by_cases ha : added t s = []
    · have : growDeps t s = s := by rw [growDeps_eq, ha]; simp
      rw [this, closureIter_fix t n s ha]
      exact ha
    · have := missing_lt ha
      exact closureIter_saturated t n (growDeps t s) (by omega)

/-- The executable closure is exactly the reachability relation. -/
theorem mem_depClosure (t : Table κ ω α) (k x : κ) : x ∈ depClosure t k ↔ Reach t k x := by
  constructor
  · intro hx
    exact closureIter_sound t k t.length [k] (fun y hy => by simp at hy; subst hy; exact .root) x hx
  · intro r
    have hsat : added t (depClosure t k) = [] :=
      closureIter_saturated t t.length [k] (List.length_filter_le _ _)
    induction r with
    | root => exact closureIter_mono t t.length [k] k (by simp)
    | @step y d c fs _ hm hf hy ih =>
      apply Classical.byContradiction
      intro hd
      have : d ∈ added t (depClosure t k) := mem_added.mpr ⟨hd, c, fs, y, hm, hf, hy, ih⟩
      rw [hsat] at this
      simp at this

/-- **`remove_component` = filter by the dependency closure** (entries and order of the survivors
unchanged), for every table and every fuel at least the table length. -/
theorem removeComp_eq_filter (fuel : Nat) (t : Table κ ω α) (k : κ) (hf : t.length ≤ fuel)
    (hk : k ∈ t.keys) :
    removeComp fuel t k = t.filter (fun p => !((depClosure t k).contains p.1)) := by
  obtain ⟨P, hP, hiff⟩ := removeComp_reach fuel t k hf hk
  rw [hP]
  apply List.filter_congr
  intro p hp
  have hpk : p.1 ∈ t.keys := mem_keys.mpr ⟨p.2, hp⟩
  have h1 := hiff p.1 hpk
  have h2 := mem_depClosure t k p.1
  by_cases hr : Reach t k p.1
  · have : P p.1 = false := by
      cases hq : P p.1 with
      | false => rfl
      | true => exact absurd hr (h1.mp hq)
    simp [this, h2.mpr hr]
  · have : p.1 ∉ depClosure t k := fun h => hr (h2.mp h)
    simp [h1.mpr hr, this]

theorem removeComp_absent (fuel : Nat) (t : Table κ ω α) (k : κ) (hk : k ∉ t.keys) :
    removeComp fuel t k = t := by
  cases fuel with
  | zero => rfl
  | succ n =>
    have : t.keys.contains k = false := by simpa using hk
    simp only [removeComp, this]
    rfl

theorem keys_filter_eq (t : Table κ ω α) (P : κ → Bool) :
    Table.keys (t.filter fun p => P p.1) = t.keys.filter P := by
  induction t with
  | nil => rfl
  | cons p rest ih =>
    simp only [Table.keys, List.filter_cons, List.map_cons] at *
    by_cases hp : P p.1 = true
    · simp [hp, ih]
    · simp [hp, ih]

/-- The form the driver evaluates. -/
theorem specRemove_removeComp (fuel : Nat) (t : Table κ ω α) (k : κ) (hf : t.length ≤ fuel) :
    specRemove t k (removeComp fuel t k).keys = true := by
  unfold specRemove
  by_cases hk : k ∈ t.keys
  · have hc : t.keys.contains k = true := by simpa using hk
    rw [removeComp_eq_filter fuel t k hf hk, if_pos hc,
      keys_filter_eq t (fun x => !((depClosure t k).contains x))]
    exact beq_self_eq_true _
  · have hc : ¬ (t.keys.contains k = true) := by simpa using hk
    rw [removeComp_absent fuel t k hk, if_neg hc]
    exact beq_self_eq_true _

/-! ### `update_id` -/

theorem set_append : ∀ (acc : Table κ ω α) (k : κ) (c : Comp κ ω α), k ∉ acc.keys →
    Table.set acc k c = acc ++ [(k, c)]
  | [], _, _, _ => rfl
  | (k', c') :: rest, k, c, h => by
    have hne : k' ≠ k := by
      intro heq; apply h; simp [Table.keys, heq]
    have hrest : k ∉ Table.keys rest := by
      intro hm; apply h; simp only [Table.keys, List.map_cons, List.mem_cons]; exact Or.inr hm
    simp only [Table.set, hne, if_false, List.cons_append]
    rw [set_append rest k c hrest]

theorem foldl_set_nodup : ∀ (ps : List (κ × Comp κ ω α)) (acc : Table κ ω α),
    (ps.map (·.1)).Nodup → (∀ p ∈ ps, p.1 ∉ acc.keys) →
    ps.foldl (fun t p => Table.set t p.1 p.2) acc = acc ++ ps
  | [], acc, _, _ => by simp
  | p :: rest, acc, hnd, hna => by
    simp only [List.map_cons, List.nodup_cons] at hnd
    simp only [List.foldl_cons]
    rw [set_append acc p.1 p.2 (hna p (by simp))]
    rw [foldl_set_nodup rest (acc ++ [(p.1, p.2)]) hnd.2]
    · simp
    · intro q hq hmem
      have : q.1 ∈ acc.keys ∨ q.1 = p.1 := by
        simpa [Table.keys] using hmem
      rcases this with h | h
      · exact hna q (by simp [hq]) h
      · apply hnd.1
        rw [← h]
        exact List.mem_map.mpr ⟨q, hq, rfl⟩

theorem ofPairs_nodup (ps : List (κ × Comp κ ω α)) (h : (ps.map (·.1)).Nodup) :
    Table.ofPairs ps = ps := by
  unfold Table.ofPairs
  rw [foldl_set_nodup ps [] h (by simp [Table.keys])]
  simp

theorem rename_keys_nodup (old new : κ) : ∀ (t : Table κ ω α), t.keys.Nodup → new ∉ t.keys →
    ((t.map fun p => if p.1 = old then (new, p.2) else p).map (·.1)).Nodup
  | [], _, _ => by simp
  | p :: rest, hnd, hnew => by
    simp only [Table.keys, List.map_cons, List.nodup_cons, List.mem_cons, not_or] at hnd hnew
    have ih := rename_keys_nodup old new rest hnd.2 (by simpa [Table.keys] using hnew.2)
    simp only [List.map_cons, List.nodup_cons]
    refine ⟨?_, ih⟩
    intro hm
    obtain ⟨q', hq', heq⟩ := List.mem_map.mp hm
    obtain ⟨q, hq, rfl⟩ := List.mem_map.mp hq'
    have hqk : q.1 ∈ rest.map (·.1) := List.mem_map.mpr ⟨q, hq, rfl⟩
    by_cases hp : p.1 = old
    · by_cases hqo : q.1 = old
      · exact hnd.1 (by rw [hp, ← hqo]; exact hqk)
      · simp only [hp, hqo, if_true, if_false] at heq
        exact hnew.2 (by rw [← heq]; exact hqk)
    · by_cases hqo : q.1 = old
      · simp only [hp, hqo, if_true, if_false] at heq
        exact hnew.1 heq
      · simp only [hp, hqo, if_false] at heq
        exact hnd.1 (by rw [← heq]; exact hqk)

/-- As repaired, `update_id(old, new)` towards an identifier that is not yet in the dataset is the
pure renaming: same entries in the same order, `old` replaced by `new` as key and in every link. -/
theorem updateId_eq_specRename (t : Table κ ω α) (old new : κ) (hne : new ≠ old)
    (hold : old ∈ t.keys) (hnew : new ∉ t.keys) (hnd : t.keys.Nodup) :
    updateId true t old new = specRename old new t := by
  have hc : t.keys.contains old = true := by simpa using hold
  simp only [updateId, hne, if_false, hc, if_true]
  rw [ofPairs_nodup _ (rename_keys_nodup old new t hnd hnew)]
  simp only [specRename, List.map_map]
  apply List.map_congr_left
  intro p _
  by_cases hp : p.1 = old
  · cases h2 : p.2 <;> simp [hp, h2, Comp.rename]
  · cases h2 : p.2 with
    | prim a co => simp [hp, h2, Comp.rename]
    | derived l => simp [hp, h2, Comp.rename]

theorem specRename_keys (t : Table κ ω α) (old new : κ) :
    (specRename old new t).keys = t.keys.map fun x => if x = old then new else x := by
  simp [specRename, Table.keys, List.map_map]

theorem find_some_mem_keys : ∀ (t : Table κ ω α) (x : κ) (c : Comp κ ω α),
    t.find x = some c → x ∈ t.keys
  | [], _, _, h => by simp [Table.find] at h
  | (k', c') :: rest, x, c, h => by
    simp only [Table.find] at h
    simp only [Table.keys, List.map_cons, List.mem_cons]
    by_cases hk : k' = x
    · exact Or.inl hk.symm
    · simp only [hk, if_false] at h
      exact Or.inr (find_some_mem_keys rest x c h)

theorem find_specRename (old new : κ) : ∀ (t : Table κ ω α) (x : κ) (c : Comp κ ω α),
    new ∉ t.keys → t.find x = some c →
    (specRename old new t).find (if x = old then new else x) = some (c.rename old new)
  | [], _, _, _, h => by simp [Table.find] at h
  | (k', c') :: rest, x, c, hnew, h => by
    have hk'new : k' ≠ new := by
      intro heq; apply hnew; simp [Table.keys, heq]
    have hrest : new ∉ Table.keys rest := by
      intro hm; apply hnew; simp only [Table.keys, List.map_cons, List.mem_cons]; exact Or.inr hm
    simp only [specRename, List.map_cons, Table.find]
    simp only [Table.find] at h
    by_cases hkx : k' = x
    · subst hkx
      simp only [if_true] at h
      simp [Option.some.inj h]
    · simp only [hkx, if_false] at h
      have ih := find_specRename old new rest x c hrest h
      have hxr : x ∈ Table.keys rest := find_some_mem_keys rest x c h
      have hxnew : x ≠ new := fun heq => hrest (heq ▸ hxr)
      have hren : (if k' = old then new else k') ≠ (if x = old then new else x) := by
        by_cases h1 : k' = old <;> by_cases h2 : x = old <;> simp [h1, h2]
        · exact hkx (h1.trans h2.symm)
        · exact fun h => hxnew h.symm
        · exact hk'new
        · exact hkx
      simp only [hren, if_false]
      exact ih

theorem Expr.evalPt_replace (opf : ω → α → α → α) (old new : κ) (g g' : κ → Option α)
    (h : ∀ k u, g k = some u → g' (if k = old then new else k) = some u) :
    ∀ (e : Expr κ ω α) (v : α), e.evalPt opf g = some v → (e.replace old new).evalPt opf g' = some v
  | .const c, v, hv => by simpa [Expr.evalPt, Expr.replace] using hv
  | .cid k, v, hv => by
    simp only [Expr.evalPt] at hv
    simp only [Expr.replace, Expr.evalPt]
    exact h k v hv
  | .bin o l r, v, hv => by
    simp only [Expr.evalPt] at hv
    simp only [Expr.replace, Expr.evalPt]
    cases hl : l.evalPt opf g with
    | none => simp [hl] at hv
    | some a =>
      cases hr : r.evalPt opf g with
      | none => simp [hl, hr] at hv
      | some b =>
        rw [Expr.evalPt_replace opf old new g g' h l a hl, Expr.evalPt_replace opf old new g g' h r b hr]
        simpa [hl, hr] using hv

theorem PExpr.evalPt_replace (opf : ω → α → α → α) (negf : α → α) (old new : κ) (g g' : κ → Option α)
    (h : ∀ k u, g k = some u → g' (if k = old then new else k) = some u) :
    ∀ (e : PExpr κ ω α) (v : α), e.evalPt opf negf g = some v →
      (e.replace old new).evalPt opf negf g' = some v
  | .num c, v, hv => by simpa [PExpr.evalPt, PExpr.replace] using hv
  | .ref k, v, hv => by
    simp only [PExpr.evalPt] at hv
    simp only [PExpr.replace, PExpr.evalPt]
    exact h k v hv
  | .neg e, v, hv => by
    simp only [PExpr.evalPt] at hv
    simp only [PExpr.replace, PExpr.evalPt]
    cases he : e.evalPt opf negf g with
    | none => simp [he] at hv
    | some a =>
      rw [PExpr.evalPt_replace opf negf old new g g' h e a he]
      simpa [he] using hv
  | .bin o l r, v, hv => by
    simp only [PExpr.evalPt] at hv
    simp only [PExpr.replace, PExpr.evalPt]
    cases hl : l.evalPt opf negf g with
    | none => simp [hl] at hv
    | some a =>
      cases hr : r.evalPt opf negf g with
      | none => simp [hl, hr] at hv
      | some b =>
        rw [PExpr.evalPt_replace opf negf old new g g' h l a hl,
          PExpr.evalPt_replace opf negf old new g g' h r b hr]
        simpa [hl, hr] using hv

theorem mapM'_rename (old new : κ) (g g' : κ → Option α)
    (h : ∀ k u, g k = some u → g' (if k = old then new else k) = some u) :
    ∀ (fs : List κ) (us : List α), mapM' g fs = some us →
      mapM' g' (fs.map fun k => if k = old then new else k) = some us
  | [], us, hu => by simpa [mapM'] using hu
  | k :: rest, us, hu => by
    simp only [mapM'] at hu
    simp only [List.map_cons, mapM']
    cases hk : g k with
    | none => simp [hk] at hu
    | some a =>
      cases hr : mapM' g rest with
      | none => simp [hk, hr] at hu
      | some as =>
        rw [h k a hk, mapM'_rename old new g g' h rest as hr]
        simpa [hk, hr] using hu

/-- Renaming an identifier keeps every value: whatever component `x` evaluated to at a data index
before, the renamed table evaluates to at the renamed identifier. -/
theorem specAt_rename (I : Interp ω α) (old new : κ) (t : Table κ ω α) (hnew : new ∉ t.keys)
    (idx : List Int) : ∀ (fuel : Nat) (x : κ) (v : α), specAt I fuel t idx x = some v →
      specAt I fuel (specRename old new t) idx (if x = old then new else x) = some v
  | 0, _, _, h => by simp [specAt] at h
  | fuel + 1, x, v, h => by
    have ih := specAt_rename I old new t hnew idx fuel
    simp only [specAt] at h
    cases hf : t.find x with
    | none => simp [hf] at h
    | some c =>
      simp only [specAt, find_specRename old new t x c hnew hf]
      cases c with
      | prim a co => simpa [hf, Comp.rename] using h
      | derived l =>
        cases l with
        | binary e =>
          simp only [hf] at h
          simp only [Comp.rename, Link.replace]
          exact Expr.evalPt_replace I.opf old new _ _ ih e v h
        | func fs f rv =>
          simp only [hf] at h
          simp only [Comp.rename, Link.replace]
          cases hm : mapM' (specAt I fuel t idx) fs with
          | none => simp [hm] at h
          | some us =>
            rw [mapM'_rename old new _ _ ih fs us hm]
            simpa [hm] using h
        | parsed p =>
          simp only [hf] at h
          simp only [Comp.rename, Link.replace]
          exact PExpr.evalPt_replace I.opf I.negf old new _ _ ih p v h

end
end GlueVerif.Derived
