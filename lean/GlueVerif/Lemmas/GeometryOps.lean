import GlueVerif.Lemmas.GeometryPoly
import GlueVerif.Lemmas.GeometryEllipse
/-!
# C08 — sequences of `move_to` / `rotate_to` / `copy` / save-restore

Simulation between `Impl.applyOps` (what the code does to the parameters) and `Spec.run` (the rigid
motions the property demands): after any operation list the geometric region described by the
current parameters is the original region moved by the accumulated motions, the reported centre is
the specified centre and the stored angle the specified angle.
-/
namespace GlueVerif.Lemmas.Geometry
open GlueVerif.Geometry

/-- Points at which the correspondence is claimed: everywhere, except that a polygon is only
compared at points lying on none of its edges. -/
def OffB : Roi → Pt → Prop
  | .poly g, q => offBoundary g.vs q
  | _, _ => True

/-- Same class (and, for a range, same axis). -/
def sameKind : Roi → Roi → Prop
  | .rect _, .rect _ => True
  | .circle _, .circle _ => True
  | .ellipse _, .ellipse _ => True
  | .annulus _, .annulus _ => True
  | .range a, .range b => a.isX = b.isX
  | .poly _, .poly _ => True
  | .undefined, .undefined => True
  | _, _ => False

/-- An operation is within the theorem: rotations are unit vectors, and a polygon is not asked to
turn by a non-zero angle inside the `1e-9` skip window of `rotate_to`. -/
def OpOk (cur : Roi) : Op → Prop
  | .rotate c s => c * c + s * s = 1 ∧
      (match cur with
       | .poly g => closeFull (c * g.c + s * g.s) (s * g.c - c * g.s) = false ∨
           (c * g.c + s * g.s = 1 ∧ s * g.c - c * g.s = 0)
       | _ => True)
  | .define new => sameKind cur new ∧ new.defined = true
  | .removePoint _ => (match cur with | .poly g => 2 ≤ g.vs.length | _ => True)
  | _ => True

/-- Vertex list of a polygon (empty for the other classes). -/
def polyVerts : Roi → List Pt
  | .poly g => g.vs
  | _ => []

structure Inv (st : SpecState) (cur : Roi) : Prop where
  kind : sameKind st.roi cur
  ctr : st.ctr = cur.center
  ori : (st.c, st.s) = Spec.orient cur
  unit : st.c * st.c + st.s * st.s = 1
  defd : cur.defined = true
  verts : polyVerts cur = (polyVerts st.roi).map (pushforward st.motions)
  link : ∀ q, OffB st.roi (Spec.pullback st.motions q) →
    (OffB cur q ∧ Spec.contains cur q = Spec.contains st.roi (Spec.pullback st.motions q))

theorem pullback_cons (m : Motion) (ms : List Motion) (q : Pt) :
    Spec.pullback (m :: ms) q = Spec.pullback ms (m.undo q) := rfl

theorem undo_shift (d q : Pt) : (Motion.undo ⟨(0, 0), 1, 0, d⟩ q) = (q.1 - d.1, q.2 - d.2) := by
  simp only [Motion.undo, unrot]
  ext <;> simp

theorem undo_turn (ctr : Pt) (c s : Rat) (q : Pt) :
    (Motion.undo ⟨ctr, c, s, (0, 0)⟩ q) = turnBack ctr c s q := by
  simp only [Motion.undo, turnBack, sub_zero]

theorem turnBack_id (ctr q : Pt) : turnBack ctr 1 0 q = q := by
  simp only [turnBack, unrot]
  ext <;> simp

theorem pushforward_cons (m : Motion) (ms : List Motion) (q : Pt) :
    pushforward (m :: ms) q = m.apply (pushforward ms q) := rfl

theorem map_pushforward_nil (l : List Pt) : l.map (pushforward []) = l := by
  have : pushforward [] = id := by funext q; rfl
  rw [this, List.map_id]

theorem apply_shift (d q : Pt) : (Motion.apply ⟨(0, 0), 1, 0, d⟩ q) = shiftPt d q := by
  simp only [Motion.apply, rotAbout, rot, shiftPt]
  ext <;> simp

theorem apply_turn (ctr : Pt) (c s : Rat) (q : Pt) :
    (Motion.apply ⟨ctr, c, s, (0, 0)⟩ q) = rotAbout ctr c s q := by
  simp only [Motion.apply, add_zero]

theorem rotAbout_id (ctr q : Pt) : rotAbout ctr 1 0 q = q := by
  simp only [rotAbout, rot]
  ext <;> simp

theorem polyVerts_of_kind {a b : Roi} (h : sameKind a b) (hb : ∀ g, b ≠ .poly g) :
    polyVerts a = [] ∧ polyVerts b = [] := by
  cases a <;> cases b <;> simp_all [sameKind, polyVerts]

theorem theta_eq_orient (r : Roi) : r.theta = Spec.orient r := by
  cases r <;> rfl

/-! ### geometric definition under `move_to` -/

theorem spec_move_equivariant (roi : Roi) (t q : Pt) :
    Spec.contains (roi.moveTo t) q =
      Spec.contains roi (q.1 - (roi.moveDelta t).1, q.2 - (roi.moveDelta t).2) := by
  cases roi with
  | rect r =>
    rw [rect_moveTo_eq]
    show Spec.rectContains (rectShift r _) q = Spec.rectContains r _
    rw [rectShift_spec]
    rfl
  | circle c => exact circle_move c t q
  | ellipse e =>
    show Spec.ellipseContains { e with xc := t.1, yc := t.2 } q = _
    rw [ell_moveTo_eq, ellShift_spec]
    rfl
  | annulus a => exact annulus_move a t q
  | range r =>
    show Impl.rangeContains { r with lo := r.lo + _, hi := r.hi + _ } q = _
    rw [range_move]
    simp only [Roi.moveDelta, Spec.contains]
    cases r.isX <;> simp
  | poly g =>
    rw [poly_moveTo_eq]
    exact crossParity_shift _ q g.vs
  | undefined => rfl

theorem relPt_shift (d q v : Pt) : relPt q (shiftPt d v) = relPt (q.1 - d.1, q.2 - d.2) v := by
  simp only [relPt, shiftPt]
  ext <;> simp <;> ring

theorem offBoundary_shift (d q : Pt) (vs : List Pt) (h : offBoundary vs (q.1 - d.1, q.2 - d.2)) :
    offBoundary (vs.map (shiftPt d)) q := by
  unfold offBoundary at *
  rw [List.map_map]
  have : relPt q ∘ shiftPt d = relPt (q.1 - d.1, q.2 - d.2) := by
    funext v; exact relPt_shift d q v
  rw [this]
  exact h

theorem originOn_rot (c s : Rat) (hu : c * c + s * s = 1) (a b : Pt) :
    originOn (rot c s a) (rot c s b) ↔ originOn a b := by
  unfold originOn
  have e1 : (rot c s a).1 * (rot c s b).2 - (rot c s a).2 * (rot c s b).1 =
      (c * c + s * s) * (a.1 * b.2 - a.2 * b.1) := by simp only [rot]; ring
  have e2 : (rot c s a).1 * (rot c s b).1 + (rot c s a).2 * (rot c s b).2 =
      (c * c + s * s) * (a.1 * b.1 + a.2 * b.2) := by simp only [rot]; ring
  rw [e1, e2, hu, one_mul, one_mul]

theorem offPath_rot (c s : Rat) (hu : c * c + s * s = 1) (a : Pt) (vs : List Pt) (h : offPath a vs) :
    offPath (rot c s a) (vs.map (rot c s)) := by
  induction vs generalizing a with
  | nil => trivial
  | cons b rest ih =>
    exact ⟨fun hon => h.1 ((originOn_rot c s hu a b).1 hon), ih b h.2⟩

theorem relPt_rot (ctr : Pt) (c s : Rat) (q v : Pt) :
    relPt (rotAbout ctr c s q) (rotAbout ctr c s v) = rot c s (relPt q v) := by
  simp only [relPt, rot, rotAbout_fst, rotAbout_snd]
  ext <;> simp <;> ring

theorem offBoundary_rot (ctr : Pt) (c s : Rat) (hu : c * c + s * s = 1) (q : Pt) (vs : List Pt)
    (h : offBoundary vs q) : offBoundary (vs.map (rotAbout ctr c s)) (rotAbout ctr c s q) := by
  unfold offBoundary at *
  rw [List.map_map]
  have : relPt (rotAbout ctr c s q) ∘ rotAbout ctr c s = rot c s ∘ relPt q := by
    funext v; exact relPt_rot ctr c s q v
  rw [this, ← List.map_map]
  cases hvs : vs.map (relPt q) with
  | nil => trivial
  | cons v0 rest =>
    rw [hvs] at h
    simp only [offPoly, List.map_cons] at h ⊢
    have := offPath_rot c s hu v0 (rest ++ [v0]) h
    simpa using this

theorem center_rotateTo' (roi : Roi) (c s : Rat) (hu : c * c + s * s = 1)
    (ho : (Spec.orient roi).1 * (Spec.orient roi).1 + (Spec.orient roi).2 * (Spec.orient roi).2 = 1)
    (hdef : roi.defined = true) : (roi.rotateTo c s).center = roi.center := by
  cases roi with
  | poly g =>
    have hne : g.vs ≠ [] := by intro h; simp [Roi.defined, h] at hdef
    simp only [Spec.orient] at ho
    have hd : (c * g.c + s * g.s) * (c * g.c + s * g.s) + (s * g.c - c * g.s) * (s * g.c - c * g.s) = 1 := by
      have : (c * g.c + s * g.s) * (c * g.c + s * g.s) + (s * g.c - c * g.s) * (s * g.c - c * g.s)
          = (c * c + s * s) * (g.c * g.c + g.s * g.s) := by ring
      rw [this, hu, ho, mul_one]
    simp only [Roi.rotateTo]
    split
    · rfl
    · show polyCenter (g.vs.map _) = polyCenter g.vs
      rw [polyCenter_rot _ _ _ hd g.vs hne, rotAbout_self]
  | _ => rfl

/-! ### the invariant is established and preserved -/

theorem sameKind_refl (roi : Roi) : sameKind roi roi := by
  cases roi <;> simp [sameKind]

theorem inv_init (roi : Roi) (hdef : roi.defined = true)
    (hu : (Spec.orient roi).1 * (Spec.orient roi).1 + (Spec.orient roi).2 * (Spec.orient roi).2 = 1) :
    Inv (Spec.init roi) roi :=
  { kind := sameKind_refl roi, ctr := rfl, ori := rfl, unit := hu, defd := hdef,
    verts := (map_pushforward_nil _).symm, link := fun _ h => ⟨h, rfl⟩ }

theorem moveTo_kind (roi : Roi) (t : Pt) : sameKind roi (roi.moveTo t) := by
  cases roi <;> simp [sameKind, Roi.moveTo]

theorem sameKind_trans {a b c : Roi} (h1 : sameKind a b) (h2 : sameKind b c) : sameKind a c := by
  cases a <;> cases b <;> cases c <;> simp_all [sameKind]

theorem moveTo_orient (roi : Roi) (t : Pt) : Spec.orient (roi.moveTo t) = Spec.orient roi := by
  cases roi <;> rfl

theorem moveTo_defined (roi : Roi) (t : Pt) (h : roi.defined = true) : (roi.moveTo t).defined = true := by
  cases roi with
  | poly g =>
    simp only [Roi.moveTo, Roi.defined, List.isEmpty_map] at h ⊢
    exact h
  | _ => exact h

theorem offB_move (cur : Roi) (t q : Pt)
    (h : OffB cur (q.1 - (cur.moveDelta t).1, q.2 - (cur.moveDelta t).2)) : OffB (cur.moveTo t) q := by
  cases cur with
  | poly g =>
    rw [poly_moveTo_eq]
    exact offBoundary_shift _ q g.vs h
  | _ => trivial

/-- The displacement and the new centre that `Spec.step` uses are those of `move_to`. -/
theorem step_move_motions (st : SpecState) (cur : Roi) (t : Pt) (hk : sameKind st.roi cur)
    (hc : st.ctr = cur.center) :
    (Spec.step st (.move t)).motions = ⟨(0, 0), 1, 0, cur.moveDelta t⟩ :: st.motions := by
  cases hs : st.roi <;> cases cur <;> simp_all [sameKind, Spec.step, Roi.moveDelta, Roi.center]

theorem step_move_ctr (st : SpecState) (cur : Roi) (t : Pt) (hk : sameKind st.roi cur)
    (hd : cur.defined = true) : (Spec.step st (.move t)).ctr = (cur.moveTo t).center := by
  cases cur with
  | range r =>
    cases hs : st.roi <;> simp [hs, sameKind] at hk
    rw [range_center_moveTo]
    simp [Spec.step, hs, hk]
  | undefined => simp [Roi.defined] at hd
  | rect r =>
    cases hs : st.roi <;> simp [hs, sameKind] at hk
    rw [center_moveTo _ t hd (by intro r; simp)]; simp [Spec.step, hs]
  | circle r =>
    cases hs : st.roi <;> simp [hs, sameKind] at hk
    rw [center_moveTo _ t hd (by intro r; simp)]; simp [Spec.step, hs]
  | ellipse r =>
    cases hs : st.roi <;> simp [hs, sameKind] at hk
    rw [center_moveTo _ t hd (by intro r; simp)]; simp [Spec.step, hs]
  | annulus r =>
    cases hs : st.roi <;> simp [hs, sameKind] at hk
    rw [center_moveTo _ t hd (by intro r; simp)]; simp [Spec.step, hs]
  | poly r =>
    cases hs : st.roi <;> simp [hs, sameKind] at hk
    rw [center_moveTo _ t hd (by intro r; simp)]; simp [Spec.step, hs]

theorem step_move_rest (st : SpecState) (t : Pt) :
    (Spec.step st (.move t)).roi = st.roi ∧ (Spec.step st (.move t)).c = st.c ∧
    (Spec.step st (.move t)).s = st.s := ⟨rfl, rfl, rfl⟩

theorem inv_move (st : SpecState) (cur : Roi) (t : Pt) (h : Inv st cur) :
    Inv (Spec.step st (.move t)) (Impl.applyOp cur (.move t)) := by
  have hm := step_move_motions st cur t h.kind h.ctr
  have hc := step_move_ctr st cur t h.kind h.defd
  obtain ⟨r1, r2, r3⟩ := step_move_rest st t
  have hverts : polyVerts (Impl.applyOp cur (.move t)) =
      (polyVerts (Spec.step st (.move t)).roi).map (pushforward (Spec.step st (.move t)).motions) := by
    rw [r1, hm]
    show polyVerts (cur.moveTo t) = _
    have hv := h.verts
    have hk := h.kind
    cases cur with
    | poly g =>
      rw [poly_moveTo_eq]
      simp only [polyVerts] at hv ⊢
      rw [hv, List.map_map]
      apply List.map_congr_left
      intro v _
      simp only [Function.comp, pushforward_cons, apply_shift, Roi.moveDelta, Roi.center]
      rw [← hv]
    | _ =>
      obtain ⟨e1, _⟩ := polyVerts_of_kind hk (by intro g; simp)
      rw [e1]; rfl
  refine { kind := ?_, ctr := hc, ori := ?_, unit := ?_, defd := moveTo_defined cur t h.defd, verts := hverts, link := ?_ }
  · rw [r1]; exact sameKind_trans h.kind (moveTo_kind cur t)
  · show ((Spec.step st (.move t)).c, (Spec.step st (.move t)).s) = Spec.orient (cur.moveTo t)
    rw [r2, r3, moveTo_orient]; exact h.ori
  · rw [r2, r3]; exact h.unit
  · intro q hq
    show OffB (cur.moveTo t) q ∧ Spec.contains (cur.moveTo t) q = Spec.contains _ _
    rw [r1, hm, pullback_cons, undo_shift] at hq ⊢
    obtain ⟨o1, e1⟩ := h.link _ hq
    exact ⟨offB_move cur t q o1, by rw [spec_move_equivariant, e1]⟩

theorem closeFull_id : closeFull 1 0 = true := by decide +kernel

theorem rel_unit (c s c0 s0 : Rat) (hu : c * c + s * s = 1) (h0 : c0 * c0 + s0 * s0 = 1) :
    (c * c0 + s * s0) * (c * c0 + s * s0) + (s * c0 - c * s0) * (s * c0 - c * s0) = 1 := by
  have : (c * c0 + s * s0) * (c * c0 + s * s0) + (s * c0 - c * s0) * (s * c0 - c * s0)
      = (c * c + s * s) * (c0 * c0 + s0 * s0) := by ring
  rw [this, hu, h0, mul_one]

theorem inv_rotate (st : SpecState) (cur : Roi) (c s : Rat) (h : Inv st cur) (hok : OpOk cur (.rotate c s)) :
    Inv (Spec.step st (.rotate c s)) (Impl.applyOp cur (.rotate c s)) := by
  obtain ⟨hu, hpoly⟩ := hok
  have hkind := h.kind
  have hori := h.ori
  have hctr := h.ctr
  cases cur with
  | rect r =>
    cases hs : st.roi <;> simp [hs, sameKind] at hkind
    simp only [Spec.orient, Prod.mk.injEq] at hori
    simp only [Roi.center] at hctr
    have hun : r.c * r.c + r.s * r.s = 1 := by rw [← hori.1, ← hori.2]; exact h.unit
    have hverts : polyVerts (Impl.applyOp (.rect r) (.rotate c s)) =
        (polyVerts (Spec.step st (.rotate c s)).roi).map (pushforward (Spec.step st (.rotate c s)).motions) := by
      simp [Spec.step, Spec.canRotate, hs, Impl.applyOp, Roi.rotateTo, polyVerts]
    refine { kind := ?_, ctr := ?_, ori := ?_, unit := ?_, defd := h.defd, verts := hverts, link := ?_ }
    · simp [Spec.step, Spec.canRotate, hs, Impl.applyOp, Roi.rotateTo, sameKind]
    · simp [Spec.step, Spec.canRotate, hs, Impl.applyOp, Roi.rotateTo, Roi.center, hctr]; rfl
    · simp [Spec.step, Spec.canRotate, hs, Impl.applyOp, Roi.rotateTo, Spec.orient]
    · simp [Spec.step, Spec.canRotate, hs]; exact hu
    · intro q hq
      simp only [Spec.step, Spec.canRotate, hs, if_true] at hq ⊢
      rw [pullback_cons, undo_turn, hctr, hori.1, hori.2] at hq ⊢
      obtain ⟨_, e1⟩ := h.link _ (by rw [hs]; exact hq)
      refine ⟨trivial, ?_⟩
      show Spec.rectContains (rectTurn r c s) q = _
      rw [rectTurn_spec r c s q hun]
      rw [hs] at e1
      exact e1
  | ellipse e =>
    cases hs : st.roi <;> simp [hs, sameKind] at hkind
    simp only [Spec.orient, Prod.mk.injEq] at hori
    simp only [Roi.center] at hctr
    have hun : e.c * e.c + e.s * e.s = 1 := by rw [← hori.1, ← hori.2]; exact h.unit
    have hverts : polyVerts (Impl.applyOp (.ellipse e) (.rotate c s)) =
        (polyVerts (Spec.step st (.rotate c s)).roi).map (pushforward (Spec.step st (.rotate c s)).motions) := by
      simp [Spec.step, Spec.canRotate, hs, Impl.applyOp, Roi.rotateTo, polyVerts]
    refine { kind := ?_, ctr := ?_, ori := ?_, unit := ?_, defd := h.defd, verts := hverts, link := ?_ }
    · simp [Spec.step, Spec.canRotate, hs, Impl.applyOp, Roi.rotateTo, sameKind]
    · simp [Spec.step, Spec.canRotate, hs, Impl.applyOp, Roi.rotateTo, Roi.center, hctr]
    · simp [Spec.step, Spec.canRotate, hs, Impl.applyOp, Roi.rotateTo, Spec.orient]
    · simp [Spec.step, Spec.canRotate, hs]; exact hu
    · intro q hq
      simp only [Spec.step, Spec.canRotate, hs, if_true] at hq ⊢
      rw [pullback_cons, undo_turn, hctr, hori.1, hori.2] at hq ⊢
      obtain ⟨_, e1⟩ := h.link _ (by rw [hs]; exact hq)
      refine ⟨trivial, ?_⟩
      show Spec.ellipseContains (ellTurn e c s) q = _
      rw [ellTurn_spec e c s q hun]
      rw [hs] at e1
      exact e1
  | poly g =>
    cases hs : st.roi <;> simp [hs, sameKind] at hkind
    simp only [Spec.orient, Prod.mk.injEq] at hori
    simp only [Roi.center] at hctr
    have hun : g.c * g.c + g.s * g.s = 1 := by rw [← hori.1, ← hori.2]; exact h.unit
    have hd := rel_unit c s g.c g.s hu hun
    have hne : g.vs ≠ [] := by
      intro he; have := h.defd; simp [Roi.defined, he] at this
    have hcen : ((Roi.poly g).rotateTo c s).center = (Roi.poly g).center :=
      center_rotateTo' (.poly g) c s hu (by simpa [Spec.orient] using hun) h.defd
    have hverts : polyVerts (Impl.applyOp (.poly g) (.rotate c s)) =
        (polyVerts (Spec.step st (.rotate c s)).roi).map (pushforward (Spec.step st (.rotate c s)).motions) := by
      have hv := h.verts
      simp only [hs, polyVerts] at hv
      simp only [Spec.step, Spec.canRotate, hs, if_true, Impl.applyOp, Roi.rotateTo, polyVerts]
      rcases hpoly with hnot | ⟨h1, h0⟩
      · simp only [hnot, Bool.false_eq_true, if_false]
        rw [hv, List.map_map]
        apply List.map_congr_left
        intro v _
        simp only [Function.comp, pushforward_cons, apply_turn, hctr, hori.1, hori.2]
        rw [← hv]
      · rw [h1, h0]
        simp only [closeFull_id, if_true]
        rw [hv]
        apply List.map_congr_left
        intro v _
        simp only [pushforward_cons, apply_turn, hori.1, hori.2, h1, h0, rotAbout_id]
    refine { kind := ?_, ctr := ?_, ori := ?_, unit := ?_, defd := ?_, verts := hverts, link := ?_ }
    · simp only [Spec.step, Spec.canRotate, hs, if_true, Impl.applyOp, Roi.rotateTo]
      split <;> simp [sameKind]
    · simp only [Spec.step, Spec.canRotate, hs, if_true, Impl.applyOp]
      rw [hcen]; exact hctr
    · simp only [Spec.step, Spec.canRotate, hs, if_true, Impl.applyOp, Roi.rotateTo]
      split <;> rfl
    · simp only [Spec.step, Spec.canRotate, hs, if_true]; exact hu
    · simp only [Impl.applyOp, Roi.rotateTo]
      have := h.defd
      split <;> simpa [Roi.defined] using this
    · intro q hq
      simp only [Spec.step, Spec.canRotate, hs, if_true] at hq ⊢
      rw [pullback_cons, undo_turn, hctr, hori.1, hori.2] at hq ⊢
      obtain ⟨o1, e1⟩ := h.link _ (by rw [hs]; exact hq)
      rw [hs] at e1
      simp only [Impl.applyOp, Roi.rotateTo]
      rcases hpoly with hnot | ⟨h1, h0⟩
      · simp only [hnot, Bool.false_eq_true, if_false]
        refine ⟨?_, ?_⟩
        · have := offBoundary_rot (polyCenter g.vs) _ _ hd _ g.vs o1
          rw [rotAbout_turnBack _ _ _ hd] at this
          exact this
        · show Spec.polyContains (g.vs.map _) q = _
          rw [polyTurn_spec _ _ _ hd g.vs q o1]
          exact e1
      · rw [h1, h0] at o1 e1 ⊢
        rw [turnBack_id] at o1 e1 ⊢
        simp only [closeFull_id, if_true]
        exact ⟨o1, e1⟩
  | circle c0 =>
    cases hs : st.roi <;> simp [hs, sameKind] at hkind
    have e1 : Spec.step st (.rotate c s) = st := by simp [Spec.step, Spec.canRotate, hs]
    rw [e1]; exact h
  | annulus a =>
    cases hs : st.roi <;> simp [hs, sameKind] at hkind
    have e1 : Spec.step st (.rotate c s) = st := by simp [Spec.step, Spec.canRotate, hs]
    rw [e1]; exact h
  | range r =>
    cases hs : st.roi <;> simp [hs, sameKind] at hkind
    have e1 : Spec.step st (.rotate c s) = st := by simp [Spec.step, Spec.canRotate, hs]
    rw [e1]; exact h
  | undefined =>
    cases hs : st.roi <;> simp [hs, sameKind] at hkind
    have e1 : Spec.step st (.rotate c s) = st := by simp [Spec.step, Spec.canRotate, hs]
    rw [e1]; exact h

theorem applyOp_roundtrip (cur : Roi) : Impl.applyOp cur .roundtrip = cur.restored := by
  simp only [Impl.applyOp, params_roundtrip, Option.getD_some]

theorem inv_roundtrip (st : SpecState) (cur : Roi) (h : Inv st cur) :
    Inv (Spec.step st .roundtrip) (Impl.applyOp cur .roundtrip) := by
  rw [applyOp_roundtrip]
  have hkind := h.kind
  cases cur with
  | poly g =>
    cases hs : st.roi <;> simp [hs, sameKind] at hkind
    have e : Spec.step st .roundtrip = { st with c := 1, s := 0 } := by simp [Spec.step, hs]
    rw [e]
    refine { kind := ?_, ctr := h.ctr, ori := rfl, unit := by norm_num, defd := h.defd, verts := h.verts, link := h.link }
    simp [hs, sameKind, Roi.restored]
  | rect r =>
    cases hs : st.roi <;> simp [hs, sameKind] at hkind
    have e : Spec.step st .roundtrip = st := by simp [Spec.step, hs]
    rw [e]; exact h
  | circle r =>
    cases hs : st.roi <;> simp [hs, sameKind] at hkind
    have e : Spec.step st .roundtrip = st := by simp [Spec.step, hs]
    rw [e]; exact h
  | ellipse r =>
    cases hs : st.roi <;> simp [hs, sameKind] at hkind
    have e : Spec.step st .roundtrip = st := by simp [Spec.step, hs]
    rw [e]; exact h
  | annulus r =>
    cases hs : st.roi <;> simp [hs, sameKind] at hkind
    have e : Spec.step st .roundtrip = st := by simp [Spec.step, hs]
    rw [e]; exact h
  | range r =>
    cases hs : st.roi <;> simp [hs, sameKind] at hkind
    have e : Spec.step st .roundtrip = st := by simp [Spec.step, hs]
    rw [e]; exact h
  | undefined =>
    cases hs : st.roi <;> simp [hs, sameKind] at hkind
    have e : Spec.step st .roundtrip = st := by simp [Spec.step, hs]
    rw [e]; exact h

/-! ### redefinitions -/

theorem redefine_eq (st : SpecState) (cur new : Roi) (h : Inv st cur) (hk : sameKind cur new) :
    redefineWith st.roi st.c st.s (1, 0) new = some (cur.redefine new) := by
  have hkind := h.kind
  have hori := h.ori
  have hdefd := h.defd
  cases hs : st.roi <;> cases cur <;> cases new <;>
    simp_all [sameKind, redefineWith, Roi.redefine, Roi.theta, Spec.orient, Roi.defined]

theorem redefine_defined (cur new : Roi) (hk : sameKind cur new) (hd : new.defined = true) :
    (cur.redefine new).defined = true := by
  cases cur <;> cases new <;> simp_all [sameKind, redefineWith, Roi.redefine, Roi.defined]

theorem redefine_orient (cur new : Roi) (hk : sameKind cur new) :
    Spec.orient (cur.redefine new) = Spec.orient cur ∨ Spec.orient (cur.redefine new) = (1, 0) := by
  cases cur <;> cases new <;> simp_all [sameKind, redefineWith, Roi.redefine, Roi.theta, Spec.orient]

theorem inv_define (st : SpecState) (cur new : Roi) (h : Inv st cur) (hok : OpOk cur (.define new)) :
    Inv (Spec.step st (.define new)) (Impl.applyOp cur (.define new)) := by
  obtain ⟨hk, hd⟩ := hok
  have e := redefine_eq st cur new h hk
  have e2 : Spec.step st (.define new) = Spec.init (cur.redefine new) := by
    simp only [Spec.step, e, Spec.init]
  rw [e2]
  show Inv _ (cur.redefine new)
  have hun : (Spec.orient cur).1 * (Spec.orient cur).1 + (Spec.orient cur).2 * (Spec.orient cur).2 = 1 := by
    rw [← h.ori]; exact h.unit
  refine inv_init _ (redefine_defined cur new hk hd) ?_
  rcases redefine_orient cur new hk with ho | ho
  · rw [ho]; exact hun
  · rw [ho]; norm_num

theorem inv_edit (st : SpecState) (cur : Roi) (f : List Pt → List Pt) (h : Inv st cur)
    (hne : ∀ g, cur = .poly g → f g.vs ≠ []) : Inv (Spec.step.edit st f) (cur.editVs f) := by
  have hkind := h.kind
  cases cur with
  | poly g =>
    cases hs : st.roi <;> simp [hs, sameKind] at hkind
    rename_i g0
    have hv := h.verts
    simp only [hs, polyVerts] at hv
    have hori := h.ori
    have e : Spec.step.edit st f =
        ⟨.poly { vs := f g.vs, c := st.c, s := st.s }, [], polyCenter (f g.vs), st.c, st.s⟩ := by
      simp only [Spec.step.edit, hs, hv]
    rw [e]
    refine { kind := ?_, ctr := rfl, ori := hori, unit := h.unit, defd := ?_, verts := ?_, link := fun _ hq => ⟨hq, rfl⟩ }
    · simp [sameKind, Roi.editVs]
    · have := hne g rfl
      simp only [Roi.editVs, Roi.defined]
      cases hf : f g.vs with
      | nil => exact absurd hf this
      | cons a l => rfl
    · simp only [Roi.editVs, polyVerts]
      exact (map_pushforward_nil _).symm
  | rect r =>
    cases hs : st.roi <;> simp [hs, sameKind] at hkind
    have e : Spec.step.edit st f = st := by simp [Spec.step.edit, hs]
    rw [e]; exact h
  | circle r =>
    cases hs : st.roi <;> simp [hs, sameKind] at hkind
    have e : Spec.step.edit st f = st := by simp [Spec.step.edit, hs]
    rw [e]; exact h
  | ellipse r =>
    cases hs : st.roi <;> simp [hs, sameKind] at hkind
    have e : Spec.step.edit st f = st := by simp [Spec.step.edit, hs]
    rw [e]; exact h
  | annulus r =>
    cases hs : st.roi <;> simp [hs, sameKind] at hkind
    have e : Spec.step.edit st f = st := by simp [Spec.step.edit, hs]
    rw [e]; exact h
  | range r =>
    cases hs : st.roi <;> simp [hs, sameKind] at hkind
    have e : Spec.step.edit st f = st := by simp [Spec.step.edit, hs]
    rw [e]; exact h
  | undefined =>
    cases hs : st.roi <;> simp [hs, sameKind] at hkind
    have e : Spec.step.edit st f = st := by simp [Spec.step.edit, hs]
    rw [e]; exact h

theorem poly_vs_ne (g : Poly) (h : (Roi.poly g).defined = true) : g.vs ≠ [] := by
  intro he; simp [Roi.defined, he] at h

theorem editRemove_ne (vs : List Pt) (p : Pt) (h : 2 ≤ vs.length) : editRemove vs p ≠ [] := by
  intro he
  have hl : (editRemove vs p).length = 0 := by rw [he]; rfl
  simp only [editRemove, List.length_eraseIdx] at hl
  split at hl <;> omega

theorem inv_step (st : SpecState) (cur : Roi) (op : Op) (h : Inv st cur) (hok : OpOk cur op) :
    Inv (Spec.step st op) (Impl.applyOp cur op) := by
  cases op with
  | move t => exact inv_move st cur t h
  | rotate c s => exact inv_rotate st cur c s h hok
  | copy => exact h
  | roundtrip => exact inv_roundtrip st cur h
  | define new => exact inv_define st cur new h hok
  | addPoint p =>
    refine inv_edit st cur (editAdd · p) h ?_
    intro g _; simp [editAdd]
  | replaceLast p =>
    refine inv_edit st cur (editReplaceLast · p) h ?_
    intro g hg
    have hne := poly_vs_ne g (hg ▸ h.defd)
    simp only [editReplaceLast]
    split
    · exact hne
    · simp
  | removePoint p =>
    refine inv_edit st cur (editRemove · p) h ?_
    intro g hg
    subst hg
    exact editRemove_ne g.vs p hok
  | forkEdit _ _ _ => exact h

/-- Every operation of the list is within the theorem (checked against the region it is applied to). -/
def OpsOk : Roi → List Op → Prop
  | _, [] => True
  | cur, op :: rest => OpOk cur op ∧ OpsOk (Impl.applyOp cur op) rest

theorem inv_fold (ops : List Op) : ∀ (st : SpecState) (cur : Roi), Inv st cur → OpsOk cur ops →
    Inv (ops.foldl Spec.step st) (ops.foldl Impl.applyOp cur) := by
  induction ops with
  | nil => intro st cur h _; exact h
  | cons op rest ih =>
    intro st cur h hok
    exact ih _ _ (inv_step st cur op h hok.1) hok.2

/-- Hypotheses under which the coded test of a class is the geometric definition off the band. -/
def ImplHyp (roi : Roi) (ε : Rat) : Prop :=
  match roi with
  | .rect r => r.c * r.c + r.s * r.s = 1 ∧ 0 ≤ ε ∧ r.branchTol ≤ ε
  | .ellipse e => e.c * e.c + e.s * e.s = 1 ∧ 0 < e.rx ∧ 0 < e.ry ∧ 0 ≤ ε ∧ e.branchTol ≤ ε
  | .poly g => 3 ≤ g.vs.length
  | _ => True

theorem impl_eq_spec (roi : Roi) (q : Pt) (ε : Rat) (hh : ImplHyp roi ε) (hfar : roi.near q ε = false) :
    Impl.contains roi q = Spec.contains roi q := by
  cases roi with
  | rect r => exact rect_branches_agree r q ε hh.1 hh.2.1 hh.2.2 hfar
  | ellipse e => exact ellipse_branches_agree_tilt e q ε hh.1 hh.2.1 hh.2.2.1 hh.2.2.2.1 hh.2.2.2.2 hfar
  | poly g => exact polyContains_eq_spec g.vs q hh
  | _ => rfl

/-- **Operation sequences, geometric definition**: after any list of `move_to` / `rotate_to` / `copy` /
save-restore the region described by the current parameters contains `q` iff the original region
contains `q` pulled back through the specified rigid motions; the reported centre and the stored
angle are the specified ones. -/
theorem ops_spec (roi : Roi) (ops : List Op) (q : Pt) (hdef : roi.defined = true)
    (hu : (Spec.orient roi).1 * (Spec.orient roi).1 + (Spec.orient roi).2 * (Spec.orient roi).2 = 1)
    (hok : OpsOk roi ops)
    (hoff : OffB (Spec.run roi ops).roi (Spec.pullback (Spec.run roi ops).motions q)) :
    Spec.contains (Impl.applyOps roi ops) q = Spec.containsAfter roi ops q ∧
    (Impl.applyOps roi ops).center = (Spec.run roi ops).ctr ∧
    Spec.orient (Impl.applyOps roi ops) = ((Spec.run roi ops).c, (Spec.run roi ops).s) := by
  have hinv := inv_fold ops (Spec.init roi) roi (inv_init roi hdef hu) hok
  change Inv (Spec.run roi ops) (Impl.applyOps roi ops) at hinv
  obtain ⟨_, e⟩ := hinv.link q hoff
  exact ⟨e, hinv.ctr.symm, hinv.ori.symm⟩

/-- Rigid transforms and copies (the round-2 op language): nothing is redefined. -/
def Op.isTransform : Op → Bool
  | .move _ | .rotate _ _ | .copy | .roundtrip => true
  | _ => false

/-- Without redefinitions the specification keeps the *original* region as its base. -/
theorem run_roi_of_transforms (roi : Roi) (ops : List Op) (h : ∀ op ∈ ops, Op.isTransform op = true) :
    (Spec.run roi ops).roi = roi := by
  have : ∀ (ops : List Op) (st : SpecState), (∀ op ∈ ops, Op.isTransform op = true) →
      (ops.foldl Spec.step st).roi = st.roi := by
    intro ops
    induction ops with
    | nil => intro st _; rfl
    | cons op rest ih =>
      intro st h
      rw [List.foldl_cons, ih _ (fun o ho => h o (List.mem_cons_of_mem _ ho))]
      have h1 := h op List.mem_cons_self
      cases op <;> simp only [Op.isTransform, Bool.false_eq_true] at h1 <;> simp only [Spec.step]
      · split <;> rfl
      · split <;> rfl
  exact this ops (Spec.init roi) h

/-- After the last redefinition `define new` the specification's base region is the newly defined
region (with the angle the class documents) and only the motions applied since count. -/
theorem run_define_last (roi : Roi) (pre post : List Op) (new : Roi)
    (h : ∀ op ∈ post, Op.isTransform op = true) :
    (Spec.run roi (pre ++ .define new :: post)).roi = (Spec.step (Spec.run roi pre) (.define new)).roi := by
  have : ∀ (ops : List Op) (st : SpecState), (∀ op ∈ ops, Op.isTransform op = true) →
      (ops.foldl Spec.step st).roi = st.roi := by
    intro ops
    induction ops with
    | nil => intro st _; rfl
    | cons op rest ih =>
      intro st h
      rw [List.foldl_cons, ih _ (fun o ho => h o (List.mem_cons_of_mem _ ho))]
      have h1 := h op List.mem_cons_self
      cases op <;> simp only [Op.isTransform, Bool.false_eq_true] at h1 <;> simp only [Spec.step]
      · split <;> rfl
      · split <;> rfl
  simp only [Spec.run, List.foldl_append, List.foldl_cons]
  exact this post _ h

end GlueVerif.Lemmas.Geometry
