import GlueVerif.Lemmas.C18Viewer
/-!
# C18 part 1 — the viewer invariant and its preservation
-/
namespace GlueVerif.Lemmas.C18Viewer
open GlueVerif.Collection GlueVerif.C18Viewer

/-- The inductive invariant of the viewer model. -/
structure VInv (v : VState) : Prop where
  col : Collection.Inv v.col
  good : Good v
  ids : IdsOk v
  /-- a layer is shown iff it is current (exists in the collection) and wanted (asked for). -/
  shown : ∀ L, hasLayer v.arts L = true ↔
      (currentLayer v.col.datasets v.col.dsubs L = true ∧ wantedLayer v.want L = true)
  givenCur : ∀ d ∈ v.want.given, d ∈ v.col.datasets
  hiddenCur : ∀ s ∈ v.want.hidden, attached v.col.datasets v.col.dsubs s = true
  extraCur : ∀ s ∈ v.want.extra, attached v.col.datasets v.col.dsubs s = true
  extraNotGiven : ∀ s ∈ v.want.extra, givenSub v.want s = false

/-! ### Prop-level readings of the Boolean definitions -/

theorem cur_data (D : List Nat) (ds : Nat → List Sub) (d : Nat) :
    currentLayer D ds (.data d) = true ↔ d ∈ D := by simp [currentLayer]

theorem cur_sub (D : List Nat) (ds : Nat → List Sub) (s : Sub) :
    currentLayer D ds (.sub s) = attached D ds s := rfl

theorem wanted_data (w : Want) (d : Nat) : wantedLayer w (.data d) = true ↔ d ∈ w.given := by
  simp [wantedLayer]

theorem wanted_sub (w : Want) (s : Sub) :
    wantedLayer w (.sub s) = true ↔ ((givenSub w s = true ∧ s ∉ w.hidden) ∨ s ∈ w.extra) := by
  simp [wantedLayer]

theorem givenSub_iff (w : Want) (s : Sub) : givenSub w s = true ↔ ∃ d, s.data = some d ∧ d ∈ w.given := by
  unfold givenSub
  cases s.data with
  | none => simp
  | some d => simp

theorem givenSub_false_iff (w : Want) (s : Sub) : givenSub w s = false ↔ ∀ d, s.data = some d → d ∉ w.given := by
  rw [← Bool.not_eq_true, givenSub_iff]
  constructor
  · intro h d hd hg; exact h ⟨d, hd, hg⟩
  · rintro h ⟨d, hd, hg⟩; exact h d hd hg

theorem ofData_data (d d' : Nat) : (Layer.data d').ofData d = true ↔ d' = d := by simp [Layer.ofData]
theorem ofData_sub (d : Nat) (s : Sub) : (Layer.sub s).ofData d = true ↔ s.data = some d := by simp [Layer.ofData]

theorem good_upd {v : VState} (h : Good v) (c : Collection.State) (w : Want) (e : Bool) :
    Good { v with col := c, want := w, err := e } := ⟨h.synced, h.nodupL, h.idsLt⟩

theorem idsOk_upd {v : VState} (h : IdsOk v) (c : Collection.State) (w : Want) (e : Bool) :
    IdsOk { v with col := c, want := w, err := e } := ⟨h.nodupI⟩

/-- assembling the invariant after a handler ran: `v0` is the state the handler started from, `e`
what it did to the layers, `w'` the new ghost. -/
theorem vinv_of_eff {v0 v' : VState} {mem : Layer → Bool} (e : Eff v0 v' mem) (w' : Want)
    (hcol : Collection.Inv v0.col)
    (hshown : ∀ L, mem L = true ↔
      (currentLayer v0.col.datasets v0.col.dsubs L = true ∧ wantedLayer w' L = true))
    (hg : ∀ d ∈ w'.given, d ∈ v0.col.datasets)
    (hh : ∀ s ∈ w'.hidden, attached v0.col.datasets v0.col.dsubs s = true)
    (he : ∀ s ∈ w'.extra, attached v0.col.datasets v0.col.dsubs s = true)
    (hn : ∀ s ∈ w'.extra, givenSub w' s = false) :
    VInv { v' with want := w' } where
  col := by show Collection.Inv v'.col; rw [e.rest.col]; exact hcol
  good := ⟨e.good.synced, e.good.nodupL, e.good.idsLt⟩
  ids := ⟨e.ids.nodupI⟩
  shown := by
    intro L
    show hasLayer v'.arts L = true ↔ (currentLayer v'.col.datasets v'.col.dsubs L = true ∧ wantedLayer w' L = true)
    rw [e.layers L, e.rest.col]; exact hshown L
  givenCur := by show ∀ d ∈ w'.given, d ∈ v'.col.datasets; rw [e.rest.col]; exact hg
  hiddenCur := by show ∀ s ∈ w'.hidden, attached v'.col.datasets v'.col.dsubs s = true; rw [e.rest.col]; exact hh
  extraCur := by show ∀ s ∈ w'.extra, attached v'.col.datasets v'.col.dsubs s = true; rw [e.rest.col]; exact he
  extraNotGiven := hn

/-- the invariant does not depend on `err`. -/
theorem vinv_err {v : VState} (h : VInv v) (e : Bool) : VInv { v with err := e } :=
  ⟨h.col, ⟨h.good.synced, h.good.nodupL, h.good.idsLt⟩, ⟨h.ids.nodupI⟩, h.shown, h.givenCur, h.hiddenCur,
   h.extraCur, h.extraNotGiven⟩

theorem inv_init (n colors : Nat) : VInv (C18Viewer.init n colors) where
  col := Lemmas.C06.inv_init n colors
  good := ⟨rfl, by simp [C18Viewer.init], by simp [C18Viewer.init]⟩
  ids := ⟨by simp [C18Viewer.init]⟩
  shown := by
    intro L
    cases L with
    | data d => simp [C18Viewer.init, hasLayer, wantedLayer]
    | sub s => simp [C18Viewer.init, hasLayer, wantedLayer, givenSub]; cases s.data <;> simp
  givenCur := by simp [C18Viewer.init]
  hiddenCur := by simp [C18Viewer.init]
  extraCur := by simp [C18Viewer.init]
  extraNotGiven := by simp [C18Viewer.init]

/-! ### facts used by several operations -/

theorem attached_of_mem {st : Collection.State} (hc : ColOk st) {d : Nat} {s : Sub} (hs : s ∈ st.dsubs d) :
    attached st.datasets st.dsubs s = true :=
  (attached_iff hc s).2 ⟨d, mem_datasets_of_mem_dsubs hc hs, hs⟩

theorem findSub_mem {st : Collection.State} {d g : Nat} {s : Sub} (h : findSub st d g = some s) : s ∈ st.dsubs d :=
  List.mem_of_find?_eq_some h

/-- a shown data layer belongs to a given dataset of the collection. -/
theorem shown_data {v : VState} (h : VInv v) (d : Nat) :
    hasLayer v.arts (.data d) = true ↔ (d ∈ v.col.datasets ∧ d ∈ v.want.given) := by
  rw [h.shown, cur_data, wanted_data]

theorem shown_sub {v : VState} (h : VInv v) (s : Sub) :
    hasLayer v.arts (.sub s) = true ↔
      (attached v.col.datasets v.col.dsubs s = true ∧
        ((givenSub v.want s = true ∧ s ∉ v.want.hidden) ∨ s ∈ v.want.extra)) := by
  rw [h.shown, cur_sub, wanted_sub]

/-! ## the operations -/

theorem inv_removeData (v : VState) (h : VInv v) (d : Nat) : VInv (step v (.removeData d)) := by
  have hc := colOk_of_inv h.col
  have e := eff_removeDataH (good_upd h.good v.col v.want false) (idsOk_upd h.ids v.col v.want false) d
  refine vinv_of_eff e (v.want.removeData d) h.col ?_ ?_ ?_ ?_ ?_
  · intro L
    simp only [Bool.and_eq_true, Bool.not_eq_true']
    cases L with
    | data d' =>
      rw [shown_data h, cur_data, wanted_data]
      have : (Layer.data d').ofData d = false ↔ d' ≠ d := by simp [Layer.ofData]
      rw [this]
      simp only [Want.removeData, List.mem_filter, Bool.not_eq_true', beq_eq_false_iff_ne]
      grind
    | sub s =>
      rw [shown_sub h, cur_sub, wanted_sub]
      have : (Layer.sub s).ofData d = false ↔ s.data ≠ some d := by simp [Layer.ofData]
      rw [this]
      simp only [givenSub_iff, Want.removeData, List.mem_filter, Bool.not_eq_true', beq_eq_false_iff_ne]
      constructor
      · rintro ⟨⟨ha, hw⟩, hne⟩
        refine ⟨ha, ?_⟩
        rcases hw with ⟨⟨d0, hd0, hg0⟩, hh⟩ | hx
        · left
          exact ⟨⟨d0, hd0, hg0, fun e => hne (e ▸ hd0)⟩, fun hm => hh hm.1⟩
        · right; exact ⟨hx, hne⟩
      · rintro ⟨ha, hw⟩
        rcases hw with ⟨⟨d0, hd0, hg0, hne0⟩, hh⟩ | ⟨hx, hne⟩
        · have hne : s.data ≠ some d := by rw [hd0]; intro e; exact hne0 (Option.some.inj e)
          exact ⟨⟨ha, Or.inl ⟨⟨d0, hd0, hg0⟩, fun hm => hh ⟨hm, hne⟩⟩⟩, hne⟩
        · exact ⟨⟨ha, Or.inr hx⟩, hne⟩
  · intro d' hd'
    simp only [Want.removeData, List.mem_filter] at hd'
    exact h.givenCur d' hd'.1
  · intro s hs
    simp only [Want.removeData, List.mem_filter] at hs
    exact h.hiddenCur s hs.1
  · intro s hs
    simp only [Want.removeData, List.mem_filter] at hs
    exact h.extraCur s hs.1
  · intro s hs
    simp only [Want.removeData, List.mem_filter] at hs
    have := (givenSub_false_iff _ _).1 (h.extraNotGiven s hs.1)
    rw [givenSub_false_iff]
    intro d0 hd0 hm
    simp only [Want.removeData, List.mem_filter] at hm
    exact this d0 hd0 hm.1

/-! ### ghost rules: membership -/

theorem addSubset_given (w : Want) (s : Sub) : (w.addSubset s).given = w.given := by
  unfold Want.addSubset
  split
  · rfl
  · split <;> rfl

theorem mem_addSubset_hidden (w : Want) (s x : Sub) :
    x ∈ (w.addSubset s).hidden ↔ (x ∈ w.hidden ∧ ¬ (givenSub w s = true ∧ x = s)) := by
  unfold Want.addSubset
  by_cases hg : givenSub w s = true
  · simp [hg]
  · by_cases hc : s ∈ w.extra <;> simp [hg, hc]

theorem mem_addSubset_extra (w : Want) (s x : Sub) :
    x ∈ (w.addSubset s).extra ↔ (x ∈ w.extra ∨ (givenSub w s = false ∧ x = s)) := by
  unfold Want.addSubset
  by_cases hg : givenSub w s = true
  · simp [hg]
  · have hg' : givenSub w s = false := by simpa using hg
    by_cases hc : s ∈ w.extra
    · simp only [hg', Bool.false_eq_true, if_false, List.contains_eq_mem, hc, decide_true, if_true, true_and]
      constructor
      · intro h; exact Or.inl h
      · rintro (h | rfl) <;> assumption
    · simp [hg', hc]

theorem removeSubset_given (w : Want) (s : Sub) : (w.removeSubset s).given = w.given := by
  unfold Want.removeSubset
  split
  · split <;> rfl
  · rfl

theorem mem_removeSubset_hidden (w : Want) (s x : Sub) :
    x ∈ (w.removeSubset s).hidden ↔ (x ∈ w.hidden ∨ (givenSub w s = true ∧ x = s)) := by
  unfold Want.removeSubset
  by_cases hg : givenSub w s = true
  · by_cases hc : s ∈ w.hidden
    · simp only [hg, if_true, List.contains_eq_mem, hc, decide_true, true_and]
      constructor
      · intro h; exact Or.inl h
      · rintro (h | rfl) <;> assumption
    · simp [hg, hc]
  · simp [hg]

theorem mem_removeSubset_extra (w : Want) (s x : Sub) :
    x ∈ (w.removeSubset s).extra ↔ (x ∈ w.extra ∧ ¬ (givenSub w s = false ∧ x = s)) := by
  unfold Want.removeSubset
  by_cases hg : givenSub w s = true
  · by_cases hc : s ∈ w.hidden <;> simp [hg, hc]
  · have hg' : givenSub w s = false := by simpa using hg
    simp [hg']

theorem givenSub_congr {w w' : Want} (h : w'.given = w.given) (x : Sub) : givenSub w' x = givenSub w x := by
  unfold givenSub; rw [h]

theorem beq_layer_sub (s x : Sub) : ((Layer.sub x == Layer.sub s) = true) ↔ x = s := by simp

theorem inv_addSubset (v : VState) (h : VInv v) (d g : Nat) : VInv (step v (.addSubset d g)) := by
  have hc := colOk_of_inv h.col
  show VInv (match findSub v.col d g with
    | none => { v with err := false }
    | some s => { addSubsetH s { v with err := false } with want := v.want.addSubset s })
  cases hf : findSub v.col d g with
  | none => exact vinv_err h false
  | some s =>
    have hs := findSub_mem hf
    have hatt := attached_of_mem hc hs
    have e := eff_addSubsetH (good_upd h.good v.col v.want false) (idsOk_upd h.ids v.col v.want false) s
    have hgs := givenSub_congr (addSubset_given v.want s)
    have key := vinv_of_eff e (v.want.addSubset s) h.col ?_ ?_ ?_ ?_ ?_
    · exact key
    · intro L
      simp only [Bool.or_eq_true]
      cases L with
      | data d' =>
        rw [shown_data h, cur_data, wanted_data, addSubset_given]
        simp
      | sub x =>
        rw [shown_sub h, cur_sub, wanted_sub, beq_layer_sub, hgs, mem_addSubset_hidden, mem_addSubset_extra]
        by_cases hx : x = s
        · subst hx
          by_cases hg : givenSub v.want x = true
          · simp [hg, hatt]
          · have hg' : givenSub v.want x = false := by simpa using hg
            simp [hg', hatt]
        · simp [hx]
    · intro d' hd'; rw [addSubset_given] at hd'; exact h.givenCur d' hd'
    · intro x hx; rw [mem_addSubset_hidden] at hx; exact h.hiddenCur x hx.1
    · intro x hx
      rw [mem_addSubset_extra] at hx
      rcases hx with hx | ⟨_, rfl⟩
      · exact h.extraCur x hx
      · exact hatt
    · intro x hx
      rw [mem_addSubset_extra] at hx
      rw [hgs]
      rcases hx with hx | ⟨hg, rfl⟩
      · exact h.extraNotGiven x hx
      · exact hg

/-- taking one layer away from a viewer that shows it (`remove_subset`, `remove_layer`,
`state.layers.remove`), given that the handler's effect on the layers is "everything but `L0`". -/
theorem inv_remove_sub {v v' : VState} (h : VInv v) {s : Sub} (hatt : attached v.col.datasets v.col.dsubs s = true)
    (e : Eff { v with err := false } v' (fun L => hasLayer v.arts L && !(L == .sub s))) :
    VInv { v' with want := v.want.removeSubset s } := by
  have hgs := givenSub_congr (removeSubset_given v.want s)
  refine vinv_of_eff e (v.want.removeSubset s) h.col ?_ ?_ ?_ ?_ ?_
  · intro L
    simp only [Bool.and_eq_true, Bool.not_eq_true', beq_eq_false_iff_ne]
    cases L with
    | data d' =>
      rw [shown_data h, cur_data, wanted_data, removeSubset_given]
      simp
    | sub x =>
      rw [shown_sub h, cur_sub, wanted_sub, hgs, mem_removeSubset_hidden, mem_removeSubset_extra]
      by_cases hx : x = s
      · subst hx
        by_cases hg : givenSub v.want x = true
        · have : x ∉ v.want.extra := fun hm => by
            have := h.extraNotGiven x hm; rw [hg] at this; exact Bool.noConfusion this
          simp [hg, this]
        · have hg' : givenSub v.want x = false := by simpa using hg
          simp [hg']
      · have : Layer.sub x ≠ Layer.sub s := fun e => hx (Layer.sub.inj e)
        simp [hx, this]
  · intro d' hd'; rw [removeSubset_given] at hd'; exact h.givenCur d' hd'
  · intro x hx
    rw [mem_removeSubset_hidden] at hx
    rcases hx with hx | ⟨_, rfl⟩
    · exact h.hiddenCur x hx
    · exact hatt
  · intro x hx; rw [mem_removeSubset_extra] at hx; exact h.extraCur x hx.1
  · intro x hx
    rw [mem_removeSubset_extra] at hx
    rw [hgs]; exact h.extraNotGiven x hx.1

/-- nothing happens to the layers (the layer to remove is not shown) and the ghost is unchanged. -/
theorem inv_remove_absent {v v' : VState} (h : VInv v) {L0 : Layer} (hno : hasLayer v.arts L0 = false)
    (e : Eff { v with err := false } v' (fun L => hasLayer v.arts L && !(L == L0))) :
    VInv { v' with want := v.want } := by
  refine vinv_of_eff e v.want h.col ?_ h.givenCur h.hiddenCur h.extraCur h.extraNotGiven
  intro L
  rw [← h.shown L]
  simp only [Bool.and_eq_true, Bool.not_eq_true', beq_eq_false_iff_ne]
  constructor
  · exact fun hh => hh.1
  · intro hh; exact ⟨hh, fun e => by rw [e, hno] at hh; exact Bool.noConfusion hh⟩

theorem inv_removeSubset (v : VState) (h : VInv v) (d g : Nat) : VInv (step v (.removeSubset d g)) := by
  have hc := colOk_of_inv h.col
  show VInv (match findSub v.col d g with
    | none => { v with err := false }
    | some s =>
      { (if hasLayer v.arts (.sub s) then popLayer (.sub s) { v with err := false } else { v with err := false }) with
        want := v.want.removeSubset s })
  cases hf : findSub v.col d g with
  | none => exact vinv_err h false
  | some s =>
    have hatt := attached_of_mem hc (findSub_mem hf)
    have e := eff_popLayer (good_upd h.good v.col v.want false) (idsOk_upd h.ids v.col v.want false) (.sub s)
    by_cases hh : hasLayer v.arts (.sub s) = true
    · simp only [hh, if_true]
      exact inv_remove_sub h hatt e
    · have hf' : hasLayer v.arts (.sub s) = false := by simpa using hh
      simp only [hf']
      -- the layer is not shown: the handler does nothing; the ghost records the request
      have e0 : Eff { v with err := false } { v with err := false } (fun L => hasLayer v.arts L && !(L == .sub s)) := by
        refine ⟨good_upd h.good v.col v.want false, idsOk_upd h.ids v.col v.want false, SameRest.refl _, ?_⟩
        intro L
        by_cases hL : L = .sub s
        · subst hL; simp [hf']
        · simp [hL]
      exact inv_remove_sub h hatt e0

/-! ### removing the data layer alone -/

theorem mem_removeDataLayer_given (w : Want) (ds : Nat → List Sub) (d x : Nat) (hd : d ∈ w.given) :
    x ∈ (w.removeDataLayer ds d).given ↔ (x ∈ w.given ∧ x ≠ d) := by
  simp [Want.removeDataLayer, hd]

theorem mem_removeDataLayer_hidden (w : Want) (ds : Nat → List Sub) (d : Nat) (x : Sub) (hd : d ∈ w.given) :
    x ∈ (w.removeDataLayer ds d).hidden ↔ (x ∈ w.hidden ∧ x.data ≠ some d) := by
  simp [Want.removeDataLayer, hd]

theorem mem_removeDataLayer_extra (w : Want) (ds : Nat → List Sub) (d : Nat) (x : Sub) (hd : d ∈ w.given) :
    x ∈ (w.removeDataLayer ds d).extra ↔ (x ∈ w.extra ∨ (x ∈ ds d ∧ x ∉ w.hidden)) := by
  simp [Want.removeDataLayer, hd]

theorem inv_remove_data_layer {v v' : VState} (h : VInv v) {d : Nat} (hsh : hasLayer v.arts (.data d) = true)
    (e : Eff { v with err := false } v' (fun L => hasLayer v.arts L && !(L == .data d))) :
    VInv { v' with want := v.want.removeDataLayer v.col.dsubs d } := by
  have hc := colOk_of_inv h.col
  obtain ⟨hdD, hdG⟩ := (shown_data h d).1 hsh
  refine vinv_of_eff e _ h.col ?_ ?_ ?_ ?_ ?_
  · intro L
    simp only [Bool.and_eq_true, Bool.not_eq_true', beq_eq_false_iff_ne]
    cases L with
    | data d' =>
      rw [shown_data h, cur_data, wanted_data, mem_removeDataLayer_given _ _ _ _ hdG]
      constructor
      · rintro ⟨⟨h1, h2⟩, h3⟩; exact ⟨h1, h2, fun e => h3 (e ▸ rfl)⟩
      · rintro ⟨h1, h2, h3⟩; exact ⟨⟨h1, h2⟩, fun e => h3 (Layer.data.inj e)⟩
    | sub x =>
      rw [shown_sub h, cur_sub, wanted_sub, givenSub_iff, givenSub_iff,
        mem_removeDataLayer_hidden _ _ _ _ hdG, mem_removeDataLayer_extra _ _ _ _ hdG]
      have hne : Layer.sub x ≠ Layer.data d := fun e => Layer.noConfusion e
      simp only [ne_eq, hne, not_false_eq_true, and_true]
      constructor
      · rintro ⟨ha, hw⟩
        refine ⟨ha, ?_⟩
        rcases hw with ⟨⟨d0, hd0, hg0⟩, hh⟩ | hx
        · by_cases hdd : d0 = d
          · subst hdd
            right; right
            obtain ⟨d1, hd1, hx1⟩ := (attached_iff hc x).1 ha
            have := hc.subData d1 x hx1
            rw [hd0] at this
            have : d0 = d1 := Option.some.inj this
            subst this
            exact ⟨hx1, hh⟩
          · left
            refine ⟨⟨d0, hd0, ?_⟩, fun hm => hh hm.1⟩
            rw [mem_removeDataLayer_given _ _ _ _ hdG]; exact ⟨hg0, hdd⟩
        · right; left; exact hx
      · rintro ⟨ha, hw⟩
        refine ⟨ha, ?_⟩
        rcases hw with ⟨⟨d0, hd0, hg0⟩, hh⟩ | hx | ⟨hx1, hx2⟩
        · rw [mem_removeDataLayer_given _ _ _ _ hdG] at hg0
          left
          refine ⟨⟨d0, hd0, hg0.1⟩, fun hm => hh ⟨hm, ?_⟩⟩
          rw [hd0]; intro e; exact hg0.2 (Option.some.inj e)
        · right; exact hx
        · left
          exact ⟨⟨d, hc.subData d x hx1, hdG⟩, hx2⟩
  · intro d' hd'
    rw [mem_removeDataLayer_given _ _ _ _ hdG] at hd'
    exact h.givenCur d' hd'.1
  · intro x hx
    rw [mem_removeDataLayer_hidden _ _ _ _ hdG] at hx
    exact h.hiddenCur x hx.1
  · intro x hx
    rw [mem_removeDataLayer_extra _ _ _ _ hdG] at hx
    rcases hx with hx | ⟨hx, _⟩
    · exact h.extraCur x hx
    · exact attached_of_mem hc hx
  · intro x hx
    rw [mem_removeDataLayer_extra _ _ _ _ hdG] at hx
    rw [givenSub_false_iff]
    intro d0 hd0 hg0
    rw [mem_removeDataLayer_given _ _ _ _ hdG] at hg0
    rcases hx with hx | ⟨hx, _⟩
    · exact (givenSub_false_iff _ _).1 (h.extraNotGiven x hx) d0 hd0 hg0.1
    · have := hc.subData d x hx
      rw [hd0] at this
      exact hg0.2 (Option.some.inj this)

/-- `remove_layer` / `state.layers.remove`: common part. -/
theorem inv_remove_layer {v v' : VState} (h : VInv v) {d : Nat} {g : Option Nat} {L0 : Layer}
    (hL : layerOf v.col d g = some L0)
    (e : Eff { v with err := false } v' (fun L => hasLayer v.arts L && !(L == L0))) :
    VInv { v' with want := if hasLayer v.arts L0 then v.want.removeLayer v.col.dsubs L0 else v.want } := by
  have hc := colOk_of_inv h.col
  by_cases hh : hasLayer v.arts L0 = true
  · simp only [hh, if_true]
    cases g with
    | none =>
      simp only [layerOf, Option.some.injEq] at hL
      subst hL
      exact inv_remove_data_layer h hh e
    | some g =>
      simp only [layerOf, Option.map_eq_some_iff] at hL
      obtain ⟨s, hf, rfl⟩ := hL
      exact inv_remove_sub h (attached_of_mem hc (findSub_mem hf)) e
  · have hf : hasLayer v.arts L0 = false := by simpa using hh
    simp only [hf]
    exact inv_remove_absent h hf e

theorem inv_removeLayer (v : VState) (h : VInv v) (d : Nat) (g : Option Nat) : VInv (step v (.removeLayer d g)) := by
  show VInv (match layerOf v.col d g with
    | none => { v with err := false }
    | some L => { popLayer L { v with err := false } with
        want := if hasLayer v.arts L then v.want.removeLayer v.col.dsubs L else v.want })
  cases hL : layerOf v.col d g with
  | none => exact vinv_err h false
  | some L =>
    have e := eff_popLayer (good_upd h.good v.col v.want false) (idsOk_upd h.ids v.col v.want false) L
    exact inv_remove_layer h hL e

theorem inv_popState (v : VState) (h : VInv v) (d : Nat) (g : Option Nat) : VInv (step v (.popState d g)) := by
  show VInv (match layerOf v.col d g with
    | none => { v with err := false }
    | some L => { popState L { v with err := false } with
        want := if hasLayer v.slayers L then v.want.removeLayer v.col.dsubs L else v.want })
  cases hL : layerOf v.col d g with
  | none => exact vinv_err h false
  | some L =>
    have e := eff_popState (good_upd h.good v.col v.want false) (idsOk_upd h.ids v.col v.want false) L
    have hsl : hasLayer v.slayers L = hasLayer v.arts L := by rw [h.good.synced]
    simp only [hsl]
    exact inv_remove_layer h hL e

end GlueVerif.Lemmas.C18Viewer
