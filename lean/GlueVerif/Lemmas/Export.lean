import GlueVerif.Model.Export
/-!
Helper lemmas for C19 (`Model/Export.lean`): masks, the export plan, text reading, `autotyped`,
and the per-column round trip.  Core Lean only.
-/
namespace GlueVerif.Export.Lemmas
open GlueVerif.Export

/-! ## masks -/

theorem selectRows_nil_left {α : Type} (xs : List α) : selectRows [] xs = [] := by
  cases xs <;> rfl

theorem selectRows_nil_right {α : Type} (m : List Bool) : selectRows m ([] : List α) = [] := by
  cases m with
  | nil => rfl
  | cons b m => cases b <;> rfl

theorem selectRows_eq_filter {α : Type} (m : List Bool) (xs : List α) :
    selectRows m xs = ((m.zip xs).filter (·.1)).map (·.2) := by
  induction m generalizing xs with
  | nil => simp [selectRows_nil_left]
  | cons b m ih =>
    cases xs with
    | nil => simp [selectRows_nil_right]
    | cons x xs => cases b <;> simp [selectRows, ih]

theorem selectRows_length {α : Type} (m : List Bool) (xs : List α) (h : m.length = xs.length) :
    (selectRows m xs).length = countTrue m := by
  induction m generalizing xs with
  | nil => simp [selectRows_nil_left, countTrue]
  | cons b m ih =>
    cases xs with
    | nil => simp at h
    | cons x xs =>
      simp only [List.length_cons, Nat.add_right_cancel_iff] at h
      cases b <;> simp [selectRows, countTrue, ih xs h] <;> simp [countTrue] at * 

theorem selectRows_map {α β : Type} (f : α → β) (m : List Bool) (xs : List α) :
    selectRows m (xs.map f) = (selectRows m xs).map f := by
  induction m generalizing xs with
  | nil => simp [selectRows_nil_left]
  | cons b m ih =>
    cases xs with
    | nil => simp [selectRows_nil_right]
    | cons x xs => cases b <;> simp [selectRows, ih]

theorem mem_selectRows {α : Type} (m : List Bool) (xs : List α) (x : α) (h : x ∈ selectRows m xs) :
    x ∈ xs := by
  induction m generalizing xs with
  | nil => simp [selectRows_nil_left] at h
  | cons b m ih =>
    cases xs with
    | nil => simp [selectRows_nil_right] at h
    | cons y ys =>
      cases b
      · simp only [selectRows] at h
        exact List.mem_cons_of_mem _ (ih ys h)
      · simp only [selectRows, List.mem_cons] at h
        rcases h with rfl | h
        · exact List.mem_cons_self
        · exact List.mem_cons_of_mem _ (ih ys h)

theorem fillMask_length {α : Type} (f : α) (m : List Bool) (xs : List α) (h : m.length = xs.length) :
    (fillMask f m xs).length = xs.length := by
  induction m generalizing xs with
  | nil => cases xs <;> simp_all [fillMask]
  | cons b m ih =>
    cases xs with
    | nil => simp at h
    | cons x xs =>
      simp only [List.length_cons, Nat.add_right_cancel_iff] at h
      simp [fillMask, ih xs h]

theorem fillMask_getElem {α : Type} (f : α) (m : List Bool) (xs : List α) (h : m.length = xs.length)
    (i : Nat) (hi : i < xs.length) :
    (fillMask f m xs)[i]'(by rw [fillMask_length f m xs h]; exact hi) =
      if m[i]'(by omega) then xs[i] else f := by
  induction m generalizing xs i with
  | nil =>
    cases xs with
    | nil => simp at hi
    | cons x xs => simp at h
  | cons b m ih =>
    cases xs with
    | nil => simp at hi
    | cons x xs =>
      simp only [List.length_cons, Nat.add_right_cancel_iff] at h
      cases i with
      | zero => simp [fillMask]
      | succ i =>
        simp only [List.length_cons, Nat.add_lt_add_iff_right] at hi
        simp [fillMask, ih xs h i hi]

theorem mem_fillMask {α : Type} (f : α) (m : List Bool) (xs : List α) (x : α)
    (h : x ∈ fillMask f m xs) : x = f ∨ x ∈ xs := by
  induction m generalizing xs with
  | nil => cases xs <;> simp [fillMask] at h
  | cons b m ih =>
    cases xs with
    | nil => simp [fillMask] at h
    | cons y ys =>
      simp only [fillMask, List.mem_cons] at h
      rcases h with h | h
      · cases b <;> simp_all
      · rcases ih ys h with h | h
        · exact Or.inl h
        · exact Or.inr (List.mem_cons_of_mem _ h)


/-! ## text reading and `autotyped` -/

theorem isAlpha_facts (c : Nat) (h : isAlpha c = true) :
    isDigit c = false ∧ c ≠ 45 ∧ c ≠ 43 ∧ c < 128 := by
  simp only [isAlpha, isDigit, Bool.or_eq_true, Bool.and_eq_true, decide_eq_true_eq,
    Bool.and_eq_false_iff, decide_eq_false_iff_not] at *
  omega

theorem parseNum_none_of_alpha (c : Nat) (cs : Str) (h : isAlpha c = true) :
    parseNum (c :: cs) = none := by
  obtain ⟨hd, h45, h43, _⟩ := isAlpha_facts c h
  have h1 : ((some c : Option Nat) == some 45) = false := by simp [h45]
  have h2 : ((some c : Option Nat) == some 43) = false := by simp [h43]
  simp [parseNum, h1, h2, hd]

theorem parseNum_nil : parseNum [] = none := by decide

/-- a text cell that does not read as a finite number -/
def nonNumericCell : Cell → Bool
  | .str s => (parseNum s).isNone
  | _ => false

/-- a text cell that reads as a finite number -/
def numericCell : Cell → Bool
  | .str s => (parseNum s).isSome
  | _ => false

theorem finiteCount_eq_zero (cells : List Cell) (h : ∀ c ∈ cells, nonNumericCell c = true) :
    finiteCount cells = 0 := by
  unfold finiteCount
  rw [List.countP_eq_zero]
  intro c hc
  have := h c hc
  cases c with
  | str s => simp only [nonNumericCell, Option.isNone_iff_eq_none] at this; simp [this]
  | nan => simp
  | num q => simp

theorem finiteCount_eq_length (cells : List Cell) (h : ∀ c ∈ cells, numericCell c = true) :
    finiteCount cells = cells.length := by
  unfold finiteCount
  rw [List.countP_eq_length]
  intro c hc
  have := h c hc
  cases c with
  | str s => simpa [numericCell] using this
  | nan => simp [numericCell] at this
  | num q => simp [numericCell] at this

theorem finiteCount_le (cells : List Cell) : finiteCount cells ≤ cells.length := by
  unfold finiteCount; exact List.countP_le_length

theorem autotyped_name (n : Str) (k : Kind) (cells : List Cell) : (autotyped n k cells).name = n := by
  unfold autotyped
  cases k <;> simp only []
  split <;> rfl

/-- Columns that the quantifier admits keep their values, and (when they have rows) their kind. -/
theorem autotyped_stable_aux (n : Str) (k : Kind) (cells : List Cell)
    (h : k = .str → ∀ c ∈ cells, nonNumericCell c = true) :
    (autotyped n k cells).cells = cells ∧
    (cells ≠ [] → (autotyped n k cells).cat = decide (k = .str)) := by
  cases k with
  | float => simp [autotyped]
  | int b => simp [autotyped]
  | uint b => simp [autotyped]
  | str =>
    have h0 := finiteCount_eq_zero cells (h rfl)
    by_cases hc : cells = []
    · subst hc; simp [autotyped]
    · have hl : cells.length ≠ 0 := by simpa using hc
      simp [autotyped, h0, hl, hc]


/-! ## cells admitted by the quantifier -/

theorem cellFits_str (fmt : Format) (x : Cell) (h : cellFits fmt .str x = true) :
    ∃ c cs, x = .str (c :: cs) ∧ isAlpha c = true := by
  cases x with
  | nan => simp [cellFits] at h
  | num q => simp [cellFits] at h
  | str s =>
    cases s with
    | nil => simp [cellFits, clearText] at h
    | cons c cs =>
      simp only [cellFits, clearText, Bool.and_eq_true] at h
      exact ⟨c, cs, rfl, h.2.1.1.1⟩

theorem cellFits_nonstr (fmt : Format) (k : Kind) (x : Cell) (hk : k ≠ .str)
    (h : cellFits fmt k x = true) : encodeCell x = x ∧ nonNumericCell x = false := by
  cases x with
  | nan => simp [encodeCell, nonNumericCell]
  | num q => simp [encodeCell, nonNumericCell]
  | str s => simp [cellFits, hk] at h

theorem asciiReplace_cons_alpha (c : Nat) (cs : Str) (h : isAlpha c = true) :
    asciiReplace (c :: cs) = c :: asciiReplace cs := by
  have := (isAlpha_facts c h).2.2.2
  simp [asciiReplace, this]

theorem nonNumeric_of_fits (fmt : Format) (x : Cell) (h : cellFits fmt .str x = true) :
    nonNumericCell x = true ∧ nonNumericCell (encodeCell x) = true := by
  obtain ⟨c, cs, rfl, hc⟩ := cellFits_str fmt x h
  constructor
  · simp [nonNumericCell, parseNum_none_of_alpha c cs hc]
  · simp [encodeCell, nonNumericCell, asciiReplace_cons_alpha c cs hc, parseNum_none_of_alpha c _ hc]


/-! ## the FITS BLANK mechanism and float64 promotion -/

theorem rat_of_den_one (q : Rat) (h : q.den = 1) : ((q.num : Int) : Rat) = q := by
  apply Rat.ext <;> simp [h]

theorem roundF64_small (v : Int) (h : v.natAbs ≤ 2 ^ 53) : roundF64 v = v := by
  simp [roundF64, h]

theorem toF64_safe (k : Kind) (x : Cell) (hk : k ≠ .float ∧ k ≠ .str) (h : blankSafe k x = true) : toF64 x = x := by
  cases x with
  | nan => rfl
  | str s => rfl
  | num q =>
    have hq : q.num.natAbs ≤ 2 ^ 53 := by
      cases k with
      | float => exact absurd rfl hk.1
      | str => exact absurd rfl hk.2
      | int b => simp [blankSafe] at h; exact h.2
      | uint b => simpa [blankSafe] using h
    simp only [toF64]
    split
    · next hd => rw [roundF64_small _ hq, rat_of_den_one q hd]
    · rfl

theorem blank_roundtrip (b : Nat) (m : List Bool) (cells : List Cell)
    (hs : selectedAll (blankSafe (.int b)) m cells = true) :
    (fillMask (.num (intMin b)) m cells).map
      (fun x => if x = .num ((intMin b : Int) : Rat) then Cell.nan else toF64 x) = fillMask .nan m cells := by
  induction m generalizing cells with
  | nil => cases cells <;> simp [fillMask]
  | cons bb m ih =>
    cases cells with
    | nil => simp [fillMask]
    | cons x xs =>
      simp only [selectedAll, Bool.and_eq_true, Bool.or_eq_true, Bool.not_eq_true'] at hs
      simp only [fillMask, List.map_cons, ih xs hs.2, List.cons.injEq, and_true]
      cases bb with
      | false => simp
      | true =>
        have hx : blankSafe (.int b) x = true := by simpa using hs.1
        simp only [if_true]
        have hne : x ≠ .num ((intMin b : Int) : Rat) := by
          intro he; subst he
          simp [blankSafe] at hx
        rw [if_neg hne]
        exact toF64_safe (.int b) x ⟨by simp, by simp⟩ hx

theorem uint_roundtrip (b : Nat) (m : List Bool) (cells : List Cell)
    (hs : selectedAll (blankSafe (.uint b)) m cells = true) :
    fillMask .nan m (cells.map toF64) = fillMask .nan m cells := by
  induction m generalizing cells with
  | nil => cases cells <;> simp [fillMask]
  | cons bb m ih =>
    cases cells with
    | nil => simp [fillMask]
    | cons x xs =>
      simp only [selectedAll, Bool.and_eq_true, Bool.or_eq_true, Bool.not_eq_true'] at hs
      simp only [List.map_cons, fillMask, ih xs hs.2, List.cons.injEq, and_true]
      cases bb with
      | false => simp
      | true =>
        have hx : blankSafe (.uint b) x = true := by simpa using hs.1
        simp [toF64_safe (.uint b) x ⟨by simp, by simp⟩ hx]


/-! ## one column through its writer -/

/-- the per-column writer of each format -/
def writeCol (fmt : Format) (d : Dataset) (sel : Option (List Bool)) (c : Column) : FCol :=
  match fmt with
  | .hdf5 => hdf5Col d sel c
  | .fitsImage => fitsImageCol d sel c
  | _ => tableCol d sel c

/-- what the quantifier says about one exported column -/
structure ColOk (fmt : Format) (d : Dataset) (sel : Option (List Bool)) (c : Column) : Prop where
  len : c.cells.length = prod d.shape
  fits : ∀ x ∈ c.cells, cellFits fmt c.kind x = true
  mlen : ∀ m, sel = some m → m.length = prod d.shape
  car : carried fmt c = true
  oned : fmt ≠ .hdf5 → fmt ≠ .fitsImage → d.shape.length = 1
  blank : ∀ m, sel = some m → fmt = .fitsImage → selectedAll (blankSafe c.kind) m c.cells = true

/-- what has to be shown about one written column -/
structure ColSpec (fmt : Format) (d : Dataset) (sel : Option (List Bool)) (c : Column) (w : FCol) : Prop where
  name : w.name = c.name
  shape : w.shape = (expCol fmt d sel c).shape
  cells : valueRepr w = (expCol fmt d sel c).cells
  kind : kindRepr w = .str ↔ c.kind = .str
  text : c.kind = .str → ∀ x ∈ valueRepr w, nonNumericCell x = true

theorem text_cells {fmt : Format} {c : Column} (hf : ∀ x ∈ c.cells, cellFits fmt c.kind x = true)
    (hk : c.kind = .str) : ∀ x ∈ c.cells, nonNumericCell x = true ∧ nonNumericCell (encodeCell x) = true := by
  intro x hx
  have := hf x hx
  rw [hk] at this
  exact nonNumeric_of_fits fmt x this

theorem encode_id {fmt : Format} {c : Column} (hf : ∀ x ∈ c.cells, cellFits fmt c.kind x = true)
    (hk : c.kind ≠ .str) : c.cells.map encodeCell = c.cells := by
  conv => rhs; rw [← List.map_id c.cells]
  apply List.map_congr_left
  intro x hx
  exact (cellFits_nonstr fmt c.kind x hk (hf x hx)).1

theorem tableCol_spec {fmt : Format} {d : Dataset} {sel : Option (List Bool)} {c : Column}
    (h : ColOk fmt d sel c) (h1 : fmt ≠ .hdf5) (h2 : fmt ≠ .fitsImage) :
    ColSpec fmt d sel c (tableCol d sel c) := by
  have hrow : rowMode fmt d = true := by simp [rowMode, h.oned h1 h2, h2]
  cases sel with
  | none =>
    refine ⟨rfl, rfl, ?_, ?_, ?_⟩
    · simp [tableCol, valueRepr, expCol, h1]
    · simp [tableCol, kindRepr]
    · intro hk x hx
      exact (text_cells h.fits hk x (by simpa [tableCol, valueRepr] using hx)).1
  | some m =>
    have hml : m.length = c.cells.length := by rw [h.mlen m rfl, h.len]
    refine ⟨rfl, ?_, ?_, ?_, ?_⟩
    · simp [tableCol, expCol, hrow, h1, selectRows_length m c.cells hml]
    · simp [tableCol, valueRepr, expCol, hrow, h1]
    · simp [tableCol, kindRepr]
    · intro hk x hx
      have hx' : x ∈ selectRows m c.cells := by simpa [tableCol, valueRepr] using hx
      exact (text_cells h.fits hk x (mem_selectRows m c.cells x hx')).1


theorem hdf5Col_spec {d : Dataset} {sel : Option (List Bool)} {c : Column}
    (h : ColOk .hdf5 d sel c) : ColSpec .hdf5 d sel c (hdf5Col d sel c) := by
  -- the cells the writer starts from are the encoded cells in every case
  have henc : (if c.kind = .str then c.cells.map encodeCell else c.cells) = c.cells.map encodeCell := by
    by_cases hk : c.kind = .str
    · simp [hk]
    · simp [hk, encode_id h.fits hk]
  have htext : c.kind = .str → ∀ x ∈ c.cells.map encodeCell, nonNumericCell x = true := by
    intro hk x hx
    obtain ⟨y, hy, rfl⟩ := List.mem_map.1 hx
    exact (text_cells h.fits hk y hy).2
  cases sel with
  | none =>
    refine ⟨rfl, rfl, ?_, ?_, ?_⟩
    · simp [hdf5Col, valueRepr, expCol, henc]
    · simp [hdf5Col, kindRepr]
    · intro hk x hx
      exact htext hk x (by simpa [hdf5Col, valueRepr, henc] using hx)
  | some m =>
    have hml : m.length = (c.cells.map encodeCell).length := by
      rw [List.length_map, h.mlen m rfl, h.len]
    by_cases h1 : d.shape.length = 1
    · have hrow : rowMode .hdf5 d = true := by simp [rowMode, h1]
      refine ⟨?_, ?_, ?_, ?_, ?_⟩
      · simp [hdf5Col, h1]
      · simp [hdf5Col, h1, expCol, hrow, henc, selectRows_length m _ hml]
      · simp [hdf5Col, h1, valueRepr, expCol, hrow, henc]
      · simp [hdf5Col, h1, kindRepr]
      · intro hk x hx
        have hx' : x ∈ selectRows m (c.cells.map encodeCell) := by
          simpa [hdf5Col, h1, valueRepr, henc] using hx
        exact htext hk x (mem_selectRows m _ x hx')
    · have hrow : rowMode .hdf5 d = false := by simp [rowMode, h1]
      cases hk : c.kind with
      | float =>
        have hid := encode_id h.fits (by rw [hk]; simp)
        refine ⟨?_, ?_, ?_, ?_, ?_⟩ <;>
          simp [hdf5Col, h1, hk, valueRepr, kindRepr, expCol, hrow, fillOf, hid]
      | int b =>
        have hid := encode_id h.fits (by rw [hk]; simp)
        refine ⟨?_, ?_, ?_, ?_, ?_⟩ <;>
          simp [hdf5Col, h1, hk, valueRepr, kindRepr, expCol, hrow, fillOf, hid]
      | uint b =>
        have hid := encode_id h.fits (by rw [hk]; simp)
        refine ⟨?_, ?_, ?_, ?_, ?_⟩ <;>
          simp [hdf5Col, h1, hk, valueRepr, kindRepr, expCol, hrow, fillOf, hid]
      | str =>
        refine ⟨?_, ?_, ?_, ?_, ?_⟩
        · simp [hdf5Col, h1, hk]
        · simp [hdf5Col, h1, hk, expCol, hrow]
        · simp [hdf5Col, h1, hk, valueRepr, expCol, hrow, fillOf]
        · simp [hdf5Col, h1, hk, kindRepr]
        · intro _ x hx
          have hx' : x ∈ fillMask (.str []) m (c.cells.map encodeCell) := by
            simpa [hdf5Col, h1, hk, valueRepr] using hx
          rcases mem_fillMask _ m _ x hx' with rfl | hx''
          · simp [nonNumericCell, parseNum_nil]
          · exact htext hk x hx''

theorem fitsImageCol_spec {d : Dataset} {sel : Option (List Bool)} {c : Column}
    (h : ColOk .fitsImage d sel c) : ColSpec .fitsImage d sel c (fitsImageCol d sel c) := by
  have hnum : c.kind ≠ .str := by
    intro hk
    have := h.car
    simp [carried, hk, Kind.numerical] at this
  have hrow : rowMode .fitsImage d = false := by simp [rowMode]
  cases sel with
  | none =>
    refine ⟨rfl, rfl, ?_, ?_, ?_⟩
    · simp [fitsImageCol, valueRepr, expCol]
    · simp [fitsImageCol, kindRepr]
    · intro hk; exact absurd hk hnum
  | some m =>
    have hb := h.blank m rfl rfl
    cases hk : c.kind with
    | str => exact absurd hk hnum
    | float =>
      refine ⟨?_, ?_, ?_, ?_, ?_⟩ <;>
        simp [fitsImageCol, hk, valueRepr, kindRepr, expCol, hrow, fillOf]
    | int b =>
      rw [hk] at hb
      refine ⟨?_, ?_, ?_, ?_, ?_⟩
      · simp [fitsImageCol, hk]
      · simp [fitsImageCol, hk, expCol, hrow]
      · simp only [fitsImageCol, hk, valueRepr, expCol, hrow, fillOf]
        simpa using blank_roundtrip b m c.cells hb
      · simp [fitsImageCol, hk, kindRepr]
      · intro hk'; rw [hk] at hk'; cases hk'
    | uint b =>
      rw [hk] at hb
      refine ⟨?_, ?_, ?_, ?_, ?_⟩
      · simp [fitsImageCol, hk]
      · simp [fitsImageCol, hk, expCol, hrow]
      · simp only [fitsImageCol, hk, valueRepr, expCol, hrow, fillOf]
        simpa using uint_roundtrip b m c.cells hb
      · simp [fitsImageCol, hk, kindRepr]
      · intro hk'; rw [hk] at hk'; cases hk'

theorem writeCol_spec {fmt : Format} {d : Dataset} {sel : Option (List Bool)} {c : Column}
    (h : ColOk fmt d sel c) : ColSpec fmt d sel c (writeCol fmt d sel c) := by
  cases fmt with
  | hdf5 => exact hdf5Col_spec h
  | fitsImage => exact fitsImageCol_spec h
  | csv => exact tableCol_spec h (by simp) (by simp)
  | ipac => exact tableCol_spec h (by simp) (by simp)
  | latex => exact tableCol_spec h (by simp) (by simp)
  | votable => exact tableCol_spec h (by simp) (by simp)
  | fitsTable => exact tableCol_spec h (by simp) (by simp)


/-! ## reading one column back -/

theorem expCol_name (fmt : Format) (d : Dataset) (sel : Option (List Bool)) (c : Column) :
    (expCol fmt d sel c).name = nameRepr fmt c.name := by
  unfold expCol
  cases sel with
  | none => rfl
  | some m => simp only []; split <;> rfl

theorem expCol_cat (fmt : Format) (d : Dataset) (sel : Option (List Bool)) (c : Column) :
    (expCol fmt d sel c).cat = decide (c.kind = .str) := by
  unfold expCol
  cases sel with
  | none => rfl
  | some m => simp only []; split <;> rfl

/-- the shape every exported component is expected to come back with -/
def expShape (fmt : Format) (d : Dataset) (sel : Option (List Bool)) : List Nat :=
  match sel with
  | none => d.shape
  | some m => if rowMode fmt d then [countTrue m] else d.shape

theorem expCol_shape (fmt : Format) (d : Dataset) (sel : Option (List Bool)) (c : Column) :
    (expCol fmt d sel c).shape = expShape fmt d sel := by
  unfold expCol expShape
  cases sel with
  | none => rfl
  | some m => simp only []; split <;> rfl

theorem filled_of_some (r : RCol) (l : List Cell) (h : r.cells = l.map some) : filled r = l := by
  simp [filled, h, maskedFill, List.map_map, Function.comp_def]

theorem unmasked_of_some (r : RCol) (l : List Cell) (h : r.cells = l.map some) : unmasked r = l := by
  simp [unmasked, h, List.map_map, Function.comp_def]

theorem read_ok {fmt : Format} {d : Dataset} {sel : Option (List Bool)} {c : Column} {w : FCol} {r : RCol}
    (hs : ColSpec fmt d sel c w) (hf : faithful fmt w r = true) (cells : List Cell)
    (hcells : cells = valueRepr w) :
    compOk (expCol fmt d sel c) (expShape fmt d sel, autotyped r.name r.kind cells) = true := by
  simp only [faithful, Bool.and_eq_true, beq_iff_eq, Bool.or_eq_true] at hf
  obtain ⟨⟨⟨hname, _hshape⟩, hrc⟩, hkind⟩ := hf
  have htxt : r.kind = .str → ∀ x ∈ cells, nonNumericCell x = true := by
    intro hk x hx
    rcases hkind with he | hk2
    · -- no rows at all
      have : valueRepr w = [] := by
        have : (valueRepr w).map some = [] := by rw [← hrc]; simpa using he
        simpa using this
      rw [hcells, this] at hx; simp at hx
    · have : kindRepr w = .str := by simpa [hk] using hk2
      exact hs.text (hs.kind.1 this) x (hcells ▸ hx)
  obtain ⟨hc, hcat⟩ := autotyped_stable_aux r.name r.kind cells htxt
  simp only [compOk, Bool.and_eq_true, beq_iff_eq, Bool.or_eq_true]
  refine ⟨⟨⟨?_, ?_⟩, ?_⟩, ?_⟩
  · rw [autotyped_name, hname, hs.name, expCol_name]
  · rw [expCol_shape]
  · rw [hc, hcells, hs.cells]
  · by_cases he : (expCol fmt d sel c).cells = []
    · left; simp [he]
    · right
      have hne : cells ≠ [] := by rw [hcells, hs.cells]; exact he
      rw [hcat hne, expCol_cat]
      rcases hkind with he' | hk2
      · exfalso
        have : (valueRepr w).map some = [] := by rw [← hrc]; simpa using he'
        have : valueRepr w = [] := by simpa using this
        exact hne (hcells ▸ this)
      · have : (r.kind = .str) ↔ (c.kind = .str) := by
          rw [← hs.kind]
          constructor
          · intro h; simpa [h] using hk2
          · intro h; simpa [h] using hk2
        simp [this]


/-! ## lists of columns -/

theorem allPairs_map_map {ι α β γ δ : Type} (R : α → β → Bool) (Q : γ → δ → Bool)
    (f : ι → α) (e : ι → γ) (g : β → δ) (l : List ι) (rs : List β)
    (hR : allPairs R (l.map f) rs = true)
    (hstep : ∀ c ∈ l, ∀ r ∈ rs, R (f c) r = true → Q (e c) (g r) = true) :
    allPairs Q (l.map e) (rs.map g) = true := by
  induction l generalizing rs with
  | nil => cases rs <;> simp_all [allPairs]
  | cons c l ih =>
    cases rs with
    | nil => simp [allPairs] at hR
    | cons r rs =>
      simp only [List.map_cons, allPairs, Bool.and_eq_true] at hR ⊢
      refine ⟨hstep c List.mem_cons_self r List.mem_cons_self hR.1, ih rs hR.2 ?_⟩
      intro c' hc' r' hr'
      exact hstep c' (List.mem_cons_of_mem _ hc') r' (List.mem_cons_of_mem _ hr')

theorem allPairs_right_mem {α β : Type} (R : α → β → Bool) (as : List α) (bs : List β)
    (h : allPairs R as bs = true) : ∀ b ∈ bs, ∃ a ∈ as, R a b = true := by
  induction as generalizing bs with
  | nil => cases bs <;> simp_all [allPairs]
  | cons a as ih =>
    cases bs with
    | nil => simp
    | cons b bs =>
      simp only [allPairs, Bool.and_eq_true] at h
      intro b' hb'
      rcases List.mem_cons.1 hb' with rfl | hb'
      · exact ⟨a, List.mem_cons_self, h.1⟩
      · obtain ⟨a', ha', hr⟩ := ih bs h.2 b' hb'
        exact ⟨a', List.mem_cons_of_mem _ ha', hr⟩

theorem allPairs_length {α β : Type} (R : α → β → Bool) (as : List α) (bs : List β)
    (h : allPairs R as bs = true) : as.length = bs.length := by
  induction as generalizing bs with
  | nil => cases bs <;> simp_all [allPairs]
  | cons a as ih =>
    cases bs with
    | nil => simp [allPairs] at h
    | cons b bs =>
      simp only [allPairs, Bool.and_eq_true] at h
      simp [ih bs h.2]

/-! ## the export plan -/

theorem mem_plan (d : Dataset) (comps : Option (List Nat)) (c : Column) (h : c ∈ plan d comps) :
    c ∈ d.cols := by
  simp only [plan, List.mem_map, List.mem_filter, List.mem_append] at h
  obtain ⟨p, ⟨hp, _⟩, rfl⟩ := h
  rcases hp with ⟨hp, _⟩ | ⟨hp, _⟩ <;>
  · obtain ⟨a, i⟩ := p
    exact (List.mem_zipIdx hp).2.2 ▸ List.getElem_mem _

theorem filter_const_true {α : Type} (l : List α) : l.filter (fun _ => true) = l := by
  induction l with
  | nil => rfl
  | cons a l ih => simp

theorem exportFile_eq (fmt : Format) (d : Dataset) (sel : Option (List Bool)) (comps : Option (List Nat)) :
    exportFile fmt d sel comps = ((plan d comps).filter (carried fmt)).map (writeCol fmt d sel) := by
  have hc : ∀ f : Format, f ≠ .fitsImage → carried f = fun _ => true := by
    intro f hf; funext c; simp [carried, hf]
  have hi : carried .fitsImage = fun c => c.kind.numerical := by
    funext c; simp [carried]
  cases fmt
  case fitsImage => rw [hi]; rfl
  case csv => rw [hc .csv (by simp), filter_const_true]; rfl
  case ipac => rw [hc .ipac (by simp), filter_const_true]; rfl
  case latex => rw [hc .latex (by simp), filter_const_true]; rfl
  case votable => rw [hc .votable (by simp), filter_const_true]; rfl
  case fitsTable => rw [hc .fitsTable (by simp), filter_const_true]; rfl
  case hdf5 => rw [hc .hdf5 (by simp), filter_const_true]; rfl


/-! ## unpacking the quantifier -/

structure DomFacts (fmt : Format) (d : Dataset) (sel : Option (List Bool)) (comps : Option (List Nat)) : Prop where
  npos : 0 < prod d.shape
  cols : ∀ c ∈ d.cols, c.cells.length = prod d.shape ∧ ∀ x ∈ c.cells, cellFits fmt c.kind x = true
  mlen : ∀ m, sel = some m → m.length = prod d.shape
  plne : (plan d comps).filter (carried fmt) ≠ []
  oned : fmt ≠ .hdf5 → fmt ≠ .fitsImage → d.shape.length = 1
  latex : fmt = .latex → ∀ m, sel = some m → 0 < countTrue m
  blank : ∀ m, sel = some m → fmt = .fitsImage →
    ∀ c ∈ (plan d comps).filter (carried fmt), selectedAll (blankSafe c.kind) m c.cells = true

theorem domFacts {fmt : Format} {d : Dataset} {sel : Option (List Bool)} {comps : Option (List Nat)}
    (h : inDomain fmt d sel comps = true) : DomFacts fmt d sel comps := by
  simp only [inDomain, inQuantifier, Bool.and_eq_true, decide_eq_true_eq, Bool.not_eq_true',
    List.all_eq_true, beq_iff_eq, Bool.or_eq_true, List.isEmpty_eq_false_iff] at h
  obtain ⟨⟨⟨⟨⟨⟨⟨⟨hn, _⟩, hcols⟩, _⟩, hm⟩, hpl⟩, h1⟩, hlx⟩, hbl⟩ := h
  refine ⟨hn, ?_, ?_, hpl, ?_, ?_, ?_⟩
  · intro c hc
    have := hcols c hc
    exact ⟨this.1.1.1, this.1.2⟩
  · intro m hs; subst hs; simpa using hm
  · intro h5 hi
    rcases h1 with (h1 | h1) | h1
    · exact absurd h1 h5
    · exact absurd h1 hi
    · exact h1
  · intro hl m hs; subst hs; subst hl
    simpa using hlx
  · intro m hs hf c hc; subst hs; subst hf
    simp only [blankClause, Bool.or_eq_true, List.all_eq_true] at hbl
    rcases hbl with hbl | hbl
    · simp at hbl
    · exact hbl c hc

theorem domain_col {fmt : Format} {d : Dataset} {sel : Option (List Bool)} {comps : Option (List Nat)}
    (h : DomFacts fmt d sel comps) (c : Column) (hc : c ∈ (plan d comps).filter (carried fmt)) :
    ColOk fmt d sel c := by
  have hmem := List.mem_filter.1 hc
  have hd := h.cols c (mem_plan d comps c hmem.1)
  exact ⟨hd.1, hd.2, h.mlen, hmem.2, h.oned, fun m hs hf => h.blank m hs hf c hc⟩


/-! ## the guards of `roundTripVia` -/

theorem cellAscii_of_fits (k : Kind) (x : Cell) (h : cellFits .fitsTable k x = true) :
    cellAscii x = true := by
  cases x with
  | nan => rfl
  | num q => rfl
  | str s =>
    simp only [cellFits, clearText, Bool.and_eq_true, List.all_eq_true] at h
    simp only [cellAscii, List.all_eq_true, decide_eq_true_eq]
    intro c hc
    have := h.2.2 c hc
    simp only [safeChar, Bool.and_eq_true, decide_eq_true_eq] at this
    omega

theorem tableCol_cells_mem (d : Dataset) (sel : Option (List Bool)) (c : Column) (x : Cell)
    (h : x ∈ (tableCol d sel c).cells) : x ∈ c.cells := by
  cases sel with
  | none => exact h
  | some m => exact mem_selectRows m c.cells x h

theorem tableCol_cells_length {fmt : Format} {d : Dataset} {sel : Option (List Bool)} {c : Column}
    (h : ColOk fmt d sel c) :
    (tableCol d sel c).cells.length = match sel with | none => prod d.shape | some m => countTrue m := by
  cases sel with
  | none => exact h.len
  | some m =>
    simp only [tableCol]
    exact selectRows_length m c.cells (by rw [h.mlen m rfl, h.len])


/-! ## the loaders as maps -/

/-- the component a loader builds from one read column -/
def loadComp (fmt : Format) (r : RCol) : LComp :=
  autotyped r.name r.kind (if fmt.ascii || fmt = .votable then filled r else unmasked r)

theorem flatten_single (sh : List Nat) (cs : List LComp) :
    flatten [⟨sh, cs⟩] = cs.map fun c => (sh, c) := by
  simp [flatten]

theorem flatten_images (l : List RCol) (f : RCol → LComp) :
    flatten (l.map fun c => ⟨c.shape, [f c]⟩) = l.map fun c => (c.shape, f c) := by
  induction l with
  | nil => rfl
  | cons a l ih =>
    simp only [flatten, List.map_cons, List.flatMap_cons, List.map_nil] at ih ⊢
    rw [ih]; rfl

theorem flatten_loadFile (fmt : Format) (rs : List RCol) (S : List Nat)
    (hS : ∀ r ∈ rs, r.shape = S) (hpos : fmt = .fitsImage → 0 < prod S) :
    flatten (loadFile fmt rs) = rs.map fun r => (S, loadComp fmt r) := by
  cases rs with
  | nil => cases fmt <;> simp [loadFile, flatten, hdf5Load, fitsImageLoad, fitsTableLoad, tabularLoad]
  | cons r0 rs =>
    have h0 : r0.shape = S := hS r0 List.mem_cons_self
    cases fmt
    case fitsImage =>
      have hf : (r0 :: rs).filter (fun c => decide (prod c.shape > 0)) = r0 :: rs := by
        apply List.filter_eq_self.2
        intro r hr
        simp [hS r hr, hpos rfl]
      simp only [loadFile, fitsImageLoad, hf]
      rw [flatten_images]
      apply List.map_congr_left
      intro r hr
      simp [hS r hr, loadComp, Format.ascii]
    all_goals
      simp only [loadFile, tabularLoad, fitsTableLoad, hdf5Load, flatten_single, h0, List.map_map]
      apply List.map_congr_left
      intro r hr
      simp [loadComp, Format.ascii]


/-! ## the round trip -/

theorem loadComp_cells {fmt : Format} {w : FCol} {r : RCol} (hf : faithful fmt w r = true) :
    loadComp fmt r = autotyped r.name r.kind (valueRepr w) := by
  have hrc : r.cells = (valueRepr w).map some := by
    simp only [faithful, Bool.and_eq_true, beq_iff_eq] at hf
    exact hf.1.2
  unfold loadComp
  split
  · rw [filled_of_some r _ hrc]
  · rw [unmasked_of_some r _ hrc]

theorem faithful_shape {fmt : Format} {w : FCol} {r : RCol} (hf : faithful fmt w r = true) :
    r.shape = w.shape := by
  simp only [faithful, Bool.and_eq_true, beq_iff_eq] at hf
  exact hf.1.1.2

/-- **Round trip through any channel that honours the contract on the written file.** -/
theorem roundTripVia_spec (ch : List FCol → List RCol) (fmt : Format) (d : Dataset)
    (sel : Option (List Bool)) (comps : Option (List Nat))
    (hP : inDomain fmt d sel comps = true)
    (hch : allPairs (faithful fmt) (exportFile fmt d sel comps) (ch (exportFile fmt d sel comps)) = true) :
    ∃ out, roundTripVia ch fmt d sel comps = .ok out ∧ specOk fmt d sel comps out = true := by
  have hD := domFacts hP
  have hcol := domain_col hD
  have hfile := exportFile_eq fmt d sel comps
  -- the plan is not empty
  obtain ⟨c0, pl, hpl⟩ : ∃ c0 pl, (plan d comps).filter (carried fmt) = c0 :: pl := by
    cases hq : (plan d comps).filter (carried fmt) with
    | nil => exact absurd hq hD.plne
    | cons a l => exact ⟨a, l, rfl⟩
  have hc0 : ColOk fmt d sel c0 := hcol c0 (by rw [hpl]; exact List.mem_cons_self)
  -- guard 1: something is written
  have hg1 : (exportFile fmt d sel comps).isEmpty = false := by
    rw [hfile, hpl]; rfl
  -- guard 2: FITS can encode every text cell
  have hg2 : ¬ (fmt = .fitsTable ∧ ¬ ((exportFile fmt d sel comps).all fun c => c.cells.all cellAscii) = true) := by
    rintro ⟨hf, hna⟩
    apply hna
    subst hf
    rw [hfile]
    simp only [List.all_eq_true, List.mem_map]
    rintro w ⟨c, hc, rfl⟩ x hx
    have hx' : x ∈ c.cells := tableCol_cells_mem d sel c x hx
    exact cellAscii_of_fits c.kind x ((hcol c hc).fits x hx')
  -- guard 3: a LaTeX table has at least one row
  have hg3 : ¬ (fmt = .latex ∧ ((exportFile fmt d sel comps).all fun c => c.cells.isEmpty) = true) := by
    rintro ⟨hf, hall⟩
    subst hf
    rw [hfile, hpl] at hall
    simp only [List.map_cons, List.all_cons, Bool.and_eq_true, List.isEmpty_iff] at hall
    have hlen := tableCol_cells_length hc0
    have h0 : (writeCol .latex d sel c0).cells = [] := hall.1
    have h0' : (tableCol d sel c0).cells.length = 0 := by
      have : writeCol .latex d sel c0 = tableCol d sel c0 := rfl
      rw [← this, h0]; rfl
    rw [hlen] at h0'
    cases sel with
    | none => have := hD.npos; simp at h0'; omega
    | some m => have := hD.latex rfl m rfl; simp at h0'; omega
  refine ⟨loadFile fmt (ch (exportFile fmt d sel comps)), ?_, ?_⟩
  · simp only [roundTripVia, hg1, Bool.false_eq_true, if_false, if_neg hg2, if_neg hg3]
  · -- every read column has the expected shape
    have hshape : ∀ r ∈ ch (exportFile fmt d sel comps), r.shape = expShape fmt d sel := by
      intro r hr
      obtain ⟨w, hw, hf⟩ := allPairs_right_mem _ _ _ hch r hr
      rw [hfile] at hw
      obtain ⟨c, hc, rfl⟩ := List.mem_map.1 hw
      rw [faithful_shape hf, (writeCol_spec (hcol c hc)).shape, expCol_shape]
    have hpos : fmt = .fitsImage → 0 < prod (expShape fmt d sel) := by
      intro hf; subst hf
      cases sel with
      | none => exact hD.npos
      | some m => simp [expShape, rowMode]; exact hD.npos
    unfold specOk expected
    rw [flatten_loadFile fmt _ (expShape fmt d sel) hshape hpos]
    generalize ch (exportFile fmt d sel comps) = rs at hch
    rw [hfile] at hch
    apply allPairs_map_map (faithful fmt) compOk (writeCol fmt d sel) (expCol fmt d sel) _ _ _ hch
    intro c hc r _ hf
    rw [loadComp_cells hf]
    exact read_ok (writeCol_spec (hcol c hc)) hf _ rfl


/-! ## the concrete channels honour the contract on the quantifier -/

theorem allPairs_self_map {α β : Type} (R : α → β → Bool) (g : α → β) (l : List α)
    (h : ∀ a ∈ l, R a (g a) = true) : allPairs R l (l.map g) = true := by
  induction l with
  | nil => rfl
  | cons a l ih =>
    simp only [List.map_cons, allPairs, Bool.and_eq_true]
    exact ⟨h a List.mem_cons_self, ih fun b hb => h b (List.mem_cons_of_mem _ hb)⟩

theorem idealRead_faithful (fmt : Format) (w : FCol) : faithful fmt w (idealRead fmt w) = true := by
  simp [faithful, idealRead]

theorem intLike_alpha (c : Nat) (cs : Str) (h : isAlpha c = true) : intLike (c :: cs) = false := by
  obtain ⟨hd, h45, h43, _⟩ := isAlpha_facts c h
  have h1 : ((some c : Option Nat) == some 45) = false := by simp [h45]
  have h2 : ((some c : Option Nat) == some 43) = false := by simp [h43]
  simp [intLike, h1, h2, hd]

/-- cells that are text starting with a letter -/
def AlphaText (x : Cell) : Prop := ∃ c cs, x = .str (c :: cs) ∧ isAlpha c = true

theorem asciiCells_text (l : List Cell) (hl : ∀ x ∈ l, AlphaText x) :
    asciiCells .str (l.map textOf) = l.map some := by
  induction l with
  | nil => rfl
  | cons y ys ih =>
    obtain ⟨c, cs, rfl, _⟩ := hl y List.mem_cons_self
    have := ih fun z hz => hl z (List.mem_cons_of_mem _ hz)
    simp only [asciiCells, List.map_cons] at this ⊢
    rw [this]
    rfl

theorem present_text (l : List Cell) (hl : ∀ x ∈ l, AlphaText x) :
    (l.map textOf).filter (fun s => !s.isEmpty) = l.map textOf := by
  apply List.filter_eq_self.2
  intro s hs
  obtain ⟨x, hx, rfl⟩ := List.mem_map.1 hs
  obtain ⟨c, cs, rfl, _⟩ := hl x hx
  simp [textOf]

theorem asciiRead_text (fmt : Format) (w : FCol) (hk : w.kind = .str) (hb : w.blank = none)
    (hc : ∀ x ∈ w.cells, AlphaText x) :
    faithful fmt w (asciiRead fmt w) = true := by
  have hv : valueRepr w = w.cells := by simp [valueRepr, hb]
  have hkr : kindRepr w = .str := by simp [kindRepr, hb, hk]
  cases hcells : w.cells with
  | nil => simp [asciiRead, hk, hcells, faithful, hv, asciiCells]
  | cons x xs =>
    obtain ⟨c, cs, rfl, hal⟩ := hc x (by rw [hcells]; exact List.mem_cons_self)
    have hc' : ∀ y ∈ Cell.str (c :: cs) :: xs, AlphaText y := by rw [← hcells]; exact hc
    have h1 : ((Cell.str (c :: cs) :: xs).map textOf).all intLike = false := by
      simp [textOf, intLike_alpha c cs hal]
    have h2 : ((Cell.str (c :: cs) :: xs).map textOf).all (fun s => (parseNum s).isSome) = false := by
      simp [textOf, parseNum_none_of_alpha c cs hal]
    have hrd : asciiRead fmt w = ⟨nameRepr fmt w.name, .str, w.shape, w.cells.map some⟩ := by
      simp only [asciiRead, hk, hcells, present_text _ hc', h1, h2, Bool.false_eq_true, if_false,
        asciiCells_text _ hc']
    rw [hrd]
    simp [faithful, hv, hkr]

theorem asciiRead_faithful (fmt : Format) (w : FCol) (hb : w.blank = none)
    (hc : w.kind = .str → ∀ x ∈ w.cells, AlphaText x) :
    faithful fmt w (asciiRead fmt w) = true := by
  have hv : valueRepr w = w.cells := by simp [valueRepr, hb]
  have hne : ∀ k : Kind, k ≠ .str → (k == Kind.str) = false := by intro k h; simp [h]
  cases hk : w.kind with
  | str => exact asciiRead_text fmt w hk hb (hc hk)
  | float => simp [asciiRead, hk, faithful, hv, kindRepr, hb]
  | int b => simp [asciiRead, hk, faithful, hv, kindRepr, hb, hne]
  | uint b => simp [asciiRead, hk, faithful, hv, kindRepr, hb, hne]


theorem channelOf_faithful (fmt : Format) (d : Dataset) (sel : Option (List Bool))
    (comps : Option (List Nat)) (hP : inDomain fmt d sel comps = true) :
    allPairs (faithful fmt) (exportFile fmt d sel comps)
      (channelOf fmt (exportFile fmt d sel comps)) = true := by
  unfold channelOf
  split
  · next hasc =>
    apply allPairs_self_map
    intro w hw
    rw [exportFile_eq] at hw
    obtain ⟨c, hc, rfl⟩ := List.mem_map.1 hw
    have hcol := domain_col (domFacts hP) c hc
    have hw : writeCol fmt d sel c = tableCol d sel c := by
      cases fmt <;> first | rfl | simp [Format.ascii] at hasc
    rw [hw]
    apply asciiRead_faithful
    · cases sel <;> rfl
    · intro hk x hx
      have hk' : c.kind = .str := by cases sel <;> exact hk
      have hx' := tableCol_cells_mem d sel c x hx
      have := hcol.fits x hx'
      rw [hk'] at this
      exact cellFits_str fmt x this
  · apply allPairs_self_map
    intro w _
    exact idealRead_faithful fmt w

/-- The form the driver evaluates (`implok`). -/
theorem roundTrip_spec (fmt : Format) (d : Dataset) (sel : Option (List Bool)) (comps : Option (List Nat))
    (hP : inDomain fmt d sel comps = true) :
    ∃ out, roundTrip fmt d sel comps = .ok out ∧ specOk fmt d sel comps out = true :=
  roundTripVia_spec (channelOf fmt) fmt d sel comps hP (channelOf_faithful fmt d sel comps hP)


/-! ## the export plan: order and membership -/

/-- is component number `i` requested? -/
def requested (comps : Option (List Nat)) (i : Nat) : Bool :=
  match comps with
  | none => true
  | some cs => cs.contains i

/-- the requested non-derived / derived components, in dataset order -/
def planPart (d : Dataset) (comps : Option (List Nat)) (der : Bool) : List Column :=
  (d.cols.zipIdx.filter fun p => p.1.derived == der && requested comps p.2).map (·.1)

theorem plan_eq_parts (d : Dataset) (comps : Option (List Nat)) :
    plan d comps = planPart d comps false ++ planPart d comps true := by
  simp only [plan, planPart, List.filter_append, List.filter_filter, List.map_append]
  congr 2
  · apply List.filter_congr
    intro p _
    cases comps <;> cases p.1.derived <;> simp [requested]
  · apply List.filter_congr
    intro p _
    cases comps <;> cases p.1.derived <;> simp [requested]

theorem planPart_sublist (d : Dataset) (comps : Option (List Nat)) (der : Bool) :
    (planPart d comps der).Sublist d.cols := by
  unfold planPart
  have h := (List.filter_sublist (l := d.cols.zipIdx)
    (p := fun p => p.1.derived == der && requested comps p.2)).map Prod.fst
  rwa [List.zipIdx_map_fst] at h

theorem planPart_derived (d : Dataset) (comps : Option (List Nat)) (der : Bool) :
    ∀ c ∈ planPart d comps der, c.derived = der := by
  intro c hc
  simp only [planPart, List.mem_map, List.mem_filter, Bool.and_eq_true, beq_iff_eq] at hc
  obtain ⟨p, ⟨_, hd, _⟩, rfl⟩ := hc
  exact hd

theorem mem_plan_iff (d : Dataset) (comps : Option (List Nat)) (c : Column) :
    c ∈ plan d comps ↔ ∃ i, d.cols[i]? = some c ∧ requested comps i = true := by
  rw [plan_eq_parts]
  simp only [planPart, List.mem_append, List.mem_map, List.mem_filter, Bool.and_eq_true, beq_iff_eq]
  constructor
  · rintro (⟨p, ⟨hp, _, hr⟩, rfl⟩ | ⟨p, ⟨hp, _, hr⟩, rfl⟩) <;>
      exact ⟨p.2, List.mem_zipIdx_iff_getElem?.1 hp, hr⟩
  · rintro ⟨i, hi, hr⟩
    have hp : (c, i) ∈ d.cols.zipIdx := List.mem_zipIdx_iff_getElem?.2 hi
    cases hd : c.derived
    · exact Or.inl ⟨(c, i), ⟨hp, hd, hr⟩, rfl⟩
    · exact Or.inr ⟨(c, i), ⟨hp, hd, hr⟩, rfl⟩

theorem plan_congr (d : Dataset) (cs cs' : List Nat) (h : ∀ i, cs.contains i = cs'.contains i) :
    plan d (some cs) = plan d (some cs') := by
  simp only [plan]
  congr 1
  apply List.filter_congr
  intro p _
  exact h p.2

/-! ## `autotyped` on numeric-looking text -/

theorem autotyped_numeric_text (n : Str) (cells : List Cell) (hne : cells ≠ [])
    (h : ∀ c ∈ cells, numericCell c = true) :
    (autotyped n .str cells).cat = false ∧ (autotyped n .str cells).cells = cells.map coerce := by
  have hl := finiteCount_eq_length cells h
  have hpos : 0 < cells.length := List.length_pos_iff.2 hne
  have : ¬ (cells.length ≠ 0 ∧ 2 * finiteCount cells ≤ cells.length) := by
    rw [hl]; omega
  unfold autotyped
  simp only [if_neg this, and_self]

theorem blankClause_of_not_image (fmt : Format) (d : Dataset) (sel : Option (List Bool))
    (comps : Option (List Nat)) (h : fmt ≠ .fitsImage) : blankClause fmt d sel comps = true := by
  cases sel <;> simp [blankClause, h]


/-- mapping over the enumerated list a function that ignores the position -/
theorem zipIdx_map_fst {α β : Type} (l : List α) (f : α → β) :
    (l.zipIdx.map fun p => f p.1) = l.map f := by
  have h : l.map f = (l.zipIdx.map Prod.fst).map f := by rw [List.zipIdx_map_fst]
  rw [h, List.map_map]
  rfl

end GlueVerif.Export.Lemmas
