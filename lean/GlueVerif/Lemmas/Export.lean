import GlueVerif.Model.Export
/-!
Helper lemmas for C19 (`Model/Export.lean`): masks, the export plan, text reading, `autotyped`,
and the per-column round trip.  Core Lean only.
-/
namespace GlueVerif.Export.Lemmas
open GlueVerif.Export

/-! ## masks -/

theorem selectRows_nil_left {α : Type} (xs : List α) : selectRows [] xs = [] := by
  cases xs <;> rfl

theorem selectRows_nil_right {α : Type} (m : List Bool) : selectRows m ([] : List α) = [] := by
  cases m with
  | nil => rfl
  | cons b m => cases b <;> rfl

theorem selectRows_eq_filter {α : Type} (m : List Bool) (xs : List α) :
    selectRows m xs = ((m.zip xs).filter (·.1)).map (·.2) := by
  induction m generalizing xs with
  | nil => simp [selectRows_nil_left]
  | cons b m ih =>
    cases xs with
    | nil => simp [selectRows_nil_right]
    | cons x xs => cases b <;> simp [selectRows, ih]

theorem selectRows_length {α : Type} (m : List Bool) (xs : List α) (h : m.length = xs.length) :
    (selectRows m xs).length = countTrue m := by
  induction m generalizing xs with
  | nil => simp [selectRows_nil_left, countTrue]
  | cons b m ih =>
    cases xs with
    | nil => simp at h
    | cons x xs =>
      simp only [List.length_cons, Nat.add_right_cancel_iff] at h
      cases b <;> simp [selectRows, countTrue, ih xs h] <;> simp [countTrue] at * 

theorem selectRows_map {α β : Type} (f : α → β) (m : List Bool) (xs : List α) :
    selectRows m (xs.map f) = (selectRows m xs).map f := by
  induction m generalizing xs with
  | nil => simp [selectRows_nil_left]
  | cons b m ih =>
    cases xs with
    | nil => simp [selectRows_nil_right]
    | cons x xs => cases b <;> simp [selectRows, ih]

theorem mem_selectRows {α : Type} (m : List Bool) (xs : List α) (x : α) (h : x ∈ selectRows m xs) :
    x ∈ xs := by
  induction m generalizing xs with
  | nil => simp [selectRows_nil_left] at h
  | cons b m ih =>
    cases xs with
    | nil => simp [selectRows_nil_right] at h
    | cons y ys =>
      cases b
      · simp only [selectRows] at h
        exact List.mem_cons_of_mem _ (ih ys h)
      · simp only [selectRows, List.mem_cons] at h
        rcases h with rfl | h
        · exact List.mem_cons_self
        · exact List.mem_cons_of_mem _ (ih ys h)

theorem fillMask_length {α : Type} (f : α) (m : List Bool) (xs : List α) (h : m.length = xs.length) :
    (fillMask f m xs).length = xs.length := by
  induction m generalizing xs with
  | nil => cases xs <;> simp_all [fillMask]
  | cons b m ih =>
    cases xs with
    | nil => simp at h
    | cons x xs =>
      simp only [List.length_cons, Nat.add_right_cancel_iff] at h
      simp [fillMask, ih xs h]

theorem fillMask_getElem {α : Type} (f : α) (m : List Bool) (xs : List α) (h : m.length = xs.length)
    (i : Nat) (hi : i < xs.length) :
    (fillMask f m xs)[i]'(by rw [fillMask_length f m xs h]; exact hi) =
      if m[i]'(by omega) then xs[i] else f := by
  induction m generalizing xs i with
  | nil =>
    cases xs with
    | nil => simp at hi
    | cons x xs => simp at h
  | cons b m ih =>
    cases xs with
    | nil => simp at hi
    | cons x xs =>
      simp only [List.length_cons, Nat.add_right_cancel_iff] at h
      cases i with
      | zero => simp [fillMask]
      | succ i =>
        simp only [List.length_cons, Nat.add_lt_add_iff_right] at hi
        simp [fillMask, ih xs h i hi]

theorem mem_fillMask {α : Type} (f : α) (m : List Bool) (xs : List α) (x : α)
    (h : x ∈ fillMask f m xs) : x = f ∨ x ∈ xs := by
  induction m generalizing xs with
  | nil => cases xs <;> simp [fillMask] at h
  | cons b m ih =>
    cases xs with
    | nil => simp [fillMask] at h
    | cons y ys =>
      simp only [fillMask, List.mem_cons] at h
      rcases h with h | h
      · cases b <;> simp_all
      · rcases ih ys h with h | h
        · exact Or.inl h
        · exact Or.inr (List.mem_cons_of_mem _ h)


/-! ## text reading and `autotyped` -/

theorem isAlpha_facts (c : Nat) (h : isAlpha c = true) :
    isDigit c = false ∧ c ≠ 45 ∧ c ≠ 43 ∧ c < 128 := by
  simp only [isAlpha, isDigit, Bool.or_eq_true, Bool.and_eq_true, decide_eq_true_eq,
    Bool.and_eq_false_iff, decide_eq_false_iff_not] at *
  omega

theorem parseNum_none_of_alpha (c : Nat) (cs : Str) (h : isAlpha c = true) :
    parseNum (c :: cs) = none := by
  obtain ⟨hd, h45, h43, _⟩ := isAlpha_facts c h
  have h1 : ((some c : Option Nat) == some 45) = false := by simp [h45]
  have h2 : ((some c : Option Nat) == some 43) = false := by simp [h43]
  simp [parseNum, h1, h2, hd]

theorem parseNum_nil : parseNum [] = none := by decide

/-- a text cell that does not read as a finite number -/
def nonNumericCell : Cell → Bool
  | .str s => (parseNum s).isNone
  | _ => false

/-- a text cell that reads as a finite number -/
def numericCell : Cell → Bool
  | .str s => (parseNum s).isSome
  | _ => false

theorem finiteCount_eq_zero (cells : List Cell) (h : ∀ c ∈ cells, nonNumericCell c = true) :
    finiteCount cells = 0 := by
  unfold finiteCount
  rw [List.countP_eq_zero]
  intro c hc
  have := h c hc
  cases c with
  | str s => simp only [nonNumericCell, Option.isNone_iff_eq_none] at this; simp [this]
  | nan => simp
  | num q => simp

theorem finiteCount_eq_length (cells : List Cell) (h : ∀ c ∈ cells, numericCell c = true) :
    finiteCount cells = cells.length := by
  unfold finiteCount
  rw [List.countP_eq_length]
  intro c hc
  have := h c hc
  cases c with
  | str s => simpa [numericCell] using this
  | nan => simp [numericCell] at this
  | num q => simp [numericCell] at this

theorem finiteCount_le (cells : List Cell) : finiteCount cells ≤ cells.length := by
  unfold finiteCount; exact List.countP_le_length

theorem autotyped_name (n : Str) (k : Kind) (cells : List Cell) : (autotyped n k cells).name = n := by
  unfold autotyped
  cases k <;> simp only []
  split <;> rfl

/-- Columns that the quantifier admits keep their values, and (when they have rows) their kind. -/
theorem autotyped_stable_aux (n : Str) (k : Kind) (cells : List Cell)
    (h : k = .str → ∀ c ∈ cells, nonNumericCell c = true) :
    (autotyped n k cells).cells = cells ∧
    (cells ≠ [] → (autotyped n k cells).cat = decide (k = .str)) := by
  cases k with
  | float => simp [autotyped]
  | int b => simp [autotyped]
  | uint b => simp [autotyped]
  | str =>
    have h0 := finiteCount_eq_zero cells (h rfl)
    by_cases hc : cells = []
    · subst hc; simp [autotyped]
    · have hl : cells.length ≠ 0 := by simpa using hc
      simp [autotyped, h0, hl, hc]


/-! ## cells admitted by the quantifier -/

theorem cellFits_str (fmt : Format) (x : Cell) (h : cellFits fmt .str x = true) :
    ∃ c cs, x = .str (c :: cs) ∧ isAlpha c = true := by
  cases x with
  | nan => simp [cellFits] at h
  | num q => simp [cellFits] at h
  | str s =>
    cases s with
    | nil => simp [cellFits, clearText] at h
    | cons c cs =>
      simp only [cellFits, clearText, Bool.and_eq_true] at h
      exact ⟨c, cs, rfl, h.2.1.1.1⟩

theorem cellFits_nonstr (fmt : Format) (k : Kind) (x : Cell) (hk : k ≠ .str)
    (h : cellFits fmt k x = true) : encodeCell x = x ∧ nonNumericCell x = false := by
  cases x with
  | nan => simp [encodeCell, nonNumericCell]
  | num q => simp [encodeCell, nonNumericCell]
  | str s => simp [cellFits, hk] at h

theorem asciiReplace_cons_alpha (c : Nat) (cs : Str) (h : isAlpha c = true) :
    asciiReplace (c :: cs) = c :: asciiReplace cs := by
  have := (isAlpha_facts c h).2.2.2
  simp [asciiReplace, this]

theorem nonNumeric_of_fits (fmt : Format) (x : Cell) (h : cellFits fmt .str x = true) :
    nonNumericCell x = true ∧ nonNumericCell (encodeCell x) = true := by
  obtain ⟨c, cs, rfl, hc⟩ := cellFits_str fmt x h
  constructor
  · simp [nonNumericCell, parseNum_none_of_alpha c cs hc]
  · simp [encodeCell, nonNumericCell, asciiReplace_cons_alpha c cs hc, parseNum_none_of_alpha c _ hc]


/-! ## the FITS BLANK mechanism and float64 promotion -/

theorem rat_of_den_one (q : Rat) (h : q.den = 1) : ((q.num : Int) : Rat) = q := by
  apply Rat.ext <;> simp [h]

theorem roundF64_small (v : Int) (h : v.natAbs ≤ 2 ^ 53) : roundF64 v = v := by
  simp [roundF64, h]

theorem toF64_safe (k : Kind) (x : Cell) (hk : k ≠ .float ∧ k ≠ .str) (h : blankSafe k x = true) : toF64 x = x := by
  cases x with
  | nan => rfl
  | str s => rfl
  | num q =>
    have hq : q.num.natAbs ≤ 2 ^ 53 := by
      cases k with
      | float => exact absurd rfl hk.1
      | str => exact absurd rfl hk.2
      | int b => simp [blankSafe] at h; exact h.2
      | uint b => simpa [blankSafe] using h
    simp only [toF64]
    split
    · next hd => rw [roundF64_small _ hq, rat_of_den_one q hd]
    · rfl

theorem blank_roundtrip (b : Nat) (m : List Bool) (cells : List Cell)
    (hs : selectedAll (blankSafe (.int b)) m cells = true) :
    (fillMask (.num (intMin b)) m cells).map
      (fun x => if x = .num ((intMin b : Int) : Rat) then Cell.nan else toF64 x) = fillMask .nan m cells := by
  induction m generalizing cells with
  | nil => cases cells <;> simp [fillMask]
  | cons bb m ih =>
    cases cells with
    | nil => simp [fillMask]
    | cons x xs =>
      simp only [selectedAll, Bool.and_eq_true, Bool.or_eq_true, Bool.not_eq_true'] at hs
      simp only [fillMask, List.map_cons, ih xs hs.2, List.cons.injEq, and_true]
      cases bb with
      | false => simp
      | true =>
        have hx : blankSafe (.int b) x = true := by simpa using hs.1
        simp only [if_true]
        have hne : x ≠ .num ((intMin b : Int) : Rat) := by
          intro he; subst he
          simp [blankSafe] at hx
        rw [if_neg hne]
        exact toF64_safe (.int b) x ⟨by simp, by simp⟩ hx

theorem uint_roundtrip (b : Nat) (m : List Bool) (cells : List Cell)
    (hs : selectedAll (blankSafe (.uint b)) m cells = true) :
    fillMask .nan m (cells.map toF64) = fillMask .nan m cells := by
  induction m generalizing cells with
  | nil => cases cells <;> simp [fillMask]
  | cons bb m ih =>
    cases cells with
    | nil => simp [fillMask]
    | cons x xs =>
      simp only [selectedAll, Bool.and_eq_true, Bool.or_eq_true, Bool.not_eq_true'] at hs
      simp only [List.map_cons, fillMask, ih xs hs.2, List.cons.injEq, and_true]
      cases bb with
      | false => simp
      | true =>
        have hx : blankSafe (.uint b) x = true := by simpa using hs.1
        simp [toF64_safe (.uint b) x ⟨by simp, by simp⟩ hx]


/-! ## one column through its writer -/

/-- the per-column writer of each format -/
def writeCol (fmt : Format) (d : Dataset) (sel : Option (List Bool)) (c : Column) : FCol :=
  match fmt with
  | .hdf5 => hdf5Col d sel c
  | .fitsImage => fitsImageCol d sel c
  | _ => tableCol d sel c

/-- what the quantifier says about one exported column -/
structure ColOk (fmt : Format) (d : Dataset) (sel : Option (List Bool)) (c : Column) : Prop where
  len : c.cells.length = prod d.shape
  fits : ∀ x ∈ c.cells, cellFits fmt c.kind x = true
  mlen : ∀ m, sel = some m → m.length = prod d.shape
  car : carried fmt c = true
  oned : fmt ≠ .hdf5 → fmt ≠ .fitsImage → d.shape.length = 1
  blank : ∀ m, sel = some m → fmt = .fitsImage → selectedAll (blankSafe c.kind) m c.cells = true

/-- what has to be shown about one written column -/
structure ColSpec (fmt : Format) (d : Dataset) (sel : Option (List Bool)) (c : Column) (w : FCol) : Prop where
  name : w.name = c.name
  shape : w.shape = (expCol fmt d sel c).shape
  cells : valueRepr w = (expCol fmt d sel c).cells
  kind : kindRepr w = .str ↔ c.kind = .str
  text : c.kind = .str → ∀ x ∈ valueRepr w, nonNumericCell x = true

theorem text_cells {fmt : Format} {c : Column} (hf : ∀ x ∈ c.cells, cellFits fmt c.kind x = true)
    (hk : c.kind = .str) : ∀ x ∈ c.cells, nonNumericCell x = true ∧ nonNumericCell (encodeCell x) = true := by
  intro x hx
  have := hf x hx
  rw [hk] at this
  exact nonNumeric_of_fits fmt x this

theorem encode_id {fmt : Format} {c : Column} (hf : ∀ x ∈ c.cells, cellFits fmt c.kind x = true)
    (hk : c.kind ≠ .str) : c.cells.map encodeCell = c.cells := by
  conv => rhs; rw [← List.map_id c.cells]
  apply List.map_congr_left
  intro x hx
  exact (cellFits_nonstr fmt c.kind x hk (hf x hx)).1

theorem tableCol_spec {fmt : Format} {d : Dataset} {sel : Option (List Bool)} {c : Column}
    (h : ColOk fmt d sel c) (h1 : fmt ≠ .hdf5) (h2 : fmt ≠ .fitsImage) :
    ColSpec fmt d sel c (tableCol d sel c) := by
  have hrow : rowMode fmt d = true := by simp [rowMode, h.oned h1 h2, h2]
  cases sel with
  | none =>
    refine ⟨rfl, rfl, ?_, ?_, ?_⟩
    · simp [tableCol, valueRepr, expCol, h1]
    · simp [tableCol, kindRepr]
    · intro hk x hx
      exact (text_cells h.fits hk x (by simpa [tableCol, valueRepr] using hx)).1
  | some m =>
    have hml : m.length = c.cells.length := by rw [h.mlen m rfl, h.len]
    refine ⟨rfl, ?_, ?_, ?_, ?_⟩
    · simp [tableCol, expCol, hrow, h1, selectRows_length m c.cells hml]
    · simp [tableCol, valueRepr, expCol, hrow, h1]
    · simp [tableCol, kindRepr]
    · intro hk x hx
      have hx' : x ∈ selectRows m c.cells := by simpa [tableCol, valueRepr] using hx
      exact (text_cells h.fits hk x (mem_selectRows m c.cells x hx')).1


theorem hdf5Col_spec {d : Dataset} {sel : Option (List Bool)} {c : Column}
    (h : ColOk .hdf5 d sel c) : ColSpec .hdf5 d sel c (hdf5Col d sel c) := by
  -- the cells the writer starts from are the encoded cells in every case
  have henc : (if c.kind = .str then c.cells.map encodeCell else c.cells) = c.cells.map encodeCell := by
    by_cases hk : c.kind = .str
    · simp [hk]
    · simp [hk, encode_id h.fits hk]
  have htext : c.kind = .str → ∀ x ∈ c.cells.map encodeCell, nonNumericCell x = true := by
    intro hk x hx
    obtain ⟨y, hy, rfl⟩ := List.mem_map.1 hx
    exact (text_cells h.fits hk y hy).2
  cases sel with
  | none =>
    refine ⟨rfl, rfl, ?_, ?_, ?_⟩
    · simp [hdf5Col, valueRepr, expCol, henc]
    · simp [hdf5Col, kindRepr]
    · intro hk x hx
      exact htext hk x (by simpa [hdf5Col, valueRepr, henc] using hx)
  | some m =>
    have hml : m.length = (c.cells.map encodeCell).length := by
      rw [List.length_map, h.mlen m rfl, h.len]
    by_cases h1 : d.shape.length = 1
    · have hrow : rowMode .hdf5 d = true := by simp [rowMode, h1]
      refine ⟨?_, ?_, ?_, ?_, ?_⟩
      · simp [hdf5Col, h1]
      · simp [hdf5Col, h1, expCol, hrow, henc, selectRows_length m _ hml]
      · simp [hdf5Col, h1, valueRepr, expCol, hrow, henc]
      · simp [hdf5Col, h1, kindRepr]
      · intro hk x hx
        have hx' : x ∈ selectRows m (c.cells.map encodeCell) := by
          simpa [hdf5Col, h1, valueRepr, henc] using hx
        exact htext hk x (mem_selectRows m _ x hx')
    · have hrow : rowMode .hdf5 d = false := by simp [rowMode, h1]
      cases hk : c.kind with
      | float =>
        have hid := encode_id h.fits (by rw [hk]; simp)
        refine ⟨?_, ?_, ?_, ?_, ?_⟩ <;>
          simp [hdf5Col, h1, hk, valueRepr, kindRepr, expCol, hrow, fillOf, hid]
      | int b =>
        have hid := encode_id h.fits (by rw [hk]; simp)
        refine ⟨?_, ?_, ?_, ?_, ?_⟩ <;>
          simp [hdf5Col, h1, hk, valueRepr, kindRepr, expCol, hrow, fillOf, hid]
      | uint b =>
        have hid := encode_id h.fits (by rw [hk]; simp)
        refine ⟨?_, ?_, ?_, ?_, ?_⟩ <;>
          simp [hdf5Col, h1, hk, valueRepr, kindRepr, expCol, hrow, fillOf, hid]
      | str =>
        refine ⟨?_, ?_, ?_, ?_, ?_⟩
        · simp [hdf5Col, h1, hk]
        · simp [hdf5Col, h1, hk, expCol, hrow]
        · simp [hdf5Col, h1, hk, valueRepr, expCol, hrow, fillOf]
        · simp [hdf5Col, h1, hk, kindRepr]
        · intro _ x hx
          have hx' : x ∈ fillMask (.str []) m (c.cells.map encodeCell) := by
            simpa [hdf5Col, h1, hk, valueRepr] using hx
          rcases mem_fillMask _ m _ x hx' with rfl | hx''
          · simp [nonNumericCell, parseNum_nil]
          · exact htext hk x hx''

theorem fitsImageCol_spec {d : Dataset} {sel : Option (List Bool)} {c : Column}
    (h : ColOk .fitsImage d sel c) : ColSpec .fitsImage d sel c (fitsImageCol d sel c) := by
  have hnum : c.kind ≠ .str := by
    intro hk
    have := h.car
    simp [carried, hk, Kind.numerical] at this
  have hrow : rowMode .fitsImage d = false := by simp [rowMode]
  cases sel with
  | none =>
    refine ⟨rfl, rfl, ?_, ?_, ?_⟩
    · simp [fitsImageCol, valueRepr, expCol]
    · simp [fitsImageCol, kindRepr]
    · intro hk; exact absurd hk hnum
  | some m =>
    have hb := h.blank m rfl rfl
    cases hk : c.kind with
    | str => exact absurd hk hnum
    | float =>
      refine ⟨?_, ?_, ?_, ?_, ?_⟩ <;>
        simp [fitsImageCol, hk, valueRepr, kindRepr, expCol, hrow, fillOf]
    | int b =>
      rw [hk] at hb
      refine ⟨?_, ?_, ?_, ?_, ?_⟩
      · simp [fitsImageCol, hk]
      · simp [fitsImageCol, hk, expCol, hrow]
      · simp only [fitsImageCol, hk, valueRepr, expCol, hrow, fillOf]
        simpa using blank_roundtrip b m c.cells hb
      · simp [fitsImageCol, hk, kindRepr]
      · intro hk'; rw [hk] at hk'; cases hk'
    | uint b =>
      rw [hk] at hb
      refine ⟨?_, ?_, ?_, ?_, ?_⟩
      · simp [fitsImageCol, hk]
      · simp [fitsImageCol, hk, expCol, hrow]
      · simp only [fitsImageCol, hk, valueRepr, expCol, hrow, fillOf]
        simpa using uint_roundtrip b m c.cells hb
      · simp [fitsImageCol, hk, kindRepr]
      · intro hk'; rw [hk] at hk'; cases hk'

theorem writeCol_spec {fmt : Format} {d : Dataset} {sel : Option (List Bool)} {c : Column}
    (h : ColOk fmt d sel c) : ColSpec fmt d sel c (writeCol fmt d sel c) := by
  cases fmt with
  | hdf5 => exact hdf5Col_spec h
  | fitsImage => exact fitsImageCol_spec h
  | csv => exact tableCol_spec h (by simp) (by simp)
  | ipac => exact tableCol_spec h (by simp) (by simp)
  | latex => exact tableCol_spec h (by simp) (by simp)
  | votable => exact tableCol_spec h (by simp) (by simp)
  | fitsTable => exact tableCol_spec h (by simp) (by simp)


end GlueVerif.Export.Lemmas
