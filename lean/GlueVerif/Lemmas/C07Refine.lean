import GlueVerif.Model.C07Hub
/-!
# C07 — the repaired `hub.py` (`Impl`) refines the delivery specification (`Spec`)

Simulation proof by induction on the fuel, for all programs and handler tables:

* while `_paused` is set and `_delay_depth > 0`, `Impl.exec` behaves like `Spec.held`
  (`held_sim`): no handler runs, the queue grows by exactly the messages `held` returns, the depth
  is restored;
* while the hub is idle (`_paused = False`, `_delay_depth = 0`, `_queue = []`, ignore counter =
  lexically enclosing ignore blocks), `Impl.exec/deliver/flush` behave like
  `Spec.live/deliver/flush` and leave the hub idle again (`live_sim`).
-/
namespace GlueVerif.C07Hub.Lemmas
open GlueVerif.C07Hub

/-! ## The `Counter` against the multiset of lexically enclosing ignore blocks -/

theorem get_incr (ig : Counter) (c c' : Cls) :
    (ig.incr c).get c' = ig.get c' + (if c = c' then 1 else 0) := by
  induction ig with
  | nil => simp only [Counter.incr, Counter.get]; split <;> simp
  | cons e rest ih =>
    obtain ⟨c0, n⟩ := e
    simp only [Counter.incr]
    by_cases h0 : c0 = c
    · subst h0
      by_cases h1 : c0 = c' <;> simp [Counter.get, h1]
    · simp only [h0, if_false, Counter.get]
      by_cases h1 : c0 = c'
      · have : c ≠ c' := fun h => h0 (h1.trans h.symm)
        simp [h1, this]
      · simp [h1, ih]

theorem get_decr (ig : Counter) (c c' : Cls) :
    (ig.decr c).get c' = ig.get c' - (if c = c' then 1 else 0) := by
  induction ig with
  | nil => simp [Counter.decr, Counter.get]
  | cons e rest ih =>
    obtain ⟨c0, n⟩ := e
    simp only [Counter.decr]
    by_cases h0 : c0 = c
    · subst h0
      by_cases h1 : c0 = c' <;> simp [Counter.get, h1]
    · simp only [h0, if_false, Counter.get]
      by_cases h1 : c0 = c'
      · have : c ≠ c' := fun h => h0 (h1.trans h.symm)
        simp [h1, this]
      · simp [h1, ih]

/-- The counter holds, for every class, the number of enclosing `ignore_callbacks` blocks. -/
def IgnRel (ig : Counter) (ign : List Cls) : Prop := ∀ c, ig.get c = ign.count c

theorem IgnRel.nil : IgnRel [] [] := fun _ => rfl

theorem IgnRel.incr {ig ign} (h : IgnRel ig ign) (c : Cls) : IgnRel (ig.incr c) (c :: ign) := by
  intro c'
  rw [get_incr, h c', List.count_cons]
  by_cases hc : c = c' <;> simp [hc]

theorem IgnRel.decr {ig ign} {c : Cls} (h : IgnRel ig (c :: ign)) : IgnRel (ig.decr c) ign := by
  intro c'
  rw [get_decr, h c', List.count_cons]
  by_cases hc : c = c' <;> simp [hc]

theorem IgnRel.test {ig ign} (h : IgnRel ig ign) (c : Cls) : 0 < ig.get c ↔ c ∈ ign := by
  rw [h c]
  exact List.count_pos_iff

/-! ## Small algebra of outcomes -/

theorem andThen_ok (r : Res) : r.andThen .ok = r := by simp [Res.andThen]

/-! ## Delayed mode -/

/-- `Impl` output `oi` matches the delayed-mode outcome `oh`, starting from queue `q0`, depth `d`. -/
def SimH (ign : List Cls) (d : Nat) (q0 : List Msg) (oi : Out Impl.St) (oh : Spec.HOut) : Prop :=
  oi.2.1 = oh.2.1 ∧ oi.2.2 = oh.2.2.2 ∧ oi.1.subs = oh.1 ∧ IgnRel oi.1.ignore ign ∧
    oi.1.paused = true ∧ oi.1.depth = d ∧ oi.1.queue = q0 ++ oh.2.2.1

theorem simH_seq {ign d q0} {oi : Out Impl.St} {oh : Spec.HOut}
    {ki : Impl.St → Out Impl.St} {kh : Subs → Spec.HOut}
    (h1 : SimH ign d q0 oi oh)
    (h2 : ∀ si, si.subs = oh.1 → IgnRel si.ignore ign → si.paused = true → si.depth = d →
      SimH ign d si.queue (ki si) (kh oh.1)) :
    SimH ign d q0 (seq oi ki) (Spec.seqH oh kh) := by
  obtain ⟨he, hr, hs, hi, hp, hd, hq⟩ := h1
  unfold seq Spec.seqH
  rw [hr]
  by_cases hok : oh.2.2.2 = .ok
  · simp only [hok, if_true]
    obtain ⟨he', hr', hs', hi', hp', hd', hq'⟩ := h2 oi.1 hs hi hp hd
    refine ⟨?_, hr', hs', hi', hp', hd', ?_⟩
    · simp only [he, he']
    · simp only [hq', hq, List.append_assoc]
  · simp only [hok, if_false]
    exact ⟨he, hr, hs, hi, hp, hd, hq⟩

theorem held_sim (hs : Handlers) : ∀ (f lvl : Nat) (ign : List Cls) (si : Impl.St) (ops : List Op),
    IgnRel si.ignore ign → si.paused = true → 0 < si.depth →
    SimH ign si.depth si.queue (Impl.exec hs f lvl si ops) (Spec.held f lvl ign si.subs ops) := by
  intro f
  induction f with
  | zero =>
    intro lvl ign si ops hi hp hd
    cases ops with
    | nil => simp [Impl.exec, Spec.held, SimH, hi, hp]
    | cons op rest => simp [Impl.exec, Spec.held, SimH, hi, hp]
  | succ f ih =>
    intro lvl ign si ops hi hp hd
    cases ops with
    | nil => simp [Impl.exec, Spec.held, SimH, hi, hp]
    | cons op rest =>
      simp only [Impl.exec, Spec.held]
      apply simH_seq
      · -- the first operation
        cases op with
        | bcast m =>
          have ht := IgnRel.test hi m.cls
          by_cases hc : m.cls ∈ ign
          · simp [hc, ht, SimH, hi, hp]
          · simp [hc, ht, SimH, hi, hp]
        | delay body =>
          have h := ih lvl ign { si with depth := si.depth + 1, paused := true } body hi rfl
            (Nat.succ_pos _)
          obtain ⟨he, hr, hsb, hig, hpa, hde, hq⟩ := h
          simp only [finallyDo]
          have hd' : ¬ ((Impl.exec hs f lvl { si with depth := si.depth + 1, paused := true } body).1.depth - 1 = 0) := by
            rw [hde]; simp only [Nat.add_sub_cancel]; omega
          simp only [hd', if_false, andThen_ok, List.append_nil]
          refine ⟨he, hr, hsb, hig, hpa, ?_, hq⟩
          simp only [hde, Nat.add_sub_cancel]
        | ignore c body =>
          have h := ih lvl (c :: ign) { si with ignore := si.ignore.incr c } body (hi.incr c) hp hd
          obtain ⟨he, hr, hsb, hig, hpa, hde, hq⟩ := h
          simp only [finallyDo, andThen_ok, List.append_nil]
          exact ⟨he, hr, hsb, hig.decr, hpa, hde, hq⟩
        | «catch» body =>
          have h := ih lvl ign si body hi hp hd
          obtain ⟨he, hr, hsb, hig, hpa, hde, hq⟩ := h
          simp only [caught]
          exact ⟨he, by simp only [hr], hsb, hig, hpa, hde, hq⟩
        | sub l c s => simp [SimH, hi, hp]
        | unsub l c => simp [SimH, hi, hp]
        | unsubAll l => simp [SimH, hi, hp]
        | kill l => simp [SimH, hi, hp]
        | mark n => simp [SimH, hi, hp]
        | raise => simp [SimH, hi, hp]
      · intro s1 hs1 hi1 hp1 hd1
        have := ih lvl ign s1 rest hi1 hp1 (hd1 ▸ hd)
        rw [hs1, hd1] at this
        exact this

/-! ## Live mode -/

/-- The hub is idle: nothing paused, no open delay block, empty queue, and the ignore counter
holds exactly the lexically enclosing ignore blocks. -/
structure Idle (st : Impl.St) (ign : List Cls) : Prop where
  ign : IgnRel st.ignore ign
  paused : st.paused = false
  depth : st.depth = 0
  queue : st.queue = []

/-- Same events, same result, same subscription table, and the hub is idle again. -/
def SimL (ign : List Cls) (oi : Out Impl.St) (os : Out Subs) : Prop :=
  oi.2.1 = os.2.1 ∧ oi.2.2 = os.2.2 ∧ oi.1.subs = os.1 ∧ Idle oi.1 ign

theorem simL_seq {ign} {oi : Out Impl.St} {os : Out Subs}
    {ki : Impl.St → Out Impl.St} {ks : Subs → Out Subs}
    (h1 : SimL ign oi os)
    (h2 : ∀ si, si.subs = os.1 → Idle si ign → SimL ign (ki si) (ks os.1)) :
    SimL ign (seq oi ki) (seq os ks) := by
  obtain ⟨he, hr, hs, hi⟩ := h1
  unfold seq
  rw [hr]
  by_cases hok : os.2.2 = .ok
  · simp only [hok, if_true]
    obtain ⟨he', hr', hs', hi'⟩ := h2 oi.1 hs hi
    exact ⟨by simp only [he, he'], hr', hs', hi'⟩
  · simp only [hok, if_false]
    exact ⟨he, hr, hs, hi⟩

theorem simL_bracket {ign lvl l m} {oi : Out Impl.St} {os : Out Subs} (h : SimL ign oi os) :
    SimL ign (bracket lvl l m oi) (bracket lvl l m os) := by
  obtain ⟨he, hr, hs, hi⟩ := h
  exact ⟨by simp only [bracket, he, hr], hr, hs, hi⟩

theorem simL_caught {ign} {oi : Out Impl.St} {os : Out Subs} (h : SimL ign oi os) :
    SimL ign (caught oi) (caught os) := by
  obtain ⟨he, hr, hs, hi⟩ := h
  exact ⟨he, by simp only [caught, hr], hs, hi⟩

/-- Statement of the live-mode simulation at one fuel value. -/
def LiveSim (hs : Handlers) (f : Nat) : Prop :=
  (∀ lvl ign si ops, Idle si ign →
      SimL ign (Impl.exec hs f lvl si ops) (Spec.live hs f lvl ign si.subs ops)) ∧
  (∀ lvl ign si ts m, Idle si ign →
      SimL ign (Impl.deliver hs f lvl si ts m) (Spec.deliver hs f lvl ign si.subs ts m)) ∧
  (∀ lvl ign si q, Idle si ign →
      SimL ign (Impl.flush hs f lvl si q) (Spec.flush hs f lvl ign si.subs q))

/-- `Hub.broadcast` on an idle hub. -/
theorem bcast_sim {hs f} (ih : LiveSim hs f) (lvl : Nat) (ign : List Cls) (si : Impl.St) (m : Msg)
    (hi : Idle si ign) :
    SimL ign
      (if si.ignore.get m.cls > 0 then (si, [], .ok)
       else if si.paused then ({ si with queue := si.queue ++ [m] }, [], .ok)
       else Impl.deliver hs f lvl si (targets si.subs m) m)
      (if ign.contains m.cls then (si.subs, [], .ok)
       else Spec.deliver hs f lvl ign si.subs (targets si.subs m) m) := by
  have ht := IgnRel.test hi.ign m.cls
  by_cases hc : m.cls ∈ ign
  · have : 0 < si.ignore.get m.cls := ht.mpr hc
    simp only [gt_iff_lt, this, if_true, List.contains_iff_mem, hc]
    exact ⟨rfl, rfl, rfl, hi⟩
  · have : ¬ 0 < si.ignore.get m.cls := fun h => hc (ht.mp h)
    simp only [gt_iff_lt, this, if_false, List.contains_iff_mem, hc, hi.paused, Bool.false_eq_true]
    exact ih.2.1 lvl ign si _ m hi

theorem live_sim (hs : Handlers) : ∀ f, LiveSim hs f := by
  intro f
  induction f with
  | zero =>
    refine ⟨?_, ?_, ?_⟩
    · intro lvl ign si ops hi
      cases ops <;> exact ⟨rfl, rfl, rfl, hi⟩
    · intro lvl ign si ts m hi
      cases ts <;> exact ⟨rfl, rfl, rfl, hi⟩
    · intro lvl ign si q hi
      cases q <;> exact ⟨rfl, rfl, rfl, hi⟩
  | succ f ih =>
    refine ⟨?_, ?_, ?_⟩
    · intro lvl ign si ops hi
      cases ops with
      | nil => exact ⟨rfl, rfl, rfl, hi⟩
      | cons op rest =>
        simp only [Impl.exec, Spec.live]
        apply simL_seq
        · cases op with
          | bcast m => exact bcast_sim ih lvl ign si m hi
          | delay body =>
            obtain ⟨sb, ig, pa, de, qu⟩ := si
            obtain ⟨hig0, hpa0, hde0, hqu0⟩ := hi
            simp only at hig0 hpa0 hde0 hqu0
            subst hpa0 hde0 hqu0
            have h := held_sim hs f lvl ign ⟨sb, ig, true, 0 + 1, []⟩ body hig0 rfl (Nat.succ_pos _)
            simp only [finallyDo]
            generalize Impl.exec hs f lvl ⟨sb, ig, true, 0 + 1, []⟩ body = X at h ⊢
            generalize Spec.held f lvl ign sb body = H at h ⊢
            obtain ⟨⟨xsb, xig, xpa, xde, xqu⟩, xe, xr⟩ := X
            obtain ⟨hsb', he', hq', hr'⟩ := H
            obtain ⟨he, hr, hsb, hig, hpa, hde, hq⟩ := h
            simp only [List.nil_append] at he hr hsb hig hpa hde hq
            subst he hr hsb hpa hde hq
            simp only [Nat.add_sub_cancel, if_true]
            have hfl := ih.2.2 lvl ign ⟨xsb, xig, false, 0, []⟩ xqu ⟨hig, rfl, rfl, rfl⟩
            obtain ⟨he', hr', hs', hi'⟩ := hfl
            exact ⟨by simp only [he'], by simp only [hr'], hs', hi'⟩
          | ignore c body =>
            have h := ih.1 lvl (c :: ign) { si with ignore := si.ignore.incr c } body
              ⟨hi.ign.incr c, hi.paused, hi.depth, hi.queue⟩
            obtain ⟨he, hr, hsb, hid⟩ := h
            simp only [finallyDo, andThen_ok, List.append_nil]
            exact ⟨he, hr, hsb, ⟨hid.ign.decr, hid.paused, hid.depth, hid.queue⟩⟩
          | «catch» body => exact simL_caught (ih.1 lvl ign si body hi)
          | sub l c s => exact ⟨rfl, rfl, rfl, ⟨hi.ign, hi.paused, hi.depth, hi.queue⟩⟩
          | unsub l c => exact ⟨rfl, rfl, rfl, ⟨hi.ign, hi.paused, hi.depth, hi.queue⟩⟩
          | unsubAll l => exact ⟨rfl, rfl, rfl, ⟨hi.ign, hi.paused, hi.depth, hi.queue⟩⟩
          | kill l => exact ⟨rfl, rfl, rfl, ⟨hi.ign, hi.paused, hi.depth, hi.queue⟩⟩
          | mark n => exact ⟨rfl, rfl, rfl, hi⟩
          | raise => exact ⟨rfl, rfl, rfl, hi⟩
        · intro s1 hs1 hi1
          have := ih.1 lvl ign s1 rest hi1
          rw [hs1] at this
          exact this
    · intro lvl ign si ts m hi
      cases ts with
      | nil => exact ⟨rfl, rfl, rfl, hi⟩
      | cons t ts =>
        simp only [Impl.deliver, Spec.deliver]
        apply simL_seq
        · exact simL_bracket (ih.1 (lvl + 1) ign si _ hi)
        · intro s1 hs1 hi1
          have := ih.2.1 lvl ign s1 ts m hi1
          rw [hs1] at this
          exact this
    · intro lvl ign si q hi
      cases q with
      | nil => exact ⟨rfl, rfl, rfl, hi⟩
      | cons m ms =>
        simp only [Impl.flush, Spec.flush]
        apply simL_seq
        · exact bcast_sim ih lvl ign si m hi
        · intro s1 hs1 hi1
          have := ih.2.2 lvl ign s1 ms hi1
          rw [hs1] at this
          exact this

theorem idle_init : Idle ({} : Impl.St) [] := ⟨IgnRel.nil, rfl, rfl, rfl⟩

end GlueVerif.C07Hub.Lemmas
