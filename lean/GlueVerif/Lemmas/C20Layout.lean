import GlueVerif.Model.ArrayLayout
import GlueVerif.Lemmas.ArrayUtil
/-! Helper lemmas for the layout-independence theorems of C20 (round 3): row-major blocks,
`collapse` / `expand` (unbroadcast / broadcast_to on logical arrays). -/
namespace GlueVerif.Lemmas.C20Layout
open GlueVerif.ArrayUtil

theorem prod_cons (h : Nat) (hs : List Nat) : prod (h :: hs) = h * prod hs := rfl

theorem length_blocks (blk : Nat) : ∀ (h : Nat) (v : List Int), (blocks h blk v).length = h := by
  intro h
  induction h with
  | zero => intro v; rfl
  | succ h ih => intro v; simp [blocks, ih]

theorem flatten_blocks (blk : Nat) : ∀ (h : Nat) (v : List Int), v.length = h * blk →
    (blocks h blk v).flatten = v := by
  intro h
  induction h with
  | zero =>
    intro v hv
    have : v = [] := List.eq_nil_of_length_eq_zero (by simpa using hv)
    simp [blocks, this]
  | succ h ih =>
    intro v hv
    have hd : (v.drop blk).length = h * blk := by
      rw [List.length_drop, hv, Nat.succ_mul]; omega
    simp only [blocks, List.flatten_cons, ih _ hd, List.take_append_drop]

theorem mem_blocks_length (blk : Nat) : ∀ (h : Nat) (v : List Int), v.length = h * blk →
    ∀ b ∈ blocks h blk v, b.length = blk := by
  intro h
  induction h with
  | zero => intro v _ b hb; simp [blocks] at hb
  | succ h ih =>
    intro v hv b hb
    have hd : (v.drop blk).length = h * blk := by
      rw [List.length_drop, hv, Nat.succ_mul]; omega
    simp only [blocks, List.mem_cons] at hb
    rcases hb with rfl | hb
    · rw [List.length_take, hv, Nat.succ_mul]; omega
    · exact ih _ hd b hb

theorem blocks_flatten (blk : Nat) : ∀ (ls : List (List Int)), (∀ l ∈ ls, l.length = blk) →
    blocks ls.length blk ls.flatten = ls := by
  intro ls
  induction ls with
  | nil => intro _; rfl
  | cons l ls ih =>
    intro h
    have hl : l.length = blk := h l (List.mem_cons_self)
    have ht : (l ++ ls.flatten).take blk = l := by
      rw [← hl]; exact List.take_left
    have hd : (l ++ ls.flatten).drop blk = ls.flatten := by
      rw [← hl]; exact List.drop_left
    simp only [List.length_cons, blocks, List.flatten_cons, ht, hd]
    rw [ih (fun x hx => h x (List.mem_cons_of_mem _ hx))]

theorem length_flatten_const (n : Nat) : ∀ (ls : List (List Int)), (∀ l ∈ ls, l.length = n) →
    ls.flatten.length = ls.length * n := by
  intro ls
  induction ls with
  | nil => intro _; simp
  | cons l ls ih =>
    intro h
    simp only [List.flatten_cons, List.length_append, List.length_cons, Nat.succ_mul]
    rw [ih (fun x hx => h x (List.mem_cons_of_mem _ hx)), h l List.mem_cons_self]
    omega

theorem pos_of_prod_ne_zero : ∀ (s : List Nat), prod s ≠ 0 → ∀ x ∈ s, 0 < x := by
  intro s
  induction s with
  | nil => intro _ x hx; simp at hx
  | cons h hs ih =>
    intro hp x hx
    rw [prod_cons] at hp
    have h1 : h ≠ 0 := fun h0 => hp (by simp [h0])
    have h2 : prod hs ≠ 0 := fun h0 => hp (by simp [h0])
    rcases List.mem_cons.mp hx with rfl | hx
    · omega
    · exact ih h2 x hx

theorem length_collapse : ∀ (m : List Bool) (s : List Nat) (v : List Int), (∀ x ∈ s, 0 < x) →
    v.length = prod s → (collapse m s v).length = prod (collapsedShape m s) := by
  intro m
  induction m with
  | nil => intro s v _ hv; simpa [collapse, collapsedShape] using hv
  | cons b ms ih =>
    intro s v hpos hv
    cases s with
    | nil => cases b <;> simpa [collapse, collapsedShape] using hv
    | cons h hs =>
      rw [prod_cons] at hv
      have hh : 0 < h := hpos h List.mem_cons_self
      have hpos' : ∀ x ∈ hs, 0 < x := fun x hx => hpos x (List.mem_cons_of_mem _ hx)
      cases b with
      | true =>
        simp only [collapse, collapsedShape, if_true, prod_cons, Nat.one_mul]
        apply ih _ _ hpos'
        rw [List.length_take, hv]
        have : prod hs ≤ h * prod hs := Nat.le_mul_of_pos_left _ hh
        omega
      | false =>
        simp only [collapse, collapsedShape, prod_cons]
        rw [length_flatten_const (prod (collapsedShape ms hs))]
        · simp [length_blocks]
        · intro l hl
          obtain ⟨b, hb, rfl⟩ := List.mem_map.mp hl
          exact ih hs b hpos' (mem_blocks_length _ h v hv b hb)

theorem all_eq_replicate : ∀ (ls : List (List Int)) (b : List Int),
    ls.all (fun x => x == b) = true → ls = List.replicate ls.length b := by
  intro ls b
  induction ls with
  | nil => intro _; rfl
  | cons l ls ih =>
    intro h
    simp only [List.all_cons, Bool.and_eq_true, beq_iff_eq] at h
    rw [List.length_cons, List.replicate_succ, h.1, ← ih h.2]

theorem map_congr_mem {f g : List Int → List Int} : ∀ (ls : List (List Int)),
    (∀ l ∈ ls, f l = g l) → ls.map f = ls.map g := by
  intro ls h
  exact List.map_congr_left h

/-- Broadcasting an array to its own shape changes nothing. -/
theorem expand_self : ∀ (s : List Nat) (v : List Int), v.length = prod s → expand s s v = v := by
  intro s
  induction s with
  | nil => intro v _; rfl
  | cons h hs ih =>
    intro v hv
    rw [prod_cons] at hv
    simp only [expand, if_true]
    have : (blocks h (prod hs) v).map (expand hs hs) = (blocks h (prod hs) v).map id :=
      List.map_congr_left (fun b hb => ih b (mem_blocks_length _ h v hv b hb))
    rw [this, List.map_id, flatten_blocks _ h v hv]

theorem bcCompatible_self : ∀ (s : List Nat), bcCompatible s s = true := by
  intro s
  induction s with
  | nil => rfl
  | cons h hs ih => simp [bcCompatible, ih]

theorem bcCompatible_collapsed : ∀ (m : List Bool) (s : List Nat),
    bcCompatible (collapsedShape m s) s = true := by
  intro m
  induction m with
  | nil => intro s; simpa [collapsedShape] using bcCompatible_self s
  | cons b ms ih =>
    intro s
    cases s with
    | nil => simp [collapsedShape, bcCompatible]
    | cons h hs => cases b <;> simp [collapsedShape, bcCompatible, ih hs]

/-- **unbroadcast then broadcast back is the identity on logical arrays**: for every stride-0 mask
along whose axes the array is constant. -/
theorem expand_collapse : ∀ (m : List Bool) (s : List Nat) (v : List Int), (∀ x ∈ s, 0 < x) →
    v.length = prod s → constAlong m s v = true →
    expand (collapsedShape m s) s (collapse m s v) = v := by
  intro m
  induction m with
  | nil => intro s v _ hv _; simpa [collapse, collapsedShape] using expand_self s v hv
  | cons b ms ih =>
    intro s v hpos hv hc
    cases s with
    | nil => cases b <;> simp [collapse, collapsedShape, expand]
    | cons h hs =>
      rw [prod_cons] at hv
      have hh : 0 < h := hpos h List.mem_cons_self
      have hpos' : ∀ x ∈ hs, 0 < x := fun x hx => hpos x (List.mem_cons_of_mem _ hx)
      cases b with
      | true =>
        simp only [constAlong, Bool.and_eq_true] at hc
        have hlen : (v.take (prod hs)).length = prod hs := by
          rw [List.length_take, hv]
          have : prod hs ≤ h * prod hs := Nat.le_mul_of_pos_left _ hh
          omega
        have hrec := ih hs (v.take (prod hs)) hpos' hlen hc.2
        have hrep := all_eq_replicate _ _ hc.1
        rw [length_blocks] at hrep
        have hflat := flatten_blocks (prod hs) h v hv
        simp only [collapse, collapsedShape, if_true, expand]
        by_cases h1 : 1 = h
        · subst h1
          simp only [if_true]
          have hl := length_collapse ms hs (v.take (prod hs)) hpos' hlen
          have hb : blocks 1 (prod (collapsedShape ms hs)) (collapse ms hs (v.take (prod hs))) =
              [collapse ms hs (v.take (prod hs))] := by
            simp only [blocks, ← hl, List.take_length]
          rw [hb]
          simp only [List.map_cons, List.map_nil, List.flatten_cons, List.flatten_nil,
            List.append_nil, hrec]
          rw [← hflat, hrep]
          simp [List.take_take]
        · rw [if_neg h1, hrec, ← hrep, hflat]
      | false =>
        simp only [constAlong, List.all_eq_true] at hc
        simp only [collapse, collapsedShape, expand, Bool.false_eq_true, if_false, if_true]
        have hbl : ∀ l ∈ (blocks h (prod hs) v).map (collapse ms hs),
            l.length = prod (collapsedShape ms hs) := by
          intro l hl
          obtain ⟨b, hb, rfl⟩ := List.mem_map.mp hl
          exact length_collapse ms hs b hpos' (mem_blocks_length _ h v hv b hb)
        have hb := blocks_flatten _ _ hbl
        rw [List.length_map, length_blocks] at hb
        rw [hb, List.map_map]
        have : (blocks h (prod hs) v).map (expand (collapsedShape ms hs) hs ∘ collapse ms hs) =
            (blocks h (prod hs) v).map id :=
          List.map_congr_left (fun b hb =>
            ih hs b hpos' (mem_blocks_length _ h v hv b hb) (hc b hb))
        rw [this, List.map_id, flatten_blocks _ h v hv]

end GlueVerif.Lemmas.C20Layout
