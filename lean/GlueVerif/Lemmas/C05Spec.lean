import GlueVerif.Lemmas.C05Run
/-!
C05 — Spec-side invariant (every program variable stands for a value in every reachable Spec state),
`FreshEval`, and the two directions of the staleness characterisation.
-/
namespace GlueVerif.C05Cache
open GlueVerif.SubsetEval

structure SpecInv (ss : Spec.State) : Prop where
  repV : ∀ n ∈ ss.vars, HasRep ss.g n
  repC : HasRep ss.g ss.cur

/-- The implementation state of a freshly constructed, never-evaluated session with the same objects. -/
def twin (ss : Spec.State) : SubsetEval.Impl.State :=
  { h := { g := ss.g, arrays := [], memo := [] }, vars := ss.vars, cur := ss.cur, hist := [] }

theorem twin_sync {ss : Spec.State} (h : SpecInv ss) : SyncB (twin ss) ss :=
  ⟨rfl, rfl, rfl, h.repV, h.repC⟩

theorem spec_step_inv (tbl : ClassTable) (hf : tbl.Faithful) (w : World) (ss : Spec.State) (op : Op)
    (hi : SpecInv ss) : SpecInv (Spec.step tbl w ss op).1 := by
  cases op with
  | base o =>
    cases hev : isEvalOp o with
    | false =>
      have r := stepBase_noneval tbl hf (w ss.epoch) (twin ss) ss (twin_sync hi) o hev
      exact ⟨r.sync.repV, r.sync.repC⟩
    | true =>
      cases o with
      | eval a d v f =>
        simp only [Spec.step, Spec.stepBase]
        cases ss.vars[a]? <;> exact hi
      | evalCur d v => exact hi
      | _ => simp [isEvalOp] at hev
  | setAttr a k c =>
    simp only [Spec.step]
    cases ha : ss.vars[a]? with
    | none => exact hi
    | some n =>
      dsimp only
      cases hg'' : setAttrK ss.g n k c with
      | none => exact hi
      | some g' =>
        have hsh := setAttrG_sameShape (setAttrK_some hg'')
        exact ⟨fun z hz => hasRep_sameShape hsh (hi.repV z hz), hasRep_sameShape hsh hi.repC⟩
  | editParam a k c =>
    simp only [Spec.step]
    cases ha : ss.vars[a]? with
    | none => exact hi
    | some n =>
      dsimp only
      cases hg'' : editParamK ss.g n k c with
      | none => exact hi
      | some g' =>
        have hsh := editParamG_sameShape (editParamK_some hg'')
        exact ⟨fun z hz => hasRep_sameShape hsh (hi.repV z hz), hasRep_sameShape hsh hi.repC⟩
  | dataMut m d => exact ⟨hi.repV, hi.repC⟩
  | clearAll => exact hi
  | change => exact ⟨hi.repV, hi.repC⟩

theorem spec_init_inv : SpecInv {} :=
  ⟨fun n hn => (by cases hn), ⟨.leaf emptyContent, by simp only [Rep]; exact ⟨.base, 0, rfl, rfl⟩⟩⟩

theorem spec_run_inv (tbl : ClassTable) (hf : tbl.Faithful) (w : World) :
    ∀ (ops : List Op) (ss : Spec.State), SpecInv ss → SpecInv (Spec.run tbl w ss ops).1
  | [], _, h => h
  | op :: ops, ss, h => spec_run_inv tbl hf w ops _ (spec_step_inv tbl hf w ss op h)

/-- `n.to_mask(data, view)` in call form `f` on heap `h` returns the demanded result (an array holding
`denoteNow`, or the same exception). -/
def FreshEval (tbl : ClassTable) (env : Env) (h : Heap) (n : NodeId) (d : DataId) (v : View) (f : Form) : Prop :=
  match (toMask tbl env h.g.fuel h n d v f).2 with
  | .ok a => ∃ m, (toMask tbl env h.g.fuel h n d v f).1.arrays[a]? = some m ∧ denoteNow env h.g n d v = .ok m
  | .error er => denoteNow env h.g n d v = .error er

/-- No stale key reachable ⇒ fresh. -/
theorem freshEval_of_cohOn {tbl : ClassTable} {env : Env} {h : Heap} {n : NodeId} {d : DataId} {v : View}
    {f : Form} (hr : HasRep h.g n) (hc : CohOn tbl env (Reach h.g n f) d v h) :
    FreshEval tbl env h n d v f := by
  obtain ⟨e, he⟩ := hr
  have hp := toMask_specOn tbl env (Reach h.g n f) h.g.fuel h n d v f e (Reach.closed _ _ _) hc he .refl
    he.depth_lt_fuel
  have := hp.res
  simp only [FreshEval, denoteNow_of_rep he]
  revert this
  cases (toMask tbl env h.g.fuel h n d v f).2 <;> exact id

/-- A stale consulted key is observable: evaluating the object of that key returns the cached array. -/
theorem coherent_of_freshEval {tbl : ClassTable} {env : Env} {h : Heap} {n : NodeId} {d : DataId} {v : View}
    {f : Form} {t : Table} {a : ArrId} (heff : Eff tbl h.g t n v) (hl : h.lookup ⟨t, n, d, v, f⟩ = some a)
    (hf : FreshEval tbl env h n d v f) :
    ∃ e m, Rep h.g n e ∧ h.arrays[a]? = some m ∧ e.denote env d v = .ok m := by
  obtain ⟨hv, nd, hnd, hmt⟩ := heff
  have hrun : toMask tbl env h.g.fuel h n d v f = (h, .ok a) := by
    simp only [Graph.fuel, toMask, hnd, hmt, hv, hl]
  simp only [FreshEval, hrun] at hf
  obtain ⟨m, harr, hd⟩ := hf
  obtain ⟨e, hr, hden⟩ := rep_of_denoteNow_ok hd
  exact ⟨e, m, hr, harr, hden⟩

theorem cohOn_sub {tbl : ClassTable} {env : Env} {S S' : NodeId → Form → Prop} {d : DataId} {v : View} {h : Heap}
    (hc : CohOn tbl env S d v h) (hsub : ∀ n f, S' n f → S n f) : CohOn tbl env S' d v h :=
  fun n f t a hs he hl => hc n f t a (hsub n f hs) he hl

/-- Masked sum / histogram counts: what `compute_statistic('sum')` / `compute_histogram` make of a mask
(exact integer data). -/
theorem map_congr_obs {α : Type} (F : Obs → α) {xs : List SubsetEval.Impl.Out} {ys : List Obs}
    (h : xs.map (·.obs) = ys) : xs.map (fun o => F o.obs) = ys.map F := by
  rw [← h, List.map_map]; rfl

theorem slot_stale {I K O : Type} [DecidableEq K] (key : I → K) (f : I → O) (i j : I)
    (hk : key i = key j) (hf : f i ≠ f j) : slotRun key f none [i, j] ≠ [i, j].map f := by
  simp only [slotRun, slotStep, hk, if_true, List.map_cons, List.map_nil]
  intro h
  simp only [List.cons.injEq, and_true] at h
  exact hf h.2

theorem dict_stale {I K O : Type} [DecidableEq K] (key : I → K) (f : I → O) (i j : I)
    (hk : key i = key j) : dictRun key f [] [i, j] = [f i, f i] := by
  simp [dictRun, dictStep, hk]

theorem slot_hit {I K O : Type} [DecidableEq K] (key : I → K) (f : I → O) (i j : I)
    (hk : key i = key j) : slotRun key f none [i, j] = [f i, f i] := by
  simp [slotRun, slotStep, hk]

/-- The invariant of a slot with an arbitrary hit test: the stored value is `f` of the input whose key is stored. -/
theorem slotRunRel_sound {I K O : Type} (same : K → K → Bool) (key : I → K) (f : I → O)
    (href : ∀ i j, same (key i) (key j) = true → f i = f j) :
    ∀ (is : List I) (c : Option (K × O)), (∀ k o, c = some (k, o) → ∃ i, key i = k ∧ f i = o) →
      slotRunRel same key f c is = is.map f
  | [], _, _ => rfl
  | i :: is, c, hc => by
    simp only [slotRunRel, List.map_cons]
    cases c with
    | none =>
      simp only [slotStepRel]
      rw [slotRunRel_sound same key f href is _ (by intro k o h; cases h; exact ⟨i, rfl, rfl⟩)]
    | some ko =>
      obtain ⟨k, o⟩ := ko
      simp only [slotStepRel]
      by_cases hk : same k (key i) = true
      · simp only [hk, if_true]
        obtain ⟨i0, hi0, ho⟩ := hc k o rfl
        have : o = f i := by rw [← ho]; exact href i0 i (by rw [hi0]; exact hk)
        rw [this, slotRunRel_sound same key f href is _ (by intro k' o' h; cases h; exact ⟨i0, hi0, by rw [ho, this]⟩)]
      · simp only [hk, Bool.false_eq_true, if_false]
        rw [slotRunRel_sound same key f href is _ (by intro k' o' h; cases h; exact ⟨i, rfl, rfl⟩)]

theorem slotRel_hit {I K O : Type} (same : K → K → Bool) (key : I → K) (f : I → O) (i j : I)
    (hk : same (key i) (key j) = true) : slotRunRel same key f none [i, j] = [f i, f i] := by
  simp [slotRunRel, slotStepRel, hk]

end GlueVerif.C05Cache
