import GlueVerif.Lemmas.C02Load
/-! Assembly of the round-trip theorem: serializer characterisation + loader invariant ⇒ the Spec. -/
namespace GlueVerif.C02

theorem nodup_map_on {α β : Type} {f : α → β} : ∀ (l : List α), l.Nodup →
    (∀ a ∈ l, ∀ b ∈ l, f a = f b → a = b) → (l.map f).Nodup
  | [], _, _ => by simp
  | a :: l, hnd, hinj => by
    simp only [List.nodup_cons] at hnd
    simp only [List.map_cons, List.nodup_cons, List.mem_map, not_exists, not_and]
    refine ⟨?_, nodup_map_on l hnd.2 (fun x hx y hy => hinj x (List.mem_cons_of_mem _ hx) y (List.mem_cons_of_mem _ hy))⟩
    intro b hb hfb
    have := hinj b (List.mem_cons_of_mem _ hb) a List.mem_cons_self hfb
    subst this
    exact hnd.1 hb

theorem nodup_of_nodup_map {α β : Type} (f : α → β) : ∀ (l : List α), (l.map f).Nodup → l.Nodup
  | [], _ => by simp
  | a :: l, h => by
    simp only [List.map_cons, List.nodup_cons] at h
    simp only [List.nodup_cons]
    exact ⟨fun ha => h.1 (List.mem_map.mpr ⟨a, ha, rfl⟩), nodup_of_nodup_map f l h.2⟩

theorem filterMap_eq_map_of_some {α β : Type} (g : α → Option β) (d : β) : ∀ (l : List α),
    (∀ a ∈ l, (g a).isSome = true) → l.filterMap g = l.map (fun a => (g a).getD d)
  | [], _ => rfl
  | a :: l, hall => by
    have ha := hall a List.mem_cons_self
    cases hg : g a with
    | none => rw [hg] at ha; cases ha
    | some b =>
      simp only [List.filterMap_cons, hg, List.map_cons, Option.getD_some]
      rw [filterMap_eq_map_of_some g d l (fun x hx => hall x (List.mem_cons_of_mem _ hx))]

theorem relVals_mem {R : Val → LVal → Prop} : ∀ {vs : List Val} {ls : List LVal},
    RelVals R vs ls → ∀ v ∈ vs, ∃ l ∈ ls, R v l
  | [], [], _, v, hv => by simp at hv
  | _ :: _, [], h, _, _ => by simp [RelVals] at h
  | [], _ :: _, h, _, _ => by simp [RelVals] at h
  | v0 :: vs, l0 :: ls, h, v, hv => by
    rcases List.mem_cons.mp hv with e | e
    · subst e; exact ⟨l0, List.mem_cons_self, h.1⟩
    · obtain ⟨l, hl, hr⟩ := relVals_mem h.2 v e
      exact ⟨l, List.mem_cons_of_mem _ hl, hr⟩

theorem relVals_flatten {R : Val → LVal → Prop} {tL : LVal → Desc} {tV : Val → Desc} :
    ∀ {vs : List Val} {ls : List LVal}, RelVals R vs ls → (∀ v l, l ∈ ls → R v l → tL l = tV v) →
    vs.length = ls.length ∧ (ls.map tL).flatten = (vs.map tV).flatten
  | [], [], _, _ => ⟨rfl, rfl⟩
  | _ :: _, [], h, _ => by simp [RelVals] at h
  | [], _ :: _, h, _ => by simp [RelVals] at h
  | v :: vs, l :: ls, h, ht => by
    obtain ⟨ih1, ih2⟩ := relVals_flatten h.2 (fun v' l' hl' => ht v' l' (List.mem_cons_of_mem _ hl'))
    refine ⟨by simp [ih1], ?_⟩
    simp only [List.map_cons, List.flatten_cons, ih2, ht v l List.mem_cons_self h.1]

theorem descObj_unfold {h : Heap} (reg : Reg) (f o : Nat) (ob : Obj) (hob : h[o]? = some ob) :
    descObj h reg (f + 1) o =
      .opn ob.cls ob.fields.length :: ((ob.fields.map (·.val)).map (tokVWith reg (descObj h reg f))).flatten := by
  simp only [descObj, hob, List.map_map]
  rfl

/-- the description of a restored value equals the description of the saved one: an inlined cell `j`
is described completely with any fuel `> j` (its own inlined cells have smaller indices) -/
theorem relV_tokens {h : Heap} {reg : Reg} {heap : List LObj} {memo : List (Str × Nat)}
    (hnd : (memo.map Prod.snd).Nodup) : ∀ (d : Nat) (v : Val) (l : LVal) (fL : Nat),
    RelV h reg heap memo d v l → (∀ j, l = .own j → j < fL) →
    tokLWith memo (descL heap memo fL) l = tokVWith reg (descObj h reg d) v
  | d, .lit _, .lit _, _, hr, _ => by simp only [RelV] at hr; subst hr; rfl
  | d, .str _, .str _, _, hr, _ => by simp only [RelV] at hr; subst hr; rfl
  | d, .ref _, .ref _, _, hr, _ => by
    simp only [RelV] at hr
    obtain ⟨m, h1, h2⟩ := hr
    simp only [tokVWith, tokLWith, h1, nameOfIdx_of_mem hnd (lookupMemo_some_mem h2)]
  | 0, .own _, .own _, _, hr, _ => by simp [RelV] at hr
  | d + 1, .own p, .own j, fL, hr, hj => by
    simp only [RelV] at hr
    obtain ⟨_, ob, lo, a1, a2, a3, a4, a5⟩ := hr
    have hjl := hj j rfl
    obtain ⟨fL', rfl⟩ : ∃ fL', fL = fL' + 1 := ⟨fL - 1, by omega⟩
    simp only [tokVWith, tokLWith]
    rw [descObj_unfold reg d p ob a1]
    simp only [descL, a2, a3]
    obtain ⟨hlen, htok⟩ := relVals_flatten (tL := tokLWith memo (descL heap memo fL'))
      (tV := tokVWith reg (descObj h reg d)) a4
      (fun v l hl hr' => relV_tokens hnd d v l fL' hr' (fun j' hj' => by
        have := a5 j' (hj' ▸ hl); omega))
    rw [htok]
    simp only [List.length_map] at hlen
    rw [hlen]
  | _, .lit _, .str _, _, hr, _ | _, .lit _, .ref _, _, hr, _ | _, .lit _, .own _, _, hr, _ | _, .lit _, .pending, _, hr, _
  | _, .str _, .lit _, _, hr, _ | _, .str _, .ref _, _, hr, _ | _, .str _, .own _, _, hr, _ | _, .str _, .pending, _, hr, _
  | _, .ref _, .lit _, _, hr, _ | _, .ref _, .str _, _, hr, _ | _, .ref _, .own _, _, hr, _ | _, .ref _, .pending, _, hr, _
  | _, .own _, .lit _, _, hr, _ | _, .own _, .str _, _, hr, _ | _, .own _, .ref _, _, hr, _ | _, .own _, .pending, _, hr, _ => by
    simp [RelV] at hr

/-- an inlined cell related to a saved object exists in the heap -/
theorem relV_own_lt {h : Heap} {reg : Reg} {heap : List LObj} {memo : List (Str × Nat)} {d : Nat} {v : Val} {j : Nat}
    (hr : RelV h reg heap memo d v (.own j)) : j < heap.length := by
  cases d with
  | zero => cases v <;> simp [RelV] at hr
  | succ d =>
    cases v <;> simp only [RelV] at hr
    obtain ⟨_, ob, lo, _, a2, _⟩ := hr
    obtain ⟨hj, _⟩ := List.getElem?_eq_some_iff.mp a2; exact hj

/-- whatever is referred to by name from the (inlined) tree below a restored object has been restored -/
theorem refInTree_loaded {h : Heap} {reg : Reg} {heap : List LObj} {memo : List (Str × Nat)} :
    ∀ (d : Nat) (q t : Nat), RefInTree h (d + 1) q t → ∀ (ob : Obj) (lf : List LVal), h[q]? = some ob →
      RelVals (RelV h reg heap memo d) (ob.fields.map (·.val)) lf →
      ∃ m j, lookupName reg t = some m ∧ lookupMemo memo m = some j
  | d, q, t, hrt, ob, lf, hob, hrel => by
    simp only [RefInTree] at hrt
    obtain ⟨ob', hob', f, hf, hcase⟩ := hrt
    rw [hob] at hob'; cases hob'
    obtain ⟨l, _hl, hr⟩ := relVals_mem hrel f.val (List.mem_map.mpr ⟨f, hf, rfl⟩)
    rcases hcase with hv | ⟨p, hv, hsub⟩
    · rw [hv] at hr
      cases l <;> simp only [RelV] at hr
      obtain ⟨m, hm1, hm2⟩ := hr
      exact ⟨m, _, hm1, hm2⟩
    · rw [hv] at hr
      cases d with
      | zero => simp [RefInTree] at hsub
      | succ d =>
        cases l <;> simp only [RelV] at hr
        obtain ⟨_, obp, lo, a1, _, _, a4, _⟩ := hr
        exact refInTree_loaded d p t hsub obp lo.fields a1 a4

section
variable {h : Heap} {main : Nat}

/-- From the loader invariant to the Spec: if every memo entry is `Good`, the memo table is injective
and `main` has been restored, then every registered name has been restored (by reachability along the
registration order) and the by-name views before / after coincide. -/
theorem spec_of_loaded {reg : Reg} (hk : RegOk main reg) (hreach : Reach h main reg) (ls : LState)
    (hgood : ∀ e ∈ ls.memo, Good h reg ls e.1 e.2) (hvnd : (ls.memo.map Prod.snd).Nodup)
    {i : Nat} (hmi : lookupMemo ls.memo mainName = some i) : specRoundTrip h reg ls = true := by
  have hmain : (main, mainName) ∈ reg := lookupName_some_mem hk.mainIn
  -- every registered name has been restored
  have hall : ∀ (k : Nat) (pre : Reg) (e : Nat × Str) (post : Reg), pre.length = k → reg = pre ++ e :: post →
      ∃ j, lookupMemo ls.memo e.2 = some j := by
    intro k
    induction k using Nat.strongRecOn with
    | _ k ih =>
      intro pre e post hlen hsplit
      have he : e ∈ reg := by rw [hsplit]; simp
      rcases hreach pre e post hsplit with hm | ⟨q, hq, hrt⟩
      · have : e.2 = mainName := hk.name_unique (o := e.1) (by rw [show (e.1, e.2) = e from rfl]; exact he) (by rw [hm]; exact hmain)
        rw [this]; exact ⟨i, hmi⟩
      · obtain ⟨qe, hqe, hq1⟩ := List.mem_map.mp hq
        obtain ⟨a, b, hab⟩ := List.append_of_mem hqe
        have hsplit' : reg = a ++ qe :: (b ++ e :: post) := by rw [hsplit, hab]; simp
        have hlt : a.length < k := by rw [← hlen, hab]; simp
        obtain ⟨jq, hjq⟩ := ih a.length hlt a qe (b ++ e :: post) rfl hsplit'
        obtain ⟨_, o', ob', lo, a1, a2, _a3, _a4, a5⟩ := hgood (qe.2, jq) (lookupMemo_some_mem hjq)
        have hqin : (q, qe.2) ∈ reg := by
          rw [← hq1]; rw [hsplit']; simp
        have : o' = q := hk.obj_unique a1 hqin
        subst this
        obtain ⟨m, j, hm1, hm2⟩ := refInTree_loaded h.length o' e.1 hrt ob' lo.fields a2 a5
        have hm' : m = e.2 := hk.name_unique (lookupName_some_mem hm1) (by rw [show (e.1, e.2) = e from rfl]; exact he)
        exact ⟨_, hm' ▸ hm2⟩
  have hall' : ∀ e ∈ reg, ∃ j, lookupMemo ls.memo e.2 = some j := by
    intro e he
    obtain ⟨a, b, hab⟩ := List.append_of_mem he
    exact hall a.length a e b rfl hab
  unfold specRoundTrip
  rw [Bool.and_eq_true]
  constructor
  · -- distinct names are distinct restored objects
    unfold memoDistinct
    simp only
    have hsome : ∀ e ∈ reg, (lookupMemo ls.memo e.2).isSome = true := by
      intro e he; obtain ⟨j, hj⟩ := hall' e he; rw [hj]; rfl
    rw [filterMap_eq_map_of_some (fun e : Nat × Str => lookupMemo ls.memo e.2) 0 reg hsome]
    simp only [List.length_map, beq_self_eq_true, Bool.true_and, decide_eq_true_eq]
    apply nodup_map_on reg (nodup_of_nodup_map Prod.fst _ hk.objsNodup)
    intro e1 he1 e2 he2 heq
    obtain ⟨j1, hj1⟩ := hall' e1 he1
    obtain ⟨j2, hj2⟩ := hall' e2 he2
    simp only [hj1, hj2, Option.getD_some] at heq
    subst heq
    have hn : e1.2 = e2.2 := by
      have m1 := lookupMemo_some_mem hj1
      have m2 := lookupMemo_some_mem hj2
      have := nameOfIdx_of_mem hvnd m1
      rw [nameOfIdx_of_mem hvnd m2] at this
      exact (Option.some.inj this).symm
    have ho : e1.1 = e2.1 := hk.obj_unique (n := e1.2) he1 (by rw [hn]; exact he2)
    exact Prod.ext ho hn
  · -- every restored object looks, by name, like the saved one
    rw [decide_eq_true_eq]
    unfold viewAfter viewBefore
    apply List.map_congr_left
    intro e he
    obtain ⟨j, hj⟩ := hall' e he
    obtain ⟨_, o', ob, lo, a1, a2, a3, a4, a5⟩ := hgood (e.2, j) (lookupMemo_some_mem hj)
    have : o' = e.1 := hk.obj_unique a1 he
    subst this
    simp only [hj]
    rw [descObj_unfold reg h.length e.1 ob a2]
    obtain ⟨hlen, htok⟩ := relVals_flatten (tL := tokLWith ls.memo (descL ls.heap ls.memo ls.heap.length))
      (tV := tokVWith reg (descObj h reg h.length)) a5
      (fun v l _ hr => relV_tokens hvnd h.length v l ls.heap.length hr (fun j hj => relV_own_lt (hj ▸ hr)))
    simp only [descL, a3, a4]
    rw [htok]
    simp only [List.length_map] at hlen
    rw [hlen]


/-- **Round trip of an acyclic graph of plain classes** (sharing allowed, inlined records). -/
theorem roundtrip_acyclic_core (rank : Nat → Nat)
    (hearly : ∀ ob ∈ h, ∀ f ∈ ob.fields, f.phase = .early)
    (hacyc : ∀ o ob, h[o]? = some ob → ∀ f ∈ ob.fields, ∀ p, f.val.target = some p → rank p < rank o)
    {st : SState} {T : Table} (hs : serialize h main = .ok (st, T)) (fuel : Nat) (hfuel : rank main + 1 < fuel) :
    ∃ ls i, unserialize T fuel = (ls, .ok (.ref i)) ∧ specRoundTrip h st.reg ls = true := by
  obtain ⟨hk, hreach, hkeys, hent⟩ := serialize_spec h main hs
  have hTnd : (T.map Prod.fst).Nodup := by rw [hkeys]; exact hk.namesNodup
  have C : Ctx h main st.reg T rank := {
    regOk := hk
    tbl := fun o n hon => by
      obtain ⟨ob, h1, h2, h3⟩ := hent o n hon
      exact ⟨ob, h1, lookupRec_of_mem hTnd h2, h3⟩
    early := hearly
    acyc := hacyc }
  have hmain : (main, mainName) ∈ st.reg := lookupName_some_mem hk.mainIn
  have inv0 : LInv h st.reg initL :=
    ⟨rfl, rfl, by simp [initL], by simp [initL], by intro w hw; simp [initL] at hw, by intro e he; simp [initL] at he⟩
  obtain ⟨ls, i, hload, inv, _ext, hmi⟩ :=
    load_named C fuel fuel (Nat.le_refl _) main mainName hmain hfuel initL inv0
      (by intro w hw; simp [initL] at hw)
  exact ⟨ls, i, hload, spec_of_loaded hk hreach ls inv.good inv.valsNodup hmi⟩

end

end GlueVerif.C02
