import GlueVerif.Lemmas.C02Load
/-! Assembly of the round-trip theorem: serializer characterisation + loader invariant ⇒ the Spec. -/
namespace GlueVerif.C02

theorem nodup_map_on {α β : Type} {f : α → β} : ∀ (l : List α), l.Nodup →
    (∀ a ∈ l, ∀ b ∈ l, f a = f b → a = b) → (l.map f).Nodup
  | [], _, _ => by simp
  | a :: l, hnd, hinj => by
    simp only [List.nodup_cons] at hnd
    simp only [List.map_cons, List.nodup_cons, List.mem_map, not_exists, not_and]
    refine ⟨?_, nodup_map_on l hnd.2 (fun x hx y hy => hinj x (List.mem_cons_of_mem _ hx) y (List.mem_cons_of_mem _ hy))⟩
    intro b hb hfb
    have := hinj b (List.mem_cons_of_mem _ hb) a List.mem_cons_self hfb
    subst this
    exact hnd.1 hb

theorem nodup_of_nodup_map {α β : Type} (f : α → β) : ∀ (l : List α), (l.map f).Nodup → l.Nodup
  | [], _ => by simp
  | a :: l, h => by
    simp only [List.map_cons, List.nodup_cons] at h
    simp only [List.nodup_cons]
    exact ⟨fun ha => h.1 (List.mem_map.mpr ⟨a, ha, rfl⟩), nodup_of_nodup_map f l h.2⟩

theorem filterMap_eq_map_of_some {α β : Type} (g : α → Option β) (d : β) : ∀ (l : List α),
    (∀ a ∈ l, (g a).isSome = true) → l.filterMap g = l.map (fun a => (g a).getD d)
  | [], _ => rfl
  | a :: l, hall => by
    have ha := hall a List.mem_cons_self
    cases hg : g a with
    | none => rw [hg] at ha; cases ha
    | some b =>
      simp only [List.filterMap_cons, hg, List.map_cons, Option.getD_some]
      rw [filterMap_eq_map_of_some g d l (fun x hx => hall x (List.mem_cons_of_mem _ hx))]

theorem relVals_mem {reg : Reg} {memo : List (Str × Nat)} : ∀ {vs : List Val} {ls : List LVal},
    RelVals reg memo vs ls → ∀ v ∈ vs, ∃ l ∈ ls, RelVal reg memo v l
  | [], [], _, v, hv => by simp at hv
  | _ :: _, [], h, _, _ => by simp [RelVals] at h
  | [], _ :: _, h, _, _ => by simp [RelVals] at h
  | v0 :: vs, l0 :: ls, h, v, hv => by
    rcases List.mem_cons.mp hv with e | e
    · subst e; exact ⟨l0, List.mem_cons_self, h.1⟩
    · obtain ⟨l, hl, hr⟩ := relVals_mem h.2 v e
      exact ⟨l, List.mem_cons_of_mem _ hl, hr⟩

theorem relVals_tokens {reg : Reg} {memo : List (Str × Nat)} (hnd : (memo.map Prod.snd).Nodup)
    (recL recV : Nat → Desc) : ∀ {vs : List Val} {ls : List LVal}, RelVals reg memo vs ls →
    vs.length = ls.length ∧
    (ls.map (tokLWith memo recL)).flatten = (vs.map (tokVWith reg recV)).flatten
  | [], [], _ => ⟨rfl, rfl⟩
  | _ :: _, [], h => by simp [RelVals] at h
  | [], _ :: _, h => by simp [RelVals] at h
  | v :: vs, l :: ls, h => by
    obtain ⟨ih1, ih2⟩ := relVals_tokens hnd recL recV h.2
    refine ⟨by simp [ih1], ?_⟩
    simp only [List.map_cons, List.flatten_cons, ih2]
    congr 1
    have hr := h.1
    cases v <;> cases l <;> simp only [RelVal] at hr
    · subst hr; rfl
    · subst hr; rfl
    · obtain ⟨m, h1, h2⟩ := hr
      simp only [tokVWith, tokLWith, h1, nameOfIdx_of_mem hnd (lookupMemo_some_mem h2)]

section
variable {h : Heap} {main : Nat}

theorem descObj_unfold (reg : Reg) (f o : Nat) (ob : Obj) (hob : h[o]? = some ob) :
    descObj h reg (f + 1) o =
      .opn ob.cls ob.fields.length :: ((ob.fields.map (·.val)).map (tokVWith reg (descObj h reg f))).flatten := by
  simp only [descObj, hob, List.map_map]
  rfl

/-- From the loader invariant to the Spec: if every memo entry is `Good`, the memo table is injective
and `main` has been restored, then every registered name has been restored (by reachability along the
registration order) and the by-name views before / after coincide. -/
theorem spec_of_loaded {reg : Reg} (hk : RegOk main reg) (hreach : Reach h main reg) (ls : LState)
    (hgood : ∀ e ∈ ls.memo, Good h reg ls e.1 e.2) (hvnd : (ls.memo.map Prod.snd).Nodup)
    {i : Nat} (hmi : lookupMemo ls.memo mainName = some i) : specRoundTrip h reg ls = true := by
  have hmain : (main, mainName) ∈ reg := lookupName_some_mem hk.mainIn
  -- every registered name has been restored
  have hall : ∀ (k : Nat) (pre : Reg) (e : Nat × Str) (post : Reg), pre.length = k → reg = pre ++ e :: post →
      ∃ j, lookupMemo ls.memo e.2 = some j := by
    intro k
    induction k using Nat.strongRecOn with
    | _ k ih =>
      intro pre e post hlen hsplit
      have he : e ∈ reg := by rw [hsplit]; simp
      rcases hreach pre e post hsplit with hm | ⟨q, hq, ob, hob, f, hf, hfv⟩
      · have : e.2 = mainName := hk.name_unique (o := e.1) (by rw [show (e.1, e.2) = e from rfl]; exact he) (by rw [hm]; exact hmain)
        rw [this]; exact ⟨i, hmi⟩
      · obtain ⟨qe, hqe, hq1⟩ := List.mem_map.mp hq
        obtain ⟨a, b, hab⟩ := List.append_of_mem hqe
        have hsplit' : reg = a ++ qe :: (b ++ e :: post) := by rw [hsplit, hab]; simp
        have hlt : a.length < k := by rw [← hlen, hab]; simp
        obtain ⟨jq, hjq⟩ := ih a.length hlt a qe (b ++ e :: post) rfl hsplit'
        obtain ⟨_, o', ob', lo, a1, a2, _a3, _a4, a5⟩ := hgood (qe.2, jq) (lookupMemo_some_mem hjq)
        have hqin : (q, qe.2) ∈ reg := by
          rw [← hq1]; rw [hsplit']; simp
        have : o' = q := hk.obj_unique a1 hqin
        subst this
        rw [hob] at a2
        cases a2
        obtain ⟨l, _hl, hrel⟩ := relVals_mem a5 f.val (List.mem_map.mpr ⟨f, hf, rfl⟩)
        rw [hfv] at hrel
        cases l <;> simp only [RelVal] at hrel
        obtain ⟨m, hm1, hm2⟩ := hrel
        have hm' : m = e.2 := hk.name_unique (lookupName_some_mem hm1) (by rw [show (e.1, e.2) = e from rfl]; exact he)
        exact ⟨_, hm' ▸ hm2⟩
  have hall' : ∀ e ∈ reg, ∃ j, lookupMemo ls.memo e.2 = some j := by
    intro e he
    obtain ⟨a, b, hab⟩ := List.append_of_mem he
    exact hall a.length a e b rfl hab
  unfold specRoundTrip
  rw [Bool.and_eq_true]
  constructor
  · -- distinct names are distinct restored objects
    unfold memoDistinct
    simp only
    have hsome : ∀ e ∈ reg, (lookupMemo ls.memo e.2).isSome = true := by
      intro e he; obtain ⟨j, hj⟩ := hall' e he; rw [hj]; rfl
    rw [filterMap_eq_map_of_some (fun e : Nat × Str => lookupMemo ls.memo e.2) 0 reg hsome]
    simp only [List.length_map, beq_self_eq_true, Bool.true_and, decide_eq_true_eq]
    apply nodup_map_on reg (nodup_of_nodup_map Prod.fst _ hk.objsNodup)
    intro e1 he1 e2 he2 heq
    obtain ⟨j1, hj1⟩ := hall' e1 he1
    obtain ⟨j2, hj2⟩ := hall' e2 he2
    simp only [hj1, hj2, Option.getD_some] at heq
    subst heq
    have hn : e1.2 = e2.2 := by
      have m1 := lookupMemo_some_mem hj1
      have m2 := lookupMemo_some_mem hj2
      have := nameOfIdx_of_mem hvnd m1
      rw [nameOfIdx_of_mem hvnd m2] at this
      exact (Option.some.inj this).symm
    have ho : e1.1 = e2.1 := hk.obj_unique (n := e1.2) he1 (by rw [hn]; exact he2)
    exact Prod.ext ho hn
  · -- every restored object looks, by name, like the saved one
    rw [decide_eq_true_eq]
    unfold viewAfter viewBefore
    apply List.map_congr_left
    intro e he
    obtain ⟨j, hj⟩ := hall' e he
    obtain ⟨_, o', ob, lo, a1, a2, a3, a4, a5⟩ := hgood (e.2, j) (lookupMemo_some_mem hj)
    have : o' = e.1 := hk.obj_unique a1 he
    subst this
    simp only [hj]
    rw [descObj_unfold reg h.length e.1 ob a2]
    obtain ⟨hlen, htok⟩ := relVals_tokens (reg := reg) hvnd
      (descL ls.heap ls.memo ls.heap.length) (descObj h reg h.length) a5
    simp only [descL, a3, a4]
    rw [htok]
    simp only [List.length_map] at hlen
    rw [hlen]


/-- **Round trip of an acyclic graph of plain classes** (sharing allowed). -/
theorem roundtrip_acyclic_core (rank : Nat → Nat) (hno : NoOwn h)
    (hearly : ∀ ob ∈ h, ∀ f ∈ ob.fields, f.phase = .early)
    (hacyc : ∀ o ob, h[o]? = some ob → ∀ f ∈ ob.fields, ∀ p, f.val = .ref p → rank p < rank o)
    {st : SState} {T : Table} (hs : serialize h main = .ok (st, T)) (fuel : Nat) (hfuel : rank main + 1 < fuel) :
    ∃ ls i, unserialize T fuel = (ls, .ok (.ref i)) ∧ specRoundTrip h st.reg ls = true := by
  obtain ⟨hk, hreach, hkeys, hent⟩ := serialize_spec h main hno hs
  have hTnd : (T.map Prod.fst).Nodup := by rw [hkeys]; exact hk.namesNodup
  have C : Ctx h main st.reg T rank := {
    regOk := hk
    tbl := fun o n hon => by
      obtain ⟨ob, h1, h2, h3⟩ := hent o n hon
      exact ⟨ob, h1, lookupRec_of_mem hTnd h2, h3⟩
    early := hearly
    noOwn := hno
    acyc := hacyc }
  have hmain : (main, mainName) ∈ st.reg := lookupName_some_mem hk.mainIn
  have inv0 : LInv h st.reg initL :=
    ⟨rfl, rfl, by simp [initL], by simp [initL], by intro w hw; simp [initL] at hw, by intro e he; simp [initL] at he⟩
  obtain ⟨ls, i, hload, inv, _ext, hmi⟩ :=
    load_named C (rank main + 1) main mainName (Nat.lt_succ_self _) hmain fuel hfuel initL inv0
      (by intro w hw; simp [initL] at hw)
  exact ⟨ls, i, hload, spec_of_loaded hk hreach ls inv.good inv.valsNodup hmi⟩

end

end GlueVerif.C02
