import GlueVerif.Model.C05Cache
import GlueVerif.Lemmas.SubsetEval
/-!
C05 — `to_mask` on heaps whose memo tables may contain **stale** entries.

`toMask_specOn` generalises C01's `toMask_spec`: instead of the global invariant `CacheCoherent` it
only needs coherence of the entries the evaluation can reach (`CohOn S` for a set `S` of
(object, call form) pairs closed under "operand of").  Coherence is stated on *look-ups* (what the
`@memoize` wrapper really consults), so the converse direction — a stale consulted key is observable —
holds as well (`Props/C05.fresh_iff_no_stale`).
-/
namespace GlueVerif.C05Cache
open GlueVerif.SubsetEval

/-- The `@memoize` wrapper of object `n` consults table `t` with view `v`. -/
def Eff (tbl : ClassTable) (g : Graph) (t : Table) (n : NodeId) (v : View) : Prop :=
  v.hashable = true ∧ ∃ nd, g.nodes[n]? = some nd ∧ tbl.memoTable nd = some t

/-- Every consulted entry of an (object, call form) in `S` on `(d, v)` holds the demanded result. -/
def CohOn (tbl : ClassTable) (env : Env) (S : NodeId → Form → Prop) (d : DataId) (v : View)
    (h : Heap) : Prop :=
  ∀ (n : NodeId) (f : Form) (t : Table) (a : ArrId), S n f → Eff tbl h.g t n v →
    h.lookup ⟨t, n, d, v, f⟩ = some a →
    ∃ e m, Rep h.g n e ∧ h.arrays[a]? = some m ∧ e.denote env d v = .ok m

/-- `S` contains the operands of its members, in the call form the code uses for them. -/
structure Closed (g : Graph) (S : NodeId → Form → Prop) : Prop where
  bin : ∀ (n : NodeId) (f : Form) (op : BinOp) (l r : NodeId), S n f →
    g.nodes[n]? = some (.bin op l r) → S l .pos ∧ S r .pos
  inv : ∀ (n : NodeId) (f : Form) (c : NodeId), S n f → g.nodes[n]? = some (.inv c) → S c .pos
  mor : ∀ (n : NodeId) (f : Form) (lst : ListId) (cs : List NodeId) (c : NodeId), S n f →
    g.nodes[n]? = some (.multiOr lst) → g.lists[lst]? = some cs → c ∈ cs → S c .kw

def LookupMono (h h' : Heap) : Prop := ∀ k a, h.lookup k = some a → h'.lookup k = some a

theorem LookupMono.refl (h : Heap) : LookupMono h h := fun _ _ x => x

theorem LookupMono.trans {a b c : Heap} (h1 : LookupMono a b) (h2 : LookupMono b c) : LookupMono a c :=
  fun k x hx => h2 k x (h1 k x hx)

theorem Heap.lookup_of_mem {h : Heap} {x : MemoEntry} (hx : x ∈ h.memo) :
    ∃ a, h.lookup x.key = some a := by
  simp only [Heap.lookup]
  cases hf : h.memo.find? (fun y => y.key = x.key) with
  | some y => exact ⟨y.arr, rfl⟩
  | none =>
    have := List.find?_eq_none.mp hf x hx
    simp at this

theorem Heap.lookup_store (h : Heap) (k k' : Key) (a : ArrId) :
    (h.store k a).lookup k' =
      match h.lookup k' with
      | some x => some x
      | none => if k = k' then some a else none := by
  simp only [Heap.lookup, Heap.store, List.find?_append]
  cases hf : h.memo.find? (fun x => x.key = k') with
  | some y => simp
  | none =>
    by_cases hk : k = k'
    · simp [hk]
    · simp [hk]

theorem Heap.lookup_alloc (h : Heap) (m : Mask) (k : Key) : (h.alloc m).1.lookup k = h.lookup k := rfl

structure PostOn (tbl : ClassTable) (env : Env) (S : NodeId → Form → Prop) (h : Heap) (e : Expr)
    (d : DataId) (v : View) (out : Heap × Except Err ArrId) : Prop where
  g : out.1.g = h.g
  ext : ArrExt h out.1
  fresh : MemoFresh h out.1
  mono : LookupMono h out.1
  coh : CohOn tbl env S d v out.1
  res : ResOk env out.1 e d v out.2

/-- Coherence survives anything that keeps the memo, the graph and the consulted arrays. -/
theorem CohOn.of_ext {tbl : ClassTable} {env : Env} {S : NodeId → Form → Prop} {d : DataId} {v : View}
    {h h' : Heap} (hc : CohOn tbl env S d v h) (hg : h'.g = h.g) (hm : h'.memo = h.memo)
    (hx : ArrExt h h') : CohOn tbl env S d v h' := by
  intro n f t a hs he hl
  rw [hg] at he
  have hl' : h.lookup ⟨t, n, d, v, f⟩ = some a := by
    simp only [Heap.lookup] at hl ⊢; rw [hm] at hl; exact hl
  obtain ⟨e, m, r, harr, hd⟩ := hc n f t a hs he hl'
  exact ⟨e, m, by rw [hg]; exact r, hx.get harr, hd⟩

def RecOn (tbl : ClassTable) (env : Env) (S : NodeId → Form → Prop) (g : Graph) (k : Nat) (d : DataId)
    (v : View) (rec : Heap → NodeId → Form → Heap × Except Err ArrId) : Prop :=
  ∀ (h' : Heap) (c : Nat) (f : Form) (e' : Expr), h'.g = g → CohOn tbl env S d v h' → Rep g c e' →
    S c f → e'.depth < k → PostOn tbl env S h' e' d v (rec h' c f)

/-- No consulted entry of `S` refers to the array `acc`. -/
def NoRef (tbl : ClassTable) (S : NodeId → Form → Prop) (d : DataId) (v : View) (h : Heap) (acc : ArrId) :
    Prop :=
  ∀ (n : NodeId) (f : Form) (t : Table) (a : ArrId), S n f → Eff tbl h.g t n v →
    h.lookup ⟨t, n, d, v, f⟩ = some a → a ≠ acc

structure LoopPostOn (tbl : ClassTable) (env : Env) (S : NodeId → Form → Prop) (h : Heap) (acc : Nat)
    (macc : Mask) (es : List Expr) (d : DataId) (v : View) (out : Heap × Except Err Unit) : Prop where
  g : out.1.g = h.g
  len : h.arrays.length ≤ out.1.arrays.length
  keep : ∀ i : Nat, i < h.arrays.length → i ≠ acc → out.1.arrays[i]? = h.arrays[i]?
  fresh : MemoFresh h out.1
  mono : LookupMono h out.1
  coh : CohOn tbl env S d v out.1
  res : match out.2 with
    | .ok _ => ∃ m, out.1.arrays[acc]? = some m ∧ orFold env d v macc es = .ok m
    | .error er => orFold env d v macc es = .error er

theorem orLoop_specOn {tbl : ClassTable} {env : Env} {S : NodeId → Form → Prop} {g : Graph} {k : Nat}
    {d : DataId} {v : View} {rec : Heap → NodeId → Form → Heap × Except Err ArrId}
    (hrec : RecOn tbl env S g k d v rec) (acc : Nat) (b : Nat) :
    ∀ (cs : List Nat) (es : List Expr) (h : Heap) (macc : Mask),
      h.g = g → CohOn tbl env S d v h → NoRef tbl S d v h acc → h.arrays[acc]? = some macc →
      RepList g b cs es → (∀ c ∈ cs, S c .kw) → (∀ e ∈ es, e.depth < k) →
      LoopPostOn tbl env S h acc macc es d v (orLoop (fun h' c' => rec h' c' .kw) h acc cs) := by
  intro cs
  induction cs with
  | nil =>
    intro es h macc hg hc hno hacc hrl hS hdep
    cases es with
    | cons _ _ => simp only [RepList] at hrl
    | nil =>
      simp only [orLoop]
      exact ⟨rfl, Nat.le_refl _, fun _ _ _ => rfl, MemoFresh.refl _, LookupMono.refl _, hc,
        ⟨macc, hacc, by simp only [orFold]⟩⟩
  | cons c cs ih =>
    intro es h macc hg hc hno hacc hrl hS hdep
    cases es with
    | nil => simp only [RepList] at hrl
    | cons e es =>
      simp only [RepList] at hrl
      obtain ⟨_, hre, hrl'⟩ := hrl
      have hp := hrec h c .kw e hg hc hre (hS c (by simp)) (hdep e (by simp))
      have hacclt : acc < h.arrays.length := lt_length_of_getElem? hacc
      simp only [orLoop]
      rcases hr : rec h c .kw with ⟨h1, r1⟩
      rw [hr] at hp
      have pg : h1.g = h.g := hp.g
      have pext : ArrExt h h1 := hp.ext
      have pfresh : MemoFresh h h1 := hp.fresh
      have pmono : LookupMono h h1 := hp.mono
      have pcoh : CohOn tbl env S d v h1 := hp.coh
      have hno1 : NoRef tbl S d v h1 acc := by
        intro n f t a hs he hl
        obtain ⟨x, hx, hk, ha⟩ := Heap.lookup_some hl
        rcases pfresh x hx with hm | hm
        · obtain ⟨a', ha'⟩ := Heap.lookup_of_mem hm
          rw [hk] at ha'
          have h1l := pmono _ _ ha'
          rw [hl] at h1l
          cases h1l
          exact hno n f t a hs (by rw [← pg]; exact he) ha'
        · intro hh; rw [ha, hh] at hm; exact absurd hacclt (Nat.not_lt.mpr hm)
      cases r1 with
      | error er =>
        have hres : e.denote env d v = .error er := hp.res
        refine ⟨pg, pext.1, fun i hi _ => pext.2 i hi, pfresh, pmono, pcoh, ?_⟩
        simp only [orFold, hres]
      | ok a =>
        obtain ⟨y, hay, hey⟩ : ∃ m, h1.arrays[a]? = some m ∧ e.denote env d v = .ok m := hp.res
        have hacc1 : h1.arrays[acc]? = some macc := pext.get hacc
        simp only [Heap.ior, hacc1, hay]
        cases hb : Mask.binop .or macc y with
        | error er =>
          refine ⟨pg, pext.1, fun i hi _ => pext.2 i hi, pfresh, pmono, pcoh, ?_⟩
          simp only [orFold, hey, hb]
        | ok m2 =>
          have hacclt1 : acc < h1.arrays.length := lt_length_of_getElem? hacc1
          have hc2 : CohOn tbl env S d v { h1 with arrays := h1.arrays.set acc m2 } := by
            intro n f t a' hs he hl
            obtain ⟨e', m', r', harr, hd'⟩ := pcoh n f t a' hs he hl
            refine ⟨e', m', r', ?_, hd'⟩
            show (h1.arrays.set acc m2)[a']? = some m'
            rw [List.getElem?_set_ne (fun hh => hno1 n f t a' hs he hl hh.symm)]
            exact harr
          have hno2 : NoRef tbl S d v { h1 with arrays := h1.arrays.set acc m2 } acc := hno1
          have hq := ih es { h1 with arrays := h1.arrays.set acc m2 } m2 (by rw [pg, hg]) hc2 hno2
            (List.getElem?_set_self hacclt1) hrl' (fun c' hc' => hS c' (by simp [hc']))
            (fun e' he' => hdep e' (by simp [he']))
          refine ⟨by rw [hq.g]; exact pg, ?_, ?_, ?_, ?_, hq.coh, ?_⟩
          · have := hq.len; simp only [List.length_set] at this; exact Nat.le_trans pext.1 this
          · intro i hi hne
            have h1i : i < h1.arrays.length := Nat.lt_of_lt_of_le hi pext.1
            rw [hq.keep i (by simp only [List.length_set]; exact h1i) hne]
            show (h1.arrays.set acc m2)[i]? = _
            rw [List.getElem?_set_ne (fun hh => hne hh.symm)]
            exact pext.2 i hi
          · intro x hx
            rcases hq.fresh x hx with hm | hm
            · exact pfresh x hm
            · simp only [List.length_set] at hm
              exact Or.inr (Nat.le_trans pext.1 hm)
          · exact fun k' a' hk' => hq.mono k' a' (pmono k' a' hk')
          · have := hq.res
            revert this
            cases (orLoop (fun h' c' => rec h' c' .kw) { h1 with arrays := h1.arrays.set acc m2 } acc cs).2 with
            | ok _ => intro this; simp only [orFold, hey, hb]; exact this
            | error er => intro this; simp only [orFold, hey, hb]; exact this

theorem PostOn.alloc {tbl : ClassTable} {env : Env} {S : NodeId → Form → Prop} {h h1 : Heap} {e : Expr}
    {d : DataId} {v : View} {m : Mask}
    (hg : h1.g = h.g) (hx : ArrExt h h1) (hf : MemoFresh h h1) (hm : LookupMono h h1)
    (hc : CohOn tbl env S d v h1) (hd : e.denote env d v = .ok m) :
    PostOn tbl env S h e d v ((h1.alloc m).1, .ok (h1.alloc m).2) ∧ h.arrays.length ≤ (h1.alloc m).2 :=
  ⟨⟨hg, hx.trans (ArrExt.alloc h1 m), hf, hm, hc.of_ext rfl rfl (ArrExt.alloc h1 m),
    ⟨m, h1.alloc_get m, hd⟩⟩, hx.1⟩

theorem evalBody_specOn {tbl : ClassTable} {env : Env} {S : NodeId → Form → Prop} {g : Graph} {k : Nat}
    {d : DataId} {v : View} {rec : Heap → NodeId → Form → Heap × Except Err ArrId}
    (hrec : RecOn tbl env S g k d v rec) (hcl : Closed g S)
    (h : Heap) (n : Nat) (f : Form) (node : Node) (e : Expr)
    (hg : h.g = g) (hc : CohOn tbl env S d v h) (hrep : Rep g n e) (hS : S n f)
    (hnode : g.nodes[n]? = some node) (hd : e.depth ≤ k) :
    PostOn tbl env S h e d v (evalBody env rec h node d v) ∧
      ∀ a, (evalBody env rec h node d v).2 = .ok a → h.arrays.length ≤ a := by
  cases e with
  | leaf c =>
    simp only [Rep] at hrep
    obtain ⟨kd, p, h1, h2⟩ := hrep
    rw [h1] at hnode; cases hnode
    simp only [evalBody, hg, h2]
    cases hl : env.leaf c d v with
    | error er =>
      exact ⟨⟨rfl, ArrExt.refl _, MemoFresh.refl _, LookupMono.refl _, hc,
        by simp only [ResOk, Expr.denote, hl]⟩, fun a ha => by cases ha⟩
    | ok m =>
      have := PostOn.alloc (tbl := tbl) (S := S) (e := .leaf c) (d := d) (v := v) (m := m) rfl
        (ArrExt.refl h) (MemoFresh.refl h) (LookupMono.refl h) hc (by simp only [Expr.denote, hl])
      exact ⟨this.1, fun a ha => by cases ha; exact this.2⟩
  | bin op ea eb =>
    simp only [Rep] at hrep
    obtain ⟨l, r, h1, _, _, ha, hb⟩ := hrep
    rw [h1] at hnode; cases hnode
    simp only [Expr.depth] at hd
    obtain ⟨hSl, hSr⟩ := hcl.bin n f op l r hS h1
    have hp1 := hrec h l .pos ea hg hc ha hSl (by omega)
    simp only [evalBody]
    rcases hr1 : rec h l .pos with ⟨h1', r1⟩
    rw [hr1] at hp1
    have pg1 : h1'.g = h.g := hp1.g
    have px1 : ArrExt h h1' := hp1.ext
    have pf1 : MemoFresh h h1' := hp1.fresh
    have pm1 : LookupMono h h1' := hp1.mono
    have pc1 : CohOn tbl env S d v h1' := hp1.coh
    cases r1 with
    | error er =>
      have hres : ea.denote env d v = .error er := hp1.res
      exact ⟨⟨pg1, px1, pf1, pm1, pc1, by simp only [ResOk, Expr.denote, hres]⟩, fun a ha => by cases ha⟩
    | ok a1 =>
      obtain ⟨ma, ha1, hea⟩ : ∃ m, h1'.arrays[a1]? = some m ∧ ea.denote env d v = .ok m := hp1.res
      dsimp only
      have hp2 := hrec h1' r .pos eb (by rw [pg1, hg]) pc1 hb hSr (by omega)
      rcases hr2 : rec h1' r .pos with ⟨h2', r2⟩
      rw [hr2] at hp2
      have pg2 : h2'.g = h1'.g := hp2.g
      have px2 : ArrExt h1' h2' := hp2.ext
      have pf2 : MemoFresh h1' h2' := hp2.fresh
      have pm2 : LookupMono h1' h2' := hp2.mono
      have pc2 : CohOn tbl env S d v h2' := hp2.coh
      have pf : MemoFresh h h2' := pf1.trans pf2 px1.1
      have pm : LookupMono h h2' := pm1.trans pm2
      cases r2 with
      | error er =>
        have hres : eb.denote env d v = .error er := hp2.res
        exact ⟨⟨by rw [pg2, pg1], px1.trans px2, pf, pm, pc2, by simp only [ResOk, Expr.denote, hea, hres]⟩,
          fun a ha => by cases ha⟩
      | ok b1 =>
        obtain ⟨mb, hb1, heb⟩ : ∃ m, h2'.arrays[b1]? = some m ∧ eb.denote env d v = .ok m := hp2.res
        have ha2 : h2'.arrays[a1]? = some ma := px2.get ha1
        simp only [ha2, hb1]
        cases hop : Mask.binop op ma mb with
        | error er =>
          exact ⟨⟨by rw [pg2, pg1], px1.trans px2, pf, pm, pc2,
            by simp only [ResOk, Expr.denote, hea, heb, hop]⟩, fun a ha => by cases ha⟩
        | ok m =>
          have := PostOn.alloc (tbl := tbl) (S := S) (e := .bin op ea eb) (d := d) (v := v) (m := m) (h := h)
            (h1 := h2') (by rw [pg2, pg1]) (px1.trans px2) pf pm pc2 (by simp only [Expr.denote, hea, heb, hop])
          exact ⟨this.1, fun a ha => by cases ha; exact this.2⟩
  | inv ea =>
    simp only [Rep] at hrep
    obtain ⟨c, h1, _, ha⟩ := hrep
    rw [h1] at hnode; cases hnode
    simp only [Expr.depth] at hd
    have hSc := hcl.inv n f c hS h1
    have hp1 := hrec h c .pos ea hg hc ha hSc (by omega)
    simp only [evalBody]
    rcases hr1 : rec h c .pos with ⟨h1', r1⟩
    rw [hr1] at hp1
    have pg1 : h1'.g = h.g := hp1.g
    have px1 : ArrExt h h1' := hp1.ext
    have pf1 : MemoFresh h h1' := hp1.fresh
    have pm1 : LookupMono h h1' := hp1.mono
    have pc1 : CohOn tbl env S d v h1' := hp1.coh
    cases r1 with
    | error er =>
      have hres : ea.denote env d v = .error er := hp1.res
      exact ⟨⟨pg1, px1, pf1, pm1, pc1, by simp only [ResOk, Expr.denote, hres]⟩, fun a ha => by cases ha⟩
    | ok a1 =>
      obtain ⟨ma, ha1, hea⟩ : ∃ m, h1'.arrays[a1]? = some m ∧ ea.denote env d v = .ok m := hp1.res
      simp only [ha1]
      have := PostOn.alloc (tbl := tbl) (S := S) (e := .inv ea) (d := d) (v := v) (m := ma.not) (h := h)
        (h1 := h1') pg1 px1 pf1 pm1 pc1 (by simp only [Expr.denote, hea])
      exact ⟨this.1, fun a ha => by cases ha; exact this.2⟩
  | multiOr es =>
    simp only [Rep] at hrep
    obtain ⟨lst, cs, h1, h2, hne, h3⟩ := hrep
    rw [h1] at hnode; cases hnode
    simp only [Expr.depth] at hd
    have hSall : ∀ c ∈ cs, S c .kw := fun c hc' => hcl.mor n f lst cs c hS h1 h2 hc'
    cases es with
    | nil => exact absurd rfl hne
    | cons e0 es' =>
      cases cs with
      | nil => simp only [RepList] at h3
      | cons c cs' =>
        simp only [RepList] at h3
        obtain ⟨_, hr0, hrl⟩ := h3
        simp only [depthList] at hd
        have hp1 := hrec h c .kw e0 hg hc hr0 (hSall c (by simp)) (by omega)
        simp only [evalBody, hg, h2]
        rcases hr1 : rec h c .kw with ⟨h1', r1⟩
        rw [hr1] at hp1
        have pg1 : h1'.g = h.g := hp1.g
        have px1 : ArrExt h h1' := hp1.ext
        have pf1 : MemoFresh h h1' := hp1.fresh
        have pm1 : LookupMono h h1' := hp1.mono
        have pc1 : CohOn tbl env S d v h1' := hp1.coh
        cases r1 with
        | error er =>
          have hres : e0.denote env d v = .error er := hp1.res
          exact ⟨⟨pg1, px1, pf1, pm1, pc1, by simp only [ResOk, Expr.denote, denoteOr, hres]⟩,
            fun a ha => by cases ha⟩
        | ok a0 =>
          obtain ⟨m0, ha0, he0⟩ : ∃ m, h1'.arrays[a0]? = some m ∧ e0.denote env d v = .ok m := hp1.res
          simp only [ha0]
          have hdeps : ∀ e ∈ es', e.depth < k := by
            intro e he
            have : e.depth ≤ depthList es' := by
              clear hrl hd hne
              induction es' with
              | nil => cases he
              | cons x xs ih =>
                simp only [depthList]
                rcases List.mem_cons.mp he with rfl | hm
                · omega
                · have := ih hm; omega
            omega
          have hc2 : CohOn tbl env S d v (h1'.alloc m0).1 := pc1.of_ext rfl rfl (ArrExt.alloc h1' m0)
          have hno : NoRef tbl S d v (h1'.alloc m0).1 (h1'.alloc m0).2 := by
            intro n' f' t' a' hs' he' hl' hh
            obtain ⟨_, mm, _, hxa, _⟩ := pc1 n' f' t' a' hs' he' hl'
            have := lt_length_of_getElem? hxa
            rw [hh] at this
            exact Nat.lt_irrefl _ this
          have hq := orLoop_specOn hrec (h1'.alloc m0).2 n cs' es' (h1'.alloc m0).1 m0
            (by show h1'.g = g; rw [pg1, hg]) hc2 hno (h1'.alloc_get m0) hrl
            (fun c' hc' => hSall c' (by simp [hc'])) hdeps
          rcases hr3 : orLoop (fun h' c' => rec h' c' .kw) (h1'.alloc m0).1 (h1'.alloc m0).2 cs' with ⟨h3', r3⟩
          rw [hr3] at hq
          have qg : h3'.g = (h1'.alloc m0).1.g := hq.g
          have qlen : (h1'.alloc m0).1.arrays.length ≤ h3'.arrays.length := hq.len
          have qkeep : ∀ i : Nat, i < (h1'.alloc m0).1.arrays.length → i ≠ (h1'.alloc m0).2 →
              h3'.arrays[i]? = (h1'.alloc m0).1.arrays[i]? := hq.keep
          have qfresh : MemoFresh (h1'.alloc m0).1 h3' := hq.fresh
          have qmono : LookupMono (h1'.alloc m0).1 h3' := hq.mono
          have qcoh : CohOn tbl env S d v h3' := hq.coh
          have hlen2 : (h1'.alloc m0).1.arrays.length = h1'.arrays.length + 1 := by simp [Heap.alloc]
          have hacc : (h1'.alloc m0).2 = h1'.arrays.length := rfl
          have hext : ArrExt h h3' := by
            refine ⟨by have := px1.1; omega, ?_⟩
            intro i hi
            have hi1 : i < h1'.arrays.length := Nat.lt_of_lt_of_le hi px1.1
            rw [qkeep i (by omega) (by show i ≠ h1'.arrays.length; exact Nat.ne_of_lt hi1)]
            rw [(ArrExt.alloc h1' m0).2 i hi1]
            exact px1.2 i hi
          have hfr : MemoFresh h h3' := by
            intro x hx
            rcases qfresh x hx with hm | hm
            · exact pf1 x hm
            · exact Or.inr (by have := px1.1; omega)
          have hmo : LookupMono h h3' := fun k' a' hk' => qmono k' a' (pm1 k' a' hk')
          cases r3 with
          | error er =>
            have hres : orFold env d v m0 es' = .error er := hq.res
            exact ⟨⟨by rw [qg]; exact pg1, hext, hfr, hmo, qcoh,
              by simp only [ResOk, Expr.denote, denoteOr, he0, hres]⟩, fun a ha => by cases ha⟩
          | ok u =>
            obtain ⟨m', hm', hfold⟩ : ∃ m, h3'.arrays[(h1'.alloc m0).2]? = some m ∧
                orFold env d v m0 es' = .ok m := hq.res
            refine ⟨⟨by rw [qg]; exact pg1, hext, hfr, hmo, qcoh, ⟨m', hm', ?_⟩⟩, ?_⟩
            · simp only [Expr.denote, denoteOr, he0, hfold]
            · intro a ha; cases ha; exact px1.1

/-- **`to_mask` with possibly stale tables**: if every entry that can be consulted below `(n, f)` on
`(d, v)` is coherent, the result is `denote` of the value the object stands for (or the same
exception), and that coherence still holds afterwards. -/
theorem toMask_specOn (tbl : ClassTable) (env : Env) (S : NodeId → Form → Prop) :
    ∀ (fuel : Nat) (h : Heap) (n : Nat) (d : DataId) (v : View) (f : Form) (e : Expr),
      Closed h.g S → CohOn tbl env S d v h → Rep h.g n e → S n f → e.depth < fuel →
      PostOn tbl env S h e d v (toMask tbl env fuel h n d v f) := by
  intro fuel
  induction fuel with
  | zero => intro h n d v f e _ _ _ _ hd; omega
  | succ fuel ih =>
    intro h n d v f e hcl hc hrep hS hd
    obtain ⟨node, hnode⟩ := hrep.node
    have hrec : RecOn tbl env S h.g fuel d v (fun h' c f' => toMask tbl env fuel h' c d v f') := by
      intro h' c f' e' hg' hc' hr' hs' hd'
      exact ih h' c d v f' e' (by rw [hg']; exact hcl) hc' (by rw [hg']; exact hr') hs' hd'
    have hbody := evalBody_specOn hrec hcl h n f node e rfl hc hrep hS hnode (by omega)
    simp only [toMask, hnode]
    cases hm : tbl.memoTable node with
    | none => exact hbody.1
    | some t =>
      cases hv : v.hashable with
      | false => exact hbody.1
      | true =>
        dsimp only
        have heff : Eff tbl h.g t n v := ⟨hv, node, hnode, hm⟩
        cases hl : h.lookup ⟨t, n, d, v, f⟩ with
        | some a =>
          obtain ⟨e', m, hr', harr, hden⟩ := hc n f t a hS heff hl
          have : e' = e := Rep.functional e' e n hr' hrep
          subst this
          exact ⟨rfl, ArrExt.refl _, MemoFresh.refl _, LookupMono.refl _, hc, ⟨m, harr, hden⟩⟩
        | none =>
          rcases hb : evalBody env (fun h' c f' => toMask tbl env fuel h' c d v f') h node d v with ⟨h', r⟩
          rw [hb] at hbody
          obtain ⟨hp, hnew⟩ := hbody
          have pg : h'.g = h.g := hp.g
          have px : ArrExt h h' := hp.ext
          have pf : MemoFresh h h' := hp.fresh
          have pm : LookupMono h h' := hp.mono
          have pc : CohOn tbl env S d v h' := hp.coh
          cases r with
          | error er => exact ⟨pg, px, pf, pm, pc, hp.res⟩
          | ok a =>
            obtain ⟨m, harr, hden⟩ : ∃ m, h'.arrays[a]? = some m ∧ e.denote env d v = .ok m := hp.res
            have hfresh : h.arrays.length ≤ a := hnew a rfl
            refine ⟨pg, px, ?_, ?_, ?_, ⟨m, harr, hden⟩⟩
            · intro x hx
              simp only [Heap.store, List.mem_append, List.mem_singleton] at hx
              rcases hx with hx | rfl
              · exact pf x hx
              · exact Or.inr hfresh
            · intro k' a' hk'
              rw [Heap.lookup_store, pm k' a' hk']
            · intro n' f' t' a' hs' he' hl'
              rw [Heap.lookup_store] at hl'
              cases hl2 : h'.lookup ⟨t', n', d, v, f'⟩ with
              | some x =>
                rw [hl2] at hl'
                simp only [Option.some.injEq] at hl'
                subst hl'
                exact pc n' f' t' x hs' he' hl2
              | none =>
                rw [hl2] at hl'
                by_cases hk : (⟨t, n, d, v, f⟩ : Key) = ⟨t', n', d, v, f'⟩
                · simp only [hk, if_true] at hl'
                  cases hl'
                  cases hk
                  exact ⟨e, m, by show Rep h'.g n e; rw [pg]; exact hrep, harr, hden⟩
                · simp only [hk, if_false] at hl'
                  cases hl'

end GlueVerif.C05Cache
