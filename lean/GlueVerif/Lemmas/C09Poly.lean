import GlueVerif.Model.C09Roi
import Mathlib.Tactic.Linarith
import Mathlib.Tactic.Ring
import Mathlib.Tactic.FieldSimp
import Mathlib.Algebra.Order.Field.Rat
/-!
Helper lemmas for C09: the even-odd rule.

* `chain_parity` — along a closed vertex chain a Boolean vertex flag changes an even number of times;
* `cross_quadrant` / `evenOdd_swap` — direction independence: for a point off the boundary the
  parity of crossings of the `+x` ray equals that of the `+y` ray (so matplotlib's test is
  invariant under exchanging the coordinates);
* `evenOdd_imp_bbox` — the bounding-box prefilter of `points_inside_poly` never drops an inside point.
-/
namespace GlueVerif.C09.Lemmas

/-- Pure arithmetic core of direction independence (coordinates relative to the test point). -/
theorem quadrant_core (ua va ub vb : Rat)
    (h : ¬((vb * ua - ub * va = 0) ∧ min ua ub ≤ 0 ∧ 0 ≤ max ua ub ∧ min va vb ≤ 0 ∧ 0 ≤ max va vb)) :
    (((decide (va ≥ 0) != decide (vb ≥ 0)) && (decide (vb * ua - ub * va ≥ 0) == decide (vb ≥ 0))) !=
     ((decide (ua ≥ 0) != decide (ub ≥ 0)) && (decide (vb * ua - ub * va ≤ 0) == decide (ub ≥ 0)))) =
    ((decide (ua ≥ 0) && decide (va ≥ 0)) != (decide (ub ≥ 0) && decide (vb ≥ 0))) := by
  have key : vb * ua - ub * va = 0 → ¬(min ua ub ≤ 0 ∧ 0 ≤ max ua ub ∧ min va vb ≤ 0 ∧ 0 ≤ max va vb) :=
    fun h0 hb => h ⟨h0, hb⟩
  generalize h1 : decide (va ≥ 0) = b1
  generalize h2 : decide (vb ≥ 0) = b2
  generalize h3 : decide (ua ≥ 0) = b3
  generalize h4 : decide (ub ≥ 0) = b4
  generalize hD1 : decide (vb * ua - ub * va ≥ 0) = b5
  generalize hD2 : decide (vb * ua - ub * va ≤ 0) = b6
  cases b1 <;> cases b2 <;> cases b3 <;> cases b4 <;> cases b5 <;> cases b6 <;>
    first
    | rfl
    | (exfalso
       simp only [decide_eq_true_eq, decide_eq_false_iff_not, ge_iff_le, not_le] at h1 h2 h3 h4 hD1 hD2
       first
       | nlinarith
       | (have h0 : vb * ua - ub * va = 0 := le_antisymm hD2 hD1
          apply key h0
          refine ⟨?_, ?_, ?_, ?_⟩ <;> simp only [min_le_iff, le_max_iff] <;>
            first | (left; linarith) | (right; linarith) | (left; nlinarith)))

/-- Crossing rule for the `+y` ray: matplotlib's rule with the coordinates exchanged. -/
def crossV (a b p : Pt) : Bool := crossH a.swap b.swap p.swap

theorem crossV_def (a b p : Pt) : crossV a b p =
    ((decide (a.x ≥ p.x) != decide (b.x ≥ p.x)) &&
     (decide ((b.x - p.x) * (a.y - b.y) ≥ (b.y - p.y) * (a.x - b.x)) == decide (b.x ≥ p.x))) := rfl

/-- `q` lies in the closed quadrant above and to the right of `p`. -/
def inQ (p q : Pt) : Bool := decide (q.x ≥ p.x) && decide (q.y ≥ p.y)

theorem decide_congr {p q : Prop} [Decidable p] [Decidable q] (h : p ↔ q) : decide p = decide q :=
  decide_eq_decide.mpr h

/-- For an edge not through `p`: the edge crosses exactly one of the two rays iff exactly one
endpoint lies in the quadrant. -/
theorem cross_quadrant (a b p : Pt) (h : onSeg a b p = false) :
    (crossH a b p != crossV a b p) = (inQ p a != inQ p b) := by
  have hq := quadrant_core (a.x - p.x) (a.y - p.y) (b.x - p.x) (b.y - p.y) (by
    intro ⟨h0, h1, h2, h3, h4⟩
    have : onSeg a b p = true := by
      unfold onSeg
      simp only [Bool.and_eq_true, decide_eq_true_eq]
      simp only [min_le_iff, le_max_iff] at h1 h2 h3 h4 ⊢
      refine ⟨⟨⟨⟨?_, ?_⟩, ?_⟩, ?_⟩, ?_⟩
      · linarith
      · rcases h1 with h | h <;> [left; right] <;> linarith
      · rcases h2 with h | h <;> [left; right] <;> linarith
      · rcases h3 with h | h <;> [left; right] <;> linarith
      · rcases h4 with h | h <;> [left; right] <;> linarith
    rw [h] at this; exact Bool.noConfusion this)
  have e1 : decide (a.y ≥ p.y) = decide (a.y - p.y ≥ 0) := decide_congr ⟨fun h => by linarith, fun h => by linarith⟩
  have e2 : decide (b.y ≥ p.y) = decide (b.y - p.y ≥ 0) := decide_congr ⟨fun h => by linarith, fun h => by linarith⟩
  have e3 : decide (a.x ≥ p.x) = decide (a.x - p.x ≥ 0) := decide_congr ⟨fun h => by linarith, fun h => by linarith⟩
  have e4 : decide (b.x ≥ p.x) = decide (b.x - p.x ≥ 0) := decide_congr ⟨fun h => by linarith, fun h => by linarith⟩
  have e5 : decide ((b.y - p.y) * (a.x - b.x) ≥ (b.x - p.x) * (a.y - b.y)) =
      decide ((b.y - p.y) * (a.x - p.x) - (b.x - p.x) * (a.y - p.y) ≥ 0) :=
    decide_congr ⟨fun h => by linarith, fun h => by linarith⟩
  have e6 : decide ((b.x - p.x) * (a.y - b.y) ≥ (b.y - p.y) * (a.x - b.x)) =
      decide ((b.y - p.y) * (a.x - p.x) - (b.x - p.x) * (a.y - p.y) ≤ 0) :=
    decide_congr ⟨fun h => by linarith, fun h => by linarith⟩
  rw [crossV_def]
  unfold crossH inQ
  rw [e1, e2, e3, e4, e5, e6]
  exact hq

/-! ## parity along a closed chain -/

theorem xorAll_map_bne {α : Type} (l : List α) (f g : α → Bool) :
    xorAll (l.map fun e => f e != g e) = (xorAll (l.map f) != xorAll (l.map g)) := by
  induction l with
  | nil => rfl
  | cons x xs ih =>
    simp only [List.map_cons, xorAll, ih]
    cases f x <;> cases g x <;> cases xorAll (xs.map f) <;> cases xorAll (xs.map g) <;> rfl

theorem xorAll_append (l1 l2 : List Bool) : xorAll (l1 ++ l2) = (xorAll l1 != xorAll l2) := by
  induction l1 with
  | nil => simp [xorAll]
  | cons x xs ih =>
    simp only [List.cons_append, xorAll, ih]
    cases x <;> cases xorAll xs <;> cases xorAll l2 <;> rfl

theorem xorAll_eq_false_of_all_false (l : List Bool) (h : ∀ b ∈ l, b = false) : xorAll l = false := by
  induction l with
  | nil => rfl
  | cons x xs ih =>
    have hx := h x (by simp)
    have := ih (fun b hb => h b (List.mem_cons_of_mem _ hb))
    simp [xorAll, hx, this]

/-- Along a vertex chain a Boolean flag changes an odd number of times iff the end flags differ. -/
theorem chain_parity (g : Pt → Bool) (a : Pt) (ws : List Pt) :
    xorAll ((consecEdges (a :: ws)).map fun e => g e.1 != g e.2) =
      (g a != g ((a :: ws).getLast (by simp))) := by
  induction ws generalizing a with
  | nil => simp [consecEdges, xorAll]
  | cons b rest ih =>
    have hl : (a :: b :: rest).getLast (by simp) = (b :: rest).getLast (by simp) := by
      simp [List.getLast_cons]
    simp only [consecEdges, List.map_cons, xorAll, ih b, hl]
    cases g a <;> cases g b <;> cases g ((b :: rest).getLast (by simp)) <;> rfl

/-- Around a closed polygon every vertex flag changes an even number of times. -/
theorem cyclic_parity (g : Pt → Bool) (vs : List Pt) :
    xorAll ((cyclicEdges vs).map fun e => g e.1 != g e.2) = false := by
  cases vs with
  | nil => rfl
  | cons v rest =>
    have := chain_parity g v (rest ++ [v])
    simp only [cyclicEdges, List.cons_append]
    rw [this]
    simp

theorem consecEdges_map (f : Pt → Pt) (ws : List Pt) :
    consecEdges (ws.map f) = (consecEdges ws).map fun e => (f e.1, f e.2) := by
  induction ws with
  | nil => rfl
  | cons a rest ih =>
    cases rest with
    | nil => rfl
    | cons b rest' =>
      simp only [List.map_cons, consecEdges, List.cons.injEq, true_and]
      simpa using ih

theorem cyclicEdges_map (f : Pt → Pt) (vs : List Pt) :
    cyclicEdges (vs.map f) = (cyclicEdges vs).map fun e => (f e.1, f e.2) := by
  cases vs with
  | nil => rfl
  | cons v rest =>
    simp only [cyclicEdges, List.map_cons]
    rw [← consecEdges_map]
    simp

theorem mem_consecEdges (ws : List Pt) (e : Pt × Pt) (h : e ∈ consecEdges ws) : e.1 ∈ ws ∧ e.2 ∈ ws := by
  induction ws with
  | nil => simp [consecEdges] at h
  | cons a rest ih =>
    cases rest with
    | nil => simp [consecEdges] at h
    | cons b rest' =>
      simp only [consecEdges, List.mem_cons] at h
      rcases h with rfl | h
      · simp
      · have := ih h
        exact ⟨List.mem_cons_of_mem _ this.1, List.mem_cons_of_mem _ this.2⟩

theorem mem_cyclicEdges (vs : List Pt) (e : Pt × Pt) (h : e ∈ cyclicEdges vs) : e.1 ∈ vs ∧ e.2 ∈ vs := by
  cases vs with
  | nil => simp [cyclicEdges] at h
  | cons v rest =>
    have := mem_consecEdges _ e h
    simp only [List.mem_append, List.mem_singleton] at this
    constructor
    · rcases this.1 with h | h
      · exact h
      · rw [h]; simp
    · rcases this.2 with h | h
      · exact h
      · rw [h]; simp

/-! ## direction independence -/

/-- Parity of the crossings of the `+y` ray is the even-odd test of the transposed polygon. -/
theorem evenOdd_swap_eq_parV (vs : List Pt) (p : Pt) :
    evenOdd (vs.map Pt.swap) p.swap = xorAll ((cyclicEdges vs).map fun e => crossV e.1 e.2 p) := by
  unfold evenOdd
  rw [cyclicEdges_map, List.map_map]
  rfl

/-- Off the boundary the `+x` ray and the `+y` ray cross the polygon with the same parity. -/
theorem evenOdd_eq_parV (vs : List Pt) (p : Pt) (h : onPolyBoundary vs p = false) :
    evenOdd vs p = xorAll ((cyclicEdges vs).map fun e => crossV e.1 e.2 p) := by
  have hpar := cyclic_parity (inQ p) vs
  have hq : ((cyclicEdges vs).map fun e => inQ p e.1 != inQ p e.2) =
      (cyclicEdges vs).map fun e => (crossH e.1 e.2 p != crossV e.1 e.2 p) := by
    apply List.map_congr_left
    intro e he
    have hoff : onSeg e.1 e.2 p = false := by
      unfold onPolyBoundary at h
      rw [List.any_eq_false] at h
      simpa using h e he
    exact (cross_quadrant e.1 e.2 p hoff).symm
  rw [hq, xorAll_map_bne] at hpar
  unfold evenOdd
  generalize xorAll ((cyclicEdges vs).map fun e => crossH e.1 e.2 p) = x at hpar ⊢
  generalize xorAll ((cyclicEdges vs).map fun e => crossV e.1 e.2 p) = y at hpar ⊢
  cases x <;> cases y <;> simp_all

/-- **Direction independence of the even-odd rule**: off the boundary, matplotlib's crossing test
gives the same answer after exchanging the two coordinates (i.e. shooting the ray along `+y`). -/
theorem evenOdd_swap (vs : List Pt) (p : Pt) (h : onPolyBoundary vs p = false) :
    evenOdd (vs.map Pt.swap) p.swap = evenOdd vs p := by
  rw [evenOdd_swap_eq_parV, evenOdd_eq_parV vs p h]

/-! ## the bounding-box prefilter is redundant -/

theorem listMin_le (l : List Rat) (q : Rat) (h : q ∈ l) : listMin l ≤ q := by
  induction l with
  | nil => simp at h
  | cons a rest ih =>
    cases rest with
    | nil => simp at h; simp [listMin, h]
    | cons b rest' =>
      simp only [listMin]
      rcases List.mem_cons.mp h with rfl | h
      · exact min_le_left _ _
      · exact le_trans (min_le_right _ _) (ih h)

theorem le_listMax (l : List Rat) (q : Rat) (h : q ∈ l) : q ≤ listMax l := by
  induction l with
  | nil => simp at h
  | cons a rest ih =>
    cases rest with
    | nil => simp at h; simp [listMax, h]
    | cons b rest' =>
      simp only [listMax]
      rcases List.mem_cons.mp h with rfl | h
      · exact le_max_left _ _
      · exact le_trans (ih h) (le_max_right _ _)

/-- Both endpoints strictly to the right of `p`: the ray is crossed iff the edge straddles it. -/
theorem crossH_right (a b p : Pt) (ha : p.x < a.x) (hb : p.x < b.x) :
    crossH a b p = (decide (a.y ≥ p.y) != decide (b.y ≥ p.y)) := by
  unfold crossH
  generalize h1 : decide (a.y ≥ p.y) = b1
  generalize h2 : decide (b.y ≥ p.y) = b2
  generalize h3 : decide ((b.y - p.y) * (a.x - b.x) ≥ (b.x - p.x) * (a.y - b.y)) = b3
  cases b1 <;> cases b2 <;> cases b3 <;>
    first
    | rfl
    | (exfalso
       simp only [decide_eq_true_eq, decide_eq_false_iff_not, ge_iff_le, not_le] at h1 h2 h3
       nlinarith)

/-- Both endpoints strictly to the left of `p`: the `+x` ray misses the edge. -/
theorem crossH_left (a b p : Pt) (ha : a.x < p.x) (hb : b.x < p.x) : crossH a b p = false := by
  unfold crossH
  generalize h1 : decide (a.y ≥ p.y) = b1
  generalize h2 : decide (b.y ≥ p.y) = b2
  generalize h3 : decide ((b.y - p.y) * (a.x - b.x) ≥ (b.x - p.x) * (a.y - b.y)) = b3
  cases b1 <;> cases b2 <;> cases b3 <;>
    first
    | rfl
    | (exfalso
       simp only [decide_eq_true_eq, decide_eq_false_iff_not, ge_iff_le, not_le] at h1 h2 h3
       nlinarith)

theorem crossH_same_side (a b p : Pt) (h : decide (a.y ≥ p.y) = decide (b.y ≥ p.y)) :
    crossH a b p = false := by
  unfold crossH; rw [h]; simp

/-- The prefilter of `points_inside_poly` never changes the answer. -/
theorem evenOdd_imp_bbox (vs : List Pt) (p : Pt) (h : evenOdd vs p = true) : bboxKeep vs p = true := by
  by_contra hb
  have hb : bboxKeep vs p = false := by simpa using hb
  have hfalse : evenOdd vs p = false := by
    unfold bboxKeep at hb
    simp only [Bool.and_eq_false_iff, decide_eq_false_iff_not, ge_iff_le, not_le] at hb
    have hx : ∀ q ∈ vs, listMin (vs.map (·.x)) ≤ q.x ∧ q.x ≤ listMax (vs.map (·.x)) := fun q hq =>
      ⟨listMin_le _ _ (List.mem_map_of_mem hq), le_listMax _ _ (List.mem_map_of_mem hq)⟩
    have hy : ∀ q ∈ vs, listMin (vs.map (·.y)) ≤ q.y ∧ q.y ≤ listMax (vs.map (·.y)) := fun q hq =>
      ⟨listMin_le _ _ (List.mem_map_of_mem hq), le_listMax _ _ (List.mem_map_of_mem hq)⟩
    unfold evenOdd
    rcases hb with ((hb | hb) | hb) | hb
    · -- p is left of every vertex: crossings = flag changes, an even number
      have : ((cyclicEdges vs).map fun e => crossH e.1 e.2 p) =
          (cyclicEdges vs).map fun e => (decide (e.1.y ≥ p.y) != decide (e.2.y ≥ p.y)) := by
        apply List.map_congr_left
        intro e he
        have hm := mem_cyclicEdges vs e he
        exact crossH_right e.1 e.2 p (lt_of_lt_of_le hb (hx _ hm.1).1) (lt_of_lt_of_le hb (hx _ hm.2).1)
      rw [this]
      exact cyclic_parity (fun q => decide (q.y ≥ p.y)) vs
    · apply xorAll_eq_false_of_all_false
      intro b hbm
      obtain ⟨e, he, rfl⟩ := List.mem_map.mp hbm
      have hm := mem_cyclicEdges vs e he
      exact crossH_left e.1 e.2 p (lt_of_le_of_lt (hx _ hm.1).2 hb) (lt_of_le_of_lt (hx _ hm.2).2 hb)
    · apply xorAll_eq_false_of_all_false
      intro b hbm
      obtain ⟨e, he, rfl⟩ := List.mem_map.mp hbm
      have hm := mem_cyclicEdges vs e he
      apply crossH_same_side
      have h1 : e.1.y ≥ p.y := le_of_lt (lt_of_lt_of_le hb (hy _ hm.1).1)
      have h2 : e.2.y ≥ p.y := le_of_lt (lt_of_lt_of_le hb (hy _ hm.2).1)
      simp [h1, h2]
    · apply xorAll_eq_false_of_all_false
      intro b hbm
      obtain ⟨e, he, rfl⟩ := List.mem_map.mp hbm
      have hm := mem_cyclicEdges vs e he
      apply crossH_same_side
      have h1 : ¬ e.1.y ≥ p.y := not_le.mpr (lt_of_le_of_lt (hy _ hm.1).2 hb)
      have h2 : ¬ e.2.y ≥ p.y := not_le.mpr (lt_of_le_of_lt (hy _ hm.2).2 hb)
      simp [h1, h2]
  rw [h] at hfalse
  exact Bool.noConfusion hfalse

/-- `points_inside_poly` is the even-odd rule. -/
theorem pointsInsidePoly_eq (vs : List Pt) (p : Pt) : pointsInsidePoly vs p = evenOdd vs p := by
  unfold pointsInsidePoly
  cases h : evenOdd vs p with
  | false => simp
  | true =>
    have hb := evenOdd_imp_bbox vs p h
    have hne : vs.isEmpty = false := by
      cases vs with
      | nil => simp [evenOdd, cyclicEdges, xorAll] at h
      | cons _ _ => rfl
    simp [hb, hne]

end GlueVerif.C09.Lemmas
